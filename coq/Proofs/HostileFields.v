(* C17 - lemmas about Model/HostileFields.v. *)
From Coq Require Import ZArith List Bool Lia Arith.
From BV Require Import Model.HostileFields.
Import ListNotations.
Open Scope Z_scope.

(* ------------------------------------------------------------------ configuration options *)
Lemma div2_bound : forall n, (n < 2 * S (Nat.div2 n))%nat.
Proof.
  intros n. pose proof (Nat.div2_odd n) as H. destruct (Nat.odd n); simpl Nat.b2n in H; lia.
Qed.

Lemma skipn_length_le : forall (A : Type) n (l : list A), (length (skipn n l) <= length l)%nat.
Proof. intros. rewrite skipn_length. lia. Qed.

(* every iteration consumes at least the two header bytes, so fuel > len/2 is never used up *)
Lemma decode_options_fuel_enough : forall fuel data,
  (length data < 2 * fuel)%nat -> decode_options fuel data <> None.
Proof.
  induction fuel as [|f IH]; intros data H; [lia|].
  simpl. destruct data as [|t [|l rest]]; try discriminate.
  specialize (IH (skipn (Z.to_nat l) rest)).
  pose proof (skipn_length_le Z (Z.to_nat l) rest). simpl in H.
  destruct (decode_options f (skipn (Z.to_nat l) rest)); [discriminate|].
  exfalso. apply IH; [lia | reflexivity].
Qed.

Lemma decode_options_terminates : forall data,
  decode_options (decode_options_fuel data) data <> None.
Proof.
  intros data. apply decode_options_fuel_enough. unfold decode_options_fuel.
  apply div2_bound.
Qed.

(* bytes accounted for by a decoded option list: 2 header bytes + the value *)
Fixpoint options_size (opts : list (Z * list Z)) : nat :=
  match opts with
  | [] => 0%nat
  | (_, v) :: rest => (2 + length v + options_size rest)%nat
  end.

Lemma decode_options_progress : forall fuel data opts,
  decode_options fuel data = Some opts ->
  (options_size opts <= length data)%nat /\ (2 * length opts <= length data)%nat.
Proof.
  induction fuel as [|f IH]; intros data opts H; [discriminate|].
  simpl in H. destruct data as [|t [|l rest]]; try (inversion H; subst; simpl; lia).
  destruct (decode_options f (skipn (Z.to_nat l) rest)) eqn:E; [|discriminate].
  inversion H; subst; clear H. apply IH in E. simpl.
  rewrite firstn_length. rewrite skipn_length in E. lia.
Qed.

(* more fuel never changes an answer *)
Lemma decode_options_fuel_mono : forall fuel data opts,
  decode_options fuel data = Some opts -> decode_options (S fuel) data = Some opts.
Proof.
  induction fuel as [|f IH]; intros data opts H; [discriminate|].
  simpl in H. destruct data as [|t [|l rest]]; try (inversion H; subst; reflexivity).
  destruct (decode_options f (skipn (Z.to_nat l) rest)) eqn:E; [|discriminate].
  apply IH in E. inversion H; subst.
  change (decode_options (S (S f)) (t :: l :: rest)) with
    (match decode_options (S f) (skipn (Z.to_nat l) rest) with
     | None => None
     | Some opts => Some ((t, firstn (Z.to_nat l) rest) :: opts)
     end).
  rewrite E. reflexivity.
Qed.

(* ------------------------------------------------------------------ field lists *)
(* [need fs off]: the least PDU length at which no strict field is cut short *)
Fixpoint need (fs : list fspec) (off : nat) : nat :=
  match fs with
  | [] => 0%nat
  | FU1 :: rest => Nat.max (off + 1) (need rest (off + 1))
  | FU2 :: rest => Nat.max (off + 2) (need rest (off + 2))
  | FBytes n :: rest => need rest (off + n)
  | FEnum n :: rest => need rest (off + n)
  | FRest :: _ => 0%nat
  | FOpaque :: _ => 0%nat
  end.

(* field lists inside the model: no opaque parser, '*' only in last position *)
Fixpoint wf_fields (fs : list fspec) : bool :=
  match fs with
  | [] => true
  | FOpaque :: _ => false
  | FRest :: rest => match rest with [] => true | _ => false end
  | _ :: rest => wf_fields rest
  end.

Lemma nth_error_some_iff : forall (l : list Z) n, (exists b, nth_error l n = Some b) <-> (n < length l)%nat.
Proof.
  intros l n. split.
  - intros [b H]. apply nth_error_Some. congruence.
  - intros H. destruct (nth_error l n) eqn:E; [eauto|]. apply nth_error_None in E. lia.
Qed.

Theorem parse_fields_accepts_iff : forall fs data off,
  wf_fields fs = true ->
  ((exists r, parse_fields fs data off = inr r) <-> (need fs off <= length data)%nat).
Proof.
  induction fs as [|f rest IH]; intros data off Hwf.
  - simpl. split; [lia | eauto].
  - destruct f; simpl in Hwf.
    + (* FU1 *) cbn [parse_fields parse_field need].
      destruct (nth_error data off) eqn:E.
      * assert (off < length data)%nat by (apply nth_error_Some; congruence).
        specialize (IH data (off + 1)%nat Hwf).
        destruct (parse_fields rest data (off + 1)) as [e|[vs o]] eqn:P.
        -- split; [intros [r Hr]; discriminate|]. intros Hn. exfalso.
           assert (need rest (off + 1) <= length data)%nat by lia.
           apply IH in H0. destruct H0; discriminate.
        -- split; [|eauto]. intros _. assert (need rest (off + 1) <= length data)%nat by (apply IH; eauto). lia.
      * apply nth_error_None in E. split; [intros [r Hr]; discriminate | lia].
    + (* FU2 *) cbn [parse_fields parse_field need].
      destruct (off + 2 <=? length data)%nat eqn:E.
      * apply Nat.leb_le in E. specialize (IH data (off + 2)%nat Hwf).
        destruct (parse_fields rest data (off + 2)) as [e|[vs o]] eqn:P.
        -- split; [intros [r Hr]; discriminate|]. intros Hn. exfalso.
           assert (need rest (off + 2) <= length data)%nat by lia.
           apply IH in H. destruct H; discriminate.
        -- split; [|eauto]. intros _. assert (need rest (off + 2) <= length data)%nat by (apply IH; eauto). lia.
      * apply Nat.leb_gt in E. split; [intros [r Hr]; discriminate | lia].
    + (* FBytes *) cbn [parse_fields parse_field need]. specialize (IH data (off + n)%nat Hwf).
      destruct (parse_fields rest data (off + n)) as [e|[vs o]] eqn:P.
      * split; [intros [r Hr]; discriminate|]. intros Hn. apply IH in Hn. destruct Hn; discriminate.
      * split; [|eauto]. intros _. apply IH; eauto.
    + (* FEnum *) cbn [parse_fields parse_field need]. specialize (IH data (off + n)%nat Hwf).
      destruct (parse_fields rest data (off + n)) as [e|[vs o]] eqn:P.
      * split; [intros [r Hr]; discriminate|]. intros Hn. apply IH in Hn. destruct Hn; discriminate.
      * split; [|eauto]. intros _. apply IH; eauto.
    + (* FRest *) destruct rest; [|discriminate]. cbn. split; [lia | eauto].
    + discriminate.
Qed.

(* the only errors of a modelled field list are the two "too short" exceptions *)
Lemma parse_fields_errors : forall fs data off e,
  wf_fields fs = true -> parse_fields fs data off = inl e -> e = EIndex \/ e = EStruct.
Proof.
  induction fs as [|f rest IH]; intros data off e Hwf H; [discriminate|].
  destruct f; simpl in Hwf; cbn [parse_fields parse_field] in H.
  - destruct (nth_error data off); [|inversion H; auto].
    destruct (parse_fields rest data (off + 1)) as [e'|[vs o]] eqn:P; [|discriminate].
    inversion H; subst. eapply IH; eauto.
  - destruct (off + 2 <=? length data)%nat; [|inversion H; auto].
    destruct (parse_fields rest data (off + 2)) as [e'|[vs o]] eqn:P; [|discriminate].
    inversion H; subst. eapply IH; eauto.
  - destruct (parse_fields rest data (off + n)) as [e'|[vs o]] eqn:P; [|discriminate].
    inversion H; subst. eapply IH; eauto.
  - destruct (parse_fields rest data (off + n)) as [e'|[vs o]] eqn:P; [|discriminate].
    inversion H; subst. eapply IH; eauto.
  - destruct rest; [|discriminate]. cbn in H. discriminate.
  - discriminate.
Qed.

(* the offset never moves backwards and one step is made per field *)
Lemma parse_fields_monotone : forall fs data off vs off',
  parse_fields fs data off = inr (vs, off') -> (off <= off')%nat /\ length vs = length fs.
Proof.
  induction fs as [|f rest IH]; intros data off vs off' H.
  - inversion H; subst. simpl. lia.
  - cbn [parse_fields] in H. destruct (parse_field data off f) as [e|[v size]]; [discriminate|].
    destruct (parse_fields rest data (off + size)) as [e|[vs1 o1]] eqn:P; [discriminate|].
    inversion H; subst. apply IH in P. simpl. lia.
Qed.

(* ------------------------------------------------------------------ ATT / SMP *)
(* the item loops: stride >= 1 and guard >= 1, so fuel len + 1 - off is never used up *)
Lemma item_loop_fuel_enough : forall fuel guard hdr stride data off,
  (1 <= stride)%nat -> (1 <= guard)%nat -> (1 <= fuel)%nat -> (length data + 1 - off <= fuel)%nat ->
  item_loop fuel guard hdr stride data off <> None.
Proof.
  induction fuel as [|f IH]; intros guard hdr stride data off Hs Hg H1 Hf.
  - lia.
  - cbn [item_loop]. destruct (off + guard <=? length data)%nat eqn:E; [|discriminate].
    apply Nat.leb_le in E. destruct (off + hdr <=? length data)%nat; [|discriminate].
    specialize (IH guard hdr stride data (off + stride)%nat Hs Hg ltac:(lia) ltac:(lia)).
    destruct (item_loop f guard hdr stride data (off + stride)) as [[e|items]|]; try discriminate.
    congruence.
Qed.

Lemma wrap_items_some : forall vals r, r <> None -> wrap_items vals r <> None.
Proof. intros vals r H. destruct r as [[e|i]|]; [discriminate | discriminate | congruence]. Qed.

Lemma item_loop_top : forall guard hdr stride data, (1 <= stride)%nat -> (1 <= guard)%nat ->
  item_loop (item_fuel data) guard hdr stride data 0 <> None.
Proof. intros. apply item_loop_fuel_enough; unfold item_fuel; lia. Qed.

Lemma len_items_some : forall hdr len data, 0 <= len -> len_items hdr len data <> None.
Proof.
  intros hdr len data Hl. unfold len_items. destruct (len =? 0) eqn:E; [discriminate|].
  apply Z.eqb_neq in E. apply item_loop_top; lia.
Qed.

(* [vals_ok]: integer field values are not negative (they are decoded bytes) *)
Fixpoint vals_ok (vals : list fval) : bool :=
  match vals with
  | [] => true
  | VInt v :: rest => (0 <=? v) && vals_ok rest
  | _ :: rest => vals_ok rest
  end.

Lemma att_post_terminates : forall op vals, vals_ok vals = true -> att_post op vals <> None.
Proof.
  intros op vals Hok. unfold att_post.
  destruct (op =? 5).
  { destruct vals as [|[f|b|l] [|[f2|b2|l2] [|x r]]]; try discriminate.
    apply wrap_items_some. destruct (f =? 1); apply item_loop_top; lia. }
  destruct (op =? 7).
  { destruct vals as [|[f|b|l] [|x r]]; try discriminate.
    apply wrap_items_some. apply item_loop_top; lia. }
  destruct (op =? 9).
  { destruct vals as [|[f|b|l] [|[f2|b2|l2] [|x r]]]; try discriminate.
    apply wrap_items_some. apply len_items_some. simpl in Hok. apply andb_true_iff in Hok.
    destruct Hok as [H _]. apply Z.leb_le in H. exact H. }
  destruct (op =? 17).
  { destruct vals as [|[f|b|l] [|[f2|b2|l2] [|x r]]]; try discriminate.
    apply wrap_items_some. apply len_items_some. simpl in Hok. apply andb_true_iff in Hok.
    destruct Hok as [H _]. apply Z.leb_le in H. exact H. }
  discriminate.
Qed.

Definition bytes_nonneg (data : list Z) : bool := forallb (fun b => 0 <=? b) data.

Lemma le_int_nonneg : forall bs, bytes_nonneg bs = true -> 0 <= le_int bs.
Proof.
  unfold le_int. induction bs as [|b rest IH]; intros H; cbn [fold_right]; [lia|].
  cbn [bytes_nonneg forallb] in H. apply andb_true_iff in H. destruct H as [H1 H2]. apply Z.leb_le in H1.
  specialize (IH H2). lia.
Qed.

Lemma bytes_nonneg_skipn : forall n data, bytes_nonneg data = true -> bytes_nonneg (skipn n data) = true.
Proof.
  induction n; intros data H; [exact H|]. destruct data; [exact H|].
  simpl in H. apply andb_true_iff in H. apply IHn. tauto.
Qed.

Lemma bytes_nonneg_firstn : forall n data, bytes_nonneg data = true -> bytes_nonneg (firstn n data) = true.
Proof.
  induction n; intros data H; [reflexivity|]. destruct data; [reflexivity|].
  simpl in *. apply andb_true_iff in H. apply andb_true_iff. split; [tauto | apply IHn; tauto].
Qed.

Lemma parse_fields_vals_ok : forall fs data off vals o,
  bytes_nonneg data = true -> parse_fields fs data off = inr (vals, o) -> vals_ok vals = true.
Proof.
  induction fs as [|f rest IH]; intros data off vals o Hb H.
  - inversion H; subst. reflexivity.
  - cbn [parse_fields] in H. destruct (parse_field data off f) as [e|[v size]] eqn:F; [discriminate|].
    destruct (parse_fields rest data (off + size)) as [e|[vs1 o1]] eqn:P; [discriminate|].
    inversion H; subst. specialize (IH data (off + size)%nat vs1 o Hb P).
    destruct f; cbn [parse_field] in F.
    + destruct (nth_error data off) eqn:N; [|discriminate]. inversion F; subst. cbn [vals_ok].
      apply andb_true_iff. split; [|exact IH]. apply Z.leb_le.
      apply nth_error_In in N. unfold bytes_nonneg in Hb. rewrite forallb_forall in Hb.
      apply Hb in N. apply Z.leb_le in N. exact N.
    + destruct (off + 2 <=? length data)%nat; [|discriminate]. inversion F; subst. cbn [vals_ok].
      apply andb_true_iff. split; [|exact IH]. apply Z.leb_le. apply le_int_nonneg.
      unfold slice. apply bytes_nonneg_firstn, bytes_nonneg_skipn. exact Hb.
    + inversion F; subst. exact IH.
    + inversion F; subst. cbn [vals_ok]. apply andb_true_iff. split; [|exact IH]. apply Z.leb_le.
      apply le_int_nonneg. unfold slice. apply bytes_nonneg_firstn, bytes_nonneg_skipn. exact Hb.
    + inversion F; subst. exact IH.
    + discriminate.
Qed.

(* ATT_PDU.from_bytes never runs out of fuel *)
Theorem att_from_bytes_terminates : forall table pdu,
  bytes_nonneg pdu = true -> att_from_bytes table pdu <> POutOfFuel.
Proof.
  intros table pdu Hb. unfold att_from_bytes. destruct pdu as [|op rest]; [discriminate|].
  destruct (lookup op table) as [fs|]; [|discriminate].
  destruct (parse_fields fs (op :: rest) 1) as [e|[vals o]] eqn:P; [discriminate|].
  pose proof (att_post_terminates op vals (parse_fields_vals_ok _ _ _ _ _ Hb P)).
  destruct (att_post op vals) as [[e|v]|]; try discriminate. congruence.
Qed.

Lemma att_post_other : forall op vals, mem op att_post_classes = false -> att_post op vals = Some (inr vals).
Proof.
  intros op vals H. unfold att_post_classes, mem in H. cbn in H.
  repeat (apply orb_false_iff in H; destruct H as [?H H]).
  unfold att_post. rewrite H0, H1, H2, H3. reflexivity.
Qed.

Theorem att_too_short_is_error : forall table pdu op fs,
  hd_error pdu = Some op -> lookup op table = Some fs -> wf_fields fs = true ->
  mem op att_post_classes = false ->
  ((length pdu < need fs 1)%nat <-> exists e, att_from_bytes table pdu = PErr e /\ (e = EIndex \/ e = EStruct)).
Proof.
  intros table pdu op fs Hhd Hl Hwf Hpost. destruct pdu as [|b rest]; [discriminate|].
  inversion Hhd; subst. unfold att_from_bytes. rewrite Hl.
  pose proof (parse_fields_accepts_iff fs (op :: rest) 1%nat Hwf) as Hiff.
  destruct (parse_fields fs (op :: rest) 1) as [e|[vals o]] eqn:P.
  - split.
    + intros _. exists e. split; [reflexivity|]. eapply parse_fields_errors; eauto.
    + intros _. destruct (Nat.lt_ge_cases (length (op :: rest)) (need fs 1)); [assumption|].
      apply Hiff in H. destruct H; discriminate.
  - rewrite (att_post_other op vals Hpost). split.
    + intros Hlt. exfalso. assert (need fs 1 <= length (op :: rest))%nat by (apply Hiff; eauto). lia.
    + intros [e [He _]]. discriminate.
Qed.

(* a Read By [Group] Type response whose length byte is too small for the item header is
   rejected (struct.error) as soon as one item fits; with length 0 the loop is skipped *)
Lemma item_loop_short_header : forall fuel guard hdr stride data,
  (guard <= length data)%nat -> (length data < hdr)%nat ->
  item_loop (S fuel) guard hdr stride data 0 = Some (inl EStruct).
Proof.
  intros fuel guard hdr stride data Hg Hh. cbn [item_loop]. cbn [Nat.add].
  destruct (guard <=? length data)%nat eqn:E; [|apply Nat.leb_gt in E; lia].
  destruct (hdr <=? length data)%nat eqn:E2; [apply Nat.leb_le in E2; lia | reflexivity].
Qed.

Theorem smp_too_short_is_error : forall table pdu code fs,
  hd_error pdu = Some code -> lookup code table = Some fs -> wf_fields fs = true ->
  ((length pdu < need fs 1)%nat <-> exists e, smp_from_bytes table pdu = PErr e /\ (e = EIndex \/ e = EStruct)).
Proof.
  intros table pdu op fs Hhd Hl Hwf. destruct pdu as [|b rest]; [discriminate|].
  inversion Hhd; subst. unfold smp_from_bytes. rewrite Hl.
  pose proof (parse_fields_accepts_iff fs (op :: rest) 1%nat Hwf) as Hiff.
  destruct (parse_fields fs (op :: rest) 1) as [e|[vals o]] eqn:P.
  - split.
    + intros _. exists e. split; [reflexivity|]. eapply parse_fields_errors; eauto.
    + intros _. destruct (Nat.lt_ge_cases (length (op :: rest)) (need fs 1)); [assumption|].
      apply Hiff in H. destruct H; discriminate.
  - split.
    + intros Hlt. exfalso. assert (need fs 1 <= length (op :: rest))%nat by (apply Hiff; eauto). lia.
    + intros [e [He _]]. discriminate.
Qed.

Lemma att_empty_is_error : forall table, att_from_bytes table [] = PErr EEmpty.
Proof. reflexivity. Qed.

Lemma smp_empty_is_error : forall table, smp_from_bytes table [] = PErr EEmpty.
Proof. reflexivity. Qed.

(* ------------------------------------------------------------------ signalling *)
Section Sig.
  Variable chan_state : Type.
  Variable handler : Z -> Z -> list fval -> chan_state -> chan_state * list (list Z) * bool.
  Variable classes : list (Z * list fspec).
  Variable handled : list Z.

  Notation on_pdu := (on_signalling_pdu chan_state handler classes handled).

  Lemma sig_short_is_error : forall pdu, (length pdu < 4)%nat ->
    sig_from_bytes classes pdu = (PErr EStruct, 0).
  Proof.
    intros pdu H. destruct pdu as [|a [|b [|c [|d rest]]]]; try reflexivity. simpl in H. lia.
  Qed.

  (* a frame that does not decode: nothing is sent, the channel tables are untouched *)
  Theorem sig_parse_error_contained : forall st pdu e i,
    sig_from_bytes classes pdu = (PErr e, i) -> on_pdu st pdu = (st, [], SigParseError e).
  Proof. intros st pdu e i H. unfold on_signalling_pdu. rewrite H. reflexivity. Qed.

  Theorem sig_short_contained : forall st pdu, (length pdu < 4)%nat ->
    on_pdu st pdu = (st, [], SigParseError EStruct).
  Proof. intros. eapply sig_parse_error_contained. apply sig_short_is_error. assumption. Qed.

  Lemma dispatch_rejected : forall st code ident vals st' sent,
    dispatch chan_state handler handled st code ident vals = (st', sent, SigRejected) ->
    st' = st /\ sent = [command_reject ident].
  Proof.
    intros st code ident vals st' sent H. unfold dispatch in H.
    destruct (mem code handled).
    - destruct (handler code ident vals st) as [[s1 o1] [|]]; discriminate.
    - inversion H; subst. auto.
  Qed.

  Definition ident_of (pdu : list Z) : Z := nth 1 pdu 0.

  Lemma sig_ident : forall pdu r i, (4 <= length pdu)%nat ->
    sig_from_bytes classes pdu = (r, i) -> i = ident_of pdu.
  Proof.
    intros pdu r i H E. destruct pdu as [|a [|b [|c [|d rest]]]]; simpl in H; try lia.
    unfold sig_from_bytes in E. unfold ident_of. simpl.
    destruct (lookup a classes); [destruct (parse_fields l (a :: b :: c :: d :: rest) 4) as [e|[v o]]|];
      inversion E; reflexivity.
  Qed.

  (* a rejected command leaves the tables unchanged and is answered by exactly one
     Command Reject carrying the identifier of the request *)
  Theorem sig_reject_unchanged : forall st pdu st' sent,
    on_pdu st pdu = (st', sent, SigRejected) ->
    st' = st /\ sent = [command_reject (ident_of pdu)] /\ (4 <= length pdu)%nat.
  Proof.
    intros st pdu st' sent H. unfold on_signalling_pdu in H.
    destruct (Nat.lt_ge_cases (length pdu) 4) as [Hs|Hl].
    { rewrite (sig_short_is_error pdu Hs) in H. discriminate. }
    destruct (sig_from_bytes classes pdu) as [r i] eqn:E.
    pose proof (sig_ident pdu r i Hl E) as Hi. subst i.
    destruct r; [discriminate| | |discriminate]; apply dispatch_rejected in H; tauto.
  Qed.

  (* a code with no handler method is always rejected, whatever its body *)
  Theorem sig_unhandled_rejected : forall st code ident l0 l1 body,
    mem code handled = false ->
    (forall fs, lookup code classes = Some fs -> exists r, parse_fields fs (code :: ident :: l0 :: l1 :: body) 4 = inr r) ->
    on_pdu st (code :: ident :: l0 :: l1 :: body) = (st, [command_reject ident], SigRejected).
  Proof.
    intros st code ident l0 l1 body Hm Hp. unfold on_signalling_pdu, sig_from_bytes.
    destruct (lookup code classes) as [fs|] eqn:L.
    - destruct (Hp fs eq_refl) as [[vals o] Hr]. rewrite Hr. unfold dispatch. rewrite Hm. reflexivity.
    - unfold dispatch. rewrite Hm. reflexivity.
  Qed.

  (* when a handler raises, the last frame sent is the Command Reject for that request *)
  Theorem sig_handler_raised_rejects : forall st pdu st' sent,
    on_pdu st pdu = (st', sent, SigHandlerRaised) ->
    exists before, sent = before ++ [command_reject (ident_of pdu)].
  Proof.
    intros st pdu st' sent H. unfold on_signalling_pdu in H.
    destruct (Nat.lt_ge_cases (length pdu) 4) as [Hs|Hl].
    { rewrite (sig_short_is_error pdu Hs) in H. discriminate. }
    destruct (sig_from_bytes classes pdu) as [r i] eqn:E.
    pose proof (sig_ident pdu r i Hl E) as Hi. subst i.
    destruct r; [discriminate| | |discriminate]; unfold dispatch in H;
      destruct (mem code handled); try discriminate;
      destruct (handler code (ident_of pdu) _ st) as [[s1 o1] [|]]; inversion H; subst; eauto.
  Qed.
End Sig.
