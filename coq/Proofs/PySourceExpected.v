(* C14 - the shape of the source recorded when the models were written.
   For the functions whose meaning is not (yet) derived from the translated source by a
   [..._matches_source] theorem - _CMAC.__init__ / update (interpreted only through their
   callees _update / digest), aes_cmac, e - the translated term must be EQUAL to the copy kept
   here; for the functions that contain loops or comprehensions a digest of the normalised AST
   must be equal to the recorded one.  Any edit of those functions breaks the obligation: the
   model then has to be re-read against the new code and this file updated. *)
From Coq Require Import ZArith List String.
From BV Require Import Model.PyAst Gen.C14Source.
Import ListNotations.
Open Scope Z_scope.
Open Scope string_scope.

Definition expected_cmac_init : list stmt :=
  [(SAssign "self.digest_size" (EName "mac_len")); (SAssign "self._key" (EName "key")); (SAssign "self._block_size" (EInt 16)); (SAssign "bs" (EInt 16)); (SAssign "self._mac_tag" ENone); (SAssign "self._update_after_digest" (EName "update_after_digest")); (SIf (ECmp CEq (EName "bs") (EInt 8)) [(SAssign "const_Rb" (EInt 27)); (SAssign "self._max_size" (EBin Mul (EInt 8) (EBin Pow (EInt 2) (EInt 21))))] [(SIf (ECmp CEq (EName "bs") (EInt 16)) [(SAssign "const_Rb" (EInt 135)); (SAssign "self._max_size" (EBin Mul (EInt 16) (EBin Pow (EInt 2) (EInt 48))))] [SRaise])]); (SAssign "zero_block" (ECall "bytes" [(EName "bs")])); (SAssign "self._ecb" (ECall "_ECB" [(EName "key")])); (SAssign "L" (ECall "self._ecb.encrypt" [(EName "self"); (EName "zero_block")])); (SIf (EBin BitAnd (EIndex (EName "L") (EInt 0)) (EInt 128)) [(SAssign "self._k1" (ECall "_shift_bytes" [(EName "L"); (EName "const_Rb")]))] [(SAssign "self._k1" (ECall "_shift_bytes" [(EName "L")]))]); (SIf (EBin BitAnd (EIndex (EName "self._k1") (EInt 0)) (EInt 128)) [(SAssign "self._k2" (ECall "_shift_bytes" [(EName "self._k1"); (EName "const_Rb")]))] [(SAssign "self._k2" (ECall "_shift_bytes" [(EName "self._k1")]))]); (SAssign "self._cbc" (ECall "_CBC" [(EName "key"); (EName "zero_block")])); (SAssign "self._cache" (ECall "bytearray" [(EName "bs")])); (SAssign "self._cache_n" (EInt 0)); (SAssign "self._last_ct" (EName "zero_block")); (SAssign "self._last_pt" ENone); (SAssign "self._data_size" (EInt 0)); (SIf (EName "msg") [(SCall None "self.update" [(EName "msg")])] [])].

Definition expected_cmac_update : list stmt :=
  [(SIf (EAnd (ECmp CIsNot (EName "self._mac_tag") ENone) (ENot (EName "self._update_after_digest"))) [SRaise] []); (SAug "self._data_size" Add (ECall "len" [(EName "msg")])); (SAssign "bs" (EName "self._block_size")); (SIf (ECmp CGt (EName "self._cache_n") (EInt 0)) [(SAssign "filler" (ECall "min" [(EBin Sub (EName "bs") (EName "self._cache_n")); (ECall "len" [(EName "msg")])])); (SSliceAssign "self._cache" (Some (EName "self._cache_n")) (Some (EBin Add (EName "self._cache_n") (EName "filler"))) (ESlice (EName "msg") None (Some (EName "filler")))); (SAug "self._cache_n" Add (EName "filler")); (SIf (ECmp CLt (EName "self._cache_n") (EName "bs")) [(SReturn (EName "self"))] []); (SAssign "msg" (ESlice (EName "msg") (Some (EName "filler")) None)); (SCall None "self._update" [(EName "self._cache")]); (SAssign "self._cache_n" (EInt 0))] []); (SAssign "remain" (EBin Mod (ECall "len" [(EName "msg")]) (EName "bs"))); (SIf (ECmp CGt (EName "remain") (EInt 0)) [(SCall None "self._update" [(ESlice (EName "msg") None (Some (ENeg (EName "remain"))))]); (SSliceAssign "self._cache" None (Some (EName "remain")) (ESlice (EName "msg") (Some (ENeg (EName "remain"))) None))] [(SCall None "self._update" [(EName "msg")])]); (SAssign "self._cache_n" (EName "remain")); (SReturn (EName "self"))].

Definition expected_builtin_aes_cmac : list stmt :=
  [(SReturn (ECall ".digest" [(ECall "_CMAC" [(EName "k"); (EName "m"); (EInt 16); (EBool false)])]))].

Definition expected_builtin_e : list stmt :=
  [(SReturn (ECall "[::-1]" [(ECall ".encrypt" [(ECall "_ECB" [(ECall "[::-1]" [(EName "key")])]); (ECall "[::-1]" [(EName "data")])])]))].

Definition expected_fingerprints : list (string * string) :=
  [("builtin_xor", "dfa237fd7afe66d55f20f7c5f55f6fd9");
   ("compact_word", "9c6841eb2aaae293032c6d1bd6c01efb");
   ("aes_init", "f623b84868f1db76a34d56c264c8812b");
   ("aes_encrypt", "c0219727296c6bae6e2e809fa7642a07");
   ("ecb_init", "3a17976d3f7f4a3f9217bb8b776a3123");
   ("ecb_encrypt", "1fc42c3584fc0dcb38634f9677e2cd8e");
   ("cbc_init", "c02cca5822f20a3f8ee6d6c3bcd46e4a");
   ("cbc_encrypt", "b0334d0d1911611ba1209d8c6038052b");
   ("jac_point_at_infinity", "4d8a471a571a45c0839cf49b3cf8c11a");
   ("jac_mul", "570870d147824550ecc7c5c8ea42e159");
   ("jac_rmul", "7cf9ded785f7edcadf1050d6751d41b6");
   ("curve_post_init", "b003cde30e3bfe5d2967589ecd34729b");
   ("ecc_key_init", "25148dc4b4120dd44fcc5d144c4f9c9e");
   ("ecc_from_private_key_bytes", "d7faa9ce517ad0bb88b040c076727de7");
   ("address_resolver_init", "16c880dd7301cb19ad7e6c8cd96cf6e0");
   ("address_resolver_resolve", "da01c91ca8c8c802772a67950fdc5cf1");
   ("address_bytes", "417368273f7764459f16868d7d79d0d3");
   ("point_class", "697788ec175e886516e5480a3ca9d70b");
   ("jacobian_class", "08e6eb57502f6c76c33237bb001f6316");
   ("ecc_key_class", "d7dc45683ee1b7e6ec40a45313f76b3b");
   ("cmac_class", "78976cbd4423842087913e8352c481fd");
   ("address_resolver_class", "7370cbeffce459f81cb7acc32a0dbb2b")].

Definition source_fingerprints : list (string * string) :=
  [("builtin_xor", fp_builtin_xor);
   ("compact_word", fp_compact_word);
   ("aes_init", fp_aes_init);
   ("aes_encrypt", fp_aes_encrypt);
   ("ecb_init", fp_ecb_init);
   ("ecb_encrypt", fp_ecb_encrypt);
   ("cbc_init", fp_cbc_init);
   ("cbc_encrypt", fp_cbc_encrypt);
   ("jac_point_at_infinity", fp_jac_point_at_infinity);
   ("jac_mul", fp_jac_mul);
   ("jac_rmul", fp_jac_rmul);
   ("curve_post_init", fp_curve_post_init);
   ("ecc_key_init", fp_ecc_key_init);
   ("ecc_from_private_key_bytes", fp_ecc_from_private_key_bytes);
   ("address_resolver_init", fp_address_resolver_init);
   ("address_resolver_resolve", fp_address_resolver_resolve);
   ("address_bytes", fp_address_bytes);
   ("point_class", fp_point_class);
   ("jacobian_class", fp_jacobian_class);
   ("ecc_key_class", fp_ecc_key_class);
   ("cmac_class", fp_cmac_class);
   ("address_resolver_class", fp_address_resolver_class)].

Theorem cmac_init_source_unchanged : src_cmac_init = expected_cmac_init.
Proof. reflexivity. Qed.

Theorem cmac_update_source_unchanged : src_cmac_update = expected_cmac_update.
Proof. reflexivity. Qed.

Theorem builtin_aes_cmac_source_unchanged : src_builtin_aes_cmac = expected_builtin_aes_cmac.
Proof. reflexivity. Qed.

Theorem builtin_e_source_unchanged : src_builtin_e = expected_builtin_e.
Proof. reflexivity. Qed.

Theorem loop_functions_source_unchanged : source_fingerprints = expected_fingerprints.
Proof. reflexivity. Qed.
