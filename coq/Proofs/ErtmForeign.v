(* Proofs about Model/Ertm.v, part 4: ONE bumble endpoint against an arbitrary peer.
   Whatever frames arrive (REJ, SREJ, RNR, polls, bogus acknowledgements, out-of-sequence or
   malformed I-frames, in any order, mixed with local writes and timer firings), for any
   peer MPS >= 1 and ANY advertised window >= 0 (also >= 64):
     - the transmit window never holds more than the peer's window,
     - the I-frames sent so far followed by the queued pdus are exactly the numbered
       segment stream of the SDUs written (so TxSeq = i mod 64, nothing repeated),
     - every supervisory frame sent is an RR.
   Nothing is claimed about what the sink receives from a hostile peer. *)
From Coq Require Import ZArith List Bool Lia.
From BV Require Import Model.Crc16 Model.Ertm Proofs.ErtmSeg Proofs.Ertm.
Import ListNotations.
Open Scope Z_scope.

Record sinv (e : ep) (W : list (list Z)) (out : list frame) (done : list pdu) : Prop := {
  f_mps : 1 <= e_pmps e;
  f_win0 : 0 <= e_pwin e;
  f_num : number 0 (segs_of (e_pmps e) W) = done ++ e_txw e ++ e_pend e;
  f_next : e_next e = zlen (segs_of (e_pmps e) W) mod 64;
  f_win : zlen (e_txw e) <= e_pwin e;
  f_out : ikeys out = map pkey (done ++ e_txw e);
  f_sok : Forall sframe_ok out
}.

Definition sinvE e W out := exists done, sinv e W out done.

Lemma po_sinv e W out done e' o :
  sinv e W out done -> process_output e = (e', o) -> sinv e' W (out ++ o) done.
Proof.
  intros [] H. unfold process_output in H. destruct (_ || _).
  - injection H as <- <-. rewrite app_nil_r. constructor; auto.
  - injection H as <- <-.
    set (k := Z.to_nat (e_pwin e - Z.of_nat (length (e_txw e)))).
    constructor; cbn [e_pmps e_pwin e_next e_pend e_txw]; auto.
    + rewrite f_num0. rewrite <- (firstn_skipn k (e_pend e)) at 1. now rewrite <- !app_assoc.
    + rewrite zlen_app. unfold zlen at 2. rewrite firstn_length. unfold k, zlen in *. lia.
    + rewrite ikeys_app, ikeys_iframes, f_out0, !map_app. now rewrite <- !app_assoc.
    + apply Forall_app. split; [assumption|apply iframes_ok].
Qed.

Lemma update_ack_sinv e W out done n fin e' o :
  sinv e W out done -> update_ack e n fin = (e', o) -> sinvE e' W (out ++ o).
Proof.
  intros I H. unfold update_ack in H.
  set (k := (n - e_lack e) mod MAX_SEQ_NUM) in *.
  destruct (Z.ltb_spec (Z.of_nat (length (e_txw e))) k) as [Hlt|Hge].
  - injection H as <- <-. rewrite app_nil_r. now exists done.
  - pose proof I as [].
    assert (Hk0 : 0 <= k) by (unfold k, MAX_SEQ_NUM; apply Z.mod_pos_bound; lia).
    assert (Hn : (Z.to_nat k <= length (e_txw e))%nat) by lia.
    exists (done ++ firstn (Z.to_nat k) (e_txw e)).
    eapply po_sinv; [|exact H].
    constructor; cbn [e_pmps e_pwin e_next e_pend e_txw]; auto.
    + rewrite f_num0. rewrite <- (firstn_skipn (Z.to_nat k) (e_txw e)) at 1.
      now rewrite <- !app_assoc.
    + rewrite zlen_skipn by assumption. lia.
    + rewrite f_out0. rewrite <- (firstn_skipn (Z.to_nat k) (e_txw e)) at 1.
      now rewrite <- !app_assoc.
Qed.

Lemma send_sdu_sinv e W out sdu e' o :
  sinvE e W out -> send_sdu e sdu = (e', o) -> sinvE e' (W ++ [sdu]) (out ++ o).
Proof.
  intros [done I] H. pose proof I as []. unfold send_sdu in H.
  rewrite f_next0, (assign_number _ (zlen (segs_of (e_pmps e) W))) in H. unfold MAX_SEQ_NUM in H.
  exists done. eapply po_sinv; [|exact H].
  constructor; cbn [e_pmps e_pwin e_next e_pend e_txw]; auto.
  - rewrite segs_of_app. cbn [segs_of flat_map]. rewrite app_nil_r.
    rewrite number_app, f_num0, Z.add_0_l. now rewrite <- !app_assoc.
  - rewrite segs_of_app. cbn [segs_of flat_map]. rewrite app_nil_r. now rewrite zlen_app.
Qed.

(* adding supervisory RR frames and touching only receiver / busy / timer fields *)
Lemma sinv_extra e W out done e' extra :
  sinv e W out done ->
  e_pmps e' = e_pmps e -> e_pwin e' = e_pwin e -> e_next e' = e_next e ->
  e_pend e' = e_pend e -> e_txw e' = e_txw e ->
  ikeys extra = [] -> Forall sframe_ok extra ->
  sinv e' W (out ++ extra) done.
Proof.
  intros [] E1 E2 E3 E4 E5 Hk Hok. constructor; rewrite ?E1, ?E2, ?E3, ?E4, ?E5; auto.
  - now rewrite ikeys_app, Hk, app_nil_r.
  - apply Forall_app. auto.
Qed.

Lemma on_frame_sinv e W out f e' o sdus :
  sinvE e W out -> on_frame e f = (e', o, sdus) -> sinvE e' W (out ++ o).
Proof.
  intros [done I] H.
  destruct f as [tx req s l data ifin | func poll final req]; cbn [on_frame] in H.
  - destruct (update_ack e req ifin) as [e1 o1] eqn:Hu.
    destruct (update_ack_sinv _ _ _ _ _ _ _ _ I Hu) as [d1 I1].
    destruct (negb (tx =? e_req e1)); [injection H as <- <- <-; now exists d1|].
    match type of H with (if ?c then _ else _) = _ => destruct c end.
    + injection H as <- <- <-. exists d1.
      rewrite <- (app_nil_r (out ++ o1)). eapply sinv_extra; eauto; repeat constructor.
    + cbn [send_rr] in H. injection H as <- <- <-. exists d1.
      rewrite app_assoc. eapply sinv_extra; eauto; repeat constructor.
  - destruct (update_ack e req final) as [e1 o1] eqn:Hu.
    destruct (update_ack_sinv _ _ _ _ _ _ _ _ I Hu) as [d1 I1].
    destruct (((func =? RR) || (func =? RNR)) && poll).
    + cbn [send_rr] in H. injection H as <- <- <-. exists d1.
      rewrite app_assoc. eapply sinv_extra; eauto; repeat constructor.
    + injection H as <- <- <-. exists d1.
      rewrite <- (app_nil_r (out ++ o1)). eapply sinv_extra; eauto; repeat constructor.
Qed.

Lemma retx_timeout_sinv e W out e' o :
  sinvE e W out -> retx_timeout e = (e', o) -> sinvE e' W (out ++ o).
Proof.
  intros [done I] H. unfold retx_timeout in H. destruct (e_rrarm e).
  - cbn in H. injection H as <- <-. exists done. eapply sinv_extra; eauto; repeat constructor.
  - injection H as <- <-. rewrite app_nil_r. now exists done.
Qed.

Lemma mon_timeout_sinv e W out e' o :
  sinvE e W out -> mon_timeout e = (e', o) -> sinvE e' W (out ++ o).
Proof.
  intros [done I] H. unfold mon_timeout in H.
  destruct (e_mon e); try (injection H as <- <-; rewrite app_nil_r; now exists done).
  destruct (_ || _).
  - cbn in H. injection H as <- <-. exists done. eapply sinv_extra; eauto; repeat constructor.
  - injection H as <- <-. exists done.
    eapply sinv_extra; eauto; repeat constructor.
Qed.

Definition ew_of (l : elabel) : list (list Z) := match l with EWrite w => [w] | _ => [] end.

Lemma estep_sinv e W out l e' o sdus :
  sinvE e W out -> estep e l = (e', o, sdus) -> sinvE e' (W ++ ew_of l) (out ++ o).
Proof.
  intros I H. destruct l as [w | f | payload | | ]; cbn [estep ew_of] in *; rewrite ?app_nil_r.
  - destruct (send_sdu e w) as [e1 o1] eqn:E. injection H as <- <- <-.
    eapply send_sdu_sinv; eauto.
  - eapply on_frame_sinv; eauto.
  - destruct (dec_frame payload) as [f|].
    + eapply on_frame_sinv; eauto.
    + injection H as <- <- <-. now rewrite app_nil_r.
  - destruct (retx_timeout e) as [e1 o1] eqn:E. injection H as <- <- <-.
    eapply retx_timeout_sinv; eauto.
  - destruct (mon_timeout e) as [e1 o1] eqn:E. injection H as <- <- <-.
    eapply mon_timeout_sinv; eauto.
Qed.

Lemma erun_sinv ls : forall e W out e' o sdus,
  sinvE e W out -> erun e ls = (e', o, sdus) -> sinvE e' (W ++ ewrites ls) (out ++ o).
Proof.
  induction ls as [|l r IH]; intros e W out e' o sdus I H; cbn [erun ewrites] in *.
  - injection H as <- <- <-. now rewrite !app_nil_r.
  - destruct (estep e l) as [[e1 o1] sd1] eqn:E1.
    destruct (erun e1 r) as [[e2 o2] sd2] eqn:E2. injection H as <- <- <-.
    pose proof (estep_sinv _ _ _ _ _ _ _ I E1) as I1.
    pose proof (IH _ _ _ _ _ _ I1 E2) as I2.
    destruct l; cbn [ew_of] in I2; rewrite ?app_nil_r, <- ?app_assoc in I2;
      rewrite ?app_assoc in *; try exact I2.
    all: rewrite <- !app_assoc in *; exact I2.
Qed.

Lemma estep_params e l e' o sd : estep e l = (e', o, sd) -> same_params e e'.
Proof.
  destruct l; cbn [estep]; intros H.
  - destruct (send_sdu e sdu) eqn:F. injection H as <- <- <-. eapply send_sdu_params; eauto.
  - eapply on_frame_params; eauto.
  - destruct (dec_frame payload); [eapply on_frame_params; eauto|].
    injection H as <- <- <-. split; reflexivity.
  - destruct (retx_timeout e) eqn:F. injection H as <- <- <-. eapply timeout_params; eauto.
  - destruct (mon_timeout e) eqn:F. injection H as <- <- <-. eapply mon_timeout_params; eauto.
Qed.

Lemma erun_params ls : forall e e' o sd, erun e ls = (e', o, sd) -> same_params e e'.
Proof.
  induction ls as [|l r IH]; intros e e' o sd H; cbn [erun] in H.
  - injection H as <- <- <-. split; reflexivity.
  - destruct (estep e l) as [[ea oa] sa] eqn:Ea.
    destruct (erun ea r) as [[eb ob] sb] eqn:Eb. injection H as <- <- <-.
    destruct (estep_params _ _ _ _ _ Ea) as [A1 A2]. destruct (IH _ _ _ _ Eb) as [B1 B2].
    split; congruence.
Qed.

Theorem ertm_foreign_peer_safe pmps pwin ls :
  1 <= pmps -> 0 <= pwin ->
  let '(e, out, _) := erun (ep_init pmps pwin) ls in
  zlen (e_txw e) <= pwin /\
  (exists rest, map pkey (number 0 (segs_of pmps (ewrites ls))) = ikeys out ++ rest) /\
  map tx_of (ikeys out) = map (fun i => Z.of_nat i mod 64) (seq 0 (length (ikeys out))) /\
  Forall sframe_ok out.
Proof.
  intros Hm Hw.
  assert (I0 : sinvE (ep_init pmps pwin) [] []).
  { exists []. constructor; cbn; auto; lia. }
  destruct (erun (ep_init pmps pwin) ls) as [[e out] sdus] eqn:E.
  destruct (erun_sinv _ _ _ _ _ _ _ I0 E) as [done []]. cbn [app] in *.
  assert (Hp : e_pmps e = pmps /\ e_pwin e = pwin).
  { destruct (erun_params _ _ _ _ _ E) as [P1 P2]. cbn in P1, P2. auto. }
  destruct Hp as [Hp1 Hp2]. rewrite Hp1, Hp2 in *.
  split; [assumption|]. split.
  - exists (map pkey (e_pend e)). rewrite f_num0, f_out0, !map_app. now rewrite <- !app_assoc.
  - split; [|assumption].
    assert (Hn : number 0 (segs_of pmps (ewrites ls)) = (done ++ e_txw e) ++ e_pend e)
      by (rewrite f_num0; now rewrite <- !app_assoc).
    apply number_split in Hn as [Hn _].
    rewrite f_out0, pkey_tx, map_length. rewrite Hn at 1.
    rewrite number_txs, map_length. reflexivity.
Qed.
