(* Proofs/CodecsRegistry.v — the generic field-codec theorems of Proofs/SpecCodec.v
   instantiated on a registry of PDU classes, and the PDU framing of Model/CodecsRegistry.v. *)
From Coq Require Import ZArith List Bool String Lia.
From BV Require Import Base.Bytes Proofs.Bytes Model.SpecCodec Proofs.SpecCodec
  Model.CodecsBase Proofs.CodecsBase Model.CodecsRegistry Gen.C18Registry.
Import ListNotations.
Open Scope Z_scope.

Lemma wf_pregistry_In : forall cs c, wf_pregistry cs = true -> In c cs ->
  wf_fields (p_fields c) = true /\ 0 <= p_proto c < 4 /\ 0 <= p_code c < 256.
Proof.
  intros cs c H Hin. unfold wf_pregistry in H. rewrite forallb_forall in H. specialize (H c Hin).
  unfold wf_pcls in H. rewrite !andb_true_iff in H. destruct H as [[H1 H2] H3].
  apply zlt_iff in H2. apply byte_ok_iff in H3. auto.
Qed.

(* every class of a well-formed registry, every in-range value list *)
Theorem registry_fields_roundtrip : forall cs, wf_pregistry cs = true ->
  forall c, In c cs -> forall prev0 vs, in_range (p_fields c) prev0 vs = true ->
  exists b n, serialize_fields (p_fields c) vs = Some b /\
              parse_fields (p_fields c) prev0 b = Some (vs, n) /\ (n <= Datatypes.length b)%nat.
Proof.
  intros cs Hwf c Hin prev0 vs Hr. destruct (wf_pregistry_In cs c Hwf Hin) as [Hw _].
  exact (parse_serialize (p_fields c) prev0 vs Hw Hr).
Qed.

Theorem registry_bytes_roundtrip : forall cs, wf_pregistry cs = true ->
  forall c, In c cs -> forall prev0 bs vs n, bytes_ok bs = true ->
  parse_fields (p_fields c) prev0 bs = Some (vs, n) -> (n <= Datatypes.length bs)%nat ->
  exists pad, serialize_fields (p_fields c) vs = Some (firstn n bs ++ pad) /\
              (tight_fields (p_fields c) = true -> pad = []).
Proof.
  intros cs Hwf c Hin prev0 bs vs n Hok Hp Hn. destruct (wf_pregistry_In cs c Hwf Hin) as [Hw _].
  exact (serialize_parse (p_fields c) prev0 bs vs n Hw Hok Hp Hn).
Qed.

(* class lookup *)
Lemma find_pcls_complete : forall cs c, pkeys_unique cs = true -> In c cs ->
  find_pcls cs (p_proto c) (p_code c) = Some c.
Proof.
  induction cs as [|x r IH]; intros c Hu Hin; [destruct Hin|].
  cbn [pkeys_unique] in Hu. apply andb_true_iff in Hu as [Hx Hr]. apply negb_true_iff in Hx.
  unfold find_pcls. cbn [find]. destruct Hin as [-> | Hin].
  - unfold same_key. rewrite !Z.eqb_refl. reflexivity.
  - destruct (same_key (p_proto c) (p_code c) x) eqn:E.
    + exfalso. unfold same_key in E. apply andb_true_iff in E as [E1 E2].
      apply Z.eqb_eq in E1. apply Z.eqb_eq in E2.
      assert (existsb (same_key (p_proto x) (p_code x)) r = true).
      { apply existsb_exists. exists c. split; [exact Hin|]. unfold same_key.
        rewrite <- E1, <- E2, !Z.eqb_refl. reflexivity. }
      congruence.
    + apply IH; assumption.
Qed.

Lemma header_shape : forall proto code ident plen h,
  0 <= proto < 4 -> pdu_header proto code ident plen = Some h ->
  Datatypes.length h = header_len proto /\ hd 0 h = code /\
  (proto = 0 \/ proto = 3 -> pdu_ident proto (h ++ []) = ident) /\
  forall tail, pdu_ident proto (h ++ tail) = pdu_ident proto (h ++ []).
Proof.
  intros proto code ident plen h Hp H. unfold pdu_header, header_len in *.
  assert (C : proto = 0 \/ proto = 1 \/ proto = 2 \/ proto = 3) by lia.
  destruct C as [-> | [-> | [-> | ->]]]; cbn [Z.eqb Pos.eqb] in *.
  - destruct (u_range 1 code && u_range 1 ident && u_range 2 plen); [|discriminate].
    apply some_inv in H. subst h. cbn [le_encode Datatypes.length hd app]. repeat split; try reflexivity.
  - destruct (u_range 1 code); [|discriminate]. apply some_inv in H. subst h.
    repeat split; try reflexivity. intros [|]; discriminate.
  - destruct (u_range 1 code); [|discriminate]. apply some_inv in H. subst h.
    repeat split; try reflexivity. intros [|]; discriminate.
  - destruct (u_range 1 code && u_range 2 ident && u_range 2 plen) eqn:E; [|discriminate].
    apply some_inv in H. subst h. rewrite !andb_true_iff in E. destruct E as [[_ Hi] _].
    apply u_range_iff in Hi.
    pose proof (be_encode_length 2 ident) as L1. pose proof (be_encode_length 2 plen) as L2.
    destruct (be_encode 2 ident) as [|i0 [|i1 [|? ?]]] eqn:Ei; try discriminate.
    destruct (be_encode 2 plen) as [|l0 [|l1 [|? ?]]] eqn:El; try discriminate.
    cbn [app Datatypes.length hd]. repeat split; try reflexivity.
    intros _. unfold pdu_ident. cbn [Z.eqb Pos.eqb skipn firstn app]. rewrite <- Ei.
    apply be_decode_encode. exact Hi.
Qed.

(* fields -> PDU bytes -> the same class, identifier and fields *)
Theorem registry_pdu_roundtrip : forall cs, wf_pregistry cs = true -> pkeys_unique cs = true ->
  forall c, In c cs -> forall ident vs b,
  (forall prev0, in_range (p_fields c) prev0 vs = true) ->
  pdu_encode c ident vs = Some b ->
  pdu_decode cs (p_proto c) b =
  Some (c, (if (p_proto c =? 0) || (p_proto c =? 3) then ident else 0), vs).
Proof.
  intros cs Hwf Hu c Hin ident vs b Hr He.
  destruct (wf_pregistry_In cs c Hwf Hin) as [Hw [Hp Hc]].
  unfold pdu_encode in He.
  destruct (serialize_fields (p_fields c) vs) as [payload|] eqn:Es; [|discriminate].
  destruct (pdu_header (p_proto c) (p_code c) ident (lenZ payload)) as [h|] eqn:Eh; [|discriminate].
  apply some_inv in He. subst b.
  destruct (header_shape _ _ _ _ h Hp Eh) as [Hl [Hhd [Hid Htail]]].
  assert (Hne : h <> []) by (intro E; subst h; unfold header_len in Hl; destruct (p_proto c =? 0), (p_proto c =? 3); discriminate).
  destruct h as [|h0 hr]; [congruence|]. cbn [hd] in Hhd. subst h0.
  unfold pdu_decode. cbn [app].
  replace (Datatypes.length (p_code c :: hr ++ payload) <? header_len (p_proto c))%nat with false.
  2:{ symmetry. apply Nat.ltb_ge. rewrite <- Hl. cbn [Datatypes.length]. rewrite app_length. lia. }
  rewrite (find_pcls_complete cs c Hu Hin).
  change (p_code c :: hr ++ payload) with ((p_code c :: hr) ++ payload).
  rewrite <- Hl. rewrite firstn_app_exact, skipn_app_exact.
  destruct (parse_serialize (p_fields c) (last (p_code c :: hr) 0) vs Hw (Hr _)) as [b' [n [Hs' [Hp' _]]]].
  rewrite Es in Hs'. apply some_inv in Hs'. subst b'. rewrite Hp'.
  rewrite Htail. f_equal. f_equal. f_equal.
  assert (C : p_proto c = 0 \/ p_proto c = 1 \/ p_proto c = 2 \/ p_proto c = 3) by lia.
  destruct C as [E | [E | [E | E]]]; rewrite E in *; cbn [Z.eqb Pos.eqb orb].
  - apply Hid. left. reflexivity.
  - unfold pdu_ident. reflexivity.
  - unfold pdu_ident. reflexivity.
  - apply Hid. right. reflexivity.
Qed.

(* ---------------------------------------------------------------- the regenerated registry *)
Lemma registry_checked : wf_pregistry C18Registry.classes = true.
Proof. vm_compute. reflexivity. Qed.
Lemma registry_keys_checked : pkeys_unique C18Registry.classes = true.
Proof. vm_compute. reflexivity. Qed.
Lemma registry_count_checked :
  (Datatypes.length C18Registry.classes + Datatypes.length C18Registry.untranslated)%nat = C18Registry.registered_total.
Proof. vm_compute. reflexivity. Qed.

Lemma gen_fields_roundtrip : forall c, In c C18Registry.classes ->
  forall prev0 vs, in_range (p_fields c) prev0 vs = true ->
  exists b n, serialize_fields (p_fields c) vs = Some b /\
              parse_fields (p_fields c) prev0 b = Some (vs, n) /\ (n <= Datatypes.length b)%nat.
Proof. exact (registry_fields_roundtrip C18Registry.classes registry_checked). Qed.

Lemma gen_bytes_roundtrip : forall c, In c C18Registry.classes ->
  forall prev0 bs vs n, bytes_ok bs = true ->
  parse_fields (p_fields c) prev0 bs = Some (vs, n) -> (n <= Datatypes.length bs)%nat ->
  exists pad, serialize_fields (p_fields c) vs = Some (firstn n bs ++ pad) /\
              (tight_fields (p_fields c) = true -> pad = []).
Proof. exact (registry_bytes_roundtrip C18Registry.classes registry_checked). Qed.

Lemma gen_pdu_roundtrip : forall c, In c C18Registry.classes -> forall ident vs b,
  (forall prev0, in_range (p_fields c) prev0 vs = true) ->
  pdu_encode c ident vs = Some b ->
  pdu_decode C18Registry.classes (p_proto c) b =
  Some (c, (if (p_proto c =? 0) || (p_proto c =? 3) then ident else 0), vs).
Proof. exact (registry_pdu_roundtrip C18Registry.classes registry_checked registry_keys_checked). Qed.
