(* C09 determinacy (see ChanMgrDet.v): the handlers of received frames commute with `local` *)
From Coq Require Import ZArith List Bool Lia.
From BV Require Import Gen.C09Tables Model.ChanMgr Proofs.ChanMgrLib Proofs.ChanMgr Proofs.ChanMgrDet.
Import ListNotations.
Open Scope Z_scope.

Ltac prep_cw I Hu :=
  let c := match type of Hu with hget _ _ = Some ?c => c end in
  let cw := fresh "cw" in let Hcw := fresh "Hcw" in
  destruct (c_cw c) as [cw|] eqn:Hcw;
  [destruct (ch_cw _ I _ _ _ Hu Hcw) as (_ & _ & ?x & ?Hwx & _ & _ & ?Hxc & _)|].
Ltac prep_dw I Hu :=
  let c := match type of Hu with hget _ _ = Some ?c => c end in
  let dw := fresh "dw" in let Hdw := fresh "Hdw" in
  destruct (c_dw c) as [dw|] eqn:Hdw;
  [destruct (ch_dw _ I _ _ _ Hu Hdw) as (_ & _ & ?x & ?Hwx & _ & _ & ?Hxc & _)|].

Ltac go := cbv zeta; cbn [wres_opt wpending fst snd]; ifs; try reflexivity; leaf; fin2.

Lemma find_cl_spec m h cid u c : find_cl m h cid = Some (u, c) ->
  tget h cid (m_chs m) = Some u /\ hget m u = Some c /\ c_kind c = KCl.
Proof.
  unfold find_cl. destruct (tget h cid (m_chs m)) as [u'|]; [|discriminate].
  destruct (hget m u') as [c'|] eqn:E; [|discriminate]. destruct (c_kind c') eqn:K; [discriminate|].
  intros H. injection H as <- <-. auto.
Qed.

Lemma loc_find_cl a m cid : Inv m -> find_cl (local a m) a cid = find_cl m a cid.
Proof.
  intros I. unfold find_cl. autorewrite with loc. destruct (tget a cid (m_chs m)) as [u|] eqn:T; [|reflexivity].
  destruct (chs_pt _ I _ _ _ T) as (c & Hu & Hc & _). norm. reflexivity.
Qed.

Lemma loc_recv_conn_rsp a m id dcid scid result : Inv m ->
  recv_conn_rsp (local a m) a id dcid scid result =
  (local a (fst (recv_conn_rsp m a id dcid scid result)), snd (recv_conn_rsp m a id dcid scid result)).
Proof.
  intros I. unfold recv_conn_rsp. rewrite loc_find_cl by auto.
  destruct (find_cl m a scid) as [[u c]|] eqn:F; [|reflexivity].
  apply find_cl_spec in F as (T & Hu & K). destruct (chs_pt _ I _ _ _ T) as (c' & Hu' & Hc & _).
  assert (c' = c) by congruence. subst c' a. clear Hu'. unfold cl_connect_failed.
  prep_cw I Hu. all: destruct (c_st c); try reflexivity; go.
Qed.

Lemma loc_recv_conf_req a m id dcid rfc bad : Inv m ->
  recv_conf_req (local a m) a id dcid rfc bad =
  (local a (fst (recv_conf_req m a id dcid rfc bad)), snd (recv_conf_req m a id dcid rfc bad)).
Proof.
  intros I. unfold recv_conf_req. rewrite loc_find_cl by auto.
  destruct (find_cl m a dcid) as [[u c]|] eqn:F; [|reflexivity].
  apply find_cl_spec in F as (T & Hu & K). destruct (chs_pt _ I _ _ _ T) as (c' & Hu' & Hc & _).
  assert (c' = c) by congruence. subst c' a. clear Hu'. unfold cl_connect_failed.
  prep_cw I Hu. all: destruct (c_st c); try reflexivity; go.
Qed.

Lemma loc_recv_conf_rsp a m id scid result sugg : Inv m ->
  recv_conf_rsp (local a m) a id scid result sugg =
  (local a (fst (recv_conf_rsp m a id scid result sugg)), snd (recv_conf_rsp m a id scid result sugg)).
Proof.
  intros I. unfold recv_conf_rsp. rewrite loc_find_cl by auto.
  destruct (find_cl m a scid) as [[u c]|] eqn:F; [|reflexivity].
  apply find_cl_spec in F as (T & Hu & K). destruct (chs_pt _ I _ _ _ T) as (c' & Hu' & Hc & _).
  assert (c' = c) by congruence. subst c' a. clear Hu'.
  prep_cw I Hu. all: destruct (c_st c); try reflexivity; go.
Qed.

Lemma loc_recv_disc_req a m id dcid scid : Inv m ->
  recv_disc_req (local a m) a id dcid scid =
  (local a (fst (recv_disc_req m a id dcid scid)), snd (recv_disc_req m a id dcid scid)).
Proof.
  intros I. unfold recv_disc_req. autorewrite with loc.
  destruct (tget a dcid (m_chs m)) as [u|] eqn:T; [|reflexivity].
  destruct (chs_pt _ I _ _ _ T) as (c & Hu & Hc & _). subst a. norm. unfold cl_connect_failed.
  prep I Hu. all: destruct (c_kind c); go.
Qed.

Lemma loc_recv_disc_rsp a m id dcid scid : Inv m ->
  recv_disc_rsp (local a m) a id dcid scid =
  (local a (fst (recv_disc_rsp m a id dcid scid)), snd (recv_disc_rsp m a id dcid scid)).
Proof.
  intros I. unfold recv_disc_rsp. autorewrite with loc.
  destruct (tget a scid (m_chs m)) as [u|] eqn:T; [|reflexivity].
  destruct (chs_pt _ I _ _ _ T) as (c & Hu & Hc & _). subst a. norm.
  prep_dw I Hu. all: destruct (c_kind c); destruct (c_st c); try reflexivity; go.
Qed.

Lemma loc_recv_credit a m cid n : Inv m ->
  recv_credit (local a m) a cid n = (local a (fst (recv_credit m a cid n)), snd (recv_credit m a cid n)).
Proof.
  intros I. unfold recv_credit. autorewrite with loc.
  destruct (tget a cid (m_le m)) as [u|] eqn:T; [|reflexivity].
  destruct (le_pt _ I _ _ _ T) as (c & Hu & Hc & _). subst a. norm. go.
Qed.

Lemma loc_recv_le_req a m id psm scid credits okp :
  recv_le_req (local a m) a id psm scid credits okp =
  (local a (fst (recv_le_req m a id psm scid credits okp)), snd (recv_le_req m a id psm scid credits okp)).
Proof.
  unfold recv_le_req. autorewrite with loc. destruct (srv_get psm (m_lesrv m)); [|reflexivity].
  destruct (negb okp); [reflexivity|].
  destruct (memz _ _); [reflexivity|]. destruct (find_free_le _); [|reflexivity].
  rewrite loc_new_le_chans. reflexivity.
Qed.

Lemma loc_recv_enh_req a m id psm credits scids okp :
  recv_enh_req (local a m) a id psm credits scids okp =
  (local a (fst (recv_enh_req m a id psm credits scids okp)), snd (recv_enh_req m a id psm credits scids okp)).
Proof.
  unfold recv_enh_req. autorewrite with loc. destruct (srv_get psm (m_lesrv m)); [|reflexivity].
  destruct (negb okp); [reflexivity|].
  destruct (any_mem _ _); [reflexivity|]. destruct (find_free_le_n _ _); [reflexivity|].
  rewrite loc_new_le_chans. reflexivity.
Qed.

Lemma loc_recv_conn_req a m id psm scid :
  recv_conn_req (local a m) a id psm scid =
  (local a (fst (recv_conn_req m a id psm scid)), snd (recv_conn_req m a id psm scid)).
Proof.
  unfold recv_conn_req. autorewrite with loc. destruct (srv_get psm (m_clsrv m)); [|reflexivity].
  destruct (find_free_bredr _); [|reflexivity]. go.
Qed.
