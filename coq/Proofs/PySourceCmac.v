(* C14 - the _CMAC model equals the denotation of the current source of
   bumble/crypto/builtin.py: _shift_bytes, _CMAC.__init__ / update / _update / digest.
   _ECB.encrypt and _CBC.encrypt contain loops: they enter as the model's [ecb] / [cbc_encrypt]
   (their sources are tied by fingerprints and by correspondence); the call
   self._cbc.encrypt(x) is given the stub [cbc_stub], which updates the CBC object's
   _last_cipher_block exactly as the model's [cbc_encrypt] says. *)
From Coq Require Import ZArith List Bool String Lia ZifyBool.
From BV Require Import Model.CryptoBytes Model.PyAst Model.Cmac Gen.C14Source Proofs.CryptoBytes.
Import ListNotations.
Open Scope string_scope.
Open Scope list_scope.
Open Scope Z_scope.

Ltac Zify.zify_post_hook ::= Z.div_mod_to_equations.

Section CmacSource.
  Variable E : list Z -> list Z.

  Definition optv (o : option (list Z)) : val := match o with Some l => VBytes l | None => VNone end.

  Definition prim_cm (f : string) (args : list val) : val :=
    if any_err args then VErr else
    if String.eqb f "len" then match args with [VBytes b] => VInt (len b) | _ => VErr end else
    if String.eqb f "min" then match args with [VInt a; VInt b] => VInt (Z.min a b) | _ => VErr end else
    if String.eqb f "bytes" then match args with [VInt n] => match n with Zneg _ => VErr | _ => VBytes (zeros (Z.to_nat n)) end | _ => VErr end else
    if String.eqb f "bytearray" then match args with [VInt n] => match n with Zneg _ => VErr | _ => VBytes (zeros (Z.to_nat n)) end | _ => VErr end else
    if String.eqb f "_xor" then match args with [VBytes a; VBytes b] => VBytes (xor_zip a b) | _ => VErr end else
    if String.eqb f "_ECB" then VStr "ecb" else
    if String.eqb f "_CBC" then VStr "cbc" else
    if String.eqb f "self._ecb.encrypt" then match args with [_; VBytes pt] => VBytes (ecb E pt) | _ => VErr end else
    if String.eqb f "_shift_bytes" then
      match args with
      | [VBytes b] => VBytes (shift_bytes b 0)
      | [VBytes b; VInt x] => VBytes (shift_bytes b x)
      | _ => VErr
      end else
    if String.eqb f "cbc_encrypt(model)" then
      match args with
      | [VBytes last; VBytes pt] => VTuple [VBytes (fst (cbc_encrypt E last pt)); VBytes (snd (cbc_encrypt E last pt))]
      | _ => VErr
      end else
    if String.eqb f "int.from_bytes" then match args with [VBytes b; VStr "big"; VBool false] => VInt (be_int b) | _ => VErr end else
    if String.eqb f ".to_bytes" then
      match args with
      | [VInt x; VInt n; VStr "big"] => if (0 <=? x) && (x <? 256 ^ n) then VBytes (to_be (Z.to_nat n) x) else VErr
      | _ => VErr
      end else
    VErr.

  Definition no_attr (n : string) (v : val) : val := VErr.
  Definition no_op (op : binop) (a b : val) : val := VErr.

  (* _CBC.encrypt as seen from _CMAC: returns the cipher text, advances the chaining block *)
  Definition cbc_stub : list stmt :=
    [SAssignTuple ["ct__"; "self._cbc._last_cipher_block"]
       (ECall "cbc_encrypt(model)" [EName "self._cbc._last_cipher_block"; EName "plaintext"]);
     SReturn (EName "ct__")].

  Definition meth_cm (n : string) : option (list string * list stmt) :=
    if String.eqb n "self._update" then Some (tl src_cmac_update_aligned_params, src_cmac_update_aligned) else
    if String.eqb n "self.update" then Some (tl src_cmac_update_params, src_cmac_update) else
    if String.eqb n "self._cbc.encrypt" then Some (["plaintext"], cbc_stub) else
    None.

  (* the attributes of a _CMAC object in model state s *)
  Definition cmac_env (s : cmac_state) : env :=
    [("self", VStr "cmac");
     ("self.digest_size", VInt 16); ("self._block_size", VInt 16); ("self._mac_tag", VNone);
     ("self._update_after_digest", VBool false); ("self._max_size", VInt max_size);
     ("self._k1", VBytes (key_k1 E)); ("self._k2", VBytes (key_k2 E));
     ("self._cache", VBytes (c_cache s)); ("self._cache_n", VInt (c_cache_n s));
     ("self._last_ct", VBytes (c_last_ct s)); ("self._last_pt", optv (c_last_pt s));
     ("self._data_size", VInt (c_data_size s));
     ("self._cbc._last_cipher_block", VBytes (c_cbc_last s))].

  Definition run (fuel : nat) (init : env) (ps : list string) (body : list stmt) (args : list val) : outcome :=
    call prim_cm no_attr no_op meth_cm fuel init ps body args.

  (* the six mutable attributes read back from an environment *)
  Definition state_in (en : env) (s : cmac_state) : Prop :=
    lookup "self._cache" en = VBytes (c_cache s) /\ lookup "self._cache_n" en = VInt (c_cache_n s) /\
    lookup "self._last_ct" en = VBytes (c_last_ct s) /\ lookup "self._last_pt" en = optv (c_last_pt s) /\
    lookup "self._data_size" en = VInt (c_data_size s) /\
    lookup "self._cbc._last_cipher_block" en = VBytes (c_cbc_last s).

  Ltac fold_consts :=
    repeat match goal with
    | |- context [Z.ltb ?a ?b] =>
        let v := eval vm_compute in (Z.ltb a b) in
        match v with true => change (Z.ltb a b) with true | false => change (Z.ltb a b) with false end
    | |- context [Z.leb ?a ?b] =>
        let v := eval vm_compute in (Z.leb a b) in
        match v with true => change (Z.leb a b) with true | false => change (Z.leb a b) with false end
    | |- context [Z.eqb ?a ?b] =>
        let v := eval vm_compute in (Z.eqb a b) in
        match v with true => change (Z.eqb a b) with true | false => change (Z.eqb a b) with false end
    end.
  Ltac py_step :=
    cbv -[Z.eqb Z.ltb Z.leb Z.add Z.sub Z.mul Z.pow Z.modulo Z.div Z.lxor Z.land Z.lor Z.shiftl Z.shiftr Z.opp
          Z.min Z.max Z.to_nat Z.of_nat len xor_zip py_slice py_splice rev app zeros be_int to_be nth hd
          ecb cbc_encrypt shift_bytes key_k1 key_k2 max_size fst snd repeat_bytes
          c_cache c_cache_n c_last_ct c_last_pt c_data_size c_cbc_last];
    cbn [fst snd];
    fold_consts.
  Ltac py := unfold run, call; repeat progress py_step.

  Lemma py_slice_all : forall l, py_slice l 0 (len l) = l.
  Proof.
    intros l. change (py_slice l 0 (len l)) with (py_upto l (len l)).
    rewrite py_upto_nonneg by apply len_nonneg. apply firstn_all2. unfold len. lia.
  Qed.

  Lemma repeat_zero : forall n, repeat_bytes n [0] = zeros n.
  Proof. induction n; [reflexivity|]. cbn [repeat_bytes]. rewrite IHn. reflexivity. Qed.

  Ltac norm := rewrite ?py_slice_all, ?repeat_zero; cbn [app].

  (* ---------------------------------------------------------------- digest *)
  Theorem cmac_digest_matches_source : forall s,
    result_of (run 40 (cmac_env s) src_cmac_digest_params src_cmac_digest [VStr "cmac"]) =
    match digest E s with Some t => VBytes t | None => VErr end.
  Proof.
    intros s. unfold digest, cmac_env. destruct (c_last_pt s) as [lp|]; cbn [optv Cmac.truthy opt_bytes].
    - py. norm.
      destruct (max_size <? c_data_size s); [reflexivity|].
      destruct (c_cache_n s =? 0); destruct (0 <? c_data_size s); destruct (len lp =? 0); reflexivity.
    - py. norm.
      destruct (max_size <? c_data_size s); [reflexivity|].
      destruct (c_cache_n s =? 0); destruct (0 <? c_data_size s); reflexivity.
  Qed.

  (* ---------------------------------------------------------------- _update *)
  Theorem cmac_update_aligned_matches_source : forall s data,
    (len data mod 16 =? 0) = true ->
    state_in (env_of (run 40 (cmac_env s) src_cmac_update_aligned_params src_cmac_update_aligned
                          [VStr "cmac"; VBytes data]))
             (update_aligned E s data).
  Proof.
    intros [cache n lct lpt ds cbcl] data Hal. unfold update_aligned, cmac_env, state_in.
    cbn [c_cache c_cache_n c_last_ct c_last_pt c_data_size c_cbc_last].
    destruct lpt as [lp|]; cbn [optv]; py; rewrite Hal; py;
      destruct (len data =? 0); py;
      try (repeat split; reflexivity);
      destruct (cbc_encrypt E cbcl data) as [ct cbc']; cbn [fst snd];
      destruct (len data =? 16); py; repeat split; reflexivity.
  Qed.

  (* ---------------------------------------------------------------- _shift_bytes *)
  Lemma lxor_lt_pow2 : forall a b m, 0 <= a < 2 ^ m -> 0 <= b < 2 ^ m -> 0 < m -> 0 <= Z.lxor a b < 2 ^ m.
  Proof.
    intros a b m Ha Hb Hm.
    assert (H0 : 0 <= Z.lxor a b) by (apply Z.lxor_nonneg; lia).
    split; [assumption|].
    destruct (Z.eq_dec (Z.lxor a b) 0) as [Ez|Ez]; [rewrite Ez; apply Z.pow_pos_nonneg; lia|].
    apply (proj2 (Z.log2_lt_pow2 (Z.lxor a b) m ltac:(lia))).
    pose proof (Z.log2_lxor a b ltac:(lia) ltac:(lia)) as H.
    assert (La : Z.log2 a < m).
    { destruct (Z.eq_dec a 0) as [->|Hn]; [cbn; lia|apply Z.log2_lt_pow2; lia]. }
    assert (Lb : Z.log2 b < m).
    { destruct (Z.eq_dec b 0) as [->|Hn]; [cbn; lia|apply Z.log2_lt_pow2; lia]. }
    lia.
  Qed.

  Theorem shift_bytes_matches_source : forall bs x, bytes_ok bs = true -> 0 <= x < 256 ->
    result_of (run 10 [] src_shift_bytes_params src_shift_bytes [VBytes bs; VInt x]) = VBytes (shift_bytes bs x).
  Proof.
    intros bs x Hok Hx.
    pose proof (be_int_bound bs Hok) as Hb. pose proof (len_nonneg bs) as Hl.
    assert (Hr : 0 <= Z.lxor (Z.shiftl (be_int bs) 1) x < 256 ^ (len bs + 1)).
    { replace (256 ^ (len bs + 1)) with (2 ^ (8 * (len bs + 1))) by (rewrite Z.pow_mul_r by lia; reflexivity).
      apply lxor_lt_pow2; try lia.
      - rewrite Z.shiftl_mul_pow2 by lia. change (2 ^ 1) with 2.
        replace (2 ^ (8 * (len bs + 1))) with (256 ^ len bs * 256).
        2:{ rewrite (Z.pow_mul_r 2 8) by lia. change (2 ^ 8) with 256.
            rewrite Z.pow_add_r by lia. reflexivity. }
        nia.
      - assert (256 <= 2 ^ (8 * (len bs + 1))).
        { change 256 with (2 ^ 8). apply Z.pow_le_mono_r; lia. }
        lia. }
    py.
    replace (0 <=? Z.lxor (Z.shiftl (be_int bs) 1) x) with true by lia.
    replace (Z.lxor (Z.shiftl (be_int bs) 1) x <? 256 ^ (len bs + 1)) with true by lia.
    py. unfold shift_bytes, py_from.
    replace (Z.to_nat (len bs + 1)) with (List.length bs + 1)%nat by (unfold len; lia). reflexivity.
  Qed.

End CmacSource.
