(* C09 links_independent, determinacy form: what an event on connection a does -- the frames
   sent and everything of connection a afterwards -- is a function of a's projection of the
   manager: a's entries in the five tables, a's identifier counter, a's channel objects and
   the futures created for a.  Everything of other connections is forgotten by `local`
   (channel objects and futures of other connections are replaced by inert placeholders so that
   the ghost names, which are creation indices, stay the same). *)
From Coq Require Import ZArith List Bool Lia.
From BV Require Import Gen.C09Tables Model.ChanMgr Proofs.ChanMgrLib Proofs.ChanMgr.
Import ListNotations.
Open Scope Z_scope.

Definition akeep (a : Z) (l : list (Z * Z)) : list (Z * Z) := filter (fun e => Z.eqb (fst e) a) l.

Definition blank_c (a : Z) : chan := mkChan KCl (a - 1) 0 0 SClosed 0 0 0 true None None 0 false.
Definition blank_w (a : Z) : waiter := mkW O_RESULT WOpen (a - 1) 0.
Definition keep_c (a : Z) (c : chan) : chan := if Z.eqb (c_conn c) a then c else blank_c a.
Definition keep_w (a : Z) (x : waiter) : waiter := if Z.eqb (w_conn x) a then x else blank_w a.

Definition local (a : Z) (m : mgr) : mgr :=
  mkM (map (keep_c a) (m_heap m))
      (tconn a (m_chs m)) (tconn a (m_le m)) (tconn a (m_reqs m)) (tconn a (m_pend m))
      (akeep a (m_ids m)) (map (keep_w a) (m_w m)) (m_lesrv m) (m_clsrv m).

(* ------------------------------------------------------------------ tables *)
Section Tconn.
  Context {V : Type}.
  Implicit Types (t : table V).
  Lemma tget_cons h k (e : Z * Z * V) t : tget h k (e :: t) = if key_is h k e then Some (snd e) else tget h k t.
  Proof. reflexivity. Qed.
  Lemma tget_tconn a k t : tget a k (tconn a t) = tget a k t.
  Proof.
    induction t as [|[[h k'] v] t IH]; [reflexivity|].
    unfold tconn in *. simpl filter. unfold conn_is at 1. simpl fst.
    destruct (Z.eqb_spec h a) as [->|Hn]; rewrite !tget_cons, IH; [reflexivity|].
    unfold key_is. simpl fst. destruct (Z.eqb_spec h a); [congruence|reflexivity].
  Qed.
  Lemma tconn_idem a t : tconn a (tconn a t) = tconn a t.
  Proof.
    unfold tconn. induction t as [|e t IH]; cbn; auto. destruct (conn_is a e) eqn:E; cbn; rewrite ?E, ?IH; auto.
  Qed.
  Lemma tkeys_tconn a t : tkeys a (tconn a t) = tkeys a t.
  Proof. unfold tkeys. now rewrite tconn_idem. Qed.
  Lemma tconn_tdel a k t : tconn a (tdel a k t) = tdel a k (tconn a t).
  Proof.
    unfold tconn, tdel. induction t as [|e t IH]; cbn; auto.
    destruct (key_is a k e) eqn:E1, (conn_is a e) eqn:E2; cbn; rewrite ?E1, ?E2, ?IH; auto.
  Qed.
  Lemma tconn_tset a k v t : tconn a (tset a k v t) = tset a k v (tconn a t).
  Proof.
    unfold tset. unfold tconn at 1. cbn [filter]. unfold conn_is at 1. cbn. rewrite Z.eqb_refl.
    f_equal. apply tconn_tdel.
  Qed.
  Lemma tconn_tdrop a t : tconn a (tdrop a t) = tdrop a (tconn a t).
  Proof.
    unfold tconn, tdrop. induction t as [|e t IH]; cbn; auto.
    destruct (conn_is a e) eqn:E; cbn; rewrite ?E; cbn; rewrite ?E, ?IH; auto.
  Qed.
End Tconn.

Lemma aget_akeep a l : aget a (akeep a l) = aget a l.
Proof.
  unfold akeep. induction l as [|[k v] l IH]; cbn; auto.
  destruct (Z.eqb_spec k a); cbn; subst.
  - now rewrite Z.eqb_refl.
  - destruct (Z.eqb_spec k a); [congruence|auto].
Qed.
Lemma akeep_adel a l : akeep a (adel a l) = adel a (akeep a l).
Proof.
  unfold akeep, adel. induction l as [|[k v] l IH]; cbn; auto.
  destruct (Z.eqb_spec k a); cbn; subst; rewrite ?Z.eqb_refl; cbn; auto.
  destruct (Z.eqb_spec k a); [congruence|auto].
Qed.
Lemma akeep_cons a v l : akeep a ((a, v) :: l) = (a, v) :: akeep a l.
Proof. unfold akeep. cbn. now rewrite Z.eqb_refl. Qed.

(* ------------------------------------------------------------------ accessors of the projection *)
Lemma chs_local a m : m_chs (local a m) = tconn a (m_chs m). Proof. reflexivity. Qed.
Lemma le_local a m : m_le (local a m) = tconn a (m_le m). Proof. reflexivity. Qed.
Lemma reqs_local a m : m_reqs (local a m) = tconn a (m_reqs m). Proof. reflexivity. Qed.
Lemma pend_local a m : m_pend (local a m) = tconn a (m_pend m). Proof. reflexivity. Qed.
Lemma ids_local a m : m_ids (local a m) = akeep a (m_ids m). Proof. reflexivity. Qed.
Lemma lesrv_local a m : m_lesrv (local a m) = m_lesrv m. Proof. reflexivity. Qed.
Lemma clsrv_local a m : m_clsrv (local a m) = m_clsrv m. Proof. reflexivity. Qed.
Lemma huid_local a m : huid (local a m) = huid m.
Proof. unfold huid, local. cbn. now rewrite map_length. Qed.
Lemma wuid_local a m : wuid (local a m) = wuid m.
Proof. unfold wuid, local. cbn. now rewrite map_length. Qed.
Lemma hget_local a m u : hget (local a m) u = option_map (keep_c a) (hget m u).
Proof. unfold hget, local. cbn. destruct (u <? 0); [reflexivity|]. apply nth_error_map. Qed.
Lemma wget_local a m w : wget (local a m) w = option_map (keep_w a) (wget m w).
Proof. unfold wget, local. cbn. destruct (w <? 0); [reflexivity|]. apply nth_error_map. Qed.
Lemma nid_local a m : nid (local a m) a = nid m a.
Proof. unfold nid. cbn. now rewrite aget_akeep. Qed.

Lemma keep_c_on a c : c_conn c = a -> keep_c a c = c.
Proof. intros <-. unfold keep_c. now rewrite Z.eqb_refl. Qed.
Lemma keep_w_on a x : w_conn x = a -> keep_w a x = x.
Proof. intros <-. unfold keep_w. now rewrite Z.eqb_refl. Qed.
Lemma keep_c_off a c : c_conn c <> a -> keep_c a c = blank_c a.
Proof. intros H. unfold keep_c. destruct (Z.eqb_spec (c_conn c) a); [contradiction|auto]. Qed.
Lemma keep_w_off a x : w_conn x <> a -> keep_w a x = blank_w a.
Proof. intros H. unfold keep_w. destruct (Z.eqb_spec (w_conn x) a); [contradiction|auto]. Qed.

(* completing a future commutes with forgetting: the placeholder is not pending *)
Lemma wres1_keep a o x : wres1 o (keep_w a x) = keep_w a (wres1 o x).
Proof.
  unfold keep_w, wres1. destruct (Z.eqb (w_conn x) a) eqn:E.
  - destruct (Z.eqb (w_out x) O_PENDING); cbn; now rewrite E.
  - cbn. destruct (Z.eqb (w_out x) O_PENDING); cbn; now rewrite E.
Qed.

Lemma wout_local a m w x : wget m w = Some x -> w_conn x = a -> wout (local a m) w = wout m w.
Proof. intros H Hx. rewrite !wout_wget, wget_local, H. cbn. now rewrite keep_w_on. Qed.

(* ------------------------------------------------------------------ extensionality *)
Lemma list_ext {A} (l l' : list A) : (forall n, nth_error l n = nth_error l' n) -> l = l'.
Proof.
  revert l'. induction l as [|x l IH]; intros [|y l'] H; auto.
  - specialize (H O). discriminate.
  - specialize (H O). discriminate.
  - f_equal; [pose proof (H O) as H0; now inversion H0|]. apply IH. intros n. apply (H (S n)).
Qed.

Lemma local_ext a L X :
  (forall u, hget L u = option_map (keep_c a) (hget X u)) ->
  m_chs L = tconn a (m_chs X) -> m_le L = tconn a (m_le X) -> m_reqs L = tconn a (m_reqs X) ->
  m_pend L = tconn a (m_pend X) -> m_ids L = akeep a (m_ids X) ->
  (forall w, wget L w = option_map (keep_w a) (wget X w)) ->
  m_lesrv L = m_lesrv X -> m_clsrv L = m_clsrv X -> L = local a X.
Proof.
  intros Hh H1 H2 H3 H4 H5 Hw H6 H7. destruct L as [hp c l r p i w ls cs]. cbn in *. unfold local.
  f_equal; auto.
  - apply list_ext. intros n. rewrite nth_error_map. specialize (Hh (Z.of_nat n)).
    unfold hget in Hh. cbn in Hh. destruct (Z.ltb_spec (Z.of_nat n) 0); [lia|]. now rewrite Nat2Z.id in Hh.
  - apply list_ext. intros n. rewrite nth_error_map. specialize (Hw (Z.of_nat n)).
    unfold wget in Hw. cbn in Hw. destruct (Z.ltb_spec (Z.of_nat n) 0); [lia|]. now rewrite Nat2Z.id in Hw.
Qed.

Lemma ids_next_id_same m a : m_ids (next_id m a) = (a, nid m a) :: adel a (m_ids m).
Proof. reflexivity. Qed.

#[export] Hint Rewrite chs_local le_local reqs_local pend_local ids_local lesrv_local clsrv_local
  huid_local wuid_local hget_local wget_local nid_local
  @tget_tconn @tkeys_tconn @tconn_tset @tconn_tdel @tconn_tdrop ids_next_id_same akeep_cons akeep_adel
  wres1_keep wget_m_eq : loc.

(* channel updates used by the handlers keep the connection *)
Definition fpres (f : chan -> chan) : Prop := forall c, c_conn (f c) = c_conn c.
Lemma keep_c_f a f c : c_conn c = a -> c_conn (f c) = a -> keep_c a (f c) = f (keep_c a c).
Proof. intros H1 H2. now rewrite !keep_c_on. Qed.

(* solve  (ifs over)  option_map f (option_map keep (hget m u)) = option_map keep (option_map f (hget m u)) *)
Ltac split_ifs :=
  repeat match goal with
         | |- context [if Z.eqb ?x ?y then _ else _] => destruct (Z.eqb_spec x y); subst
         end.

Lemma nid_with_chs m x h : nid (with_chs m x) h = nid m h. Proof. reflexivity. Qed.
Lemma nid_with_le m x h : nid (with_le m x) h = nid m h. Proof. reflexivity. Qed.
Lemma nid_with_reqs m x h : nid (with_reqs m x) h = nid m h. Proof. reflexivity. Qed.
Lemma nid_with_pend m x h : nid (with_pend m x) h = nid m h. Proof. reflexivity. Qed.
Lemma nid_hnew m c h : nid (hnew m c) h = nid m h. Proof. reflexivity. Qed.
Lemma nid_wnew m o k h' r h : nid (wnew m o k h' r) h = nid m h. Proof. reflexivity. Qed.
Lemma nid_hupd m u f h : nid (hupd m u f) h = nid m h.
Proof. unfold hupd. now destruct (u <? 0). Qed.
Lemma nid_wres m w o h : nid (wres m w o) h = nid m h.
Proof. unfold wres. now destruct (w <? 0). Qed.
Lemma nid_wres_opt m w o h : nid (wres_opt m w o) h = nid m h.
Proof. destruct w; cbn; auto using nid_wres. Qed.
#[export] Hint Rewrite nid_with_chs nid_with_le nid_with_reqs nid_with_pend nid_hnew nid_wnew nid_hupd nid_wres
  nid_wres_opt : loc.

Lemma lesrv_with_chs m x : m_lesrv (with_chs m x) = m_lesrv m. Proof. reflexivity. Qed.
Lemma lesrv_with_le m x : m_lesrv (with_le m x) = m_lesrv m. Proof. reflexivity. Qed.
Lemma lesrv_with_reqs m x : m_lesrv (with_reqs m x) = m_lesrv m. Proof. reflexivity. Qed.
Lemma lesrv_with_pend m x : m_lesrv (with_pend m x) = m_lesrv m. Proof. reflexivity. Qed.
Lemma lesrv_hnew m c : m_lesrv (hnew m c) = m_lesrv m. Proof. reflexivity. Qed.
Lemma lesrv_wnew m o k h r : m_lesrv (wnew m o k h r) = m_lesrv m. Proof. reflexivity. Qed.
Lemma lesrv_next_id m h : m_lesrv (next_id m h) = m_lesrv m. Proof. reflexivity. Qed.
Lemma lesrv_hupd m u f : m_lesrv (hupd m u f) = m_lesrv m. Proof. unfold hupd. now destruct (u <? 0). Qed.
Lemma lesrv_wres m w o : m_lesrv (wres m w o) = m_lesrv m. Proof. unfold wres. now destruct (w <? 0). Qed.
Lemma lesrv_wres_opt m w o : m_lesrv (wres_opt m w o) = m_lesrv m. Proof. destruct w; cbn; auto. unfold wres. now destruct (z <? 0). Qed.
Lemma lesrv_occ m u c : m_lesrv (on_channel_closed m u c) = m_lesrv m. Proof. unfold on_channel_closed. repeat destruct (is_uid _ _); reflexivity. Qed.
Lemma lesrv_loa m u c : m_lesrv (le_open_abandoned m u c) = m_lesrv m. Proof. unfold le_open_abandoned. repeat destruct (is_uid _ _); reflexivity. Qed.
#[export] Hint Rewrite lesrv_with_chs lesrv_with_le lesrv_with_reqs lesrv_with_pend lesrv_hnew lesrv_wnew lesrv_next_id lesrv_hupd lesrv_wres lesrv_wres_opt lesrv_occ lesrv_loa : loc.
Lemma clsrv_with_chs m x : m_clsrv (with_chs m x) = m_clsrv m. Proof. reflexivity. Qed.
Lemma clsrv_with_le m x : m_clsrv (with_le m x) = m_clsrv m. Proof. reflexivity. Qed.
Lemma clsrv_with_reqs m x : m_clsrv (with_reqs m x) = m_clsrv m. Proof. reflexivity. Qed.
Lemma clsrv_with_pend m x : m_clsrv (with_pend m x) = m_clsrv m. Proof. reflexivity. Qed.
Lemma clsrv_hnew m c : m_clsrv (hnew m c) = m_clsrv m. Proof. reflexivity. Qed.
Lemma clsrv_wnew m o k h r : m_clsrv (wnew m o k h r) = m_clsrv m. Proof. reflexivity. Qed.
Lemma clsrv_next_id m h : m_clsrv (next_id m h) = m_clsrv m. Proof. reflexivity. Qed.
Lemma clsrv_hupd m u f : m_clsrv (hupd m u f) = m_clsrv m. Proof. unfold hupd. now destruct (u <? 0). Qed.
Lemma clsrv_wres m w o : m_clsrv (wres m w o) = m_clsrv m. Proof. unfold wres. now destruct (w <? 0). Qed.
Lemma clsrv_wres_opt m w o : m_clsrv (wres_opt m w o) = m_clsrv m. Proof. destruct w; cbn; auto. unfold wres. now destruct (z <? 0). Qed.
Lemma clsrv_occ m u c : m_clsrv (on_channel_closed m u c) = m_clsrv m. Proof. unfold on_channel_closed. repeat destruct (is_uid _ _); reflexivity. Qed.
Lemma clsrv_loa m u c : m_clsrv (le_open_abandoned m u c) = m_clsrv m. Proof. unfold le_open_abandoned. repeat destruct (is_uid _ _); reflexivity. Qed.
#[export] Hint Rewrite clsrv_with_chs clsrv_with_le clsrv_with_reqs clsrv_with_pend clsrv_hnew clsrv_wnew clsrv_next_id clsrv_hupd clsrv_wres clsrv_wres_opt clsrv_occ clsrv_loa : loc.
Lemma pair_eq {A B} (x x' : A) (y y' : B) : x = x' -> y = y' -> (x, y) = (x', y').
Proof. congruence. Qed.

Ltac leaf := cbn [fst snd]; apply pair_eq;
  [apply local_ext; intros; autorewrite with acc loc | autorewrite with acc loc; try reflexivity].

Ltac fin :=
  split_ifs;
  repeat match goal with |- context [if ?b then _ else _] => destruct b eqn:? end;
  repeat match goal with H : hget _ _ = Some _ |- _ => rewrite H end;
  repeat match goal with H : wget _ _ = Some _ |- _ => rewrite H end;
  cbn [option_map]; autorewrite with loc;
  rewrite ?keep_c_on, ?keep_w_on by (cbn; congruence);
  try reflexivity; try lia; try congruence.

Lemma loc_open_cl a m psm mode :
  open_cl (local a m) a psm mode = (local a (fst (open_cl m a psm mode)), snd (open_cl m a psm mode)).
Proof.
  unfold open_cl. autorewrite with loc. destruct (find_free_bredr _) as [scid|]; cbv zeta; leaf; fin.
Qed.

Lemma loc_open_le a m psm credits :
  open_le (local a m) a psm credits = (local a (fst (open_le m a psm credits)), snd (open_le m a psm credits)).
Proof.
  unfold open_le. autorewrite with loc. destruct (find_free_le _) as [scid|]; cbv zeta; autorewrite with acc loc.
  - destruct (tget a _ _); leaf; fin.
  - leaf; fin.
Qed.

(* ------------------------------------------------------------------ folds creating channels *)
Lemma loc_new_le_chans a st credits r regle pairs : forall m,
  new_le_chans (local a m) a st credits r regle pairs =
  (local a (fst (new_le_chans m a st credits r regle pairs)), snd (new_le_chans m a st credits r regle pairs)).
Proof.
  induction pairs as [|[scid dcid] ps IH]; intros m; [reflexivity|].
  cbn [new_le_chans]. cbv zeta. autorewrite with loc.
  match goal with |- context [new_le_chans ?M a st credits r regle ps] =>
    match M with
    | context [local] =>
      match goal with |- context [new_le_chans ?M' a st credits r regle ps] =>
        match M' with context [local] => fail 1 | _ =>
          assert (E : M = local a M') end end end end.
  { destruct regle; apply local_ext; intros; autorewrite with acc loc; fin. }
  rewrite E, IH. destruct (new_le_chans _ a st credits r regle ps). reflexivity.
Qed.

Ltac mleaf := apply local_ext; intros; autorewrite with acc loc.

Lemma loc_pend_add a m i u : pend_add (local a m) a i u = local a (pend_add m a i u).
Proof.
  unfold pend_add. autorewrite with loc. destruct (tget a i (m_pend m)) as [[w us]|]; [|reflexivity].
  mleaf; fin.
Qed.
Lemma loc_pend_set a m i us : pend_set (local a m) a i us = local a (pend_set m a i us).
Proof.
  unfold pend_set. autorewrite with loc. destruct (tget a i (m_pend m)) as [[w us']|]; [|reflexivity].
  mleaf; fin.
Qed.

Lemma loc_new_enh_chans a i scids : forall m,
  new_enh_chans (local a m) a i scids = local a (new_enh_chans m a i scids).
Proof.
  induction scids as [|scid rest IH]; intros m; [reflexivity|].
  cbn [new_enh_chans]. cbv zeta. autorewrite with loc.
  match goal with |- new_enh_chans (pend_add ?M a i ?u) a i rest = local a (new_enh_chans (pend_add ?M' a i _) a i rest) =>
    assert (E : M = local a M') end.
  { mleaf; fin. }
  rewrite E, loc_pend_add. apply IH.
Qed.

Lemma loc_open_enh a m psm n credits :
  open_enh (local a m) a psm n credits = (local a (fst (open_enh m a psm n credits)), snd (open_enh m a psm n credits)).
Proof.
  unfold open_enh. autorewrite with loc. destruct (find_free_le_n _ _) as [|s ss]; cbv zeta.
  - leaf; fin.
  - cbn [fst snd]. apply pair_eq; [|reflexivity]. autorewrite with loc.
    match goal with |- new_enh_chans ?M a ?i ?l = local a (new_enh_chans ?M' a _ _) =>
      assert (E : M = local a M') end.
    { mleaf; fin. }
    rewrite E. apply loc_new_enh_chans.
Qed.

(* ------------------------------------------------------------------ API calls on a channel *)
Lemma loc_close m u c : hget m u = Some c ->
  do_close (local (c_conn c) m) u = (local (c_conn c) (fst (do_close m u)), snd (do_close m u)).
Proof.
  intros Hu. unfold do_close. autorewrite with loc. rewrite Hu. cbn [option_map]. rewrite keep_c_on by reflexivity.
  destruct (negb _); cbv zeta; leaf; fin.
  all: destruct (c_kind c); fin.
Qed.

Lemma loc_write m u k c : hget m u = Some c ->
  do_write (local (c_conn c) m) u k = (local (c_conn c) (fst (do_write m u k)), snd (do_write m u k)).
Proof.
  intros Hu. unfold do_write. autorewrite with loc. rewrite Hu. cbn [option_map]. rewrite keep_c_on by reflexivity.
  destruct (c_kind c); [|reflexivity]. destruct (c_st c); try reflexivity. leaf; fin.
Qed.

Lemma loc_grant m u n c : hget m u = Some c ->
  do_grant (local (c_conn c) m) u n = (local (c_conn c) (fst (do_grant m u n)), snd (do_grant m u n)).
Proof.
  intros Hu. unfold do_grant. autorewrite with loc. rewrite Hu. cbn [option_map]. rewrite keep_c_on by reflexivity.
  leaf; fin.
Qed.

(* ------------------------------------------------------------------ handlers that complete futures *)
#[export] Hint Rewrite wout_wget : loc.

Lemma wconn_wres1 o x : w_conn (wres1 o x) = w_conn x.
Proof. unfold wres1. now destruct (Z.eqb (w_out x) O_PENDING). Qed.
Ltac conn_tac := cbn; rewrite ?wconn_wres1; congruence.
Ltac use_hyps :=
  repeat match goal with H : hget _ _ = Some _ |- _ => rewrite H end;
  repeat match goal with H : wget _ _ = Some _ |- _ => rewrite H end;
  cbn [option_map wres_opt wpending];
  rewrite ?keep_c_on, ?keep_w_on by conn_tac.
Ltac norm := autorewrite with acc loc; use_hyps.

(* the futures of a channel are futures of its connection *)
Ltac prep I Hu :=
  let c := match type of Hu with hget _ _ = Some ?c => c end in
  let cw := fresh "cw" in let dw := fresh "dw" in
  let Hcw := fresh "Hcw" in let Hdw := fresh "Hdw" in
  destruct (c_cw c) as [cw|] eqn:Hcw;
  [destruct (ch_cw _ I _ _ _ Hu Hcw) as (_ & _ & ?x & ?Hwx & _ & _ & ?Hxc & _)|];
  (destruct (c_dw c) as [dw|] eqn:Hdw;
   [destruct (ch_dw _ I _ _ _ Hu Hdw) as (_ & _ & ?x & ?Hwx & _ & _ & ?Hxc & _)|]).

#[export] Hint Rewrite Z.eqb_refl andb_true_l andb_false_l : loc.
Ltac if1 :=
  match goal with
  | |- context [if Z.eqb ?x ?y then _ else _] =>
      lazymatch x with context [if _ then _ else _] => fail | _ =>
      lazymatch y with context [if _ then _ else _] => fail | _ =>
      destruct (Z.eqb_spec x y); subst end end
  | |- context [if ?b then _ else _] =>
      lazymatch b with context [if _ then _ else _] => fail | _ => destruct b eqn:? end
  end.
Ltac ifs := repeat (norm; if1); norm.
Ltac fin2 := ifs; try reflexivity; try lia; try congruence.

Lemma loc_abort m u c : Inv m -> hget m u = Some c ->
  abort_chan (local (c_conn c) m) u = local (c_conn c) (abort_chan m u).
Proof.
  intros I Hu. unfold abort_chan. autorewrite with loc. rewrite Hu. cbn [option_map].
  rewrite keep_c_on by reflexivity. prep I Hu.
  all: destruct (c_kind c); cbv zeta; cbn [wres_opt wpending]; ifs; mleaf; fin2.
Qed.
