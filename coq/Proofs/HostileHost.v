(* C17 - lemmas about Model/HostileHost.v (Host.on_packet containment). *)
From Coq Require Import ZArith List Bool Lia.
From BV Require Import Model.HostileHost.
Import ListNotations.
Open Scope Z_scope.

(* an undecodable packet is logged and dropped: nothing is dispatched, nothing changes *)
Lemma host_undecodable_contained : forall st p,
  hci_from_bytes p = HErr -> host_on_packet st p = (st, [OParseError]).
Proof. intros st p H. unfold host_on_packet. rewrite H. reflexivity. Qed.

(* whatever the bytes, a data packet never changes the host's tables and produces exactly
   one outcome *)
Lemma host_packet_state_unchanged : forall st p,
  fst (host_on_packet st p) = st /\ length (snd (host_on_packet st p)) = 1%nat.
Proof.
  intros st p. unfold host_on_packet.
  destruct (hci_from_bytes p); cbn; try (destruct (h_ready st); cbn; auto);
    try (destruct (mem handle (h_conns st)); cbn; auto;
         destruct (mem handle (h_cis st) || mem handle (h_bis st)); cbn; auto); auto.
Qed.

Lemma host_run_state_unchanged : forall ps st, fst (host_run st ps) = st.
Proof.
  induction ps as [|p rest IH]; intros st; simpl; [reflexivity|].
  pose proof (host_packet_state_unchanged st p) as [H1 _].
  destruct (host_on_packet st p) as [st1 o1]. simpl in H1. subst st1.
  specialize (IH st). destruct (host_run st rest) as [st2 o2]. simpl in *. exact IH.
Qed.

(* the only bytes that reach a connection's ACL assembler are well-framed ACL packets for
   that connection's handle, and they arrive unmodified *)
Lemma host_to_assembler_only_if : forall st p handle pb data,
  In (OToAssembler handle pb data) (snd (host_on_packet st p)) ->
  h_ready st = true /\ mem handle (h_conns st) = true /\
  exists bc, hci_from_bytes p = HAcl handle pb bc data.
Proof.
  intros st p handle pb data H. unfold host_on_packet in H.
  destruct (hci_from_bytes p) as [|h pb' bc d|h s d|h pb' ts d| |] eqn:E; cbn in H;
    try (destruct H as [H|[]]; discriminate);
    destruct (h_ready st) eqn:R; cbn in H; try (destruct H as [H|[]]; discriminate).
  destruct (mem h (h_conns st)) eqn:M; cbn in H.
  - destruct H as [H|[]]. inversion H; subst. split; [reflexivity|]. split; [assumption|]. eauto.
  - destruct (mem h (h_cis st) || mem h (h_bis st)); cbn in H; destruct H as [H|[]]; discriminate.
Qed.

(* ACL framing: fewer than 5 bytes, or a length field that differs from the payload
   length, is undecodable *)
Lemma acl_short_is_error : forall rest, (length rest < 4)%nat -> hci_from_bytes (2 :: rest) = HErr.
Proof.
  intros rest H. destruct rest as [|a [|b [|c [|d r]]]]; try reflexivity. simpl in H. lia.
Qed.

Lemma acl_length_mismatch_is_error : forall a b c d data,
  zlen data <> le16 c d -> hci_from_bytes (2 :: a :: b :: c :: d :: data) = HErr.
Proof.
  intros a b c d data H. cbn [hci_from_bytes]. apply Z.eqb_neq in H. rewrite H. reflexivity.
Qed.

Lemma acl_unknown_handle_dropped : forall st p handle pb bc data,
  hci_from_bytes p = HAcl handle pb bc data -> h_ready st = true ->
  mem handle (h_conns st) = false -> mem handle (h_cis st) = false -> mem handle (h_bis st) = false ->
  host_on_packet st p = (st, [ODropped]).
Proof.
  intros st p handle pb bc data E R M1 M2 M3. unfold host_on_packet. rewrite E, R, M1, M2, M3. reflexivity.
Qed.

Lemma empty_packet_is_error : hci_from_bytes [] = HErr.
Proof. reflexivity. Qed.
