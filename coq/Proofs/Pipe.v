(* Proofs about Model/Pipe.v *)
From Coq Require Import ZArith List Bool Lia.
From BV Require Import Model.Pipe.
Import ListNotations.
Open Scope Z_scope.

Lemma sinks_app a b : sinks (a ++ b) = sinks a ++ sinks b.
Proof. induction a as [|[p| |] a IH]; cbn; rewrite ?IH; reflexivity. Qed.

Lemma check_pump_queue s : p_queue (check_pump s) = p_queue s.
Proof. reflexivity. Qed.

(* what has reached the sink, followed by what is queued, is exactly what was
   written, in order: per step *)
Lemma p_step_fifo s o :
  let '(s', out) := p_step s o in
  sinks out ++ map fst (p_queue s') =
  map fst (p_queue s) ++ match o with Write p _ => [p] | _ => [] end.
Proof.
  destruct o as [p len| | | |]; cbn [p_step].
  - destruct (andb _ _); cbn; now rewrite map_app.
  - destruct (p_paused s); [cbn; now rewrite app_nil_r|].
    destruct (p_src_paused s); cbn; now rewrite app_nil_r.
  - destruct (p_paused s); [|cbn; now rewrite app_nil_r].
    destruct (p_src_paused s); cbn; now rewrite app_nil_r.
  - destruct (andb _ _); [|cbn; now rewrite app_nil_r].
    destruct (p_queue s) as [|[p len] q'] eqn:Q; [cbn; rewrite Q; reflexivity|].
    destruct (p_paused s); cbn; rewrite ?Q; cbn; now rewrite app_nil_r.
  - destruct (p_mid s); [|cbn; now rewrite app_nil_r].
    destruct (andb _ _); cbn; now rewrite app_nil_r.
Qed.

Lemma p_run_fifo ops : forall s,
  let '(s', out) := p_run s ops in
  sinks out ++ map fst (p_queue s') = map fst (p_queue s) ++ writes ops.
Proof.
  induction ops as [|o ops IH]; intros s; cbn [p_run].
  - cbn. now rewrite app_nil_r.
  - pose proof (p_step_fifo s o) as H1. destruct (p_step s o) as [s1 o1].
    specialize (IH s1). destruct (p_run s1 ops) as [s2 o2].
    rewrite sinks_app, <- app_assoc, IH, app_assoc, H1, <- app_assoc.
    f_equal. destruct o; reflexivity.
Qed.

(* the ready_to_pump event is consistent with can_pump whenever the pump task is
   not suspended in drain_sink *)
Definition ready_inv (s : pstate) : Prop := p_mid s = false -> p_ready s = can_pump s.

Lemma check_pump_ready s : ready_inv (check_pump s).
Proof. intros _. reflexivity. Qed.

Lemma p_step_ready s o : ready_inv s -> ready_inv (fst (p_step s o)).
Proof.
  intros Hi. destruct o as [p len| | | |]; cbn [p_step].
  - destruct (andb _ _); cbn [fst]; apply check_pump_ready.
  - destruct (p_paused s); [exact Hi|]. destruct (p_src_paused s); apply check_pump_ready.
  - destruct (p_paused s); [|exact Hi]. destruct (p_src_paused s); apply check_pump_ready.
  - destruct (andb _ _); [|exact Hi].
    destruct (p_queue s) as [|[p len] q']; [apply check_pump_ready|].
    destruct (p_paused s); [apply check_pump_ready|]. intros H; cbn in H; discriminate.
  - destruct (p_mid s); [|exact Hi]. destruct (andb _ _); apply check_pump_ready.
Qed.

Lemma p_run_ready ops : forall s, ready_inv s -> ready_inv (fst (p_run s ops)).
Proof.
  induction ops as [|o ops IH]; intros s Hi; cbn [p_run]; [exact Hi|].
  pose proof (p_step_ready s o Hi) as H. destruct (p_step s o) as [s1 o1].
  specialize (IH s1 H). destruct (p_run s1 ops). exact IH.
Qed.

(* progress: with data queued and the pipe not paused, the pump task is either
   suspended in drain_sink (PumpB enabled) or its next step writes the oldest
   queued packet to the sink *)
Lemma pump_progress s p len q :
  ready_inv s -> p_queue s = (p, len) :: q -> p_paused s = false -> p_mid s = false ->
  snd (p_step s PumpA) = [Sink p] /\ p_queue (fst (p_step s PumpA)) = q.
Proof.
  intros Hi Hq Hp Hm. cbn [p_step]. rewrite (Hi Hm). unfold can_pump. rewrite Hq, Hp, Hm. cbn.
  auto.
Qed.

Lemma pumpB_clears s : p_mid (fst (p_step s PumpB)) = false.
Proof.
  cbn [p_step]. destruct (p_mid s) eqn:E; [|exact E]. destruct (andb _ _); reflexivity.
Qed.
