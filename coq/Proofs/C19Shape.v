(* The regenerated source shape (Gen/C19Shape.v, rewritten from the current bumble sources on every run)
   against the models of property C19: the models' size / count / bit-field arithmetic is the source's on
   every argument, the constants are the source's, the stream procedures' guards and targets are the model's
   transition table, and the statement skeleton of every anchored function is the one the models were read
   from (Model/C19Shape.v). *)
From Coq Require Import ZArith List Bool Lia.
From BV Require Import Model.C19Chunks Model.Sdp Model.AvdtpAsm Model.AvctpAsm Model.AvdtpStream Model.C19Shape.
From BV Require Import Gen.C19Shape Proofs.C19Chunks.
Import ListNotations.
Open Scope Z_scope.

(* ------------------------------------------------------------------ finite ranges *)
Definition zseq (n : nat) : list Z := map Z.of_nat (seq 0 n).

Lemma in_zseq : forall n b, 0 <= b < Z.of_nat n -> In b (zseq n).
Proof.
  intros n b H. unfold zseq. apply in_map_iff. exists (Z.to_nat b). split; [lia|].
  apply in_seq. lia.
Qed.

(* ------------------------------------------------------------------ SDP *)
Lemma sdp_search_handler_src : forall recs mtu pat mc total hs,
  handle recs mtu (RHandles total hs) (QSearch pat mc CValid) =
  (RHandles total (skipn (Z.to_nat (g_sdp_search_per mtu)) hs),
   ESearch total (firstn (Z.to_nat (g_sdp_search_per mtu)) hs)
           (negb (is_nil (skipn (Z.to_nat (g_sdp_search_per mtu)) hs)))).
Proof. reflexivity. Qed.

Lemma sdp_search_first_src : forall recs mtu cur pat mc,
  handle recs mtu cur (QSearch pat mc CFresh) =
  handle recs mtu (RHandles (zlen (map fst (match_services recs pat)))
                            (firstn (Z.to_nat mc) (map fst (match_services recs pat))))
         (QSearch pat mc CValid).
Proof. reflexivity. Qed.

Lemma sdp_next_payload_src : forall mx b,
  next_payload mx b =
  if g_sdp_more (zlen b) mx
  then (firstn (Z.to_nat (g_sdp_payload_end mx)) b, true, RBytes (skipn (Z.to_nat (g_sdp_rest_start mx)) b))
  else (b, false, RNone).
Proof. reflexivity. Qed.

Lemma sdp_budget_src : forall recs mtu b h pat mb ids,
  handle recs mtu (RBytes b) (QAttr h mb ids CValid) = respond_bytes EAttr (g_sdp_attr_budget mb mtu) (RBytes b) /\
  handle recs mtu (RBytes b) (QSearchAttr pat mb ids CValid) =
  respond_bytes ESearchAttr (g_sdp_sattr_budget mb mtu) (RBytes b).
Proof. split; reflexivity. Qed.

(* a one-byte continuation state starts a transaction, the two-byte CONTINUATION_STATE continues one *)
Lemma sdp_continuation_src :
  g_sdp_continuation_state = e_sdp_continuation_state /\
  g_sdp_is_continuation 1 = false /\ g_sdp_is_continuation (zlen g_sdp_continuation_state) = true /\
  g_sdp_client_done 1 0 = true /\ g_sdp_client_done (zlen g_sdp_continuation_state) 1 = false.
Proof. vm_compute. repeat split. Qed.

Lemma sdp_ids_src : forall v,
  g_sdp_is_range 4 = true /\ g_sdp_is_range 2 = false /\
  id_lo (true, v) = g_sdp_id_lo v /\ id_hi (true, v) = g_sdp_id_hi v /\
  id_lo (false, v) = v /\ id_hi (false, v) = v.
Proof.
  intro v. unfold id_lo, id_hi, g_sdp_id_lo, g_sdp_id_hi. cbn [fst snd].
  rewrite Z.shiftr_div_pow2 by lia. change 65535 with (Z.ones 16). rewrite Z.land_ones by lia.
  repeat split.
Qed.

Lemma sdp_in_range_src : forall i a, in_range i a = g_sdp_in_range (at_id a) (id_lo i) (id_hi i).
Proof. reflexivity. Qed.

Lemma sdp_client_src : forall recs mtu cur h pat ids,
  client_get_attributes recs mtu cur h ids =
    client_bytes (Z.to_nat g_sdp_watchdog) recs mtu (QAttr h g_sdp_client_get_attributes_max ids CFresh) cur CFresh [] /\
  client_search_attributes recs mtu cur pat ids =
    client_bytes (Z.to_nat g_sdp_watchdog) recs mtu (QSearchAttr pat g_sdp_client_search_attributes_max ids CFresh) cur CFresh [] /\
  client_search_services recs mtu cur pat =
    client_handles (Z.to_nat g_sdp_watchdog) recs mtu (QSearch pat g_sdp_client_search_services_max CFresh) cur CFresh [].
Proof. intros. repeat split. Qed.

Lemma sdp_errors_src :
  g_sdp_errors_check_continuation = [ERR_INVALID_CONTINUATION] /\
  g_sdp_errors_on_sdp_service_search_request = [] /\
  g_sdp_errors_on_sdp_service_attribute_request = [ERR_INVALID_HANDLE] /\
  g_sdp_errors_on_sdp_service_search_attribute_request = [] /\
  g_sdp_errors_on_pdu = [3; ERR_INSUFFICIENT_RESOURCES; 3] /\
  g_sdp_pdu_ids = e_sdp_pdu_ids.
Proof. vm_compute. repeat split. Qed.

(* on_channel_close in the source: pop unconditionally; reset the served state iff `channel is self.channel`;
   the model's Disconnect step is that *)
Lemma sdp_close_src :
  g_sdp_close_shape = [1; 1; 1; 1; 2] /\
  forall recs s b,
    fst (s_step recs s (Disconnect b)) =
    if is_chan s b then mkS None RNone (p_remove b (s_pending s))
    else mkS (s_chan s) (s_cur s) (p_remove b (s_pending s)).
Proof. split; [vm_compute; reflexivity|]. intros. simpl. destruct (is_chan s b); reflexivity. Qed.

(* ------------------------------------------------------------------ AVDTP *)
Definition a_frag_src (mtu label sig mt : Z) (payload : list Z) : fragres :=
  let F := g_avdtp_fragment_size mtu in
  if g_avdtp_single (zlen payload) mtu then
    FPackets [a_hdr label PT_SINGLE mt :: sig :: payload]
  else
    let n := g_avdtp_packet_count F (zlen payload) in
    if 255 <? n then FRaise
    else
      match chunks (length payload) (Z.to_nat F) (skipn (Z.to_nat F) payload) with
      | None => FOutOfFuel
      | Some cs =>
          FPackets ((a_hdr label PT_START mt :: sig :: n :: firstn (Z.to_nat F) payload)
                    :: a_tail_packets label mt cs)
      end.

Lemma avdtp_frag_src : forall mtu label sig mt payload,
  a_frag mtu label sig mt payload = a_frag_src mtu label sig mt payload.
Proof. reflexivity. Qed.

Lemma avdtp_header_check :
  forallb (fun l => forallb (fun pt => forallb (fun mt => g_avdtp_header l pt mt =? a_hdr l pt mt) (zseq 4)) (zseq 4)) (zseq 16) = true.
Proof. vm_compute. reflexivity. Qed.

Lemma avdtp_header_src : forall label pt mt,
  0 <= label < 16 -> 0 <= pt < 4 -> 0 <= mt < 4 -> g_avdtp_header label pt mt = a_hdr label pt mt.
Proof.
  intros label pt mt Hl Hp Hm. pose proof avdtp_header_check as H.
  rewrite forallb_forall in H. specialize (H label (in_zseq 16 label Hl)).
  rewrite forallb_forall in H. specialize (H pt (in_zseq 4 pt Hp)).
  rewrite forallb_forall in H. specialize (H mt (in_zseq 4 mt Hm)).
  apply Z.eqb_eq. exact H.
Qed.

Lemma avdtp_decode_check :
  forallb (fun b => (g_avdtp_label b =? b / 16) && (g_avdtp_packet_type b =? (b / 4) mod 4)
                    && (g_avdtp_message_type b =? b mod 4) && (g_avdtp_signal b =? b mod 64)) (zseq 256) = true.
Proof. vm_compute. reflexivity. Qed.

(* the model decodes a header byte exactly as MessageAssembler.on_pdu does *)
Lemma avdtp_decode_src : forall b, 0 <= b < 256 ->
  g_avdtp_label b = b / 16 /\ g_avdtp_packet_type b = (b / 4) mod 4 /\
  g_avdtp_message_type b = b mod 4 /\ g_avdtp_signal b = b mod 64.
Proof.
  intros b Hb. pose proof avdtp_decode_check as H. rewrite forallb_forall in H.
  specialize (H b (in_zseq 256 b Hb)). repeat rewrite andb_true_iff in H.
  destruct H as (((H1 & H2) & H3) & H4). apply Z.eqb_eq in H1, H2, H3, H4. tauto.
Qed.

Lemma avdtp_guards_src : forall len cnt nsp F,
  g_avdtp_too_short len = (len <? 2) /\ g_avdtp_start_too_short len = (len <? 3) /\
  g_avdtp_end_bad cnt nsp = negb (cnt =? nsp) /\ g_avdtp_continue_bad cnt nsp = (nsp <? cnt) /\
  g_avdtp_continue len F = (F <? len) /\
  g_avdtp_body_offsets = e_avdtp_body_offsets /\ g_avdtp_packet_types = e_packet_types /\
  e_packet_types = [PT_SINGLE; PT_START; PT_CONTINUE; PT_END].
Proof. intros. repeat split. Qed.

(* the count tests of the model's CONTINUE / END branches are the source's *)
Lemma avdtp_count_tests_src : forall label acc mt sg n k c,
  (k =? 0) = false ->
  a_on_frame (mkA label (Some acc) mt sg n k) label PT_END mt c =
    (if g_avdtp_end_bad k n then (a_reset, []) else (a_reset, [AMsg label sg mt (acc ++ c)])) /\
  a_on_frame (mkA label (Some acc) mt sg n k) label PT_CONTINUE mt c =
    (if g_avdtp_continue_bad k n then (a_reset, []) else (mkA label (Some (acc ++ c)) mt sg n k, [])).
Proof.
  intros label acc mt sg n k c Hk. unfold a_on_frame, g_avdtp_end_bad, g_avdtp_continue_bad.
  change ((PT_END =? PT_SINGLE) || (PT_END =? PT_START)) with false.
  change ((PT_CONTINUE =? PT_SINGLE) || (PT_CONTINUE =? PT_START)) with false.
  cbn [a_count a_label a_mtype a_msg a_nsp a_sig]. rewrite Hk, !Z.eqb_refl. cbn [negb].
  change (PT_END =? PT_END) with true. change (PT_CONTINUE =? PT_END) with false. split; reflexivity.
Qed.

(* ------------------------------------------------------------------ AVCTP *)
Lemma avctp_decode_check :
  forallb (fun b => (g_avctp_label b =? b / 16) && (g_avctp_packet_type b =? (b / 4) mod 4)
                    && (g_avctp_cr b =? (b / 2) mod 2) && (g_avctp_ipid b =? b mod 2)) (zseq 256) = true.
Proof. vm_compute. reflexivity. Qed.

Lemma avctp_decode_src : forall b, 0 <= b < 256 ->
  g_avctp_label b = b / 16 /\ g_avctp_packet_type b = (b / 4) mod 4 /\
  g_avctp_cr b = (b / 2) mod 2 /\ g_avctp_ipid b = b mod 2.
Proof.
  intros b Hb. pose proof avctp_decode_check as H. rewrite forallb_forall in H.
  specialize (H b (in_zseq 256 b Hb)). repeat rewrite andb_true_iff in H.
  destruct H as (((H1 & H2) & H3) & H4). apply Z.eqb_eq in H1, H2, H3, H4. tauto.
Qed.

Lemma avctp_guards_src : forall cr ipid rcv nop,
  g_avctp_invalid_ipid cr ipid = ((cr =? 0) && negb (ipid =? 0)) /\
  g_avctp_too_many rcv nop = (nop <? rcv) /\ g_avctp_premature_end rcv nop = negb (rcv =? nop) /\
  g_avctp_pid_offsets = e_avctp_pid_offsets /\
  map g_avctp_body_start g_avctp_pid_offsets = [3; 4] /\
  g_avctp_packet_types = e_packet_types /\ e_packet_types = [CT_SINGLE; CT_START; CT_CONTINUE; CT_END].
Proof. intros. repeat split. Qed.

(* the model's CONTINUE / END branch, with the source's tests *)
Lemma avctp_count_tests_src : forall label pid cr ipid ipid' acc n k ph pl body,
  g_avctp_invalid_ipid cr ipid' = false -> ph * 256 + pl = pid ->
  c_on_frame (mkC k label pid cr ipid acc n) label CT_END cr ipid' (ph :: pl :: body) =
    (if g_avctp_too_many k n || g_avctp_premature_end k n then (c_reset, [])
     else (c_reset, [c_deliver label cr ipid pid (acc ++ body)])) /\
  c_on_frame (mkC k label pid cr ipid acc n) label CT_CONTINUE cr ipid' (ph :: pl :: body) =
    (if g_avctp_too_many k n then (c_reset, []) else (mkC k label pid cr ipid (acc ++ body) n, [])).
Proof.
  intros label pid cr ipid ipid' acc n k ph pl body Hv Hp.
  unfold g_avctp_invalid_ipid in Hv. unfold c_on_frame, g_avctp_too_many, g_avctp_premature_end. rewrite Hv.
  change (CT_END =? CT_SINGLE) with false. change (CT_END =? CT_START) with false.
  change (CT_CONTINUE =? CT_SINGLE) with false. change (CT_CONTINUE =? CT_START) with false.
  cbv iota. cbn [c_payload c_label c_pid c_cr c_nop c_received c_ipid].
  rewrite Hp, !Z.eqb_refl. cbn [negb].
  change (CT_END =? CT_END) with true. change (CT_CONTINUE =? CT_END) with false.
  split; destruct (n <? k); cbn [orb]; reflexivity.
Qed.

(* ------------------------------------------------------------------ AVDTP stream procedures *)
Lemma stream_tables_src :
  g_stream_initiator = e_stream_initiator /\ g_stream_acceptor = e_stream_acceptor /\
  g_avdtp_state_codes = [0; 1; 2; 3; 4; 5].
Proof. vm_compute. repeat split. Qed.

Definition zcode (s : sst) : Z := Z.of_nat (sst_code s).
Definition zmem (x : Z) (l : list Z) : bool := existsb (Z.eqb x) l.
Definition row (t : list (list Z * list Z)) (i : nat) : list Z * list Z := nth i t ([], []).

(* states in which the initiator's procedure goes ahead: the guard of the table; Stream.start opens first
   when CONFIGURED (the translator checks that `if self.state == State.CONFIGURED: await self.open()` is there) *)
Definition initiator_allowed (o : sop) : option (list Z) :=
  match o with
  | OpConfigure => Some (fst (row e_stream_initiator 0))
  | OpOpen => Some (fst (row e_stream_initiator 1))
  | OpStart => Some (fst (row e_stream_initiator 1) ++ fst (row e_stream_initiator 2))
  | OpSuspend => Some (fst (row e_stream_initiator 3))
  | OpClose => Some (fst (row e_stream_initiator 4))
  | OpAbort => Some (fst (row e_stream_initiator 5))
  | _ => None
  end.
Definition initiator_final (o : sop) : option Z :=
  match o with
  | OpConfigure => Some (last (snd (row e_stream_initiator 0)) 9)
  | OpOpen => Some (last (snd (row e_stream_initiator 1)) 9)
  | OpStart => Some (last (snd (row e_stream_initiator 2)) 9)
  | OpSuspend => Some (last (snd (row e_stream_initiator 3)) 9)
  | OpClose => Some (last (snd (row e_stream_initiator 4)) 9)
  | OpAbort => Some (last (snd (row e_stream_initiator 5)) 9)
  | _ => None
  end.

Definition is_refused (r : sres) : bool := match r with Refused => true | _ => false end.
Definition is_ok (r : sres) : bool := match r with Ok => true | _ => false end.

(* in every agreeing state the model's initiator refuses exactly outside the source's guard, and an accepted
   procedure ends in the last change_state target of the source *)
Definition initiator_check (p : pair) (o : sop) : bool :=
  match initiator_allowed o, initiator_final o with
  | Some allowed, Some final =>
      implb (agree p)
        (let '(p', r) := step p o in
         Bool.eqb (is_refused r) (negb (zmem (zcode (src_st p)) allowed))
         && implb (is_ok r) (zcode (src_st p') =? final))
  | _, _ => true
  end.

Lemma stream_initiator_check_all :
  forallb (fun p => forallb (initiator_check p) all_ops) all_pairs = true.
Proof. vm_compute. reflexivity. Qed.

(* the acceptor: Protocol.on_X_command + Stream.on_X_command accept exactly in the guard's states (given a
   stream exists; on_set_configuration makes a fresh IDLE stream unless the endpoint is in use; on_start also
   needs the RTP channel), and move to one of the source's targets *)
Definition acceptor_check (p : pair) : bool :=
  let st := zcode (snk_st p) in
  let g i := fst (row e_stream_acceptor i) in
  let t i := snd (row e_stream_acceptor i) in
  let after (r : bool * pair) := zcode (snk_st (snd r)) in
  Bool.eqb (fst (snk_set_configuration p)) (negb (snk_has p) || zmem st (g 0%nat))
  && implb (fst (snk_set_configuration p)) (zmem (after (snk_set_configuration p)) (t 0%nat))
  && Bool.eqb (fst (snk_open p)) (snk_has p && zmem st (g 1%nat))
  && implb (fst (snk_open p)) (zmem (after (snk_open p)) (t 1%nat))
  && Bool.eqb (fst (snk_start p)) (snk_has p && zmem st (g 2%nat) && snk_rtp p)
  && implb (fst (snk_start p)) (zmem (after (snk_start p)) (t 2%nat))
  && Bool.eqb (fst (snk_suspend p)) (snk_has p && zmem st (g 3%nat))
  && implb (fst (snk_suspend p)) (zmem (after (snk_suspend p)) (t 3%nat))
  && Bool.eqb (fst (snk_close p)) (snk_has p && zmem st (g 4%nat))
  && implb (fst (snk_close p)) (zmem (after (snk_close p)) (t 4%nat))
  && implb (snk_has p) (zmem (zcode (snk_st (snk_abort p))) (t 5%nat))
  && Bool.eqb (is_ok (snd (step p OpGetConfiguration))) (snk_has p && zmem st (g 6%nat))
  && Bool.eqb (is_ok (snd (step p OpReconfigure))) (snk_has p && zmem st (g 7%nat)).

Lemma stream_acceptor_check_all : forallb acceptor_check all_pairs = true.
Proof. vm_compute. reflexivity. Qed.

(* ------------------------------------------------------------------ skeletons *)
Lemma skeletons_src : g_skeletons = e_skeletons.
Proof. vm_compute. reflexivity. Qed.
