(* Proofs/CodecsL2cap.v — round-trip lemmas for Model/CodecsL2cap.v. *)
From Coq Require Import ZArith List Bool Lia.
From BV Require Import Base.Bytes Proofs.Bytes Model.CodecsBase Proofs.CodecsBase Model.CodecsL2cap.
Import ListNotations.
Open Scope Z_scope.

(* ---------------------------------------------------------------- ERTM control fields *)
Lemma iframe_eqb_eq : forall a b, iframe_eqb a b = true -> a = b.
Proof.
  intros [a1 a2 a3 a4] [b1 b2 b3 b4]. unfold iframe_eqb. cbn.
  rewrite !andb_true_iff, !Z.eqb_eq. intros [[[-> ->] ->] ->]. reflexivity.
Qed.
Lemma sframe_eqb_eq : forall a b, sframe_eqb a b = true -> a = b.
Proof.
  intros [a1 a2 a3 a4] [b1 b2 b3 b4]. unfold sframe_eqb. cbn.
  rewrite !andb_true_iff, !Z.eqb_eq. intros [[[-> ->] ->] ->]. reflexivity.
Qed.

(* complete evaluation of the I-frame value space: 64 x 4 x 64 x 2 *)
Definition iframe_chk (tx sar req fin : Z) : bool :=
  let f := {| i_tx_seq := tx; i_sar := sar; i_req_seq := req; i_final := fin |} in
  match iframe_bytes f with
  | [b0; b1] => byte_ok b0 && byte_ok b1 && (Z.land b0 1 =? 0) && iframe_eqb (iframe_parse b0 b1) f
  | _ => false
  end.
Lemma iframe_all :
  forallb (fun tx => forallb (fun sar => forallb (fun req => forallb (fun fin =>
    iframe_chk tx sar req fin) (zrange 2)) (zrange 64)) (zrange 4)) (zrange 64) = true.
Proof. vm_compute. reflexivity. Qed.

Definition sframe_chk (fn poll req fin : Z) : bool :=
  let f := {| s_function := fn; s_poll := poll; s_req_seq := req; s_final := fin |} in
  match sframe_bytes f with
  | [b0; b1] => byte_ok b0 && byte_ok b1 && (Z.land b0 1 =? 1) && sframe_eqb (sframe_parse b0 b1) f
  | _ => false
  end.
Lemma sframe_all :
  forallb (fun fn => forallb (fun poll => forallb (fun req => forallb (fun fin =>
    sframe_chk fn poll req fin) (zrange 2)) (zrange 128)) (zrange 2)) (zrange 4) = true.
Proof. vm_compute. reflexivity. Qed.

Lemma iframe_value_roundtrip : forall f tail,
  iframe_ok f = true -> ecf_parse (iframe_bytes f ++ tail) = Some (IFrame f).
Proof.
  intros [tx sar req fin] tail H. unfold iframe_ok in H. cbn [i_tx_seq i_sar i_req_seq i_final] in H.
  rewrite !andb_true_iff, !zlt_iff in H. destruct H as [[[Htx Hsar] Hreq] Hfin].
  pose proof (forall_range 64 _ iframe_all tx ltac:(cbn; lia)) as H1. cbv beta in H1.
  pose proof (forall_range 4 _ H1 sar ltac:(cbn; lia)) as H2. cbv beta in H2.
  pose proof (forall_range 64 _ H2 req ltac:(cbn; lia)) as H3. cbv beta in H3.
  pose proof (forall_range 2 _ H3 fin ltac:(cbn; lia)) as H4. cbv beta in H4.
  unfold iframe_chk in H4.
  set (f := {| i_tx_seq := tx; i_sar := sar; i_req_seq := req; i_final := fin |}) in *.
  destruct (iframe_bytes f) as [|b0 [|b1 [|? ?]]] eqn:E; try discriminate.
  rewrite !andb_true_iff in H4. destruct H4 as [[[_ _] Hb] He].
  cbn [app ecf_parse]. rewrite Hb. apply iframe_eqb_eq in He. rewrite He. reflexivity.
Qed.

Lemma sframe_value_roundtrip : forall f tail,
  sframe_ok f = true -> ecf_parse (sframe_bytes f ++ tail) = Some (SFrame f).
Proof.
  intros [fn poll req fin] tail H. unfold sframe_ok in H. cbn [s_function s_poll s_req_seq s_final] in H.
  rewrite !andb_true_iff, !zlt_iff in H. destruct H as [[[Hfn Hpoll] Hreq] Hfin].
  pose proof (forall_range 4 _ sframe_all fn ltac:(cbn; lia)) as H1. cbv beta in H1.
  pose proof (forall_range 2 _ H1 poll ltac:(cbn; lia)) as H2. cbv beta in H2.
  pose proof (forall_range 128 _ H2 req ltac:(cbn; lia)) as H3. cbv beta in H3.
  pose proof (forall_range 2 _ H3 fin ltac:(cbn; lia)) as H4. cbv beta in H4.
  unfold sframe_chk in H4.
  set (f := {| s_function := fn; s_poll := poll; s_req_seq := req; s_final := fin |}) in *.
  destruct (sframe_bytes f) as [|b0 [|b1 [|? ?]]] eqn:E; try discriminate.
  rewrite !andb_true_iff in H4. destruct H4 as [[[_ _] Hb] He].
  cbn [app ecf_parse]. apply Z.eqb_eq in Hb. rewrite Hb. cbn [Z.eqb]. apply sframe_eqb_eq in He. rewrite He. reflexivity.
Qed.

Theorem ecf_value_roundtrip : forall c tail,
  ecf_ok c = true -> ecf_parse (ecf_bytes c ++ tail) = Some c.
Proof.
  intros [f|f] tail H; cbn [ecf_ok ecf_bytes] in *.
  - apply iframe_value_roundtrip. exact H.
  - apply sframe_value_roundtrip. exact H.
Qed.

Lemma ecf_bytes_ok : forall c, ecf_ok c = true -> bytes_ok (ecf_bytes c) = true /\ length (ecf_bytes c) = 2%nat.
Proof.
  intros [[tx sar req fin]|[fn poll req fin]] H; cbn [ecf_ok ecf_bytes] in *.
  - unfold iframe_ok in H. cbn [i_tx_seq i_sar i_req_seq i_final] in H.
    rewrite !andb_true_iff, !zlt_iff in H. destruct H as [[[Htx Hsar] Hreq] Hfin].
    pose proof (forall_range 64 _ iframe_all tx ltac:(cbn; lia)) as H1. cbv beta in H1.
    pose proof (forall_range 4 _ H1 sar ltac:(cbn; lia)) as H2. cbv beta in H2.
    pose proof (forall_range 64 _ H2 req ltac:(cbn; lia)) as H3. cbv beta in H3.
    pose proof (forall_range 2 _ H3 fin ltac:(cbn; lia)) as H4. cbv beta in H4.
    unfold iframe_chk in H4.
    destruct (iframe_bytes _) as [|b0 [|b1 [|? ?]]] eqn:E; try discriminate.
    rewrite !andb_true_iff in H4. destruct H4 as [[[Ha Hb] _] _].
    split; [|reflexivity]. cbn. rewrite Ha, Hb. reflexivity.
  - unfold sframe_ok in H. cbn [s_function s_poll s_req_seq s_final] in H.
    rewrite !andb_true_iff, !zlt_iff in H. destruct H as [[[Hfn Hpoll] Hreq] Hfin].
    pose proof (forall_range 4 _ sframe_all fn ltac:(cbn; lia)) as H1. cbv beta in H1.
    pose proof (forall_range 2 _ H1 poll ltac:(cbn; lia)) as H2. cbv beta in H2.
    pose proof (forall_range 128 _ H2 req ltac:(cbn; lia)) as H3. cbv beta in H3.
    pose proof (forall_range 2 _ H3 fin ltac:(cbn; lia)) as H4. cbv beta in H4.
    unfold sframe_chk in H4.
    destruct (sframe_bytes _) as [|b0 [|b1 [|? ?]]] eqn:E; try discriminate.
    rewrite !andb_true_iff in H4. destruct H4 as [[[Ha Hb] _] _].
    split; [|reflexivity]. cbn. rewrite Ha, Hb. reflexivity.
Qed.

(* bytes -> value -> bytes: complete evaluation of 256 x 256 received octet pairs *)
Definition ecf_bytes_chk (b0 b1 : Z) : bool :=
  match ecf_parse [b0; b1] with
  | Some c => ecf_ok c && (negb (ecf_reserved_zero b0 b1) || zlist_eqb (ecf_bytes c) [b0; b1])
  | None => false
  end.
Lemma ecf_bytes_all : forall2b (zrange 256) (zrange 256) ecf_bytes_chk = true.
Proof. vm_compute. reflexivity. Qed.

Theorem ecf_bytes_roundtrip : forall b0 b1 tail c,
  byte_ok b0 = true -> byte_ok b1 = true ->
  ecf_parse (b0 :: b1 :: tail) = Some c ->
  ecf_ok c = true /\ (ecf_reserved_zero b0 b1 = true -> ecf_bytes c = [b0; b1]).
Proof.
  intros b0 b1 tail c H0 H1 Hp.
  apply byte_range in H0. apply byte_range in H1.
  pose proof (forall2_range 256 256 _ ecf_bytes_all b0 b1 H0 H1) as H.
  unfold ecf_bytes_chk in H.
  assert (Hp' : ecf_parse [b0; b1] = Some c) by exact Hp.
  rewrite Hp' in H. apply andb_true_iff in H as [Hok H]. split; [exact Hok|].
  intro Hr. rewrite Hr in H. cbn in H. apply zlist_eqb_eq. exact H.
Qed.

(* the unfixed serializer (poll << 7) does not round-trip: D18a *)
Lemma sframe_unfixed_refuted :
  exists f, sframe_ok f = true /\ ecf_parse (sframe_bytes_unfixed f) <> Some (SFrame f).
Proof.
  exists {| s_function := 0; s_poll := 1; s_req_seq := 5; s_final := 0 |}.
  split; [reflexivity|]. vm_compute. discriminate.
Qed.

Lemma ecf_short : forall d, (length d < 2)%nat -> ecf_parse d = None.
Proof. intros [|a [|b r]] H; cbn in *; try reflexivity; lia. Qed.

(* ---------------------------------------------------------------- basic L2CAP PDU *)
Theorem pdu_value_roundtrip : forall cid payload b tail,
  pdu_bytes cid payload = Some b ->
  pdu_parse (b ++ tail) = Some (cid, payload).
Proof.
  intros cid payload b tail H. unfold pdu_bytes in H.
  destruct (u_range 2 (lenZ payload) && u_range 2 cid) eqn:E; [|discriminate].
  inversion H; subst b; clear H.
  apply andb_true_iff in E as [Hl Hc]. apply u_range_iff in Hl. apply u_range_iff in Hc.
  cbn [le_encode app]. cbn [pdu_parse].
  f_equal. f_equal.
  - pose proof (le_decode_encode 2 cid Hc) as D. cbn [le_encode] in D. exact D.
  - pose proof (le_decode_encode 2 (lenZ payload) Hl) as D. cbn [le_encode] in D. rewrite D.
    unfold lenZ. rewrite Nat2Z.id. apply firstn_app_exact.
Qed.

(* a received PDU whose length field is exact re-serialises to the same bytes *)
Theorem pdu_bytes_roundtrip : forall d cid payload,
  bytes_ok d = true -> pdu_parse d = Some (cid, payload) ->
  lenZ d = 4 + le_decode (firstn 2 d) ->
  pdu_bytes cid payload = Some d.
Proof.
  intros d cid payload Hok Hp Hlen.
  destruct d as [|l0 [|l1 [|c0 [|c1 r]]]]; try discriminate.
  cbn [pdu_parse] in Hp. apply some_pair_inv in Hp as [<- <-].
  cbn [firstn] in Hlen.
  rewrite !bytes_ok_cons in Hok. rewrite !andb_true_iff in Hok.
  destruct Hok as [Hl0 [Hl1 [Hc0 [Hc1 Hr]]]].
  assert (Hlr : lenZ r = le_decode [l0; l1]).
  { unfold lenZ in *. cbn [length] in Hlen. lia. }
  assert (Hfn : firstn (Z.to_nat (le_decode [l0; l1])) r = r).
  { rewrite <- Hlr. unfold lenZ. rewrite Nat2Z.id. apply firstn_all. }
  rewrite Hfn. unfold pdu_bytes.
  assert (Hb2 : bytes_ok [l0; l1] = true) by (cbn; rewrite Hl0, Hl1; reflexivity).
  assert (Hc2 : bytes_ok [c0; c1] = true) by (cbn; rewrite Hc0, Hc1; reflexivity).
  pose proof (le_decode_range [l0; l1] Hb2) as R1. pose proof (le_decode_range [c0; c1] Hc2) as R2.
  cbn [length] in R1, R2.
  rewrite Hlr.
  replace (u_range 2 (le_decode [l0; l1])) with true by (symmetry; apply u_range_iff; exact R1).
  replace (u_range 2 (le_decode [c0; c1])) with true by (symmetry; apply u_range_iff; exact R2).
  cbn [andb].
  rewrite (le_encode_decode_n 2 [l0; l1] eq_refl Hb2).
  rewrite (le_encode_decode_n 2 [c0; c1] eq_refl Hc2). reflexivity.
Qed.

(* ---------------------------------------------------------------- PSM *)
Lemma land_255 : forall v, 0 <= v -> Z.land v 255 = v mod 256.
Proof. intros. change 255 with (Z.ones 8). rewrite Z.land_ones by lia. reflexivity. Qed.
Lemma land_65535 : forall v, 0 <= v -> Z.land v 65535 = v mod 65536.
Proof. intros. change 65535 with (Z.ones 16). rewrite Z.land_ones by lia. reflexivity. Qed.

Lemma psm_tail_decode : forall fuel v,
  0 <= v < 2 ^ (8 * Z.of_nat fuel) -> le_decode (psm_tail fuel v) = v.
Proof.
  induction fuel as [|k IH]; intros v Hv.
  - cbn in Hv. cbn. lia.
  - cbn [psm_tail]. destruct (v =? 0) eqn:E.
    + apply Z.eqb_eq in E. subst. reflexivity.
    + cbn [le_decode]. rewrite land_255 by lia. rewrite Z.shiftr_div_pow2 by lia.
      change (2 ^ 8) with 256. rewrite IH.
      * pose proof (Z.div_mod v 256). lia.
      * split; [apply Z.div_pos; lia|].
        apply Z.div_lt_upper_bound; [lia|].
        replace (8 * Z.of_nat (S k)) with (8 + 8 * Z.of_nat k) in Hv by lia.
        rewrite Z.pow_add_r in Hv by lia. change (2 ^ 8) with 256 in Hv. lia.
Qed.

Lemma psm_tail_ok : forall fuel v, 0 <= v -> bytes_ok (psm_tail fuel v) = true.
Proof.
  induction fuel as [|k IH]; intros v Hv; [reflexivity|].
  cbn [psm_tail]. destruct (v =? 0); [reflexivity|].
  rewrite bytes_ok_cons. rewrite IH.
  - rewrite andb_true_r. apply byte_ok_iff. rewrite land_255 by lia. apply Z.mod_pos_bound. lia.
  - rewrite Z.shiftr_div_pow2 by lia. apply Z.div_pos; lia.
Qed.

Lemma log2_fuel_bound : forall v, 0 <= v -> v < 2 ^ (8 * Z.of_nat (psm_fuel v)).
Proof.
  intros v Hv. unfold psm_fuel.
  destruct (Z.eq_dec v 0) as [->|Hz]; [cbn; lia|].
  assert (0 < v) by lia.
  pose proof (Z.log2_spec v H) as [_ Hu].
  eapply Z.lt_le_trans; [exact Hu|].
  apply Z.pow_le_mono_r; [lia|].
  rewrite Nat2Z.inj_succ. rewrite Z2Nat.id by apply Z.log2_nonneg. pose proof (Z.log2_nonneg v). lia.
Qed.

Lemma psm_bytes_decode : forall v, 0 <= v -> le_decode (psm_bytes v) = v.
Proof.
  intros v Hv. unfold psm_bytes. rewrite land_65535 by lia.
  cbn [le_encode app le_decode].
  rewrite psm_tail_decode.
  - rewrite Z.shiftr_div_pow2 by lia. change (2 ^ 16) with 65536.
    assert (Hm : 0 <= v mod 65536 < 65536) by (apply Z.mod_pos_bound; lia).
    pose proof (Z.div_mod (v mod 65536) 256 ltac:(lia)).
    assert ((v mod 65536) / 256 < 256) by (apply Z.div_lt_upper_bound; lia).
    assert (0 <= (v mod 65536) / 256) by (apply Z.div_pos; lia).
    rewrite (Z.mod_small ((v mod 65536) / 256) 256) by lia.
    pose proof (Z.div_mod v 65536 ltac:(lia)). lia.
  - rewrite Z.shiftr_div_pow2 by lia. split; [apply Z.div_pos; lia|].
    pose proof (log2_fuel_bound v Hv).
    apply Z.div_lt_upper_bound; [lia|].
    eapply Z.lt_le_trans; [exact H|].
    assert (0 < 2 ^ 16) by lia.
    assert (0 < 2 ^ (8 * Z.of_nat (psm_fuel v))) by (apply Z.pow_pos_nonneg; lia). lia.
Qed.

Lemma psm_bytes_ok : forall v, 0 <= v -> bytes_ok (psm_bytes v) = true.
Proof.
  intros v Hv. unfold psm_bytes. rewrite bytes_ok_app, le_encode_ok. cbn [andb].
  apply psm_tail_ok. rewrite Z.shiftr_div_pow2 by lia. apply Z.div_pos; lia.
Qed.

Lemma psm_more_octets : forall e prev tail,
  psm_octets_ok (prev :: e) = true -> psm_more prev (e ++ tail) = Some (e, tail).
Proof.
  induction e as [|b e IH]; intros prev tail H.
  - cbn in H. cbn [app]. destruct tail; cbn [psm_more];
      rewrite <- Z.negb_even, H; reflexivity.
  - cbn [psm_octets_ok] in H. apply andb_true_iff in H as [Ho Hr].
    cbn [app psm_more]. rewrite Ho. rewrite (IH b tail Hr). reflexivity.
Qed.

Theorem psm_value_roundtrip : forall v tail,
  psm_ok v = true -> psm_parse (psm_bytes v ++ tail) = Some (v, tail).
Proof.
  intros v tail H. unfold psm_ok in H. apply andb_true_iff in H as [Hv Ho].
  apply Z.leb_le in Hv.
  pose proof (psm_bytes_decode v Hv) as Hd.
  unfold psm_bytes in *. cbn [le_encode app] in *.
  set (b0 := Z.land v 65535 mod 256) in *.
  set (b1 := (Z.land v 65535 / 256) mod 256) in *.
  set (e := psm_tail (psm_fuel v) (Z.shiftr v 16)) in *.
  cbn [tl] in Ho. cbn [psm_parse].
  rewrite (psm_more_octets e b1 tail Ho). rewrite Hd. reflexivity.
Qed.

(* bytes -> value -> bytes *)
Lemma psm_more_split : forall d prev e rest,
  psm_more prev d = Some (e, rest) -> d = e ++ rest /\ psm_octets_ok (prev :: e) = true.
Proof.
  induction d as [|b r IH]; intros prev e rest H.
  - cbn in H. destruct (Z.odd prev) eqn:Eo; [discriminate|]. inversion H; subst.
    split; [reflexivity|]. cbn. rewrite <- Z.negb_odd, Eo. reflexivity.
  - cbn [psm_more] in H. destruct (Z.odd prev) eqn:Eo.
    + destruct (psm_more b r) as [[e' rest']|] eqn:Em; [|discriminate].
      inversion H; subst. apply IH in Em as [-> Hok]. split; [reflexivity|].
      cbn [psm_octets_ok]. cbn [psm_octets_ok] in Hok. rewrite Eo. exact Hok.
    + inversion H; subst. split; [reflexivity|]. cbn. rewrite <- Z.negb_odd, Eo. reflexivity.
Qed.

Lemma le_decode_zero_last : forall e, bytes_ok e = true -> le_decode e = 0 -> last e 0 = 0.
Proof.
  induction e as [|b e IH]; intros Hok Hz; [reflexivity|].
  rewrite bytes_ok_cons in Hok. apply andb_true_iff in Hok as [Hb He].
  apply byte_ok_iff in Hb. pose proof (le_decode_range e He) as Hr.
  cbn [le_decode] in Hz.
  destruct e as [|b' e']; [cbn; lia|].
  change (last (b :: b' :: e') 0) with (last (b' :: e') 0).
  apply IH; [exact He|lia].
Qed.

Lemma psm_tail_canonical : forall e fuel,
  bytes_ok e = true -> (length e <= fuel)%nat ->
  (e = [] \/ last e 0 <> 0) -> psm_tail fuel (le_decode e) = e.
Proof.
  induction e as [|b e IH]; intros fuel Hok Hlen Hc.
  - destruct fuel; reflexivity.
  - destruct fuel as [|k]; [cbn in Hlen; lia|].
    pose proof Hok as Hok0.
    rewrite bytes_ok_cons in Hok. apply andb_true_iff in Hok as [Hb He].
    apply byte_ok_iff in Hb. pose proof (le_decode_range e He) as Hr.
    assert (Hnz : le_decode (b :: e) <> 0).
    { intro Hz. destruct Hc as [Hc|Hc]; [discriminate|].
      apply Hc. apply le_decode_zero_last; assumption. }
    cbn [le_decode psm_tail] in *.
    apply Z.eqb_neq in Hnz. rewrite Hnz.
    rewrite land_255 by lia. rewrite Z.shiftr_div_pow2 by lia. change (2 ^ 8) with 256.
    replace (b + 256 * le_decode e) with (b + le_decode e * 256) by lia.
    rewrite Z.mod_add by lia. rewrite Z.div_add by lia.
    rewrite Z.mod_small by lia. rewrite Z.div_small by lia. rewrite Z.add_0_l.
    f_equal. apply IH; [exact He | cbn in Hlen; lia |].
    destruct e as [|b' e']; [left; reflexivity|right].
    destruct Hc as [Hc|Hc]; [discriminate|]. exact Hc.
Qed.

Lemma le_decode_log2_len : forall e, bytes_ok e = true -> e <> [] -> last e 0 <> 0 ->
  (length e <= S (Z.to_nat (Z.log2 (le_decode e) / 8)))%nat.
Proof.
  induction e as [|b e IH]; intros Hok Hne Hl; [congruence|].
  rewrite bytes_ok_cons in Hok. apply andb_true_iff in Hok as [Hb He].
  apply byte_ok_iff in Hb. pose proof (le_decode_range e He) as Hr.
  destruct e as [|b' e'].
  - cbn. lia.
  - assert (Hl' : last (b' :: e') 0 <> 0) by exact Hl.
    specialize (IH He ltac:(discriminate) Hl').
    assert (Hw : 0 < le_decode (b' :: e')).
    { destruct (Z.eq_dec (le_decode (b' :: e')) 0) as [Hz|]; [|lia]. exfalso.
      apply Hl'. apply le_decode_zero_last; assumption. }
    set (w := le_decode (b' :: e')) in *.
    change (le_decode (b :: b' :: e')) with (b + 256 * w).
    assert (Hlog : Z.log2 w + 8 <= Z.log2 (b + 256 * w)).
    { replace (Z.log2 w + 8) with (Z.log2 (w * 2 ^ 8)) by (rewrite Z.log2_mul_pow2 by lia; lia).
      apply Z.log2_le_mono. change (2 ^ 8) with 256. lia. }
    assert (Hd : Z.log2 w / 8 + 1 <= Z.log2 (b + 256 * w) / 8).
    { replace (Z.log2 w / 8 + 1) with ((Z.log2 w + 1 * 8) / 8) by (rewrite Z.div_add by lia; reflexivity).
      apply Z.div_le_mono; lia. }
    pose proof (Z.log2_nonneg w). assert (0 <= Z.log2 w / 8) by (apply Z.div_pos; lia).
    cbn [length] in *. lia.
Qed.

Theorem psm_bytes_roundtrip : forall d v rest,
  bytes_ok d = true -> psm_parse d = Some (v, rest) ->
  exists enc, d = enc ++ rest /\ psm_octets_ok (tl enc) = true /\ 0 <= v /\
              (psm_canonical enc = true -> psm_bytes v = enc).
Proof.
  intros d v rest Hok Hp.
  destruct d as [|b0 [|b1 r]]; try discriminate.
  cbn [psm_parse] in Hp. destruct (psm_more b1 r) as [[e rest']|] eqn:Em; [|discriminate].
  apply some_pair_inv in Hp as [Hv0 Hr0]. subst rest' v.
  apply psm_more_split in Em as [-> Hoct].
  exists (b0 :: b1 :: e). split; [reflexivity|]. split; [exact Hoct|].
  assert (Hok' : bytes_ok (b0 :: b1 :: e) = true).
  { change (b0 :: b1 :: e ++ rest) with ((b0 :: b1 :: e) ++ rest) in Hok.
    rewrite bytes_ok_app in Hok. apply andb_true_iff in Hok as [H _]. exact H. }
  pose proof (le_decode_range _ Hok') as Hr. split; [lia|].
  intro Hc. unfold psm_canonical in Hc.
  rewrite !bytes_ok_cons in Hok'. rewrite !andb_true_iff in Hok'. destruct Hok' as [H0 [H1 He]].
  apply byte_ok_iff in H0. apply byte_ok_iff in H1. pose proof (le_decode_range e He) as Hre.
  set (v := le_decode (b0 :: b1 :: e)) in *.
  assert (Hv : v = b0 + 256 * b1 + 65536 * le_decode e) by (subst v; cbn [le_decode]; lia).
  unfold psm_bytes. rewrite land_65535 by lia.
  assert (Hm : v mod 65536 = b0 + 256 * b1).
  { rewrite Hv. replace (b0 + 256 * b1 + 65536 * le_decode e) with ((b0 + 256 * b1) + le_decode e * 65536) by lia.
    rewrite Z.mod_add by lia. apply Z.mod_small. lia. }
  assert (Hd : Z.shiftr v 16 = le_decode e).
  { rewrite Z.shiftr_div_pow2 by lia. change (2 ^ 16) with 65536. rewrite Hv.
    replace (b0 + 256 * b1 + 65536 * le_decode e) with ((b0 + 256 * b1) + le_decode e * 65536) by lia.
    rewrite Z.div_add by lia. rewrite (Z.div_small (b0 + 256 * b1)) by lia. lia. }
  rewrite Hm, Hd. cbn [le_encode app].
  replace ((b0 + 256 * b1) mod 256) with b0.
  2:{ replace (b0 + 256 * b1) with (b0 + b1 * 256) by lia. rewrite Z.mod_add by lia. symmetry. apply Z.mod_small. lia. }
  replace (((b0 + 256 * b1) / 256) mod 256) with b1.
  2:{ replace (b0 + 256 * b1) with (b0 + b1 * 256) by lia. rewrite Z.div_add by lia.
      rewrite (Z.div_small b0) by lia. rewrite Z.add_0_l. symmetry. apply Z.mod_small. lia. }
  f_equal. f_equal.
  destruct e as [|x e'].
  - unfold psm_fuel. reflexivity.
  - cbn [length] in Hc. cbn in Hc.
    assert (Hl : last (x :: e') 0 <> 0).
    { apply negb_true_iff in Hc. apply Z.eqb_neq in Hc.
      change (last (b0 :: b1 :: x :: e') 0) with (last (x :: e') 0) in Hc. exact Hc. }
    apply psm_tail_canonical; [exact He| |right; exact Hl].
    pose proof (le_decode_log2_len (x :: e') He ltac:(discriminate) Hl) as Hlen.
    unfold psm_fuel.
    assert (Z.log2 (le_decode (x :: e')) <= Z.log2 v).
    { apply Z.log2_le_mono. lia. }
    pose proof (Z.log2_nonneg (le_decode (x :: e'))).
    assert (Z.log2 (le_decode (x :: e')) / 8 <= Z.log2 (le_decode (x :: e'))).
    { apply Z.div_le_upper_bound; lia. }
    assert (0 <= Z.log2 (le_decode (x :: e')) / 8) by (apply Z.div_pos; lia).
    lia.
Qed.

(* ---------------------------------------------------------------- TLV *)
Lemma tlv_encode_decode : forall opts strict b,
  tlv_ok opts = true -> tlv_encode opts = Some b ->
  forall fuel, (length b < fuel)%nat -> tlv_decode fuel strict b = Some opts.
Proof.
  induction opts as [|[t v] r IH]; intros strict b Hok He fuel Hf.
  - cbn in He. inversion He; subst. destruct fuel; [lia|]. reflexivity.
  - cbn [tlv_encode] in He. cbn [tlv_ok forallb] in Hok. apply andb_true_iff in Hok as [Hi Hr].
    unfold tlv_item_ok in Hi. cbn [fst snd] in Hi. rewrite !andb_true_iff in Hi. destruct Hi as [[Ht Hl] Hv].
    rewrite Ht, Hl in He. cbn [andb] in He.
    destruct (tlv_encode r) as [rb|] eqn:Er; [|discriminate]. inversion He; subst b; clear He.
    destruct fuel as [|k]; [lia|]. cbn [tlv_decode].
    unfold lenZ. rewrite Nat2Z.id. rewrite skipn_app_exact, firstn_app_exact.
    rewrite (IH strict rb Hr eq_refl k).
    + reflexivity.
    + cbn [length] in Hf. rewrite app_length in Hf. lia.
Qed.

Theorem tlv_value_roundtrip : forall opts strict b,
  tlv_ok opts = true -> tlv_encode opts = Some b -> tlv_decode_all strict b = Some opts.
Proof.
  intros. unfold tlv_decode_all. eapply tlv_encode_decode; eauto.
Qed.

Lemma tlv_ok_encodes : forall opts, tlv_ok opts = true -> exists b, tlv_encode opts = Some b.
Proof.
  induction opts as [|[t v] r IH]; intro H; [eexists; reflexivity|].
  cbn [tlv_ok forallb] in H. apply andb_true_iff in H as [Hi Hr].
  unfold tlv_item_ok in Hi. cbn [fst snd] in Hi. rewrite !andb_true_iff in Hi. destruct Hi as [[Ht Hl] Hv].
  destruct (IH Hr) as [rb Hrb]. exists (t :: lenZ v :: v ++ rb).
  cbn [tlv_encode]. rewrite Ht, Hl, Hrb. reflexivity.
Qed.

(* the lenient loop (configuration options) never fails and never runs out of fuel *)
Lemma tlv_lenient_total : forall fuel d, (length d < fuel)%nat -> tlv_decode fuel false d <> None.
Proof.
  induction fuel as [|k IH]; intros d H; [lia|].
  destruct d as [|t [|l r]]; cbn [tlv_decode]; try discriminate.
  destruct (tlv_decode k false (skipn (Z.to_nat l) r)) eqn:E; [discriminate|].
  exfalso. apply (IH (skipn (Z.to_nat l) r)); [|exact E].
  rewrite skipn_length. cbn [length] in H. lia.
Qed.

Lemma tlv_decode_bytes : forall fuel strict d opts,
  bytes_ok d = true -> tlv_exact fuel d = true ->
  tlv_decode fuel strict d = Some opts ->
  tlv_encode opts = Some d /\ tlv_ok opts = true.
Proof.
  induction fuel as [|k IH]; intros strict d opts Hok Hex Hd; [discriminate|].
  destruct d as [|t [|l r]].
  - cbn in Hd. inversion Hd; subst. split; reflexivity.
  - cbn in Hex. discriminate.
  - cbn [tlv_exact] in Hex. apply andb_true_iff in Hex as [Hle Hex].
    apply Nat.leb_le in Hle.
    cbn [tlv_decode] in Hd.
    destruct (tlv_decode k strict (skipn (Z.to_nat l) r)) as [rest|] eqn:E; [|discriminate].
    inversion Hd; subst opts; clear Hd.
    rewrite !bytes_ok_cons in Hok. rewrite !andb_true_iff in Hok. destruct Hok as [Ht [Hl Hr]].
    destruct (IH strict _ rest (bytes_ok_skipn _ _ Hr) Hex E) as [He Hk].
    assert (Hlen : lenZ (firstn (Z.to_nat l) r) = l).
    { unfold lenZ. rewrite firstn_length_le by exact Hle. apply byte_ok_iff in Hl. lia. }
    split.
    + cbn [tlv_encode]. rewrite Hlen, Ht, Hl, He. cbn [andb].
      rewrite firstn_skipn. reflexivity.
    + cbn [tlv_ok forallb]. fold (tlv_ok rest). rewrite Hk, andb_true_r.
      unfold tlv_item_ok. cbn [fst snd]. rewrite Hlen, Ht, Hl. cbn [andb].
      apply bytes_ok_firstn. exact Hr.
Qed.

Theorem tlv_bytes_roundtrip : forall strict d opts,
  bytes_ok d = true -> tlv_exact_all d = true ->
  tlv_decode_all strict d = Some opts -> tlv_encode opts = Some d /\ tlv_ok opts = true.
Proof. intros strict d opts. unfold tlv_exact_all, tlv_decode_all. apply tlv_decode_bytes. Qed.

(* encoded records are exact *)
Lemma tlv_encode_exact : forall opts b, tlv_ok opts = true -> tlv_encode opts = Some b ->
  forall fuel, (length b < fuel)%nat -> tlv_exact fuel b = true.
Proof.
  induction opts as [|[t v] r IH]; intros b Hok He fuel Hf.
  - cbn in He. inversion He; subst. destruct fuel; [lia|]. reflexivity.
  - cbn [tlv_encode] in He. cbn [tlv_ok forallb] in Hok. apply andb_true_iff in Hok as [Hi Hr].
    unfold tlv_item_ok in Hi. cbn [fst snd] in Hi. rewrite !andb_true_iff in Hi. destruct Hi as [[Ht Hl] Hv].
    rewrite Ht, Hl in He. cbn [andb] in He.
    destruct (tlv_encode r) as [rb|] eqn:Er; [|discriminate]. inversion He; subst b; clear He.
    destruct fuel as [|k]; [lia|]. cbn [tlv_exact].
    unfold lenZ. rewrite Nat2Z.id. rewrite skipn_app_exact.
    rewrite (IH rb Hr eq_refl k).
    + rewrite andb_true_r. apply Nat.leb_le. rewrite app_length. lia.
    + cbn [length] in Hf. rewrite app_length in Hf. lia.
Qed.

(* ---------------------------------------------------------------- signalling header *)
Theorem sig_value_roundtrip : forall code ident payload b,
  sig_bytes code ident payload = Some b ->
  sig_parse b = Some (code, ident, lenZ payload, payload).
Proof.
  intros code ident payload b H. unfold sig_bytes in H.
  destruct (u_range 1 code && u_range 1 ident && u_range 2 (lenZ payload)) eqn:E; [|discriminate].
  inversion H; subst b; clear H. rewrite !andb_true_iff in E. destruct E as [[_ _] Hl].
  apply u_range_iff in Hl. cbn [le_encode app sig_parse].
  pose proof (le_decode_encode 2 (lenZ payload) Hl) as D. cbn [le_encode] in D. rewrite D. reflexivity.
Qed.

Theorem sig_bytes_roundtrip : forall d code ident len payload,
  bytes_ok d = true -> sig_parse d = Some (code, ident, len, payload) ->
  len = lenZ payload -> sig_bytes code ident payload = Some d.
Proof.
  intros d code ident len payload Hok Hp Hlen.
  destruct d as [|c [|i [|l0 [|l1 r]]]]; try discriminate.
  cbn [sig_parse] in Hp. apply some_quad_inv in Hp as [<- [<- [<- <-]]].
  rewrite !bytes_ok_cons in Hok. rewrite !andb_true_iff in Hok. destruct Hok as [Hc [Hi [H0 [H1 Hr]]]].
  unfold sig_bytes. rewrite <- Hlen.
  assert (Hb2 : bytes_ok [l0; l1] = true) by (cbn; rewrite H0, H1; reflexivity).
  pose proof (le_decode_range [l0; l1] Hb2) as R. cbn [length] in R.
  replace (u_range 2 (le_decode [l0; l1])) with true by (symmetry; apply u_range_iff; exact R).
  replace (u_range 1 c) with true by (symmetry; apply u_range_iff; apply byte_ok_iff in Hc; cbn; lia).
  replace (u_range 1 i) with true by (symmetry; apply u_range_iff; apply byte_ok_iff in Hi; cbn; lia).
  cbn [andb]. rewrite (le_encode_decode_n 2 [l0; l1] eq_refl Hb2). reflexivity.
Qed.

Lemma tlv_decode_all_total : forall d, tlv_decode_all false d <> None.
Proof. intro d. exact (tlv_lenient_total (S (length d)) d (Nat.lt_succ_diag_r _)). Qed.
