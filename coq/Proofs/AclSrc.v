(* C05: the tie between the SOURCE (as translated into Gen/C05Shape.v on every run) and
   Model/Acl.v.
   Part 1: the statement skeletons of the anchored functions as they were when Model/Acl.v was
           written from them (after fixes D05 and D05b); Props/C05.v checks that the skeletons
           regenerated from the current source are these.
   Part 2: for ALL values of the atoms, the arithmetic / flag / comparison expressions found in
           the current source compute what the model computes. *)
From Coq Require Import ZArith List Bool String Lia ZifyBool.
From BV Require Import Model.Acl Model.AclSrc Gen.C05Shape Proofs.Acl.
Import ListNotations.
Open Scope string_scope.
Open Scope Z_scope.

(* ------------------------------------------------------------------ part 1: expected skeletons *)
Definition exp_sk_host_send_acl_sdu : list sk := [SIf "not (connection := self.connections.get(connection_handle))" [SReturn ""] []; SAssign "packet_queue" "connection.acl_packet_queue"; SIf "packet_queue is None" [SReturn ""] []; SAssign "max_packet_size" "packet_queue.max_packet_size"; SFor "offset" "range(0, len(sdu), max_packet_size)" [SAssign "pdu" "sdu[offset:offset + max_packet_size]"; SAssign "acl_packet" "hci.HCI_AclDataPacket(connection_handle=connection_handle, pb_flag=1 if offset > 0 else 0, bc_flag=0, data_total_length=len(pdu), data=pdu)"; SExpr "packet_queue.enqueue(acl_packet, connection_handle)"]].
Definition exp_sk_host_send_l2cap_pdu : list sk := [SExpr "self.send_acl_sdu(connection_handle, bytes(L2CAP_PDU(cid, pdu)))"].
Definition exp_sk_host_send_iso_sdu : list sk := [SIf "not (iso_link := (self.cis_links.get(connection_handle) or self.bis_links.get(connection_handle)))" [SReturn ""] []; SIf "iso_link.packet_queue is None" [SReturn ""] []; SAssign "bytes_remaining" "len(sdu)"; SAssign "offset" "0"; SWhile "bytes_remaining" [SAssign "is_first_fragment" "offset == 0"; SAssign "header_length" "4 if is_first_fragment else 0"; SAssert "iso_link.packet_queue.max_packet_size > header_length"; SAssign "fragment_length" "min(bytes_remaining, iso_link.packet_queue.max_packet_size - header_length)"; SAssign "is_last_fragment" "bytes_remaining == fragment_length"; SAssign "iso_sdu_fragment" "sdu[offset:offset + fragment_length]"; SExpr "iso_link.packet_queue.enqueue(hci.HCI_IsoDataPacket(connection_handle=connection_handle, data_total_length=header_length + fragment_length, packet_sequence_number=iso_link.packet_sequence_number, pb_flag=2 if is_last_fragment else 0, packet_status_flag=0, iso_sdu_length=len(sdu), iso_sdu_fragment=iso_sdu_fragment) if is_first_fragment else hci.HCI_IsoDataPacket(connection_handle=connection_handle, data_total_length=fragment_length, pb_flag=3 if is_last_fragment else 1, iso_sdu_fragment=iso_sdu_fragment), connection_handle)"; SAug "offset" "Add" "fragment_length"; SAug "bytes_remaining" "Sub" "fragment_length"]; SAssign "iso_link.packet_sequence_number" "iso_link.packet_sequence_number + 1 & 65535"].
Definition exp_sk_host_on_l2cap_pdu : list sk := [SExpr "self.emit('l2cap_pdu', connection.handle, cid, pdu)"].
Definition exp_sk_host_conn_on_hci_acl_data_packet : list sk := [SExpr "self.assembler.feed_packet(packet)"].
Definition exp_sk_host_conn_on_acl_pdu : list sk := [SAssign "l2cap_pdu" "L2CAP_PDU.from_bytes(pdu)"; SExpr "self.host.on_l2cap_pdu(self, l2cap_pdu.cid, l2cap_pdu.payload)"].
Definition exp_sk_asm_init : list sk := [SAssign "self.callback" "callback"; SAssign "self.current_data" "None"; SAssign "self.l2cap_pdu_length" "0"].
Definition exp_sk_asm_feed_packet : list sk := [SIf "packet.pb_flag in (HCI_ACL_PB_FIRST_NON_FLUSHABLE, HCI_ACL_PB_FIRST_FLUSHABLE)" [SAssign "self.current_data" "packet.data"; SAssign "self.l2cap_pdu_length" "0"] [SIf "packet.pb_flag == HCI_ACL_PB_CONTINUATION" [SIf "self.current_data is None" [SReturn ""] []; SAug "self.current_data" "Add" "packet.data"] []]; SAssert "self.current_data is not None"; SIf "len(self.current_data) < 2" [SReturn ""] []; SAssign "(self.l2cap_pdu_length,)" "struct.unpack_from('<H', self.current_data, 0)"; SIf "len(self.current_data) == self.l2cap_pdu_length + 4" [SExpr "self.callback(self.current_data)"; SAssign "self.current_data" "None"; SAssign "self.l2cap_pdu_length" "0"] [SIf "len(self.current_data) > self.l2cap_pdu_length + 4" [SAssign "self.current_data" "None"; SAssign "self.l2cap_pdu_length" "0"] []]].
Definition exp_sk_acl_from_bytes : list sk := [SAssign "(h, data_total_length)" "struct.unpack_from('<HH', packet, 1)"; SAssign "connection_handle" "h & 4095"; SAssign "pb_flag" "h >> 12 & 3"; SAssign "bc_flag" "h >> 14 & 3"; SAssign "data" "packet[5:]"; SIf "len(data) != data_total_length" [SRaise "InvalidPacketError(f'invalid packet length {len(data)} != {data_total_length}')"] []; SReturn "cls(connection_handle=connection_handle, pb_flag=pb_flag, bc_flag=bc_flag, data_total_length=data_total_length, data=data)"].
Definition exp_sk_acl_to_bytes : list sk := [SAssign "h" "self.pb_flag << 12 | self.bc_flag << 14 | self.connection_handle"; SReturn "struct.pack('<BHH', HCI_ACL_DATA_PACKET, h, self.data_total_length) + self.data"].
Definition exp_sk_iso_from_bytes : list sk := [SAssign "time_stamp" "None"; SAssign "packet_sequence_number" "None"; SAssign "iso_sdu_length" "None"; SAssign "packet_status_flag" "None"; SAssign "pos" "1"; SIf "len(packet) < pos + 4" [SRaise "InvalidPacketError(f'ISO data packet too short: {len(packet)} bytes')"] []; SAssign "(pdu_info, data_total_length)" "struct.unpack_from('<HH', packet, pos)"; SAssign "connection_handle" "pdu_info & 4095"; SAssign "pb_flag" "pdu_info >> 12 & 3"; SAssign "ts_flag" "pdu_info >> 14 & 1"; SAug "pos" "Add" "4"; SAssign "should_include_sdu_info" "not pb_flag & 1"; SIf "ts_flag" [SIf "not should_include_sdu_info" [] []; SIf "len(packet) < pos + 4" [SRaise "InvalidPacketError('ISO data packet truncated (timestamp)')"] []; SAssign "(time_stamp, *_)" "struct.unpack_from('<I', packet, pos)"; SAug "pos" "Add" "4"] []; SIf "should_include_sdu_info" [SIf "len(packet) < pos + 4" [SRaise "InvalidPacketError('ISO data packet truncated (SDU info)')"] []; SAssign "(packet_sequence_number, sdu_info)" "struct.unpack_from('<HH', packet, pos)"; SAssign "iso_sdu_length" "sdu_info & 4095"; SAssign "packet_status_flag" "sdu_info >> 14 & 3"; SAug "pos" "Add" "4"] []; SAssign "iso_sdu_fragment" "packet[pos:]"; SReturn "cls(connection_handle=connection_handle, pb_flag=pb_flag, ts_flag=ts_flag, data_total_length=data_total_length, time_stamp=time_stamp, packet_sequence_number=packet_sequence_number, iso_sdu_length=iso_sdu_length, packet_status_flag=packet_status_flag, iso_sdu_fragment=iso_sdu_fragment)"].
Definition exp_sk_iso_to_bytes : list sk := [SAssign "fmt" "'<BHH'"; SAssign "args" "[HCI_ISO_DATA_PACKET, self.ts_flag << 14 | self.pb_flag << 12 | self.connection_handle, self.data_total_length]"; SIf "self.time_stamp is not None" [SAug "fmt" "Add" "'I'"; SExpr "args.append(self.time_stamp)"] []; SIf "self.packet_sequence_number is not None and self.iso_sdu_length is not None and (self.packet_status_flag is not None)" [SAug "fmt" "Add" "'HH'"; SAug "args" "Add" "[self.packet_sequence_number, self.iso_sdu_length | self.packet_status_flag << 14]"] []; SReturn "struct.pack(fmt, *args) + self.iso_sdu_fragment"].
Definition exp_sk_l2cap_from_bytes : list sk := [SIf "len(data) < 4" [SRaise "InvalidPacketError('not enough data for L2CAP header')"] []; SAssign "(length, l2cap_pdu_cid)" "struct.unpack_from('<HH', data, 0)"; SAssign "l2cap_pdu_payload" "data[4:4 + length]"; SReturn "cls(l2cap_pdu_cid, l2cap_pdu_payload)"].
Definition exp_sk_l2cap_to_bytes : list sk := [SAssign "length" "len(self.payload)"; SIf "with_fcs" [SAug "length" "Add" "2"] []; SAssign "header" "struct.pack('<HH', length, self.cid)"; SAssign "body" "header + self.payload"; SIf "with_fcs" [SAug "body" "Add" "struct.pack('<H', utils.crc_16(body))"] []; SReturn "body"].
Definition exp_sk_ctrl_conn_on_hci_acl_data_packet : list sk := [SExpr "self.assembler.feed_packet(packet)"; SExpr "self.controller.send_hci_packet(hci.HCI_Number_Of_Completed_Packets_Event(connection_handles=[self.handle], num_completed_packets=[1]))"].
Definition exp_sk_ctrl_conn_on_acl_pdu : list sk := [SIf "self.link" [SExpr "self.link.send_acl_data(self.controller, self.peer_address, self.transport, pdu)"] []].
Definition exp_sk_ctrl_on_hci_acl_data_packet : list sk := [SAssign "connection" "self.find_connection_by_handle(packet.connection_handle)"; SIf "connection is None" [SReturn ""] []; SExpr "connection.on_hci_acl_data_packet(packet)"].
Definition exp_sk_ctrl_on_link_acl_data : list sk := [SIf "transport == PhysicalTransport.LE" [SAssign "connection" "self.le_connections.get(sender_address)"] [SAssign "connection" "self.classic_connections.get(sender_address)"]; SIf "connection is None" [SReturn ""] []; SAssign "max_packet_size" "self.acl_data_packet_length"; SIf "transport == PhysicalTransport.LE and self.le_acl_data_packet_length" [SAssign "max_packet_size" "self.le_acl_data_packet_length"] []; SFor "offset" "range(0, len(data), max_packet_size)" [SAssign "fragment" "data[offset:offset + max_packet_size]"; SExpr "self.send_hci_packet(hci.HCI_AclDataPacket(connection_handle=connection.handle, pb_flag=hci.HCI_ACL_PB_CONTINUATION if offset > 0 else hci.HCI_ACL_PB_FIRST_FLUSHABLE, bc_flag=0, data_total_length=len(fragment), data=fragment))"]].
Definition exp_sk_link_send_acl_data : list sk := [SIf "transport == core.PhysicalTransport.LE" [SAssign "destination_controller" "self.find_le_controller(destination_address)"; SAssign "connection" "sender_controller.le_connections.get(destination_address)"; SAssign "source_address" "connection.self_address if connection else sender_controller.random_address"] [SIf "transport == core.PhysicalTransport.BR_EDR" [SAssign "destination_controller" "self.find_classic_controller(destination_address)"; SAssign "source_address" "sender_controller.public_address"] [SRaise "ValueError('unsupported transport type')"]]; SIf "destination_controller is not None" [SExpr "asyncio.get_running_loop().call_soon(lambda: destination_controller.on_link_acl_data(source_address, transport, data))"] []].

(* atom tables and struct formats the model was written against *)
Definition exp_tx_data : string := "sdu".
Definition exp_rl_data : string := "data".
Definition exp_tx_len_atom : string := "len(pdu)".
Definition exp_rl_len_atom : string := "len(fragment)".
Definition exp_empty : string := "".
Definition exp_asm_atoms : list string := ["packet.pb_flag"; "len(self.current_data)"; "self.l2cap_pdu_length"].
Definition exp_asm_unpack_args : list string := ["'<H'"; "self.current_data"; "0"].
Definition exp_aclhdr_atoms : list string :=
  ["self.pb_flag"; "self.bc_flag"; "self.connection_handle"; "h"; "len(data)"; "data_total_length"].
Definition exp_aclhdr_formats : list string := ["'<BHH'"; "'<HH'"].
Definition exp_l2_atoms : list string := ["len(data)"; "length"].
Definition exp_l2_formats : list string := ["'<HH'"; "'<HH'"; "'<H'"].
Definition exp_iso_atoms : list string :=
  ["bytes_remaining"; "offset"; "is_first_fragment"; "iso_link.packet_queue.max_packet_size";
   "header_length"; "fragment_length"; "is_last_fragment"; "len(sdu)"; "iso_link.packet_sequence_number"].
Definition exp_isohdr_atoms : list string :=
  ["self.ts_flag"; "self.pb_flag"; "self.connection_handle"; "self.iso_sdu_length";
   "self.packet_status_flag"; "pdu_info"; "sdu_info"].

Lemma iso_atoms_src : iso_atoms = exp_iso_atoms.
Proof. reflexivity. Qed.

(* ------------------------------------------------------------------ part 2: semantics *)
Lemma truthy_b2z b : truthy (b2z b) = b.
Proof. destruct b; reflexivity. Qed.

Ltac px_cbv :=
  cbv [pxeval env_of nth bin_eval cmp_eval existsb
       tx_range_start tx_range_stop tx_range_step tx_slice_lo tx_slice_hi tx_pb tx_bc tx_len tx_loop_target
       rl_range_start rl_range_stop rl_range_step rl_slice_lo rl_slice_hi rl_pb rl_bc rl_len rl_loop_target
       asm_start_test asm_cont_test asm_short_test asm_complete_test asm_overflow_test
       aclhdr_pack aclhdr_handle aclhdr_pb aclhdr_bc aclhdr_len_check
       l2_short_test l2_slice_lo l2_slice_hi
       iso_while_test iso_is_first iso_header_length iso_assert_test iso_fragment_length iso_is_last
       iso_first_pb iso_first_len iso_first_sdu_len iso_first_psf iso_later_pb iso_later_len iso_seq_update
       isohdr_pack isohdr_info_pack isohdr_handle isohdr_pb isohdr_ts isohdr_sdu_len isohdr_psf].

(* ---- the fragment loops: for offset in range(0, len(x), max_packet_size): x[offset : offset + max_packet_size] *)
Definition loop_shape (atoms : list string) (data : string) (start stop step target lo hi bc len : px) : Prop :=
  atoms = ["len(" ++ data ++ ")"; "max_packet_size"; "offset"; nth 3 atoms ""] /\
  start = PNum 0 /\ stop = PVar 0 /\ step = PVar 1 /\ target = PVar 2 /\
  lo = PVar 2 /\ hi = PBin Add (PVar 2) (PVar 1) /\ bc = PNum 0 /\ len = PVar 3.

Lemma tx_loop_shape :
  loop_shape tx_atoms "sdu" tx_range_start tx_range_stop tx_range_step tx_loop_target tx_slice_lo tx_slice_hi tx_bc tx_len
  /\ nth 3 tx_atoms "" = "len(pdu)".
Proof. unfold loop_shape. repeat split; reflexivity. Qed.

Lemma rl_loop_shape :
  loop_shape rl_atoms "data" rl_range_start rl_range_stop rl_range_step rl_loop_target rl_slice_lo rl_slice_hi rl_bc rl_len
  /\ nth 3 rl_atoms "" = "len(fragment)".
Proof. unfold loop_shape. repeat split; reflexivity. Qed.

Lemma skipn_skipn' {A} : forall n m (l : list A), skipn n (skipn m l) = skipn (m + n) l.
Proof.
  intros n m. induction m as [|m IH]; intros l; [reflexivity|].
  destruct l; [cbn; destruct n; reflexivity|]. cbn [skipn Nat.add]. apply IH.
Qed.

(* the model's chunking is that loop: the k-th fragment is x[k*m : k*m + m] *)
Lemma chunks_nth : forall fuel m l cs, chunks fuel m l = Some cs ->
  forall k, (k < List.length cs)%nat -> nth k cs [] = firstn m (skipn (k * m) l).
Proof.
  induction fuel as [|f IH]; intros m l cs H k Hk.
  - destruct l; cbn in H; [|discriminate]. inversion H; subst. cbn in Hk. lia.
  - destruct l as [|x l']; [cbn in H; inversion H; subst; cbn in Hk; lia|].
    cbn [chunks] in H. destruct (chunks f m (skipn m (x :: l'))) as [r|] eqn:E; [|discriminate].
    inversion H; subst. destruct k as [|k'].
    + reflexivity.
    + cbn [nth]. rewrite (IH m _ r E k') by (cbn [List.length] in Hk; lia).
      rewrite skipn_skipn'. reflexivity.
Qed.

(* pb flag of the k-th fragment = the source's expression at offset = k * m *)
Lemma mark_frags_pb h pb0 cs k d : (k < List.length cs)%nat ->
  a_pb (nth k (mark_frags h pb0 cs) d) = if (k =? 0)%nat then pb0 else 1.
Proof.
  destruct cs as [|c r]; [cbn; lia|]. intros Hk. rewrite mark_frags_eq. destruct k as [|k']; [reflexivity|].
  cbn [nth Nat.eqb]. cbn [List.length] in Hk.
  rewrite (nth_indep _ d (cont h [])) by (rewrite List.map_length; lia).
  rewrite (map_nth (cont h)). reflexivity.
Qed.

Theorem tx_pb_matches_model h cs m k d n len : 1 <= m -> (k < List.length cs)%nat ->
  a_pb (nth k (mark_frags h 0 cs) d) = pxeval (env_of [n; m; Z.of_nat k * m; len]) tx_pb.
Proof.
  intros Hm Hk. rewrite mark_frags_pb by exact Hk. px_cbv.
  destruct k as [|k']; [reflexivity|]. cbn [Nat.eqb].
  assert (Z.of_nat (S k') * m >? 0 = true) as -> by nia. reflexivity.
Qed.

Theorem rl_pb_matches_model h cs m k d n len : 1 <= m -> (k < List.length cs)%nat ->
  a_pb (nth k (mark_frags h 2 cs) d) = pxeval (env_of [n; m; Z.of_nat k * m; len]) rl_pb.
Proof.
  intros Hm Hk. rewrite mark_frags_pb by exact Hk. px_cbv.
  destruct k as [|k']; [reflexivity|]. cbn [Nat.eqb].
  assert (Z.of_nat (S k') * m >? 0 = true) as -> by nia. reflexivity.
Qed.

(* ---- feed_packet: the model's step is the interpretation of the source's five tests *)
Definition asm_env (pb : Z) (cur : bytes) (l : Z) : nat -> Z := env_of [pb; blen cur; l].

Definition tail_src (pb : Z) (cur : bytes) (l0 : Z) : asm * list asm_ev :=
  if truthy (pxeval (asm_env pb cur l0) asm_short_test) then ((Some cur, l0), [])
  else
    let l := rd16 (nth 0 cur 0) (nth 1 cur 0) in      (* struct.unpack_from('<H', self.current_data, 0) *)
    if truthy (pxeval (asm_env pb cur l) asm_complete_test) then (asm_init, [Deliver cur])
    else if truthy (pxeval (asm_env pb cur l) asm_overflow_test) then (asm_init, [Overflow])
    else ((Some cur, l), []).

Definition feed_src (s : asm) (p : acl) : asm * list asm_ev :=
  let pb := a_pb p in
  if truthy (pxeval (asm_env pb [] 0) asm_start_test) then tail_src pb (a_data p) 0
  else if truthy (pxeval (asm_env pb [] 0) asm_cont_test) then
    match fst s with None => (s, [ContNoStart]) | Some cur => tail_src pb (cur ++ a_data p)%list (snd s) end
  else
    match fst s with None => (s, [NoData]) | Some cur => tail_src pb cur (snd s) end.

Lemma asm_atoms_src :
  asm_atoms = ["packet.pb_flag"; "len(self.current_data)"; "self.l2cap_pdu_length"] /\
  asm_unpack_args = ["'<H'"; "self.current_data"; "0"] /\ asm_test_count = 6.
Proof. repeat split; reflexivity. Qed.

Lemma tail_src_eq pb cur l0 : tail_src pb cur l0 = asm_tail cur l0.
Proof.
  unfold tail_src, asm_env. px_cbv. rewrite !truthy_b2z.
  destruct cur as [|b0 [|b1 t]].
  - reflexivity.
  - reflexivity.
  - assert (blen (b0 :: b1 :: t) <? 2 = false) as ->.
    { unfold blen. cbn [List.length]. lia. }
    cbn [asm_tail nth]. unfold asm_check. reflexivity.
Qed.

Theorem feed_matches_source s p : feed s p = feed_src s p.
Proof.
  unfold feed_src, feed, asm_env. px_cbv. rewrite !truthy_b2z. rewrite !tail_src_eq.
  rewrite (Z.eqb_sym 0 (a_pb p)), (Z.eqb_sym 2 (a_pb p)), orb_false_r.
  destruct ((a_pb p =? 0) || (a_pb p =? 2)); [reflexivity|].
  destruct (a_pb p =? 1); destruct (fst s); rewrite ?tail_src_eq; reflexivity.
Qed.

(* ---- HCI_AclDataPacket header *)
Theorem aclhdr_matches_source pb bc handle x n len :
  aclhdr_atoms = ["self.pb_flag"; "self.bc_flag"; "self.connection_handle"; "h"; "len(data)"; "data_total_length"] /\
  aclhdr_formats = ["'<BHH'"; "'<HH'"] /\
  pxeval (env_of [pb; bc; handle; x; n; len]) aclhdr_pack = acl_hdr handle pb bc /\
  pxeval (env_of [pb; bc; handle; x; n; len]) aclhdr_handle = Z.land x 4095 /\
  pxeval (env_of [pb; bc; handle; x; n; len]) aclhdr_pb = Z.land (Z.shiftr x 12) 3 /\
  pxeval (env_of [pb; bc; handle; x; n; len]) aclhdr_bc = Z.land (Z.shiftr x 14) 3 /\
  truthy (pxeval (env_of [pb; bc; handle; x; n; len]) aclhdr_len_check) = negb (n =? len).
Proof. repeat split; try reflexivity. px_cbv. apply truthy_b2z. Qed.

(* ---- L2CAP_PDU *)
Theorem l2_matches_source n length :
  l2_atoms = ["len(data)"; "length"] /\ l2_formats = ["'<HH'"; "'<HH'"; "'<H'"] /\
  truthy (pxeval (env_of [n; length]) l2_short_test) = (n <? 4) /\
  pxeval (env_of [n; length]) l2_slice_lo = 4 /\
  pxeval (env_of [n; length]) l2_slice_hi = 4 + length.
Proof. repeat split; try reflexivity. px_cbv. apply truthy_b2z. Qed.

(* ---- Host.send_iso_sdu: one iteration of the loop *)
Definition iso_env (rem off first maxp hl fl last total seq : Z) : nat -> Z :=
  env_of [rem; off; first; maxp; hl; fl; last; total; seq].

Theorem iso_matches_source rem off first maxp hl fl last total seq :
  let env := iso_env rem off first maxp hl fl last total seq in
  iso_atoms = ["bytes_remaining"; "offset"; "is_first_fragment"; "iso_link.packet_queue.max_packet_size";
               "header_length"; "fragment_length"; "is_last_fragment"; "len(sdu)"; "iso_link.packet_sequence_number"] /\
  pxeval env iso_while_test = rem /\
  truthy (pxeval env iso_is_first) = (off =? 0) /\
  pxeval env iso_header_length = (if truthy first then 4 else 0) /\
  truthy (pxeval env iso_assert_test) = (maxp >? hl) /\
  pxeval env iso_fragment_length = Z.min rem (maxp - hl) /\
  truthy (pxeval env iso_is_last) = (rem =? fl) /\
  pxeval env iso_first_pb = (if truthy last then 2 else 0) /\
  pxeval env iso_later_pb = (if truthy last then 3 else 1) /\
  pxeval env iso_first_len = hl + fl /\ pxeval env iso_later_len = fl /\
  pxeval env iso_first_sdu_len = total /\ pxeval env iso_first_psf = 0 /\
  pxeval env iso_seq_update = Z.land (seq + 1) 65535.
Proof. cbv zeta. unfold iso_env. repeat split; try reflexivity; px_cbv; apply truthy_b2z. Qed.

(* the model's loop body is exactly that iteration *)
Theorem iso_loop_matches_source f h maxp seq total first x rest :
  let l := x :: rest in
  let env0 := iso_env (blen l) 0 (b2z first) maxp 0 0 0 total seq in
  let hl := pxeval env0 iso_header_length in
  let env1 := iso_env (blen l) 0 (b2z first) maxp hl 0 0 total seq in
  let fl := pxeval env1 iso_fragment_length in
  let env2 := iso_env (blen l) 0 (b2z first) maxp hl fl 0 total seq in
  let last := b2z (truthy (pxeval env2 iso_is_last)) in
  let env3 := iso_env (blen l) 0 (b2z first) maxp hl fl last total seq in
  iso_loop (S f) h maxp seq total first l =
  if negb (truthy (pxeval env1 iso_assert_test)) then None
  else
    let fr := firstn (Z.to_nat fl) l in
    let pkt := if first
               then mkIso h (pxeval env3 iso_first_pb) (pxeval env3 iso_first_len) None (Some seq)
                          (Some (pxeval env3 iso_first_sdu_len)) (Some (pxeval env3 iso_first_psf)) fr
               else mkIso h (pxeval env3 iso_later_pb) (pxeval env3 iso_later_len) None None None None fr in
    match iso_loop f h maxp seq total false (skipn (Z.to_nat fl) l) with
    | Some r => Some (pkt :: r)
    | None => None
    end.
Proof.
  cbv zeta. unfold iso_env. px_cbv. rewrite !truthy_b2z. cbn [iso_loop].
  destruct first; cbn [b2z truthy Z.eqb negb].
  - destruct (maxp <=? 4) eqn:E1; destruct (maxp >? 4) eqn:E2; try lia; cbn [negb]; [reflexivity|].
    destruct (blen (x :: rest) =? Z.min (blen (x :: rest)) (maxp - 4)); reflexivity.
  - destruct (maxp <=? 0) eqn:E1; destruct (maxp >? 0) eqn:E2; try lia; cbn [negb]; [reflexivity|].
    destruct (blen (x :: rest) =? Z.min (blen (x :: rest)) (maxp - 0)); reflexivity.
Qed.

Theorem iso_seq_matches_source h maxp seq sdu ps :
  iso_loop (List.length sdu) h maxp seq (blen sdu) true sdu = Some ps ->
  snd (send_iso_sdu h maxp seq sdu) = pxeval (iso_env 0 0 0 0 0 0 0 0 seq) iso_seq_update.
Proof. intros H. unfold send_iso_sdu. rewrite H. reflexivity. Qed.

(* ---- HCI_IsoDataPacket header words *)
Theorem isohdr_matches_source ts pb handle l f info w :
  let env := env_of [ts; pb; handle; l; f; info; w] in
  isohdr_atoms = ["self.ts_flag"; "self.pb_flag"; "self.connection_handle"; "self.iso_sdu_length";
                  "self.packet_status_flag"; "pdu_info"; "sdu_info"] /\
  pxeval env isohdr_pack = iso_hdr ts pb handle /\
  pxeval env isohdr_info_pack = Z.lor l (Z.shiftl f 14) /\
  pxeval env isohdr_handle = Z.land info 4095 /\
  pxeval env isohdr_pb = Z.land (Z.shiftr info 12) 3 /\
  pxeval env isohdr_ts = Z.land (Z.shiftr info 14) 1 /\
  pxeval env isohdr_sdu_len = Z.land w 4095 /\
  pxeval env isohdr_psf = Z.land (Z.shiftr w 14) 3.
Proof. cbv zeta. repeat split; reflexivity. Qed.
