(* Proofs about Model/Rfcomm.v: the credit-based data path of one RFCOMM DLC. *)
From Coq Require Import ZArith List Bool Lia.
From BV Require Import Model.Rfcomm.
Import ListNotations.
Open Scope Z_scope.

(* ---------- well-formedness ---------- *)
Definition wf_params_b (P : params) : bool :=
  (0 <=? p_threshold P) && (p_threshold P <? p_max_credits P) && (p_max_credits P <=? 255).

Definition wf_params (P : params) : Prop :=
  0 <= p_threshold P /\ p_threshold P < p_max_credits P /\ p_max_credits P <= 255.

Lemma wf_params_b_ok P : wf_params_b P = true -> wf_params P.
Proof.
  unfold wf_params_b, wf_params. intros H.
  apply andb_prop in H as [H H3]. apply andb_prop in H as [H1 H2].
  apply Z.leb_le in H1. apply Z.ltb_lt in H2. apply Z.leb_le in H3. lia.
Qed.

(* ---------- what a frame carries ---------- *)
Definition frame_data (f : frame) : list Z := if f_pf f then tl (f_info f) else f_info f.
Definition frame_credits (f : frame) : Z := if f_pf f then hd 0 (f_info f) else 0.
Definition has_data (f : frame) : bool := negb (is_nil (frame_data f)).

Fixpoint flight_data (fs : list frame) : list Z :=
  match fs with [] => [] | f :: r => frame_data f ++ flight_data r end.
Fixpoint n_data (fs : list frame) : Z :=
  match fs with [] => 0 | f :: r => (if has_data f then 1 else 0) + n_data r end.
Fixpoint sum_credits (fs : list frame) : Z :=
  match fs with [] => 0 | f :: r => frame_credits f + sum_credits r end.

Lemma flight_data_app a b : flight_data (a ++ b) = flight_data a ++ flight_data b.
Proof. induction a; cbn; [reflexivity|]. now rewrite IHa, app_assoc. Qed.
Lemma n_data_app a b : n_data (a ++ b) = n_data a + n_data b.
Proof. induction a; cbn [n_data app]; lia. Qed.
Lemma sum_credits_app a b : sum_credits (a ++ b) = sum_credits a + sum_credits b.
Proof. induction a; cbn [sum_credits app]; lia. Qed.
Lemma n_data_nonneg a : 0 <= n_data a.
Proof. induction a; cbn [n_data]; [lia|]. destruct (has_data a); lia. Qed.

(* the frame respects the DLC's payload limit and is well-formed on the wire:
   a frame with the p/f bit has a credit byte 1..255; a frame without it carries data *)
Definition frame_wf (mtu : Z) (f : frame) : Prop :=
  Z.of_nat (length (f_info f)) <= mtu /\
  0 <= frame_credits f <= 255 /\
  (f_pf f = true -> f_info f <> [] /\ 0 < frame_credits f) /\
  (f_pf f = false -> f_info f <> []).

(* ---------- slicing ---------- *)
Lemma take_split n l : take n l ++ skipn (length (take n l)) l = l.
Proof.
  unfold take. set (k := Z.to_nat n).
  destruct (Nat.le_gt_cases k (length l)) as [H|H].
  - rewrite firstn_length_le by exact H. apply firstn_skipn.
  - rewrite firstn_all2 by lia. rewrite skipn_all. apply app_nil_r.
Qed.

Lemma take_nonempty n l : 1 <= n -> l <> [] -> take n l <> [].
Proof.
  unfold take. intros Hn Hl. destruct l as [|x l]; [congruence|].
  destruct (Z.to_nat n) eqn:E; [lia|]. cbn. congruence.
Qed.

Lemma take_length n l : 0 <= n -> Z.of_nat (length (take n l)) <= n.
Proof. unfold take. intros Hn. rewrite firstn_length. lia. Qed.

Lemma skip_take_shorter n l :
  1 <= n -> l <> [] -> (length (skipn (length (take n l)) l) < length l)%nat.
Proof.
  intros Hn Hl. pose proof (take_nonempty n l Hn Hl) as Hne.
  pose proof (take_split n l) as Hs. apply (f_equal (@length Z)) in Hs.
  rewrite app_length in Hs. destruct (take n l); [congruence|]. cbn [length] in *. lia.
Qed.

Lemma is_nil_false {A} (l : list A) : is_nil l = false <-> l <> [].
Proof. destruct l; cbn; split; congruence. Qed.
Lemma is_nil_true {A} (l : list A) : is_nil l = true <-> l = [].
Proof. destruct l; cbn; split; congruence. Qed.

(* ---------- the transmit loop ---------- *)
Definition need_eff (need : Z) : Z := if 0 <? need then need else 0.

Lemma ptx_loop_spec : forall fuel d need,
  2 <= d_mtu d -> 0 <= d_tx_credits d -> need <= 255 ->
  (length (d_tx_buf d) + 1 + (if (0 <? need)%Z then 1 else 0) <= fuel)%nat ->
  let '(d', frs, ok) := ptx_loop fuel d need in
  ok = true /\
  d_mtu d' = d_mtu d /\
  flight_data frs ++ d_tx_buf d' = d_tx_buf d /\
  d_tx_credits d' = d_tx_credits d - n_data frs /\
  0 <= d_tx_credits d' /\
  d_rx_credits d' = d_rx_credits d + need_eff need /\
  sum_credits frs = need_eff need /\
  (d_tx_buf d' = [] \/ d_tx_credits d' = 0) /\
  Forall (frame_wf (d_mtu d)) frs.
Proof.
  induction fuel as [|fuel IH]; intros d need Hmtu Htx Hneed Hfuel.
  - exfalso. lia.
  - cbn [ptx_loop]. unfold ptx_iter.
    set (can := negb (is_nil (d_tx_buf d)) && (0 <? d_tx_credits d)).
    destruct (0 <? need) eqn:En.
    + (* credits to give *)
      rewrite orb_true_r. apply Z.ltb_lt in En.
      destruct can eqn:Ec.
      * (* credit byte + data *)
        subst can. apply andb_prop in Ec as [Eb Et].
        apply negb_true_iff, is_nil_false in Eb. apply Z.ltb_lt in Et.
        set (data := take (d_mtu d - 1) (d_tx_buf d)).
        set (d1 := mkDlc (d_mtu d) (d_tx_credits d - 1) (d_rx_credits d + need)
                         (skipn (length data) (d_tx_buf d))).
        assert (Hshort : (length (d_tx_buf d1) < length (d_tx_buf d))%nat)
          by (apply skip_take_shorter; [lia|exact Eb]).
        specialize (IH d1 0).
        assert (H0 : (0 <? 0) = false) by reflexivity. rewrite H0 in IH.
        specialize (IH ltac:(cbn; lia) ltac:(cbn; lia) ltac:(lia) ltac:(cbn in *; lia)).
        destruct (ptx_loop fuel d1 0) as [[d2 frs] ok].
        destruct IH as (Hok & Hm & Hd & Ht & Ht0 & Hr & Hs & Hz & Hw).
        subst d1. cbn [d_mtu d_tx_credits d_rx_credits d_tx_buf] in *.
        assert (Hne : data <> []) by (apply take_nonempty; [lia|exact Eb]).
        assert (Hhd : has_data (mkFrame true (need :: data)) = true).
        { unfold has_data, frame_data. cbn. apply negb_true_iff, is_nil_false. exact Hne. }
        unfold need_eff in *. rewrite H0 in *.
        assert (En' : (0 <? need) = true) by (apply Z.ltb_lt; exact En). rewrite En'.
        repeat split.
        -- exact Hok.
        -- exact Hm.
        -- cbn [flight_data]. unfold frame_data at 1. cbn [f_pf f_info tl].
           rewrite <- app_assoc, Hd. apply take_split.
        -- cbn [n_data]. rewrite Hhd, Ht. lia.
        -- exact Ht0.
        -- rewrite Hr. lia.
        -- cbn [sum_credits]. rewrite Hs. unfold frame_credits. cbn [f_pf f_info hd]. lia.
        -- exact Hz.
        -- constructor; [|exact Hw].
           unfold frame_wf, frame_credits. cbn [f_pf f_info hd length].
           pose proof (take_length (d_mtu d - 1) (d_tx_buf d) ltac:(lia)) as Hl.
           fold data in Hl. repeat split; try lia; try congruence.
      * (* a frame that only carries credits; the loop then stops *)
        destruct fuel as [|fuel]; [exfalso; lia|].
        cbn [ptx_loop]. unfold ptx_iter. cbn [d_tx_buf d_tx_credits d_mtu d_rx_credits].
        fold can. rewrite Ec. cbn [orb]. assert (H0 : (0 <? 0) = false) by reflexivity. rewrite H0.
        unfold need_eff. rewrite (proj2 (Z.ltb_lt 0 need) En).
        repeat split; cbn; try lia.
        -- subst can. apply andb_false_iff in Ec as [Ec|Ec].
           ++ left. apply negb_false_iff, is_nil_true in Ec. exact Ec.
           ++ right. apply Z.ltb_ge in Ec. lia.
        -- constructor; [|constructor]. unfold frame_wf, frame_credits. cbn.
           repeat split; try lia; congruence.
    + (* no credits to give *)
      rewrite orb_false_r. apply Z.ltb_ge in En.
      destruct can eqn:Ec.
      * subst can. apply andb_prop in Ec as [Eb Et].
        apply negb_true_iff, is_nil_false in Eb. apply Z.ltb_lt in Et.
        set (data := take (d_mtu d) (d_tx_buf d)).
        set (d1 := mkDlc (d_mtu d) (d_tx_credits d - 1) (d_rx_credits d)
                         (skipn (length data) (d_tx_buf d))).
        assert (Hshort : (length (d_tx_buf d1) < length (d_tx_buf d))%nat)
          by (apply skip_take_shorter; [lia|exact Eb]).
        specialize (IH d1 0).
        assert (H0 : (0 <? 0) = false) by reflexivity. rewrite H0 in IH.
        specialize (IH ltac:(cbn; lia) ltac:(cbn; lia) ltac:(lia) ltac:(cbn in *; lia)).
        destruct (ptx_loop fuel d1 0) as [[d2 frs] ok].
        destruct IH as (Hok & Hm & Hd & Ht & Ht0 & Hr & Hs & Hz & Hw).
        subst d1. cbn [d_mtu d_tx_credits d_rx_credits d_tx_buf] in *.
        assert (Hne : data <> []) by (apply take_nonempty; [lia|exact Eb]).
        assert (Hhd : has_data (mkFrame false data) = true).
        { unfold has_data, frame_data. cbn. apply negb_true_iff, is_nil_false. exact Hne. }
        unfold need_eff in *. rewrite H0 in *.
        assert (En' : (0 <? need) = false) by (apply Z.ltb_ge; exact En). rewrite En'.
        repeat split.
        -- exact Hok.
        -- exact Hm.
        -- cbn [flight_data]. unfold frame_data at 1. cbn [f_pf f_info].
           rewrite <- app_assoc, Hd. apply take_split.
        -- cbn [n_data]. rewrite Hhd, Ht. lia.
        -- exact Ht0.
        -- rewrite Hr. lia.
        -- cbn [sum_credits]. rewrite Hs. unfold frame_credits. cbn [f_pf f_info hd]. lia.
        -- exact Hz.
        -- constructor; [|exact Hw].
           unfold frame_wf, frame_credits. cbn [f_pf f_info].
           pose proof (take_length (d_mtu d) (d_tx_buf d) ltac:(lia)) as Hl.
           fold data in Hl. repeat split; try lia; try congruence.
      * unfold need_eff. rewrite (proj2 (Z.ltb_ge 0 need) En).
        repeat split; cbn; try lia.
        -- subst can. apply andb_false_iff in Ec as [Ec|Ec].
           ++ left. apply negb_false_iff, is_nil_true in Ec. exact Ec.
           ++ right. apply Z.ltb_ge in Ec. lia.
        -- constructor.
Qed.

(* after process_tx the receive ledger is above the threshold *)
Lemma process_tx_spec P d :
  wf_params P -> 2 <= d_mtu d -> 0 <= d_tx_credits d -> 0 <= d_rx_credits d ->
  let '(d', frs, ok) := process_tx P d in
  ok = true /\
  d_mtu d' = d_mtu d /\
  flight_data frs ++ d_tx_buf d' = d_tx_buf d /\
  d_tx_credits d' = d_tx_credits d - n_data frs /\
  0 <= d_tx_credits d' /\
  d_rx_credits d' = d_rx_credits d + sum_credits frs /\
  0 <= sum_credits frs /\
  p_threshold P < d_rx_credits d' /\
  (d_tx_buf d' = [] \/ d_tx_credits d' = 0) /\
  Forall (frame_wf (d_mtu d)) frs.
Proof.
  intros (HP1 & HP2 & HP3) Hmtu Htx Hrx. unfold process_tx.
  assert (Hn : 0 <= needed P d <= 255).
  { unfold needed. destruct (d_rx_credits d <=? p_threshold P) eqn:E; [apply Z.leb_le in E|]; lia. }
  pose proof (ptx_loop_spec (S (S (length (d_tx_buf d)))) d (needed P d) Hmtu Htx ltac:(lia)) as H.
  assert (Hf : (length (d_tx_buf d) + 1 + (if (0 <? needed P d)%Z then 1 else 0)
                <= S (S (length (d_tx_buf d))))%nat) by (destruct (0 <? needed P d); lia).
  specialize (H Hf).
  destruct (ptx_loop (S (S (length (d_tx_buf d)))) d (needed P d)) as [[d' frs] ok].
  destruct H as (Hok & Hm & Hd & Ht & Ht0 & Hr & Hs & Hz & Hw).
  assert (He : need_eff (needed P d) = needed P d).
  { unfold need_eff. destruct (0 <? needed P d) eqn:E; [reflexivity|apply Z.ltb_ge in E; lia]. }
  rewrite He in *.
  repeat split; try assumption; try lia.
  rewrite Hr. unfold needed in *.
  destruct (d_rx_credits d <=? p_threshold P) eqn:E; [apply Z.leb_le in E|apply Z.leb_gt in E]; lia.
Qed.

(* ---------- the invariant of one direction of the two-party system ----------
   S is the sender of this direction, R its receiver, fwd the frames in flight
   S -> R, back the frames in flight R -> S (they carry the credits for this
   direction), wr everything written at S so far, rc everything R's sink got. *)
Record dinv (P : params) (S R : dlc) (fwd back : list frame) (wr rc : list Z) : Prop := mkDinv {
  di_stream : rc ++ flight_data fwd ++ d_tx_buf S = wr;
  di_ledger : d_tx_credits S + n_data fwd + sum_credits back = d_rx_credits R;
  di_tx : 0 <= d_tx_credits S;
  di_idle : d_tx_buf S = [] \/ d_tx_credits S = 0;
  di_rx : 1 <= d_rx_credits R;
  di_back : Forall (fun f => 0 <= frame_credits f) back;
  di_fwd : Forall (frame_wf (d_mtu S)) fwd;
  di_mtu : 2 <= d_mtu S
}.

Lemma frame_wf_credits mtu fs :
  Forall (frame_wf mtu) fs -> Forall (fun f => 0 <= frame_credits f) fs.
Proof. intros H. eapply Forall_impl; [|exact H]. intros f (_ & Hc & _). lia. Qed.

(* a: the sender writes *)
Lemma dinv_sender_write P S R fwd back wr rc data :
  wf_params P -> dinv P S R fwd back wr rc -> 0 <= d_rx_credits S ->
  let '(S', frs, ok) := dlc_write P S data in
  ok = true /\ dinv P S' R (fwd ++ frs) back (wr ++ data) rc /\
  d_rx_credits S' = d_rx_credits S + sum_credits frs /\ 0 <= sum_credits frs /\
  p_threshold P < d_rx_credits S' /\ Forall (frame_wf (d_mtu S)) frs /\ d_mtu S' = d_mtu S.
Proof.
  intros HP [Hst Hl Htx Hid Hrx Hb Hf Hm] HrS. unfold dlc_write.
  set (S1 := mkDlc (d_mtu S) (d_tx_credits S) (d_rx_credits S) (d_tx_buf S ++ data)).
  pose proof (process_tx_spec P S1 HP ltac:(cbn; lia) ltac:(cbn; lia) ltac:(cbn; lia)) as H.
  destruct (process_tx P S1) as [[S' frs] ok].
  destruct H as (Hok & Hm' & Hd & Ht & Ht0 & Hr & Hs & Hthr & Hz & Hw).
  cbn [d_mtu d_tx_credits d_rx_credits d_tx_buf S1] in *.
  repeat split; try assumption; try lia.
  - rewrite flight_data_app, <- !app_assoc, Hd, <- Hst, <- !app_assoc. reflexivity.
  - rewrite n_data_app. lia.
  - rewrite Hm'. apply Forall_app. split; assumption.
Qed.

(* b: the receiver of this direction writes (it may grant credits) *)
Lemma dinv_receiver_emit P S R R' fwd back wr rc frs :
  dinv P S R fwd back wr rc ->
  d_rx_credits R' = d_rx_credits R + sum_credits frs -> 0 <= sum_credits frs ->
  Forall (fun f => 0 <= frame_credits f) frs ->
  dinv P S R' fwd (back ++ frs) wr rc.
Proof.
  intros [Hst Hl Htx Hid Hrx Hb Hf Hm] Hr Hs Hc.
  constructor; try assumption.
  - rewrite sum_credits_app. lia.
  - lia.
  - apply Forall_app. split; assumption.
Qed.

(* c: the head of fwd is delivered to the receiver *)
Lemma dinv_deliver_fwd P S R f fwd back wr rc :
  wf_params P -> dinv P S R (f :: fwd) back wr rc ->
  2 <= d_mtu R -> 0 <= d_tx_credits R -> 0 <= frame_credits f ->
  let '(R', frs, data, ok) := dlc_on_uih P R f in
  ok = true /\ data = frame_data f /\
  dinv P S R' fwd (back ++ frs) wr (rc ++ data) /\
  (has_data f = true -> 0 < d_rx_credits R) /\
  (* what the step means for the other direction, where R is the sender *)
  d_mtu R' = d_mtu R /\
  flight_data frs ++ d_tx_buf R' = d_tx_buf R /\
  d_tx_credits R' = d_tx_credits R + frame_credits f - n_data frs /\
  0 <= d_tx_credits R' /\
  (d_tx_buf R' = [] \/ d_tx_credits R' = 0) /\
  Forall (frame_wf (d_mtu R)) frs.
Proof.
  intros HP [Hst Hl Htx Hid Hrx Hb Hf Hm] HmR HtR Hcf. unfold dlc_on_uih.
  assert (Hsplit : (if f_pf f then (d_tx_credits R + hd 0 (f_info f), tl (f_info f))
                    else (d_tx_credits R, f_info f))
                   = (d_tx_credits R + frame_credits f, frame_data f)).
  { unfold frame_credits, frame_data. destruct (f_pf f); [reflexivity|f_equal; lia]. }
  rewrite Hsplit.
  set (rx1 := if is_nil (frame_data f) then d_rx_credits R
              else if 0 <? d_rx_credits R then d_rx_credits R - 1 else d_rx_credits R).
  assert (Hrx1 : rx1 = d_rx_credits R - (if has_data f then 1 else 0)).
  { unfold rx1, has_data. destruct (is_nil (frame_data f)); cbn; [lia|].
    destruct (0 <? d_rx_credits R) eqn:E; [lia|apply Z.ltb_ge in E; lia]. }
  set (R1 := mkDlc (d_mtu R) (d_tx_credits R + frame_credits f) rx1 (d_tx_buf R)).
  assert (H0rx1 : 0 <= rx1) by (rewrite Hrx1; destruct (has_data f); lia).
  pose proof (process_tx_spec P R1 HP ltac:(cbn; lia) ltac:(cbn; lia) ltac:(cbn; lia)) as H.
  destruct (process_tx P R1) as [[R' frs] ok].
  destruct H as (Hok & Hm' & Hd & Ht & Ht0 & Hr & Hs & Hthr & Hz & Hw).
  cbn [d_mtu d_tx_credits d_rx_credits d_tx_buf R1] in *.
  pose proof (Forall_inv_tail Hf) as Hf'.
  destruct HP as (HP1 & HP2 & HP3).
  repeat split; try assumption; try lia.
  - cbn [flight_data] in Hst. rewrite <- Hst, <- !app_assoc. reflexivity.
  - cbn [n_data] in Hl. rewrite sum_credits_app. lia.
  - apply Forall_app. split; [exact Hb|]. apply (frame_wf_credits (d_mtu R)). exact Hw.
Qed.

(* d: the head of back is delivered to the sender (credits arrive) *)
Lemma dinv_deliver_back P S S' R f fwd back wr rc frs :
  dinv P S R fwd (f :: back) wr rc ->
  d_mtu S' = d_mtu S ->
  flight_data frs ++ d_tx_buf S' = d_tx_buf S ->
  d_tx_credits S' = d_tx_credits S + frame_credits f - n_data frs ->
  0 <= d_tx_credits S' ->
  (d_tx_buf S' = [] \/ d_tx_credits S' = 0) ->
  Forall (frame_wf (d_mtu S)) frs ->
  dinv P S' R (fwd ++ frs) back wr rc.
Proof.
  intros [Hst Hl Htx Hid Hrx Hb Hf Hm] Hm' Hd Ht Ht0 Hz Hw.
  pose proof (Forall_inv Hb) as Hc. pose proof (Forall_inv_tail Hb) as Hb'. cbn beta in Hc.
  constructor; try assumption.
  - rewrite flight_data_app, <- app_assoc, Hd. exact Hst.
  - rewrite n_data_app. cbn [sum_credits] in Hl. lia.
  - rewrite Hm'. apply Forall_app. split; assumption.
  - lia.
Qed.

(* ---------- the system invariant ---------- *)
Fixpoint writes_a (ls : list label) : list Z :=
  match ls with
  | [] => [] | WriteA d :: r => d ++ writes_a r | _ :: r => writes_a r end.
Fixpoint writes_b (ls : list label) : list Z :=
  match ls with
  | [] => [] | WriteB d :: r => d ++ writes_b r | _ :: r => writes_b r end.

Record inv (P : params) (wa wb : list Z) (s : sys) : Prop := mkInv {
  inv_ab : dinv P (s_a s) (s_b s) (s_ab s) (s_ba s) wa (s_rcv_b s);
  inv_ba : dinv P (s_b s) (s_a s) (s_ba s) (s_ab s) wb (s_rcv_a s);
  inv_ok : s_ok s = true
}.

Definition label_writes_a (l : label) := match l with WriteA d => d | _ => [] end.
Definition label_writes_b (l : label) := match l with WriteB d => d | _ => [] end.

Lemma step_inv P wa wb s l :
  wf_params P -> inv P wa wb s ->
  inv P (wa ++ label_writes_a l) (wb ++ label_writes_b l) (step P s l).
Proof.
  intros HP [Hab Hba Hok]. destruct l as [data|data| |]; cbn [step label_writes_a label_writes_b].
  - (* WriteA *)
    pose proof (dinv_sender_write P _ _ _ _ _ _ data HP Hab
                  ltac:(pose proof (di_rx _ _ _ _ _ _ _ Hba); lia)) as H.
    destruct (dlc_write P (s_a s) data) as [[a' frs] ok].
    destruct H as (Hok' & Hd & Hr & Hs & _ & Hw & _).
    rewrite app_nil_r. constructor; cbn.
    + exact Hd.
    + eapply dinv_receiver_emit; eauto. eapply frame_wf_credits; eauto.
    + rewrite Hok, Hok'. reflexivity.
  - (* WriteB *)
    pose proof (dinv_sender_write P _ _ _ _ _ _ data HP Hba
                  ltac:(pose proof (di_rx _ _ _ _ _ _ _ Hab); lia)) as H.
    destruct (dlc_write P (s_b s) data) as [[b' frs] ok].
    destruct H as (Hok' & Hd & Hr & Hs & _ & Hw & _).
    rewrite app_nil_r. constructor; cbn.
    + eapply dinv_receiver_emit; eauto. eapply frame_wf_credits; eauto.
    + exact Hd.
    + rewrite Hok, Hok'. reflexivity.
  - (* DeliverAB *)
    rewrite !app_nil_r. destruct (s_ab s) as [|f rest] eqn:Eab.
    + constructor; rewrite ?Eab; assumption.
    + assert (Hcf : 0 <= frame_credits f).
      { pose proof (di_back _ _ _ _ _ _ _ Hba) as Hb. inversion Hb; assumption. }
      pose proof (dinv_deliver_fwd P _ _ _ _ _ _ _ HP Hab (di_mtu _ _ _ _ _ _ _ Hba)
                    (di_tx _ _ _ _ _ _ _ Hba) Hcf) as H.
      destruct (dlc_on_uih P (s_b s) f) as [[[b' frs] data] ok].
      destruct H as (Hok' & Hdata & Hd & _ & Hm & Hfl & Ht & Ht0 & Hz & Hw).
      constructor; cbn.
      * exact Hd.
      * eapply dinv_deliver_back; eauto.
      * rewrite Hok, Hok'. reflexivity.
  - (* DeliverBA *)
    rewrite !app_nil_r. destruct (s_ba s) as [|f rest] eqn:Eba.
    + constructor; rewrite ?Eba; assumption.
    + assert (Hcf : 0 <= frame_credits f).
      { pose proof (di_back _ _ _ _ _ _ _ Hab) as Hb. inversion Hb; assumption. }
      pose proof (dinv_deliver_fwd P _ _ _ _ _ _ _ HP Hba (di_mtu _ _ _ _ _ _ _ Hab)
                    (di_tx _ _ _ _ _ _ _ Hab) Hcf) as H.
      destruct (dlc_on_uih P (s_a s) f) as [[[a' frs] data] ok].
      destruct H as (Hok' & Hdata & Hd & _ & Hm & Hfl & Ht & Ht0 & Hz & Hw).
      constructor; cbn.
      * eapply dinv_deliver_back; eauto.
      * exact Hd.
      * rewrite Hok, Hok'. reflexivity.
Qed.

Lemma writes_a_cons l ls : writes_a (l :: ls) = label_writes_a l ++ writes_a ls.
Proof. destruct l; reflexivity. Qed.
Lemma writes_b_cons l ls : writes_b (l :: ls) = label_writes_b l ++ writes_b ls.
Proof. destruct l; reflexivity. Qed.

Lemma run_inv P ls : forall wa wb s,
  wf_params P -> inv P wa wb s ->
  inv P (wa ++ writes_a ls) (wb ++ writes_b ls) (run P s ls).
Proof.
  induction ls as [|l ls IH]; intros wa wb s HP Hi; cbn [run].
  - cbn. now rewrite !app_nil_r.
  - rewrite writes_a_cons, writes_b_cons, !app_assoc.
    apply IH; [exact HP|]. apply step_inv; assumption.
Qed.

(* ---------- initial states ---------- *)
Definition wf_pn_b (p : pn) : bool :=
  (23 <=? pn_mfs p) && (pn_mfs p <=? 32767) && (1 <=? pn_credits p) && (pn_credits p <=? 7).
Definition wf_l2cap_mtu_b (m : Z) : bool := (48 <=? m) && (m <=? 65535).

Definition wf_setup_b (ini rsp : pn) (mtu_i mtu_r : Z) : bool :=
  wf_pn_b ini && wf_pn_b rsp && wf_l2cap_mtu_b mtu_i && wf_l2cap_mtu_b mtu_r.

Lemma wf_pn_b_ok p : wf_pn_b p = true ->
  23 <= pn_mfs p <= 32767 /\ 1 <= pn_credits p <= 7.
Proof.
  unfold wf_pn_b. intros H. repeat (apply andb_prop in H as [H ?]).
  repeat match goal with H : (_ <=? _) = true |- _ => apply Z.leb_le in H end. lia.
Qed.

Lemma pn_wire_id p : wf_pn_b p = true -> pn_wire p = p.
Proof.
  intros H. apply wf_pn_b_ok in H. unfold pn_wire. destruct p as [m c]. cbn in *.
  rewrite !Z.mod_small by lia. reflexivity.
Qed.

Lemma wf_setup_b_ok ini rsp mtu_i mtu_r :
  wf_setup_b ini rsp mtu_i mtu_r = true ->
  wf_pn_b ini = true /\ wf_pn_b rsp = true /\ 48 <= mtu_i <= 65535 /\ 48 <= mtu_r <= 65535.
Proof.
  unfold wf_setup_b, wf_l2cap_mtu_b. intros H.
  apply andb_prop in H as [H H4]. apply andb_prop in H as [H H3]. apply andb_prop in H as [H1 H2].
  apply andb_prop in H3 as [H3 H3']. apply andb_prop in H4 as [H4 H4'].
  apply Z.leb_le in H3, H3', H4, H4'. repeat split; assumption.
Qed.

(* what the theorems need of a data link: initial credits 1..7 on each side, and each
   side's maximum frame size acceptable to the other in the sense of
   Multiplexer.acceptable_frame_size - exactly the links the code lets come up *)
Definition credits_ok_b (p : pn) : bool := (1 <=? pn_credits p) && (pn_credits p <=? 7).

Definition wf_link_b (ini rsp : pn) (mtu_i mtu_r : Z) : bool :=
  credits_ok_b ini && credits_ok_b rsp &&
  acceptable (pn_mfs ini) mtu_i && acceptable (pn_mfs rsp) mtu_r.

Lemma acceptable_ok n m : acceptable n m = true -> 23 <= n <= 32767 /\ 28 <= m.
Proof.
  unfold acceptable. intros H. apply andb_prop in H as [H1 H2].
  apply Z.leb_le in H1, H2. lia.
Qed.

Lemma wf_link_b_ok ini rsp mtu_i mtu_r :
  wf_link_b ini rsp mtu_i mtu_r = true ->
  (1 <= pn_credits ini <= 7) /\ (1 <= pn_credits rsp <= 7) /\
  (23 <= pn_mfs ini <= 32767) /\ (23 <= pn_mfs rsp <= 32767) /\ 28 <= mtu_i /\ 28 <= mtu_r.
Proof.
  unfold wf_link_b, credits_ok_b. intros H.
  apply andb_prop in H as [H H4]. apply andb_prop in H as [H H3]. apply andb_prop in H as [H1 H2].
  apply andb_prop in H1 as [A1 A2]. apply andb_prop in H2 as [B1 B2].
  apply Z.leb_le in A1, A2, B1, B2. apply acceptable_ok in H3, H4. lia.
Qed.

(* the parameter ranges of the property text are a special case *)
Lemma wf_setup_implies_link ini rsp mtu_i mtu_r :
  wf_setup_b ini rsp mtu_i mtu_r = true -> wf_link_b ini rsp mtu_i mtu_r = true.
Proof.
  intros H. apply wf_setup_b_ok in H as (Hi & Hr & Hmi & Hmr).
  apply wf_pn_b_ok in Hi, Hr. unfold wf_link_b, credits_ok_b, acceptable.
  repeat (apply andb_true_intro; split); apply Z.leb_le; lia.
Qed.

Lemma pn_wire_id' p : 1 <= pn_credits p <= 7 -> 23 <= pn_mfs p <= 32767 -> pn_wire p = p.
Proof.
  intros Hc Hm. unfold pn_wire. destruct p as [m c]. cbn in *.
  rewrite !Z.mod_small by lia. reflexivity.
Qed.

Lemma setup_inv P ini rsp mtu_i mtu_r :
  wf_link_b ini rsp mtu_i mtu_r = true -> inv P [] [] (setup ini rsp mtu_i mtu_r).
Proof.
  intros H. apply wf_link_b_ok in H as (Hci & Hcr & Hmi & Hmr & Hli & Hlr).
  unfold setup. rewrite !pn_wire_id' by assumption.
  constructor; cbn; [| |reflexivity]; constructor; cbn; try lia; auto.
Qed.

(* ---------- the theorems ---------- *)
Section Reachable.
  Variable P : params.
  Variables ini rsp : pn.
  Variables mtu_i mtu_r : Z.
  Hypothesis HP : wf_params_b P = true.
  Hypothesis Hwf : wf_link_b ini rsp mtu_i mtu_r = true.

  Let s0 := setup ini rsp mtu_i mtu_r.

  Lemma reach_inv ls : inv P (writes_a ls) (writes_b ls) (run P s0 ls).
  Proof.
    apply (run_inv P ls [] [] s0 (wf_params_b_ok P HP)). apply setup_inv. exact Hwf.
  Qed.

  (* stream_exact: received ++ in flight ++ not yet sent = written, both directions *)
  Lemma stream_exact ls :
    let s := run P s0 ls in
    s_rcv_b s ++ flight_data (s_ab s) ++ d_tx_buf (s_a s) = writes_a ls /\
    s_rcv_a s ++ flight_data (s_ba s) ++ d_tx_buf (s_b s) = writes_b ls.
  Proof.
    destruct (reach_inv ls) as [Hab Hba _]. split; [apply Hab|apply Hba].
  Qed.

  (* the data path never runs out of the fuel the model gives process_tx *)
  Lemma fuel_ok ls : s_ok (run P s0 ls) = true.
  Proof. apply (reach_inv ls). Qed.

  (* mtu of each end is what the negotiation fixed *)
  Lemma mtu_const ls :
    d_mtu (s_a (run P s0 ls)) = d_mtu (s_a s0) /\ d_mtu (s_b (run P s0 ls)) = d_mtu (s_b s0).
  Proof.
    assert (G : forall ls s, s_ok s = s_ok s ->
              forall wa wb, inv P wa wb s ->
              d_mtu (s_a (run P s ls)) = d_mtu (s_a s) /\ d_mtu (s_b (run P s ls)) = d_mtu (s_b s)).
    { intros ls'. induction ls' as [|l ls2 IH]; intros s _ wa wb Hi; [split; reflexivity|].
      cbn [run].
      assert (HPp : wf_params P) by (apply wf_params_b_ok; exact HP).
      pose proof (step_inv P wa wb s l HPp Hi) as Hi'.
      destruct (IH (step P s l) eq_refl _ _ Hi') as [Ea Eb]. rewrite Ea, Eb.
      destruct Hi as [Hab Hba Hok].
      destruct l as [data|data| |]; cbn [step].
      - pose proof (dinv_sender_write P _ _ _ _ _ _ data HPp Hab
                      ltac:(pose proof (di_rx _ _ _ _ _ _ _ Hba); lia)) as H.
        destruct (dlc_write P (s_a s) data) as [[a' frs] ok]. cbn. split; [apply H|reflexivity].
      - pose proof (dinv_sender_write P _ _ _ _ _ _ data HPp Hba
                      ltac:(pose proof (di_rx _ _ _ _ _ _ _ Hab); lia)) as H.
        destruct (dlc_write P (s_b s) data) as [[b' frs] ok]. cbn. split; [reflexivity|apply H].
      - destruct (s_ab s) as [|f rest] eqn:Eab; [split; reflexivity|].
        assert (Hcf : 0 <= frame_credits f).
        { pose proof (di_back _ _ _ _ _ _ _ Hba) as Hb. inversion Hb; assumption. }
        pose proof (dinv_deliver_fwd P _ _ _ _ _ _ _ HPp Hab (di_mtu _ _ _ _ _ _ _ Hba)
                      (di_tx _ _ _ _ _ _ _ Hba) Hcf) as H.
        destruct (dlc_on_uih P (s_b s) f) as [[[b' frs] data] ok]. cbn. split; [reflexivity|apply H].
      - destruct (s_ba s) as [|f rest] eqn:Eba; [split; reflexivity|].
        assert (Hcf : 0 <= frame_credits f).
        { pose proof (di_back _ _ _ _ _ _ _ Hab) as Hb. inversion Hb; assumption. }
        pose proof (dinv_deliver_fwd P _ _ _ _ _ _ _ HPp Hba (di_mtu _ _ _ _ _ _ _ Hab)
                      (di_tx _ _ _ _ _ _ _ Hab) Hcf) as H.
        destruct (dlc_on_uih P (s_a s) f) as [[[a' frs] data] ok]. cbn. split; [apply H|reflexivity]. }
    apply (G ls s0 eq_refl _ _ (setup_inv P ini rsp mtu_i mtu_r Hwf)).
  Qed.

  (* payload_le_max: every frame in flight fits the receiver's declared maximum
     frame size and the L2CAP MTU the receiver announced minus the 5-byte envelope;
     frames with the credit bit carry a credit byte 1..255 *)
  Lemma payload_le_max ls :
    let s := run P s0 ls in
    Forall (fun f => Z.of_nat (length (f_info f)) <= Z.min (pn_mfs rsp) (mtu_r - 5)
                     /\ frame_wf (d_mtu (s_a s0)) f) (s_ab s) /\
    Forall (fun f => Z.of_nat (length (f_info f)) <= Z.min (pn_mfs ini) (mtu_i - 5)
                     /\ frame_wf (d_mtu (s_b s0)) f) (s_ba s).
  Proof.
    destruct (reach_inv ls) as [Hab Hba _]. destruct (mtu_const ls) as [Ea Eb].
    pose proof (di_fwd _ _ _ _ _ _ _ Hab) as Ha. pose proof (di_fwd _ _ _ _ _ _ _ Hba) as Hb.
    rewrite Ea in Ha. rewrite Eb in Hb.
    destruct (wf_link_b_ok _ _ _ _ Hwf) as (Hci & Hcr & Hmi & Hmr & Hli & Hlr).
    assert (Ma : d_mtu (s_a s0) = Z.min (pn_mfs rsp) (mtu_r - 5)).
    { unfold s0, setup. rewrite !pn_wire_id' by assumption. reflexivity. }
    assert (Mb : d_mtu (s_b s0) = Z.min (pn_mfs ini) (mtu_i - 5)).
    { unfold s0, setup. rewrite !pn_wire_id' by assumption. reflexivity. }
    split; (eapply Forall_impl; [|eassumption]); intros f Hf; (split; [|exact Hf]);
      destruct Hf as (Hl & _); lia.
  Qed.

  (* credit_safe: the ledger invariant; a sender's credit count is never negative
     (process_tx only spends a credit it has), the receiver's count is at least 1, and
     a data frame at the head of a channel always finds a receive credit *)
  Lemma credit_safe ls :
    let s := run P s0 ls in
    d_tx_credits (s_a s) + n_data (s_ab s) + sum_credits (s_ba s) = d_rx_credits (s_b s) /\
    d_tx_credits (s_b s) + n_data (s_ba s) + sum_credits (s_ab s) = d_rx_credits (s_a s) /\
    0 <= d_tx_credits (s_a s) /\ 0 <= d_tx_credits (s_b s) /\
    1 <= d_rx_credits (s_a s) /\ 1 <= d_rx_credits (s_b s).
  Proof.
    destruct (reach_inv ls) as [Hab Hba _].
    repeat split; first [apply Hab|apply Hba].
  Qed.

  (* progress: with both channels empty nothing is left unsent; everything written
     has been handed to the peer's sink *)
  Lemma progress ls :
    let s := run P s0 ls in
    s_ab s = [] -> s_ba s = [] ->
    d_tx_buf (s_a s) = [] /\ d_tx_buf (s_b s) = [] /\
    s_rcv_b s = writes_a ls /\ s_rcv_a s = writes_b ls.
  Proof.
    cbn zeta. intros Eab Eba. destruct (reach_inv ls) as [Hab Hba _].
    destruct Hab as [Hst Hl Htx Hid Hrx _ _ _]. destruct Hba as [Hst' Hl' Htx' Hid' Hrx' _ _ _].
    rewrite Eab, Eba in *. cbn [n_data sum_credits flight_data app] in *.
    assert (Ba : d_tx_buf (s_a (run P s0 ls)) = []) by (destruct Hid; [assumption|lia]).
    assert (Bb : d_tx_buf (s_b (run P s0 ls)) = []) by (destruct Hid'; [assumption|lia]).
    rewrite Ba in Hst. rewrite Bb in Hst'. rewrite app_nil_r in *. auto.
  Qed.
End Reachable.

(* ---------- draining terminates: a potential that every delivery decreases ----------
   weight 2 for a frame that carries data, 1 for a credit-only frame, 3 per byte still
   buffered, 2 for a receiver whose ledger is at or below the threshold (it owes a
   credit frame).  Every enabled delivery lowers the potential by at least 1, so from
   any reachable state a bounded number of deliveries empties both channels. *)
Definition fw (f : frame) : Z := if has_data f then 2 else 1.
Fixpoint weight (fs : list frame) : Z :=
  match fs with [] => 0 | f :: r => fw f + weight r end.
Definition owes (P : params) (rx : Z) : Z := if rx <=? p_threshold P then 2 else 0.
Definition blen (d : dlc) : Z := Z.of_nat (length (d_tx_buf d)).

Lemma weight_app a b : weight (a ++ b) = weight a + weight b.
Proof. induction a; cbn [weight app]; lia. Qed.
Lemma weight_nonneg a : 0 <= weight a.
Proof. induction a as [|f r IH]; cbn [weight]; [lia|]. unfold fw. destruct (has_data f); lia. Qed.

Lemma skip_take_length n l :
  1 <= n -> l <> [] ->
  (length (skipn (length (take n l)) l) + 1 <= length l)%nat.
Proof. intros. pose proof (skip_take_shorter n l H H0). lia. Qed.

Lemma ptx_loop_weight : forall fuel d need,
  2 <= d_mtu d ->
  (length (d_tx_buf d) + 1 + (if (0 <? need)%Z then 1 else 0) <= fuel)%nat ->
  let '(d', frs, ok) := ptx_loop fuel d need in
  weight frs + 3 * blen d' <= 3 * blen d + (if 0 <? need then 1 else 0).
Proof.
  induction fuel as [|fuel IH]; intros d need Hmtu Hfuel.
  - exfalso. lia.
  - cbn [ptx_loop]. unfold ptx_iter.
    set (can := negb (is_nil (d_tx_buf d)) && (0 <? d_tx_credits d)).
    destruct (0 <? need) eqn:En.
    + rewrite orb_true_r. destruct can eqn:Ec.
      * subst can. apply andb_prop in Ec as [Eb Et]. apply negb_true_iff, is_nil_false in Eb.
        set (data := take (d_mtu d - 1) (d_tx_buf d)).
        set (d1 := mkDlc (d_mtu d) (d_tx_credits d - 1) (d_rx_credits d + need)
                         (skipn (length data) (d_tx_buf d))).
        pose proof (skip_take_length (d_mtu d - 1) (d_tx_buf d) ltac:(lia) Eb) as Hs. fold data in Hs.
        specialize (IH d1 0 ltac:(cbn; lia)).
        assert (H0 : (0 <? 0) = false) by reflexivity. rewrite H0 in IH.
        specialize (IH ltac:(cbn [d1 d_tx_buf]; lia)).
        destruct (ptx_loop fuel d1 0) as [[d2 frs] ok].
        unfold blen in *. cbn [d1 d_tx_buf] in IH. cbn [weight]. unfold fw.
        destruct (has_data _); lia.
      * destruct fuel as [|fuel]; [exfalso; lia|].
        cbn [ptx_loop]. unfold ptx_iter. cbn [d_tx_buf d_tx_credits d_mtu d_rx_credits].
        fold can. rewrite Ec. cbn [orb]. assert (H0 : (0 <? 0) = false) by reflexivity. rewrite H0.
        cbn [weight]. unfold fw, has_data, frame_data, blen. cbn [f_pf f_info tl is_nil negb d_tx_buf]. lia.
    + rewrite orb_false_r. destruct can eqn:Ec.
      * subst can. apply andb_prop in Ec as [Eb Et]. apply negb_true_iff, is_nil_false in Eb.
        set (data := take (d_mtu d) (d_tx_buf d)).
        set (d1 := mkDlc (d_mtu d) (d_tx_credits d - 1) (d_rx_credits d)
                         (skipn (length data) (d_tx_buf d))).
        pose proof (skip_take_length (d_mtu d) (d_tx_buf d) ltac:(lia) Eb) as Hs. fold data in Hs.
        specialize (IH d1 0 ltac:(cbn; lia)).
        assert (H0 : (0 <? 0) = false) by reflexivity. rewrite H0 in IH.
        specialize (IH ltac:(cbn [d1 d_tx_buf]; lia)).
        destruct (ptx_loop fuel d1 0) as [[d2 frs] ok].
        unfold blen in *. cbn [d1 d_tx_buf] in IH. cbn [weight]. unfold fw.
        destruct (has_data _); lia.
      * cbn [weight]. lia.
Qed.

Lemma process_tx_weight P d :
  wf_params P -> 2 <= d_mtu d -> 0 <= d_tx_credits d -> 0 <= d_rx_credits d ->
  let '(d', frs, ok) := process_tx P d in
  weight frs + 3 * blen d' + owes P (d_rx_credits d') + (if d_rx_credits d <=? p_threshold P then 1 else 0)
  <= 3 * blen d + owes P (d_rx_credits d).
Proof.
  intros HP Hmtu Htx Hrx.
  pose proof (process_tx_spec P d HP Hmtu Htx Hrx) as Hspec.
  unfold process_tx in *.
  pose proof (ptx_loop_weight (S (S (length (d_tx_buf d)))) d (needed P d) Hmtu) as Hw.
  assert (Hf : (length (d_tx_buf d) + 1 + (if (0 <? needed P d)%Z then 1 else 0)
                <= S (S (length (d_tx_buf d))))%nat) by (destruct (0 <? needed P d); lia).
  specialize (Hw Hf).
  destruct (ptx_loop (S (S (length (d_tx_buf d)))) d (needed P d)) as [[d' frs] ok].
  destruct Hspec as (_ & _ & _ & _ & _ & _ & _ & Hthr & _).
  destruct HP as (HP1 & HP2 & HP3).
  unfold owes, needed in *.
  destruct (d_rx_credits d <=? p_threshold P) eqn:E;
    [apply Z.leb_le in E|apply Z.leb_gt in E];
    (destruct (d_rx_credits d' <=? p_threshold P) eqn:E'; [apply Z.leb_le in E'; lia|]).
  - assert (Hn : (0 <? p_max_credits P - d_rx_credits d) = true) by (apply Z.ltb_lt; lia).
    rewrite Hn in Hw. lia.
  - change (if 0 <? 0 then 1 else 0) with 0 in Hw. lia.
Qed.

Lemma on_uih_weight P R f :
  wf_params P -> 2 <= d_mtu R -> 0 <= d_tx_credits R -> 0 <= frame_credits f -> 1 <= d_rx_credits R ->
  let '(R', frs, data, ok) := dlc_on_uih P R f in
  weight frs + 3 * blen R' + owes P (d_rx_credits R') + 1
  <= 3 * blen R + owes P (d_rx_credits R) + fw f.
Proof.
  intros HP HmR HtR Hcf Hrx. unfold dlc_on_uih.
  assert (Hsplit : (if f_pf f then (d_tx_credits R + hd 0 (f_info f), tl (f_info f))
                    else (d_tx_credits R, f_info f))
                   = (d_tx_credits R + frame_credits f, frame_data f)).
  { unfold frame_credits, frame_data. destruct (f_pf f); [reflexivity|f_equal; lia]. }
  rewrite Hsplit.
  set (rx1 := if is_nil (frame_data f) then d_rx_credits R
              else if 0 <? d_rx_credits R then d_rx_credits R - 1 else d_rx_credits R).
  assert (Hrx1 : rx1 = d_rx_credits R - (if has_data f then 1 else 0)).
  { unfold rx1, has_data. destruct (is_nil (frame_data f)); cbn; [lia|].
    destruct (0 <? d_rx_credits R) eqn:E; [lia|apply Z.ltb_ge in E; lia]. }
  set (R1 := mkDlc (d_mtu R) (d_tx_credits R + frame_credits f) rx1 (d_tx_buf R)).
  assert (H0rx1 : 0 <= rx1) by (rewrite Hrx1; destruct (has_data f); lia).
  pose proof (process_tx_weight P R1 HP ltac:(cbn; lia) ltac:(cbn; lia) ltac:(cbn; lia)) as H.
  destruct (process_tx P R1) as [[R' frs] ok].
  unfold blen in *. cbn [R1 d_tx_buf d_rx_credits] in H.
  destruct HP as (HP1 & HP2 & HP3). unfold owes, fw in *.
  destruct (has_data f);
    destruct (rx1 <=? p_threshold P) eqn:E1; [apply Z.leb_le in E1| apply Z.leb_gt in E1|apply Z.leb_le in E1| apply Z.leb_gt in E1];
    destruct (d_rx_credits R <=? p_threshold P) eqn:E2; [apply Z.leb_le in E2| apply Z.leb_gt in E2|apply Z.leb_le in E2| apply Z.leb_gt in E2|apply Z.leb_le in E2| apply Z.leb_gt in E2|apply Z.leb_le in E2| apply Z.leb_gt in E2];
    lia.
Qed.

Definition phi (P : params) (s : sys) : Z :=
  3 * blen (s_a s) + 3 * blen (s_b s) + weight (s_ab s) + weight (s_ba s)
  + owes P (d_rx_credits (s_a s)) + owes P (d_rx_credits (s_b s)).

Lemma phi_nonneg P s : 0 <= phi P s.
Proof.
  unfold phi, blen, owes. pose proof (weight_nonneg (s_ab s)). pose proof (weight_nonneg (s_ba s)).
  destruct (_ <=? _); destruct (_ <=? _); lia.
Qed.

(* an enabled delivery lowers the potential *)
Lemma deliver_ab_phi P wa wb s f rest :
  wf_params P -> inv P wa wb s -> s_ab s = f :: rest -> phi P (step P s DeliverAB) + 1 <= phi P s.
Proof.
  intros HP [Hab Hba Hok] E. cbn [step]. rewrite E.
  assert (Hcf : 0 <= frame_credits f).
  { pose proof (di_back _ _ _ _ _ _ _ Hba) as Hb. rewrite E in Hb. inversion Hb; assumption. }
  pose proof (on_uih_weight P (s_b s) f HP (di_mtu _ _ _ _ _ _ _ Hba) (di_tx _ _ _ _ _ _ _ Hba) Hcf
                (di_rx _ _ _ _ _ _ _ Hab)) as H.
  destruct (dlc_on_uih P (s_b s) f) as [[[b' frs] data] ok].
  unfold phi. cbn [s_a s_b s_ab s_ba]. rewrite E, weight_app. cbn [weight]. lia.
Qed.

Lemma deliver_ba_phi P wa wb s f rest :
  wf_params P -> inv P wa wb s -> s_ba s = f :: rest -> phi P (step P s DeliverBA) + 1 <= phi P s.
Proof.
  intros HP [Hab Hba Hok] E. cbn [step]. rewrite E.
  assert (Hcf : 0 <= frame_credits f).
  { pose proof (di_back _ _ _ _ _ _ _ Hab) as Hb. rewrite E in Hb. inversion Hb; assumption. }
  pose proof (on_uih_weight P (s_a s) f HP (di_mtu _ _ _ _ _ _ _ Hab) (di_tx _ _ _ _ _ _ _ Hab) Hcf
                (di_rx _ _ _ _ _ _ _ Hba)) as H.
  destruct (dlc_on_uih P (s_a s) f) as [[[a' frs] data] ok].
  unfold phi. cbn [s_a s_b s_ab s_ba]. rewrite E, weight_app. cbn [weight]. lia.
Qed.

Fixpoint drain_sched (n : nat) : list label :=
  match n with O => [] | S k => DeliverAB :: DeliverBA :: drain_sched k end.

Lemma writes_a_drain n : writes_a (drain_sched n) = [].
Proof. induction n; cbn; auto. Qed.
Lemma writes_b_drain n : writes_b (drain_sched n) = [].
Proof. induction n; cbn; auto. Qed.

Lemma drain_quiescent_stays P n : forall s, s_ab s = [] -> s_ba s = [] -> run P s (drain_sched n) = s.
Proof.
  induction n as [|n IH]; intros s Ea Eb; [reflexivity|].
  cbn [drain_sched run step]. rewrite Ea. rewrite Eb. apply IH; assumption.
Qed.

Lemma drains P : forall n wa wb s,
  wf_params P -> inv P wa wb s -> phi P s <= Z.of_nat n ->
  let s' := run P s (drain_sched n) in s_ab s' = [] /\ s_ba s' = [].
Proof.
  induction n as [|n IH]; intros wa wb s HP Hi Hphi; cbn zeta.
  - cbn [drain_sched run]. pose proof (phi_nonneg P s) as H0.
    assert (Hz : phi P s = 0) by lia. unfold phi, blen, owes in Hz.
    pose proof (weight_nonneg (s_ab s)) as Wa. pose proof (weight_nonneg (s_ba s)) as Wb.
    assert (Za : weight (s_ab s) = 0) by (destruct (_ <=? _) in Hz; destruct (_ <=? _) in Hz; lia).
    assert (Zb : weight (s_ba s) = 0) by (destruct (_ <=? _) in Hz; destruct (_ <=? _) in Hz; lia).
    split.
    + destruct (s_ab s) as [|f r]; [reflexivity|]. cbn [weight] in Za.
      pose proof (weight_nonneg r). unfold fw in Za. destruct (has_data f); lia.
    + destruct (s_ba s) as [|f r]; [reflexivity|]. cbn [weight] in Zb.
      pose proof (weight_nonneg r). unfold fw in Zb. destruct (has_data f); lia.
  - cbn [drain_sched run].
    set (s1 := step P s DeliverAB). set (s2 := step P s1 DeliverBA).
    pose proof (step_inv P wa wb s DeliverAB HP Hi) as Hi1. cbn [label_writes_a label_writes_b] in Hi1.
    rewrite !app_nil_r in Hi1. fold s1 in Hi1.
    pose proof (step_inv P wa wb s1 DeliverBA HP Hi1) as Hi2. cbn [label_writes_a label_writes_b] in Hi2.
    rewrite !app_nil_r in Hi2. fold s2 in Hi2.
    destruct (s_ab s) as [|f r] eqn:Ea.
    + assert (E1 : s1 = s) by (unfold s1; cbn [step]; rewrite Ea; reflexivity).
      destruct (s_ba s) as [|g r'] eqn:Eb.
      * assert (E2 : s2 = s) by (unfold s2; rewrite E1; cbn [step]; rewrite Eb; reflexivity).
        rewrite E2. rewrite (drain_quiescent_stays P n s Ea Eb). auto.
      * assert (Hd : phi P s2 + 1 <= phi P s).
        { unfold s2. rewrite E1. eapply deliver_ba_phi; eauto. }
        apply (IH wa wb s2 HP Hi2). lia.
    + assert (Hd1 : phi P s1 + 1 <= phi P s) by (unfold s1; eapply deliver_ab_phi; eauto).
      assert (Hd2 : phi P s2 <= phi P s1).
      { destruct (s_ba s1) as [|g r'] eqn:Eb.
        - assert (E2 : s2 = s1) by (unfold s2; cbn [step]; rewrite Eb; reflexivity). rewrite E2. lia.
        - pose proof (deliver_ba_phi P wa wb s1 g r' HP Hi1 Eb). fold s2 in H. lia. }
      apply (IH wa wb s2 HP Hi2). lia.
Qed.

Lemma run_app' P s l1 l2 : run P s (l1 ++ l2) = run P (run P s l1) l2.
Proof. revert s. induction l1; intros s; cbn; auto. Qed.

Lemma writes_a_app' l1 l2 : writes_a (l1 ++ l2) = writes_a l1 ++ writes_a l2.
Proof. induction l1 as [|l r IH]; [reflexivity|]. cbn [app]. rewrite !writes_a_cons, IH, app_assoc. reflexivity. Qed.
Lemma writes_b_app' l1 l2 : writes_b (l1 ++ l2) = writes_b l1 ++ writes_b l2.
Proof. induction l1 as [|l r IH]; [reflexivity|]. cbn [app]. rewrite !writes_b_cons, IH, app_assoc. reflexivity. Qed.

(* progress, second half: from every reachable state, a bounded number of deliveries
   (and nothing else) empties both channels, at which point everything written has
   been handed to the peer's sink *)
Lemma drains_reachable P ini rsp mtu_i mtu_r ls :
  wf_params_b P = true -> wf_link_b ini rsp mtu_i mtu_r = true ->
  exists n,
    let s := run P (setup ini rsp mtu_i mtu_r) (ls ++ drain_sched n) in
    s_ab s = [] /\ s_ba s = [] /\ s_rcv_b s = writes_a ls /\ s_rcv_a s = writes_b ls.
Proof.
  intros HP Hwf.
  pose proof (reach_inv P ini rsp mtu_i mtu_r HP Hwf ls) as Hi.
  set (s1 := run P (setup ini rsp mtu_i mtu_r) ls) in *.
  exists (Z.to_nat (phi P s1)). cbn zeta. rewrite run_app'. fold s1.
  pose proof (phi_nonneg P s1) as Hp.
  destruct (drains P (Z.to_nat (phi P s1)) _ _ s1 (wf_params_b_ok P HP) Hi ltac:(lia)) as [Ea Eb].
  split; [exact Ea|]. split; [exact Eb|].
  pose proof (progress P ini rsp mtu_i mtu_r HP Hwf (ls ++ drain_sched (Z.to_nat (phi P s1)))) as Hpr.
  cbn zeta in Hpr. rewrite run_app' in Hpr. fold s1 in Hpr.
  destruct (Hpr Ea Eb) as (_ & _ & Hb & Ha).
  rewrite writes_a_app', writes_a_drain, app_nil_r in Hb.
  rewrite writes_b_app', writes_b_drain, app_nil_r in Ha. auto.
Qed.

(* ---------- no mutual wait ----------
   process_tx never returns while this side owes credits: whatever its own transmit
   situation (no tx credits, data queued), the receive ledger is above the threshold
   afterwards and every credit added to it has been put on the wire *)
Lemma process_tx_grants P d :
  wf_params P -> 2 <= d_mtu d -> 0 <= d_tx_credits d -> 0 <= d_rx_credits d ->
  let '(d', frs, ok) := process_tx P d in
  p_threshold P < d_rx_credits d' /\ d_rx_credits d' = d_rx_credits d + sum_credits frs.
Proof.
  intros HP Hm Ht Hr. pose proof (process_tx_spec P d HP Hm Ht Hr) as H.
  destruct (process_tx P d) as [[d' frs] ok]. tauto.
Qed.

(* in every reachable state in which data is queued at either end, a delivery is enabled:
   the wire is not idle (both ends never wait for each other) *)
Lemma no_mutual_wait P ini rsp mtu_i mtu_r ls :
  wf_params_b P = true -> wf_link_b ini rsp mtu_i mtu_r = true ->
  let s := run P (setup ini rsp mtu_i mtu_r) ls in
  d_tx_buf (s_a s) <> [] \/ d_tx_buf (s_b s) <> [] -> s_ab s <> [] \/ s_ba s <> [].
Proof.
  intros HP Hwf. cbn zeta. intros Hq.
  destruct (s_ab (run P (setup ini rsp mtu_i mtu_r) ls)) eqn:Ea; [|left; discriminate].
  destruct (s_ba (run P (setup ini rsp mtu_i mtu_r) ls)) eqn:Eb; [|right; discriminate].
  exfalso. destruct (progress P ini rsp mtu_i mtu_r HP Hwf ls Ea Eb) as (Ba & Bb & _).
  destruct Hq as [Hq|Hq]; contradiction.
Qed.

(* the seeded rule "withhold the credits owed while out of tx credits with data queued"
   deadlocks bulk transfers in both directions: frame size 23, 1 initial credit each way,
   1200 / 1400 bytes written at the two ends before anything is delivered *)
Definition withhold_witness : list label :=
  [WriteA (repeat 7 1200); WriteB (repeat 9 1400)] ++ drain_sched 200.

Lemma seeded_withhold_deadlocks :
  let s := run_seeded (mkParams 32 16) (setup (mkPn 23 1) (mkPn 23 1) 48 48) withhold_witness in
  s_ab s = [] /\ s_ba s = [] /\ d_tx_buf (s_a s) <> [] /\ d_tx_buf (s_b s) <> [].
Proof. vm_compute. repeat split; discriminate. Qed.

Lemma withhold_witness_ok :
  let s := run (mkParams 32 16) (setup (mkPn 23 1) (mkPn 23 1) 48 48) withhold_witness in
  s_ab s = [] /\ s_ba s = [] /\ s_rcv_b s = repeat 7 1200 /\ s_rcv_a s = repeat 9 1400.
Proof. vm_compute. repeat split. Qed.
