(* Lemmas about Model/Pairing.v (property C13). *)
From Coq Require Import ZArith List Bool Lia.
From BV Require Import Gen.C13Tables Model.Pairing.
Import ListNotations.
Open Scope Z_scope.

(* ================================================================== 1. the table *)
Lemma in_all_io : forall x : io, In x all_io.
Proof. destruct x; simpl; auto 6. Qed.

Definition displays (p : prole) : bool := match p with Displays => true | _ => false end.

Lemma io_codes_match :
  IO_DISPLAY_ONLY = io_code DisplayOnly /\ IO_DISPLAY_YES_NO = io_code DisplayYesNo /\
  IO_KEYBOARD_ONLY = io_code KeyboardOnly /\ IO_NO_INPUT_NO_OUTPUT = io_code NoInputNoOutput /\
  IO_KEYBOARD_DISPLAY = io_code KeyboardDisplay.
Proof. vm_compute. repeat split. Qed.

Definition opt_eqb (a b : option (Z * bool)) : bool :=
  match a, b with
  | Some (m, d), Some (m', d') => (m =? m') && Bool.eqb d d'
  | None, None => true
  | _, _ => false
  end.

Lemma opt_eqb_eq : forall a b, opt_eqb a b = true -> a = b.
Proof.
  intros [[m d]|] [[m' d']|]; simpl; try discriminate; auto.
  intro H. apply andb_true_iff in H. destruct H as [H1 H2].
  apply Z.eqb_eq in H1. apply eqb_prop in H2. subst. reflexivity.
Qed.

(* one entry of the implementation's table against one entry of Table 2.8, for both roles *)
Definition entry_ok (i r : io) (sc : bool) : bool :=
  let '(m, ri, rr) := spec_method i r sc in
  opt_eqb (decide false true sc true false 0 (io_code i) (io_code r)) (Some (method_code m, displays ri))
  && opt_eqb (decide false true sc false false 0 (io_code i) (io_code r)) (Some (method_code m, displays rr))
  && (match m with PasskeyEntry => negb (prole_eqb ri NoRole) && negb (prole_eqb rr NoRole)
                 | _ => prole_eqb ri NoRole && prole_eqb rr NoRole end).

Definition table_ok : bool :=
  forallb (fun i => forallb (fun r => forallb (fun sc => entry_ok i r sc) [false; true]) all_io) all_io.

Lemma table_ok_true : table_ok = true.
Proof. vm_compute. reflexivity. Qed.

Lemma in_bools : forall b : bool, In b [false; true].
Proof. destruct b; simpl; auto. Qed.

Lemma entry_ok_all : forall i r sc, entry_ok i r sc = true.
Proof.
  intros i r sc. pose proof table_ok_true as H. unfold table_ok in H.
  rewrite forallb_forall in H. specialize (H i (in_all_io i)).
  rewrite forallb_forall in H. specialize (H r (in_all_io r)).
  rewrite forallb_forall in H. exact (H sc (in_bools sc)).
Qed.

(* MITM requested by either side: the implementation selects exactly the model and the
   display/input roles of Table 2.8, for all 5 x 5 x 2 entries and both roles *)
Lemma table_matches_spec : forall i r sc m ri rr,
  spec_method i r sc = (m, ri, rr) ->
  decide false true sc true false 0 (io_code i) (io_code r) = Some (method_code m, displays ri) /\
  decide false true sc false false 0 (io_code i) (io_code r) = Some (method_code m, displays rr).
Proof.
  intros i r sc m ri rr Hs. pose proof (entry_ok_all i r sc) as H. unfold entry_ok in H.
  rewrite Hs in H. apply andb_true_iff in H. destruct H as [H _].
  apply andb_true_iff in H. destruct H as [H1 H2].
  split; apply opt_eqb_eq; assumption.
Qed.

(* decide depends on (self.mitm, auth_req) only through "MITM requested by either side" *)
Lemma decide_mitm : forall mitm sc init prev auth i r,
  mitm || has_flag auth AUTH_MITM = true ->
  decide false mitm sc init prev auth i r = decide false true sc init prev 0 i r.
Proof.
  intros mitm sc init prev auth i r H. unfold decide.
  destruct mitm; simpl in *; [reflexivity|]. rewrite H. reflexivity.
Qed.

Lemma table_matches_spec_mitm : forall i r sc m ri rr self_mitm auth_req,
  spec_method i r sc = (m, ri, rr) ->
  self_mitm || has_flag auth_req AUTH_MITM = true ->
  decide false self_mitm sc true false auth_req (io_code i) (io_code r) = Some (method_code m, displays ri) /\
  decide false self_mitm sc false false auth_req (io_code i) (io_code r) = Some (method_code m, displays rr).
Proof.
  intros i r sc m ri rr self_mitm auth_req Hs Hm.
  rewrite !(decide_mitm _ _ _ _ _ _ _ Hm). exact (table_matches_spec i r sc m ri rr Hs).
Qed.

Lemma decide_no_mitm : forall sc init prev auth i r,
  has_flag auth AUTH_MITM = false ->
  decide false false sc init prev auth i r = Some (PM_JUST_WORKS, prev).
Proof. intros. unfold decide. rewrite H. reflexivity. Qed.

(* complementary roles, over the implementation's table *)
Definition roles_ok (i r : io) (sc : bool) : bool :=
  match decide false true sc true false 0 (io_code i) (io_code r),
        decide false true sc false false 0 (io_code i) (io_code r) with
  | Some (mi, di), Some (mr, dr) =>
    (mi =? mr)
    && (if mi =? PM_PASSKEY
        then negb (di && dr)
             && (if di then has_display i else has_keyboard i)
             && (if dr then has_display r else has_keyboard r)
             && (di || dr || (match i, r with KeyboardOnly, KeyboardOnly => true | _, _ => false end))
        else negb di && negb dr)
    && (if mi =? PM_NUMERIC_COMPARISON then has_yes_no i && has_yes_no r && sc else true)
    && ((mi =? PM_PASSKEY) || (mi =? PM_NUMERIC_COMPARISON) || (mi =? PM_JUST_WORKS))
  | _, _ => false
  end.

Lemma roles_ok_all : forall i r sc, roles_ok i r sc = true.
Proof.
  assert (H : forallb (fun i => forallb (fun r => forallb (fun sc => roles_ok i r sc) [false; true]) all_io) all_io = true)
    by (vm_compute; reflexivity).
  intros i r sc. rewrite forallb_forall in H. specialize (H i (in_all_io i)).
  rewrite forallb_forall in H. specialize (H r (in_all_io r)).
  rewrite forallb_forall in H. exact (H sc (in_bools sc)).
Qed.

Lemma roles_complementary : forall i r sc mi di mr dr,
  decide false true sc true false 0 (io_code i) (io_code r) = Some (mi, di) ->
  decide false true sc false false 0 (io_code i) (io_code r) = Some (mr, dr) ->
  mi = mr /\
  (mi = PM_PASSKEY ->
     (di && dr = false) /\
     (di = true -> has_display i = true) /\ (di = false -> has_keyboard i = true) /\
     (dr = true -> has_display r = true) /\ (dr = false -> has_keyboard r = true) /\
     (di = false -> dr = false -> i = KeyboardOnly /\ r = KeyboardOnly)) /\
  (mi = PM_NUMERIC_COMPARISON -> has_yes_no i = true /\ has_yes_no r = true /\ sc = true) /\
  (mi <> PM_PASSKEY -> di = false /\ dr = false).
Proof.
  intros i r sc mi di mr dr H1 H2. pose proof (roles_ok_all i r sc) as H. unfold roles_ok in H.
  rewrite H1, H2 in H.
  apply andb_true_iff in H. destruct H as [H HD].
  apply andb_true_iff in H. destruct H as [H HC].
  apply andb_true_iff in H. destruct H as [HA HB].
  apply Z.eqb_eq in HA. split; [assumption|]. split; [|split].
  - intro Hp. rewrite Hp, Z.eqb_refl in HB.
    apply andb_true_iff in HB. destruct HB as [HB HB4].
    apply andb_true_iff in HB. destruct HB as [HB HB3].
    apply andb_true_iff in HB. destruct HB as [HB1 HB2].
    split; [destruct di, dr; simpl in *; congruence|].
    repeat split; intros; subst; simpl in *; try assumption;
      destruct i, r; simpl in *; try discriminate; auto.
  - intro Hp. rewrite Hp, Z.eqb_refl in HC.
    apply andb_true_iff in HC. destruct HC as [HC HC3].
    apply andb_true_iff in HC. destruct HC as [HC1 HC2]. auto.
  - intro Hp. apply Z.eqb_neq in Hp. rewrite Hp in HB.
    apply andb_true_iff in HB. destruct HB as [Ha Hb].
    destruct di, dr; simpl in *; auto; discriminate.
Qed.

(* ================================================================== 2. negotiation *)
Lemma auth_flags : forall b s m c,
  has_flag (auth_req_of b s m c) AUTH_BONDING = b /\
  has_flag (auth_req_of b s m c) AUTH_SC = s /\
  has_flag (auth_req_of b s m c) AUTH_MITM = m /\
  has_flag (auth_req_of b s m c) AUTH_CT2 = c.
Proof. intros [] [] [] []; vm_compute; auto. Qed.

(* the method part of decide does not depend on the role *)
Lemma decide_method_role : forall m sc prev prev' auth i r,
  option_map fst (decide false m sc true prev auth i r) =
  option_map fst (decide false m sc false prev' auth i r).
Proof.
  intros. unfold decide.
  destruct (negb m && negb (has_flag auth AUTH_MITM)); [reflexivity|].
  destruct (table_lookup sc i r) as [[mm|mm di dr]|]; reflexivity.
Qed.

Lemma decide_mitm_sym : forall m1 m2 sc init prev a1 a2 i r,
  has_flag a1 AUTH_MITM = m2 -> has_flag a2 AUTH_MITM = m1 ->
  decide false m1 sc init prev a1 i r = decide false m2 sc init prev a2 i r.
Proof.
  intros m1 m2 sc init prev a1 a2 i r H1 H2. unfold decide. rewrite H1, H2.
  destruct m1, m2; reflexivity.
Qed.

Record negotiated_ok (b : bool) (ci cr : config) (ans : Z * Z) (si sr : session) : Prop := {
  ng_init_i : s_initiator si = true;
  ng_init_r : s_initiator sr = false;
  ng_sc : s_sc si = c_sc ci && c_sc cr;
  ng_sc_eq : s_sc sr = s_sc si;
  ng_bonding : s_bonding si = c_bonding ci && c_bonding cr;
  ng_bonding_eq : s_bonding sr = s_bonding si;
  ng_ct2 : s_ct2 si = false /\ s_ct2 sr = false;
  ng_ikd : s_ikd si = fst ans /\ s_ikd sr = fst ans;
  ng_rkd : s_rkd si = snd ans /\ s_rkd sr = snd ans;
  ng_subset : Z.land (fst ans) (Z.lnot (c_ikd ci)) = 0 /\ Z.land (snd ans) (Z.lnot (c_rkd ci)) = 0;
  ng_method : s_method si = s_method sr;
  ng_exp_i : s_expected si = expected (s_sc si) b (s_rkd si);
  ng_exp_r : s_expected sr = expected (s_sc sr) b (s_ikd sr)
}.

Lemma negotiation_b : forall b ci cr ans sr si,
  responder_session b cr ans (request_of ci) = Some sr ->
  initiator_session b ci (response_of cr sr) = NegOk si ->
  negotiated_ok b ci cr ans si sr.
Proof.
  intros b ci cr ans sr si Hr Hi.
  unfold responder_session, request_of in Hr. cbn [p_io p_oob p_auth p_ikd p_rkd] in Hr.
  destruct (auth_flags (c_bonding ci) (c_sc ci) (c_mitm ci) false) as (Fb & Fs & Fm & Fc).
  rewrite Fb, Fs in Hr.
  destruct (choose_method b cr (c_sc cr && c_sc ci) false _ (c_io ci) (c_io cr)) as [[mr dr]|] eqn:Hmr;
    [|discriminate].
  injection Hr as Hr. subst sr.
  unfold initiator_session, response_of in Hi.
  cbn [p_io p_oob p_auth p_ikd p_rkd s_bonding s_sc s_ct2 s_ikd s_rkd] in Hi.
  simpl (false && _) in Hi.
  destruct (auth_flags (c_bonding cr && c_bonding ci) (c_sc cr && c_sc ci) (c_mitm cr) false) as (Gb & Gs & Gm & Gc).
  rewrite Gb, Gs in Hi.
  assert (Hsc : c_sc ci && (c_sc cr && c_sc ci) = c_sc cr && c_sc ci) by (destruct (c_sc ci), (c_sc cr); reflexivity).
  rewrite Hsc in Hi.
  destruct (choose_method b ci (c_sc cr && c_sc ci) true _ (c_io ci) (c_io cr)) as [[mi di]|] eqn:Hmi;
    [|discriminate].
  destruct (negb (Z.land (fst ans) (Z.lnot (c_ikd ci)) =? 0) || negb (Z.land (snd ans) (Z.lnot (c_rkd ci)) =? 0)) eqn:Hsub;
    [discriminate|].
  injection Hi as Hi. subst si.
  apply orb_false_iff in Hsub. destruct Hsub as [S1 S2].
  apply negb_false_iff in S1. apply negb_false_iff in S2. apply Z.eqb_eq in S1. apply Z.eqb_eq in S2.
  assert (Hm : mi = mr).
  { unfold choose_method in Hmr, Hmi. cbn [p_oob p_auth] in Hmr, Hmi.
    assert (Ho : forall s a b, (s && (a || b)) || (negb s && (a && b)) = (s && (b || a)) || (negb s && (b && a)))
      by (intros [] [] []; reflexivity).
    rewrite (Ho _ (c_oob ci) (c_oob cr)) in Hmi.
    destruct ((c_sc cr && c_sc ci) && (c_oob cr || c_oob ci) || negb (c_sc cr && c_sc ci) && (c_oob cr && c_oob ci)).
    - congruence.
    - destruct b; [unfold decide in Hmr, Hmi; congruence|].
      rewrite (decide_mitm_sym (c_mitm ci) (c_mitm cr) _ _ _ _ (auth_req_of (c_bonding ci) (c_sc ci) (c_mitm ci) false)) in Hmi
        by assumption.
      pose proof (decide_method_role (c_mitm cr) (c_sc cr && c_sc ci) false false
                    (auth_req_of (c_bonding ci) (c_sc ci) (c_mitm ci) false) (c_io ci) (c_io cr)) as Hd.
      rewrite Hmi, Hmr in Hd. simpl in Hd. congruence. }
  subst mi.
  constructor; cbn [s_initiator s_sc s_bonding s_ct2 s_method s_display s_ikd s_rkd s_expected]; auto;
    try (destruct (c_sc ci), (c_sc cr); reflexivity);
    try (destruct (c_bonding ci), (c_bonding cr); reflexivity).
Qed.

Lemma negotiation : forall ci cr ans sr si,
  responder_session false cr ans (request_of ci) = Some sr ->
  initiator_session false ci (response_of cr sr) = NegOk si ->
  negotiated_ok false ci cr ans si sr.
Proof. exact (negotiation_b false). Qed.

(* ---- what one side waits for is what the other sends *)
Lemma expectations_match : forall sc bredr kd, expected sc bredr kd = distributed sc bredr kd.
Proof.
  intros sc bredr kd. unfold expected, distributed.
  destruct sc, bredr, (has_flag kd KD_ENC_KEY); reflexivity.
Qed.

Lemma consume_ne_self : forall l, l <> [] -> consume_ne l l = RxDone false.
Proof.
  induction l as [|c cs IH]; intro Hne; [congruence|].
  simpl. rewrite Z.eqb_refl. simpl.
  destruct cs as [|c' cs']; [reflexivity|]. apply IH. discriminate.
Qed.

Lemma consume_self : forall l, consume l l = RxDone false.
Proof. destruct l; [reflexivity|]. apply consume_ne_self. discriminate. Qed.

Lemma phase3_completes_b : forall b ci cr ans si sr,
  negotiated_ok b ci cr ans si sr -> phase3 b si sr = (Completed, Completed).
Proof.
  intros b ci cr ans si sr N. destruct N.
  unfold phase3. rewrite ng_exp_i0, ng_exp_r0, !expectations_match.
  destruct ng_ikd0 as [I1 I2]. destruct ng_rkd0 as [R1 R2].
  rewrite ng_sc_eq0, R1, R2, consume_self, I1, I2, consume_self. reflexivity.
Qed.

Lemma phase3_completes : forall ci cr ans si sr,
  negotiated_ok false ci cr ans si sr -> phase3 false si sr = (Completed, Completed).
Proof. exact (phase3_completes_b false). Qed.

(* CTKD over BR/EDR: the method is CTKD on both sides and the key distribution completes on
   both sides for every pair of masks (fixes/D13e.patch: a side that expects nothing completes) *)
Lemma ctkd_flow_completes : forall ci cr ans sr si,
  responder_session true cr ans (request_of ci) = Some sr ->
  initiator_session true ci (response_of cr sr) = NegOk si ->
  phase3 true si sr = (Completed, Completed) /\
  (c_oob ci || c_oob cr = false -> s_method si = PM_CTKD_OVER_CLASSIC /\ s_method sr = PM_CTKD_OVER_CLASSIC).
Proof.
  intros ci cr ans sr si Hr Hi. pose proof (negotiation_b true _ _ _ _ _ Hr Hi) as N.
  split; [exact (phase3_completes_b true _ _ _ _ _ N)|].
  intro Hoob. apply orb_false_iff in Hoob. destruct Hoob as [O1 O2].
  pose proof (ng_method _ _ _ _ _ _ N) as Hm. rewrite Hm.
  cut (s_method sr = PM_CTKD_OVER_CLASSIC); [auto|].
  unfold responder_session in Hr.
  destruct (choose_method true cr _ false (request_of ci) _ _) as [[m d]|] eqn:Hc; [|discriminate].
  injection Hr as Hr. subst sr. cbn [s_method].
  unfold choose_method, request_of in Hc. cbn [p_oob] in Hc. rewrite O1, O2 in Hc.
  rewrite !andb_false_r in Hc. cbn [orb] in Hc. unfold decide in Hc. congruence.
Qed.

(* ---- the same, by complete evaluation over all 16 x 16 masks on each side, SC and bonding
   on each side (io NoInputNoOutput: the capability does not interact with the masks) *)
Definition masks := map Z.of_nat (seq 0 16).

Fixpoint zlist_eqb (a b : list Z) : bool :=
  match a, b with
  | [], [] => true
  | x :: a', y :: b' => (x =? y) && zlist_eqb a' b'
  | _, _ => false
  end.

Lemma zlist_eqb_eq : forall a b, zlist_eqb a b = true -> a = b.
Proof.
  induction a as [|x a IH]; destruct b as [|y b]; simpl; try discriminate; auto.
  intro H. apply andb_true_iff in H. destruct H as [H1 H2].
  apply Z.eqb_eq in H1. subst. f_equal. auto.
Qed.

Definition phase3_case (sci scr bi br : bool) (ii ri ir rr : Z) : bool :=
  let ci := mkConfig 3 sci false bi ii ri false in
  let cr := mkConfig 3 scr false br ir rr false in
  let req := request_of ci in
  match responder_session false cr (default_answer cr req) req with
  | None => false
  | Some sr =>
    match initiator_session false ci (response_of cr sr) with
    | NegOk si =>
      match phase3 false si sr with
      | (Completed, Completed) =>
        (* and literally: the list one side waits for is the list the other sends *)
        zlist_eqb (s_expected si) (distributed (s_sc sr) false (s_rkd sr))
        && zlist_eqb (s_expected sr) (distributed (s_sc si) false (s_ikd si))
      | _ => false
      end
    | _ => false
    end
  end.

(* stated without an intermediate constant: the kernel then checks it with the VM only *)
Lemma phase3_all_true :
  forallb (fun sci => forallb (fun scr => forallb (fun bi => forallb (fun br =>
  forallb (fun ii => forallb (fun ri => forallb (fun ir => forallb (fun rr =>
    phase3_case sci scr bi br ii ri ir rr) masks) masks) masks) masks)
  [false; true]) [false; true]) [false; true]) [false; true] = true.
Proof. vm_cast_no_check (eq_refl true). Qed.

Lemma in_masks : forall m, 0 <= m < 16 -> In m masks.
Proof.
  intros m Hm. unfold masks. apply in_map_iff. exists (Z.to_nat m). split; [lia|].
  apply in_seq. lia.
Qed.

Lemma forallb_In : forall (A : Type) (f : A -> bool) (l : list A),
  forallb f l = true -> forall x, In x l -> f x = true.
Proof. intros A f l H. apply forallb_forall. exact H. Qed.

Lemma expectations_match_finite : forall sci scr bi br ii ri ir rr,
  0 <= ii < 16 -> 0 <= ri < 16 -> 0 <= ir < 16 -> 0 <= rr < 16 ->
  phase3_case sci scr bi br ii ri ir rr = true.
Proof.
  intros sci scr bi br ii ri ir rr H1 H2 H3 H4.
  exact (forallb_In _ _ _ (forallb_In _ _ _ (forallb_In _ _ _ (forallb_In _ _ _
          (forallb_In _ _ _ (forallb_In _ _ _ (forallb_In _ _ _ (forallb_In _ _ _ phase3_all_true
             sci (in_bools sci)) scr (in_bools scr)) bi (in_bools bi)) br (in_bools br))
             ii (in_masks ii H1)) ri (in_masks ri H2)) ir (in_masks ir H3)) rr (in_masks rr H4)).
Qed.

(* ================================================================== 3. methods in the table *)
Definition detail_method (d : detail) : Z := match d with DMethod m => m | DRoles m _ _ => m end.
Definition method_ok (m : Z) : bool :=
  (m =? PM_JUST_WORKS) || (m =? PM_NUMERIC_COMPARISON) || (m =? PM_PASSKEY).
Definition entry_details (e : entry) : list detail :=
  match e with ESingle d => [d] | EPair a b => [a; b] end.
Definition legacy_detail (e : entry) : detail := match e with ESingle d => d | EPair l _ => l end.
Definition all_details_ok : bool :=
  forallb (fun row => forallb (fun c => forallb (fun d => method_ok (detail_method d)) (entry_details (snd c))
                                        && negb (detail_method (legacy_detail (snd c)) =? PM_NUMERIC_COMPARISON))
                              (snd row)) pairing_methods.

Lemma all_details_ok_true : all_details_ok = true.
Proof. vm_compute. reflexivity. Qed.

Lemma assoc_in : forall (A : Type) k (l : list (Z * A)) v, assoc k l = Some v -> In (k, v) l.
Proof.
  induction l as [|[k' v'] l IH]; simpl; intros v H; [discriminate|].
  destruct (Z.eqb_spec k k').
  - injection H as H. subst. auto.
  - right. auto.
Qed.

Lemma table_lookup_ok : forall sc i r d, table_lookup sc i r = Some d -> method_ok (detail_method d) = true.
Proof.
  intros sc i r d H. unfold table_lookup in H.
  destruct (assoc i pairing_methods) as [row|] eqn:Hrow; [|discriminate].
  destruct (assoc r row) as [e|] eqn:He; [|discriminate].
  injection H as H.
  pose proof all_details_ok_true as Hall. unfold all_details_ok in Hall.
  rewrite forallb_forall in Hall. specialize (Hall _ (assoc_in _ _ _ _ Hrow)). cbn [snd] in Hall.
  rewrite forallb_forall in Hall. specialize (Hall _ (assoc_in _ _ _ _ He)). cbn [snd] in Hall.
  apply andb_true_iff in Hall. destruct Hall as [Hall _].
  rewrite forallb_forall in Hall. apply Hall.
  destruct e as [d0|a b]; simpl; subst; [auto|destruct sc; auto].
Qed.

Lemma table_lookup_legacy : forall i r d,
  table_lookup false i r = Some d -> detail_method d <> PM_NUMERIC_COMPARISON.
Proof.
  intros i r d H. unfold table_lookup in H.
  destruct (assoc i pairing_methods) as [row|] eqn:Hrow; [|discriminate].
  destruct (assoc r row) as [e|] eqn:He; [|discriminate].
  injection H as H.
  pose proof all_details_ok_true as Hall. unfold all_details_ok in Hall.
  rewrite forallb_forall in Hall. specialize (Hall _ (assoc_in _ _ _ _ Hrow)). cbn [snd] in Hall.
  rewrite forallb_forall in Hall. specialize (Hall _ (assoc_in _ _ _ _ He)). cbn [snd] in Hall.
  apply andb_true_iff in Hall. destruct Hall as [_ Hall].
  apply negb_true_iff in Hall. apply Z.eqb_neq in Hall.
  destruct e; cbn [legacy_detail] in Hall; subst; assumption.
Qed.

Lemma decide_nc_sc : forall m sc init prev auth i r d,
  decide false m sc init prev auth i r = Some (PM_NUMERIC_COMPARISON, d) -> sc = true.
Proof.
  intros m sc init prev auth i r d H. destruct sc; [reflexivity|]. exfalso. unfold decide in H.
  destruct (negb m && negb (has_flag auth AUTH_MITM)); [discriminate|].
  destruct (table_lookup false i r) as [[m0|m0 di dr]|] eqn:Ht; [| |discriminate];
    injection H as H _; apply (table_lookup_legacy _ _ _ Ht); assumption.
Qed.

Lemma decide_methods : forall m sc init prev auth i r mm d,
  decide false m sc init prev auth i r = Some (mm, d) -> method_ok mm = true.
Proof.
  intros m sc init prev auth i r mm d H. unfold decide in H.
  destruct (negb m && negb (has_flag auth AUTH_MITM)).
  - injection H as H _. subst. reflexivity.
  - destruct (table_lookup sc i r) as [[m0|m0 di dr]|] eqn:Ht; [| |discriminate];
      injection H as H _; subst; exact (table_lookup_ok _ _ _ _ Ht).
Qed.

Lemma choose_methods : forall c sc init peer i r mm d,
  choose_method false c sc init peer i r = Some (mm, d) -> mm = PM_OOB \/ method_ok mm = true.
Proof.
  intros c sc init peer i r mm d H. unfold choose_method in H.
  destruct (sc && (c_oob c || p_oob peer) || negb sc && (c_oob c && p_oob peer)).
  - injection H as H _. auto.
  - right. exact (decide_methods _ _ _ _ _ _ _ _ _ H).
Qed.

Lemma method_ok_cases : forall m, method_ok m = true ->
  m = PM_JUST_WORKS \/ m = PM_NUMERIC_COMPARISON \/ m = PM_PASSKEY.
Proof.
  intros m H. unfold method_ok in H.
  apply orb_true_iff in H. destruct H as [H|H]; [apply orb_true_iff in H; destruct H as [H|H]|];
    apply Z.eqb_eq in H; auto.
Qed.

Lemma mem_enc_distributed : forall kd,
  mem CMD_ENCRYPTION_INFORMATION (distributed false false kd) = has_flag kd KD_ENC_KEY.
Proof.
  intro kd. unfold distributed.
  destruct (has_flag kd KD_ENC_KEY), (has_flag kd KD_ID_KEY), (has_flag kd KD_SIGN_KEY); reflexivity.
Qed.

Lemma mem_enc_distributed_sc : forall kd, mem CMD_ENCRYPTION_INFORMATION (distributed true false kd) = false.
Proof.
  intro kd. unfold distributed.
  destruct (has_flag kd KD_ENC_KEY), (has_flag kd KD_ID_KEY), (has_flag kd KD_SIGN_KEY); reflexivity.
Qed.

(* ---- passkey bits *)
Lemma bit_eq_testbit : forall p q k,
  bit_z p k = bit_z q k -> Z.testbit p (Z.of_nat k) = Z.testbit q (Z.of_nat k).
Proof.
  intros p q k H. unfold bit_z in H.
  assert (Hl : forall x, Z.land x 1 = Z.b2z (Z.odd x)).
  { intro x. change 1 with (Z.ones 1). rewrite Z.land_ones by lia.
    change (2 ^ 1) with 2. rewrite Zmod_odd. destruct (Z.odd x); reflexivity. }
  rewrite !Hl in H.
  assert (Ht : forall x, Z.testbit x (Z.of_nat k) = Z.odd (Z.shiftr x (Z.of_nat k))).
  { intro x. rewrite <- Z.bit0_odd, Z.shiftr_spec by lia. f_equal. }
  rewrite !Ht.
  destruct (Z.odd (Z.shiftr p (Z.of_nat k))), (Z.odd (Z.shiftr q (Z.of_nat k))); simpl in H; try reflexivity; lia.
Qed.

Lemma passkey_bits_inj : forall p q,
  0 <= p < 1000000 -> 0 <= q < 1000000 ->
  (forall k, (k < 20)%nat -> bit_z p k = bit_z q k) -> p = q.
Proof.
  intros p q Hp Hq H. apply Z.bits_inj'. intros n Hn.
  destruct (Z_lt_le_dec n 20) as [Hlt|Hge].
  - replace n with (Z.of_nat (Z.to_nat n)) by lia. apply bit_eq_testbit. apply H. lia.
  - assert (Hb : forall x, 0 <= x < 1000000 -> Z.testbit x n = false).
    { intros x Hx. destruct (Z.eq_dec x 0) as [->|Hnz]; [apply Z.testbit_0_l|].
      apply Z.bits_above_log2; [lia|].
      assert (Z.log2 x < 20); [|lia]. apply Z.log2_lt_pow2; [lia|]. change (2 ^ 20) with 1048576. lia. }
    rewrite (Hb p Hp), (Hb q Hq). reflexivity.
Qed.

(* ================================================================== 4. the protocol *)
Definition no_tamper (e : env) : bool :=
  negb (e_bad_confirm_i e || e_bad_confirm_r e || e_bad_dhkey_i e || e_bad_dhkey_r e).

Definition passkey_in_range (p : option Z) : bool :=
  match p with None => true | Some p => (0 <=? p) && (p <? 1000000) end.

(* passkeys are 6 decimal digits (Vol 3 Part H 2.3.5.2) *)
Definition env_ok (e : env) : bool :=
  passkey_in_range (Some (e_generated e)) && passkey_in_range (e_typed_i e) && passkey_in_range (e_typed_r e).

Definition key_auth {V : Type} (k : option (key V)) : bool := match k with Some k => k_auth k | None => false end.
Definition flag_auth (k : option bool) : bool := match k with Some a => a | None => false end.
Definition any_auth {V : Type} (ks : keys V) : bool :=
  key_auth (ks_ltk ks) || key_auth (ks_ltk_central ks) || key_auth (ks_ltk_peripheral ks)
  || flag_auth (ks_irk ks) || flag_auth (ks_csrk ks) || key_auth (ks_link_key ks).

Section ProtocolProofs.
  Variable V : Type.
  Variable veqb : V -> V -> bool.
  Variable zero : V.
  Variable tk_of_passkey : Z -> V.
  Variable c1 : V -> V -> V.
  Variable s1 : V -> V -> V -> V.
  Variable pub : V -> V.
  Variable dh : V -> V -> V.
  Variable f4 : V -> V -> V -> Z -> V.
  Variable f5_mac : V -> V -> V -> V.
  Variable f5_ltk : V -> V -> V -> V.
  Variable f6 : V -> V -> V -> V -> bool -> V.
  Variable derive_lk : V -> V.
  Variable tamper : V -> V.
  Variable ni nr : nonces V.

  (* the only facts about the toolbox the lemmas below use *)
  Hypothesis veqb_spec : forall a b, veqb a b = true <-> a = b.
  Hypothesis tamper_neq : forall v, tamper v <> v.
  Hypothesis c1_inj : forall k k' r, c1 k r = c1 k' r -> k = k'.
  Hypothesis tk_inj : forall p q, 0 <= p < 1000000 -> 0 <= q < 1000000 ->
                                  tk_of_passkey p = tk_of_passkey q -> p = q.
  Hypothesis f4_inj : forall u v x z z', f4 u v x z = f4 u v x z' -> z = z'.
  Hypothesis dh_agree : dh (n_sk ni) (pub (n_sk nr)) = dh (n_sk nr) (pub (n_sk ni)).

  Let P2L := phase2_legacy V veqb zero tk_of_passkey c1 s1 tamper ni nr.
  Let P2S := phase2_sc V veqb zero tk_of_passkey pub dh f4 f5_mac f5_ltk f6 tamper ni nr.
  Let P2 := phase2 V veqb zero tk_of_passkey c1 s1 pub dh f4 f5_mac f5_ltk f6 tamper ni nr.
  Let PAIR := pair V veqb zero tk_of_passkey c1 s1 pub dh f4 f5_mac f5_ltk f6 derive_lk tamper ni nr.
  Let STORED := stored V derive_lk.
  Let ROUNDS := passkey_rounds V veqb f4 tamper ni nr.
  Let DHK := dhkey_phase V veqb f5_mac f5_ltk f6 tamper.

  Lemma veqb_refl : forall a, veqb a a = true.
  Proof. intro a. apply veqb_spec. reflexivity. Qed.

  Lemma veqb_tamper : forall a, veqb a (tamper a) = false /\ veqb (tamper a) a = false.
  Proof.
    intro a. split.
    - destruct (veqb a (tamper a)) eqn:H; [|reflexivity]. apply veqb_spec in H.
      exfalso. apply (tamper_neq a). auto.
    - destruct (veqb (tamper a) a) eqn:H; [|reflexivity]. apply veqb_spec in H.
      exfalso. apply (tamper_neq a). auto.
  Qed.

  (* ---- the shape of a run *)
  Inductive pair_case (e : env) (ci cr : config) : result V -> Prop :=
  | PC_reject :
      e_accept e = false ->
      pair_case e ci cr (failed_both V ERR_PAIRING_NOT_SUPPORTED None None)
  | PC_params : forall sr reason,
      e_accept e = true ->
      pair_case e ci cr (failed_both V reason None (Some sr))
  | PC_phase2_fail : forall si sr ans reason,
      e_accept e = true -> negotiated_ok false ci cr ans si sr ->
      responder_session false cr ans (request_of ci) = Some sr ->
      P2 e si sr = P2Fail reason ->
      pair_case e ci cr (failed_both V reason (Some si) (Some sr))
  | PC_done : forall si sr ans a b c d,
      e_accept e = true -> negotiated_ok false ci cr ans si sr ->
      responder_session false cr ans (request_of ci) = Some sr ->
      P2 e si sr = P2Ok a b c d ->
      pair_case e ci cr
        (Res (mkSide Completed
                (Some (STORED e false si c (distributed (s_sc sr) false (s_rkd sr)) d)) (calls_of si))
             (mkSide Completed
                (Some (STORED e false sr d (distributed (s_sc si) false (s_ikd si)) c)) (calls_of sr))
             (Some si) (Some sr) (Some (a, b))).

  Lemma pair_cases : forall e ci cr, PAIR e ci cr <> ResError -> pair_case e ci cr (PAIR e ci cr).
  Proof.
    intros e ci cr Hne. unfold PAIR, pair in *.
    destruct (e_accept e) eqn:Hacc; cbn [negb] in *; [|apply PC_reject; assumption].
    set (ans := match e_answer e with Some a => a | None => default_answer cr (request_of ci) end) in *.
    destruct (responder_session false cr ans (request_of ci)) as [sr|] eqn:Hr; [|congruence].
    destruct (initiator_session false ci (response_of cr sr)) as [si|reason|] eqn:Hi; [| |congruence].
    - pose proof (negotiation _ _ _ _ _ Hr Hi) as N.
      fold P2 in Hne |- *.
      destruct (P2 e si sr) as [reason|a b c d|] eqn:Hp; [| |congruence].
      + eapply PC_phase2_fail; eauto.
      + rewrite (phase3_completes _ _ _ _ _ N). eapply PC_done; eauto.
    - apply PC_params. assumption.
  Qed.

  (* ---- both sides end the same way *)
  Lemma both_or_neither : forall e ci cr i r si sr link,
    PAIR e ci cr = Res i r si sr link ->
    (r_outcome i = Completed /\ r_outcome r = Completed /\ r_store i <> None /\ r_store r <> None)
    \/ (exists reason, r_outcome i = Failed reason /\ r_outcome r = Failed reason
                       /\ r_store i = None /\ r_store r = None).
  Proof.
    intros e ci cr i r si sr link H.
    assert (Hne : PAIR e ci cr <> ResError) by (rewrite H; discriminate).
    pose proof (pair_cases e ci cr Hne) as C. rewrite H in C.
    inversion C; subst; cbn [r_outcome r_store].
    - right. eexists. repeat split.
    - right. eexists. repeat split.
    - right. eexists. repeat split.
    - left. repeat split; discriminate.
  Qed.

  Lemma never_hangs : forall e ci cr i r si sr link,
    PAIR e ci cr = Res i r si sr link -> r_outcome i <> Hung /\ r_outcome r <> Hung.
  Proof.
    intros e ci cr i r si sr link H.
    destruct (both_or_neither _ _ _ _ _ _ _ _ H) as [(A & B & _)|(reason & A & B & _)];
      rewrite A, B; split; discriminate.
  Qed.

  (* ---- phase 2 *)
  Lemma phase2_split : forall e ci cr ans si sr,
    negotiated_ok false ci cr ans si sr ->
    P2 e si sr = if is_method si PM_OOB then P2Unmodelled
                 else if s_sc si then P2S e si sr else P2L e si sr.
  Proof.
    intros e ci cr ans si sr N. destruct N. unfold P2, phase2, is_method.
    rewrite <- ng_method0, ng_sc_eq0, Z.eqb_refl, eqb_reflx, orb_diag. cbn [negb orb].
    reflexivity.
  Qed.

  Lemma xmit_false : forall v, xmit V tamper false v = v.
  Proof. reflexivity. Qed.

  (* legacy: with nothing altered in transit, phase 2 succeeds only when both sides hold the same
     TK, and then both derive the same STK *)
  Lemma legacy_ok : forall e si sr a b c d,
    e_bad_confirm_i e = false -> e_bad_confirm_r e = false ->
    P2L e si sr = P2Ok a b c d ->
    exists tk, legacy_tk V zero tk_of_passkey e si (e_typed_i e) = Some tk /\
               legacy_tk V zero tk_of_passkey e sr (e_typed_r e) = Some tk /\ a = b.
  Proof.
    intros e si sr a b c d B1 B2 H. unfold P2L, phase2_legacy in H. rewrite B1, B2 in H.
    destruct (legacy_tk V zero tk_of_passkey e si (e_typed_i e)) as [tki|]; [|discriminate].
    destruct (legacy_tk V zero tk_of_passkey e sr (e_typed_r e)) as [tkr|]; [|discriminate].
    rewrite !xmit_false in H.
    destruct (veqb (c1 tki (n_rand ni 0%nat)) (c1 tkr (n_rand ni 0%nat))) eqn:E1; cbn [negb] in H; [|discriminate].
    destruct (veqb (c1 tkr (n_rand nr 0%nat)) (c1 tki (n_rand nr 0%nat))) eqn:E2; cbn [negb] in H; [|discriminate].
    apply veqb_spec in E1. apply c1_inj in E1. subst tkr.
    injection H as <- <- _ _. exists tki. auto.
  Qed.

  Lemma legacy_same_tk_tampered : forall e si sr tk,
    legacy_tk V zero tk_of_passkey e si (e_typed_i e) = Some tk ->
    legacy_tk V zero tk_of_passkey e sr (e_typed_r e) = Some tk ->
    e_bad_confirm_i e || e_bad_confirm_r e = true ->
    P2L e si sr = P2Fail ERR_CONFIRM_VALUE_FAILED.
  Proof.
    intros e si sr tk H1 H2 Hb. unfold P2L, phase2_legacy. rewrite H1, H2.
    destruct (e_bad_confirm_i e); cbn [xmit].
    - rewrite (proj2 (veqb_tamper _)). reflexivity.
    - rewrite veqb_refl. cbn [negb]. cbn [orb] in Hb. rewrite Hb. cbn [xmit].
      rewrite (proj2 (veqb_tamper _)). reflexivity.
  Qed.

  (* secure connections passkey rounds *)
  Lemma rounds_bits : forall e pi pr pka pkb n k,
    e_bad_confirm_i e = false -> e_bad_confirm_r e = false ->
    ROUNDS e pi pr pka pkb k n = true ->
    forall j, (j < n)%nat -> bit_z pi (k + j) = bit_z pr (k + j).
  Proof.
    intros e pi pr pka pkb n. induction n as [|n IH]; intros k B1 B2 H j Hj; [lia|].
    unfold ROUNDS in H. cbn [passkey_rounds] in H. rewrite B1, B2, !xmit_false in H.
    apply andb_true_iff in H. destruct H as [H H3].
    apply andb_true_iff in H. destruct H as [H1 H2].
    destruct j as [|j].
    - apply veqb_spec in H1. apply f4_inj in H1. rewrite Nat.add_0_r. assumption.
    - replace (k + S j)%nat with (S k + j)%nat by lia. apply (IH (S k)); auto. lia.
  Qed.

  Lemma rounds_same : forall e p pka pkb n k,
    e_bad_confirm_i e = false -> e_bad_confirm_r e = false ->
    ROUNDS e p p pka pkb k n = true.
  Proof.
    intros e p pka pkb n. induction n as [|n IH]; intros k B1 B2; [reflexivity|].
    unfold ROUNDS. cbn [passkey_rounds]. rewrite B1, B2, !xmit_false, !veqb_refl. cbn [andb].
    apply IH; assumption.
  Qed.

  Lemma rounds_tampered : forall e p pka pkb n k,
    e_bad_confirm_i e || e_bad_confirm_r e = true ->
    ROUNDS e p p pka pkb k (S n) = false.
  Proof.
    intros e p pka pkb n k Hb. unfold ROUNDS. cbn [passkey_rounds].
    destruct (e_bad_confirm_i e); cbn [xmit].
    - rewrite (proj2 (veqb_tamper _)). reflexivity.
    - cbn [orb] in Hb. rewrite Hb. cbn [xmit]. rewrite veqb_refl, (proj2 (veqb_tamper _)). reflexivity.
  Qed.

  Lemma dh_keys_agree :
    f5_mac (dh (n_sk ni) (pub (n_sk nr))) = f5_mac (dh (n_sk nr) (pub (n_sk ni))) /\
    f5_ltk (dh (n_sk ni) (pub (n_sk nr))) = f5_ltk (dh (n_sk nr) (pub (n_sk ni))).
  Proof. rewrite dh_agree. auto. Qed.

  (* whenever the DHKey phase succeeds both sides hold the same LTK *)
  Lemma dhk_ok : forall e na nb rpi rpr a b c d,
    DHK e (dh (n_sk ni) (pub (n_sk nr))) (dh (n_sk nr) (pub (n_sk ni))) na nb rpi rpr = P2Ok a b c d ->
    a = b /\ c = d /\ a = c.
  Proof.
    intros e na nb rpi rpr a b c d H. unfold DHK, dhkey_phase in H.
    destruct (negb _) in H; [discriminate|]. destruct (negb _) in H; [discriminate|].
    injection H as <- <- <- <-. rewrite dh_agree. auto.
  Qed.

  Lemma dhk_tampered : forall e na nb rp,
    e_bad_dhkey_i e || e_bad_dhkey_r e = true ->
    DHK e (dh (n_sk ni) (pub (n_sk nr))) (dh (n_sk nr) (pub (n_sk ni))) na nb rp rp
      = P2Fail ERR_DHKEY_CHECK_FAILED.
  Proof.
    intros e na nb rp Hb. unfold DHK, dhkey_phase. rewrite dh_agree.
    destruct (e_bad_dhkey_i e); cbn [xmit].
    - rewrite (proj1 (veqb_tamper _)). reflexivity.
    - rewrite veqb_refl. cbn [negb]. cbn [orb] in Hb. rewrite Hb. cbn [xmit].
      rewrite (proj1 (veqb_tamper _)). reflexivity.
  Qed.

  Lemma sc_ok : forall e si sr a b c d,
    P2S e si sr = P2Ok a b c d -> a = b /\ c = d /\ a = c.
  Proof.
    intros e si sr a b c d H. unfold P2S, phase2_sc in H.
    destruct (is_method si PM_PASSKEY).
    - destruct (own_passkey e si (e_typed_i e)) as [pi|]; [|discriminate].
      destruct (own_passkey e sr (e_typed_r e)) as [pr|]; [|discriminate].
      destruct (negb _) in H; [discriminate|]. exact (dhk_ok _ _ _ _ _ _ _ _ _ H).
    - destruct (is_method si PM_JUST_WORKS || is_method si PM_NUMERIC_COMPARISON); [|discriminate].
      destruct (negb _) in H; [discriminate|]. destruct (negb _) in H; [discriminate|].
      exact (dhk_ok _ _ _ _ _ _ _ _ _ H).
  Qed.

  (* secure connections passkey entry succeeds only with equal passkeys *)
  Lemma sc_passkey_ok : forall e si sr a b c d pi pr,
    e_bad_confirm_i e = false -> e_bad_confirm_r e = false ->
    is_method si PM_PASSKEY = true ->
    own_passkey e si (e_typed_i e) = Some pi -> own_passkey e sr (e_typed_r e) = Some pr ->
    0 <= pi < 1000000 -> 0 <= pr < 1000000 ->
    P2S e si sr = P2Ok a b c d -> pi = pr.
  Proof.
    intros e si sr a b c d pi pr B1 B2 Hm Hpi Hpr Ri Rr H. unfold P2S, phase2_sc in H.
    rewrite Hm, Hpi, Hpr in H.
    match type of H with context [passkey_rounds ?v ?q ?f ?t ?x ?y ?ee ?p1 ?p2 ?ka ?kb ?k ?n] =>
      destruct (passkey_rounds v q f t x y ee p1 p2 ka kb k n) eqn:Hr end; cbn [negb] in H; [|discriminate].
    apply passkey_bits_inj; auto.
    intros k Hk. exact (rounds_bits _ _ _ _ _ _ _ B1 B2 Hr k Hk).
  Qed.

  (* ---- key bookkeeping: the authenticated flag *)
  Lemma stored_auth : forall e s own cmds peer,
    any_auth (STORED e false s own cmds peer) = true -> authenticated_flag e s = true.
  Proof.
    intros e s own cmds peer H. unfold STORED, stored, any_auth in H.
    cbn [ks_ltk ks_ltk_central ks_ltk_peripheral ks_irk ks_csrk ks_link_key] in H.
    destruct (authenticated_flag e s); [reflexivity|]. exfalso.
    destruct (s_sc s), (mem CMD_ENCRYPTION_INFORMATION cmds), (has_flag (own_kd s) KD_ENC_KEY),
      (mem CMD_IDENTITY_INFORMATION cmds), (mem CMD_SIGNING_INFORMATION cmds), (has_flag (own_kd s) KD_LINK_KEY);
      cbn in H; discriminate.
  Qed.

  Lemma negotiated_method : forall ci cr ans sr,
    responder_session false cr ans (request_of ci) = Some sr ->
    s_method sr = PM_OOB \/ method_ok (s_method sr) = true.
  Proof.
    intros ci cr ans sr H. unfold responder_session in H.
    destruct (choose_method _ _ _ _ _ _ _) as [[m d]|] eqn:Hc; [|discriminate].
    injection H as H. subst sr. cbn [s_method]. exact (choose_methods _ _ _ _ _ _ _ _ Hc).
  Qed.

  Lemma method_mitm : forall ci cr ans sr,
    responder_session false cr ans (request_of ci) = Some sr ->
    s_method sr <> PM_JUST_WORKS -> s_method sr <> PM_OOB ->
    c_mitm ci || c_mitm cr = true.
  Proof.
    intros ci cr ans sr H Hjw Hoob. unfold responder_session in H.
    destruct (choose_method _ _ _ _ _ _ _) as [[m d]|] eqn:Hc; [|discriminate].
    injection H as H. subst sr. cbn [s_method] in *.
    unfold choose_method, request_of in Hc. cbn [p_oob p_auth p_io] in Hc.
    destruct (_ || _) in Hc; [injection Hc as Hc _; congruence|].
    destruct (auth_flags (c_bonding ci) (c_sc ci) (c_mitm ci) false) as (_ & _ & Fm & _).
    destruct (c_mitm ci) eqn:Mi; [reflexivity|]. destruct (c_mitm cr) eqn:Mr; [reflexivity|].
    rewrite decide_no_mitm in Hc by assumption. injection Hc as Hc _. congruence.
  Qed.

  Lemma method_nc_sc : forall ci cr ans sr,
    responder_session false cr ans (request_of ci) = Some sr ->
    s_method sr = PM_NUMERIC_COMPARISON -> s_sc sr = true.
  Proof.
    intros ci cr ans sr H Hnc. unfold responder_session in H.
    destruct (choose_method _ _ _ _ _ _ _) as [[m d]|] eqn:Hc; [|discriminate].
    injection H as H. subst sr. cbn [s_method s_sc] in *. subst m.
    unfold choose_method in Hc.
    destruct (_ || _) in Hc; [discriminate|].
    exact (decide_nc_sc _ _ _ _ _ _ _ _ Hc).
  Qed.

  Lemma own_passkey_range : forall e s p,
    env_ok e = true ->
    own_passkey e s (e_typed_i e) = Some p \/ own_passkey e s (e_typed_r e) = Some p ->
    0 <= p < 1000000.
  Proof.
    intros e s p Hok H. unfold env_ok in Hok.
    apply andb_true_iff in Hok. destruct Hok as [Hok Hr].
    apply andb_true_iff in Hok. destruct Hok as [Hg Hi].
    unfold own_passkey in H.
    assert (R : forall q, passkey_in_range (Some q) = true -> 0 <= q < 1000000).
    { intros q Hq. cbn in Hq. apply andb_true_iff in Hq. destruct Hq as [A B].
      apply Z.leb_le in A. apply Z.ltb_lt in B. lia. }
    destruct (s_display s).
    - destruct H as [H|H]; injection H as <-; auto.
    - destruct H as [H|H]; rewrite H in *; auto.
  Qed.

  (* ---- keys are marked authenticated only when a MITM-protected model was actually used *)
  Lemma authenticated_only_if_mitm_model : forall e ci cr i r si sr link ks,
    PAIR e ci cr = Res i r si sr link ->
    r_store i = Some ks \/ r_store r = Some ks ->
    any_auth ks = true ->
    exists s_i s_r, si = Some s_i /\ sr = Some s_r /\
      r_outcome i = Completed /\ r_outcome r = Completed /\
      s_method s_i = s_method s_r /\
      (s_method s_i = PM_PASSKEY \/ s_method s_i = PM_NUMERIC_COMPARISON) /\
      c_mitm ci || c_mitm cr = true /\
      (s_method s_i = PM_NUMERIC_COMPARISON ->
         e_compare_i e = true /\ e_compare_r e = true /\ s_sc s_i = true) /\
      (s_method s_i = PM_PASSKEY -> e_bad_confirm_i e = false -> e_bad_confirm_r e = false ->
         env_ok e = true ->
         exists p, own_passkey e s_i (e_typed_i e) = Some p /\ own_passkey e s_r (e_typed_r e) = Some p).
  Proof.
    intros e ci cr i r si sr link ks H Hst Hauth.
    assert (Hne : PAIR e ci cr <> ResError) by (rewrite H; discriminate).
    pose proof (pair_cases e ci cr Hne) as C. rewrite H in C.
    inversion C as [Ha|sr0 reason Ha|si0 sr0 ans reason Ha N Hresp Hp|si0 sr0 ans a b c d Ha N Hresp Hp];
      subst; cbn [r_store] in Hst; try (destruct Hst; discriminate).
    exists si0, sr0. cbn [r_outcome]. do 4 (split; [reflexivity|]).
    pose proof (ng_method _ _ _ _ _ _ N) as Hmeq. split; [assumption|].
    (* the flag is the same function of the (equal) methods on both sides *)
    assert (Hflag : authenticated_flag e si0 = true).
    { destruct Hst as [Hst|Hst]; injection Hst as Hst; subst ks; apply stored_auth in Hauth.
      - assumption.
      - unfold authenticated_flag, is_method in *. rewrite Hmeq. assumption. }
    rewrite (phase2_split _ _ _ _ _ _ N) in Hp.
    destruct (is_method si0 PM_OOB) eqn:Hoob; [discriminate|].
    unfold is_method in Hoob. apply Z.eqb_neq in Hoob.
    destruct (negotiated_method _ _ _ _ Hresp) as [Ho|Hok]; [congruence|].
    rewrite <- Hmeq in Hok.
    assert (Hpn : s_method si0 = PM_PASSKEY \/ s_method si0 = PM_NUMERIC_COMPARISON).
    { destruct (method_ok_cases _ Hok) as [Hm|[Hm|Hm]]; auto.
      exfalso. unfold authenticated_flag, is_method in Hflag. rewrite Hm in Hflag. discriminate. }
    split; [assumption|].
    split.
    { apply (method_mitm _ _ _ _ Hresp); rewrite <- Hmeq; [|assumption].
      destruct Hpn as [Hm|Hm]; rewrite Hm; discriminate. }
    split.
    - intro Hnc. pose proof (method_nc_sc _ _ _ _ Hresp ltac:(congruence)) as Hsc.
      rewrite (ng_sc_eq _ _ _ _ _ _ N) in Hsc. rewrite Hsc in Hp.
      unfold P2S, phase2_sc, is_method, user_ok, is_method in Hp. rewrite <- Hmeq, Hnc in Hp.
      cbn [Z.eqb PM_NUMERIC_COMPARISON PM_PASSKEY PM_JUST_WORKS orb] in Hp.
      change (PM_NUMERIC_COMPARISON =? PM_PASSKEY) with false in Hp.
      change (PM_NUMERIC_COMPARISON =? PM_JUST_WORKS) with false in Hp.
      change (PM_NUMERIC_COMPARISON =? PM_NUMERIC_COMPARISON) with true in Hp.
      cbn [orb] in Hp.
      destruct (negb (veqb _ _)) in Hp; [discriminate|].
      destruct (e_compare_i e), (e_compare_r e); cbn [andb negb] in Hp; try discriminate. auto.
    - intros Hpk B1 B2 Hok'.
      destruct (s_sc si0) eqn:Hsc.
      + assert (Hm : is_method si0 PM_PASSKEY = true) by (unfold is_method; rewrite Hpk; reflexivity).
        pose proof Hp as Hp'. unfold P2S, phase2_sc in Hp'. rewrite Hm in Hp'.
        destruct (own_passkey e si0 (e_typed_i e)) as [pi|] eqn:Hpi; [|discriminate].
        destruct (own_passkey e sr0 (e_typed_r e)) as [pr|] eqn:Hpr; [|discriminate].
        assert (pi = pr).
        { eapply (sc_passkey_ok e si0 sr0); eauto.
          - apply (own_passkey_range e si0); auto.
          - apply (own_passkey_range e sr0); auto. }
        subst. eauto.
      + destruct (legacy_ok _ _ _ _ _ _ _ B1 B2 Hp) as (tk & T1 & T2 & _).
        unfold legacy_tk, is_method in T1, T2. rewrite <- Hmeq in T2. rewrite Hpk, Z.eqb_refl in T1, T2.
        destruct (own_passkey e si0 (e_typed_i e)) as [pi|] eqn:Hpi; [|discriminate].
        destruct (own_passkey e sr0 (e_typed_r e)) as [pr|] eqn:Hpr; [|discriminate].
        cbn [option_map] in T1, T2. injection T1 as T1. injection T2 as T2.
        assert (pi = pr).
        { apply tk_inj; [apply (own_passkey_range e si0); auto|apply (own_passkey_range e sr0); auto|congruence]. }
        subst. eauto.
  Qed.

  (* ---- one shared key for the link, and on a later connection *)
  Lemma link_key_shared : forall e ci cr i r si sr a b,
    PAIR e ci cr = Res i r si sr (Some (a, b)) ->
    e_bad_confirm_i e = false -> e_bad_confirm_r e = false -> a = b.
  Proof.
    intros e ci cr i r si sr a b H B1 B2.
    assert (Hne : PAIR e ci cr <> ResError) by (rewrite H; discriminate).
    pose proof (pair_cases e ci cr Hne) as C. rewrite H in C.
    inversion C as [Ha|sr0 reason Ha|si0 sr0 ans reason Ha N Hresp Hp|si0 sr0 ans a0 b0 c d Ha N Hresp Hp]; subst.
    rewrite (phase2_split _ _ _ _ _ _ N) in Hp.
    destruct (is_method si0 PM_OOB); [discriminate|].
    destruct (s_sc si0).
    - exact (proj1 (sc_ok _ _ _ _ _ _ _ Hp)).
    - destruct (legacy_ok _ _ _ _ _ _ _ B1 B2 Hp) as (_ & _ & _ & E). exact E.
  Qed.

  Lemma reconnect_same_key : forall e ci cr i r si sr link ki kr,
    PAIR e ci cr = Res i r si sr link ->
    r_store i = Some ki -> r_store r = Some kr ->
    (forall k, central_request V ki = Some k -> peripheral_reply V kr = Some k) /\
    (forall k, central_request V kr = Some k -> peripheral_reply V ki = Some k).
  Proof.
    intros e ci cr i r si sr link ki kr H Hi Hr.
    assert (Hne : PAIR e ci cr <> ResError) by (rewrite H; discriminate).
    pose proof (pair_cases e ci cr Hne) as C. rewrite H in C.
    inversion C as [Ha|sr0 reason Ha|si0 sr0 ans reason Ha N Hresp Hp|si0 sr0 ans a b c d Ha N Hresp Hp];
      subst; cbn [r_store] in Hi, Hr; try discriminate.
    injection Hi as <-. injection Hr as <-.
    rewrite (phase2_split _ _ _ _ _ _ N) in Hp.
    destruct (is_method si0 PM_OOB); [discriminate|].
    pose proof (ng_sc_eq _ _ _ _ _ _ N) as Hsc.
    unfold STORED, stored, central_request, peripheral_reply.
    cbn [ks_ltk ks_ltk_central ks_ltk_peripheral k_value]. rewrite Hsc.
    destruct (s_sc si0) eqn:Hs; cbn [orb].
    - destruct (sc_ok _ _ _ _ _ _ _ Hp) as (_ & E & _). subst d.
      split; intros k Hk; exact Hk.
    - unfold own_kd. rewrite (ng_init_i _ _ _ _ _ _ N), (ng_init_r _ _ _ _ _ _ N).
      rewrite !mem_enc_distributed.
      split; intros k Hk.
      + destruct (has_flag (s_rkd sr0) KD_ENC_KEY); [exact Hk|discriminate].
      + destruct (has_flag (s_ikd si0) KD_ENC_KEY); [exact Hk|discriminate].
  Qed.

  (* which reconnections have a key: always after secure connections; after legacy pairing
     exactly when the peripheral-to-be distributed its LTK *)
  Lemma reconnect_available : forall e ci cr i r s_i s_r link ki kr,
    PAIR e ci cr = Res i r (Some s_i) (Some s_r) link ->
    r_store i = Some ki -> r_store r = Some kr ->
    (central_request V ki <> None <-> s_sc s_i = true \/ has_flag (s_rkd s_r) KD_ENC_KEY = true) /\
    (central_request V kr <> None <-> s_sc s_i = true \/ has_flag (s_ikd s_i) KD_ENC_KEY = true).
  Proof.
    intros e ci cr i r s_i s_r link ki kr H Hi Hr.
    assert (Hne : PAIR e ci cr <> ResError) by (rewrite H; discriminate).
    pose proof (pair_cases e ci cr Hne) as C. rewrite H in C.
    inversion C as [Ha|sr0 reason Ha|si0 sr0 ans reason Ha N Hresp Hp|si0 sr0 ans a b c d Ha N Hresp Hp];
      subst; cbn [r_store] in Hi, Hr; try discriminate.
    injection Hi as <-. injection Hr as <-.
    pose proof (ng_sc_eq _ _ _ _ _ _ N) as Hsc.
    unfold STORED, stored, central_request. cbn [ks_ltk ks_ltk_central k_value]. rewrite Hsc.
    destruct (s_sc s_i) eqn:Hs; cbn [orb].
    - split; split; intros; auto; discriminate.
    - rewrite !mem_enc_distributed.
      destruct (has_flag (s_rkd s_r) KD_ENC_KEY), (has_flag (s_ikd s_i) KD_ENC_KEY);
        split; split; intros X; try discriminate; auto; try (destruct X; discriminate); congruence.
  Qed.

  (* a BR/EDR link key is derived only after secure connections, and then both sides derive the
     same one (fixes/D13d.patch: legacy pairing derived it from each side's own LTK) *)
  Lemma link_key_store_shared : forall e ci cr i r s_i s_r link ki kr,
    PAIR e ci cr = Res i r (Some s_i) (Some s_r) link ->
    r_store i = Some ki -> r_store r = Some kr ->
    (s_sc s_i = false -> ks_link_key ki = None /\ ks_link_key kr = None) /\
    (forall a b, ks_link_key ki = Some a -> ks_link_key kr = Some b -> k_value a = k_value b).
  Proof.
    intros e ci cr i r s_i s_r link ki kr H Hi Hr.
    assert (Hne : PAIR e ci cr <> ResError) by (rewrite H; discriminate).
    pose proof (pair_cases e ci cr Hne) as C. rewrite H in C.
    inversion C as [Ha|sr0 reason Ha|si0 sr0 ans reason Ha N Hresp Hp|si0 sr0 ans a b c d Ha N Hresp Hp];
      subst; cbn [r_store] in Hi, Hr; try discriminate.
    injection Hi as <-. injection Hr as <-.
    rewrite (phase2_split _ _ _ _ _ _ N) in Hp.
    destruct (is_method s_i PM_OOB); [discriminate|].
    pose proof (ng_sc_eq _ _ _ _ _ _ N) as Hsc.
    unfold STORED, stored. cbn [ks_link_key]. rewrite Hsc.
    destruct (s_sc s_i) eqn:Hs.
    - destruct (sc_ok _ _ _ _ _ _ _ Hp) as (_ & E & _). subst d.
      split; [discriminate|]. intros x y Hx Hy.
      destruct (has_flag (own_kd s_i) KD_LINK_KEY && true && negb false); [|discriminate].
      destruct (has_flag (own_kd s_r) KD_LINK_KEY && true && negb false); [|discriminate].
      injection Hx as <-. injection Hy as <-. reflexivity.
    - rewrite !andb_false_r. cbn [andb]. split; [auto|]. intros x y Hx. discriminate.
  Qed.

  (* ---- a failed check never yields stored keys *)
  Definition nothing_stored (i r : side_result V) (reason : Z) : Prop :=
    r_outcome i = Failed reason /\ r_outcome r = Failed reason /\ r_store i = None /\ r_store r = None.

  Lemma phase2_fail_stores_nothing : forall e ci cr i r s_i s_r link ans reason,
    PAIR e ci cr = Res i r (Some s_i) (Some s_r) link ->
    negotiated_ok false ci cr ans s_i s_r ->
    P2 e s_i s_r = P2Fail reason -> nothing_stored i r reason.
  Proof.
    intros e ci cr i r s_i s_r link ans reason H N Hf.
    assert (Hne : PAIR e ci cr <> ResError) by (rewrite H; discriminate).
    pose proof (pair_cases e ci cr Hne) as C. rewrite H in C.
    inversion C as [Ha|sr0 reason0 Ha|si0 sr0 ans0 reason0 Ha N0 Hresp Hp|si0 sr0 ans0 a b c d Ha N0 Hresp Hp]; subst.
    - rewrite Hf in Hp. injection Hp as <-. repeat split.
    - rewrite Hf in Hp. discriminate.
  Qed.

  Lemma pair_negotiated : forall e ci cr i r s_i s_r link,
    PAIR e ci cr = Res i r (Some s_i) (Some s_r) link -> exists ans, negotiated_ok false ci cr ans s_i s_r.
  Proof.
    intros e ci cr i r s_i s_r link H.
    assert (Hne : PAIR e ci cr <> ResError) by (rewrite H; discriminate).
    pose proof (pair_cases e ci cr Hne) as C. rewrite H in C.
    inversion C; subst; eauto.
  Qed.

  (* wrong passkey (the two sides work with different passkeys), nothing altered in transit *)
  Lemma wrong_passkey_stores_nothing : forall e ci cr i r s_i s_r link pi pr,
    PAIR e ci cr = Res i r (Some s_i) (Some s_r) link ->
    s_method s_i = PM_PASSKEY ->
    e_bad_confirm_i e = false -> e_bad_confirm_r e = false -> env_ok e = true ->
    own_passkey e s_i (e_typed_i e) = Some pi -> own_passkey e s_r (e_typed_r e) = Some pr ->
    pi <> pr ->
    nothing_stored i r ERR_CONFIRM_VALUE_FAILED.
  Proof.
    intros e ci cr i r s_i s_r link pi pr H Hm B1 B2 Hok Hpi Hpr Hneq.
    destruct (pair_negotiated _ _ _ _ _ _ _ _ H) as (ans & N).
    apply (phase2_fail_stores_nothing _ _ _ _ _ _ _ _ _ _ H N).
    rewrite (phase2_split _ _ _ _ _ _ N).
    assert (Hoob : is_method s_i PM_OOB = false) by (unfold is_method; rewrite Hm; reflexivity).
    rewrite Hoob.
    assert (Ri : 0 <= pi < 1000000) by (apply (own_passkey_range e s_i); auto).
    assert (Rr : 0 <= pr < 1000000) by (apply (own_passkey_range e s_r); auto).
    destruct (s_sc s_i).
    - unfold P2S, phase2_sc, is_method. rewrite Hm, Z.eqb_refl, Hpi, Hpr.
      match goal with |- context [passkey_rounds ?v ?q ?f ?t ?x ?y ?ee ?p1 ?p2 ?ka ?kb ?k ?n] =>
        destruct (passkey_rounds v q f t x y ee p1 p2 ka kb k n) eqn:Hr end; [|reflexivity].
      exfalso. apply Hneq. apply passkey_bits_inj; auto.
      intros k Hk. exact (rounds_bits _ _ _ _ _ _ _ B1 B2 Hr k Hk).
    - unfold P2L, phase2_legacy, legacy_tk, is_method.
      rewrite <- (ng_method _ _ _ _ _ _ N), Hm, Z.eqb_refl, Hpi, Hpr. cbn [option_map].
      rewrite B1, B2, !xmit_false.
      destruct (veqb (c1 (tk_of_passkey pi) (n_rand ni 0%nat)) (c1 (tk_of_passkey pr) (n_rand ni 0%nat))) eqn:E;
        [|reflexivity].
      exfalso. apply Hneq. apply veqb_spec in E. apply c1_inj in E. apply tk_inj; auto.
  Qed.

  (* a confirm value or DHKey check altered in transit, everything else honest *)
  Definition same_passkeys (e : env) (s_i s_r : session) : Prop :=
    s_method s_i = PM_PASSKEY ->
    exists p, own_passkey e s_i (e_typed_i e) = Some p /\ own_passkey e s_r (e_typed_r e) = Some p.

  Definition relevant_tamper (e : env) (s : session) : bool :=
    if s_sc s
    then (if is_method s PM_PASSKEY then e_bad_confirm_i e else false)
         || e_bad_confirm_r e || e_bad_dhkey_i e || e_bad_dhkey_r e
    else e_bad_confirm_i e || e_bad_confirm_r e.

  Lemma tampered_check_stores_nothing : forall e ci cr i r s_i s_r link,
    PAIR e ci cr = Res i r (Some s_i) (Some s_r) link ->
    same_passkeys e s_i s_r ->
    relevant_tamper e s_i = true ->
    exists reason, nothing_stored i r reason.
  Proof.
    intros e ci cr i r s_i s_r link H Hsame Ht.
    destruct (pair_negotiated _ _ _ _ _ _ _ _ H) as (ans & N).
    assert (Hne : PAIR e ci cr <> ResError) by (rewrite H; discriminate).
    pose proof (pair_cases e ci cr Hne) as C. rewrite H in C.
    inversion C as [Ha|sr0 reason0 Ha|si0 sr0 ans0 reason0 Ha N0 Hresp Hp|si0 sr0 ans0 a b c d Ha N0 Hresp Hp]; subst.
    - exists reason0. repeat split.
    - exfalso. rewrite (phase2_split _ _ _ _ _ _ N) in Hp.
      destruct (is_method s_i PM_OOB) eqn:Hoob; [discriminate|].
      unfold relevant_tamper in Ht. unfold same_passkeys in Hsame.
      destruct (s_sc s_i) eqn:Hsc.
      + unfold P2S, phase2_sc in Hp.
        destruct (is_method s_i PM_PASSKEY) eqn:Hm.
        * unfold is_method in Hm. apply Z.eqb_eq in Hm. destruct (Hsame Hm) as (p & P1 & P2').
          rewrite P1, P2' in Hp.
          destruct (e_bad_confirm_i e || e_bad_confirm_r e) eqn:Hc.
          -- fold ROUNDS in Hp. rewrite (rounds_tampered _ _ _ _ _ _ Hc) in Hp. discriminate.
          -- destruct (negb _) in Hp; [discriminate|]. fold DHK in Hp.
             cbn [orb] in Ht.
             rewrite (dhk_tampered _ _ _ _ Ht) in Hp. discriminate.
        * destruct (is_method s_i PM_JUST_WORKS || is_method s_i PM_NUMERIC_COMPARISON); [|discriminate].
          cbn [orb] in Ht.
          destruct (e_bad_confirm_r e); cbn [xmit] in Hp.
          -- rewrite (proj2 (veqb_tamper _)) in Hp. discriminate.
          -- rewrite veqb_refl in Hp. cbn [negb] in Hp.
             destruct (negb _) in Hp; [discriminate|]. fold DHK in Hp. cbn [orb] in Ht.
             rewrite (dhk_tampered _ _ _ _ Ht) in Hp. discriminate.
      + assert (exists tk, legacy_tk V zero tk_of_passkey e s_i (e_typed_i e) = Some tk /\
                           legacy_tk V zero tk_of_passkey e s_r (e_typed_r e) = Some tk) as (tk & T1 & T2).
        { unfold legacy_tk, is_method. rewrite <- (ng_method _ _ _ _ _ _ N).
          destruct (Z.eqb_spec (s_method s_i) PM_PASSKEY) as [Hm|Hm].
          - destruct (Hsame Hm) as (p & P1 & P2'). rewrite P1, P2'. cbn [option_map]. eauto.
          - eauto. }
        rewrite (legacy_same_tk_tampered _ _ _ _ T1 T2 Ht) in Hp. discriminate.
  Qed.

  (* the user refuses the confirmation / says the numbers differ (secure connections) *)
  Lemma user_refusal_stores_nothing : forall e ci cr i r s_i s_r link,
    PAIR e ci cr = Res i r (Some s_i) (Some s_r) link ->
    s_sc s_i = true ->
    (s_method s_i = PM_JUST_WORKS /\ e_confirm_i e && e_confirm_r e = false) \/
    (s_method s_i = PM_NUMERIC_COMPARISON /\ e_compare_i e && e_compare_r e = false) ->
    nothing_stored i r ERR_CONFIRM_VALUE_FAILED.
  Proof.
    intros e ci cr i r s_i s_r link H Hsc Hu.
    destruct (pair_negotiated _ _ _ _ _ _ _ _ H) as (ans & N).
    apply (phase2_fail_stores_nothing _ _ _ _ _ _ _ _ _ _ H N).
    rewrite (phase2_split _ _ _ _ _ _ N), Hsc.
    unfold P2S, phase2_sc, user_ok, is_method. rewrite <- (ng_method _ _ _ _ _ _ N).
    destruct Hu as [[Hm Hu]|[Hm Hu]]; rewrite Hm.
    - change (PM_JUST_WORKS =? PM_OOB) with false. change (PM_JUST_WORKS =? PM_PASSKEY) with false.
      change (PM_JUST_WORKS =? PM_JUST_WORKS) with true. cbn [orb].
      destruct (negb (veqb _ _)); [reflexivity|]. rewrite Hu. reflexivity.
    - change (PM_NUMERIC_COMPARISON =? PM_OOB) with false.
      change (PM_NUMERIC_COMPARISON =? PM_PASSKEY) with false.
      change (PM_NUMERIC_COMPARISON =? PM_JUST_WORKS) with false.
      change (PM_NUMERIC_COMPARISON =? PM_NUMERIC_COMPARISON) with true. cbn [orb].
      destruct (negb (veqb _ _)); [reflexivity|]. rewrite Hu. reflexivity.
  Qed.

  (* rejection by the responder's user and an answer outside the request *)
  Lemma reject_stores_nothing : forall e ci cr,
    e_accept e = false ->
    PAIR e ci cr = failed_both V ERR_PAIRING_NOT_SUPPORTED None None.
  Proof. intros e ci cr H. unfold PAIR, pair. rewrite H. reflexivity. Qed.
End ProtocolProofs.

(* ================================================================== 5. the hypotheses are satisfiable *)
(* The free term algebra of Model/Pairing.v (the instance the harness executes) satisfies every
   hypothesis of the section above, so the lemmas are not vacuous and they hold of [run]. *)
Lemma term_eqb_refl : forall a, term_eqb a a = true.
Proof.
  induction a; simpl;
    rewrite ?Z.eqb_refl, ?eqb_reflx, ?Nat.eqb_refl, ?IHa, ?IHa1, ?IHa2, ?IHa3, ?IHa4; reflexivity.
Qed.

Lemma term_eqb_eq : forall a b, term_eqb a b = true -> a = b.
Proof.
  induction a; destruct b; simpl; intro H; try discriminate;
    repeat match goal with
    | H : _ && _ = true |- _ => apply andb_true_iff in H; destruct H
    | H : (_ =? _) = true |- _ => apply Z.eqb_eq in H
    | H : Bool.eqb _ _ = true |- _ => apply eqb_prop in H
    | H : Nat.eqb _ _ = true |- _ => apply Nat.eqb_eq in H
    | IH : forall b, term_eqb ?a b = true -> ?a = b, H : term_eqb ?a _ = true |- _ => apply IH in H
    end; subst; reflexivity.
Qed.

Lemma term_eqb_spec : forall a b, term_eqb a b = true <-> a = b.
Proof. intros a b. split; [apply term_eqb_eq|intros ->; apply term_eqb_refl]. Qed.

Lemma term_tamper_neq : forall v, TTamper v <> v.
Proof. induction v; intro H; try discriminate. injection H as H. auto. Qed.

Lemma term_tk_inj : forall p q, 0 <= p < 1000000 -> 0 <= q < 1000000 -> t_tk p = t_tk q -> p = q.
Proof.
  intros p q _ _ H. unfold t_tk in H.
  destruct (Z.eqb_spec p 0), (Z.eqb_spec q 0); try discriminate; [congruence|].
  injection H as H. assumption.
Qed.

Lemma instance_hypotheses :
  (forall a b, term_eqb a b = true <-> a = b) /\
  (forall v, TTamper v <> v) /\
  (forall k k' r, TC1 k r = TC1 k' r -> k = k') /\
  (forall p q, 0 <= p < 1000000 -> 0 <= q < 1000000 -> t_tk p = t_tk q -> p = q) /\
  (forall u v x z z', TF4 u v x z = TF4 u v x z' -> z = z') /\
  t_dh (n_sk (t_nonces true)) (TPub (n_sk (t_nonces false))) =
  t_dh (n_sk (t_nonces false)) (TPub (n_sk (t_nonces true))).
Proof.
  split; [exact term_eqb_spec|]. split; [exact term_tamper_neq|].
  split; [intros k k' r H; injection H; auto|]. split; [exact term_tk_inj|].
  split; [intros u v x z z' H; injection H; auto|]. reflexivity.
Qed.

Lemma term_toolbox_ok : toolbox_ok term_toolbox.
Proof. exact instance_hypotheses. Qed.

(* ================================================================== 5b. the theorems over a toolbox *)
Definition nothing_stored_tb {V : Type} (i r : side_result V) (reason : Z) : Prop :=
  r_outcome i = Failed reason /\ r_outcome r = Failed reason /\ r_store i = None /\ r_store r = None.

Section Toolbox.
  Variable T : toolbox.
  Hypothesis Tok : toolbox_ok T.

  Lemma tb_both_or_neither : forall e ci cr i r si sr link,
    pair_with T e ci cr = Res i r si sr link ->
    (r_outcome i = Completed /\ r_outcome r = Completed /\ r_store i <> None /\ r_store r <> None)
    \/ (exists reason, nothing_stored_tb i r reason).
  Proof. intros e ci cr i r si sr link H. exact (both_or_neither _ _ _ _ _ _ _ _ _ _ _ _ _ _ _ _ _ _ _ _ _ _ _ _ H). Qed.

  Lemma tb_never_hangs : forall e ci cr i r si sr link,
    pair_with T e ci cr = Res i r si sr link -> r_outcome i <> Hung /\ r_outcome r <> Hung.
  Proof. intros e ci cr i r si sr link H. exact (never_hangs _ _ _ _ _ _ _ _ _ _ _ _ _ _ _ _ _ _ _ _ _ _ _ _ H). Qed.

  Lemma tb_authenticated_only_if_mitm_model : forall e ci cr i r si sr link ks,
    pair_with T e ci cr = Res i r si sr link ->
    r_store i = Some ks \/ r_store r = Some ks ->
    any_auth ks = true ->
    exists s_i s_r, si = Some s_i /\ sr = Some s_r /\
      r_outcome i = Completed /\ r_outcome r = Completed /\
      s_method s_i = s_method s_r /\
      (s_method s_i = PM_PASSKEY \/ s_method s_i = PM_NUMERIC_COMPARISON) /\
      c_mitm ci || c_mitm cr = true /\
      (s_method s_i = PM_NUMERIC_COMPARISON ->
         e_compare_i e = true /\ e_compare_r e = true /\ s_sc s_i = true) /\
      (s_method s_i = PM_PASSKEY -> e_bad_confirm_i e = false -> e_bad_confirm_r e = false ->
         env_ok e = true ->
         exists p, own_passkey e s_i (e_typed_i e) = Some p /\ own_passkey e s_r (e_typed_r e) = Some p).
  Proof.
    destruct Tok as (H1 & H2 & H3 & H4 & H5 & H6). intros e ci cr i r si sr link ks.
    unfold pair_with. apply authenticated_only_if_mitm_model; assumption.
  Qed.

  Lemma tb_link_key_shared : forall e ci cr i r si sr a b,
    pair_with T e ci cr = Res i r si sr (Some (a, b)) ->
    e_bad_confirm_i e = false -> e_bad_confirm_r e = false -> a = b.
  Proof.
    destruct Tok as (H1 & H2 & H3 & H4 & H5 & H6). intros e ci cr i r si sr a b.
    unfold pair_with. apply link_key_shared; assumption.
  Qed.

  Lemma tb_reconnect_same_key : forall e ci cr i r si sr link ki kr,
    pair_with T e ci cr = Res i r si sr link ->
    r_store i = Some ki -> r_store r = Some kr ->
    (forall k, central_request _ ki = Some k -> peripheral_reply _ kr = Some k) /\
    (forall k, central_request _ kr = Some k -> peripheral_reply _ ki = Some k).
  Proof.
    destruct Tok as (H1 & H2 & H3 & H4 & H5 & H6). intros e ci cr i r si sr link ki kr.
    unfold pair_with. apply reconnect_same_key; assumption.
  Qed.

  Lemma tb_reconnect_available : forall e ci cr i r s_i s_r link ki kr,
    pair_with T e ci cr = Res i r (Some s_i) (Some s_r) link ->
    r_store i = Some ki -> r_store r = Some kr ->
    (central_request _ ki <> None <-> s_sc s_i = true \/ has_flag (s_rkd s_r) KD_ENC_KEY = true) /\
    (central_request _ kr <> None <-> s_sc s_i = true \/ has_flag (s_ikd s_i) KD_ENC_KEY = true).
  Proof.
    intros e ci cr i r s_i s_r link ki kr. unfold pair_with. apply reconnect_available.
  Qed.

  Lemma tb_link_key_store_shared : forall e ci cr i r s_i s_r link ki kr,
    pair_with T e ci cr = Res i r (Some s_i) (Some s_r) link ->
    r_store i = Some ki -> r_store r = Some kr ->
    (s_sc s_i = false -> ks_link_key ki = None /\ ks_link_key kr = None) /\
    (forall a b, ks_link_key ki = Some a -> ks_link_key kr = Some b -> k_value a = k_value b).
  Proof.
    destruct Tok as (H1 & H2 & H3 & H4 & H5 & H6). intros e ci cr i r s_i s_r link ki kr.
    unfold pair_with. apply link_key_store_shared; assumption.
  Qed.

  Lemma tb_wrong_passkey_stores_nothing : forall e ci cr i r s_i s_r link pi pr,
    pair_with T e ci cr = Res i r (Some s_i) (Some s_r) link ->
    s_method s_i = PM_PASSKEY ->
    e_bad_confirm_i e = false -> e_bad_confirm_r e = false -> env_ok e = true ->
    own_passkey e s_i (e_typed_i e) = Some pi -> own_passkey e s_r (e_typed_r e) = Some pr ->
    pi <> pr ->
    nothing_stored_tb i r ERR_CONFIRM_VALUE_FAILED.
  Proof.
    destruct Tok as (H1 & H2 & H3 & H4 & H5 & H6). intros e ci cr i r s_i s_r link pi pr.
    unfold pair_with. apply wrong_passkey_stores_nothing; assumption.
  Qed.

  Lemma tb_tampered_check_stores_nothing : forall e ci cr i r s_i s_r link,
    pair_with T e ci cr = Res i r (Some s_i) (Some s_r) link ->
    same_passkeys e s_i s_r ->
    relevant_tamper e s_i = true ->
    exists reason, nothing_stored_tb i r reason.
  Proof.
    destruct Tok as (H1 & H2 & H3 & H4 & H5 & H6). intros e ci cr i r s_i s_r link.
    unfold pair_with. apply tampered_check_stores_nothing; assumption.
  Qed.

  Lemma tb_user_refusal_stores_nothing : forall e ci cr i r s_i s_r link,
    pair_with T e ci cr = Res i r (Some s_i) (Some s_r) link ->
    s_sc s_i = true ->
    (s_method s_i = PM_JUST_WORKS /\ e_confirm_i e && e_confirm_r e = false) \/
    (s_method s_i = PM_NUMERIC_COMPARISON /\ e_compare_i e && e_compare_r e = false) ->
    nothing_stored_tb i r ERR_CONFIRM_VALUE_FAILED.
  Proof.
    intros e ci cr i r s_i s_r link. unfold pair_with. apply user_refusal_stores_nothing.
  Qed.

  Lemma tb_reject_stores_nothing : forall e ci cr,
    e_accept e = false ->
    pair_with T e ci cr = failed_both _ ERR_PAIRING_NOT_SUPPORTED None None.
  Proof. intros e ci cr. unfold pair_with. apply reject_stores_nothing. Qed.
End Toolbox.

(* the property, end to end, for the modelled flows *)
Lemma pairing_end_to_end : forall T, toolbox_ok T -> forall e ci cr i r si sr link,
  pair_with T e ci cr = Res i r si sr link ->
  (r_outcome i = Completed /\ r_outcome r = Completed /\
   exists ki kr, r_store i = Some ki /\ r_store r = Some kr /\
     (forall k, central_request _ ki = Some k -> peripheral_reply _ kr = Some k) /\
     (forall k, central_request _ kr = Some k -> peripheral_reply _ ki = Some k) /\
     (e_bad_confirm_i e = false -> e_bad_confirm_r e = false ->
      forall a b, link = Some (a, b) -> a = b))
  \/ (exists reason, nothing_stored_tb i r reason).
Proof.
  intros T Tok e ci cr i r si sr link H.
  destruct (tb_both_or_neither T e ci cr i r si sr link H) as [(A & B & C & D)|F]; [left|right; exact F].
  split; [exact A|]. split; [exact B|].
  destruct (r_store i) as [ki|] eqn:Ei; [|congruence].
  destruct (r_store r) as [kr|] eqn:Er; [|congruence].
  exists ki, kr. split; [reflexivity|]. split; [reflexivity|].
  destruct (tb_reconnect_same_key T Tok e ci cr i r si sr link ki kr H Ei Er) as (R1 & R2).
  split; [exact R1|]. split; [exact R2|].
  intros B1 B2 a b Hl. subst link.
  exact (tb_link_key_shared T Tok e ci cr i r si sr a b H B1 B2).
Qed.

(* ================================================================== 6. the code before the fixes *)
(* D13a: with the original bookkeeping of Session.on_pairing (stored_orig) the stores of a
   legacy pairing in which both sides distribute their LTK give different keys on a later
   connection, in the same roles and in swapped roles. *)
Definition legacy_session (initiator : bool) : session :=
  mkSession initiator false true false PM_JUST_WORKS false 1 1
            [CMD_ENCRYPTION_INFORMATION; CMD_MASTER_IDENTIFICATION].

Definition orig_store (initiator : bool) : keys term :=
  stored_orig term TLk false (legacy_session initiator) (TLtk initiator)
              (distributed false false 1) (TLtk (negb initiator)) TZero.

Lemma reconnect_refuted_orig :
  central_request term (orig_store true) = Some (TLtk false) /\
  peripheral_reply term (orig_store false) = Some (TLtk true) /\
  central_request term (orig_store false) = Some (TLtk false) /\
  peripheral_reply term (orig_store true) = Some (TLtk true) /\
  TLtk false <> TLtk true.
Proof. vm_compute. repeat split; discriminate. Qed.

(* ... and a key that was never exchanged is handed to the controller *)
Lemma unexchanged_key_refuted_orig :
  central_request term
    (stored_orig term TLk false (mkSession true false true false PM_JUST_WORKS false 1 0 [])
                 (TLtk true) (distributed false false 0) (TLtk false) TZero) = Some TZero.
Proof. vm_compute. reflexivity. Qed.

(* D13b: cross-transport key derivation.  After the fix the flag is the link key's. *)
Lemma ctkd_authenticated_inherits : forall e s,
  s_method s = PM_CTKD_OVER_CLASSIC -> authenticated_flag e s = e_lk_auth e.
Proof. intros e s H. unfold authenticated_flag, is_method. rewrite H. reflexivity. Qed.

Lemma ctkd_store_authenticated : forall (V : Type) (lk : V -> V) e s own cmds peer,
  s_method s = PM_CTKD_OVER_CLASSIC ->
  any_auth (stored V lk e true s own cmds peer) = true -> e_lk_auth e = true.
Proof.
  intros V lk e s own cmds peer Hm H. rewrite <- (ctkd_authenticated_inherits e s Hm).
  unfold stored, any_auth in H.
  cbn [ks_ltk ks_ltk_central ks_ltk_peripheral ks_irk ks_csrk ks_link_key] in H.
  destruct (authenticated_flag e s); [reflexivity|]. exfalso.
  destruct (s_sc s), (mem CMD_ENCRYPTION_INFORMATION cmds), (has_flag (own_kd s) KD_ENC_KEY),
    (mem CMD_IDENTITY_INFORMATION cmds), (mem CMD_SIGNING_INFORMATION cmds), (has_flag (own_kd s) KD_LINK_KEY);
    cbn in H; discriminate.
Qed.

Lemma ctkd_flow_store_authenticated : forall (V : Type) e s lk ltk cmds ks,
  s_method s = PM_CTKD_OVER_CLASSIC ->
  ctkd_store V e s lk ltk cmds = Some ks -> any_auth ks = true -> e_lk_auth e = true.
Proof.
  intros V e s lk ltk cmds ks Hm H Ha. rewrite <- (ctkd_authenticated_inherits e s Hm).
  unfold ctkd_store in H. destruct (has_flag (own_kd s) KD_ENC_KEY); [|discriminate].
  injection H as <-. unfold any_auth in Ha.
  cbn [ks_ltk ks_ltk_central ks_ltk_peripheral ks_irk ks_csrk ks_link_key] in Ha.
  destruct (authenticated_flag e s); [reflexivity|]. exfalso.
  destruct (mem CMD_IDENTITY_INFORMATION cmds), (mem CMD_SIGNING_INFORMATION cmds); cbn in Ha; discriminate.
Qed.

(* D13f (known): a side whose own negotiated mask lacks ENC_KEY reports and stores nothing *)
Lemma ctkd_without_enc_key_refuted : forall (V : Type) e s lk ltk cmds,
  has_flag (own_kd s) KD_ENC_KEY = false -> ctkd_store V e s lk ltk cmds = None.
Proof. intros. unfold ctkd_store. rewrite H. reflexivity. Qed.

Lemma ctkd_with_enc_key_stores : forall (V : Type) e s lk ltk cmds,
  has_flag (own_kd s) KD_ENC_KEY = true -> ctkd_store V e s lk ltk cmds <> None.
Proof. intros. unfold ctkd_store. rewrite H. discriminate. Qed.

Lemma ctkd_authenticated_refuted_orig :
  let s := mkSession true true true false PM_CTKD_OVER_CLASSIC false 3 3 [] in
  ks_ltk (stored_orig term TLk true s (TLtk true) [] TZero TZero) = Some (mkKey (TLtk true) true false).
Proof. vm_compute. reflexivity. Qed.
