(* C09 determinacy (see ChanMgrDet.v): the remaining handlers, the step and the theorems *)
From Coq Require Import ZArith List Bool Lia.
From BV Require Import Gen.C09Tables Model.ChanMgr Proofs.ChanMgrLib Proofs.ChanMgr Proofs.ChanMgrDet Proofs.ChanMgrDetRecv.
Import ListNotations.
Open Scope Z_scope.

Ltac go := cbv zeta; cbn [wres_opt wpending fst snd]; ifs; try reflexivity; leaf; fin2.

Lemma loc_recv_le_rsp a m id dcid credits result : Inv m ->
  recv_le_rsp (local a m) a id dcid credits result =
  (local a (fst (recv_le_rsp m a id dcid credits result)), snd (recv_le_rsp m a id dcid credits result)).
Proof.
  intros I. unfold recv_le_rsp. autorewrite with loc.
  destruct (tget a id (m_reqs m)) as [scid|] eqn:R; [|reflexivity]. cbv zeta. norm.
  destruct (tget a scid (m_chs m)) as [u|] eqn:T; [|go].
  destruct (chs_pt _ I _ _ _ T) as (c & Hu & Hc & _). subst a. norm.
  prep I Hu. all: try solve [go].
  all: cbn [le_register]; destruct (result =? R_OK); norm;
    cbn [c_conn c_dcid c_scid set_cw set_dw set_st set_out set_dcid set_ref set_live]; go.
Qed.

Ltac setters := cbn [c_conn c_dcid c_scid set_cw set_dw set_st set_out set_dcid set_ref set_live].

Lemma loc_enh_each a i ok credits : forall us m dcids,
  (forall u, In u us -> exists c, hget m u = Some c /\ c_conn c = a) ->
  enh_each (local a m) a i us dcids ok credits = local a (enh_each m a i us dcids ok credits).
Proof.
  induction us as [|u us' IH]; intros m dcids H; [reflexivity|].
  cbn [enh_each]. cbv zeta.
  destruct (H u (or_introl eq_refl)) as (c & Hu & Hc). subst a.
  match goal with |- enh_each ?L _ _ _ _ _ _ = local _ (enh_each ?R _ _ _ _ _ _) =>
    assert (E : L = local (c_conn c) R) end.
  { unfold pend_set. norm. destruct (tget (c_conn c) i (m_pend m)) as [[w0 us0]|]; destruct dcids; destruct ok;
      cbn [le_register chs_unregister]; norm; setters; mleaf; fin2. }
  rewrite E. apply IH. intros u' Hin. destruct (H u' (or_intror Hin)) as (c' & Hu' & Hc').
  unfold pend_set. destruct (tget (c_conn c) i (m_pend m)) as [[w0 us0]|]; destruct dcids; destruct ok;
    cbn [le_register chs_unregister]; autorewrite with acc; rewrite ?Z.eqb_refl, ?Hu; cbn [option_map];
    autorewrite with acc.
  all: destruct (Z.eqb_spec u' u); [subst u'; rewrite Hu; cbn [option_map]; eexists; split; [reflexivity|reflexivity]
                                   |rewrite Hu'; eauto].
Qed.

Lemma loc_enh_finish a m id w us dcids ok credits o :
  (forall u, In u us -> exists c, hget m u = Some c /\ c_conn c = a) ->
  enh_finish (local a m) a id w us dcids ok credits o = local a (enh_finish m a id w us dcids ok credits o).
Proof.
  intros H. unfold enh_finish. cbv zeta. rewrite loc_enh_each by auto.
  set (M := enh_each m a id us dcids ok credits). mleaf; fin2.
  destruct (wget M w); cbn [option_map]; autorewrite with loc; reflexivity.
Qed.

Lemma pend_members a m id w us : Inv m -> tget a id (m_pend m) = Some (w, us) ->
  forall u, In u us -> exists c, hget m u = Some c /\ c_conn c = a.
Proof.
  intros I T u Hin. destruct (pend_ok _ I _ _ _ _ T) as (_ & _ & H).
  destruct (H u Hin) as (c & Hu & _ & Hc & _). eauto.
Qed.

Lemma loc_recv_enh_rsp a m id credits result dcids : Inv m ->
  recv_enh_rsp (local a m) a id credits result dcids =
  (local a (fst (recv_enh_rsp m a id credits result dcids)), snd (recv_enh_rsp m a id credits result dcids)).
Proof.
  intros I. unfold recv_enh_rsp. autorewrite with loc.
  destruct (tget a id (m_pend m)) as [[w us]|] eqn:T; [|reflexivity]. cbv zeta. cbn [fst snd].
  rewrite loc_enh_finish by (eapply pend_members; eauto). reflexivity.
Qed.

Lemma loc_cancel m w x : Inv m -> wget m w = Some x ->
  do_cancel (local (w_conn x) m) w = local (w_conn x) (do_cancel m w).
Proof.
  intros I Hw. unfold do_cancel. rewrite (wget_m_eq m w), (wget_m_eq (local (w_conn x) m) w). norm.
  destruct (negb (w_out x =? O_PENDING)) eqn:P; [reflexivity|].
  assert (Hp : w_out x = O_PENDING) by (apply negb_false_iff in P; now apply Z.eqb_eq in P).
  pose proof (w_own _ I _ _ Hw Hp) as O.
  destruct (w_kind x) eqn:K.
  - destruct O as (c & Hu & Hcw).
    destruct (ch_cw _ I _ _ _ Hu Hcw) as (_ & _ & x' & Hw' & _ & _ & Hxc & _).
    assert (x' = x) by congruence. subst x'. rewrite Hxc. norm. rewrite Hcw. cbn [is_uid]. rewrite Z.eqb_refl.
    destruct (c_kind c); mleaf; fin2.
  - destruct O as (us & T). norm. rewrite T. rewrite Z.eqb_refl.
    apply loc_enh_finish. eapply pend_members; eauto.
  - destruct O as (c & Hu & Hdw).
    destruct (ch_dw _ I _ _ _ Hu Hdw) as (_ & _ & x' & Hw' & _ & _ & Hxc & _).
    assert (x' = x) by congruence. subst x'. rewrite Hxc. norm. rewrite Hdw. cbn [is_uid]. rewrite Z.eqb_refl.
    mleaf; fin2.
Qed.

(* ------------------------------------------------------------------ link loss *)
Lemma flat_map_from_map {A A' B} (f : Z -> A' -> list B) (g : A -> A') i l :
  flat_map_from f i (map g l) = flat_map_from (fun u c => f u (g c)) i l.
Proof. revert i. induction l as [|x l IH]; intros i; cbn; [auto|]. now rewrite IH. Qed.

Lemma flat_map_from_ext {A B} (f f' : Z -> A -> list B) i l :
  (forall n x, nth_error l n = Some x -> f (i + Z.of_nat n) x = f' (i + Z.of_nat n) x) ->
  flat_map_from f i l = flat_map_from f' i l.
Proof.
  revert i. induction l as [|x l IH]; intros i H; cbn; [auto|].
  rewrite (IH (i + 1)).
  - f_equal. specialize (H O x eq_refl). now rewrite Z.add_0_r in H.
  - intros n y Hn. specialize (H (S n) y Hn). replace (i + 1 + Z.of_nat n) with (i + Z.of_nat (S n)) by lia. auto.
Qed.

Lemma hget_nth m n c : nth_error (m_heap m) n = Some c -> hget m (Z.of_nat n) = Some c.
Proof. intros H. unfold hget. destruct (Z.ltb_spec (Z.of_nat n) 0); [lia|]. now rewrite Nat2Z.id. Qed.

Lemma down_us_conn a m u : Inv m ->
  In u (map snd (tconn a (m_chs m)) ++ map snd (tconn a (m_le m))) ->
  exists c, hget m u = Some c /\ c_conn c = a.
Proof.
  intros I Hin. apply in_app_or in Hin as [Hin|Hin]; apply in_map_iff in Hin as ([[h k] v] & Hv & Hin);
    cbn in Hv; subst v; apply filter_In in Hin as (Hin & Hc); unfold conn_is in Hc; cbn in Hc;
    apply Z.eqb_eq in Hc; subst h.
  - assert (T : tget a k (m_chs m) = Some u) by (apply In_tget; [apply (nd_chs _ I)|auto]).
    destruct (chs_pt _ I _ _ _ T) as (c & Hu & Hc & _). eauto.
  - assert (T : tget a k (m_le m) = Some u) by (apply In_tget; [apply (nd_le _ I)|auto]).
    destruct (le_pt _ I _ _ _ T) as (c & Hu & Hc & _). eauto.
Qed.

Lemma down_chan_keep a us u c : down_chan a us u (keep_c a c) = keep_c a (down_chan a us u c).
Proof.
  unfold keep_c at 1. destruct (Z.eqb_spec (c_conn c) a) as [E|E].
  - rewrite keep_c_on; [reflexivity|]. unfold down_chan, aborted.
    destruct (c_kind c); rewrite ?E, ?Z.eqb_refl; destruct (memz u us); cbn;
      repeat match goal with |- context [if ?b then _ else _] => destruct b end; cbn; auto.
  - rewrite keep_c_off.
    + unfold down_chan, aborted, blank_c. cbn. destruct (Z.eqb_spec (a - 1) a); [lia|].
      destruct (memz u us); reflexivity.
    + unfold down_chan, aborted. destruct (Z.eqb_spec (c_conn c) a); [contradiction|].
      destruct (c_kind c); destruct (memz u us); cbn;
        repeat match goal with |- context [if ?b then _ else _] => destruct b end; cbn; auto.
Qed.

Lemma down_cancels_local a m us : Inv m ->
  us = map snd (tconn a (m_chs m)) ++ map snd (tconn a (m_le m)) ->
  down_cancels (local a m) a us = down_cancels m a us.
Proof.
  intros I Hus. unfold down_cancels. autorewrite with loc. rewrite tconn_idem. f_equal.
  unfold local. cbn [m_heap]. rewrite flat_map_from_map. apply flat_map_from_ext.
  intros n c Hn. cbn. apply hget_nth in Hn. unfold keep_c. destruct (Z.eqb_spec (c_conn c) a) as [E|E].
  { destruct (c_kind c); [reflexivity|]. now rewrite ?E, ?Z.eqb_refl. }
  cbn. destruct (Z.eqb_spec (a - 1) a); [lia|].
  destruct (c_kind c).
  - destruct (memz (Z.of_nat n) us) eqn:Mz; [|reflexivity].
    apply memz_In in Mz. subst us. destruct (down_us_conn _ _ _ I Mz) as (c' & Hu' & Hc'). congruence.
  - destruct (Z.eqb_spec (c_conn c) a); [contradiction|reflexivity].
Qed.

Lemma down_results_local a m us : Inv m ->
  us = map snd (tconn a (m_chs m)) ++ map snd (tconn a (m_le m)) ->
  down_results (local a m) us = down_results m us.
Proof.
  intros I Hus. unfold down_results. unfold local. cbn [m_heap]. rewrite flat_map_from_map.
  apply flat_map_from_ext. intros n c Hn. cbn. apply hget_nth in Hn.
  unfold keep_c. destruct (Z.eqb_spec (c_conn c) a) as [E|E]; [reflexivity|].
  destruct (memz (Z.of_nat n) us) eqn:Mz; [|reflexivity].
  apply memz_In in Mz. subst us. destruct (down_us_conn _ _ _ I Mz) as (c' & Hu' & Hc'). congruence.
Qed.

Lemma loc_down a m : Inv m -> do_down (local a m) a = local a (do_down m a).
Proof.
  intros I. unfold do_down. cbv zeta. autorewrite with loc. rewrite !tconn_idem.
  set (us := map snd (tconn a (m_chs m)) ++ map snd (tconn a (m_le m))).
  rewrite (down_cancels_local a m us I eq_refl), (down_results_local a m us I eq_refl).
  unfold local at 3. cbn [m_heap m_chs m_le m_reqs m_pend m_ids m_w m_lesrv m_clsrv].
  rewrite !tconn_tdrop, akeep_adel. f_equal.
  - unfold local. cbn [m_heap]. apply list_ext. intros n.
    rewrite nth_error_map_from, !nth_error_map, nth_error_map_from.
    destruct (nth_error (m_heap m) n); cbn; [|reflexivity]. now rewrite down_chan_keep.
  - unfold local. cbn [m_w]. apply list_ext. intros n.
    rewrite nth_error_map_from, !nth_error_map, nth_error_map_from.
    destruct (nth_error (m_w m) n); cbn; [|reflexivity].
    repeat match goal with |- context [if ?b then _ else _] => destruct b end; now rewrite ?wres1_keep.
Qed.

(* ================================================================== the step *)
Lemma loc_recv a m f : Inv m -> recv (local a m) a f = (local a (fst (recv m a f)), snd (recv m a f)).
Proof.
  intros I. destruct f; cbn [recv]; auto using loc_recv_conn_req, loc_recv_conn_rsp, loc_recv_conf_req,
    loc_recv_conf_rsp, loc_recv_disc_req, loc_recv_disc_rsp, loc_recv_le_req, loc_recv_le_rsp, loc_recv_enh_req,
    loc_recv_enh_rsp, loc_recv_credit.
Qed.

(* An event on connection a does to a's projection exactly what it does to the whole manager:
   it reads nothing else and sends the same frames. *)
Theorem step_local m e a : Inv m -> ev_conn m e = Some a ->
  step (local a m) e = (local a (fst (step m e)), snd (step m e)).
Proof.
  intros I Ha. destruct e as [h kind psm n mode credits|u|u|w|u k|u n|h f|h]; cbn [step ev_conn] in *.
  - injection Ha as ->. destruct (Z.eqb kind K_LE); [apply loc_open_le|].
    destruct (Z.eqb kind K_ENH); [apply loc_open_enh|apply loc_open_cl].
  - destruct (hget m u) as [c|] eqn:Hu; [|discriminate]. injection Ha as <-. now apply loc_close.
  - destruct (hget m u) as [c|] eqn:Hu; [|discriminate]. injection Ha as <-. cbn [fst snd]. now rewrite (loc_abort m u c).
  - destruct (wget m w) as [x|] eqn:Hw; [|discriminate]. injection Ha as <-. cbn [fst snd]. now rewrite (loc_cancel m w x).
  - destruct (hget m u) as [c|] eqn:Hu; [|discriminate]. injection Ha as <-. now apply loc_write.
  - destruct (hget m u) as [c|] eqn:Hu; [|discriminate]. injection Ha as <-. now apply loc_grant.
  - injection Ha as ->. now apply loc_recv.
  - injection Ha as ->. cbn [fst snd]. now rewrite loc_down.
Qed.

(* whether an event is one of connection a is itself decided by a's projection *)
Lemma keep_c_inv a c c' : keep_c a c = c' -> c_conn c' = a -> c = c'.
Proof.
  unfold keep_c. destruct (Z.eqb_spec (c_conn c) a); [auto|]. intros <-. cbn. lia.
Qed.
Lemma keep_w_inv a x x' : keep_w a x = x' -> w_conn x' = a -> x = x'.
Proof.
  unfold keep_w. destruct (Z.eqb_spec (w_conn x) a); [auto|]. intros <-. cbn. lia.
Qed.

Lemma ev_conn_local m e a : ev_conn m e = Some a <-> ev_conn (local a m) e = Some a.
Proof.
  destruct e as [h kind psm n mode credits|u|u|w|u k|u n|h f|h]; cbn [ev_conn]; try tauto;
    rewrite ?hget_local, ?wget_local.
  all: try (destruct (hget m u) as [c|]; cbn [option_map]; [|tauto]; unfold keep_c;
            destruct (Z.eqb_spec (c_conn c) a) as [E|E]; [tauto|];
            split; intros H; injection H as H; [contradiction|cbn in H; lia]).
  destruct (wget m w) as [x|]; cbn [option_map]; [|tauto]. unfold keep_w.
  destruct (Z.eqb_spec (w_conn x) a) as [E|E]; [tauto|].
  split; intros H; injection H as H; [contradiction|cbn in H; lia].
Qed.

(* ---- links_independent, determinacy form.  Two managers that agree on connection a (same
   projection: a's table entries, identifier counter, channel objects and futures) react to an
   event of connection a with the same frames and agree on connection a afterwards, whatever
   else they hold for other connections. *)
Theorem links_determinate m1 m2 e a : Inv m1 -> Inv m2 -> local a m1 = local a m2 ->
  ev_conn m1 e = Some a ->
  ev_conn m2 e = Some a /\ snd (step m1 e) = snd (step m2 e) /\
  local a (fst (step m1 e)) = local a (fst (step m2 e)).
Proof.
  intros I1 I2 E Ha.
  assert (Ha2 : ev_conn m2 e = Some a).
  { apply (proj2 (ev_conn_local m2 e a)). rewrite <- E. apply (proj1 (ev_conn_local m1 e a)). exact Ha. }
  pose proof (step_local m1 e a I1 Ha) as S1. pose proof (step_local m2 e a I2 Ha2) as S2.
  rewrite E in S1. rewrite S1 in S2. repeat split; congruence.
Qed.

(* the same for a whole history of events of connection a *)
Fixpoint all_on (a : Z) (m : mgr) (es : list event) : Prop :=
  match es with
  | [] => True
  | e :: es' => ev_conn m e = Some a /\ all_on a (fst (step m e)) es'
  end.

Theorem run_determinate a : forall es m1 m2, Inv m1 -> Inv m2 -> local a m1 = local a m2 ->
  evs_ok m1 es = true -> evs_ok m2 es = true -> all_on a m1 es ->
  snd (run m1 es) = snd (run m2 es) /\ local a (fst (run m1 es)) = local a (fst (run m2 es)).
Proof.
  induction es as [|e es IH]; intros m1 m2 I1 I2 E O1 O2 A; cbn [run]; [auto|].
  cbn [evs_ok all_on] in *. apply andb_true_iff in O1 as [O1 O1']. apply andb_true_iff in O2 as [O2 O2'].
  destruct A as [Ha A].
  destruct (links_determinate m1 m2 e a I1 I2 E Ha) as (_ & Ho & Em).
  pose proof (step_inv m1 e I1 O1) as J1. pose proof (step_inv m2 e I2 O2) as J2.
  destruct (step m1 e) as [m1' o1]. destruct (step m2 e) as [m2' o2]. cbn [fst snd] in *.
  destruct (IH m1' m2' J1 J2 Em O1' O2' A) as [Hos Hms].
  destruct (run m1' es) as [m1'' os1]. destruct (run m2' es) as [m2'' os2]. cbn [fst snd] in *.
  split; congruence.
Qed.

(* non-vacuity: two managers that differ (an LE channel is being opened on connection 2 in
   one, a classic channel in the other), agree on connection 1, and an event of connection 1
   that changes the projection *)
Example determinate_nonvacuous :
  let m0 := m_init [(128, 2)] [(4097, 0)] in
  let m1 := fst (step m0 (EOpen 2 K_LE 128 1 0 3)) in
  let m2 := fst (step m0 (EOpen 2 K_CL 4097 1 0 0)) in
  m1 <> m2 /\ local 1 m1 = local 1 m2 /\ ev_conn m1 (EOpen 1 K_LE 128 1 0 3) = Some 1 /\
  local 1 (fst (step m1 (EOpen 1 K_LE 128 1 0 3))) <> local 1 m1.
Proof. cbv. repeat split; discriminate. Qed.

(* the statements for reachable managers (Props/C09.v) *)
Theorem step_local_reachable m e a : reachable m -> ev_conn m e = Some a ->
  step (local a m) e = (local a (fst (step m e)), snd (step m e)).
Proof. intros R. apply step_local. now apply reachable_Inv. Qed.

Theorem links_determinate_reachable m1 m2 e a : reachable m1 -> reachable m2 -> local a m1 = local a m2 ->
  ev_conn m1 e = Some a ->
  ev_conn m2 e = Some a /\ snd (step m1 e) = snd (step m2 e) /\
  local a (fst (step m1 e)) = local a (fst (step m2 e)).
Proof. intros R1 R2. apply links_determinate; now apply reachable_Inv. Qed.

Theorem run_determinate_reachable a es m1 m2 : reachable m1 -> reachable m2 -> local a m1 = local a m2 ->
  evs_ok m1 es = true -> evs_ok m2 es = true -> all_on a m1 es ->
  snd (run m1 es) = snd (run m2 es) /\ local a (fst (run m1 es)) = local a (fst (run m2 es)).
Proof. intros R1 R2. apply run_determinate; now apply reachable_Inv. Qed.
