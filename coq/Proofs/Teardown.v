(* Proofs about Model/Teardown.v: three inductive invariants of [step], for every table,
   every history and every cut point (every prefix of every history is a history). *)
From Coq Require Import ZArith List Bool String Lia.
From BV Require Import Model.Teardown.
Import ListNotations.
Open Scope Z_scope.

(* ------------------------------------------------------------------ tables as sets *)
Lemma mem_add : forall x h l, mem x (add h l) = (x =? h) || mem x l.
Proof.
  intros x h l. unfold add. destruct (mem h l) eqn:E; cbn; [|reflexivity].
  destruct (x =? h) eqn:Ex; [|reflexivity]. apply Z.eqb_eq in Ex. subst. now rewrite E.
Qed.

Lemma mem_remove : forall x h l, mem x (remove h l) = negb (x =? h) && mem x l.
Proof.
  intros x h l. unfold remove. induction l as [|y r IH]; cbn [filter mem].
  - now rewrite andb_false_r.
  - destruct (y =? h) eqn:Ey; cbn [negb mem].
    + rewrite IH. apply Z.eqb_eq in Ey. subst y.
      destruct (x =? h); cbn; reflexivity.
    + rewrite IH. destruct (x =? y) eqn:Exy; cbn.
      * apply Z.eqb_eq in Exy. subst y. rewrite Ey. reflexivity.
      * reflexivity.
Qed.

Lemma remove_notin : forall h l, mem h l = false -> remove h l = l.
Proof.
  intros h l. unfold remove. induction l as [|y r IH]; cbn [filter mem]; [reflexivity|].
  intros H. apply orb_false_iff in H as [H1 H2].
  rewrite Z.eqb_sym, H1. cbn [negb]. now rewrite IH.
Qed.

Lemma mem_nil_all : forall l, (forall x, mem x l = false) -> l = [].
Proof.
  intros [|y r] H; [reflexivity|]. specialize (H y). cbn in H. now rewrite Z.eqb_refl in H.
Qed.

Lemma replay_app : forall q e t, replay (q ++ [e]) t = replay [e] (replay q t).
Proof.
  induction q as [|a q IH]; intros e t; [reflexivity|].
  destruct a; cbn [app replay]; apply IH.
Qed.

(* a handle the host holds and will no longer hold has its disconnection on the way *)
Lemma replay_doomed : forall q t h,
  mem h t = true -> mem h (replay q t) = false -> In (EDisc h) q.
Proof.
  induction q as [|a q IH]; intros t h Ht Hr; cbn in *.
  - congruence.
  - destruct a as [h'|h'|w].
    + right. apply (IH (add h' t)); [|exact Hr]. rewrite mem_add, Ht. apply orb_true_r.
    + destruct (h =? h') eqn:E.
      * apply Z.eqb_eq in E. subst. now left.
      * right. apply (IH (remove h' t)); [|exact Hr]. rewrite mem_remove, E, Ht. reflexivity.
    + right. now apply (IH t).
Qed.

(* ------------------------------------------------------------------ the fan-out, field by field *)
Definition release (h : Z) (w : waiter) : waiter :=
  fold_left (fun w hk => release_at hk h w) fanout_order w.

Lemma fanout_ctl : forall tbl h s, ctl (fanout tbl h s) = ctl s.
Proof. reflexivity. Qed.
Lemma fanout_c2h : forall tbl h s, c2h (fanout tbl h s) = c2h s.
Proof. reflexivity. Qed.
Lemma fanout_h2c : forall tbl h s, h2c (fanout tbl h s) = h2c s.
Proof. reflexivity. Qed.
Lemma fanout_lost : forall tbl h s, lost (fanout tbl h s) = lost s.
Proof. reflexivity. Qed.
Lemma fanout_host : forall tbl h s, host (fanout tbl h s) = remove h (host s).
Proof. reflexivity. Qed.
Lemma fanout_dev : forall tbl h s, dev (fanout tbl h s) = remove h (dev s).
Proof. reflexivity. Qed.

Lemma fanout_waiters : forall tbl h s, waiters (fanout tbl h s) = map (release h) (waiters s).
Proof.
  intros. unfold fanout, fanout_order. cbn [fold_left hook_step waiters].
  rewrite !map_map. apply map_ext. intros w.
  unfold release, fanout_order. cbn [fold_left]. reflexivity.
Qed.

Lemma in_chain_cases : forall hk, in_chain hk = true ->
  hk = HkDevice \/ hk = HkConnListeners \/ hk = HkGattServer \/ hk = HkL2cap \/
  hk = HkBearerClose \/ hk = HkHost \/ hk = HkQueueFlush.
Proof. intros []; cbn; intros H; try discriminate; tauto. Qed.

Lemma fanout_regs_in : forall tbl h s p,
  In p (regs (fanout tbl h s)) ->
  In p (regs s) /\ (in_chain (reg_hook tbl (fst p)) = true -> (kconn (snd p) =? h) = false).
Proof.
  intros tbl h s p. unfold fanout, fanout_order. cbn [fold_left hook_step regs].
  rewrite !filter_In. intros H.
  repeat match goal with H : _ /\ _ |- _ => destruct H end.
  split; [assumption|]. intros Hc.
  destruct (kconn (snd p) =? h); [|reflexivity].
  rewrite andb_true_r in *.
  apply in_chain_cases in Hc.
  repeat match goal with H : _ \/ _ |- _ => destruct H end;
    match goal with E : reg_hook _ _ = _ |- _ => rewrite E in * end; cbn in *; discriminate.
Qed.

Lemma fanout_regs_sub : forall tbl h s p, In p (regs (fanout tbl h s)) -> In p (regs s).
Proof. intros. now apply fanout_regs_in in H. Qed.

(* what the chain does to one waiter: computed with the handle test abstracted to a boolean *)
Definition release_at_b (b : bool) (hk : hook) (w : waiter) : waiter :=
  if negb b then w else
  match w_st w, w_kind w with
  | Pending, WConnBound hk' => if hook_eqb hk hk' then set_st w (Done OCancelled) else w
  | Pending, WLate hk' => if hook_eqb hk hk' then set_st w (Done OCancelled) else w
  | Pending, WDisconnect => if hook_eqb hk HkConnListeners then set_st w (Done OResult) else w
  | _, _ => w
  end.

Lemma release_at_b_eq : forall hk h w,
  release_at hk h w = release_at_b (kconn (w_key w) =? h) hk w.
Proof. reflexivity. Qed.

Lemma release_at_b_key : forall b hk w, w_key (release_at_b b hk w) = w_key w.
Proof.
  intros b hk [id k key st]. unfold release_at_b. destruct b; cbn; [|reflexivity].
  destruct st; try reflexivity; destruct k; try reflexivity;
    match goal with |- context [hook_eqb ?a ?b] => destruct (hook_eqb a b) end; reflexivity.
Qed.

Lemma fold_release_b : forall l h w b, b = (kconn (w_key w) =? h) ->
  fold_left (fun w hk => release_at hk h w) l w = fold_left (fun w hk => release_at_b b hk w) l w.
Proof.
  induction l as [|a l IH]; intros h w b Hb; [reflexivity|].
  cbn [fold_left]. rewrite release_at_b_eq, <- Hb. apply IH.
  rewrite release_at_b_key. exact Hb.
Qed.

Definition release_b (b : bool) (w : waiter) : waiter :=
  fold_left (fun w hk => release_at_b b hk w) fanout_order w.

Lemma release_eq : forall h w, release h w = release_b (kconn (w_key w) =? h) w.
Proof. intros. unfold release, release_b. now apply fold_release_b. Qed.

Lemma release_other : forall h w, (kconn (w_key w) =? h) = false -> release h w = w.
Proof. intros h w E. rewrite release_eq, E. reflexivity. Qed.

Ltac waiter_cases w :=
  destruct w as [id k key st]; destruct st as [| | | |o]; try destruct o;
  destruct k as [hk| | | |hk]; try destruct hk.

Lemma release_b_fields : forall b w,
  w_id (release_b b w) = w_id w /\ w_key (release_b b w) = w_key w /\ w_kind (release_b b w) = w_kind w.
Proof. intros b w. destruct b; waiter_cases w; repeat split; reflexivity. Qed.

Lemma release_id : forall h w, w_id (release h w) = w_id w.
Proof. intros. rewrite release_eq. apply release_b_fields. Qed.
Lemma release_key : forall h w, w_key (release h w) = w_key w.
Proof. intros. rewrite release_eq. apply release_b_fields. Qed.
Lemma release_kind : forall h w, w_kind (release h w) = w_kind w.
Proof. intros. rewrite release_eq. apply release_b_fields. Qed.

Lemma release_done : forall h w, is_done (w_st w) = true -> release h w = w.
Proof.
  intros h w H. rewrite release_eq. destruct (kconn (w_key w) =? h); [|reflexivity].
  waiter_cases w; try discriminate; reflexivity.
Qed.

(* on its own connection: a registered releasable call ends, everything else is unchanged *)
Lemma release_same : forall h w, (kconn (w_key w) =? h) = true ->
  w_st (release h w) =
  match w_st w, w_kind w with
  | Pending, WConnBound hk => if in_chain hk then Done OCancelled else Pending
  | Pending, WLate hk => if in_chain hk then Done OCancelled else Pending
  | Pending, WDisconnect => Done OResult
  | st, _ => st
  end.
Proof.
  intros h w E. rewrite release_eq, E. waiter_cases w; reflexivity.
Qed.

(* ------------------------------------------------------------------ transport loss: every host connection *)
Lemma fold_left_cons : forall (A B : Type) (f : A -> B -> A) a l s,
  fold_left f (a :: l) s = fold_left f l (f s a).
Proof. reflexivity. Qed.

Definition fan_all (tbl : table) (l : list Z) (s : state) : state :=
  fold_left (fun a h => fanout tbl h a) l s.
Definition release_all (l : list Z) (x : waiter) : waiter := fold_left (fun x h => release h x) l x.

Lemma fan_all_host : forall tbl l s,
  host (fan_all tbl l s) = fold_left (fun t h => remove h t) l (host s).
Proof.
  unfold fan_all. induction l as [|a l IH]; intros; [reflexivity|].
  rewrite !fold_left_cons, IH, fanout_host. reflexivity.
Qed.
Lemma fan_all_dev : forall tbl l s,
  dev (fan_all tbl l s) = fold_left (fun t h => remove h t) l (dev s).
Proof.
  unfold fan_all. induction l as [|a l IH]; intros; [reflexivity|].
  rewrite !fold_left_cons, IH, fanout_dev. reflexivity.
Qed.
Lemma fan_all_ctl : forall tbl l s,
  ctl (fan_all tbl l s) = ctl s.
Proof.
  unfold fan_all. induction l as [|a l IH]; intros; [reflexivity|].
  rewrite !fold_left_cons, IH, fanout_ctl. reflexivity.
Qed.
Lemma fan_all_waiters : forall tbl l s,
  waiters (fan_all tbl l s) = map (release_all l) (waiters s).
Proof.
  unfold fan_all, release_all. induction l as [|a l IH]; intros.
  - cbn [fold_left]. now rewrite map_id.
  - rewrite fold_left_cons, IH, fanout_waiters, map_map. apply map_ext. intros x.
    now rewrite fold_left_cons.
Qed.

Lemma fold_remove_mem : forall l t x,
  mem x (fold_left (fun t h => remove h t) l t) = mem x t && negb (mem x l).
Proof.
  induction l as [|a l IH]; intros; cbn [fold_left mem].
  - now rewrite andb_true_r.
  - rewrite IH, mem_remove. destruct (x =? a), (mem x t), (mem x l); reflexivity.
Qed.

Lemma fold_remove_self : forall t, fold_left (fun t h => remove h t) t t = [].
Proof.
  intros t. apply mem_nil_all. intros x. rewrite fold_remove_mem. now destruct (mem x t).
Qed.

Lemma fan_all_regs_in : forall tbl l s p,
  In p (regs (fan_all tbl l s)) ->
  In p (regs s) /\ (in_chain (reg_hook tbl (fst p)) = true -> mem (kconn (snd p)) l = false).
Proof.
  unfold fan_all. induction l as [|a l IH]; intros s p H.
  - split; [exact H|reflexivity].
  - rewrite fold_left_cons in H. apply IH in H as [H1 H2].
    apply fanout_regs_in in H1 as [H1 H3]. split; [exact H1|].
    intros Hc. cbn [mem]. now rewrite (H3 Hc), (H2 Hc).
Qed.

Lemma release_all_done : forall l x, is_done (w_st x) = true -> release_all l x = x.
Proof.
  unfold release_all. induction l as [|a l IH]; intros x H; [reflexivity|].
  rewrite fold_left_cons, (release_done a x H). now apply IH.
Qed.

Definition releasable (x : waiter) : bool :=
  match w_st x, w_kind x with
  | Pending, WConnBound hk | Pending, WLate hk => in_chain hk
  | Pending, WDisconnect => true
  | _, _ => false
  end.

Lemma release_all_releases : forall l x,
  releasable x = true -> mem (kconn (w_key x)) l = true -> is_done (w_st (release_all l x)) = true.
Proof.
  induction l as [|a l IH]; intros x Hr Hm; [discriminate|].
  unfold release_all. rewrite fold_left_cons. cbn [mem] in Hm.
  destruct (kconn (w_key x) =? a) eqn:E.
  - assert (Hd : is_done (w_st (release a x)) = true).
    { rewrite (release_same a x E). unfold releasable in Hr.
      destruct (w_st x); try discriminate; destruct (w_kind x); try discriminate;
        try rewrite Hr; reflexivity. }
    fold (release_all l (release a x)). now rewrite (release_all_done l _ Hd).
  - rewrite (release_other a x E). apply IH; assumption.
Qed.

Lemma release_all_inert : forall l x, releasable x = false -> release_all l x = x.
Proof.
  induction l as [|a l IH]; intros x Hr; [reflexivity|].
  unfold release_all. rewrite fold_left_cons.
  assert (E : release a x = x).
  { destruct (kconn (w_key x) =? a) eqn:E; [|now apply release_other].
    rewrite release_eq, E. revert Hr. unfold releasable. waiter_cases x; cbn; intros; try discriminate; reflexivity. }
  rewrite E. now apply IH.
Qed.


(* ------------------------------------------------------------------ invariant 1: the tables *)
Definition tinv (s : state) : Prop :=
  dev s = host s /\
  (lost s = false -> forall x, mem x (replay (c2h s) (host s)) = mem x (ctl s)) /\
  (lost s = true -> host s = [] /\ c2h s = [] /\ h2c s = []).

Lemma tinv_init : tinv init.
Proof. repeat split; intros; try reflexivity; discriminate. Qed.

Ltac tinv_same H L :=
  unfold tinv; cbn [upd set_regs ctl c2h h2c lost host dev regs waiters]; rewrite ?L;
  destruct H as (? & ? & ?); repeat split; auto; intros; congruence.

Lemma tinv_step : forall tbl s o, tinv s -> tinv (step tbl s o).
Proof.
  intros tbl s o H. pose proof H as (Hdh & Hr & Hl). unfold step. destruct (lost s) eqn:L.
  - destruct o; exact H.
  - specialize (Hr eq_refl). clear Hl.
    destruct o.
    + (* Establish *) destruct (mem h (ctl s)) eqn:E; [exact H|].
      unfold tinv; cbn [upd ctl c2h h2c lost host dev regs waiters]. rewrite ?L.
      repeat split; auto; try congruence.
      intros _ x. rewrite replay_app. cbn [replay]. rewrite !mem_add, Hr. reflexivity.
    + (* PeerDisc *) destruct (mem h (ctl s)) eqn:E; [|exact H].
      unfold tinv; cbn [upd ctl c2h h2c lost host dev regs waiters]. rewrite ?L.
      repeat split; auto; try congruence.
      intros _ x. rewrite replay_app. cbn [replay]. rewrite !mem_remove, Hr. reflexivity.
    + (* LocalDisc *) destruct (mem h (dev s) && negb (has_waiter w s)); [|exact H]. tinv_same H L.
    + (* HciCommand *) destruct (has_waiter w s); [exact H|]. tinv_same H L.
    + (* Start *) destruct (mem (kconn key) (dev s) && negb (has_waiter w s)); [|exact H].
      destruct k; try exact H.
      * destruct (conn_bound (WConnBound hk)); exact H.
      * destruct (in_chain hk); [|exact H]. tinv_same H L.
    + (* Finish *) tinv_same H L.
    + (* Insert *) destruct (known tbl r && mem (kconn key) (dev s) && negb (has_reg r key (regs s)));
        [|exact H]. tinv_same H L.
    + (* Remove *) tinv_same H L.
    + (* DeliverC2H *) destruct (c2h s) as [|e q] eqn:Eq; [exact H|].
      destruct e as [h|h|w].
      * unfold tinv; cbn [upd ctl c2h h2c lost host dev regs waiters]. rewrite ?L, Hdh.
        repeat split; auto; try congruence.
      * destruct (mem h (host s)) eqn:Eh.
        -- unfold tinv. rewrite fanout_dev, fanout_host, fanout_lost, fanout_c2h, fanout_ctl.
           cbn [upd ctl c2h h2c lost host dev regs waiters]. rewrite ?L, Hdh.
           repeat split; auto; try congruence.
        -- unfold tinv; cbn [upd ctl c2h h2c lost host dev regs waiters]. rewrite ?L.
           repeat split; auto; try congruence.
           intros _ x. rewrite <- Hr. cbn [replay]. now rewrite (remove_notin h (host s) Eh).
      * unfold tinv; cbn [upd ctl c2h h2c lost host dev regs waiters]. rewrite ?L.
        repeat split; auto; try congruence.
    + (* DeliverH2C *) destruct (h2c s) as [|c q] eqn:Eq; [exact H|].
      destruct c as [h w|w].
      * destruct (mem h (ctl s)) eqn:E; unfold tinv;
          cbn [upd ctl c2h h2c lost host dev regs waiters]; rewrite ?L; repeat split; auto; try congruence.
        intros _ x. rewrite replay_app. cbn [replay]. rewrite !mem_remove, Hr. reflexivity.
      * unfold tinv; cbn [upd ctl c2h h2c lost host dev regs waiters]. rewrite ?L.
        repeat split; auto; try congruence.
        intros _ x. rewrite replay_app. cbn [replay]. apply Hr.
    + (* Resume *) tinv_same H L.
    + (* Loss *)
      unfold tinv. cbn [dev host lost c2h h2c ctl].
      change (fold_left (fun a h => fanout tbl h a) (host s) ?x) with (fan_all tbl (host s) x).
      rewrite fan_all_dev, fan_all_host. cbn [upd dev host]. rewrite Hdh, fold_remove_self.
      repeat split; auto; intros; congruence.
    + (* Tick *) tinv_same H L.
    + (* Cancel *) tinv_same H L.
Qed.

(* ------------------------------------------------------------------ invariant 2: the registries *)
Definition rinv (tbl : table) (s : state) : Prop :=
  forall p, In p (regs s) -> known tbl (fst p) = true /\ mem (kconn (snd p)) (dev s) = true.

Lemma known_in_chain : forall tbl r,
  all_cleaned tbl = true -> known tbl r = true -> in_chain (reg_hook tbl r) = true.
Proof.
  unfold all_cleaned, known, reg_hook. induction tbl as [|d tbl IH]; intros r Ha Hk; cbn in *.
  - discriminate.
  - apply andb_true_iff in Ha as [Hd Ha]. destruct (String.eqb (rd_name d) r); [exact Hd|].
    now apply IH.
Qed.

Lemma rinv_init : forall tbl, rinv tbl init.
Proof. intros tbl p []. Qed.

Lemma rinv_step : forall tbl s o, all_cleaned tbl = true -> rinv tbl s -> rinv tbl (step tbl s o).
Proof.
  intros tbl s o Ha H. unfold step. destruct (lost s) eqn:L.
  - destruct o; exact H.
  - destruct o; try exact H.
    + destruct (mem h (ctl s)); exact H.
    + destruct (mem h (ctl s)); exact H.
    + destruct (mem h (dev s) && negb (has_waiter w s)); exact H.
    + destruct (has_waiter w s); exact H.
    + destruct (mem (kconn key) (dev s) && negb (has_waiter w s)); [|exact H].
      destruct k; try exact H.
      * destruct (conn_bound (WConnBound hk)); exact H.
      * destruct (in_chain hk); exact H.
    + (* Insert *)
      destruct (known tbl r) eqn:Ek; cbn [andb]; [|exact H].
      destruct (mem (kconn key) (dev s)) eqn:Em; cbn [andb]; [|exact H].
      destruct (negb (has_reg r key (regs s))); [|exact H].
      intros p Hp. cbn [set_regs regs dev] in *. apply in_app_or in Hp as [Hp|[Hp|[]]].
      * now apply H.
      * subst p. cbn. now split.
    + (* Remove *)
      intros p Hp. cbn [set_regs regs dev] in *. apply filter_In in Hp as [Hp _]. now apply H.
    + (* DeliverC2H *)
      destruct (c2h s) as [|e q]; [exact H|]. destruct e as [h|h|w].
      * intros p Hp. cbn [regs dev] in *. destruct (H p Hp) as [H1 H2]. split; [exact H1|].
        rewrite mem_add, H2. apply orb_true_r.
      * destruct (mem h (host s)); [|exact H].
        intros p Hp. apply fanout_regs_in in Hp as [Hp Hc]. cbn [upd regs] in Hp.
        destruct (H p Hp) as [H1 H2]. split; [exact H1|].
        rewrite fanout_dev. cbn [upd dev]. rewrite mem_remove, H2.
        rewrite (Hc (known_in_chain tbl _ Ha H1)). reflexivity.
      * exact H.
    + (* DeliverH2C *)
      destruct (h2c s) as [|c q]; [exact H|]. destruct c as [h w|w]; [destruct (mem h (ctl s))|]; exact H.
    + (* Loss *)
      intros p Hp. cbn [regs dev] in *.
      change (fold_left (fun a h => fanout tbl h a) (host s) ?x) with (fan_all tbl (host s) x) in *.
      apply fan_all_regs_in in Hp as [Hp Hc]. cbn [upd regs] in Hp.
      destruct (H p Hp) as [H1 H2]. split; [exact H1|].
      rewrite fan_all_dev. cbn [upd dev]. rewrite fold_remove_mem, H2.
      (* dev s = host s is part of the table invariant; here we only need that the key's
         connection is not among the handles folded over, which the chain guarantees *)
      rewrite (Hc (known_in_chain tbl _ Ha H1)). reflexivity.
Qed.

(* ------------------------------------------------------------------ invariant 3: the waiters *)
Definition disc_coming (s : state) (c : Z) : Prop :=
  (exists w, In (CDisc c w) (h2c s)) \/ In (EDisc c) (c2h s).
Definition resp_coming (s : state) (w : Z) : Prop :=
  In (CCmd w) (h2c s) \/ In (EResp w) (c2h s).
Definition late_kind (x : waiter) : Prop := exists hk, w_kind x = WLate hk /\ in_chain hk = true.

Definition wok (s : state) (x : waiter) : Prop :=
  match w_st x with
  | Done _ => True
  | Hung => False
  | Pending =>
      match w_kind x with
      | WConnBound hk | WLate hk => in_chain hk = true /\ mem (kconn (w_key x)) (dev s) = true
      | WTimerOnly => True
      | WDisconnect => mem (kconn (w_key x)) (dev s) = true /\ lost s = false /\
                       disc_coming s (kconn (w_key x))
      | WHciCommand => lost s = false /\ resp_coming s (w_id x)
      end
  | Issuing => late_kind x /\ lost s = false /\ resp_coming s (w_id x)
  | Responded => late_kind x      (* its task is about to run: it registers or is cancelled *)
  end.

Definition winv (s : state) : Prop := Forall (wok s) (waiters s).

Lemma winv_init : winv init.
Proof. constructor. Qed.

(* a waiter that the step does not touch stays fine if what it relies on stays *)
Lemma wok_transfer : forall s s' x,
  lost s' = lost s ->
  (mem (kconn (w_key x)) (dev s) = true -> mem (kconn (w_key x)) (dev s') = true) ->
  (disc_coming s (kconn (w_key x)) -> mem (kconn (w_key x)) (dev s) = true ->
     w_kind x = WDisconnect -> disc_coming s' (kconn (w_key x))) ->
  (resp_coming s (w_id x) -> w_st x = Issuing \/ w_kind x = WHciCommand -> resp_coming s' (w_id x)) ->
  wok s x -> wok s' x.
Proof.
  intros s s' x Hl Hd Hc Hr. unfold wok.
  destruct (w_st x); destruct (w_kind x) eqn:Ek; rewrite ?Hl; intuition.
Qed.

Lemma winv_same_fields : forall s s',
  lost s' = lost s -> dev s' = dev s -> h2c s' = h2c s -> c2h s' = c2h s ->
  waiters s' = waiters s -> winv s -> winv s'.
Proof.
  intros s s' Hl Hd Hh Hc Hw H. unfold winv in *. rewrite Hw.
  eapply Forall_impl; [|exact H]. intros x Hx.
  apply (wok_transfer s s' x); unfold disc_coming, resp_coming; rewrite ?Hd, ?Hh, ?Hc; auto.
Qed.

Lemma winv_map : forall s s' f,
  waiters s' = map f (waiters s) ->
  (forall x, In x (waiters s) -> wok s x -> wok s' (f x)) ->
  winv s -> winv s'.
Proof.
  intros s s' f Hw Hf H. unfold winv in *. rewrite Hw. apply Forall_forall.
  intros y Hy. apply in_map_iff in Hy as (x & <- & Hx). apply Hf; [exact Hx|].
  now apply (proj1 (Forall_forall _ _) H).
Qed.

Lemma winv_app : forall s s' x,
  waiters s' = waiters s ++ [x] ->
  (forall y, In y (waiters s) -> wok s y -> wok s' y) -> wok s' x ->
  winv s -> winv s'.
Proof.
  intros s s' x Hw Hf Hx H. unfold winv in *. rewrite Hw. apply Forall_app. split.
  - apply Forall_forall. intros y Hy. apply Hf; [exact Hy|]. now apply (proj1 (Forall_forall _ _) H).
  - constructor; [exact Hx|constructor].
Qed.

(* timers *)
Lemma wok_tick : forall s s' x,
  lost s' = lost s -> dev s' = dev s -> h2c s' = h2c s -> c2h s' = c2h s ->
  wok s x -> wok s' (on_tick (dev s) x).
Proof.
  intros s s' x Hl Hd Hh Hc H.
  assert (H' : wok s' x).
  { apply (wok_transfer s s' x); unfold disc_coming, resp_coming; rewrite ?Hd, ?Hh, ?Hc; auto. }
  unfold on_tick. destruct (w_st x) eqn:Es; try exact H'.
  destruct (w_kind x) eqn:Ek; try exact H'.
  destruct (mem (kconn (w_key x)) (dev s)); [exact H'|].
  unfold wok. cbn. exact I.
Qed.

Lemma in_snoc_other : forall (A : Type) (a b : A) l, In a l -> In a (l ++ [b]).
Proof. intros. apply in_or_app. now left. Qed.


Lemma late_kind_release : forall h x, late_kind x -> late_kind (release h x).
Proof. intros h x (hk & Ek & Hc). exists hk. rewrite release_kind. now split. Qed.

Lemma wok_release_own : forall tbl h s q x,
  c2h s = EDisc h :: q -> (kconn (w_key x) =? h) = true -> wok s x ->
  wok (fanout tbl h (upd s (ctl s) q (h2c s) (waiters s))) (release h x).
Proof.
  intros tbl h s q x Eq E Hx.
  assert (Hresp : resp_coming s (w_id x) ->
                  resp_coming (fanout tbl h (upd s (ctl s) q (h2c s) (waiters s))) (w_id (release h x))).
  { unfold resp_coming. rewrite release_id, fanout_h2c, fanout_c2h. cbn [upd h2c c2h]. rewrite Eq.
    intros [?|[?|?]]; [now left|discriminate|now right]. }
  pose proof (release_same h x E) as Hst.
  unfold wok in *. rewrite release_kind, release_key.
  destruct (w_st x) eqn:Es.
  - destruct (w_kind x) eqn:Ek; rewrite Hst.
    + destruct Hx as [Hc _]. now rewrite Hc.
    + exact I.
    + exact I.
    + rewrite fanout_lost. cbn [upd lost]. destruct Hx as [Hl Hr]. split; [exact Hl|now apply Hresp].
    + destruct Hx as [Hc _]. now rewrite Hc.
  - assert (Hst' : w_st (release h x) = Issuing) by (rewrite Hst; destruct (w_kind x); reflexivity).
    rewrite Hst'. destruct Hx as (Hlk & Hl & Hr). rewrite fanout_lost. cbn [upd lost].
    repeat split; auto. now apply late_kind_release.
  - assert (Hst' : w_st (release h x) = Responded) by (rewrite Hst; destruct (w_kind x); reflexivity).
    rewrite Hst'. now apply late_kind_release.
  - destruct Hx.
  - assert (Hst' : w_st (release h x) = Done o) by (rewrite Hst; destruct (w_kind x); reflexivity).
    rewrite Hst'. exact I.
Qed.

Lemma wok_resume : forall s ws w x,
  wok s x -> wok (upd s (ctl s) (c2h s) (h2c s) ws) (if w_id x =? w then on_resume (dev s) x else x).
Proof.
  intros s ws w x Hx.
  assert (Hx' : wok (upd s (ctl s) (c2h s) (h2c s) ws) x).
  { apply (wok_transfer s _ x); cbn [upd lost dev h2c c2h]; auto. }
  destruct (w_id x =? w); [|exact Hx'].
  unfold on_resume.
  destruct (w_st x) eqn:Es; try exact Hx'.
  destruct (w_kind x) eqn:Ek; try exact Hx'.
  unfold wok in Hx. rewrite Es in Hx. destruct Hx as (hk' & Ek' & Hc).
  rewrite Ek in Ek'. injection Ek' as <-.
  destruct (mem (kconn (w_key x)) (dev s)) eqn:Em.
  - unfold wok. cbn [set_st w_st w_kind w_key upd dev]. rewrite Ek. now split.
  - unfold wok. cbn [set_st w_st]. exact I.
Qed.

Lemma wok_cancel : forall s ws w x,
  wok s x -> wok (upd s (ctl s) (c2h s) (h2c s) ws) (if w_id x =? w then on_cancel x else x).
Proof.
  intros s ws w x Hx.
  assert (Hx' : wok (upd s (ctl s) (c2h s) (h2c s) ws) x).
  { apply (wok_transfer s _ x); cbn [upd lost dev h2c c2h]; auto. }
  destruct (w_id x =? w); [|exact Hx'].
  unfold on_cancel. destruct (w_st x) eqn:Es; try (unfold wok; cbn [set_st w_st]; exact I).
  exact Hx'.
Qed.

Lemma winv_step : forall tbl s o, tinv s -> winv s -> winv (step tbl s o).
Proof.
  intros tbl s o HT H. pose proof HT as (Hdh & Hrep & _).
  unfold step. destruct (lost s) eqn:L.
  - (* detached *)
    destruct o; try exact H.
    + eapply winv_map; [reflexivity| |exact H]. intros x _ Hx. cbn beta. now apply wok_resume.
    + eapply (winv_map s _ (on_tick (dev s))); [reflexivity| |exact H].
      intros x _ Hx. now apply wok_tick.
    + eapply winv_map; [reflexivity| |exact H]. intros x _ Hx. cbn beta. now apply wok_cancel.
  - specialize (Hrep eq_refl).
    destruct o.
    + (* Establish *) destruct (mem h (ctl s)); [exact H|].
      eapply (winv_map s _ (fun x => x)); [cbn; now rewrite map_id| |exact H].
      intros x _ Hx. apply (wok_transfer s _ x); cbn [upd lost dev h2c c2h]; auto.
      * unfold disc_coming; cbn [upd h2c c2h]. intros [?|?] _ _; [now left|right; now apply in_snoc_other].
      * unfold resp_coming; cbn [upd h2c c2h]. intros [?|?] _; [now left|right; now apply in_snoc_other].
    + (* PeerDisc *) destruct (mem h (ctl s)); [|exact H].
      eapply (winv_map s _ (fun x => x)); [cbn; now rewrite map_id| |exact H].
      intros x _ Hx. apply (wok_transfer s _ x); cbn [upd lost dev h2c c2h]; auto.
      * unfold disc_coming; cbn [upd h2c c2h]. intros [?|?] _ _; [now left|right; now apply in_snoc_other].
      * unfold resp_coming; cbn [upd h2c c2h]. intros [?|?] _; [now left|right; now apply in_snoc_other].
    + (* LocalDisc *)
      destruct (mem h (dev s)) eqn:Em; cbn [andb]; [|exact H].
      destruct (negb (has_waiter w s)); [|exact H].
      eapply winv_app; [reflexivity| | |exact H].
      * intros y _ Hy. apply (wok_transfer s _ y); cbn [upd lost dev h2c c2h]; auto.
        -- unfold disc_coming; cbn [upd h2c c2h]. intros [[w' ?]|?] _ _; [left; exists w'; now apply in_snoc_other|now right].
        -- unfold resp_coming; cbn [upd h2c c2h]. intros [?|?] _; [left; now apply in_snoc_other|now right].
      * unfold wok; cbn. rewrite Em, L. repeat split. left. exists w. apply in_or_app. right. now left.
    + (* HciCommand *)
      destruct (has_waiter w s); [exact H|].
      eapply winv_app; [reflexivity| | |exact H].
      * intros y _ Hy. apply (wok_transfer s _ y); cbn [upd lost dev h2c c2h]; auto.
        -- unfold disc_coming; cbn [upd h2c c2h]. intros [[w' ?]|?] _ _; [left; exists w'; now apply in_snoc_other|now right].
        -- unfold resp_coming; cbn [upd h2c c2h]. intros [?|?] _; [left; now apply in_snoc_other|now right].
      * unfold wok; cbn. rewrite L. repeat split. left. apply in_or_app. right. now left.
    + (* Start *)
      destruct (mem (kconn key) (dev s)) eqn:Em; cbn [andb]; [|exact H].
      destruct (negb (has_waiter w s)); [|exact H].
      destruct k; try exact H.
      * destruct (conn_bound (WConnBound hk)) eqn:Ec; [|exact H].
        eapply winv_app; [reflexivity| | |exact H].
        -- intros y _ Hy. apply (wok_transfer s _ y); cbn [upd lost dev h2c c2h]; auto.
        -- unfold wok; cbn. cbn in Ec. now rewrite Em, Ec.
      * eapply winv_app; [reflexivity| | |exact H].
        -- intros y _ Hy. apply (wok_transfer s _ y); cbn [upd lost dev h2c c2h]; auto.
        -- unfold wok; cbn. exact I.
      * destruct (in_chain hk) eqn:Ec; [|exact H].
        eapply winv_app; [reflexivity| | |exact H].
        -- intros y _ Hy. apply (wok_transfer s _ y); cbn [upd lost dev h2c c2h]; auto.
           ++ unfold disc_coming; cbn [upd h2c c2h]. intros [[w' ?]|?] _ _; [left; exists w'; now apply in_snoc_other|now right].
           ++ unfold resp_coming; cbn [upd h2c c2h]. intros [?|?] _; [left; now apply in_snoc_other|now right].
        -- unfold wok; cbn. rewrite L. repeat split; auto.
           ++ exists hk. now split.
           ++ left. apply in_or_app. right. now left.
    + (* Finish *)
      eapply winv_map; [reflexivity| |exact H].
      intros x _ Hx. cbn beta.
      assert (Hx' : wok (upd s (ctl s) (c2h s) (h2c s)
                          (map_waiter w (fun x0 => match w_st x0, w_kind x0 with
                             | Pending, WConnBound _ | Pending, WTimerOnly | Pending, WLate _ =>
                                 if mem (kconn (w_key x0)) (dev s) then set_st x0 (Done OResult) else x0
                             | _, _ => x0 end) (waiters s))) x).
      { apply (wok_transfer s _ x); cbn [upd lost dev h2c c2h]; auto. }
      destruct (w_id x =? w); [|exact Hx'].
      destruct (w_st x) eqn:Es; try exact Hx'.
      destruct (w_kind x) eqn:Ek; try exact Hx';
        (destruct (mem (kconn (w_key x)) (dev s)); [unfold wok; cbn; exact I|exact Hx']).
    + (* Insert *)
      destruct (known tbl r && mem (kconn key) (dev s) && negb (has_reg r key (regs s))); [|exact H].
      now apply (winv_same_fields s).
    + (* Remove *) now apply (winv_same_fields s).
    + (* DeliverC2H *)
      destruct (c2h s) as [|e q] eqn:Eq; [exact H|]. destruct e as [h|h|w].
      * (* EConn *)
        eapply (winv_map s _ (fun x => x)); [cbn; now rewrite map_id| |exact H].
        intros x _ Hx. apply (wok_transfer s _ x); cbn [lost dev h2c c2h]; auto.
        -- intros Hm. rewrite mem_add, Hm. apply orb_true_r.
        -- unfold disc_coming; cbn [h2c c2h]. rewrite Eq. intros [?|[?|?]] _ _; [now left|discriminate|now right].
        -- unfold resp_coming; cbn [h2c c2h]. rewrite Eq. intros [?|[?|?]] _; [now left|discriminate|now right].
      * (* EDisc *)
        destruct (mem h (host s)) eqn:Eh.
        -- eapply (winv_map s _ (release h)); [now rewrite fanout_waiters| |exact H].
           intros x Hin Hx.
           destruct (kconn (w_key x) =? h) eqn:E.
           ++ now apply wok_release_own.
           ++ rewrite (release_other h x E).
              apply (wok_transfer s _ x); rewrite ?fanout_dev, ?fanout_lost, ?fanout_h2c, ?fanout_c2h;
                cbn [upd lost dev h2c c2h]; auto.
              ** intros Hm. now rewrite mem_remove, E, Hm.
              ** unfold disc_coming. rewrite fanout_h2c, fanout_c2h. cbn [upd h2c c2h]. rewrite Eq.
                 intros [?|[Hh|?]] _ _; [now left| |now right].
                 injection Hh as Hh. subst h. now rewrite Z.eqb_refl in E.
              ** unfold resp_coming. rewrite fanout_h2c, fanout_c2h. cbn [upd h2c c2h]. rewrite Eq.
                 intros [?|[?|?]] _; [now left|discriminate|now right].
        -- eapply (winv_map s _ (fun x => x)); [cbn; now rewrite map_id| |exact H].
           intros x _ Hx. apply (wok_transfer s _ x); cbn [upd lost dev h2c c2h]; auto.
           ++ unfold disc_coming; cbn [upd h2c c2h]. rewrite Eq. intros [?|[Hh|?]] Hm _; [now left| |now right].
              injection Hh as Hh. subst h. rewrite Hdh in Hm. congruence.
           ++ unfold resp_coming; cbn [upd h2c c2h]. rewrite Eq. intros [?|[?|?]] _; [now left|discriminate|now right].
      * (* EResp *)
        eapply winv_map; [reflexivity| |exact H].
        intros x _ Hx. cbn beta.
        destruct (w_id x =? w) eqn:Ei.
        -- assert (Hgen : forall ws, ~ (w_st x = Issuing \/ w_kind x = WHciCommand) ->
                     wok (upd s (ctl s) q (h2c s) ws) x).
           { intros ws Hn. apply (wok_transfer s _ x); cbn [upd lost dev h2c c2h]; auto.
             - unfold disc_coming; cbn [upd h2c c2h]. rewrite Eq.
               intros [?|[?|?]] _ _; [now left|discriminate|now right].
             - intros _ Hc. now destruct Hn. }
           unfold on_resp.
           destruct (w_st x) eqn:Es.
           ++ destruct (w_kind x) eqn:Ek;
                try (apply Hgen; intros [?|?]; congruence).
              unfold wok; cbn. exact I.
           ++ unfold wok in Hx. rewrite Es in Hx.
              destruct Hx as ((hk & Ek & Hc) & Hl & _). rewrite Ek.
              unfold wok; cbn [set_st w_st w_kind w_key w_id upd lost dev h2c c2h].
              exists hk. now split.
           ++ unfold wok in Hx. rewrite Es in Hx. destruct Hx as (hk & Ek & Hc).
              apply Hgen. intros [?|?]; congruence.
           ++ unfold wok in Hx. rewrite Es in Hx. destruct Hx.
           ++ unfold wok. rewrite Es. exact I.
        -- apply (wok_transfer s _ x); cbn [upd lost dev h2c c2h]; auto.
           ++ unfold disc_coming; cbn [upd h2c c2h]. rewrite Eq. intros [?|[?|?]] _ _; [now left|discriminate|now right].
           ++ unfold resp_coming; cbn [upd h2c c2h]. rewrite Eq. intros [?|[Hh|?]] _; [now left| |now right].
              injection Hh as Hh. subst w. now rewrite Z.eqb_refl in Ei.
    + (* DeliverH2C *)
      destruct (h2c s) as [|c q] eqn:Eq; [exact H|]. destruct c as [h w|w].
      * destruct (mem h (ctl s)) eqn:Ec.
        -- eapply (winv_map s _ (fun x => x)); [cbn; now rewrite map_id| |exact H].
           intros x _ Hx. apply (wok_transfer s _ x); cbn [upd lost dev h2c c2h]; auto.
           ++ unfold disc_coming; cbn [upd h2c c2h]. rewrite Eq.
              intros [[w' [Hh|?]]|?] _ _.
              ** injection Hh as Hh _. subst h. right. apply in_or_app. right. now left.
              ** left. now exists w'.
              ** right. now apply in_snoc_other.
           ++ unfold resp_coming; cbn [upd h2c c2h]. rewrite Eq.
              intros [[?|?]|?] _; [discriminate|now left|right; now apply in_snoc_other].
        -- eapply (winv_map s _ (fun x => x)); [cbn; now rewrite map_id| |exact H].
           intros x _ Hx. apply (wok_transfer s _ x); cbn [upd lost dev h2c c2h]; auto.
           ++ unfold disc_coming; cbn [upd h2c c2h]. rewrite Eq.
              intros [[w' [Hh|?]]|?] Hm _.
              ** injection Hh as Hh _. subst h. right.
                 apply (replay_doomed (c2h s) (host s)); [now rewrite <- Hdh|now rewrite Hrep].
              ** left. now exists w'.
              ** now right.
           ++ unfold resp_coming; cbn [upd h2c c2h]. rewrite Eq.
              intros [[?|?]|?] _; [discriminate|now left|now right].
      * eapply (winv_map s _ (fun x => x)); [cbn; now rewrite map_id| |exact H].
        intros x _ Hx. apply (wok_transfer s _ x); cbn [upd lost dev h2c c2h]; auto.
        -- unfold disc_coming; cbn [upd h2c c2h]. rewrite Eq.
           intros [[w' [?|?]]|?] _ _; [discriminate|left; now exists w'|right; now apply in_snoc_other].
        -- unfold resp_coming; cbn [upd h2c c2h]. rewrite Eq.
           intros [[Hh|?]|?] _.
           ++ injection Hh as Hh. subst w. right. apply in_or_app. right. now left.
           ++ now left.
           ++ right. now apply in_snoc_other.
    + (* Resume *)
      eapply winv_map; [reflexivity| |exact H]. intros x _ Hx. cbn beta. now apply wok_resume.
    + (* Loss *)
      eapply (winv_map s _ (fun x => release_all (host s) (on_loss x))).
      { cbn [waiters].
        change (fold_left (fun a h => fanout tbl h a) (host s) ?x) with (fan_all tbl (host s) x).
        rewrite fan_all_waiters. cbn [upd waiters]. now rewrite map_map. }
      2: exact H.
      intros x Hin Hx.
      assert (Hdone : forall s' y, is_done (w_st y) = true -> wok s' y).
      { intros s' y Hy. unfold wok. destruct (w_st y); try discriminate. exact I. }
      unfold wok in Hx. unfold on_loss.
      destruct (w_st x) eqn:Es.
      * destruct (w_kind x) eqn:Ek.
        -- destruct Hx as [Hc Hm]. apply Hdone. apply release_all_releases.
           ++ unfold releasable. now rewrite Es, Ek.
           ++ now rewrite <- Hdh.
        -- rewrite release_all_inert; [|unfold releasable; now rewrite Es, Ek].
           unfold wok. now rewrite Es, Ek.
        -- destruct Hx as [Hm _]. apply Hdone. apply release_all_releases.
           ++ unfold releasable. now rewrite Es, Ek.
           ++ now rewrite <- Hdh.
        -- apply Hdone. now rewrite release_all_done.
        -- destruct Hx as [Hc Hm]. apply Hdone. apply release_all_releases.
           ++ unfold releasable. now rewrite Es, Ek.
           ++ now rewrite <- Hdh.
      * destruct Hx as ((hk & Ek & _) & _). rewrite Ek. apply Hdone. now rewrite release_all_done.
      * (* Responded: its task has not run yet; it will be cancelled when it does *)
        destruct Hx as (hk & Ek & Hc).
        rewrite release_all_inert; [|unfold releasable; now rewrite Es].
        unfold wok. rewrite Es. exists hk. now split.
      * destruct Hx.
      * assert (Ex : match w_kind x with WHciCommand => x | WLate _ => x | _ => x end = x)
          by (destruct (w_kind x); reflexivity).
        apply Hdone. destruct (w_kind x); (rewrite release_all_done; [|now rewrite Es]); now rewrite Es.
    + (* Tick *)
      eapply (winv_map s _ (on_tick (dev s))); [reflexivity| |exact H].
      intros x _ Hx. now apply wok_tick.
    + (* Cancel *)
      eapply winv_map; [reflexivity| |exact H]. intros x _ Hx. cbn beta. now apply wok_cancel.
Qed.

(* ------------------------------------------------------------------ every history, every cut point *)
Lemma run_app : forall tbl a b s, run tbl (a ++ b) s = run tbl b (run tbl a s).
Proof. intros. unfold run. apply fold_left_app. Qed.

Lemma run_tinv : forall tbl ops s, tinv s -> tinv (run tbl ops s).
Proof.
  induction ops as [|o ops IH]; intros s H; [exact H|]. cbn [run fold_left].
  apply IH. now apply tinv_step.
Qed.

Lemma run_rinv : forall tbl ops s,
  all_cleaned tbl = true -> rinv tbl s -> rinv tbl (run tbl ops s).
Proof.
  induction ops as [|o ops IH]; intros s Ha H; [exact H|]. cbn [run fold_left].
  apply IH; [exact Ha|]. now apply rinv_step.
Qed.

Lemma run_winv : forall tbl ops s, tinv s -> winv s -> winv (run tbl ops s).
Proof.
  induction ops as [|o ops IH]; intros s HT H; [exact H|]. cbn [run fold_left].
  apply IH; [now apply tinv_step|now apply winv_step].
Qed.

(* --- layers agree *)
Theorem layers_agree_cut : forall tbl ops,
  let s := run tbl ops init in
  dev s = host s /\
  (lost s = false -> forall x, mem x (replay (c2h s) (host s)) = mem x (ctl s)) /\
  (lost s = true -> host s = [] /\ c2h s = [] /\ h2c s = []).
Proof. intros tbl ops. exact (run_tinv tbl ops init tinv_init). Qed.

Theorem layers_agree : forall tbl ops,
  let s := run tbl ops init in
  lost s = false -> c2h s = [] ->
  forall x, mem x (host s) = mem x (ctl s) /\ mem x (dev s) = mem x (ctl s).
Proof.
  intros tbl ops s L Hq x. destruct (layers_agree_cut tbl ops) as (Hd & Hr & _). fold s in Hd, Hr.
  specialize (Hr L x). rewrite Hq in Hr. cbn in Hr. rewrite Hd. now split.
Qed.

Theorem layers_agree_lost : forall tbl ops,
  let s := run tbl ops init in lost s = true -> host s = [] /\ dev s = [].
Proof.
  intros tbl ops s L. destruct (layers_agree_cut tbl ops) as (Hd & _ & Hl). fold s in Hd, Hl.
  destruct (Hl L) as (Hh & _). rewrite Hd. now split.
Qed.

(* --- no stale state *)
Theorem no_stale_state : forall tbl ops,
  all_cleaned tbl = true ->
  let s := run tbl ops init in
  forall r k, In (r, k) (regs s) -> mem (kconn k) (dev s) = true.
Proof.
  intros tbl ops Ha s r k Hin.
  exact (proj2 (run_rinv tbl ops init Ha (rinv_init tbl) (r, k) Hin)).
Qed.

Corollary closed_connection_forgotten : forall tbl ops h,
  all_cleaned tbl = true ->
  let s := run tbl ops init in
  mem h (dev s) = false -> forall r k, In (r, k) (regs s) -> kconn k <> h.
Proof.
  intros tbl ops h Ha s Hm r k Hin E. subst h.
  pose proof (no_stale_state tbl ops Ha r k Hin) as H. fold s in H. congruence.
Qed.

Corollary nothing_left_after_transport_loss : forall tbl ops,
  all_cleaned tbl = true ->
  let s := run tbl ops init in lost s = true -> regs s = [] /\ host s = [] /\ dev s = [].
Proof.
  intros tbl ops Ha s L. destruct (layers_agree_lost tbl ops L) as [Hh Hd]. fold s in Hh, Hd.
  repeat split; auto.
  destruct (regs s) as [|[r k] rest] eqn:E; [reflexivity|].
  pose proof (no_stale_state tbl ops Ha r k) as H. fold s in H. rewrite E, Hd in H.
  specialize (H (or_introl eq_refl)). discriminate.
Qed.

(* --- no waiter left *)
Theorem waiters_cut : forall tbl ops,
  Forall (wok (run tbl ops init)) (waiters (run tbl ops init)).
Proof. intros tbl ops. exact (run_winv tbl ops init tinv_init winv_init). Qed.

Theorem never_hung : forall tbl ops x,
  In x (waiters (run tbl ops init)) -> w_st x <> Hung.
Proof.
  intros tbl ops x Hin E. pose proof (proj1 (Forall_forall _ _) (waiters_cut tbl ops) x Hin) as H.
  unfold wok in H. now rewrite E in H.
Qed.

Lemma tick_timer_only : forall tbl s x,
  In x (waiters (step tbl s Tick)) -> w_st x = Pending -> w_kind x = WTimerOnly ->
  mem (kconn (w_key x)) (dev (step tbl s Tick)) = true.
Proof.
  intros tbl s x Hin Es Ek.
  assert (Hw : waiters (step tbl s Tick) = map (on_tick (dev s)) (waiters s) /\ dev (step tbl s Tick) = dev s).
  { unfold step. destruct (lost s); split; reflexivity. }
  destruct Hw as [Hw Hd]. rewrite Hw in Hin. rewrite Hd.
  apply in_map_iff in Hin as (y & <- & _). revert Es Ek. unfold on_tick.
  destruct (w_st y) eqn:Es'; try (intros; congruence).
  destruct (w_kind y) eqn:Ek'; try (intros; congruence).
  destruct (mem (kconn (w_key y)) (dev s)) eqn:Em; [intros; exact Em|].
  cbn. intros; discriminate.
Qed.

Theorem no_waiter_left : forall tbl ops,
  let s := run tbl (ops ++ [Tick]) init in
  settled s = true ->
  Forall (fun x => live_waiter (dev s) x = true) (waiters s).
Proof.
  intros tbl ops s Hs.
  pose proof (waiters_cut tbl (ops ++ [Tick])) as Hw. fold s in Hw.
  unfold settled in Hs. apply andb_true_iff in Hs as [Hq Hnr].
  apply Forall_forall. intros x Hin.
  pose proof (proj1 (Forall_forall _ _) Hw x Hin) as Hx.
  pose proof (proj1 (forallb_forall _ _) Hnr x Hin) as Hr.
  unfold quiescent in Hq.
  destruct (c2h s) eqn:Ec; [|discriminate]. destruct (h2c s) eqn:Eh; [|discriminate].
  unfold live_waiter. unfold wok, disc_coming, resp_coming in Hx. rewrite ?Ec, ?Eh in Hx.
  unfold is_responded in Hr.
  destruct (w_st x) eqn:Es; cbn [is_done orb].
  - destruct (w_kind x) eqn:Ek.
    + apply Hx.
    + unfold s in *. rewrite run_app in *. cbn [run fold_left] in *.
      now apply (tick_timer_only tbl _ x).
    + destruct Hx as (_ & _ & [[w []]|[]]).
    + destruct Hx as (_ & [[]|[]]).
    + apply Hx.
  - destruct Hx as (_ & _ & [[]|[]]).
  - discriminate.
  - destruct Hx.
  - reflexivity.
Qed.

(* once the transport is lost, the loop is idle and the timers have fired, every call has ended *)
Corollary no_waiter_left_after_transport_loss : forall tbl ops,
  let s := run tbl (ops ++ [Tick]) init in
  lost s = true -> forallb (fun x => negb (is_responded x)) (waiters s) = true ->
  Forall (fun x => is_done (w_st x) = true) (waiters s).
Proof.
  intros tbl ops s L Hnr.
  destruct (layers_agree_cut tbl (ops ++ [Tick])) as (Hd & _ & Hl). fold s in Hd, Hl.
  destruct (Hl L) as (Hh & Hc & Hh2).
  assert (Hq : settled s = true) by (unfold settled, quiescent; now rewrite Hc, Hh2, Hnr).
  pose proof (no_waiter_left tbl ops Hq) as H. fold s in H.
  eapply Forall_impl; [|exact H]. intros x Hx. unfold live_waiter in Hx.
  rewrite Hd, Hh in Hx. cbn in Hx. now rewrite orb_false_r in Hx.
Qed.

(* --- the HCI command gate is free once everything is quiet, whatever was cancelled when *)
Theorem gate_free_when_quiescent : forall tbl ops,
  let s := run tbl ops init in quiescent s = true -> gate_busy s = false.
Proof.
  intros tbl ops s Hq.
  pose proof (waiters_cut tbl ops) as Hw. fold s in Hw.
  unfold quiescent in Hq.
  destruct (c2h s) eqn:Ec; [|discriminate]. destruct (h2c s) eqn:Eh; [|discriminate].
  unfold gate_busy. destruct (existsb holds_gate (waiters s)) eqn:E; [|reflexivity].
  apply existsb_exists in E as (x & Hin & Hg).
  pose proof (proj1 (Forall_forall _ _) Hw x Hin) as Hx.
  unfold wok, resp_coming in Hx. rewrite ?Ec, ?Eh in Hx. unfold holds_gate in Hg.
  destruct (w_st x); try discriminate.
  - destruct (w_kind x); try discriminate. destruct Hx as (_ & [[]|[]]).
  - destruct Hx as (_ & _ & [[]|[]]).
Qed.

(* --- end to end: the property, in terms of what the controller holds *)
Theorem teardown_complete : forall tbl ops,
  all_cleaned tbl = true ->
  let s := run tbl (ops ++ [Tick]) init in
  lost s = false -> settled s = true ->
  (forall x, mem x (host s) = mem x (ctl s) /\ mem x (dev s) = mem x (ctl s)) /\
  (forall r k, In (r, k) (regs s) -> mem (kconn k) (ctl s) = true) /\
  Forall (fun x => is_done (w_st x) = true \/ mem (kconn (w_key x)) (ctl s) = true) (waiters s).
Proof.
  intros tbl ops Ha s L Hs.
  assert (Hq : c2h s = []).
  { unfold settled, quiescent in Hs. apply andb_true_iff in Hs as [Hq _].
    destruct (c2h s); [reflexivity|discriminate]. }
  pose proof (layers_agree tbl (ops ++ [Tick]) L Hq) as Hag. fold s in Hag.
  split; [exact Hag|]. split.
  - intros r k Hin. rewrite <- (proj2 (Hag (kconn k))).
    exact (no_stale_state tbl (ops ++ [Tick]) Ha r k Hin).
  - pose proof (no_waiter_left tbl ops Hs) as Hw. fold s in Hw.
    eapply Forall_impl; [|exact Hw]. intros x Hx. unfold live_waiter in Hx.
    apply orb_true_iff in Hx as [Hx|Hx]; [now left|right].
    now rewrite <- (proj2 (Hag (kconn (w_key x)))).
Qed.

(* --- links are independent: tearing one connection down leaves the others alone *)
Lemma fanout_regs_keep : forall tbl h s p,
  In p (regs s) -> (kconn (snd p) =? h) = false -> In p (regs (fanout tbl h s)).
Proof.
  intros tbl h s p Hin E. unfold fanout, fanout_order. cbn [fold_left hook_step regs].
  rewrite !filter_In. rewrite E, !andb_false_r. cbn [negb]. repeat split; auto.
Qed.

Theorem links_independent : forall tbl h s,
  (forall p, In p (regs s) -> kconn (snd p) <> h -> In p (regs (fanout tbl h s))) /\
  (forall x, In x (waiters s) -> kconn (w_key x) <> h -> In x (waiters (fanout tbl h s))) /\
  (forall c, c <> h -> mem c (dev (fanout tbl h s)) = mem c (dev s) /\
                       mem c (host (fanout tbl h s)) = mem c (host s)) /\
  ctl (fanout tbl h s) = ctl s /\ c2h (fanout tbl h s) = c2h s /\ h2c (fanout tbl h s) = h2c s.
Proof.
  intros tbl h s. repeat split; try reflexivity.
  - intros p Hin Hne. apply fanout_regs_keep; [exact Hin|]. now apply Z.eqb_neq.
  - intros x Hin Hne. rewrite fanout_waiters. apply in_map_iff. exists x. split; [|exact Hin].
    apply release_other. now apply Z.eqb_neq.
  - rewrite fanout_dev, mem_remove. apply Z.eqb_neq in H. now rewrite H.
  - rewrite fanout_host, mem_remove. apply Z.eqb_neq in H. now rewrite H.
Qed.

(* ------------------------------------------------------------------ the hypotheses are needed *)
(* a registry that no step of the chain empties keeps an entry for a closed connection *)
Definition leaky_table : table :=
  [{| rd_name := "x.Leaky.registry"; rd_key := KHandle; rd_hook := HkNone |}].

Lemma stale_refuted :
  all_cleaned leaky_table = false /\
  let s := run leaky_table
             [Establish 1; DeliverC2H; Insert "x.Leaky.registry" (1, 0); PeerDisc 1; DeliverC2H] init in
  quiescent s = true /\ mem 1 (dev s) = false /\ In ("x.Leaky.registry"%string, (1, 0)) (regs s).
Proof. vm_compute. repeat split; try reflexivity. now left. Qed.

(* a task that has not run yet keeps a call pending: [settled] (not only [quiescent]) is needed *)
Definition unsettled_history : list op :=
  [Establish 1; DeliverC2H; Start 7 (WLate HkConnListeners) (1, 0); DeliverH2C; PeerDisc 1;
   DeliverC2H; DeliverC2H].

Lemma unsettled_refuted :
  let s := run model_registries (unsettled_history ++ [Tick]) init in
  quiescent s = true /\ settled s = false /\ mem 1 (dev s) = false /\
  map (fun x => (w_id x, st_code (w_st x))) (waiters s) = [(7, 2)].
Proof. vm_compute. repeat split; reflexivity. Qed.

(* ------------------------------------------------------------------ a step of the fan-out that raises *)
Lemma fold_until_no_raise : forall raises f l s,
  (forall hk, In hk l -> raises hk = false) -> fold_until raises f l s = fold_left f l s.
Proof.
  induction l as [|hk l IH]; intros s H; [reflexivity|].
  cbn [fold_until fold_left]. rewrite (H hk (or_introl eq_refl)). apply IH.
  intros hk' Hin. apply H. now right.
Qed.

(* if no listener raises, the fan-out that may fail is the fan-out: everything proved above applies *)
Theorem fanout_no_raise : forall tbl raises h s,
  (forall hk, In hk fanout_order -> raises hk = false) -> fanout_raising tbl raises h s = fanout tbl h s.
Proof. intros. unfold fanout_raising, fanout. now apply fold_until_no_raise. Qed.

(* a listener of the Connection's 'disconnection' event raises (e.g. remove_listener of a
   listener that is no longer registered while the event still has others): the device has
   dropped the connection, but the GATT server, the L2CAP tables, the host's table and the data
   queue keep their entries, and the local disconnect() (code 0) is never resolved *)
Definition raising_prefix : list op :=
  [Establish 1; DeliverC2H;
   Insert "smp.Manager.sessions" (1, 0); Insert "gatt_server.Server.subscribers" (1, 0);
   Insert "l2cap.ChannelManager.channels" (1, 0); Insert "host.DataPacketQueue._connection_state" (1, 0);
   LocalDisc 4 1].

Lemma raising_listener_refuted :
  let s := fanout_raising model_registries (hook_eqb HkConnListeners) 1 (run model_registries raising_prefix init) in
  dev s = [] /\ host s = [1] /\
  map fst (regs s) = ["smp.Manager.sessions"; "gatt_server.Server.subscribers";
                      "l2cap.ChannelManager.channels"; "host.DataPacketQueue._connection_state"]%string /\
  map (fun x => (w_id x, st_code (w_st x))) (waiters s) = [(4, 0)].
Proof. vm_compute. repeat split; reflexivity. Qed.

(* ------------------------------------------------------------------ the model's own table *)
Lemma model_registries_cleaned : all_cleaned model_registries = true.
Proof. vm_compute. reflexivity. Qed.
