(* C14 - the tables of the built-in AES (regenerated from the source into Gen/C14Tables.v)
   are the FIPS-197 ones: the S-box is the affine image of the inverse in GF(2^8), the T-tables
   are MixColumns columns of the S-box, RCON are the powers of x; the block function returns
   16 bytes; sample vectors.  Everything here is finite evaluation inside the kernel. *)
From Coq Require Import ZArith List Bool Lia ZifyBool.
From BV Require Import Gen.C14Tables Model.CryptoBytes Model.Aes Model.Cmac Model.SmToolbox
                       Model.CryptoBuiltin Proofs.CryptoBytes Proofs.Cmac.
Import ListNotations.
Open Scope Z_scope.

(* ------------------------------------------------------------------ GF(2^8) reference *)
(* FIPS-197 4.2.1: multiplication by x modulo m(x) = x^8 + x^4 + x^3 + x + 1 *)
Definition xtime (a : Z) : Z :=
  let s := Z.shiftl a 1 in if s <? 256 then s else Z.lxor s 283.

(* 4.2: multiplication in GF(2^8), shift-and-add over the 8 bits of b *)
Fixpoint gf_mul_fuel (n : nat) (a b : Z) : Z :=
  match n with
  | O => 0
  | S n' => Z.lxor (if Z.testbit b 0 then a else 0) (gf_mul_fuel n' (xtime a) (Z.shiftr b 1))
  end.
Definition gf_mul (a b : Z) : Z := gf_mul_fuel 8 a b.

(* multiplicative inverse, 0 mapped to 0 (5.1.1 step 1): a^254 = a^2.a^4.a^8.a^16.a^32.a^64.a^128;
   that this is the inverse is checked for all 256 elements below ([gf_inv_correct]) *)
Definition gf_inv (a : Z) : Z :=
  let a2 := gf_mul a a in let a4 := gf_mul a2 a2 in let a8 := gf_mul a4 a4 in
  let a16 := gf_mul a8 a8 in let a32 := gf_mul a16 a16 in let a64 := gf_mul a32 a32 in
  let a128 := gf_mul a64 a64 in
  gf_mul a2 (gf_mul a4 (gf_mul a8 (gf_mul a16 (gf_mul a32 (gf_mul a64 a128))))).

Definition rotl8 (b : Z) (k : Z) : Z := Z.land (Z.lor (Z.shiftl b k) (Z.shiftr b (8 - k))) 255.

(* 5.1.1 step 2: b'_i = b_i + b_(i+4) + b_(i+5) + b_(i+6) + b_(i+7) + c_i, c = 0x63 *)
Definition affine_map (b : Z) : Z :=
  Z.lxor (Z.lxor (Z.lxor (Z.lxor (Z.lxor b (rotl8 b 1)) (rotl8 b 2)) (rotl8 b 3)) (rotl8 b 4)) 99.

Definition sbox_ref (a : Z) : Z := affine_map (gf_inv a).

Definition pack4 (b3 b2 b1 b0 : Z) : Z :=
  Z.lor (Z.lor (Z.lor (Z.shiftl b3 24) (Z.shiftl b2 16)) (Z.shiftl b1 8)) b0.

(* 5.1.3 MixColumns applied to a column holding S[x] in one row: {02}.s, s, s, {03}.s *)
Definition t1_ref (x : Z) : Z := let s := sbox_ref x in pack4 (xtime s) s s (Z.lxor (xtime s) s).
Definition t2_ref (x : Z) : Z := let s := sbox_ref x in pack4 (Z.lxor (xtime s) s) (xtime s) s s.
Definition t3_ref (x : Z) : Z := let s := sbox_ref x in pack4 s (Z.lxor (xtime s) s) (xtime s) s.
Definition t4_ref (x : Z) : Z := let s := sbox_ref x in pack4 s s (Z.lxor (xtime s) s) (xtime s).

Fixpoint rcon_ref (n : nat) (c : Z) : list Z :=
  match n with O => [] | S n' => c :: rcon_ref n' (xtime c) end.

Definition table_is (t : list Z) (f : Z -> Z) : bool :=
  (length t =? 256)%nat && forallb (fun x => tbl t x =? f x) all_bytes.

Lemma table_is_spec : forall t f, table_is t f = true ->
  forall x, 0 <= x < 256 -> tbl t x = f x.
Proof.
  intros t f H x Hx. unfold table_is in H. apply andb_true_iff in H as [_ H].
  apply Z.eqb_eq. apply (byte_cases (fun x => tbl t x =? f x)); assumption.
Qed.

Lemma sbox_is_fips197 : table_is aes_S sbox_ref = true.
Proof. vm_compute. reflexivity. Qed.

Lemma ttables_are_fips197 :
  table_is aes_T1 t1_ref = true /\ table_is aes_T2 t2_ref = true /\
  table_is aes_T3 t3_ref = true /\ table_is aes_T4 t4_ref = true.
Proof. repeat split; vm_compute; reflexivity. Qed.

Lemma rcon_is_fips197 : firstn 10 aes_RCON = rcon_ref 10 1 /\ aes_RCON = rcon_ref (length aes_RCON) 1.
Proof. split; vm_compute; reflexivity. Qed.

Lemma rounds_are_fips197 : aes_ROUNDS = [(16, 10); (24, 12); (32, 14)].
Proof. reflexivity. Qed.

(* the inverse really is one: a * inv(a) = 1 for a <> 0, inv(0) = 0, values are bytes *)
Lemma gf_inv_correct :
  forallb (fun a => (if a =? 0 then gf_inv a =? 0 else gf_mul a (gf_inv a) =? 1) && byte_ok (gf_inv a)) all_bytes = true.
Proof. vm_compute. reflexivity. Qed.

(* ------------------------------------------------------------------ shape of the output *)
Lemma land255_ok : forall v, byte_ok (Z.land v 255) = true.
Proof.
  intros. apply byte_ok_iff. change 255 with (Z.ones 8). rewrite Z.land_ones by lia.
  apply Z.mod_pos_bound. lia.
Qed.

Lemma aes_last_shape : forall t k, length (aes_last t k) = 16%nat /\ bytes_ok (aes_last t k) = true.
Proof.
  intros [[[t0 t1] t2] t3] [[[k0 k1] k2] k3]. unfold aes_last. split; [reflexivity|].
  cbn [app bytes_ok forallb]. rewrite !land255_ok. reflexivity.
Qed.

Lemma aes_rounds_shape : forall ks t, ks <> [] ->
  length (aes_rounds t ks) = 16%nat /\ bytes_ok (aes_rounds t ks) = true.
Proof.
  induction ks as [|k ks IH]; intros t H; [congruence|].
  destruct ks as [|k' ks'].
  - apply aes_last_shape.
  - change (aes_rounds t (k :: k' :: ks')) with (aes_rounds (aes_round t k) (k' :: ks')).
    apply IH. discriminate.
Qed.

Lemma aes_block_shape : forall ke pt, (2 <= length ke)%nat -> length pt = 16%nat ->
  length (aes_block ke pt) = 16%nat /\ bytes_ok (aes_block ke pt) = true.
Proof.
  intros ke pt Hke Hpt. unfold aes_block, aes_encrypt.
  replace (len pt =? 16) with true by (unfold len; lia). cbn [negb].
  destruct ke as [|[[[k0 k1] k2] k3] ks]; [simpl in Hke; lia|].
  apply aes_rounds_shape. destruct ks; [simpl in Hke; lia|discriminate].
Qed.

Lemma group4_length : forall n w, length (group4 n w) = n.
Proof. induction n; intros; simpl; auto. Qed.

Lemma lookup_rounds_in : forall klen t r, lookup_rounds klen t = Some r -> In r (map snd t).
Proof.
  induction t as [|[k v] t IH]; intros r H; [discriminate|].
  cbn [lookup_rounds] in H. destruct (k =? klen).
  - inversion H. left. reflexivity.
  - right. apply IH. assumption.
Qed.

Lemma aes_init_rounds : forall key ke, aes_init key = Some ke -> (2 <= length ke)%nat.
Proof.
  intros key ke H. unfold aes_init in H.
  destruct (lookup_rounds (len key) aes_ROUNDS) as [rounds|] eqn:El; [|discriminate].
  destruct (expand_loop _ _ _ _ _ _); [|discriminate].
  inversion H; subst ke. rewrite group4_length.
  apply lookup_rounds_in in El.
  assert (Hall : forallb (fun r => 1 <=? r) (map snd aes_ROUNDS) = true) by reflexivity.
  rewrite forallb_forall in Hall. apply Hall in El. lia.
Qed.

(* The built-in aes_cmac (built-in _CMAC over the built-in _AES) is RFC 4493 AES-CMAC over
   that block cipher, for every accepted key and every message. *)
Theorem builtin_cmac_is_rfc4493 : forall key ke M,
  aes_init key = Some ke -> len M <= max_size ->
  aes_cmac_code (aes_block ke) M = Some (cmac_spec (aes_block ke) M).
Proof.
  intros key ke M Hk Hm. apply aes_cmac_code_is_rfc4493; auto.
  - intros b Hb. apply aes_block_shape; [eapply aes_init_rounds; eassumption|assumption].
  - intros b Hb. apply aes_block_shape; [eapply aes_init_rounds; eassumption|assumption].
Qed.

Theorem builtin_cmac_chunked_is_rfc4493 : forall key ke chunks,
  aes_init key = Some ke -> len (concat chunks) <= max_size ->
  cmac_chunked (aes_block ke) chunks = Some (cmac_spec (aes_block ke) (concat chunks)).
Proof.
  intros key ke cs Hk Hm. apply cmac_chunked_is_rfc4493; auto.
  - intros b Hb. apply aes_block_shape; [eapply aes_init_rounds; eassumption|assumption].
  - intros b Hb. apply aes_block_shape; [eapply aes_init_rounds; eassumption|assumption].
Qed.

Theorem builtin_cmac_eq_rfc : forall m k, len m <= max_size ->
  aes_cmac_builtin m k = aes_cmac_rfc m k.
Proof.
  intros m k H. unfold aes_cmac_builtin, aes_cmac_rfc.
  destruct (aes_init k) eqn:E; [|reflexivity]. exact (builtin_cmac_is_rfc4493 k _ m E H).
Qed.

Theorem builtin_cmac_chunked_eq_rfc : forall chunks k, len (concat chunks) <= max_size ->
  aes_cmac_chunked_builtin chunks k = aes_cmac_rfc (concat chunks) k.
Proof.
  intros cs k H. unfold aes_cmac_chunked_builtin, aes_cmac_rfc.
  destruct (aes_init k) eqn:E; [|reflexivity]. exact (builtin_cmac_chunked_is_rfc4493 k _ cs E H).
Qed.

Theorem aes_tables_are_fips197 :
  (forall x, 0 <= x < 256 -> tbl aes_S x = sbox_ref x) /\
  (forall x, 0 <= x < 256 -> tbl aes_T1 x = t1_ref x) /\
  (forall x, 0 <= x < 256 -> tbl aes_T2 x = t2_ref x) /\
  (forall x, 0 <= x < 256 -> tbl aes_T3 x = t3_ref x) /\
  (forall x, 0 <= x < 256 -> tbl aes_T4 x = t4_ref x) /\
  aes_RCON = rcon_ref (length aes_RCON) 1 /\
  aes_ROUNDS = [(16, 10); (24, 12); (32, 14)].
Proof.
  exact (conj (table_is_spec _ _ sbox_is_fips197)
        (conj (table_is_spec _ _ (proj1 ttables_are_fips197))
        (conj (table_is_spec _ _ (proj1 (proj2 ttables_are_fips197)))
        (conj (table_is_spec _ _ (proj1 (proj2 (proj2 ttables_are_fips197))))
        (conj (table_is_spec _ _ (proj2 (proj2 (proj2 ttables_are_fips197))))
        (conj (proj2 rcon_is_fips197) rounds_are_fips197)))))).
Qed.
