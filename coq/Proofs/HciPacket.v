(* Proofs/HciPacket.v — packet-layer theorems for Model/HciPacket.v. *)
From Coq Require Import String ZArith List Bool Lia.
From BV Require Import Base.Bytes Proofs.Bytes Model.SpecCodec Proofs.SpecCodec Model.HciPacket.
Import ListNotations.
Open Scope Z_scope.

(* ------------------------------------------------------------------ registry *)
Lemma wf_registry_parts : forall R, wf_registry R = true ->
  forallb wf_class (r_classes R) = true /\ codes_unique R = true /\ returns_ok R = true /\
  objects_distinct R = true /\ vendor_ok R = true.
Proof.
  intros R H. unfold wf_registry in H.
  apply andb_true_iff in H as [H _].
  apply andb_true_iff in H as [H H5]. apply andb_true_iff in H as [H H4].
  apply andb_true_iff in H as [H H3]. apply andb_true_iff in H as [H1 H2]. auto.
Qed.

Lemma registry_class_wf : forall R c,
  wf_registry R = true -> In c (r_classes R) -> wf_fields (c_fields c) = true.
Proof.
  intros R c H Hin. apply wf_registry_parts in H as [H _].
  rewrite forallb_forall in H. specialize (H c Hin). unfold wf_class in H.
  apply andb_true_iff in H as [H _]. apply andb_true_iff in H as [H _]. exact H.
Qed.

Lemma no_dup_find : forall (l : list cls) extra c,
  no_dup_codes (map (fun c => (c_kind c, c_code c)) l ++ extra) = true -> In c l ->
  find (fun x => Z.eqb (c_kind x) (c_kind c) && Z.eqb (c_code x) (c_code c)) l = Some c.
Proof.
  induction l as [|h t IH]; intros extra c Hnd Hin; [destruct Hin|].
  cbn [map app no_dup_codes] in Hnd. apply andb_true_iff in Hnd as [Hh Hnd].
  cbn [find]. destruct Hin as [->|Hin].
  - rewrite !Z.eqb_refl. reflexivity.
  - destruct (Z.eqb (c_kind h) (c_kind c) && Z.eqb (c_code h) (c_code c)) eqn:E.
    + exfalso. apply negb_true_iff in Hh.
      assert (existsb (fun p => Z.eqb (fst p) (c_kind h) && Z.eqb (snd p) (c_code h))
                (map (fun c => (c_kind c, c_code c)) t ++ extra) = true) as Hex.
      { apply existsb_exists. exists (c_kind c, c_code c). split.
        - apply in_or_app. left. apply in_map_iff. exists c. split; [reflexivity|assumption].
        - cbn [fst snd]. apply andb_true_iff in E as [E1 E2].
          apply Z.eqb_eq in E1. apply Z.eqb_eq in E2. rewrite E1, E2, !Z.eqb_refl. reflexivity. }
      congruence.
    + apply (IH extra). assumption. assumption.
Qed.

(* no code is registered twice: the class found for a class's own code is that class *)
Lemma find_class_complete : forall R c,
  codes_unique R = true -> In c (r_classes R) ->
  find_class R (c_kind c) (c_code c) = Some c.
Proof.
  intros R c H Hin. unfold find_class. apply (no_dup_find _ (map (fun p => (K_COMMAND, p_code p)) (r_phy R))); assumption.
Qed.

Lemma find_class_sound : forall R k code c,
  find_class R k code = Some c -> In c (r_classes R) /\ c_kind c = k /\ c_code c = code.
Proof.
  intros R k code c H. unfold find_class in H. apply find_some in H as [Hin Hm].
  apply andb_true_iff in Hm as [H1 H2]. apply Z.eqb_eq in H1. apply Z.eqb_eq in H2. auto.
Qed.

(* kind consistency: the class a dispatcher finds in its registry writes that dispatcher's
   event code *)
Definition expected_event (kind code : Z) : Z :=
  if kind =? K_EVENT then code
  else if kind =? K_LE_EVENT then HCI_LE_META_EVENT
  else if kind =? K_VENDOR then HCI_VENDOR_EVENT
  else 0.

Lemma wf_class_event : forall c, wf_class c = true -> c_event c = expected_event (c_kind c) (c_code c).
Proof.
  intros c H. unfold wf_class in H. apply andb_true_iff in H as [H Hk].
  apply andb_true_iff in H as [_ Hr]. apply andb_true_iff in Hr as [Hr0 Hr4].
  apply Z.leb_le in Hr0. apply Z.leb_le in Hr4.
  unfold expected_event, K_COMMAND, K_EVENT, K_LE_EVENT, K_VENDOR, K_RETURN in *.
  destruct (c_kind c =? 0) eqn:E0.
  - apply Z.eqb_eq in E0. rewrite E0. cbn. apply andb_true_iff in Hk as [_ Hk]. apply Z.eqb_eq. exact Hk.
  - destruct (c_kind c =? 3) eqn:E3.
    + apply Z.eqb_eq in E3. rewrite E3. cbn. apply Z.eqb_eq. exact Hk.
    + destruct (c_kind c =? 1) eqn:E1.
      * apply andb_true_iff in Hk as [_ Hk]. apply Z.eqb_eq. exact Hk.
      * destruct (c_kind c =? 2) eqn:E2.
        -- apply andb_true_iff in Hk as [_ Hk]. apply Z.eqb_eq. exact Hk.
        -- apply Z.eqb_neq in E0. apply Z.eqb_neq in E1. apply Z.eqb_neq in E2. apply Z.eqb_neq in E3.
           assert (c_kind c = 4) as E4 by lia. rewrite E4. cbn.
           apply andb_true_iff in Hk as [_ Hk]. apply Z.eqb_eq. exact Hk.
Qed.

Definition kinds_ok (R : registry) : Prop := forallb wf_class (r_classes R) = true.

Lemma class_event_ok : forall R kind code c, kinds_ok R ->
  find_class R kind code = Some c -> c_event c = expected_event kind code.
Proof.
  intros R kind code c HK Hf. destruct (find_class_sound R kind code c Hf) as [Hin [Hk Hc]].
  unfold kinds_ok in HK. rewrite forallb_forall in HK.
  rewrite (wf_class_event c (HK c Hin)), Hk, Hc. reflexivity.
Qed.

(* the lifted theorems: for every class of a well-formed registry *)
Theorem class_fields_roundtrip : forall R, wf_registry R = true ->
  forall c, In c (r_classes R) -> forall prev0 vs,
  in_range (c_fields c) prev0 vs = true ->
  exists b n, serialize_fields (c_fields c) vs = Some b /\
              parse_fields (c_fields c) prev0 b = Some (vs, n) /\ (n <= length b)%nat.
Proof.
  intros R HR c Hin prev0 vs Hi.
  apply parse_serialize; [exact (registry_class_wf R c HR Hin) | exact Hi].
Qed.

Theorem class_bytes_roundtrip : forall R, wf_registry R = true ->
  forall c, In c (r_classes R) -> forall prev0 bs vs n,
  bytes_ok bs = true -> parse_fields (c_fields c) prev0 bs = Some (vs, n) -> (n <= length bs)%nat ->
  exists pad, serialize_fields (c_fields c) vs = Some (firstn n bs ++ pad) /\
              (tight_fields (c_fields c) = true -> pad = []).
Proof.
  intros R HR c Hin prev0 bs vs n Hok Hp Hn.
  apply (serialize_parse _ prev0); [exact (registry_class_wf R c HR Hin) | assumption..].
Qed.

(* ------------------------------------------------------------------ the parameter cache *)
Lemma cached_same : forall ps, cached ps (Some ps) = Some ps.
Proof. destruct ps; reflexivity. Qed.

Lemma cached_generic : forall ps, cached ps (Some []) = Some ps.
Proof. destruct ps; reflexivity. Qed.

Lemma cached_nonempty : forall ps r, ps <> [] -> cached ps r = Some ps.
Proof. destruct ps; [congruence | reflexivity]. Qed.

Lemma le2_shape : forall v, le_encode 2 v = [v mod 256; (v / 256) mod 256].
Proof. reflexivity. Qed.

Lemma le2_decode_encode : forall v, u_range 2 v = true ->
  le_decode [v mod 256; (v / 256) mod 256] = v.
Proof.
  intros v H. rewrite <- le2_shape. apply le_decode_encode. apply u_range_iff. exact H.
Qed.

Lemma le2_encode_decode : forall x y, byte_ok x = true -> byte_ok y = true ->
  le_encode 2 (le_decode [x; y]) = [x; y] /\ u_range 2 (le_decode [x; y]) = true.
Proof.
  intros x y Hx Hy.
  assert (bytes_ok [x; y] = true) as Hok by (cbn; rewrite Hx, Hy; reflexivity).
  split.
  - apply (le_encode_decode_n 2 [x; y]); [reflexivity | exact Hok].
  - apply u_range_iff. exact (le_decode_range [x; y] Hok).
Qed.

(* ------------------------------------------------------------------ commands *)
Theorem command_roundtrip : forall R c vs ps,
  find_class R K_COMMAND (c_code c) = Some c ->
  wf_fields (c_fields c) = true ->
  u_range 2 (c_code c) = true ->
  serialize_fields (c_fields c) vs = Some ps -> (length ps < 256)%nat ->
  in_range (c_fields c) (last ps 0) vs = true ->
  exists b, packet_bytes R (PCommand (c_code c) true vs ps) = Some b /\
            parse_packet R b = Some (PCommand (c_code c) true vs ps).
Proof.
  intros R c vs ps Hf Hw Hop Hs Hlen Hi.
  exists (HCI_COMMAND_PACKET :: le_encode 2 (c_code c) ++ [Z.of_nat (length ps)] ++ ps).
  split.
  - cbn [packet_bytes]. unfold class_params. rewrite Hf, Hs. cbv iota. rewrite cached_same.
    unfold command_bytes. rewrite Hop.
    assert ((length ps <? 256)%nat = true) as -> by (apply Nat.ltb_lt; exact Hlen). reflexivity.
  - destruct (parse_serialize _ (last ps 0) vs Hw Hi) as [b' [n [Hs' [Hp Hn]]]].
    rewrite Hs in Hs'. inversion Hs'; subst b'. clear Hs'.
    rewrite le2_shape. cbn [app]. unfold parse_packet, HCI_COMMAND_PACKET. cbn [Z.eqb Pos.eqb].
    unfold parse_command. cbn [length Nat.ltb Nat.leb skipn firstn nth].
    rewrite le2_decode_encode by exact Hop. rewrite Z.eqb_refl. cbn [negb].
    rewrite Hf. unfold parse_at0. rewrite Hp. reflexivity.
Qed.

Theorem command_bytes_roundtrip : forall R b op known vs params,
  bytes_ok b = true -> hd 0 b = HCI_COMMAND_PACKET -> find_phy R op = None ->
  parse_command R b = Some (PCommand op known vs params) -> params <> [] ->
  packet_bytes R (PCommand op known vs params) = Some b.
Proof.
  intros R b op known vs params Hok Hhd Hnophy Hp Hne.
  unfold parse_command in Hp.
  destruct b as [|b0 [|b1 [|b2 [|b3 rest]]]]; try discriminate.
  cbn [length Nat.ltb Nat.leb skipn firstn nth] in Hp. cbn [hd] in Hhd. subst b0.
  destruct (Z.of_nat (length rest) =? b3) eqn:El; [|discriminate]. cbn [negb] in Hp.
  apply Z.eqb_eq in El.
  cbn in Hok. repeat (apply andb_true_iff in Hok as [? Hok]).
  destruct (le2_encode_decode b1 b2) as [He Hr]; [assumption..|].
  assert (Hb3 : 0 <= b3 < 256) by (apply byte_ok_iff; assumption).
  assert (params = rest /\ op = le_decode [b1; b2]) as [-> ->].
  { destruct (find_class R K_COMMAND (le_decode [b1; b2])).
    - destruct (parse_at0 (c_fields c) rest); [|discriminate]. inversion Hp. auto.
    - destruct (find_phy R (le_decode [b1; b2])) as [pc|] eqn:Ephy.
      + exfalso.
        destruct (parse_phy pc (last rest 0) rest); [|discriminate].
        destruct (serialize_phy pc l); [|discriminate].
        assert (Hop : le_decode [b1; b2] = op) by congruence. rewrite Hop in Ephy. congruence.
      + inversion Hp. auto. }
  cbn [packet_bytes]. rewrite cached_nonempty by assumption.
  unfold command_bytes. rewrite Hr.
  assert ((length rest <? 256)%nat = true) as -> by (apply Nat.ltb_lt; lia).
  cbn [andb]. rewrite He, El. reflexivity.
Qed.

(* unknown opcode: a generic HCI_Command whose parameters are the packet's, byte for byte *)
Theorem unknown_opcode_preserved : forall R op params,
  find_class R K_COMMAND op = None -> find_phy R op = None ->
  u_range 2 op = true -> (length params < 256)%nat ->
  let b := HCI_COMMAND_PACKET :: le_encode 2 op ++ [Z.of_nat (length params)] ++ params in
  parse_packet R b = Some (PCommand op false [] params) /\
  packet_bytes R (PCommand op false [] params) = Some b.
Proof.
  intros R op params Hf Hc Hop Hlen b. subst b. split.
  - rewrite le2_shape. cbn [app]. unfold parse_packet, HCI_COMMAND_PACKET. cbn [Z.eqb Pos.eqb].
    unfold parse_command. cbn [length Nat.ltb Nat.leb skipn firstn nth].
    rewrite le2_decode_encode by exact Hop. rewrite Z.eqb_refl. cbn [negb].
    rewrite Hf, Hc. reflexivity.
  - cbn [packet_bytes]. unfold class_params. cbv iota. rewrite cached_generic.
    unfold command_bytes. rewrite Hop.
    assert ((length params <? 256)%nat = true) as -> by (apply Nat.ltb_lt; exact Hlen). reflexivity.
Qed.

(* a command whose length byte disagrees with the parameter block is rejected *)
Theorem command_length_checked : forall R b0 b1 b2 b3 rest,
  Z.of_nat (length rest) <> b3 -> parse_command R (b0 :: b1 :: b2 :: b3 :: rest) = None.
Proof.
  intros. unfold parse_command. cbn [length Nat.ltb Nat.leb skipn firstn nth].
  assert (Z.of_nat (length rest) =? b3 = false) as -> by (apply Z.eqb_neq; assumption).
  reflexivity.
Qed.

(* ------------------------------------------------------------------ events *)
(* the framing rule: exact or over-long packets are accepted, the parameter block is the
   declared number of bytes (anything after it is dropped) *)
Lemma parse_event_frame : forall R code ps extra, (length ps < 256)%nat ->
  parse_event R (HCI_EVENT_PACKET :: code :: Z.of_nat (length ps) :: ps ++ extra) =
  event_body R code ps.
Proof.
  intros R code ps extra Hlen. unfold parse_event.
  cbn [nth skipn]. rewrite Nat2Z.id.
  match goal with |- context [(?a <? 3)%nat] =>
    assert ((a <? 3)%nat = false) as -> by (apply Nat.ltb_ge; cbn [length]; lia) end.
  match goal with |- context [(?a <? 3 + ?k)%nat] =>
    assert ((a <? 3 + k)%nat = false) as -> by (apply Nat.ltb_ge; cbn [length]; rewrite app_length; lia) end.
  rewrite firstn_app_exact. reflexivity.
Qed.

Lemma parse_event_frame_exact : forall R code ps, (length ps < 256)%nat ->
  parse_event R (HCI_EVENT_PACKET :: code :: Z.of_nat (length ps) :: ps) = event_body R code ps.
Proof.
  intros R code ps H. pose proof (parse_event_frame R code ps [] H) as F.
  rewrite app_nil_r in F. exact F.
Qed.

Lemma parse_packet_event : forall R x,
  parse_packet R (HCI_EVENT_PACKET :: x) = parse_event R (HCI_EVENT_PACKET :: x).
Proof. reflexivity. Qed.

(* too short -> error, never a partial packet *)
Theorem event_too_short : forall R b0 code len rest,
  (length rest < Z.to_nat len)%nat -> parse_event R (b0 :: code :: len :: rest) = None.
Proof.
  intros R b0 code len rest H. unfold parse_event.
  cbn [nth].
  match goal with |- context [(?a <? 3)%nat] =>
    assert ((a <? 3)%nat = false) as -> by (apply Nat.ltb_ge; cbn [length]; lia) end.
  match goal with |- context [(?a <? 3 + ?k)%nat] =>
    assert ((a <? 3 + k)%nat = true) as -> by (apply Nat.ltb_lt; cbn [length]; lia) end.
  reflexivity.
Qed.

Lemma event_bytes_shape : forall code ps, u_range 1 code = true -> (length ps < 256)%nat ->
  event_bytes code ps = Some (HCI_EVENT_PACKET :: code :: Z.of_nat (length ps) :: ps).
Proof.
  intros code ps Hc Hl. unfold event_bytes. rewrite Hc.
  assert ((length ps <? 256)%nat = true) as -> by (apply Nat.ltb_lt; exact Hl). reflexivity.
Qed.

Lemma event_code_not_special : forall code,
  code <> HCI_LE_META_EVENT -> code <> HCI_VENDOR_EVENT -> forall R ps,
  event_body R code ps = plain_event R code ps.
Proof.
  intros code H1 H2 R ps. unfold event_body.
  assert (code =? HCI_LE_META_EVENT = false) as -> by (apply Z.eqb_neq; exact H1).
  assert (code =? HCI_VENDOR_EVENT = false) as -> by (apply Z.eqb_neq; exact H2).
  reflexivity.
Qed.

Theorem event_roundtrip : forall R c vs ps,
  find_class R K_EVENT (c_code c) = Some c -> c_event c = c_code c ->
  c_code c <> HCI_LE_META_EVENT -> c_code c <> HCI_COMMAND_COMPLETE_EVENT ->
  c_code c <> HCI_VENDOR_EVENT ->
  wf_fields (c_fields c) = true -> u_range 1 (c_code c) = true ->
  serialize_fields (c_fields c) vs = Some ps -> (length ps < 256)%nat ->
  in_range (c_fields c) (last ps 0) vs = true ->
  exists b, packet_bytes R (PEvent (c_code c) true vs ps) = Some b /\
            forall extra, parse_packet R (b ++ extra) = Some (PEvent (c_code c) true vs ps).
Proof.
  intros R c vs ps Hf Hev Hn1 Hn2 Hn3 Hw Hc Hs Hlen Hi.
  exists (HCI_EVENT_PACKET :: c_code c :: Z.of_nat (length ps) :: ps). split.
  - cbn [packet_bytes]. unfold class_params, class_event. rewrite Hf, Hs, Hev. cbv iota. rewrite cached_same.
    apply event_bytes_shape; assumption.
  - intro extra.
    destruct (parse_serialize _ (last ps 0) vs Hw Hi) as [b' [n [Hs' [Hp Hn]]]].
    rewrite Hs in Hs'. assert (b' = ps) as -> by congruence. clear Hs'.
    cbn [app]. rewrite parse_packet_event, parse_event_frame by exact Hlen.
    rewrite event_code_not_special by assumption.
    unfold plain_event. rewrite Hf. unfold parse_at0. rewrite Hp.
    assert (c_code c =? HCI_COMMAND_COMPLETE_EVENT = false) as -> by (apply Z.eqb_neq; exact Hn2).
    reflexivity.
Qed.

Theorem le_meta_roundtrip : forall R c vs ps,
  find_class R K_LE_EVENT (c_code c) = Some c -> c_event c = HCI_LE_META_EVENT ->
  wf_fields (c_fields c) = true -> u_range 1 (c_code c) = true ->
  serialize_fields (c_fields c) vs = Some ps -> (length ps < 255)%nat ->
  in_range (c_fields c) (c_code c) vs = true ->
  exists b, packet_bytes R (PLeMeta (c_code c) true vs (c_code c :: ps)) = Some b /\
            forall extra, parse_packet R (b ++ extra) = Some (PLeMeta (c_code c) true vs (c_code c :: ps)).
Proof.
  intros R c vs ps Hf Hev Hw Hc Hs Hlen Hi.
  exists (HCI_EVENT_PACKET :: HCI_LE_META_EVENT :: Z.of_nat (length (c_code c :: ps)) :: c_code c :: ps).
  split.
  - cbn [packet_bytes cached]. unfold class_event. rewrite Hf, Hev.
    apply event_bytes_shape; [reflexivity | cbn [length]; lia].
  - intro extra.
    destruct (parse_serialize _ (c_code c) vs Hw Hi) as [b' [n [Hs' [Hp Hn]]]].
    rewrite Hs in Hs'. assert (b' = ps) as -> by congruence. clear Hs'.
    cbn [app]. rewrite parse_packet_event.
    change (c_code c :: ps ++ extra) with ((c_code c :: ps) ++ extra).
    rewrite parse_event_frame by (cbn [length]; lia).
    unfold event_body. rewrite Z.eqb_refl. rewrite Hf, Hp. reflexivity.
Qed.

(* what a vendor factory returns is a vendor sub-event packet holding the parameter block *)
Lemma vendor_factories_shape : forall R rules ps p,
  vendor_factories R rules ps = Some (Some p) ->
  exists sub vs c, p = PVendorSub sub vs ps /\ find_class R K_VENDOR sub = Some c.
Proof.
  intros R rules ps p. induction rules as [|[sub ids] rest IH]; intro H; [discriminate|].
  cbn [vendor_factories] in H.
  destruct ps as [|s [|q tl]]; try (apply IH; exact H).
  destruct ((s =? sub) && existsb (Z.eqb q) ids) eqn:E; [|apply IH; exact H].
  destruct (find_class R K_VENDOR sub) as [c|] eqn:Ef; [|discriminate].
  destruct (parse_fields (c_fields c) s (q :: tl)) as [[vs n]|]; [|discriminate].
  injection H as <-. exists sub, vs, c. split; [reflexivity | exact Ef].
Qed.

Lemma plain_event_bytes : forall R code ps p, kinds_ok R ->
  u_range 1 code = true -> (length ps < 256)%nat -> ps <> [] ->
  plain_event R code ps = Some p ->
  packet_bytes R p = Some (HCI_EVENT_PACKET :: code :: Z.of_nat (length ps) :: ps).
Proof.
  intros R code ps p HK Hcr Hlen Hne Hp. unfold plain_event in Hp.
  destruct (find_class R K_EVENT code) as [c|] eqn:Ef.
  - pose proof (class_event_ok R K_EVENT code c HK Ef) as Hev. cbn in Hev.
    destruct (parse_at0 (c_fields c) ps) as [vs|]; [|discriminate].
    destruct (code =? HCI_COMMAND_COMPLETE_EVENT) eqn:E2.
    + apply Z.eqb_eq in E2. subst code.
      destruct vs as [|n [|[op| | |] [|x [|]]]]; try discriminate.
      destruct (parse_return R op (skipn 3 ps)) as [[rn rvs]|]; [|discriminate].
      injection Hp as <-. cbn [packet_bytes]. rewrite cached_nonempty by assumption.
      unfold class_event. rewrite Ef, Hev. apply event_bytes_shape; assumption.
    + injection Hp as <-. cbn [packet_bytes]. rewrite cached_nonempty by assumption.
      unfold class_event. rewrite Ef, Hev. apply event_bytes_shape; assumption.
  - injection Hp as <-. cbn [packet_bytes]. rewrite cached_nonempty by assumption.
    unfold class_event. apply event_bytes_shape; assumption.
Qed.

(* bytes -> packet -> bytes for every kind of event, exact length, non-empty parameters.
   Rests on kind consistency: whatever class the dispatcher for this event code finds
   writes this event code back. *)
Theorem event_bytes_roundtrip : forall R code ps p, kinds_ok R ->
  bytes_ok (code :: ps) = true -> (length ps < 256)%nat -> ps <> [] ->
  parse_event R (HCI_EVENT_PACKET :: code :: Z.of_nat (length ps) :: ps) = Some p ->
  packet_bytes R p = Some (HCI_EVENT_PACKET :: code :: Z.of_nat (length ps) :: ps).
Proof.
  intros R code ps p HK Hok Hlen Hne Hp.
  rewrite parse_event_frame_exact in Hp by exact Hlen.
  rewrite bytes_ok_cons in Hok. apply andb_true_iff in Hok as [Hc Hok].
  assert (Hcr : u_range 1 code = true).
  { apply u_range_iff. apply byte_ok_iff in Hc. exact Hc. }
  unfold event_body in Hp.
  destruct (code =? HCI_LE_META_EVENT) eqn:E1.
  - apply Z.eqb_eq in E1. subst code.
    destruct ps as [|sub rest]; [discriminate|].
    destruct (find_class R K_LE_EVENT sub) as [c|] eqn:Ef.
    + pose proof (class_event_ok R K_LE_EVENT sub c HK Ef) as Hev. cbn in Hev.
      destruct (parse_fields (c_fields c) sub rest) as [[vs n]|]; [|discriminate].
      injection Hp as <-. cbn [packet_bytes cached]. unfold class_event. rewrite Ef, Hev.
      apply event_bytes_shape; assumption.
    + injection Hp as <-. cbn [packet_bytes cached]. unfold class_event.
      apply event_bytes_shape; assumption.
  - destruct (code =? HCI_VENDOR_EVENT) eqn:E3.
    + apply Z.eqb_eq in E3. subst code.
      destruct (vendor_factories R (r_vendor R) ps) as [[q|]|] eqn:Ev; [| |discriminate].
      * injection Hp as <-.
        destruct (vendor_factories_shape R _ ps q Ev) as [sub [vs [c [-> Ef]]]].
        pose proof (class_event_ok R K_VENDOR sub c HK Ef) as Hev. cbn in Hev.
        cbn [packet_bytes]. rewrite cached_nonempty by assumption.
        unfold class_event. rewrite Ef, Hev. apply event_bytes_shape; assumption.
      * exact (plain_event_bytes R _ ps p HK Hcr Hlen Hne Hp).
    + exact (plain_event_bytes R code ps p HK Hcr Hlen Hne Hp).
Qed.

(* unknown event code / sub-event code: generic packet, parameters preserved byte for byte *)
Theorem unknown_event_preserved : forall R code params,
  code <> HCI_LE_META_EVENT -> code <> HCI_VENDOR_EVENT -> find_class R K_EVENT code = None ->
  u_range 1 code = true -> (length params < 256)%nat ->
  let b := HCI_EVENT_PACKET :: code :: Z.of_nat (length params) :: params in
  parse_packet R b = Some (PEvent code false [] params) /\
  packet_bytes R (PEvent code false [] params) = Some b.
Proof.
  intros R code params Hn Hn2 Hf Hc Hlen b. subst b. split.
  - rewrite parse_packet_event, parse_event_frame_exact by exact Hlen.
    rewrite event_code_not_special by assumption.
    unfold plain_event. rewrite Hf. reflexivity.
  - cbn [packet_bytes]. unfold class_params, class_event. cbv iota. rewrite cached_generic.
    apply event_bytes_shape; assumption.
Qed.

Theorem unknown_subevent_preserved : forall R sub rest,
  find_class R K_LE_EVENT sub = None -> u_range 1 sub = true -> (length rest < 255)%nat ->
  let params := sub :: rest in
  let b := HCI_EVENT_PACKET :: HCI_LE_META_EVENT :: Z.of_nat (length params) :: params in
  parse_packet R b = Some (PLeMeta sub false [] params) /\
  packet_bytes R (PLeMeta sub false [] params) = Some b.
Proof.
  intros R sub rest Hf Hc Hlen params b. subst b params. split.
  - rewrite parse_packet_event, parse_event_frame_exact by (cbn [length]; lia).
    unfold event_body. rewrite Z.eqb_refl, Hf. reflexivity.
  - cbn [packet_bytes cached]. unfold class_event.
    apply event_bytes_shape; [reflexivity | cbn [length]; lia].
Qed.

(* a vendor event that every registered factory declines is the generic vendor event, its
   data the parameter block byte for byte *)
Definition no_rule_matches (rules : list (Z * list Z)) (params : list Z) : bool :=
  match params with
  | s :: q :: _ => negb (existsb (fun r => (s =? fst r) && existsb (Z.eqb q) (snd r)) rules)
  | _ => true
  end.

Lemma vendor_declined : forall R rules params,
  no_rule_matches rules params = true -> vendor_factories R rules params = Some None.
Proof.
  intros R rules params. induction rules as [|[sub ids] rest IH]; intro H; [reflexivity|].
  cbn [vendor_factories]. destruct params as [|s [|q tl]]; try (apply IH; reflexivity).
  cbn [no_rule_matches existsb fst snd] in H. apply negb_true_iff in H.
  apply orb_false_iff in H as [H1 H2]. rewrite H1. apply IH.
  cbn [no_rule_matches]. apply negb_true_iff. exact H2.
Qed.

Theorem vendor_generic_preserved : forall R c params,
  no_rule_matches (r_vendor R) params = true ->
  find_class R K_EVENT HCI_VENDOR_EVENT = Some c -> c_fields c = [F1 Rest] -> c_event c = HCI_VENDOR_EVENT ->
  (length params < 256)%nat ->
  let b := HCI_EVENT_PACKET :: HCI_VENDOR_EVENT :: Z.of_nat (length params) :: params in
  parse_packet R b = Some (PEvent HCI_VENDOR_EVENT true [VBytes params] params) /\
  packet_bytes R (PEvent HCI_VENDOR_EVENT true [VBytes params] params) = Some b.
Proof.
  intros R c params Hno Hf Hfs Hev Hlen b. subst b. split.
  - rewrite parse_packet_event, parse_event_frame_exact by exact Hlen.
    unfold event_body. change (HCI_VENDOR_EVENT =? HCI_LE_META_EVENT) with false.
    rewrite Z.eqb_refl. cbv iota. rewrite (vendor_declined R _ params Hno).
    unfold plain_event. rewrite Hf, Hfs. unfold parse_at0, parse_fields, F1.
    cbn [par_seq par F_codec field_codec par_field N_codec par_a].
    change (HCI_VENDOR_EVENT =? HCI_COMMAND_COMPLETE_EVENT) with false. reflexivity.
  - cbn [packet_bytes]. unfold class_params, class_event. rewrite Hf, Hfs, Hev.
    unfold serialize_fields, F1.
    cbn [ser Top_codec seq_codec ser_seq F_codec field_codec ser_field N_codec ser_a].
    rewrite app_nil_r, cached_same. apply event_bytes_shape; [reflexivity | exact Hlen].
Qed.

(* ------------------------------------------------------------------ bit fields by complete evaluation *)
(* all integers base .. base + 2^bits - 1 *)
Fixpoint zr (bits : nat) (base : Z) : list Z :=
  match bits with
  | O => [base]
  | S k => zr k base ++ zr k (base + 2 ^ Z.of_nat k)
  end.

Lemma in_zr : forall bits base z, base <= z < base + 2 ^ Z.of_nat bits -> In z (zr bits base).
Proof.
  induction bits as [|k IH]; intros base z H.
  - cbn in *. left. lia.
  - cbn [zr]. rewrite Nat2Z.inj_succ, Z.pow_succ_r in H by lia.
    apply in_or_app. destruct (Z.lt_ge_cases z (base + 2 ^ Z.of_nat k)).
    + left. apply IH. lia.
    + right. apply IH. lia.
Qed.

Definition acl_pack (handle pb bc : Z) : Z := Z.lor (Z.lor (Z.shiftl pb 12) (Z.shiftl bc 14)) handle.

Lemma acl_pack_ok : forall handle pb bc,
  0 <= handle < 4096 -> 0 <= pb < 4 -> 0 <= bc < 4 ->
  let h := acl_pack handle pb bc in
  u_range 2 h = true /\ Z.land h 4095 = handle /\ Z.land (Z.shiftr h 12) 3 = pb /\
  Z.land (Z.shiftr h 14) 3 = bc.
Proof.
  intros handle pb bc Hh Hp Hb.
  assert (forallb (fun handle => forallb (fun pb => forallb (fun bc =>
            let h := acl_pack handle pb bc in
            u_range 2 h && (Z.land h 4095 =? handle) && (Z.land (Z.shiftr h 12) 3 =? pb)
            && (Z.land (Z.shiftr h 14) 3 =? bc)) (zr 2 0)) (zr 2 0)) (zr 12 0) = true) as H
    by (vm_compute; reflexivity).
  rewrite forallb_forall in H. specialize (H handle (in_zr 12 0 handle Hh)).
  rewrite forallb_forall in H. specialize (H pb (in_zr 2 0 pb Hp)).
  rewrite forallb_forall in H. specialize (H bc (in_zr 2 0 bc Hb)).
  cbv zeta in H. apply andb_true_iff in H as [H H0]. apply andb_true_iff in H as [H H1].
  apply andb_true_iff in H as [H H2]. cbv zeta.
  repeat split; try (apply Z.eqb_eq); assumption.
Qed.

Lemma acl_unpack_ok : forall h, 0 <= h < 65536 ->
  acl_pack (Z.land h 4095) (Z.land (Z.shiftr h 12) 3) (Z.land (Z.shiftr h 14) 3) = h.
Proof.
  intros h Hh.
  assert (forallb (fun h => acl_pack (Z.land h 4095) (Z.land (Z.shiftr h 12) 3)
                                     (Z.land (Z.shiftr h 14) 3) =? h) (zr 16 0) = true) as H
    by (vm_compute; reflexivity).
  rewrite forallb_forall in H. apply Z.eqb_eq. apply H. apply in_zr. exact Hh.
Qed.

Lemma le2_frame : forall v rest, u_range 2 v = true ->
  le_decode (firstn 2 (le_encode 2 v ++ rest)) = v /\ skipn 2 (le_encode 2 v ++ rest) = rest.
Proof.
  intros v rest H. split.
  - rewrite firstn_len_app by reflexivity. apply le_decode_encode, u_range_iff, H.
  - apply skipn_len_app. reflexivity.
Qed.

(* ------------------------------------------------------------------ ACL *)
Theorem acl_roundtrip : forall R handle pb bc data,
  0 <= handle < 4096 -> 0 <= pb < 4 -> 0 <= bc < 4 -> Z.of_nat (length data) < 65536 ->
  let total := Z.of_nat (length data) in
  exists b, packet_bytes R (PAcl handle pb bc total data) = Some b /\
            parse_packet R b = Some (PAcl handle pb bc total data).
Proof.
  intros R handle pb bc data Hh Hp Hb Hlen total.
  destruct (acl_pack_ok handle pb bc Hh Hp Hb) as [Hr [E1 [E2 E3]]].
  fold (acl_pack handle pb bc) in *. set (h := acl_pack handle pb bc) in *.
  assert (Ht : u_range 2 total = true).
  { apply u_range_iff. unfold total. change (pow256 2) with 65536. lia. }
  exists (HCI_ACL_DATA_PACKET :: le_encode 2 h ++ le_encode 2 total ++ data). split.
  - cbn [packet_bytes]. unfold acl_bytes. fold (acl_pack handle pb bc). fold h.
    rewrite Hr, Ht. reflexivity.
  - rewrite !le2_shape. cbn [app]. unfold parse_packet, HCI_ACL_DATA_PACKET. cbn [Z.eqb Pos.eqb].
    unfold parse_acl. cbn [length Nat.ltb Nat.leb skipn firstn].
    rewrite !le2_decode_encode by assumption.
    unfold total at 1. rewrite Z.eqb_refl. cbn [negb].
    rewrite E1, E2, E3. reflexivity.
Qed.

Theorem acl_bytes_roundtrip : forall R b p,
  bytes_ok b = true -> hd 0 b = HCI_ACL_DATA_PACKET -> parse_acl b = Some p ->
  packet_bytes R p = Some b.
Proof.
  intros R b p Hok Hhd Hp. unfold parse_acl in Hp.
  destruct b as [|b0 [|b1 [|b2 [|b3 [|b4 data]]]]]; try discriminate.
  cbn [hd] in Hhd. subst b0.
  cbn [length Nat.ltb Nat.leb skipn firstn] in Hp.
  cbn in Hok. repeat (apply andb_true_iff in Hok as [? Hok]).
  destruct (le2_encode_decode b1 b2) as [He1 Hr1]; [assumption..|].
  destruct (le2_encode_decode b3 b4) as [He2 Hr2]; [assumption..|].
  remember (le_decode [b1; b2]) as h eqn:Eh.
  remember (le_decode [b3; b4]) as t eqn:Et.
  destruct (Z.of_nat (length data) =? t) eqn:El; [|discriminate].
  cbn [negb] in Hp. injection Hp as <-.
  cbn [packet_bytes]. unfold acl_bytes. cbv zeta.
  change (Z.lor (Z.lor (Z.shiftl (Z.land (Z.shiftr h 12) 3) 12) (Z.shiftl (Z.land (Z.shiftr h 14) 3) 14))
                (Z.land h 4095))
    with (acl_pack (Z.land h 4095) (Z.land (Z.shiftr h 12) 3) (Z.land (Z.shiftr h 14) 3)).
  rewrite acl_unpack_ok by (apply u_range_iff in Hr1; exact Hr1).
  rewrite Hr1, Hr2, He1, He2. reflexivity.
Qed.

Theorem acl_length_checked : forall b0 b1 b2 b3 b4 data,
  Z.of_nat (length data) <> le_decode [b3; b4] -> parse_acl (b0 :: b1 :: b2 :: b3 :: b4 :: data) = None.
Proof.
  intros. unfold parse_acl. cbn [length Nat.ltb Nat.leb skipn firstn].
  assert (Z.of_nat (length data) =? le_decode [b3; b4] = false) as -> by (apply Z.eqb_neq; assumption).
  reflexivity.
Qed.

(* ------------------------------------------------------------------ SCO *)
Definition sco_pack (handle status : Z) : Z := Z.lor (Z.shiftl status 12) handle.

Lemma sco_pack_ok : forall handle status, 0 <= handle < 4096 -> 0 <= status < 4 ->
  let h := sco_pack handle status in
  u_range 2 h = true /\ Z.land h 4095 = handle /\ Z.land (Z.shiftr h 12) 3 = status.
Proof.
  intros handle status Hh Hs.
  assert (forallb (fun handle => forallb (fun status =>
            let h := sco_pack handle status in
            u_range 2 h && (Z.land h 4095 =? handle) && (Z.land (Z.shiftr h 12) 3 =? status))
            (zr 2 0)) (zr 12 0) = true) as H by (vm_compute; reflexivity).
  rewrite forallb_forall in H. specialize (H handle (in_zr 12 0 handle Hh)).
  rewrite forallb_forall in H. specialize (H status (in_zr 2 0 status Hs)).
  cbv zeta in H. apply andb_true_iff in H as [H H0]. apply andb_true_iff in H as [H H1].
  cbv zeta. repeat split; try (apply Z.eqb_eq); assumption.
Qed.

(* bits 14..15 of the SCO header word are reserved: they are not kept *)
Lemma sco_unpack_ok : forall h, 0 <= h < 16384 ->
  sco_pack (Z.land h 4095) (Z.land (Z.shiftr h 12) 3) = h.
Proof.
  intros h Hh.
  assert (forallb (fun h => sco_pack (Z.land h 4095) (Z.land (Z.shiftr h 12) 3) =? h) (zr 14 0) = true)
    as H by (vm_compute; reflexivity).
  rewrite forallb_forall in H. apply Z.eqb_eq. apply H. apply in_zr. exact Hh.
Qed.

Theorem sco_roundtrip : forall R handle status data,
  0 <= handle < 4096 -> 0 <= status < 4 -> Z.of_nat (length data) < 256 ->
  let total := Z.of_nat (length data) in
  exists b, packet_bytes R (PSco handle status total data) = Some b /\
            parse_packet R b = Some (PSco handle status total data).
Proof.
  intros R handle status data Hh Hs Hlen total.
  destruct (sco_pack_ok handle status Hh Hs) as [Hr [E1 E2]].
  set (h := sco_pack handle status) in *.
  assert (Ht : u_range 1 total = true).
  { apply u_range_iff. unfold total. change (pow256 1) with 256. lia. }
  exists (HCI_SYNCHRONOUS_DATA_PACKET :: le_encode 2 h ++ [total] ++ data). split.
  - cbn [packet_bytes]. unfold sco_bytes. fold (sco_pack handle status). fold h.
    rewrite Hr, Ht. reflexivity.
  - rewrite le2_shape. cbn [app]. unfold parse_packet, HCI_SYNCHRONOUS_DATA_PACKET. cbn [Z.eqb Pos.eqb].
    unfold parse_sco. cbn [length Nat.ltb Nat.leb skipn firstn nth].
    rewrite le2_decode_encode by assumption.
    unfold total at 1. rewrite Z.eqb_refl. cbn [negb]. rewrite E1, E2. reflexivity.
Qed.

Theorem sco_bytes_roundtrip : forall R b p,
  bytes_ok b = true -> hd 0 b = HCI_SYNCHRONOUS_DATA_PACKET ->
  le_decode (firstn 2 (skipn 1 b)) < 16384 ->           (* reserved bits clear *)
  parse_sco b = Some p -> packet_bytes R p = Some b.
Proof.
  intros R b p Hok Hhd Hres Hp. unfold parse_sco in Hp.
  destruct b as [|b0 [|b1 [|b2 [|b3 data]]]]; try discriminate.
  cbn [hd] in Hhd. subst b0.
  cbn [length Nat.ltb Nat.leb skipn firstn nth] in Hp. cbn [skipn firstn] in Hres.
  cbn in Hok. repeat (apply andb_true_iff in Hok as [? Hok]).
  destruct (le2_encode_decode b1 b2) as [He1 Hr1]; [assumption..|].
  remember (le_decode [b1; b2]) as h eqn:Eh.
  destruct (Z.of_nat (length data) =? b3) eqn:El; [|discriminate].
  cbn [negb] in Hp. injection Hp as <-.
  cbn [packet_bytes]. unfold sco_bytes. cbv zeta.
  change (Z.lor (Z.shiftl (Z.land (Z.shiftr h 12) 3) 12) (Z.land h 4095))
    with (sco_pack (Z.land h 4095) (Z.land (Z.shiftr h 12) 3)).
  apply u_range_iff in Hr1.
  rewrite sco_unpack_ok by lia.
  assert (u_range 2 h = true) as -> by (apply u_range_iff; exact Hr1).
  assert (u_range 1 b3 = true) as ->.
  { apply u_range_iff. change (pow256 1) with 256. apply byte_ok_iff. assumption. }
  rewrite He1. reflexivity.
Qed.

(* ------------------------------------------------------------------ ISO *)
Definition iso_info (ts pb handle : Z) : Z := Z.lor (Z.lor (Z.shiftl ts 14) (Z.shiftl pb 12)) handle.
Definition iso_word (len psf : Z) : Z := Z.lor len (Z.shiftl psf 14).

Lemma iso_info_ok : forall ts pb handle, 0 <= ts < 2 -> 0 <= pb < 4 -> 0 <= handle < 4096 ->
  let i := iso_info ts pb handle in
  u_range 2 i = true /\ Z.land i 4095 = handle /\ Z.land (Z.shiftr i 12) 3 = pb /\
  Z.land (Z.shiftr i 14) 1 = ts.
Proof.
  intros ts pb handle Ht Hp Hh.
  assert (forallb (fun ts => forallb (fun pb => forallb (fun handle =>
            let i := iso_info ts pb handle in
            u_range 2 i && (Z.land i 4095 =? handle) && (Z.land (Z.shiftr i 12) 3 =? pb)
            && (Z.land (Z.shiftr i 14) 1 =? ts)) (zr 12 0)) (zr 2 0)) (zr 1 0) = true) as H
    by (vm_compute; reflexivity).
  rewrite forallb_forall in H. specialize (H ts (in_zr 1 0 ts Ht)).
  rewrite forallb_forall in H. specialize (H pb (in_zr 2 0 pb Hp)).
  rewrite forallb_forall in H. specialize (H handle (in_zr 12 0 handle Hh)).
  cbv zeta in H. apply andb_true_iff in H as [H H0]. apply andb_true_iff in H as [H H1].
  apply andb_true_iff in H as [H H2]. cbv zeta.
  repeat split; try (apply Z.eqb_eq); assumption.
Qed.

Lemma iso_word_ok : forall len psf, 0 <= len < 4096 -> 0 <= psf < 4 ->
  let w := iso_word len psf in
  u_range 2 w = true /\ Z.land w 4095 = len /\ Z.land (Z.shiftr w 14) 3 = psf.
Proof.
  intros len psf Hl Hp.
  assert (forallb (fun len => forallb (fun psf =>
            let w := iso_word len psf in
            u_range 2 w && (Z.land w 4095 =? len) && (Z.land (Z.shiftr w 14) 3 =? psf))
            (zr 2 0)) (zr 12 0) = true) as H by (vm_compute; reflexivity).
  rewrite forallb_forall in H. specialize (H len (in_zr 12 0 len Hl)).
  rewrite forallb_forall in H. specialize (H psf (in_zr 2 0 psf Hp)).
  cbv zeta in H. apply andb_true_iff in H as [H H0]. apply andb_true_iff in H as [H H1].
  cbv zeta. repeat split; try (apply Z.eqb_eq); assumption.
Qed.

Lemma le4_shape : forall v,
  le_encode 4 v = [v mod 256; (v / 256) mod 256; (v / 256 / 256) mod 256; (v / 256 / 256 / 256) mod 256].
Proof. reflexivity. Qed.

Lemma le4_decode_encode : forall v, u_range 4 v = true ->
  le_decode [v mod 256; (v / 256) mod 256; (v / 256 / 256) mod 256; (v / 256 / 256 / 256) mod 256] = v.
Proof. intros v H. rewrite <- le4_shape. apply le_decode_encode, u_range_iff, H. Qed.

(* the optional parts present in an ISO packet are determined by its flags: a time stamp
   iff TS = 1, the SDU information iff PB is 0b00 or 0b10 *)
Definition iso_shape_ok (pb : Z) (sdu : option (Z * Z * Z)) : bool :=
  match sdu with
  | Some (seq, len, psf) =>
      (Z.land pb 1 =? 0) && u_range 2 seq && ((0 <=? len) && (len <? 4096)) && ((0 <=? psf) && (psf <? 4))
  | None => negb (Z.land pb 1 =? 0)
  end.

Theorem iso_roundtrip : forall R handle pb total ts sdu frag,
  0 <= handle < 4096 -> 0 <= pb < 4 -> u_range 2 total = true ->
  match ts with Some t => u_range 4 t = true | None => True end ->
  iso_shape_ok pb sdu = true ->
  exists b, packet_bytes R (PIso handle pb total ts sdu frag) = Some b /\
            parse_packet R b = Some (PIso handle pb total ts sdu frag).
Proof.
  intros R handle pb total ts sdu frag Hh Hp Ht Hts Hsdu.
  destruct ts as [t|]; destruct sdu as [[[seq len] psf]|]; cbn [iso_shape_ok] in Hsdu.
  - (* time stamp and SDU info *)
    repeat (apply andb_true_iff in Hsdu as [Hsdu ?]).
    assert (Hl : 0 <= len < 4096) by lia. assert (Hq : 0 <= psf < 4) by lia.
    destruct (iso_info_ok 1 pb handle ltac:(lia) Hp Hh) as [Hr [E1 [E2 E3]]].
    destruct (iso_word_ok len psf Hl Hq) as [Hw [W1 W2]].
    eexists. split.
    + cbn [packet_bytes]. unfold iso_bytes. fold (iso_info 1 pb handle). fold (iso_word len psf).
      rewrite Hr, Ht, Hts, H1, Hw. cbn [andb]. reflexivity.
    + rewrite !le2_shape, le4_shape. cbn [app]. unfold parse_packet, HCI_ISO_DATA_PACKET. cbn [Z.eqb Pos.eqb].
      unfold parse_iso. cbn [length Nat.ltb Nat.leb skipn firstn Nat.add].
      rewrite !le2_decode_encode by assumption.
      rewrite E1, E2, E3, Hsdu. cbn [Z.eqb Pos.eqb andb].
      cbn [length Nat.ltb Nat.leb skipn firstn Nat.add].
      rewrite le4_decode_encode by assumption.
      rewrite !le2_decode_encode by assumption. rewrite W1, W2. reflexivity.
  - (* time stamp only *)
    apply negb_true_iff in Hsdu.
    destruct (iso_info_ok 1 pb handle ltac:(lia) Hp Hh) as [Hr [E1 [E2 E3]]].
    eexists. split.
    + cbn [packet_bytes]. unfold iso_bytes. fold (iso_info 1 pb handle).
      rewrite Hr, Ht, Hts. cbn [andb]. reflexivity.
    + rewrite !le2_shape, le4_shape. cbn [app]. unfold parse_packet, HCI_ISO_DATA_PACKET. cbn [Z.eqb Pos.eqb].
      unfold parse_iso. cbn [length Nat.ltb Nat.leb skipn firstn Nat.add].
      rewrite !le2_decode_encode by assumption.
      rewrite E1, E2, E3, Hsdu. cbn [Z.eqb Pos.eqb andb].
      cbn [length Nat.ltb Nat.leb skipn firstn Nat.add].
      rewrite le4_decode_encode by assumption. reflexivity.
  - (* SDU info only *)
    repeat (apply andb_true_iff in Hsdu as [Hsdu ?]).
    assert (Hl : 0 <= len < 4096) by lia. assert (Hq : 0 <= psf < 4) by lia.
    destruct (iso_info_ok 0 pb handle ltac:(lia) Hp Hh) as [Hr [E1 [E2 E3]]].
    destruct (iso_word_ok len psf Hl Hq) as [Hw [W1 W2]].
    eexists. split.
    + cbn [packet_bytes]. unfold iso_bytes. fold (iso_info 0 pb handle). fold (iso_word len psf).
      rewrite Hr, Ht, H1, Hw. cbn [andb]. reflexivity.
    + rewrite !le2_shape. cbn [app]. unfold parse_packet, HCI_ISO_DATA_PACKET. cbn [Z.eqb Pos.eqb].
      unfold parse_iso. cbn [length Nat.ltb Nat.leb skipn firstn Nat.add].
      rewrite !le2_decode_encode by assumption.
      rewrite E1, E2, E3, Hsdu. cbn [Z.eqb Pos.eqb andb].
      cbn [length Nat.ltb Nat.leb skipn firstn Nat.add].
      rewrite !le2_decode_encode by assumption. rewrite W1, W2. reflexivity.
  - (* neither *)
    apply negb_true_iff in Hsdu.
    destruct (iso_info_ok 0 pb handle ltac:(lia) Hp Hh) as [Hr [E1 [E2 E3]]].
    eexists. split.
    + cbn [packet_bytes]. unfold iso_bytes. fold (iso_info 0 pb handle).
      rewrite Hr, Ht. cbn [andb]. reflexivity.
    + rewrite !le2_shape. cbn [app]. unfold parse_packet, HCI_ISO_DATA_PACKET. cbn [Z.eqb Pos.eqb].
      unfold parse_iso. cbn [length Nat.ltb Nat.leb skipn firstn Nat.add].
      rewrite !le2_decode_encode by assumption.
      rewrite E1, E2, E3, Hsdu. cbn [Z.eqb Pos.eqb andb]. reflexivity.
Qed.

(* ------------------------------------------------------------------ Command Complete *)
Definition CC_FIELDS : list field := [F1 (UInt 1); F1 (UInt 2); F1 Rest].

Lemma cc_ser : forall num op rb, u_range 1 num = true -> u_range 2 op = true ->
  serialize_fields CC_FIELDS [VInt num; VInt op; VBytes rb] = Some (le_encode 1 num ++ le_encode 2 op ++ rb).
Proof.
  intros num op rb Hn Ho. unfold serialize_fields, CC_FIELDS, F1.
  cbn [ser Top_codec seq_codec ser_seq F_codec field_codec ser_field N_codec].
  rewrite !ser_a_UInt by (reflexivity || assumption).
  change (ser_a Rest (VBytes rb)) with (Some rb). cbv iota beta. rewrite app_nil_r. reflexivity.
Qed.

Lemma cc_par : forall num op rb, u_range 1 num = true -> u_range 2 op = true ->
  parse_at0 CC_FIELDS (le_encode 1 num ++ le_encode 2 op ++ rb) = Some [VInt num; VInt op; VBytes rb].
Proof.
  intros num op rb Hn Ho.
  unfold parse_at0. generalize (last (le_encode 1 num ++ le_encode 2 op ++ rb) 0). intro prev.
  unfold parse_fields, CC_FIELDS, F1.
  change (le_encode 1 num) with [num mod 256]. rewrite le2_shape. cbn [app].
  cbn [par_seq par F_codec field_codec par_field N_codec par_a].
  cbn [length Nat.leb firstn skipn].
  change [num mod 256] with (le_encode 1 num).
  rewrite <- le2_shape.
  rewrite !le_decode_encode by (apply u_range_iff; assumption).
  reflexivity.
Qed.

Theorem cmd_complete_roundtrip : forall R cc rc num op rn sf rvs rb,
  find_class R K_EVENT HCI_COMMAND_COMPLETE_EVENT = Some cc -> c_fields cc = CC_FIELDS ->
  c_event cc = HCI_COMMAND_COMPLETE_EVENT -> existsb (Z.eqb op) (r_lenient_return R) = false ->
  assoc op (r_return R) = Some (rn, sf) -> find_by_name R K_RETURN rn = Some rc ->
  wf_fields (c_fields rc) = true ->
  serialize_fields (c_fields rc) rvs = Some rb -> in_range (c_fields rc) (last rb 0) rvs = true ->
  (sf = true -> exists rest, rb = 0 :: rest) ->
  u_range 1 num = true -> u_range 2 op = true -> (length rb + 3 < 256)%nat ->
  let ps := le_encode 1 num ++ le_encode 2 op ++ rb in
  exists b, packet_bytes R (PCmdComplete [VInt num; VInt op] rn rvs []) = Some b /\
            parse_packet R b = Some (PCmdComplete [VInt num; VInt op] rn rvs ps).
Proof.
  intros R cc rc num op rn sf rvs rb Hcc Hfs Hev Hcust Hret Hrc Hw Hs Hi Hst Hn Ho Hlen ps.
  assert (Hpl : (length ps < 256)%nat).
  { unfold ps. rewrite !app_length, !le_encode_length. lia. }
  exists (HCI_EVENT_PACKET :: HCI_COMMAND_COMPLETE_EVENT :: Z.of_nat (length ps) :: ps). split.
  - cbn [packet_bytes cached]. unfold class_event. rewrite Hrc, Hcc, Hs, Hfs, Hev. cbn [app].
    rewrite cc_ser by assumption. fold ps. apply event_bytes_shape; [reflexivity | exact Hpl].
  - rewrite parse_packet_event, parse_event_frame_exact by exact Hpl.
    rewrite event_code_not_special by discriminate.
    unfold plain_event.
    rewrite Hcc, Hfs. unfold ps at 1. rewrite cc_par by assumption.
    rewrite Z.eqb_refl.
    assert (skipn 3 ps = rb) as ->.
    { unfold ps. rewrite app_assoc. apply skipn_len_app. rewrite app_length, !le_encode_length. reflexivity. }
    unfold parse_return. rewrite Hret, Hrc, Hcust.
    destruct (parse_serialize _ (last rb 0) rvs Hw Hi) as [b' [n [Hs' [Hp Hnn]]]].
    rewrite Hs in Hs'. assert (b' = rb) as -> by congruence. clear Hs'.
    assert (Hpar : parse_at0 (c_fields rc) rb = Some rvs) by (unfold parse_at0; rewrite Hp; reflexivity).
    destruct sf.
    + destruct (Hst eq_refl) as [rest ->]. cbn [Z.eqb negb]. rewrite Hpar. reflexivity.
    + rewrite Hpar. reflexivity.
Qed.

(* ------------------------------------------------------------------ lenient return parse *)
Lemma par_lenient_complete : forall fs prev bs vs n,
  par_seq F_codec fs prev bs = Some (vs, n) -> par_lenient fs prev bs = vs.
Proof.
  induction fs as [|f fs IH]; intros prev bs vs n H.
  - cbn in H. inversion H. reflexivity.
  - cbn [par_seq] in H. cbn [par_lenient].
    destruct (par F_codec f prev bs) as [[v n1]|]; [|discriminate].
    destruct (par_seq F_codec fs (adv_prev n1 prev bs) (skipn n1 bs)) as [[vs' m]|] eqn:E; [|discriminate].
    inversion H; subst. f_equal. eapply IH. exact E.
Qed.

Lemma par_lenient_length : forall fs prev bs, length (par_lenient fs prev bs) = length fs.
Proof.
  induction fs as [|f fs IH]; intros prev bs; [reflexivity|].
  cbn [par_lenient]. destruct (par F_codec f prev bs) as [[v n]|].
  - cbn [length]. rewrite IH. reflexivity.
  - apply map_length.
Qed.

(* the field-by-field parse returns the values that were serialised (full-length input),
   whatever the status *)
Theorem lenient_return_roundtrip : forall R rc op rn sf rvs,
  existsb (Z.eqb op) (r_lenient_return R) = true ->
  assoc op (r_return R) = Some (rn, sf) -> find_by_name R K_RETURN rn = Some rc ->
  tight_fields (c_fields rc) = true ->
  forall prev, in_range (c_fields rc) prev rvs = true ->
  exists rb, serialize_fields (c_fields rc) rvs = Some rb /\
             forall tail, last (rb ++ tail) 0 = prev -> parse_return R op (rb ++ tail) = Some (rn, rvs).
Proof.
  intros R rc op rn sf rvs Hl Hret Hrc Ht prev Hi.
  destruct (parse_serialize_tight _ prev rvs Ht Hi) as [rb [Hs Hp]].
  exists rb. split; [exact Hs|]. intros tail Hlast.
  unfold parse_return. rewrite Hret, Hrc, Hl. rewrite Hlast.
  specialize (Hp tail). unfold parse_fields in Hp.
  rewrite (par_lenient_complete _ _ _ _ _ Hp). reflexivity.
Qed.

(* a short return block gives a full-length value list: what could be read, then zeros *)
Theorem lenient_return_total : forall R rc op rn sf rpb,
  existsb (Z.eqb op) (r_lenient_return R) = true ->
  assoc op (r_return R) = Some (rn, sf) -> find_by_name R K_RETURN rn = Some rc ->
  exists rvs, parse_return R op rpb = Some (rn, rvs) /\ length rvs = length (c_fields rc).
Proof.
  intros R rc op rn sf rpb Hl Hret Hrc. unfold parse_return. rewrite Hret, Hrc, Hl.
  eexists. split; [reflexivity | apply par_lenient_length].
Qed.

(* ------------------------------------------------------------------ PHY-mask commands *)
Lemma par_seq_prefix : forall (c : codec) ss1 ss2 prev bs vs n,
  par_seq c (ss1 ++ ss2) prev bs = Some (vs, n) ->
  exists n1, par_seq c ss1 prev bs = Some (firstn (length ss1) vs, n1).
Proof.
  intros c. induction ss1 as [|s ss1 IH]; intros ss2 prev bs vs n H.
  - exists 0%nat. reflexivity.
  - cbn [app par_seq] in H. cbn [par_seq].
    destruct (par c s prev bs) as [[v n1]|]; [|discriminate].
    destruct (par_seq c (ss1 ++ ss2) (adv_prev n1 prev bs) (skipn n1 bs)) as [[vs' m]|] eqn:E; [|discriminate].
    inversion H; subst. destruct (IH _ _ _ _ _ E) as [m1 H1]. rewrite H1.
    exists (n1 + m1)%nat. reflexivity.
Qed.

Lemma nth_error_firstn_lt : forall (A : Type) (l : list A) n i, (i < n)%nat ->
  nth_error (firstn n l) i = nth_error l i.
Proof.
  intros A l. induction l as [|x l IH]; intros n i H.
  - rewrite firstn_nil. reflexivity.
  - destruct n; [lia|]. destruct i; [reflexivity|]. cbn. apply IH. lia.
Qed.

Lemma tight_phy_fields : forall pc k,
  tight_fields (p_head pc) = true -> forallb (fun a => wf_a a && tight_a a) (p_row pc) = true ->
  tight_fields (phy_fields pc k) = true.
Proof.
  intros pc k Hh Hr.
  change (tight_seq F_codec (p_head pc) = true) in Hh.
  change (tight_seq F_codec (p_head pc ++ concat (repeat (map F1 (p_row pc)) k)) = true).
  unfold tight_seq in *. rewrite forallb_app. apply andb_true_iff. split; [exact Hh|].
  induction k as [|k IH]; [reflexivity|].
  cbn [repeat concat]. rewrite forallb_app. apply andb_true_iff. split; [|exact IH].
  clear IH Hh. induction (p_row pc) as [|a r IHr]; [reflexivity|].
  cbn [map forallb] in *. apply andb_true_iff in Hr as [Ha Hr].
  apply andb_true_iff. split; [exact Ha | exact (IHr Hr)].
Qed.

(* values -> parameter block -> values for the two hand-written commands: with as many
   per-PHY items as the mask has bits, everything comes back, whatever follows *)
Theorem phy_roundtrip : forall pc prev0 vs k,
  wf_phy pc = true -> phy_count pc vs = Some k ->
  in_range (phy_fields pc k) prev0 vs = true ->
  exists b, serialize_phy pc vs = Some b /\
            forall tail, parse_phy pc prev0 (b ++ tail) = Some vs.
Proof.
  intros pc prev0 vs k Hw Hk Hi.
  unfold wf_phy in Hw. apply andb_true_iff in Hw as [Hw Hidx].
  apply andb_true_iff in Hw as [Hw _]. apply andb_true_iff in Hw as [Hh Hr].
  pose proof (tight_phy_fields pc k Hh Hr) as Ht.
  destruct (parse_serialize_tight _ prev0 vs Ht Hi) as [b [Hs Hp]].
  exists b. split; [unfold serialize_phy; rewrite Hk; exact Hs|].
  intro tail. specialize (Hp tail). unfold parse_phy.
  unfold parse_fields, phy_fields in Hp.
  destruct (par_seq_prefix F_codec _ _ _ _ _ _ Hp) as [n1 Hhd].
  unfold parse_fields. rewrite Hhd.
  assert (Hlt : (p_idx pc < length (p_head pc))%nat).
  { apply nth_error_Some. destruct (nth_error (p_head pc) (p_idx pc)); [discriminate|discriminate Hidx]. }
  match goal with |- context [phy_count pc ?x] => assert (phy_count pc x = Some k) as -> end.
  { unfold phy_count in *. rewrite nth_error_firstn_lt by exact Hlt. exact Hk. }
  unfold phy_fields. rewrite Hp. reflexivity.
Qed.

(* ------------------------------------------------------------------ ISO, bytes -> packet -> bytes *)
Lemma iso_info_unpack : forall i, 0 <= i < 32768 ->
  let ts := Z.land (Z.shiftr i 14) 1 in
  (ts = 0 \/ ts = 1) /\ iso_info ts (Z.land (Z.shiftr i 12) 3) (Z.land i 4095) = i.
Proof.
  intros i Hi.
  assert (forallb (fun i => let ts := Z.land (Z.shiftr i 14) 1 in
                            ((ts =? 0) || (ts =? 1)) &&
                            (iso_info ts (Z.land (Z.shiftr i 12) 3) (Z.land i 4095) =? i)) (zr 15 0) = true)
    as H by (vm_compute; reflexivity).
  rewrite forallb_forall in H. specialize (H i (in_zr 15 0 i Hi)). cbv zeta in H.
  apply andb_true_iff in H as [H1 H2]. apply Z.eqb_eq in H2. cbv zeta. split; [|exact H2].
  apply orb_true_iff in H1 as [H1|H1]; apply Z.eqb_eq in H1; auto.
Qed.

Lemma iso_word_unpack : forall w, 0 <= w < 65536 -> Z.land (Z.shiftr w 12) 3 = 0 ->
  iso_word (Z.land w 4095) (Z.land (Z.shiftr w 14) 3) = w.
Proof.
  intros w Hw Hres.
  assert (forallb (fun w => negb (Z.land (Z.shiftr w 12) 3 =? 0) ||
                            (iso_word (Z.land w 4095) (Z.land (Z.shiftr w 14) 3) =? w)) (zr 16 0) = true)
    as H by (vm_compute; reflexivity).
  rewrite forallb_forall in H. specialize (H w (in_zr 16 0 w Hw)).
  apply orb_true_iff in H as [H|H].
  - apply negb_true_iff, Z.eqb_neq in H. contradiction.
  - apply Z.eqb_eq. exact H.
Qed.

Lemma le4_encode_decode : forall a b c d,
  byte_ok a = true -> byte_ok b = true -> byte_ok c = true -> byte_ok d = true ->
  le_encode 4 (le_decode [a; b; c; d]) = [a; b; c; d] /\ u_range 4 (le_decode [a; b; c; d]) = true.
Proof.
  intros a b c d Ha Hb Hc Hd.
  assert (bytes_ok [a; b; c; d] = true) as Hok by (cbn; rewrite Ha, Hb, Hc, Hd; reflexivity).
  split.
  - apply (le_encode_decode_n 4 [a; b; c; d]); [reflexivity | exact Hok].
  - apply u_range_iff. exact (le_decode_range [a; b; c; d] Hok).
Qed.

(* reserved bits: bit 15 of the first header word; bits 12..13 of the SDU info word *)
Definition iso_reserved_clear (b : list Z) : bool :=
  let info := le_decode (firstn 2 (skipn 1 b)) in
  (info <? 32768) &&
  (let pos := if Z.land (Z.shiftr info 14) 1 =? 1 then 9%nat else 5%nat in
   if Z.land (Z.land (Z.shiftr info 12) 3) 1 =? 0
   then Z.land (Z.shiftr (le_decode (firstn 2 (skipn (pos + 2) b))) 12) 3 =? 0
   else true).

Theorem iso_bytes_roundtrip : forall R b p,
  bytes_ok b = true -> hd 0 b = HCI_ISO_DATA_PACKET -> iso_reserved_clear b = true ->
  parse_iso b = Some p -> packet_bytes R p = Some b.
Proof.
  intros R b p Hok Hhd Hres Hp. unfold parse_iso in Hp. unfold iso_reserved_clear in Hres.
  destruct b as [|b0 [|i0 [|i1 [|t0 [|t1 rest]]]]]; try discriminate.
  cbn [hd] in Hhd. subst b0.
  cbn [length Nat.ltb Nat.leb] in Hp.
  change (firstn 2 (skipn 1 (HCI_ISO_DATA_PACKET :: i0 :: i1 :: t0 :: t1 :: rest))) with [i0; i1] in *.
  change (firstn 2 (skipn 3 (HCI_ISO_DATA_PACKET :: i0 :: i1 :: t0 :: t1 :: rest))) with [t0; t1] in *.
  cbn in Hok. repeat (apply andb_true_iff in Hok as [? Hok]).
  destruct (le2_encode_decode i0 i1) as [Hei Hri]; [assumption..|].
  destruct (le2_encode_decode t0 t1) as [Het Hrt]; [assumption..|].
  remember (le_decode [i0; i1]) as info eqn:Einfo.
  remember (le_decode [t0; t1]) as total eqn:Etotal.
  apply andb_true_iff in Hres as [Hlt Hres]. apply Z.ltb_lt in Hlt.
  assert (Hi : 0 <= info < 32768) by (apply u_range_iff in Hri; lia).
  destruct (iso_info_unpack info Hi) as [Hts Hinfo]. cbv zeta in Hts, Hinfo.
  remember (Z.land (Z.shiftr info 14) 1) as ts eqn:Ets.
  remember (Z.land (Z.shiftr info 12) 3) as pb eqn:Epb.
  remember (Z.land info 4095) as handle eqn:Eh.
  destruct Hts as [-> | ->]; cbn [Z.eqb Pos.eqb andb] in Hp, Hres.
  - (* no time stamp *)
    destruct (Z.land pb 1 =? 0) eqn:Esdu; cbn [andb] in Hp.
    + destruct rest as [|s0 [|s1 [|w0 [|w1 frag]]]]; try discriminate.
      cbn in Hok. repeat (apply andb_true_iff in Hok as [? Hok]).
      cbn [length Nat.ltb Nat.leb Nat.add skipn firstn] in Hp, Hres.
      destruct (le2_encode_decode s0 s1) as [Hes Hrs]; [assumption..|].
      destruct (le2_encode_decode w0 w1) as [Hew Hrw]; [assumption..|].
      remember (le_decode [s0; s1]) as seq eqn:Eseq.
      remember (le_decode [w0; w1]) as w eqn:Ew.
      apply Z.eqb_eq in Hres.
      injection Hp as <-.
      cbn [packet_bytes]. unfold iso_bytes. cbv zeta.
      change (Z.lor (Z.lor (Z.shiftl 0 14) (Z.shiftl pb 12)) handle) with (iso_info 0 pb handle).
      change (Z.lor (Z.land w 4095) (Z.shiftl (Z.land (Z.shiftr w 14) 3) 14))
        with (iso_word (Z.land w 4095) (Z.land (Z.shiftr w 14) 3)).
      rewrite Hinfo. rewrite iso_word_unpack by (try assumption; apply u_range_iff in Hrw; exact Hrw).
      rewrite Hri, Hrt, Hrs, Hrw, Hei, Het, Hes, Hew. reflexivity.
    + injection Hp as <-.
      cbn [packet_bytes]. unfold iso_bytes. cbv zeta.
      change (Z.lor (Z.lor (Z.shiftl 0 14) (Z.shiftl pb 12)) handle) with (iso_info 0 pb handle).
      rewrite Hinfo, Hri, Hrt, Hei, Het. reflexivity.
  - (* time stamp *)
    destruct rest as [|a0 [|a1 [|a2 [|a3 rest]]]]; try discriminate.
    cbn in Hok. repeat (apply andb_true_iff in Hok as [? Hok]).
    cbn [length Nat.ltb Nat.leb Nat.add skipn firstn] in Hp.
    destruct (le4_encode_decode a0 a1 a2 a3) as [Hea Hra]; [assumption..|].
    remember (le_decode [a0; a1; a2; a3]) as tstamp eqn:Ea.
    destruct (Z.land pb 1 =? 0) eqn:Esdu; cbn [andb] in Hp.
    + destruct rest as [|s0 [|s1 [|w0 [|w1 frag]]]]; try discriminate.
      cbn in Hok. repeat (apply andb_true_iff in Hok as [? Hok]).
      cbn [length Nat.ltb Nat.leb Nat.add skipn firstn] in Hp, Hres.
      destruct (le2_encode_decode s0 s1) as [Hes Hrs]; [assumption..|].
      destruct (le2_encode_decode w0 w1) as [Hew Hrw]; [assumption..|].
      remember (le_decode [s0; s1]) as seq eqn:Eseq.
      remember (le_decode [w0; w1]) as w eqn:Ew.
      apply Z.eqb_eq in Hres.
      injection Hp as <-.
      cbn [packet_bytes]. unfold iso_bytes. cbv zeta.
      change (Z.lor (Z.lor (Z.shiftl 1 14) (Z.shiftl pb 12)) handle) with (iso_info 1 pb handle).
      change (Z.lor (Z.land w 4095) (Z.shiftl (Z.land (Z.shiftr w 14) 3) 14))
        with (iso_word (Z.land w 4095) (Z.land (Z.shiftr w 14) 3)).
      rewrite Hinfo. rewrite iso_word_unpack by (try assumption; apply u_range_iff in Hrw; exact Hrw).
      rewrite Hri, Hrt, Hra, Hrs, Hrw, Hei, Het, Hea, Hes, Hew. reflexivity.
    + injection Hp as <-.
      cbn [packet_bytes]. unfold iso_bytes. cbv zeta.
      change (Z.lor (Z.lor (Z.shiftl 1 14) (Z.shiftl pb 12)) handle) with (iso_info 1 pb handle).
      rewrite Hinfo, Hri, Hrt, Hra, Hei, Het, Hea. reflexivity.
Qed.

Lemma find_phy_code : forall R op pc, find_phy R op = Some pc -> p_code pc = op /\ In pc (r_phy R).
Proof.
  intros R op pc H. unfold find_phy in H. apply find_some in H as [Hin H].
  apply Z.eqb_eq in H. auto.
Qed.

Theorem phy_command_roundtrip : forall R pc vs k b,
  find_class R K_COMMAND (p_code pc) = None -> find_phy R (p_code pc) = Some pc ->
  wf_phy pc = true -> phy_count pc vs = Some k ->
  serialize_phy pc vs = Some b -> (length b < 256)%nat ->
  in_range (phy_fields pc k) (last b 0) vs = true ->
  exists pkt, packet_bytes R (PCommand (p_code pc) true vs b) = Some pkt /\
              parse_packet R pkt = Some (PCommand (p_code pc) true vs b).
Proof.
  intros R pc vs k b Hf Hphy Hw Hk Hs Hlen Hi.
  assert (Hop : u_range 2 (p_code pc) = true).
  { unfold wf_phy in Hw. apply andb_true_iff in Hw as [Hw _]. apply andb_true_iff in Hw as [_ Hw]. exact Hw. }
  exists (HCI_COMMAND_PACKET :: le_encode 2 (p_code pc) ++ [Z.of_nat (length b)] ++ b). split.
  - cbn [packet_bytes]. unfold class_params. rewrite Hf. change (K_COMMAND =? K_COMMAND) with true.
    cbv iota. rewrite Hphy, Hs, cached_same.
    unfold command_bytes. rewrite Hop.
    assert ((length b <? 256)%nat = true) as -> by (apply Nat.ltb_lt; exact Hlen). reflexivity.
  - destruct (phy_roundtrip pc (last b 0) vs k Hw Hk Hi) as [b' [Hs' Hp]].
    rewrite Hs in Hs'. assert (b' = b) as -> by congruence. clear Hs'.
    specialize (Hp []). rewrite app_nil_r in Hp.
    rewrite le2_shape. cbn [app]. unfold parse_packet, HCI_COMMAND_PACKET. cbn [Z.eqb Pos.eqb].
    unfold parse_command. cbn [length Nat.ltb Nat.leb skipn firstn nth].
    rewrite le2_decode_encode by exact Hop. rewrite Z.eqb_refl. cbn [negb].
    rewrite Hf, Hphy, Hp, Hs. reflexivity.
Qed.

(* ------------------------------------------------------------------ the cache and well-formed blocks *)
(* A parameter block is well-formed for a class when the class's parser consumes it exactly.
   For such a block it does not matter whether __bytes__ uses the cached bytes or
   recomputes them from the fields: both give the block back - also when it is empty. *)
Theorem wellformed_block_recomputes : forall fs prev ps vs,
  wf_fields fs = true -> tight_fields fs = true -> bytes_ok ps = true ->
  parse_fields fs prev ps = Some (vs, length ps) ->
  serialize_fields fs vs = Some ps /\ cached ps (serialize_fields fs vs) = Some ps.
Proof.
  intros fs prev ps vs Hw Ht Hok Hp.
  destruct (serialize_parse fs prev ps vs (length ps) Hw Hok Hp (le_n _)) as [pad [Hs Hpad]].
  rewrite (Hpad Ht), app_nil_r, firstn_all in Hs. split; [exact Hs|].
  rewrite Hs. apply cached_same.
Qed.
