(* Proofs/SpecCodec.v — round-trip theorems for the generic field codec of
   Model/SpecCodec.v, proved once per combinator and lifted to every spec list. *)
From Coq Require Import ZArith List Bool Lia.
From BV Require Import Base.Bytes Proofs.Bytes Model.SpecCodec.
Import ListNotations.
Open Scope Z_scope.

(* ------------------------------------------------------------------ what "correct codec" means *)
(* values -> bytes -> values, for self-delimiting specs, with anything after them *)
Definition rt_tight (c : codec) : Prop :=
  forall s prev v, wf c s = true -> tight c s = true -> inr c s prev v = true ->
  exists b, ser c s v = Some b /\
            forall tail, par c s prev (b ++ tail) = Some (v, length b).

(* values -> bytes -> values, for any well-formed spec in last position *)
Definition rt_last (c : codec) : Prop :=
  forall s prev v, wf c s = true -> inr c s prev v = true ->
  exists b n, ser c s v = Some b /\ par c s prev b = Some (v, n) /\ (n <= length b)%nat.

(* bytes -> values -> bytes: what was consumed comes back (followed by padding only for
   the padded spec) *)
Definition rt_bytes (c : codec) : Prop :=
  forall s prev bs v n, wf c s = true -> bytes_ok bs = true ->
  par c s prev bs = Some (v, n) -> (n <= length bs)%nat ->
  exists pad, ser c s v = Some (firstn n bs ++ pad) /\ (tight c s = true -> pad = []).

(* strict specs never accept input shorter than what they declare consumed *)
Definition rt_strict (c : codec) : Prop :=
  forall s prev bs v n, strict c s = true -> par c s prev bs = Some (v, n) ->
  (n <= length bs)%nat.

Definition codec_ok (c : codec) : Prop :=
  rt_tight c /\ rt_last c /\ rt_bytes c /\ rt_strict c.

(* ------------------------------------------------------------------ list helpers *)
Lemma firstn_len_app : forall (A : Type) n (a b : list A),
  length a = n -> firstn n (a ++ b) = a.
Proof. intros A n a b <-. apply firstn_app_exact. Qed.

Lemma skipn_len_app : forall (A : Type) n (a b : list A),
  length a = n -> skipn n (a ++ b) = b.
Proof. intros A n a b <-. apply skipn_app_exact. Qed.

Lemma firstn_plus : forall (A : Type) n m (l : list A),
  firstn (n + m) l = firstn n l ++ firstn m (skipn n l).
Proof.
  induction n as [|n IH]; intros m l; [reflexivity|].
  destruct l as [|x l]; cbn [Nat.add firstn skipn app].
  - rewrite firstn_nil. reflexivity.
  - rewrite IH. reflexivity.
Qed.

Lemma skipn_skipn' : forall (A : Type) n m (l : list A),
  skipn m (skipn n l) = skipn (n + m) l.
Proof.
  induction n as [|n IH]; intros m l; [reflexivity|].
  destruct l as [|x l]; cbn [Nat.add skipn].
  - apply skipn_nil.
  - apply IH.
Qed.

Lemma forallb_repeat : forall (A : Type) (f : A -> bool) x n,
  f x = true -> forallb f (repeat x n) = true.
Proof. induction n; intro H; cbn; [reflexivity|]. rewrite H. auto. Qed.

Lemma adv_prev_app : forall b prev tail,
  adv_prev (length b) prev (b ++ tail) = last b prev.
Proof. intros. unfold adv_prev. rewrite firstn_app_exact. reflexivity. Qed.

(* ------------------------------------------------------------------ sequences *)
Section SeqProofs.
  Variable c : codec.

  Lemma tight_seq_wf_seq : forall ss, tight_seq c ss = true -> wf_seq c ss = true.
  Proof.
    induction ss as [|s ss IH]; intro H; [reflexivity|].
    cbn in H. apply andb_true_iff in H as [H1 H2]. apply andb_true_iff in H1 as [Hw Ht].
    cbn [wf_seq]. destruct ss as [|s2 ss2]; [assumption|].
    rewrite Hw, Ht. cbn. apply IH. assumption.
  Qed.

  Lemma par_seq_length : forall ss prev bs vs n,
    par_seq c ss prev bs = Some (vs, n) -> length vs = length ss.
  Proof.
    induction ss as [|s ss IH]; intros prev bs vs n H; cbn in H.
    - inversion H. reflexivity.
    - destruct (par c s prev bs) as [[v n1]|]; [|discriminate].
      destruct (par_seq c ss (adv_prev n1 prev bs) (skipn n1 bs)) as [[vs' m]|] eqn:E; [|discriminate].
      inversion H; subst. cbn. f_equal. eapply IH. eassumption.
  Qed.

  Lemma seq_tight : rt_tight c ->
    forall ss prev vs, tight_seq c ss = true -> inr_seq c ss prev vs = true ->
    exists b, ser_seq c ss vs = Some b /\
              forall tail, par_seq c ss prev (b ++ tail) = Some (vs, length b).
  Proof.
    intro HT. induction ss as [|s ss IH]; intros prev vs Ht Hi.
    - destruct vs; [|discriminate]. exists []. split; reflexivity.
    - destruct vs as [|v vs]; [discriminate|].
      cbn in Ht. apply andb_true_iff in Ht as [H1 Ht]. apply andb_true_iff in H1 as [Hw Hts].
      cbn [inr_seq] in Hi. apply andb_true_iff in Hi as [Hiv Hi].
      destruct (HT s prev v Hw Hts Hiv) as [b1 [Hs Hp]].
      rewrite Hs in Hi.
      destruct (IH (last b1 prev) vs Ht Hi) as [b2 [Hs2 Hp2]].
      exists (b1 ++ b2). split.
      + cbn [ser_seq]. rewrite Hs, Hs2. reflexivity.
      + intro tail. cbn [par_seq]. rewrite <- app_assoc. rewrite Hp.
        rewrite adv_prev_app, skipn_app_exact, Hp2, app_length. reflexivity.
  Qed.

  Lemma seq_last : rt_tight c -> rt_last c ->
    forall ss prev vs, wf_seq c ss = true -> inr_seq c ss prev vs = true ->
    exists b n, ser_seq c ss vs = Some b /\ par_seq c ss prev b = Some (vs, n) /\
                (n <= length b)%nat.
  Proof.
    intros HT HL. induction ss as [|s ss IH]; intros prev vs Hw Hi.
    - destruct vs; [|discriminate]. exists [], 0%nat. repeat split; reflexivity.
    - destruct vs as [|v vs]; [discriminate|].
      cbn [inr_seq] in Hi. apply andb_true_iff in Hi as [Hiv Hi].
      destruct ss as [|s2 ss2].
      + cbn [wf_seq] in Hw.
        destruct (HL s prev v Hw Hiv) as [b [n [Hs [Hp Hn]]]].
        rewrite Hs in Hi. destruct vs; [|discriminate].
        exists b, n. repeat split.
        * cbn [ser_seq]. rewrite Hs. rewrite app_nil_r. reflexivity.
        * cbn [par_seq]. rewrite Hp. rewrite Nat.add_0_r. reflexivity.
        * assumption.
      + cbn [wf_seq] in Hw. apply andb_true_iff in Hw as [H1 Hw].
        apply andb_true_iff in H1 as [Hws Hts].
        destruct (HT s prev v Hws Hts Hiv) as [b1 [Hs Hp]].
        rewrite Hs in Hi.
        destruct (IH (last b1 prev) vs Hw Hi) as [b2 [n2 [Hs2 [Hp2 Hn2]]]].
        exists (b1 ++ b2), (length b1 + n2)%nat. repeat split.
        * remember (s2 :: ss2) as ss'. cbn [ser_seq]. rewrite Hs, Hs2. reflexivity.
        * remember (s2 :: ss2) as ss'. cbn [par_seq]. rewrite Hp.
          rewrite adv_prev_app, skipn_app_exact, Hp2. reflexivity.
        * rewrite app_length. lia.
  Qed.

  Lemma seq_bytes : rt_bytes c ->
    forall ss prev bs vs n, wf_seq c ss = true -> bytes_ok bs = true ->
    par_seq c ss prev bs = Some (vs, n) -> (n <= length bs)%nat ->
    exists pad, ser_seq c ss vs = Some (firstn n bs ++ pad) /\
                (tight_seq c ss = true -> pad = []).
  Proof.
    intro HB. induction ss as [|s ss IH]; intros prev bs vs n Hw Hok Hp Hn.
    - cbn in Hp. inversion Hp; subst. exists []. split; reflexivity.
    - cbn [par_seq] in Hp.
      destruct (par c s prev bs) as [[v n1]|] eqn:E1; [|discriminate].
      destruct (par_seq c ss (adv_prev n1 prev bs) (skipn n1 bs)) as [[vs' m]|] eqn:E2; [|discriminate].
      inversion Hp; subst. clear Hp.
      assert (Hws : wf c s = true).
      { cbn [wf_seq] in Hw. destruct ss; [assumption|].
        apply andb_true_iff in Hw as [H1 _]. apply andb_true_iff in H1 as [H1 _]. assumption. }
      assert (Hn1 : (n1 <= length bs)%nat) by lia.
      destruct (HB s prev bs v n1 Hws Hok E1 Hn1) as [pad1 [Hs Hpad1]].
      destruct ss as [|s2 ss2].
      + cbn in E2. inversion E2; subst. exists pad1. split.
        * cbn [ser_seq]. rewrite Hs. rewrite app_nil_r, Nat.add_0_r. reflexivity.
        * intro Ht. cbn in Ht. rewrite andb_true_r in Ht.
          apply andb_true_iff in Ht as [_ Ht]. auto.
      + cbn [wf_seq] in Hw. apply andb_true_iff in Hw as [H1 Hw].
        apply andb_true_iff in H1 as [_ Hts].
        rewrite (Hpad1 Hts) in Hs. rewrite app_nil_r in Hs.
        assert (Hm : (m <= length (skipn n1 bs))%nat) by (rewrite skipn_length; lia).
        destruct (IH _ _ _ _ Hw (bytes_ok_skipn n1 bs Hok) E2 Hm) as [pad [Hs2 Hpad]].
        exists pad. split.
        * remember (s2 :: ss2) as ss'. cbn [ser_seq]. rewrite Hs, Hs2.
          rewrite firstn_plus, app_assoc. reflexivity.
        * intro Ht. apply Hpad. remember (s2 :: ss2) as ss'. cbn in Ht.
          apply andb_true_iff in Ht as [_ Ht]. assumption.
  Qed.

  Lemma seq_strict : rt_strict c ->
    forall ss prev bs vs n, strict_seq c ss = true ->
    par_seq c ss prev bs = Some (vs, n) -> (n <= length bs)%nat.
  Proof.
    intro HS. induction ss as [|s ss IH]; intros prev bs vs n Hst Hp.
    - cbn in Hp. inversion Hp. lia.
    - cbn [par_seq] in Hp. cbn in Hst. apply andb_true_iff in Hst as [Hs1 Hst].
      destruct (par c s prev bs) as [[v n1]|] eqn:E1; [|discriminate].
      destruct (par_seq c ss (adv_prev n1 prev bs) (skipn n1 bs)) as [[vs' m]|] eqn:E2; [|discriminate].
      inversion Hp; subst.
      pose proof (HS s prev bs v n1 Hs1 E1) as H1.
      pose proof (IH _ _ _ _ Hst E2) as H2. rewrite skipn_length in H2. lia.
  Qed.

  Theorem seq_codec_ok : codec_ok c -> codec_ok (seq_codec c).
  Proof.
    intros [HT [HL [HB HS]]]. repeat split.
    - intros ss prev v Hw Ht Hi. destruct v as [| | |vs]; try discriminate.
      destruct (seq_tight HT ss prev vs Ht Hi) as [b [Hs Hp]].
      exists b. split; [exact Hs|]. intro tail. cbn. rewrite Hp. reflexivity.
    - intros ss prev v Hw Hi. destruct v as [| | |vs]; try discriminate.
      destruct (seq_last HT HL ss prev vs Hw Hi) as [b [n [Hs [Hp Hn]]]].
      exists b, n. repeat split; [exact Hs| |exact Hn]. cbn. rewrite Hp. reflexivity.
    - intros ss prev bs v n Hw Hok Hp Hn. cbn in Hp.
      destruct (par_seq c ss prev bs) as [[vs n']|] eqn:E; [|discriminate].
      inversion Hp; subst.
      destruct (seq_bytes HB ss prev bs vs n Hw Hok E Hn) as [pad [Hs Hpad]].
      exists pad. split; [exact Hs | exact Hpad].
    - intros ss prev bs v n Hst Hp. cbn in Hp.
      destruct (par_seq c ss prev bs) as [[vs n']|] eqn:E; [|discriminate].
      inversion Hp; subst. eapply seq_strict; eassumption.
  Qed.
End SeqProofs.

(* a tight spec's [rt_last] instance follows from [rt_tight] *)
Lemma tight_gives_last : forall (c : codec) s prev v,
  (exists b, ser c s v = Some b /\ forall tail, par c s prev (b ++ tail) = Some (v, length b)) ->
  exists b n, ser c s v = Some b /\ par c s prev b = Some (v, n) /\ (n <= length b)%nat.
Proof.
  intros c s prev v [b [Hs Hp]]. exists b, (length b). repeat split; [exact Hs| |lia].
  specialize (Hp []). rewrite app_nil_r in Hp. exact Hp.
Qed.

(* ------------------------------------------------------------------ fields (array groups) *)
Section FieldProofs.
  Variable c : codec.
  Hypothesis Hc : codec_ok c.

  Let rowc := seq_codec c.

  Lemma rowc_ok : codec_ok rowc.
  Proof. apply seq_codec_ok. exact Hc. Qed.

  Lemma rows_tight : forall ss k, tight_seq c ss = true -> tight_seq rowc (repeat ss k) = true.
  Proof.
    intros ss k H. unfold tight_seq at 1. apply forallb_repeat. cbn.
    rewrite H, (tight_seq_wf_seq c ss H). reflexivity.
  Qed.

  Lemma arr_tight : forall ss prev v,
    wf_field c (Arr ss) = true -> inr_field c (Arr ss) prev v = true ->
    exists b, ser_field c (Arr ss) v = Some b /\
              forall tail, par_field c (Arr ss) prev (b ++ tail) = Some (v, length b).
  Proof.
    intros ss prev v Hw Hi.
    assert (Ht : tight_seq c ss = true) by (cbn in Hw; destruct ss; [discriminate|exact Hw]).
    destruct v as [| | |rows]; try discriminate.
    cbn [inr_field] in Hi. apply andb_true_iff in Hi as [Hlen Hi].
    destruct rowc_ok as [HT _].
    destruct (seq_tight rowc HT (repeat ss (length rows)) (Z.of_nat (length rows)) rows
                (rows_tight ss _ Ht) Hi) as [b [Hs Hp]].
    exists (Z.of_nat (length rows) :: b). split.
    - cbn [ser_field]. rewrite Hlen. fold rowc. rewrite Hs. reflexivity.
    - intro tail. cbn [par_field app]. rewrite Nat2Z.id. fold rowc. rewrite Hp. reflexivity.
  Qed.

  Theorem field_codec_ok : codec_ok (field_codec c).
  Proof.
    destruct Hc as [HT [HL [HB HS]]]. repeat split.
    - intros f prev v Hw Ht Hi. destruct f as [s|ss].
      + exact (HT s prev v Hw Ht Hi).
      + exact (arr_tight ss prev v Hw Hi).
    - intros f prev v Hw Hi. destruct f as [s|ss].
      + exact (HL s prev v Hw Hi).
      + apply (tight_gives_last (field_codec c) (Arr ss)). exact (arr_tight ss prev v Hw Hi).
    - intros f prev bs v n Hw Hok Hp Hn. destruct f as [s|ss].
      + exact (HB s prev bs v n Hw Hok Hp Hn).
      + assert (Ht : tight_seq c ss = true) by (cbn in Hw; destruct ss; [discriminate|exact Hw]).
        cbn [field_codec par par_field] in Hp.
        destruct bs as [|cnt r]; [discriminate|].
        fold rowc in Hp.
        destruct (par_seq rowc (repeat ss (Z.to_nat cnt)) cnt r) as [[rows m]|] eqn:E; [|discriminate].
        inversion Hp; subst. clear Hp.
        rewrite bytes_ok_cons in Hok. apply andb_true_iff in Hok as [Hcb Hok].
        apply byte_ok_iff in Hcb.
        pose proof (par_seq_length rowc _ _ _ _ _ E) as Hlen. rewrite repeat_length in Hlen.
        cbn [length] in Hn.
        destruct rowc_ok as [_ [_ [HBr _]]].
        pose proof (rows_tight ss (Z.to_nat cnt) Ht) as Htr.
        destruct (seq_bytes rowc HBr _ _ _ _ _ (tight_seq_wf_seq rowc _ Htr) Hok E) as [pad [Hs Hpad]];
          [lia|].
        rewrite (Hpad Htr), app_nil_r in Hs.
        exists []. split; [|reflexivity].
        cbn [field_codec ser ser_field]. rewrite Hlen.
        assert ((Z.to_nat cnt <? 256)%nat = true) as -> by (apply Nat.ltb_lt; lia).
        fold rowc. rewrite Hs. rewrite Z2Nat.id by lia. rewrite app_nil_r. reflexivity.
    - intros f prev bs v n Hst Hp. destruct f as [s|ss].
      + exact (HS s prev bs v n Hst Hp).
      + cbn [field_codec par par_field] in Hp.
        destruct bs as [|cnt r]; [discriminate|].
        fold rowc in Hp.
        destruct (par_seq rowc (repeat ss (Z.to_nat cnt)) cnt r) as [[rows m]|] eqn:E; [|discriminate].
        inversion Hp; subst.
        destruct rowc_ok as [_ [_ [_ HSr]]].
        assert (strict_seq rowc (repeat ss (Z.to_nat cnt)) = true) as Hsr.
        { unfold strict_seq. apply forallb_repeat. exact Hst. }
        pose proof (seq_strict rowc HSr _ _ _ _ _ Hsr E). cbn [length]. lia.
  Qed.
End FieldProofs.

(* ------------------------------------------------------------------ atomic specs *)
Lemma pow256_mono_3_4 : pow256 3 < pow256 4.
Proof. reflexivity. Qed.

Lemma ser_a_UInt : forall n z, wf_a (UInt n) = true -> u_range n z = true ->
  ser_a (UInt n) (VInt z) = Some (le_encode n z).
Proof.
  intros n z Hw Hr. cbn [ser_a]. destruct (Nat.eqb n 3) eqn:E.
  - apply Nat.eqb_eq in E. subst n.
    assert (u_range 4 z = true) as ->.
    { apply u_range_iff in Hr. apply u_range_iff. pose proof pow256_mono_3_4. lia. }
    rewrite le_encode_firstn by lia. reflexivity.
  - rewrite Hr. reflexivity.
Qed.

Lemma ser_a_coding : forall a b d,
  u_range 1 a = true -> u_range 2 b = true -> u_range 2 d = true ->
  ser_a CodingFmt (VList [VInt a; VInt b; VInt d]) =
  Some (le_encode 1 a ++ le_encode 2 b ++ le_encode 2 d).
Proof. intros a b d Ha Hb Hd. cbn [ser_a]. rewrite Ha, Hb, Hd. reflexivity. Qed.

Lemma firstn_length_le : forall (A : Type) n (l : list A), (n <= length l)%nat -> length (firstn n l) = n.
Proof. intros. rewrite firstn_length. lia. Qed.

Lemma A_tight : rt_tight A_codec.
Proof.
  intros s prev v Hw Ht Hi. cbn [A_codec wf tight inr ser par] in *.
  destruct s as [n|n|n|n|n| | |n e|k| |p| ]; cbn [tight_a] in Ht; try discriminate.
  - (* UInt *)
    destruct v as [z| | |]; try discriminate. cbn [inr_a] in Hi.
    exists (le_encode n z). split; [apply ser_a_UInt; assumption|].
    intro tail. cbn [par_a]. rewrite app_length, le_encode_length.
    assert ((n <=? n + length tail)%nat = true) as -> by (apply Nat.leb_le; lia).
    rewrite firstn_len_app by apply le_encode_length.
    rewrite le_decode_encode by (apply u_range_iff; assumption). reflexivity.
  - (* SInt *)
    destruct v as [z| | |]; try discriminate. cbn [inr_a] in Hi.
    exists (les_encode n z). split; [cbn [ser_a]; rewrite Hi; reflexivity|].
    intro tail. cbn [par_a]. rewrite app_length, les_encode_length.
    assert ((n <=? n + length tail)%nat = true) as -> by (apply Nat.leb_le; lia).
    rewrite firstn_len_app by apply les_encode_length.
    destruct n as [|n]; [cbn in Hw; discriminate|].
    rewrite les_decode_encode by assumption. reflexivity.
  - (* UIntBE *)
    destruct v as [z| | |]; try discriminate. cbn [inr_a] in Hi.
    exists (be_encode n z). split; [cbn [ser_a]; rewrite Hi; reflexivity|].
    intro tail. cbn [par_a]. rewrite app_length, be_encode_length.
    assert ((n <=? n + length tail)%nat = true) as -> by (apply Nat.leb_le; lia).
    rewrite firstn_len_app by apply be_encode_length.
    rewrite be_decode_encode by (apply u_range_iff; assumption). reflexivity.
  - (* FixedBytes *)
    destruct v as [|b| |]; try discriminate. cbn [inr_a] in Hi.
    apply andb_true_iff in Hi as [Hl _]. apply Nat.eqb_eq in Hl.
    exists b. split.
    + cbn [ser_a]. rewrite <- Hl, firstn_all, Nat.sub_diag. cbn. rewrite app_nil_r. reflexivity.
    + intro tail. cbn [par_a]. rewrite firstn_len_app by assumption. rewrite Hl. reflexivity.
  - (* FixedBytesPad *)
    destruct v as [|b| |]; try discriminate. cbn [inr_a] in Hi.
    apply andb_true_iff in Hi as [Hl _]. apply Nat.eqb_eq in Hl.
    exists b. split.
    + cbn [ser_a]. rewrite <- Hl, Nat.sub_diag. cbn. rewrite app_nil_r. reflexivity.
    + intro tail. cbn [par_a]. rewrite firstn_len_app by assumption. rewrite Hl. reflexivity.
  - (* VarLen *)
    destruct v as [|b| |]; try discriminate. cbn [inr_a] in Hi.
    apply andb_true_iff in Hi as [Hl _].
    exists (Z.of_nat (length b) :: b). split; [cbn [ser_a]; rewrite Hl; reflexivity|].
    intro tail. cbn [par_a app]. rewrite Nat2Z.id. rewrite firstn_app_exact. reflexivity.
  - (* Enum *)
    destruct v as [z| | |]; try discriminate. cbn [inr_a] in Hi.
    exists (encode_e e n z). split; [cbn [ser_a]; rewrite Hi; reflexivity|].
    intro tail. cbn [par_a].
    assert (length (encode_e e n z) = n) as Hl
      by (destruct e; [apply le_encode_length | apply be_encode_length]).
    rewrite firstn_len_app by assumption. rewrite Hl. f_equal. f_equal. f_equal.
    apply u_range_iff in Hi.
    destruct e; cbn; [apply le_decode_encode | apply be_decode_encode]; assumption.
  - (* Addr *)
    destruct v as [| |ty b|]; try discriminate. cbn [inr_a] in Hi.
    apply andb_true_iff in Hi as [Hi _]. apply andb_true_iff in Hi as [Hty Hl].
    apply Z.eqb_eq in Hty. apply Nat.eqb_eq in Hl. subst ty.
    exists b. split; [reflexivity|].
    intro tail. cbn [par_a]. rewrite app_length, Hl.
    assert ((6 <=? 6 + length tail)%nat = true) as -> by (apply Nat.leb_le; lia).
    rewrite firstn_len_app by assumption. reflexivity.
  - (* AddrAfterType *)
    destruct v as [| |ty b|]; try discriminate. cbn [inr_a] in Hi.
    apply andb_true_iff in Hi as [Hi _]. apply andb_true_iff in Hi as [Hty Hl].
    apply Z.eqb_eq in Hty. apply Nat.eqb_eq in Hl. subst ty.
    exists b. split; [reflexivity|].
    intro tail. cbn [par_a]. rewrite app_length, Hl.
    assert ((6 <=? 6 + length tail)%nat = true) as -> by (apply Nat.leb_le; lia).
    rewrite firstn_len_app by assumption. reflexivity.
  - (* CodingFmt *)
    destruct v as [| | |vs]; try discriminate.
    destruct vs as [|[a| | |] [|[b| | |] [|[d| | |] [|]]]]; try discriminate.
    cbn [inr_a] in Hi. pose proof Hi as Hi'.
    apply andb_true_iff in Hi as [Hi Hd]. apply andb_true_iff in Hi as [Ha Hb].
    exists (le_encode 1 a ++ le_encode 2 b ++ le_encode 2 d). split.
    + cbn [ser_a]. rewrite Hi'. reflexivity.
    + intro tail. cbn [par_a].
      rewrite !app_length, !le_encode_length.
      assert ((5 <=? 1 + (2 + 2) + length tail)%nat = true) as -> by (apply Nat.leb_le; lia).
      rewrite <- !app_assoc.
      rewrite (firstn_len_app _ 1) by apply le_encode_length.
      rewrite (skipn_len_app _ 1) by apply le_encode_length.
      rewrite (firstn_len_app _ 2) by apply le_encode_length.
      replace (le_encode 1 a ++ le_encode 2 b ++ le_encode 2 d ++ tail)
        with ((le_encode 1 a ++ le_encode 2 b) ++ le_encode 2 d ++ tail)
        by (rewrite <- app_assoc; reflexivity).
      rewrite (skipn_len_app _ 3) by (rewrite app_length, !le_encode_length; reflexivity).
      rewrite (firstn_len_app _ 2) by apply le_encode_length.
      rewrite !le_decode_encode by (apply u_range_iff; assumption).
      reflexivity.
Qed.

Lemma A_last : rt_last A_codec.
Proof.
  intros s prev v Hw Hi.
  destruct (tight_a s) eqn:Ht.
  - apply (tight_gives_last A_codec). exact (A_tight s prev v Hw Ht Hi).
  - cbn [A_codec wf tight inr ser par] in *.
    destruct s; cbn [tight_a] in Ht; try discriminate.
    + (* Rest *)
      destruct v as [|b| |]; try discriminate.
      exists b, (length b). repeat split. lia.
    + (* LenPrefixedPadded *)
      destruct v as [|b| |]; try discriminate. cbn [inr_a] in Hi.
      apply andb_true_iff in Hi as [Hl _].
      exists (Z.of_nat (length b) :: b ++ zeros (p - (1 + length b))), (S (length b)).
      repeat split.
      * cbn [ser_a]. rewrite Hl. reflexivity.
      * cbn [par_a]. rewrite Nat2Z.id, firstn_app_exact. reflexivity.
      * cbn [length]. rewrite app_length. lia.
Qed.

Lemma A_bytes : rt_bytes A_codec.
Proof.
  intros s prev bs v n Hw Hok Hp Hn. cbn [A_codec wf tight inr ser par] in *.
  destruct s as [k|k|k|k|k| | |k e|ak| |p| ]; cbn [par_a] in Hp.
  - (* UInt *)
    destruct (k <=? length bs)%nat eqn:E; [|discriminate]. inversion Hp; subst. clear Hp.
    exists []. split; [|reflexivity]. rewrite app_nil_r.
    pose proof (firstn_length_le _ n bs Hn) as Hl.
    pose proof (le_decode_range (firstn n bs) (bytes_ok_firstn n bs Hok)) as Hr. rewrite Hl in Hr.
    rewrite ser_a_UInt by (try assumption; apply u_range_iff; assumption).
    rewrite le_encode_decode_n by (try assumption; apply bytes_ok_firstn; assumption). reflexivity.
  - (* SInt *)
    destruct (k <=? length bs)%nat eqn:E; [|discriminate]. inversion Hp; subst. clear Hp.
    exists []. split; [|reflexivity]. rewrite app_nil_r.
    pose proof (firstn_length_le _ n bs Hn) as Hl.
    assert (firstn n bs <> []) as Hne.
    { intro H0. rewrite H0 in Hl. cbn in Hl. subst n. cbn in Hw. discriminate. }
    pose proof (les_decode_range (firstn n bs) Hne (bytes_ok_firstn n bs Hok)) as Hr.
    rewrite Hl in Hr. cbn [ser_a]. rewrite Hr.
    rewrite <- Hl at 1. rewrite les_encode_decode by (try assumption; apply bytes_ok_firstn; assumption).
    reflexivity.
  - (* UIntBE *)
    destruct (k <=? length bs)%nat eqn:E; [|discriminate]. inversion Hp; subst. clear Hp.
    exists []. split; [|reflexivity]. rewrite app_nil_r.
    pose proof (firstn_length_le _ n bs Hn) as Hl.
    pose proof (be_decode_range (firstn n bs) (bytes_ok_firstn n bs Hok)) as Hr. rewrite Hl in Hr.
    cbn [ser_a]. assert (u_range n (be_decode (firstn n bs)) = true) as -> by (apply u_range_iff; assumption).
    rewrite be_encode_decode_n by (try assumption; apply bytes_ok_firstn; assumption). reflexivity.
  - (* FixedBytes *)
    inversion Hp; subst. clear Hp. exists []. split; [|reflexivity].
    cbn [ser_a]. rewrite firstn_length_le by assumption. rewrite Nat.sub_diag.
    rewrite firstn_firstn, Nat.min_id. reflexivity.
  - (* FixedBytesPad *)
    inversion Hp; subst. clear Hp. exists []. split; [|reflexivity].
    cbn [ser_a]. rewrite firstn_length_le by assumption. rewrite Nat.sub_diag. reflexivity.
  - (* VarLen *)
    destruct bs as [|l r]; [discriminate|]. inversion Hp; subst. clear Hp.
    rewrite bytes_ok_cons in Hok. apply andb_true_iff in Hok as [Hl Hok]. apply byte_ok_iff in Hl.
    cbn [length] in Hn. exists []. split; [|reflexivity].
    cbn [ser_a]. rewrite firstn_length_le by lia.
    assert ((Z.to_nat l <? 256)%nat = true) as -> by (apply Nat.ltb_lt; lia).
    rewrite Z2Nat.id by lia. rewrite app_nil_r. reflexivity.
  - (* Rest *)
    inversion Hp; subst. clear Hp. exists []. split; [|reflexivity].
    cbn [ser_a]. rewrite firstn_all, app_nil_r. reflexivity.
  - (* Enum *)
    inversion Hp; subst. clear Hp. exists []. split; [|reflexivity]. rewrite app_nil_r.
    pose proof (firstn_length_le _ n bs Hn) as Hl.
    pose proof (bytes_ok_firstn n bs Hok) as Hok'.
    cbn [ser_a]. destruct e; cbn [decode_e encode_e].
    + pose proof (le_decode_range (firstn n bs) Hok') as Hr. rewrite Hl in Hr.
      assert (u_range n (le_decode (firstn n bs)) = true) as -> by (apply u_range_iff; assumption).
      rewrite le_encode_decode_n by assumption. reflexivity.
    + pose proof (be_decode_range (firstn n bs) Hok') as Hr. rewrite Hl in Hr.
      assert (u_range n (be_decode (firstn n bs)) = true) as -> by (apply u_range_iff; assumption).
      rewrite be_encode_decode_n by assumption. reflexivity.
  - (* Addr *)
    destruct (6 <=? length bs)%nat; [|discriminate]. inversion Hp; subst.
    exists []. split; [|reflexivity]. rewrite app_nil_r. reflexivity.
  - (* AddrAfterType *)
    destruct (6 <=? length bs)%nat; [|discriminate]. inversion Hp; subst.
    exists []. split; [|reflexivity]. rewrite app_nil_r. reflexivity.
  - (* LenPrefixedPadded *)
    destruct bs as [|l r]; [discriminate|]. inversion Hp; subst. clear Hp.
    rewrite bytes_ok_cons in Hok. apply andb_true_iff in Hok as [Hl Hok]. apply byte_ok_iff in Hl.
    cbn [length] in Hn.
    exists (zeros (p - (1 + Z.to_nat l))). split; [|cbn; discriminate].
    cbn [ser_a]. rewrite firstn_length_le by lia.
    assert ((Z.to_nat l <? 256)%nat = true) as -> by (apply Nat.ltb_lt; lia).
    rewrite Z2Nat.id by lia. reflexivity.
  - (* CodingFmt *)
    destruct (5 <=? length bs)%nat eqn:E; [|discriminate]. inversion Hp; subst. clear Hp.
    apply Nat.leb_le in E.
    exists []. split; [|reflexivity]. rewrite app_nil_r.
    assert (H1 : length (firstn 1 bs) = 1%nat) by (apply firstn_length_le; lia).
    assert (H2 : length (firstn 2 (skipn 1 bs)) = 2%nat)
      by (apply firstn_length_le; rewrite skipn_length; lia).
    assert (H3 : length (firstn 2 (skipn 3 bs)) = 2%nat)
      by (apply firstn_length_le; rewrite skipn_length; lia).
    assert (O1 : bytes_ok (firstn 1 bs) = true) by (apply bytes_ok_firstn; assumption).
    assert (O2 : bytes_ok (firstn 2 (skipn 1 bs)) = true)
      by (apply bytes_ok_firstn, bytes_ok_skipn; assumption).
    assert (O3 : bytes_ok (firstn 2 (skipn 3 bs)) = true)
      by (apply bytes_ok_firstn, bytes_ok_skipn; assumption).
    pose proof (le_decode_range _ O1) as R1. rewrite H1 in R1.
    pose proof (le_decode_range _ O2) as R2. rewrite H2 in R2.
    pose proof (le_decode_range _ O3) as R3. rewrite H3 in R3.
    rewrite ser_a_coding by (apply u_range_iff; assumption).
    rewrite !le_encode_decode_n by assumption.
    change 5%nat with (1 + (2 + 2))%nat.
    rewrite (firstn_plus _ 1), (firstn_plus _ 2), skipn_skipn'. reflexivity.
Qed.

Lemma A_strict : rt_strict A_codec.
Proof.
  intros s prev bs v n Hst Hp. cbn [A_codec strict par] in *.
  destruct s; cbn [strict_a] in Hst; try discriminate; cbn [par_a] in Hp.
  - destruct (n0 <=? length bs)%nat eqn:E; [|discriminate]. inversion Hp; subst. apply Nat.leb_le; assumption.
  - destruct (n0 <=? length bs)%nat eqn:E; [|discriminate]. inversion Hp; subst. apply Nat.leb_le; assumption.
  - destruct (n0 <=? length bs)%nat eqn:E; [|discriminate]. inversion Hp; subst. apply Nat.leb_le; assumption.
  - inversion Hp; subst. lia.
  - destruct (6 <=? length bs)%nat eqn:E; [|discriminate]. inversion Hp; subst. apply Nat.leb_le; assumption.
  - destruct (6 <=? length bs)%nat eqn:E; [|discriminate]. inversion Hp; subst. apply Nat.leb_le; assumption.
  - destruct (5 <=? length bs)%nat eqn:E; [|discriminate]. inversion Hp; subst. apply Nat.leb_le; assumption.
Qed.

Theorem A_codec_ok : codec_ok A_codec.
Proof. repeat split; [apply A_tight | apply A_last | apply A_bytes | apply A_strict]. Qed.

(* ------------------------------------------------------------------ nested objects, class field lists *)
Lemma Obj_codec_ok : codec_ok Obj_codec.
Proof. apply seq_codec_ok, field_codec_ok, A_codec_ok. Qed.

Lemma N_codec_ok : codec_ok N_codec.
Proof.
  destruct A_codec_ok as [AT [AL [AB AS]]].
  destruct Obj_codec_ok as [OT [OL [OB OS]]].
  assert (Hwf : forall fs, tight Obj_codec fs = true -> wf Obj_codec fs = true)
    by (intros fs H; apply (tight_seq_wf_seq (field_codec A_codec)); exact H).
  repeat split.
  - intros s prev v Hw Ht Hi. destruct s as [a|fs].
    + exact (AT a prev v Hw Ht Hi).
    + exact (OT fs prev v (Hwf fs Hw) Ht Hi).
  - intros s prev v Hw Hi. destruct s as [a|fs].
    + exact (AL a prev v Hw Hi).
    + exact (OL fs prev v (Hwf fs Hw) Hi).
  - intros s prev bs v n Hw Hok Hp Hn. destruct s as [a|fs].
    + exact (AB a prev bs v n Hw Hok Hp Hn).
    + exact (OB fs prev bs v n (Hwf fs Hw) Hok Hp Hn).
  - intros s prev bs v n Hst Hp. destruct s as [a|fs].
    + exact (AS a prev bs v n Hst Hp).
    + exact (OS fs prev bs v n Hst Hp).
Qed.

Lemma F_codec_ok : codec_ok F_codec.
Proof. apply field_codec_ok, N_codec_ok. Qed.

Lemma Top_codec_ok : codec_ok Top_codec.
Proof. apply seq_codec_ok, F_codec_ok. Qed.

(* The theorems users rely on, for EVERY field list and EVERY value list. *)

(* values -> bytes -> values, self-delimiting field lists, any trailing bytes *)
Theorem parse_serialize_tight : forall fs prev0 vs,
  tight_fields fs = true -> in_range fs prev0 vs = true ->
  exists b, serialize_fields fs vs = Some b /\
            forall tail, parse_fields fs prev0 (b ++ tail) = Some (vs, length b).
Proof.
  intros fs prev0 vs Ht Hi. destruct F_codec_ok as [FT _].
  exact (seq_tight F_codec FT fs prev0 vs Ht Hi).
Qed.

(* values -> bytes -> values, every well-formed field list ('*' or a padded field last) *)
Theorem parse_serialize : forall fs prev0 vs,
  wf_fields fs = true -> in_range fs prev0 vs = true ->
  exists b n, serialize_fields fs vs = Some b /\
              parse_fields fs prev0 b = Some (vs, n) /\ (n <= length b)%nat.
Proof.
  intros fs prev0 vs Hw Hi. destruct F_codec_ok as [FT [FL _]].
  exact (seq_last F_codec FT FL fs prev0 vs Hw Hi).
Qed.

(* bytes -> values -> bytes: the consumed bytes come back exactly (plus zero padding only
   when the list ends in a padded field) *)
Theorem serialize_parse : forall fs prev0 bs vs n,
  wf_fields fs = true -> bytes_ok bs = true ->
  parse_fields fs prev0 bs = Some (vs, n) -> (n <= length bs)%nat ->
  exists pad, serialize_fields fs vs = Some (firstn n bs ++ pad) /\
              (tight_fields fs = true -> pad = []).
Proof.
  intros fs prev0 bs vs n Hw Hok Hp Hn. destruct F_codec_ok as [_ [_ [FB _]]].
  exact (seq_bytes F_codec FB fs prev0 bs vs n Hw Hok Hp Hn).
Qed.

(* strict field lists: a successful parse never ran past the end of the input, i.e.
   too-short input is rejected, never turned into a partial value *)
Theorem strict_no_overrun : forall fs prev0 bs vs n,
  strict_fields fs = true -> parse_fields fs prev0 bs = Some (vs, n) -> (n <= length bs)%nat.
Proof.
  intros fs prev0 bs vs n Hs Hp. destruct F_codec_ok as [_ [_ [_ FS]]].
  exact (seq_strict F_codec FS fs prev0 bs vs n Hs Hp).
Qed.

Corollary strict_rejects_short : forall fs prev0 bs,
  strict_fields fs = true ->
  (forall vs n, parse_fields fs prev0 bs = Some (vs, n) -> (length bs < n)%nat -> False).
Proof.
  intros fs prev0 bs Hs vs n Hp Hlt.
  pose proof (strict_no_overrun fs prev0 bs vs n Hs Hp). lia.
Qed.

(* the leniency of the real parser on short input is part of the model: a fixed byte
   array accepts a short slice and still declares its full size *)
Lemma lenient_witness :
  parse_fields [F1 (FixedBytes 8)] 0 [1; 2; 3] = Some ([VBytes [1; 2; 3]], 8%nat).
Proof. reflexivity. Qed.
