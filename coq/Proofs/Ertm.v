(* Proofs about Model/Ertm.v, part 2: the sliding-window invariant of the two-party
   system and the theorems of property C08 about the ERTM data path.

   Assumption built into the model (and therefore into every statement here):
   retransmission and monitor timers do not fire; channels are reliable FIFOs. *)
From Coq Require Import ZArith List Bool Lia.
From BV Require Import Model.Crc16 Model.Ertm Proofs.ErtmSeg.
Import ListNotations.
Open Scope Z_scope.

(* ---------- small list / arithmetic facts ---------- *)
Lemma mod_diff a b : 0 <= b - a < 64 -> (b mod 64 - a mod 64) mod 64 = b - a.
Proof.
  intros H. rewrite <- Zminus_mod. apply Z.mod_small. exact H.
Qed.

Lemma e_mon_mk a b c d e f g h i j tm : e_mon (mkEp a b c d e f g h i j tm) = tm_mon tm.
Proof. reflexivity. Qed.
Lemma tm_mon_e e : tm_mon (e_tm e) = e_mon e.
Proof. reflexivity. Qed.

Lemma skipn_app_le {A} n (l1 l2 : list A) :
  (n <= length l1)%nat -> skipn n (l1 ++ l2) = skipn n l1 ++ l2.
Proof.
  intros H. rewrite skipn_app. replace (n - length l1)%nat with 0%nat by lia. reflexivity.
Qed.

Lemma zlen_firstn {A} n (l : list A) : (n <= length l)%nat -> zlen (firstn n l) = Z.of_nat n.
Proof. intros H. unfold zlen. rewrite firstn_length. lia. Qed.

Lemma zlen_skipn {A} n (l : list A) : (n <= length l)%nat -> zlen (skipn n l) = zlen l - Z.of_nat n.
Proof. intros H. unfold zlen. rewrite skipn_length. lia. Qed.

(* ---------- observables of frames ---------- *)
Definition req_of (f : frame) : Z :=
  match f with IFrame _ r _ _ _ _ => r | SFrame _ _ _ r => r end.

Definition key := (Z * sar * Z * list Z)%type.
Definition pkey (p : pdu) : key :=
  (p_tx p, g_sar (p_seg p),
   match g_sar (p_seg p) with START => g_len (p_seg p) | _ => 0 end, g_data (p_seg p)).
Definition fkeys (f : frame) : list key :=
  match f with IFrame tx _ s l d _ => [(tx, s, l, d)] | SFrame _ _ _ _ => [] end.
Definition ikeys (fs : list frame) : list key := flat_map fkeys fs.

(* the only supervisory frames that travel are RR (with or without P / F) *)
Definition sframe_ok (f : frame) : Prop :=
  match f with SFrame func _ _ _ => func = RR | IFrame _ _ _ _ _ _ => True end.

(* polls (P=1) and poll answers (F=1 supervisory frames) on a channel *)
Definition is_poll (f : frame) : bool :=
  match f with SFrame _ p _ _ => p | IFrame _ _ _ _ _ _ => false end.
Definition is_final (f : frame) : bool :=
  match f with SFrame _ _ fin _ => fin | IFrame _ _ _ _ _ _ => false end.
Definition npolls (fs : list frame) : Z := zlen (filter is_poll fs).
Definition nfinals (fs : list frame) : Z := zlen (filter is_final fs).

Lemma npolls_app a b : npolls (a ++ b) = npolls a + npolls b.
Proof. unfold npolls. now rewrite filter_app, zlen_app. Qed.
Lemma nfinals_app a b : nfinals (a ++ b) = nfinals a + nfinals b.
Proof. unfold nfinals. now rewrite filter_app, zlen_app. Qed.
Lemma npolls_nonneg a : 0 <= npolls a. Proof. apply zlen_nonneg. Qed.
Lemma nfinals_nonneg a : 0 <= nfinals a. Proof. apply zlen_nonneg. Qed.
Lemma npolls_cons f a : npolls (f :: a) = (if is_poll f then 1 else 0) + npolls a.
Proof. unfold npolls. cbn [filter]. destruct (is_poll f); [now rewrite zlen_cons|lia]. Qed.
Lemma nfinals_cons f a : nfinals (f :: a) = (if is_final f then 1 else 0) + nfinals a.
Proof. unfold nfinals. cbn [filter]. destruct (is_final f); [now rewrite zlen_cons|lia]. Qed.

Lemma ikeys_app a b : ikeys (a ++ b) = ikeys a ++ ikeys b.
Proof. apply flat_map_app. Qed.

Lemma ikeys_iframes r ps : ikeys (map (iframe_of r) ps) = map pkey ps.
Proof. induction ps as [|p ps IH]; cbn; [|rewrite <- IH]; auto. Qed.

Lemma iframes_ok r ps : Forall sframe_ok (map (iframe_of r) ps).
Proof. induction ps; cbn; constructor; cbn; auto. Qed.

Lemma iframes_req r ps : Forall (fun f => req_of f = r) (map (iframe_of r) ps).
Proof. induction ps; cbn; constructor; cbn; auto. Qed.

(* ---------- chains of acknowledgement values ---------- *)
Fixpoint chain (lo : Z) (rs : list Z) (hi : Z) : Prop :=
  match rs with
  | [] => lo = hi
  | r :: t => lo <= r /\ chain r t hi
  end.

Lemma chain_le rs : forall lo hi, chain lo rs hi -> lo <= hi.
Proof.
  induction rs as [|r t IH]; cbn; intros lo hi H; [lia|].
  destruct H as [H1 H2]. apply IH in H2. lia.
Qed.

Lemma chain_app rs1 : forall lo mid rs2 hi,
  chain lo rs1 mid -> chain mid rs2 hi -> chain lo (rs1 ++ rs2) hi.
Proof.
  induction rs1 as [|r t IH]; cbn; intros lo mid rs2 hi H1 H2.
  - now subst.
  - destruct H1 as [Ha Hb]. split; [exact Ha|]. eapply IH; eauto.
Qed.

Lemma chain_repeat k : forall hi, chain hi (repeat hi k) hi.
Proof. induction k; cbn; intros; [reflexivity|split; [lia|auto]]. Qed.

Lemma Forall2_repeat (fs : list frame) r :
  Forall (fun f => req_of f = r mod 64) fs ->
  Forall2 (fun f r => req_of f = r mod 64) fs (repeat r (length fs)).
Proof. induction 1; cbn; constructor; auto. Qed.

(* ---------- the invariant of one direction X -> Y ----------
   done : pdus acknowledged to X;  rcv : accepted by Y, not yet acknowledged to X;
   infl : I-frames on the channel;  rs : the (unbounded) acknowledgement values carried
   by the frames travelling back from Y to X, oldest first. *)
Record dinv (strict : bool) (X Y : ep) (fwd bwd logf : list frame)
            (W S : list (list Z)) (done rcv infl : list pdu) (rs : list Z) : Prop := {
  d_mps : 1 <= e_pmps X;
  d_winr : 1 <= e_pwin X <= 63;
  d_num : number 0 (segs_of (e_pmps X) W) = done ++ rcv ++ infl ++ e_pend X;
  d_txw : e_txw X = rcv ++ infl;
  d_next : e_next X = zlen (segs_of (e_pmps X) W) mod 64;
  d_lack : e_lack X = zlen done mod 64;
  d_win : zlen (e_txw X) <= e_pwin X;
  d_work : strict = true -> e_mon X = MonNone -> e_pend X <> [] -> zlen (e_txw X) = e_pwin X;
  d_busy : e_busy X = false;
  (* a monitor handle is only set while a poll of X is on its way or being answered *)
  d_pf : mon_set (e_mon X) = true -> 1 <= npolls fwd + nfinals bwd;
  d_fwd : ikeys fwd = map pkey infl;
  d_log : ikeys logf = map pkey (done ++ rcv ++ infl);
  d_sok : Forall sframe_ok fwd;
  d_req : e_req Y = (zlen done + zlen rcv) mod 64;
  d_lar : e_lackrx Y = e_req Y;
  d_rs : Forall2 (fun f r => req_of f = r mod 64) bwd rs;
  d_chain : chain (zlen done) rs (zlen done + zlen rcv);
  d_reasm : reasm [] (map p_seg (done ++ rcv)) = (S, e_insdu Y)
}.

Definition dinvE (X Y : ep) (fwd bwd logf : list frame) (W S : list (list Z)) : Prop :=
  exists done rcv infl rs, dinv true X Y fwd bwd logf W S done rcv infl rs.

Definition snd_eq (e e' : ep) : Prop :=
  e_pmps e' = e_pmps e /\ e_pwin e' = e_pwin e /\ e_next e' = e_next e /\
  e_lack e' = e_lack e /\ e_pend e' = e_pend e /\ e_txw e' = e_txw e /\ e_busy e' = e_busy e /\
  e_mon e' = e_mon e.
Definition rcv_eq (e e' : ep) : Prop :=
  e_req e' = e_req e /\ e_lackrx e' = e_lackrx e /\ e_insdu e' = e_insdu e.

Lemma dinv_transport st X Y X' Y' fwd bwd lg W S done rcv infl rs :
  dinv st X Y fwd bwd lg W S done rcv infl rs -> snd_eq X X' -> rcv_eq Y Y' ->
  dinv st X' Y' fwd bwd lg W S done rcv infl rs.
Proof.
  intros [] (E1 & E2 & E3 & E4 & E5 & E6 & E7 & E8) (F1 & F2 & F3).
  constructor; rewrite ?E1, ?E2, ?E3, ?E4, ?E5, ?E6, ?E7, ?E8, ?F1, ?F2, ?F3; auto.
Qed.

(* ---------- receiver view of the sender-side functions (no invariant needed) ------- *)
Definition rcv_after (e e' : ep) (out : list frame) : Prop :=
  e_req e' = e_req e /\ e_insdu e' = e_insdu e /\
  (e_lackrx e' = e_lackrx e \/ e_lackrx e' = e_req e) /\
  Forall (fun f => req_of f = e_req e) out.

Lemma po_rcv e e' out : process_output e = (e', out) -> rcv_after e e' out.
Proof.
  unfold process_output. destruct (e_busy e || mon_set (e_mon e)).
  - intros [= <- <-]. repeat split; auto.
  - intros [= <- <-]. cbn [e_req e_insdu e_lackrx]. repeat split; auto; [|apply iframes_req].
    destruct (firstn _ _); auto.
Qed.

Lemma update_ack_rcv e n fin e' out : update_ack e n fin = (e', out) -> rcv_after e e' out.
Proof.
  unfold update_ack. destruct (Z.ltb _ _).
  - intros [= <- <-]. repeat split; auto.
  - intros H. apply po_rcv in H. exact H.
Qed.

Lemma send_sdu_rcv e sdu e' out : send_sdu e sdu = (e', out) -> rcv_after e e' out.
Proof.
  unfold send_sdu. destruct (assign _ _) as [ps n]. intros H. apply po_rcv in H. exact H.
Qed.

(* what Y's receiver fields look like after Y has processed a frame it accepts *)
Lemma on_frame_rcv_i e tx req s l data fin e' out sdus :
  on_frame e (IFrame tx req s l data fin) = (e', out, sdus) ->
  e_lackrx e = e_req e -> tx = e_req e ->
  e_req e' = (tx + 1) mod 64 /\ e_lackrx e' = e_req e' /\
  (exists k, map req_of out = repeat (e_req e) k ++ [e_req e']) /\
  Forall sframe_ok out /\
  (if delivers s then sdus = [e_insdu e ++ data] /\ e_insdu e' = []
   else sdus = [] /\ e_insdu e' = e_insdu e ++ data) /\
  ikeys out = ikeys (snd (update_ack e req fin)).
Proof.
  cbn [on_frame]. intros H Hlar ->.
  destruct (update_ack e req fin) as [e1 out1] eqn:Hu.
  pose proof (update_ack_rcv _ _ _ _ _ Hu) as (R1 & R2 & R3 & R4).
  rewrite R1, Z.eqb_refl in H. cbn [negb] in H.
  cbn [e_req e_lackrx send_rr] in H.
  assert (Hl1 : e_lackrx e1 = e_req e) by (destruct R3; congruence).
  assert (Hne : ((e_req e + 1) mod MAX_SEQ_NUM =? e_lackrx e1) = false).
  { apply Z.eqb_neq. rewrite Hl1. unfold MAX_SEQ_NUM.
    pose proof (Z.mod_pos_bound (e_req e + 1) 64 ltac:(lia)).
    intros Heq.
    assert (Hm : (e_req e + 1 - e_req e) mod 64 = 0).
    { rewrite Zminus_mod, Heq, Zminus_mod_idemp_r, Z.sub_diag. reflexivity. }
    replace (e_req e + 1 - e_req e) with 1 in Hm by lia. cbv in Hm. discriminate. }
  rewrite Hne in H. injection H as <- <- <-. cbn [e_req e_lackrx e_insdu snd].
  split; [reflexivity|]. split; [reflexivity|]. split.
  { exists (length out1). rewrite map_app. cbn. f_equal.
    clear -R4. induction R4; cbn; [reflexivity|]. now rewrite H, IHR4. }
  split.
  { apply Forall_app. split; [|constructor; [reflexivity|constructor]].
    clear -Hu. unfold update_ack in Hu. destruct (Z.ltb _ _).
    - injection Hu as <- <-. constructor.
    - unfold process_output in Hu. destruct (_ || _).
      + injection Hu as <- <-. constructor.
      + injection Hu as <- <-. apply iframes_ok. }
  split.
  { rewrite R2. destruct (delivers s); auto. }
  rewrite ikeys_app. cbn. now rewrite app_nil_r.
Qed.

Lemma on_frame_rcv_s e poll final req e' out sdus :
  on_frame e (SFrame RR poll final req) = (e', out, sdus) ->
  e_lackrx e = e_req e ->
  e_req e' = e_req e /\ e_lackrx e' = e_req e' /\ e_insdu e' = e_insdu e /\ sdus = [] /\
  Forall (fun f => req_of f = e_req e) out /\
  (if poll then 1 else 0) <= nfinals out.
Proof.
  cbn [on_frame]. intros H Hlar.
  destruct (update_ack e req final) as [e1 out1] eqn:Hu.
  pose proof (update_ack_rcv _ _ _ _ _ Hu) as (R1 & R2 & R3 & R4).
  change ((RR =? RR) || (RR =? RNR)) with true in H. cbn [andb] in H.
  destruct poll.
  - cbn [send_rr e_req] in H. injection H as <- <- <-. cbn [e_req e_lackrx e_insdu].
    repeat split; auto.
    + apply Forall_app. split; [assumption|]. constructor; [cbn; congruence|constructor].
    + rewrite nfinals_app, nfinals_cons. cbn [is_final]. pose proof (nfinals_nonneg out1).
      pose proof (nfinals_nonneg []). lia.
  - injection H as <- <- <-. cbn [e_req e_lackrx e_insdu].
    repeat split; auto; [destruct R3; congruence|apply nfinals_nonneg].
Qed.

(* sender view of on_frame: the sender fields are those update_ack leaves, and the only
   extra frame is a supervisory one *)
Lemma on_frame_snd e f e' out sdus :
  on_frame e f = (e', out, sdus) -> sframe_ok f ->
  exists fin e1 out1 extra,
    update_ack e (req_of f) fin = (e1, out1) /\ out = out1 ++ extra /\
    (is_final f = true -> fin = true) /\
    ikeys extra = [] /\ Forall sframe_ok extra /\
    e_pmps e' = e_pmps e1 /\ e_pwin e' = e_pwin e1 /\ e_next e' = e_next e1 /\
    e_lack e' = e_lack e1 /\ e_pend e' = e_pend e1 /\ e_txw e' = e_txw e1 /\
    (e_busy e' = e_busy e1 \/ e_busy e' = false) /\ e_mon e' = e_mon e1.
Proof.
  destruct f as [tx req s l data ifin | func poll final req]; cbn [on_frame req_of sframe_ok is_final].
  - intros H _. destruct (update_ack e req ifin) as [e1 out1] eqn:Hu.
    exists ifin, e1, out1.
    destruct (negb (tx =? e_req e1)).
    + injection H as <- <- <-. exists []. rewrite app_nil_r. repeat split; auto; try discriminate.
    + match type of H with (if ?c then _ else _) = _ => destruct c end.
      * injection H as <- <- <-. exists []. rewrite app_nil_r. cbn. repeat split; auto; try discriminate.
      * cbn in H. injection H as <- <- <-. eexists. cbn.
        repeat split; auto; try discriminate. constructor; [reflexivity|constructor].
  - intros H ->. destruct (update_ack e req final) as [e1 out1] eqn:Hu.
    change ((RR =? RR) || (RR =? RNR)) with true in H. cbn [andb] in H.
    exists final, e1, out1. destruct poll.
    + cbn in H. injection H as <- <- <-. eexists. cbn.
      repeat split; auto; try discriminate. constructor; [reflexivity|constructor].
    + injection H as <- <- <-. exists []. rewrite app_nil_r. cbn. repeat split; auto; try discriminate.
Qed.

(* ---------- process_output re-establishes the strict invariant ---------- *)
Lemma po_snd st X Y fwd bwd lg W S done rcv infl rs X' out :
  dinv st X Y fwd bwd lg W S done rcv infl rs ->
  process_output X = (X', out) ->
  exists now, dinv true X' Y (fwd ++ out) bwd (lg ++ out) W S done rcv (infl ++ now) rs.
Proof.
  intros [] H. unfold process_output in H. rewrite d_busy0 in H. cbn [orb] in H.
  destruct (mon_set (e_mon X)) eqn:Em.
  { (* the monitor handle blocks the output *)
    injection H as <- <-. exists []. rewrite !app_nil_r.
    constructor; auto. intros _ Hm. rewrite Hm in Em. discriminate. }
  injection H as <- <-.
  set (k := Z.to_nat (e_pwin X - Z.of_nat (length (e_txw X)))).
  exists (firstn k (e_pend X)).
  assert (Hk : Z.of_nat k = e_pwin X - zlen (e_txw X)) by (unfold k, zlen in *; lia).
  assert (Hmon : forall tm', (tm' = e_tm X \/ tm_mon tm' = e_mon X) ->
            mon_set (tm_mon tm') = false).
  { intros tm' [-> | ->]; [rewrite tm_mon_e|]; exact Em. }
  constructor; cbn [e_pmps e_pwin e_next e_lack e_pend e_txw e_busy]; auto.
  - rewrite d_num0. rewrite <- (firstn_skipn k (e_pend X)) at 1. now rewrite <- !app_assoc.
  - now rewrite d_txw0, <- app_assoc.
  - rewrite zlen_app. unfold zlen at 2. rewrite firstn_length. lia.
  - intros _ _ Hne. rewrite zlen_app. unfold zlen at 2. rewrite firstn_length.
    assert ((k < length (e_pend X))%nat).
    { destruct (Nat.le_gt_cases (length (e_pend X)) k) as [Hle|Hgt]; [|exact Hgt].
      rewrite (skipn_all2 _ Hle) in Hne. congruence. }
    lia.
  - rewrite e_mon_mk. intros Hs. exfalso.
    rewrite Hmon in Hs; [discriminate|].
    destruct (firstn k (e_pend X)); [left; reflexivity|right; reflexivity].
  - now rewrite ikeys_app, ikeys_iframes, d_fwd0, map_app.
  - rewrite ikeys_app, ikeys_iframes, d_log0, !map_app. now rewrite <- !app_assoc.
  - apply Forall_app. split; [assumption|apply iframes_ok].
Qed.

(* ---------- L1: X writes an SDU ---------- *)
Lemma snd_write X Y fwd bwd lg W S sdu X' out :
  dinvE X Y fwd bwd lg W S -> send_sdu X sdu = (X', out) ->
  dinvE X' Y (fwd ++ out) bwd (lg ++ out) (W ++ [sdu]) S.
Proof.
  intros (done & rcv & infl & rs & I) H. unfold send_sdu in H.
  pose proof I as [].
  rewrite d_next0, (assign_number _ (zlen (segs_of (e_pmps X) W))) in H.
  unfold MAX_SEQ_NUM in H.
  match type of H with process_output ?e = _ => set (X1 := e) in H end.
  assert (I1 : dinv false X1 Y fwd bwd lg (W ++ [sdu]) S done rcv infl rs).
  { constructor; subst X1; cbn [e_pmps e_pwin e_next e_lack e_pend e_txw e_busy]; auto.
    - rewrite segs_of_app. cbn [segs_of flat_map]. rewrite app_nil_r.
      rewrite number_app, d_num0, Z.add_0_l. now rewrite <- !app_assoc.
    - rewrite segs_of_app. cbn [segs_of flat_map]. rewrite app_nil_r.
      now rewrite zlen_app.
    - intros Hf; discriminate. }
  destruct (po_snd _ _ _ _ _ _ _ _ _ _ _ _ _ _ I1 H) as [now I2].
  now exists done, rcv, (infl ++ now), rs.
Qed.

(* ---------- L2: Y (the receiver of this direction) writes an SDU of its own -------- *)
Lemma dinv_bwd_grow st X Y Y' fwd bwd lg W S done rcv infl rs out :
  dinv st X Y fwd bwd lg W S done rcv infl rs ->
  rcv_after Y Y' out ->
  dinv st X Y' fwd (bwd ++ out) lg W S done rcv infl
       (rs ++ repeat (zlen done + zlen rcv) (length out)).
Proof.
  intros [] (R1 & R2 & R3 & R4). constructor; auto.
  - intros Hs. specialize (d_pf0 Hs). rewrite nfinals_app. pose proof (nfinals_nonneg out). lia.
  - now rewrite R1.
  - rewrite R1. destruct R3; congruence.
  - apply Forall2_app; [assumption|]. apply Forall2_repeat.
    eapply Forall_impl; [|exact R4]. cbv beta. intros f Hf. now rewrite Hf, d_req0.
  - eapply chain_app; [eassumption|apply chain_repeat].
  - now rewrite R2.
Qed.

Lemma rcv_peer_write X Y fwd bwd lg W S sdu Y' out :
  dinvE X Y fwd bwd lg W S -> send_sdu Y sdu = (Y', out) ->
  dinvE X Y' fwd (bwd ++ out) lg W S.
Proof.
  intros (done & rcv & infl & rs & I) H. apply send_sdu_rcv in H.
  exists done, rcv, infl, (rs ++ repeat (zlen done + zlen rcv) (length out)).
  eapply dinv_bwd_grow; eauto.
Qed.

(* ---------- L3: X processes a frame coming back from Y ---------- *)
Lemma snd_ack X Y fwd f bwd lg W S done rcv infl rs fin X1 out1 :
  dinv true X Y fwd (f :: bwd) lg W S done rcv infl rs ->
  (is_final f = true -> fin = true) ->
  update_ack X (req_of f) fin = (X1, out1) ->
  exists done' rcv' infl' rs',
    dinv true X1 Y (fwd ++ out1) bwd (lg ++ out1) W S done' rcv' infl' rs'.
Proof.
  intros I Hfin H. pose proof I as [].
  inversion d_rs0 as [|f0 r1 bwd0 rs' Hr Hrs]; subst.
  cbn [chain] in d_chain0. destruct d_chain0 as [Hlo Hch].
  pose proof (chain_le _ _ _ Hch) as Hhi.
  assert (Hrcv : zlen rcv <= zlen (e_txw X)).
  { rewrite d_txw0, zlen_app. pose proof (zlen_nonneg infl). lia. }
  unfold update_ack in H. rewrite Hr, d_lack0 in H. unfold MAX_SEQ_NUM in H.
  rewrite mod_diff in H by lia.
  set (n := r1 - zlen done) in *.
  assert (Hn : (Z.to_nat n <= length rcv)%nat) by (unfold zlen in *; lia).
  destruct (Z.ltb_spec (Z.of_nat (length (e_txw X))) n) as [Hlt|_];
    [unfold zlen in *; lia|].
  match type of H with process_output ?e = _ => set (X0 := e) in H end.
  assert (I0 : dinv false X0 Y fwd bwd lg W S (done ++ firstn (Z.to_nat n) rcv)
                    (skipn (Z.to_nat n) rcv) infl rs').
  { assert (Hd : zlen (done ++ firstn (Z.to_nat n) rcv) = r1).
    { rewrite zlen_app, zlen_firstn by assumption. lia. }
    assert (Hs : zlen (done ++ firstn (Z.to_nat n) rcv) + zlen (skipn (Z.to_nat n) rcv)
                 = zlen done + zlen rcv).
    { rewrite Hd, zlen_skipn by assumption. lia. }
    assert (Hl : (done ++ firstn (Z.to_nat n) rcv) ++ skipn (Z.to_nat n) rcv = done ++ rcv).
    { now rewrite <- app_assoc, firstn_skipn. }
    constructor; subst X0; cbn [e_pmps e_pwin e_next e_lack e_pend e_txw e_busy]; auto.
    - rewrite d_num0. rewrite <- (firstn_skipn (Z.to_nat n) rcv) at 1.
      now rewrite <- !app_assoc.
    - rewrite d_txw0. now apply skipn_app_le.
    - now rewrite Hd.
    - rewrite d_txw0, skipn_app_le, zlen_app, zlen_skipn by assumption.
      rewrite d_txw0, zlen_app in d_win0. lia.
    - intros Hf; discriminate.
    - (* F=1 with an acceptable acknowledgement clears the monitor handle *)
      rewrite e_mon_mk. cbn [tm_mon]. destruct fin; cbn [andb].
      + destruct (mon_set (e_mon X)) eqn:Em; [discriminate|]. rewrite Em. discriminate.
      + intros Hset. specialize (d_pf0 Hset). rewrite nfinals_cons in d_pf0.
        destruct (is_final f); [specialize (Hfin eq_refl); discriminate|]. lia.
    - rewrite d_log0. rewrite <- (firstn_skipn (Z.to_nat n) rcv) at 1.
      now rewrite <- !app_assoc.
    - now rewrite Hs.
    - now rewrite Hs, Hd.
    - now rewrite Hl. }
  destruct (po_snd _ _ _ _ _ _ _ _ _ _ _ _ _ _ I0 H) as [now I2].
  eauto.
Qed.

Lemma snd_frame X Y fwd f bwd lg W S X' out sdus :
  dinvE X Y fwd (f :: bwd) lg W S -> sframe_ok f ->
  on_frame X f = (X', out, sdus) ->
  dinvE X' Y (fwd ++ out) bwd (lg ++ out) W S.
Proof.
  intros (done & rcv & infl & rs & I) Hok H.
  destruct (on_frame_snd _ _ _ _ _ H Hok)
    as (fin & e1 & out1 & extra & Hu & -> & Hfin & Hk & Hx & E1 & E2 & E3 & E4 & E5 & E6 & E7 & E8).
  destruct (snd_ack _ _ _ _ _ _ _ _ _ _ _ _ _ _ _ I Hfin Hu) as (done' & rcv' & infl' & rs' & I1).
  exists done', rcv', infl', rs'.
  pose proof I1 as [].
  constructor; rewrite ?E1, ?E2, ?E3, ?E4, ?E5, ?E6, ?E8; auto.
  - destruct E7 as [-> | ->]; auto.
  - intros Hs. specialize (d_pf0 Hs). rewrite app_assoc, npolls_app.
    pose proof (npolls_nonneg extra). lia.
  - now rewrite app_assoc, ikeys_app, Hk, app_nil_r.
  - now rewrite app_assoc, ikeys_app, Hk, app_nil_r.
  - rewrite app_assoc. apply Forall_app. auto.
Qed.

(* ---------- L4: Y processes a frame coming from X ---------- *)
Lemma chain_snoc lo rs hi k hi' :
  chain lo rs hi -> hi <= hi' -> chain lo (rs ++ repeat hi k ++ [hi']) hi'.
Proof.
  intros H Hle. eapply chain_app; [exact H|].
  eapply chain_app; [apply chain_repeat|]. cbn. auto.
Qed.

Lemma Forall2_reqs (out : list frame) r k r' :
  map req_of out = repeat (r mod 64) k ++ [r' mod 64] ->
  Forall2 (fun f r => req_of f = r mod 64) out (repeat r k ++ [r']).
Proof.
  revert out. induction k as [|k IH]; intros out H; cbn in *.
  - destruct out as [|f [|g out]]; try discriminate. injection H as H.
    constructor; [exact H|constructor].
  - destruct out as [|f out]; [discriminate|]. injection H as H1 H2.
    constructor; auto.
Qed.

Lemma rcv_frame X Y f fwd bwd lg W S Y' out sdus :
  dinvE X Y (f :: fwd) bwd lg W S ->
  on_frame Y f = (Y', out, sdus) ->
  dinvE X Y' fwd (bwd ++ out) lg W (S ++ sdus).
Proof.
  intros (done & rcv & infl & rs & I) H. pose proof I as [].
  destruct f as [tx req s l data ifin | func poll final req].
  - (* I-frame: it is the next expected one *)
    cbn [ikeys flat_map fkeys app] in d_fwd0.
    destruct infl as [|p infl']; [discriminate|].
    cbn [map] in d_fwd0. unfold pkey in d_fwd0. injection d_fwd0 as K1 K2 K3 K4 Hfwd.
    assert (Htx : p_tx p = (zlen done + zlen rcv) mod 64).
    { replace (done ++ rcv ++ (p :: infl') ++ e_pend X)
        with ((done ++ rcv) ++ p :: (infl' ++ e_pend X)) in d_num0
        by (now rewrite <- !app_assoc).
      apply number_head in d_num0. now rewrite zlen_app, Z.add_0_l in d_num0. }
    assert (Hacc : tx = e_req Y) by congruence.
    destruct (on_frame_rcv_i _ _ _ _ _ _ _ _ _ _ H d_lar0 Hacc)
      as (R1 & R2 & (k & R3) & R4 & R5 & _).
    exists done, (rcv ++ [p]), infl',
           (rs ++ repeat (zlen done + zlen rcv) k ++ [zlen done + zlen rcv + 1]).
    assert (Hz : zlen done + zlen (rcv ++ [p]) = zlen done + zlen rcv + 1).
    { rewrite zlen_app, zlen_cons, zlen_nil. lia. }
    constructor; auto.
    + rewrite d_num0. now rewrite <- !app_assoc.
    + rewrite d_txw0. now rewrite <- app_assoc.
    + intros Hs. specialize (d_pf0 Hs). rewrite npolls_cons in d_pf0. cbn [is_poll] in d_pf0.
      rewrite nfinals_app. pose proof (nfinals_nonneg out). lia.
    + rewrite d_log0. now rewrite <- !app_assoc.
    + now inversion d_sok0.
    + rewrite R1, Hz, Hacc, d_req0. unfold MAX_SEQ_NUM. now rewrite Zplus_mod_idemp_l.
    + apply Forall2_app; [assumption|]. apply Forall2_reqs.
      rewrite R3, R1, Hacc, d_req0. unfold MAX_SEQ_NUM. now rewrite Zplus_mod_idemp_l.
    + rewrite Hz. apply chain_snoc; [assumption|lia].
    + rewrite app_assoc, map_app, reasm_app, d_reasm0. cbn [map reasm].
      rewrite K2, K4 in R5.
      destruct (delivers (g_sar (p_seg p))); destruct R5 as [-> ->]; cbn; auto.
  - (* S-frame: only RR travels; a poll is answered with F=1 *)
    inversion d_sok0 as [|f0 fwd0 Hf Hrest]; subst. cbn in Hf. subst func.
    destruct (on_frame_rcv_s _ _ _ _ _ _ _ H d_lar0) as (R1 & R2 & R3 & -> & R5 & R6).
    exists done, rcv, infl, (rs ++ repeat (zlen done + zlen rcv) (length out)).
    rewrite app_nil_r.
    assert (Ha : rcv_after Y Y' out).
    { repeat split; auto. right. congruence. }
    pose proof (dinv_bwd_grow _ _ _ _ _ _ _ _ _ _ _ _ _ _ I Ha) as [].
    constructor; auto.
    intros Hs. specialize (d_pf0 Hs). rewrite npolls_cons in d_pf0. cbn [is_poll] in d_pf0.
    rewrite nfinals_app. destruct poll; lia.
Qed.

(* ---------- timer events ---------- *)
Lemma rcv_peer_extra X Y fwd bwd lg W S Y' out :
  dinvE X Y fwd bwd lg W S -> rcv_after Y Y' out -> dinvE X Y' fwd (bwd ++ out) lg W S.
Proof.
  intros (done & rcv & infl & rs & I) H.
  exists done, rcv, infl, (rs ++ repeat (zlen done + zlen rcv) (length out)).
  eapply dinv_bwd_grow; eauto.
Qed.

Lemma snd_extra X Y fwd bwd lg W S X' extra :
  dinvE X Y fwd bwd lg W S ->
  e_pmps X' = e_pmps X -> e_pwin X' = e_pwin X -> e_next X' = e_next X -> e_lack X' = e_lack X ->
  e_pend X' = e_pend X -> e_txw X' = e_txw X -> e_busy X' = e_busy X ->
  (e_mon X' = e_mon X \/
   (mon_set (e_mon X') = true /\ (1 <= npolls extra \/ mon_set (e_mon X) = true))) ->
  ikeys extra = [] -> Forall sframe_ok extra ->
  dinvE X' Y (fwd ++ extra) bwd (lg ++ extra) W S.
Proof.
  intros (done & rcv & infl & rs & []) E1 E2 E3 E4 E5 E6 E7 E8 Hk Hok.
  exists done, rcv, infl, rs.
  constructor; rewrite ?E1, ?E2, ?E3, ?E4, ?E5, ?E6, ?E7; auto.
  - intros Hs Hm. destruct E8 as [E8|[E8 _]]; [rewrite E8 in Hm; auto|].
    rewrite Hm in E8. discriminate.
  - intros Hs. rewrite npolls_app. pose proof (npolls_nonneg extra). pose proof (npolls_nonneg fwd).
    pose proof (nfinals_nonneg bwd).
    destruct E8 as [E8|[_ [E8|E8]]].
    + rewrite E8 in Hs. specialize (d_pf0 Hs). lia.
    + lia.
    + specialize (d_pf0 E8). lia.
  - now rewrite ikeys_app, Hk, app_nil_r.
  - now rewrite ikeys_app, Hk, app_nil_r.
  - apply Forall_app. auto.
Qed.

Lemma send_poll_rcv e e' out : send_poll e = (e', out) ->
  e_req e' = e_req e /\ e_insdu e' = e_insdu e /\ e_lackrx e' = e_req e /\
  out = [SFrame RR true false (e_req e)].
Proof. cbn. intros [= <- <-]. auto. Qed.

Lemma send_rr_rcv e fin e' out : send_rr e fin = (e', out) ->
  e_req e' = e_req e /\ e_insdu e' = e_insdu e /\ e_lackrx e' = e_req e /\
  out = [SFrame RR false fin (e_req e)].
Proof. cbn. intros [= <- <-]. auto. Qed.

Lemma retx_timeout_rcv e e' out : retx_timeout e = (e', out) -> rcv_after e e' out.
Proof.
  unfold retx_timeout. destruct (e_rrarm e).
  - intros H. apply send_poll_rcv in H as (R1 & R2 & R3 & ->). cbn in *.
    repeat split; auto. all: repeat constructor.
  - intros [= <- <-]. repeat split; auto.
Qed.

Lemma mon_timeout_rcv e e' out : mon_timeout e = (e', out) -> rcv_after e e' out.
Proof.
  unfold mon_timeout. destruct (e_mon e); try (intros [= <- <-]; repeat split; auto).
  destruct (_ || _).
  - intros H. apply send_poll_rcv in H as (R1 & R2 & R3 & ->). cbn in *.
    repeat split; auto. all: repeat constructor.
  - intros [= <- <-]. repeat split; auto.
Qed.

Lemma retx_timeout_snd X Y fwd bwd lg W S X' out :
  dinvE X Y fwd bwd lg W S -> retx_timeout X = (X', out) ->
  dinvE X' Y (fwd ++ out) bwd (lg ++ out) W S.
Proof.
  intros I H. unfold retx_timeout in H. destruct (e_rrarm X).
  - cbn in H. injection H as <- <-.
    eapply snd_extra; eauto; cbn; auto.
    all: try (right; split; [reflexivity|left; cbn; lia]).
    all: try (constructor; [reflexivity|constructor]).
  - injection H as <- <-. now rewrite !app_nil_r.
Qed.

Lemma mon_timeout_snd X Y fwd bwd lg W S X' out :
  dinvE X Y fwd bwd lg W S -> mon_timeout X = (X', out) ->
  dinvE X' Y (fwd ++ out) bwd (lg ++ out) W S.
Proof.
  intros I H. unfold mon_timeout in H.
  destruct (e_mon X) eqn:Em; try (injection H as <- <-; now rewrite !app_nil_r).
  destruct (_ || _).
  - cbn in H. injection H as <- <-.
    eapply snd_extra; eauto; cbn; auto.
    all: try (right; split; [reflexivity|left; cbn; lia]).
    all: try (constructor; [reflexivity|constructor]).
  - injection H as <- <-. rewrite !app_nil_r.
    eapply (snd_extra _ _ _ _ _ _ _ _ []) in I; [rewrite !app_nil_r in I; exact I| | | | | | | | | | ];
      cbn; auto.
    all: try (right; split; [reflexivity|right; rewrite Em; reflexivity]).
Qed.

(* ---------- the two-party system ---------- *)
Definition Inv (s : sys) (WA WB : list (list Z)) : Prop :=
  dinvE (s_a s) (s_b s) (s_ab s) (s_ba s) (s_log_ab s) WA (s_sink_b s) /\
  dinvE (s_b s) (s_a s) (s_ba s) (s_ab s) (s_log_ba s) WB (s_sink_a s).

Definition params_ok (mps_a win_a mps_b win_b : Z) : Prop :=
  1 <= mps_a /\ 1 <= mps_b /\ 1 <= win_a <= 63 /\ 1 <= win_b <= 63.

Lemma dinv_init pmps pwin qmps qwin :
  1 <= pmps -> 1 <= pwin <= 63 ->
  dinvE (ep_init pmps pwin) (ep_init qmps qwin) [] [] [] [] [].
Proof.
  intros Hm Hw. exists [], [], [], []. constructor; cbn; auto; try lia.
  intros _ _ Hf. congruence.
Qed.

Lemma inv_init mps_a win_a mps_b win_b :
  params_ok mps_a win_a mps_b win_b -> Inv (sys_init mps_a win_a mps_b win_b) [] [].
Proof.
  intros (H1 & H2 & H3 & H4). split; cbn; apply dinv_init; auto.
Qed.

Definition wa_of (l : label) : list (list Z) := match l with WriteA sdu => [sdu] | _ => [] end.
Definition wb_of (l : label) : list (list Z) := match l with WriteB sdu => [sdu] | _ => [] end.

Lemma dinvE_head_ok X Y f fwd bwd lg W S : dinvE X Y (f :: fwd) bwd lg W S -> sframe_ok f.
Proof. intros (done & rcv & infl & rs & []). now inversion d_sok0. Qed.

Lemma inv_step s WA WB l :
  Inv s WA WB -> Inv (step s l) (WA ++ wa_of l) (WB ++ wb_of l).
Proof.
  intros [IA IB]. destruct l as [sdu | sdu | | | | | | ];
    cbn [step wa_of wb_of]; rewrite ?app_nil_r.
  - destruct (send_sdu (s_a s) sdu) as [a out] eqn:E. split; cbn.
    + eapply snd_write; eauto.
    + eapply rcv_peer_write; eauto.
  - destruct (send_sdu (s_b s) sdu) as [b out] eqn:E. split; cbn.
    + eapply rcv_peer_write; eauto.
    + eapply snd_write; eauto.
  - destruct (s_ab s) as [|f rest] eqn:Eab; [split; rewrite Eab; assumption|].
    destruct (on_frame (s_b s) f) as [[b out] sdus] eqn:E. split; cbn.
    + eapply rcv_frame; eauto.
    + eapply snd_frame; eauto. eapply dinvE_head_ok; eauto.
  - destruct (s_ba s) as [|f rest] eqn:Eba; [split; rewrite Eba; assumption|].
    destruct (on_frame (s_a s) f) as [[a out] sdus] eqn:E. split; cbn.
    + eapply snd_frame; eauto. eapply dinvE_head_ok; eauto.
    + eapply rcv_frame; eauto.
  - destruct (retx_timeout (s_a s)) as [a out] eqn:E. split; cbn.
    + eapply retx_timeout_snd; eauto.
    + eapply rcv_peer_extra; eauto. eapply retx_timeout_rcv; eauto.
  - destruct (retx_timeout (s_b s)) as [b out] eqn:E. split; cbn.
    + eapply rcv_peer_extra; eauto. eapply retx_timeout_rcv; eauto.
    + eapply retx_timeout_snd; eauto.
  - destruct (mon_timeout (s_a s)) as [a out] eqn:E. split; cbn.
    + eapply mon_timeout_snd; eauto.
    + eapply rcv_peer_extra; eauto. eapply mon_timeout_rcv; eauto.
  - destruct (mon_timeout (s_b s)) as [b out] eqn:E. split; cbn.
    + eapply rcv_peer_extra; eauto. eapply mon_timeout_rcv; eauto.
    + eapply mon_timeout_snd; eauto.
Qed.

Lemma writes_a_app l1 l2 : writes_a (l1 ++ l2) = writes_a l1 ++ writes_a l2.
Proof. induction l1 as [|[]]; cbn; auto. now rewrite IHl1. Qed.
Lemma writes_b_app l1 l2 : writes_b (l1 ++ l2) = writes_b l1 ++ writes_b l2.
Proof. induction l1 as [|[]]; cbn; auto. now rewrite IHl1. Qed.

Lemma inv_run sched : forall s WA WB,
  Inv s WA WB -> Inv (run s sched) (WA ++ writes_a sched) (WB ++ writes_b sched).
Proof.
  induction sched as [|l r IH]; intros s WA WB I; cbn [run fold_left writes_a writes_b].
  - now rewrite !app_nil_r.
  - apply (inv_step _ _ _ l) in I. apply IH in I. fold (run (step s l) r).
    destruct l; cbn [wa_of wb_of] in I; rewrite ?app_nil_r, <- ?app_assoc in I; exact I.
Qed.

(* with or without timer events *)
Lemma inv_reachable mps_a win_a mps_b win_b sched :
  params_ok mps_a win_a mps_b win_b ->
  Inv (run (sys_init mps_a win_a mps_b win_b) sched) (writes_a sched) (writes_b sched).
Proof.
  intros H. apply inv_init in H. apply (inv_run sched) in H. exact H.
Qed.

(* ---------- without timer events no monitor handle is ever set ---------- *)
Lemma po_mon e e' out : process_output e = (e', out) -> e_mon e' = e_mon e.
Proof.
  unfold process_output. destruct (_ || _); intros [= <- <-]; [reflexivity|].
  rewrite e_mon_mk. destruct (firstn _ _); reflexivity.
Qed.
Lemma update_ack_mon e n fin e' out :
  update_ack e n fin = (e', out) -> e_mon e = MonNone -> e_mon e' = MonNone.
Proof.
  unfold update_ack. destruct (Z.ltb _ _); [intros [= <- <-]; auto|].
  intros H Hm. apply po_mon in H. rewrite H, e_mon_mk. cbn [tm_mon]. rewrite Hm.
  now destruct fin.
Qed.
Lemma send_sdu_mon e w e' out : send_sdu e w = (e', out) -> e_mon e' = e_mon e.
Proof. unfold send_sdu. destruct (assign _ _). intros H. apply po_mon in H. exact H. Qed.
Lemma on_frame_mon e f e' out sd :
  on_frame e f = (e', out, sd) -> e_mon e = MonNone -> e_mon e' = MonNone.
Proof.
  destruct f; cbn [on_frame];
    match goal with |- context [update_ack e ?r ?b] => destruct (update_ack e r b) as [e1 o1] eqn:Hu end;
    intros H Hm; apply update_ack_mon in Hu; auto.
  - destruct (negb _); [injection H as <- <- <-; assumption|].
    match type of H with (if ?c then _ else _) = _ => destruct c end;
      cbn in H; injection H as <- <- <-; exact Hu.
  - destruct (_ && _); cbn in H; injection H as <- <- <-; exact Hu.
Qed.

Lemma run_mon_none sched : forall s,
  no_timer sched = true -> e_mon (s_a s) = MonNone -> e_mon (s_b s) = MonNone ->
  e_mon (s_a (run s sched)) = MonNone /\ e_mon (s_b (run s sched)) = MonNone.
Proof.
  unfold run. induction sched as [|l r IH]; intros s Hn Ha Hb; cbn [fold_left]; [auto|].
  cbn [no_timer forallb] in Hn. apply andb_true_iff in Hn as [Hl Hr].
  apply IH; [exact Hr| |]; destruct l; try discriminate Hl; cbn [step].
  - destruct (send_sdu (s_a s) sdu) eqn:E. apply send_sdu_mon in E. cbn. congruence.
  - destruct (send_sdu (s_b s) sdu) eqn:E. cbn. assumption.
  - destruct (s_ab s); [assumption|]. destruct (on_frame (s_b s) f) as [[? ?] ?]. cbn. assumption.
  - destruct (s_ba s); [assumption|]. destruct (on_frame (s_a s) f) as [[? ?] ?] eqn:E.
    cbn. eapply on_frame_mon; eauto.
  - destruct (send_sdu (s_a s) sdu) eqn:E. cbn. assumption.
  - destruct (send_sdu (s_b s) sdu) eqn:E. apply send_sdu_mon in E. cbn. congruence.
  - destruct (s_ab s); [assumption|]. destruct (on_frame (s_b s) f) as [[? ?] ?] eqn:E.
    cbn. eapply on_frame_mon; eauto.
  - destruct (s_ba s); [assumption|]. destruct (on_frame (s_a s) f) as [[? ?] ?]. cbn. assumption.
Qed.

(* ---------- consequences of the direction invariant ---------- *)
Lemma dinvE_prefix X Y fwd bwd lg W S :
  dinvE X Y fwd bwd lg W S -> exists j, S = firstn j W.
Proof.
  intros (done & rcv & infl & rs & []).
  assert (H : segs_of (e_pmps X) W = map p_seg (done ++ rcv) ++ map p_seg (infl ++ e_pend X)).
  { rewrite <- map_app, <- app_assoc, <- d_num0. now rewrite number_segs. }
  destruct (reasm_prefix _ d_mps0 _ _ _ H) as [j Hj]. exists j.
  now rewrite d_reasm0 in Hj.
Qed.

Lemma dinvE_quiescent X Y lg W S :
  dinvE X Y [] [] lg W S ->
  S = W /\ e_pend X = [] /\ e_txw X = [] /\ e_insdu Y = [] /\ e_mon X = MonNone.
Proof.
  intros (done & rcv & infl & rs & []).
  assert (Hmon : e_mon X = MonNone).
  { destruct (e_mon X) eqn:Em; [reflexivity| |]; specialize (d_pf0 eq_refl); cbn in d_pf0; lia. }
  inversion d_rs0; subst. cbn in d_chain0.
  assert (rcv = []).
  { destruct rcv; [reflexivity|]. rewrite zlen_cons in d_chain0. pose proof (zlen_nonneg rcv). lia. }
  subst rcv. destruct infl; [|discriminate]. cbn [app] in *.
  assert (Hp : e_pend X = []).
  { destruct (e_pend X) eqn:E; [reflexivity|]. rewrite d_txw0 in d_work0.
    specialize (d_work0 eq_refl Hmon ltac:(congruence)). cbn in d_work0. lia. }
  rewrite Hp, !app_nil_r in *.
  assert (H : segs_of (e_pmps X) W = map p_seg done).
  { rewrite <- d_num0. now rewrite number_segs. }
  rewrite <- H, (reasm_all _ d_mps0) in d_reasm0. injection d_reasm0 as -> <-. auto.
Qed.

Lemma dinvE_window X Y fwd bwd lg W S :
  dinvE X Y fwd bwd lg W S ->
  exists acked, 0 <= acked /\ e_lack X = acked mod 64 /\
    zlen (ikeys lg) = acked + zlen (e_txw X) /\ zlen (e_txw X) <= e_pwin X.
Proof.
  intros (done & rcv & infl & rs & []). exists (zlen done).
  repeat split; auto; [apply zlen_nonneg|].
  now rewrite d_log0, zlen_map, zlen_app, d_txw0.
Qed.

Definition tx_of (k : key) : Z := let '(tx, _, _, _) := k in tx.

Lemma pkey_tx ps : map tx_of (map pkey ps) = map p_tx ps.
Proof. induction ps as [|p r IH]; cbn; [|rewrite IH]; auto. Qed.

Lemma dinvE_seq X Y fwd bwd lg W S :
  dinvE X Y fwd bwd lg W S ->
  map tx_of (ikeys lg) =
  map (fun i => Z.of_nat i mod 64) (seq 0 (length (ikeys lg))).
Proof.
  intros (done & rcv & infl & rs & []).
  assert (Hn : number 0 (segs_of (e_pmps X) W) = (done ++ rcv ++ infl) ++ e_pend X).
  { rewrite d_num0. now rewrite <- !app_assoc. }
  apply number_split in Hn as [Hn _].
  rewrite d_log0, pkey_tx, map_length. rewrite Hn at 1.
  rewrite number_txs, map_length. reflexivity.
Qed.

Lemma dinvE_mps X Y fwd bwd lg W S :
  dinvE X Y fwd bwd lg W S ->
  Forall (fun k => let '(_, _, _, d) := k in zlen d <= e_pmps X) (ikeys lg).
Proof.
  intros (done & rcv & infl & rs & []).
  assert (Hall : Forall (fun g => zlen (g_data g) <= e_pmps X) (segs_of (e_pmps X) W)).
  { clear -d_mps0. induction W as [|w W IH]; cbn; [constructor|].
    apply Forall_app. split; [apply segment_le_mps; lia|exact IH]. }
  rewrite <- (number_segs _ 0), d_num0 in Hall.
  rewrite d_log0. rewrite !app_assoc in Hall. rewrite map_app in Hall.
  apply Forall_app in Hall as [Hall _]. rewrite <- !app_assoc in Hall.
  clear -Hall. induction (done ++ rcv ++ infl) as [|p r IH]; cbn; [constructor|].
  inversion Hall; subst. constructor; auto.
Qed.

(* the negotiated parameters never change *)
Definition same_params (e e' : ep) : Prop := e_pwin e' = e_pwin e /\ e_pmps e' = e_pmps e.

Lemma po_params e e' out : process_output e = (e', out) -> same_params e e'.
Proof. unfold process_output. destruct (_ || _); intros [= <- <-]; split; reflexivity. Qed.
Lemma update_ack_params e n fin e' out : update_ack e n fin = (e', out) -> same_params e e'.
Proof.
  unfold update_ack. destruct (Z.ltb _ _); [intros [= <- <-]; split; reflexivity|].
  intros Hp. apply po_params in Hp. exact Hp.
Qed.
Lemma send_sdu_params e w e' out : send_sdu e w = (e', out) -> same_params e e'.
Proof. unfold send_sdu. destruct (assign _ _). intros Hp. apply po_params in Hp. exact Hp. Qed.
Lemma on_frame_params e f e' out sd : on_frame e f = (e', out, sd) -> same_params e e'.
Proof.
  destruct f; cbn [on_frame];
    match goal with |- context [update_ack e ?r ?b] => destruct (update_ack e r b) as [e1 o1] eqn:Hu end;
    apply update_ack_params in Hu; destruct Hu as [U1 U2].
  - destruct (negb _); [intros [= <- <- <-]; split; assumption|].
    match goal with |- (if ?c then _ else _) = _ -> _ => destruct c end;
      cbn; intros [= <- <- <-]; split; assumption.
  - destruct (_ && _); cbn; intros [= <- <- <-]; split; assumption.
Qed.

Lemma timeout_params e e' out : retx_timeout e = (e', out) -> same_params e e'.
Proof. unfold retx_timeout. destruct (e_rrarm e); cbn; intros [= <- <-]; split; reflexivity. Qed.
Lemma mon_timeout_params e e' out : mon_timeout e = (e', out) -> same_params e e'.
Proof.
  unfold mon_timeout. destruct (e_mon e); [intros [= <- <-]; split; reflexivity| |intros [= <- <-]; split; reflexivity].
  destruct (_ || _); cbn; intros [= <- <-]; split; reflexivity.
Qed.

Lemma run_params sc : forall s,
  same_params (s_a s) (s_a (run s sc)) /\ same_params (s_b s) (s_b (run s sc)).
Proof.
  unfold run. induction sc as [|l r IH]; intros s; cbn [fold_left]; [repeat split|].
  destruct (IH (step s l)) as [[A1 A2] [B1 B2]]. clear IH.
  unfold same_params. rewrite A1, A2, B1, B2. clear.
  destruct l; cbn [step].
  - destruct (send_sdu (s_a s) sdu) eqn:E. apply send_sdu_params in E. cbn. split; [exact E|split; reflexivity].
  - destruct (send_sdu (s_b s) sdu) eqn:E. apply send_sdu_params in E. cbn. split; [split; reflexivity|exact E].
  - destruct (s_ab s); [repeat split|]. destruct (on_frame (s_b s) f) as [[? ?] ?] eqn:E.
    apply on_frame_params in E. cbn. split; [split; reflexivity|exact E].
  - destruct (s_ba s); [repeat split|]. destruct (on_frame (s_a s) f) as [[? ?] ?] eqn:E.
    apply on_frame_params in E. cbn. split; [exact E|split; reflexivity].
  - destruct (retx_timeout (s_a s)) eqn:E. apply timeout_params in E. cbn. split; [exact E|split; reflexivity].
  - destruct (retx_timeout (s_b s)) eqn:E. apply timeout_params in E. cbn. split; [split; reflexivity|exact E].
  - destruct (mon_timeout (s_a s)) eqn:E. apply mon_timeout_params in E. cbn. split; [exact E|split; reflexivity].
  - destruct (mon_timeout (s_b s)) eqn:E. apply mon_timeout_params in E. cbn. split; [split; reflexivity|exact E].
Qed.

(* ---------- theorems ---------- *)
(* safety: with or without timer events *)
Theorem ertm_in_order_prefix mps_a win_a mps_b win_b sched :
  params_ok mps_a win_a mps_b win_b ->
  let s := run (sys_init mps_a win_a mps_b win_b) sched in
  (exists j, s_sink_b s = firstn j (writes_a sched)) /\
  (exists j, s_sink_a s = firstn j (writes_b sched)).
Proof.
  intros H s. destruct (inv_reachable _ _ _ _ sched H) as [IA IB]. fold s in IA, IB.
  split; eapply dinvE_prefix; eauto.
Qed.

(* complete delivery: every schedule, timers included (after fixes/D08t.patch a monitor
   handle is only ever set while a poll is on its way or being answered, so in a quiescent
   state nothing blocks the output) *)
Theorem ertm_exactly_once_in_order mps_a win_a mps_b win_b sched :
  params_ok mps_a win_a mps_b win_b ->
  let s := run (sys_init mps_a win_a mps_b win_b) sched in
  (exists j, s_sink_b s = firstn j (writes_a sched)) /\
  (exists j, s_sink_a s = firstn j (writes_b sched)) /\
  (quiescent s = true ->
     s_sink_b s = writes_a sched /\ s_sink_a s = writes_b sched /\
     e_pend (s_a s) = [] /\ e_txw (s_a s) = [] /\ e_pend (s_b s) = [] /\ e_txw (s_b s) = [] /\
     e_insdu (s_a s) = [] /\ e_insdu (s_b s) = [] /\
     e_mon (s_a s) = MonNone /\ e_mon (s_b s) = MonNone).
Proof.
  intros H s. destruct (inv_reachable _ _ _ _ sched H) as [IA IB]. fold s in IA, IB.
  split; [eapply dinvE_prefix; eauto|]. split; [eapply dinvE_prefix; eauto|].
  unfold quiescent. intros Hq.
  destruct (s_ab s) eqn:Eab; [|discriminate]. destruct (s_ba s) eqn:Eba; [|discriminate].
  apply dinvE_quiescent in IA as (A1 & A2 & A3 & A4 & A5).
  apply dinvE_quiescent in IB as (B1 & B2 & B3 & B4 & B5). auto 12.
Qed.

Theorem window_respected mps_a win_a mps_b win_b sched :
  params_ok mps_a win_a mps_b win_b ->
  let s := run (sys_init mps_a win_a mps_b win_b) sched in
  (exists acked, 0 <= acked /\ e_lack (s_a s) = acked mod 64 /\
     zlen (ikeys (s_log_ab s)) = acked + zlen (e_txw (s_a s)) /\
     zlen (e_txw (s_a s)) <= win_b) /\
  (exists acked, 0 <= acked /\ e_lack (s_b s) = acked mod 64 /\
     zlen (ikeys (s_log_ba s)) = acked + zlen (e_txw (s_b s)) /\
     zlen (e_txw (s_b s)) <= win_a).
Proof.
  intros H s. destruct (inv_reachable _ _ _ _ sched H) as [IA IB]. fold s in IA, IB.
  assert (PA : e_pwin (s_a s) = win_b /\ e_pwin (s_b s) = win_a).
  { destruct (run_params sched (sys_init mps_a win_a mps_b win_b)) as [[A1 _] [B1 _]].
    split; assumption. }
  destruct PA as [PA PB]. split.
  - destruct (dinvE_window _ _ _ _ _ _ _ IA) as (k & K1 & K2 & K3 & K4).
    exists k. rewrite <- PA. auto.
  - destruct (dinvE_window _ _ _ _ _ _ _ IB) as (k & K1 & K2 & K3 & K4).
    exists k. rewrite <- PB. auto.
Qed.

Theorem seq_mod64 mps_a win_a mps_b win_b sched :
  params_ok mps_a win_a mps_b win_b ->
  let s := run (sys_init mps_a win_a mps_b win_b) sched in
  map tx_of (ikeys (s_log_ab s)) =
    map (fun i => Z.of_nat i mod 64) (seq 0 (length (ikeys (s_log_ab s)))) /\
  map tx_of (ikeys (s_log_ba s)) =
    map (fun i => Z.of_nat i mod 64) (seq 0 (length (ikeys (s_log_ba s)))).
Proof.
  intros H s. destruct (inv_reachable _ _ _ _ sched H) as [IA IB]. fold s in IA, IB.
  split; eapply dinvE_seq; eauto.
Qed.

(* only RR without the poll bit is ever sent, and no I-frame is ever dropped or
   acknowledgement ignored: the log of one side's I-frames is exactly the numbered
   segment stream (no retransmission, no duplicate) *)
Theorem frames_are_segments mps_a win_a mps_b win_b sched :
  params_ok mps_a win_a mps_b win_b ->
  let s := run (sys_init mps_a win_a mps_b win_b) sched in
  (exists rest, map pkey (number 0 (segs_of mps_b (writes_a sched))) = ikeys (s_log_ab s) ++ rest) /\
  (exists rest, map pkey (number 0 (segs_of mps_a (writes_b sched))) = ikeys (s_log_ba s) ++ rest).
Proof.
  intros H s. destruct (inv_reachable _ _ _ _ sched H) as [IA IB]. fold s in IA, IB.
  assert (G : forall X Y fwd bwd lg W S, dinvE X Y fwd bwd lg W S ->
            exists rest, map pkey (number 0 (segs_of (e_pmps X) W)) = ikeys lg ++ rest).
  { intros X Y fwd bwd lg W S (done & rcv & infl & rs & []).
    exists (map pkey (e_pend X)). rewrite d_num0, d_log0, !map_app. now rewrite <- !app_assoc. }
  assert (PA : e_pmps (s_a s) = mps_b /\ e_pmps (s_b s) = mps_a).
  { destruct (run_params sched (sys_init mps_a win_a mps_b win_b)) as [[_ A1] [_ B1]].
    split; assumption. }
  destruct PA as [PA PB]. split.
  - rewrite <- PA. eapply G; eauto.
  - rewrite <- PB. eapply G; eauto.
Qed.

(* ---------- Basic mode ---------- *)
Lemma basic_inv sched : forall s W,
  b_sink s ++ b_chan s = W ->
  b_sink (brun s sched) ++ b_chan (brun s sched) = W ++ bwrites sched.
Proof.
  induction sched as [|l r IH]; intros s W H; cbn [brun fold_left bwrites].
  - now rewrite app_nil_r.
  - fold (brun (bstep s l) r). destruct l as [sdu|]; cbn [bstep].
    + rewrite (IH _ (W ++ [sdu])); [now rewrite <- app_assoc|].
      cbn. now rewrite app_assoc, H.
    + destruct (b_chan s) as [|p c] eqn:E.
      * apply IH. now rewrite E.
      * apply IH. cbn. rewrite <- H. now rewrite <- app_assoc.
Qed.

Theorem basic_exact sched :
  let s := brun (mkB [] []) sched in
  b_sink s ++ b_chan s = bwrites sched /\ (b_chan s = [] -> b_sink s = bwrites sched).
Proof.
  intros s. pose proof (basic_inv sched (mkB [] []) [] eq_refl) as H. cbn in H. fold s in H.
  split; [exact H|]. intros E. now rewrite E, app_nil_r in H.
Qed.

(* ---------- the schedule on which the code used to stall (D08t) ----------
   MPS 10, window 2, A writes a 100-byte SDU (10 segments, 2 sent).  A's retransmission
   timer fires before the first acknowledgement arrives: A sends RR(P=1) and arms the
   monitor timer; the monitor timer fires too (poll counter exhausted: dead handle).  B
   answers the poll with RR(F=1), which clears the handle, and the transfer completes. *)
Lemma ertm_timer_recovers :
  let s := run (sys_init 10 2 10 2)
             ([WriteA (repeat 7 100); TimeoutRetxA; DeliverAB; DeliverAB; DeliverAB; TimeoutMonA]
              ++ repeat DeliverBA 3 ++ flat_map (fun _ => [DeliverAB; DeliverAB; DeliverBA; DeliverBA])
                                               (seq 0 4)) in
  quiescent s = true /\ s_sink_b s = [repeat 7 100] /\ e_mon (s_a s) = MonNone /\
  npolls (s_log_ab s) = 1 /\ nfinals (s_log_ba s) = 1.
Proof. vm_compute. repeat split. Qed.
