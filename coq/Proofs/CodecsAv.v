(* Proofs/CodecsAv.v — lemmas for Model/CodecsAv.v. *)
From Coq Require Import ZArith List Bool Lia.
From BV Require Import Base.Bytes Proofs.Bytes Model.CodecsBase Proofs.CodecsBase Model.CodecsAv.
Import ListNotations.
Open Scope Z_scope.

Lemma be_encode_2_shape' : forall n, exists b0 b1, be_encode 2 n = [b0; b1].
Proof.
  intro n. pose proof (be_encode_length 2 n) as H.
  destruct (be_encode 2 n) as [|b0 [|b1 [|? ?]]]; try discriminate. eauto.
Qed.
Lemma be_encode_4_shape' : forall n, exists b0 b1 b2 b3, be_encode 4 n = [b0; b1; b2; b3].
Proof.
  intro n. pose proof (be_encode_length 4 n) as H.
  destruct (be_encode 4 n) as [|b0 [|b1 [|b2 [|b3 [|? ?]]]]]; try discriminate. eauto 6.
Qed.

(* ---------------------------------------------------------------- AdvertisingData *)
Lemma ad_bytes_parse : forall items b rest fuel,
  ad_ok items = true -> ad_bytes items = Some b -> (length (b ++ rest) < fuel)%nat ->
  ad_parse fuel (b ++ rest) =
  match ad_parse (fuel - length items) rest with Some r => Some (items ++ r) | None => None end.
Proof.
  induction items as [|[t v] r IH]; intros b rest fuel Hok Hb Hf.
  - cbn in Hb. apply some_inv in Hb. subst b. cbn [app length]. rewrite Nat.sub_0_r.
    destruct (ad_parse fuel rest); reflexivity.
  - cbn [ad_bytes] in Hb. cbn [ad_ok forallb] in Hok. apply andb_true_iff in Hok as [Hi Hr].
    unfold ad_item_ok in Hi. cbn [fst snd] in Hi. rewrite !andb_true_iff in Hi. destruct Hi as [[Ht Hl] Hv].
    rewrite Hl, Ht in Hb. cbn [andb] in Hb.
    destruct (ad_bytes r) as [rb|] eqn:Er; [|discriminate]. apply some_inv in Hb. subst b.
    destruct fuel as [|k]; [lia|].
    cbn [app ad_parse].
    pose proof (lenZ_nonneg _ v) as Hn.
    replace (0 <? lenZ v + 1) with true by (symmetry; apply Z.ltb_lt; lia).
    assert (Hnat : Z.to_nat (lenZ v + 1) = S (length v)).
    { unfold lenZ. rewrite Z2Nat.inj_add by lia. rewrite Nat2Z.id. cbn. lia. }
    rewrite Hnat. cbn [skipn]. rewrite <- app_assoc.
    rewrite (skipn_app_exact _ v (rb ++ rest)).
    replace (S (length v) - 1)%nat with (length v) by lia.
    rewrite (firstn_app_exact _ v (rb ++ rest)).
    rewrite (IH rb rest k Hr eq_refl).
    + cbn [length Nat.sub]. destruct (ad_parse (k - length r) rest); reflexivity.
    + cbn [app length] in Hf. rewrite !app_length in *. lia.
Qed.

Theorem ad_value_roundtrip : forall items b,
  ad_ok items = true -> ad_bytes items = Some b -> ad_parse_all b = Some items.
Proof.
  intros items b Hok Hb. unfold ad_parse_all.
  pose proof (ad_bytes_parse items b [] (S (length b)) Hok Hb) as H.
  rewrite app_nil_r in H. rewrite H by lia.
  assert (Hlen : (length items <= length b)%nat).
  { clear H. revert b Hok Hb. induction items as [|[t v] r IH]; intros b Hok Hb; [cbn; lia|].
    cbn [ad_bytes] in Hb. cbn [ad_ok forallb] in Hok. apply andb_true_iff in Hok as [_ Hr].
    destruct (byte_ok (lenZ v + 1) && byte_ok t); [|discriminate].
    destruct (ad_bytes r) as [rb|] eqn:Er; [|discriminate]. apply some_inv in Hb. subst b.
    specialize (IH rb Hr eq_refl). cbn [length]. rewrite app_length. lia. }
  destruct (S (length b) - length items)%nat eqn:E; [lia|]. cbn [ad_parse]. rewrite app_nil_r. reflexivity.
Qed.

Lemma ad_ok_encodes : forall items, ad_ok items = true -> exists b, ad_bytes items = Some b.
Proof.
  induction items as [|[t v] r IH]; intro H; [eexists; reflexivity|].
  cbn [ad_ok forallb] in H. apply andb_true_iff in H as [Hi Hr].
  unfold ad_item_ok in Hi. cbn [fst snd] in Hi. rewrite !andb_true_iff in Hi. destruct Hi as [[Ht Hl] Hv].
  destruct (IH Hr) as [rb Hrb]. eexists. cbn [ad_bytes]. rewrite Hl, Ht, Hrb. reflexivity.
Qed.

Lemma ad_parse_never_fails : forall fuel d, (length d < fuel)%nat -> ad_parse fuel d <> None.
Proof.
  induction fuel as [|k IH]; intros d H; [lia|].
  destruct d as [|l [|t v]]; cbn [ad_parse]; try discriminate.
  destruct (0 <? l).
  - destruct (ad_parse k (skipn (Z.to_nat l) (t :: v))) eqn:E; [discriminate|].
    exfalso. apply (IH (skipn (Z.to_nat l) (t :: v))); [|exact E].
    rewrite skipn_length. cbn [length] in *. lia.
  - apply IH. cbn [length] in *. lia.
Qed.

Lemma ad_parse_bytes : forall fuel d items,
  bytes_ok d = true -> ad_exact fuel d = true -> ad_parse fuel d = Some items ->
  ad_bytes items = Some d /\ ad_ok items = true.
Proof.
  induction fuel as [|k IH]; intros d items Hok Hex Hp; [discriminate|].
  destruct d as [|l rest].
  - cbn in Hp. apply some_inv in Hp. subst. split; reflexivity.
  - cbn [ad_exact] in Hex. rewrite !andb_true_iff in Hex. destruct Hex as [[Hl Hle] Hex].
    apply Z.ltb_lt in Hl. apply Nat.leb_le in Hle.
    rewrite bytes_ok_cons in Hok. apply andb_true_iff in Hok as [Hlb Hrest]. pose proof Hlb as Hlb'. apply byte_ok_iff in Hlb.
    destruct rest as [|t v]; [cbn [length] in Hle; lia|].
    cbn [ad_parse] in Hp. replace (0 <? l) with true in Hp by (symmetry; apply Z.ltb_lt; lia).
    destruct (ad_parse k (skipn (Z.to_nat l) (t :: v))) as [r|] eqn:E; [|discriminate].
    apply some_inv in Hp. subst items.
    destruct (IH _ r (bytes_ok_skipn _ _ Hrest) Hex E) as [Hb Hk].
    rewrite bytes_ok_cons in Hrest. apply andb_true_iff in Hrest as [Ht Hv].
    assert (Hn : Z.to_nat l = S (Z.to_nat l - 1)) by lia.
    assert (Hlv : (Z.to_nat l - 1 <= length v)%nat) by (cbn [length] in Hle; lia).
    assert (Hlen : lenZ (firstn (Z.to_nat l - 1) v) + 1 = l).
    { unfold lenZ. rewrite firstn_length_le by exact Hlv. lia. }
    split.
    + cbn [ad_bytes]. rewrite Hlen, Hlb', Ht. cbn [andb].
      rewrite Hn in Hb. cbn [skipn] in Hb. rewrite Hb. rewrite firstn_skipn. reflexivity.
    + cbn [ad_ok forallb]. fold (ad_ok r). rewrite Hk, andb_true_r.
      unfold ad_item_ok. cbn [fst snd]. rewrite Hlen, Hlb', Ht. cbn [andb].
      apply bytes_ok_firstn. exact Hv.
Qed.

Theorem ad_bytes_roundtrip : forall d items,
  bytes_ok d = true -> ad_exact_all d = true -> ad_parse_all d = Some items ->
  ad_bytes items = Some d /\ ad_ok items = true.
Proof. intros d items. unfold ad_exact_all, ad_parse_all. apply ad_parse_bytes. Qed.

(* ---------------------------------------------------------------- AVDTP *)
Definition avdtp_b0_chk (tl mt : Z) : bool :=
  forallb (fun pt =>
    let b := avdtp_b0 tl pt mt in
    byte_ok b && (Z.shiftr b 4 =? tl) && (Z.land (Z.shiftr b 2) 3 =? pt) && (Z.land b 3 =? mt)) (zrange 4).
Lemma avdtp_b0_all : forall2b (zrange 16) (zrange 4) avdtp_b0_chk = true.
Proof. vm_compute. reflexivity. Qed.
Lemma avdtp_b0_facts : forall tl pt mt, 0 <= tl < 16 -> 0 <= pt < 4 -> 0 <= mt < 4 ->
  let b := avdtp_b0 tl pt mt in
  byte_ok b = true /\ Z.shiftr b 4 = tl /\ Z.land (Z.shiftr b 2) 3 = pt /\ Z.land b 3 = mt.
Proof.
  intros tl pt mt Htl Hpt Hmt.
  pose proof (forall2_range 16 4 _ avdtp_b0_all tl mt ltac:(cbn; lia) ltac:(cbn; lia)) as H.
  unfold avdtp_b0_chk in H. pose proof (forall_range 4 _ H pt ltac:(cbn; lia)) as H'. cbv beta zeta in H'.
  rewrite !andb_true_iff in H'. destruct H' as [[[H1 H2] H3] H4].
  apply Z.eqb_eq in H2. apply Z.eqb_eq in H3. apply Z.eqb_eq in H4. cbv zeta. auto.
Qed.

Lemma land_63_small : forall s, 0 <= s < 64 -> Z.land s 63 = s.
Proof. intros. change 63 with (Z.ones 6). rewrite Z.land_ones by lia. apply Z.mod_small. cbn. lia. Qed.

Theorem avdtp_single_roundtrip : forall tl mt sig payload,
  avdtp_hdr_ok tl mt sig = true ->
  avdtp_header_parse (avdtp_single_bytes tl mt sig payload) = Some ([tl; 0; mt; sig], payload).
Proof.
  intros tl mt sig payload H. unfold avdtp_hdr_ok in H. rewrite !andb_true_iff, !zlt_iff in H.
  destruct H as [[Htl Hmt] Hs].
  destruct (avdtp_b0_facts tl 0 mt Htl ltac:(lia) Hmt) as [_ [H1 [H2 H3]]].
  unfold avdtp_single_bytes. cbn [avdtp_header_parse]. rewrite H1, H2, H3. cbn [Z.eqb].
  rewrite land_63_small by exact Hs. reflexivity.
Qed.

Theorem avdtp_start_roundtrip : forall tl mt sig count frag,
  avdtp_hdr_ok tl mt sig = true ->
  avdtp_header_parse (avdtp_start_bytes tl mt sig count frag) = Some ([tl; 1; mt; sig; count], frag).
Proof.
  intros tl mt sig count frag H. unfold avdtp_hdr_ok in H. rewrite !andb_true_iff, !zlt_iff in H.
  destruct H as [[Htl Hmt] Hs].
  destruct (avdtp_b0_facts tl 1 mt Htl ltac:(lia) Hmt) as [_ [H1 [H2 H3]]].
  unfold avdtp_start_bytes. cbn [avdtp_header_parse]. rewrite H1, H2, H3. cbn [Z.eqb Pos.eqb].
  rewrite land_63_small by exact Hs. reflexivity.
Qed.

(* received single-packet header -> the same octets, when the two RFA bits of the signal
   octet are zero *)
Definition avdtp_back_chk (b0 : Z) : bool :=
  negb (Z.land (Z.shiftr b0 2) 3 =? 0) ||
  ((avdtp_b0 (Z.shiftr b0 4) 0 (Z.land b0 3) =? b0) && zlt 16 (Z.shiftr b0 4) && zlt 4 (Z.land b0 3)).
Lemma avdtp_back_all : forallb avdtp_back_chk (zrange 256) = true.
Proof. vm_compute. reflexivity. Qed.

Theorem avdtp_single_bytes_roundtrip : forall b0 b1 p tl pt mt sig payload,
  byte_ok b0 = true -> byte_ok b1 = true ->
  avdtp_header_parse (b0 :: b1 :: p) = Some ([tl; pt; mt; sig], payload) ->
  b1 < 64 ->
  avdtp_single_bytes tl mt sig payload = b0 :: b1 :: p /\ avdtp_hdr_ok tl mt sig = true.
Proof.
  intros b0 b1 p tl pt mt sig payload H0 H1 Hp Hb1.
  cbn [avdtp_header_parse] in Hp.
  pose proof (forall_range 256 _ avdtp_back_all b0 ltac:(apply byte_range; exact H0)) as B.
  unfold avdtp_back_chk in B.
  destruct (Z.land (Z.shiftr b0 2) 3 =? 0) eqn:E0.
  - cbn [negb orb] in B. rewrite !andb_true_iff in B. destruct B as [[B1 B2] B3]. apply Z.eqb_eq in B1.
    apply some_pair_inv in Hp as [Hl <-].
    injection Hl as <- <- <- <-.
    apply byte_ok_iff in H1. rewrite land_63_small by lia.
    split; [unfold avdtp_single_bytes; rewrite B1; reflexivity|].
    unfold avdtp_hdr_ok. rewrite B2, B3. cbn [andb]. apply zlt_iff. lia.
  - destruct (Z.land (Z.shiftr b0 2) 3 =? 1); [destruct p; discriminate|].
    apply some_pair_inv in Hp as [Hl _]. discriminate.
Qed.

(* EndPointInfo *)
Definition epi_chk (seid in_use : Z) : bool :=
  forallb (fun mt => forallb (fun tsep =>
    let p := [seid; in_use; mt; tsep] in
    match epi_bytes p with
    | [b0; b1] => byte_ok b0 && byte_ok b1 && epi_canonical b0 b1 &&
                  match epi_parse [b0; b1] with Some q => zlist_eqb q p | None => false end
    | _ => false
    end) (zrange 2)) (zrange 16).
Lemma epi_all : forall2b (zrange 64) (zrange 2) epi_chk = true.
Proof. vm_compute. reflexivity. Qed.

Theorem epi_value_roundtrip : forall p tail, epi_ok p = true -> epi_parse (epi_bytes p ++ tail) = Some p.
Proof.
  intros p tail H.
  destruct p as [|seid [|in_use [|mt [|tsep [|? ?]]]]]; try discriminate.
  cbn [epi_ok] in H. rewrite !andb_true_iff, !zlt_iff in H. destruct H as [[[Hs Hi] Hm] Ht].
  pose proof (forall2_range 64 2 _ epi_all seid in_use ltac:(cbn; lia) ltac:(cbn; lia)) as H1.
  unfold epi_chk in H1.
  pose proof (forall_range 16 _ H1 mt ltac:(cbn; lia)) as H2. cbv beta in H2.
  pose proof (forall_range 2 _ H2 tsep ltac:(cbn; lia)) as H3. cbv beta zeta in H3.
  destruct (epi_bytes [seid; in_use; mt; tsep]) as [|b0 [|b1 [|? ?]]] eqn:E; try discriminate.
  rewrite !andb_true_iff in H3. destruct H3 as [_ H3].
  cbn [app]. change (epi_parse (b0 :: b1 :: tail)) with (epi_parse [b0; b1]).
  destruct (epi_parse [b0; b1]) as [q|]; [|discriminate]. apply zlist_eqb_eq in H3. subst q. reflexivity.
Qed.

Definition epi_back_chk (b0 b1 : Z) : bool :=
  match epi_parse [b0; b1] with
  | Some p => epi_ok p && (negb (epi_canonical b0 b1) || zlist_eqb (epi_bytes p) [b0; b1])
  | None => false
  end.
Lemma epi_back_all : forall2b (zrange 256) (zrange 256) epi_back_chk = true.
Proof. vm_compute. reflexivity. Qed.

Theorem epi_bytes_roundtrip : forall b0 b1 tail p,
  byte_ok b0 = true -> byte_ok b1 = true -> epi_parse (b0 :: b1 :: tail) = Some p ->
  epi_ok p = true /\ (epi_canonical b0 b1 = true -> epi_bytes p = [b0; b1]).
Proof.
  intros b0 b1 tail p H0 H1 Hp. change (epi_parse (b0 :: b1 :: tail)) with (epi_parse [b0; b1]) in Hp.
  pose proof (forall2_range 256 256 _ epi_back_all b0 b1 ltac:(apply byte_range; exact H0)
                ltac:(apply byte_range; exact H1)) as H.
  unfold epi_back_chk in H. rewrite Hp in H. apply andb_true_iff in H as [Hok H].
  split; [exact Hok|]. intro Hc. rewrite Hc in H. cbn in H. apply zlist_eqb_eq. exact H.
Qed.

(* ---------------------------------------------------------------- AVCTP *)
Definition avctp_chk (tl : Z) : bool :=
  forallb (fun cmd => forallb (fun ipid =>
    let c := negb (cmd =? 0) in let i := negb (ipid =? 0) in
    match avctp_bytes tl c i 0 [] with
    | Some (b0 :: _) =>
        (c && i) ||     (* a command never carries IPID *)
        ((Z.shiftr b0 4 =? tl) && (Z.land (Z.shiftr b0 2) 3 =? 0)
         && Bool.eqb (Z.land (Z.shiftr b0 1) 1 =? 0) c && Bool.eqb (negb (Z.land b0 1 =? 0)) i)
    | _ => false
    end) (zrange 2)) (zrange 2).
Lemma avctp_all : forallb avctp_chk (zrange 16) = true.
Proof. vm_compute. reflexivity. Qed.

Theorem avctp_value_roundtrip : forall tl is_command ipid pid payload b,
  0 <= tl < 16 -> (is_command && ipid) = false ->
  avctp_bytes tl is_command ipid pid payload = Some b ->
  avctp_parse b = Some (Some (tl, is_command, ipid, pid, payload)).
Proof.
  intros tl c i pid payload b Htl Hci Hb.
  pose proof (forall_range 16 _ avctp_all tl ltac:(cbn; lia)) as H. unfold avctp_chk in H.
  pose proof (forall_range 2 _ H (bool_z c) ltac:(destruct c; cbn; lia)) as H1. cbv beta in H1.
  pose proof (forall_range 2 _ H1 (bool_z i) ltac:(destruct i; cbn; lia)) as H2. cbv beta zeta in H2.
  replace (negb (bool_z c =? 0)) with c in H2 by (destruct c; reflexivity).
  replace (negb (bool_z i =? 0)) with i in H2 by (destruct i; reflexivity).
  unfold avctp_bytes in *.
  set (b0 := Z.lor (Z.lor (Z.lor (Z.shiftl tl 4) (Z.shiftl 0 2)) (Z.shiftl (if c then 0 else 1) 1)) (bool_z i)) in *.
  destruct (u_range 1 b0) eqn:E0; [|discriminate H2]. cbn [andb] in H2.
  change (u_range 2 0) with true in H2. cbn [app be_encode] in H2.
  rewrite Hci in H2. cbn [orb] in H2. rewrite !andb_true_iff in H2. destruct H2 as [[[A1 A2] A3] A4].
  apply Z.eqb_eq in A1. apply eqb_prop in A3. apply eqb_prop in A4.
  cbn [andb] in Hb. destruct (u_range 2 pid) eqn:Ep; [|discriminate].
  apply some_inv in Hb. subst b. apply u_range_iff in Ep.
  destruct (be_encode_2_shape' pid) as [p0 [p1 Epid]].
  rewrite Epid. cbn [app avctp_parse].
  rewrite A1, A2, A3. rewrite <- (negb_involutive (Z.land b0 1 =? 0)), A4.
  assert (Hdrop : (c && negb (negb i)) = false) by (rewrite negb_involutive; exact Hci).
  rewrite Hdrop. rewrite negb_involutive.
  rewrite <- Epid. rewrite be_decode_encode by exact Ep. reflexivity.
Qed.

Theorem avctp_ipid_command_dropped : forall tl pid payload b,
  0 <= tl < 16 -> avctp_bytes tl true true pid payload = Some b -> avctp_parse b = Some None.
Proof.
  intros tl pid payload b Htl Hb. unfold avctp_bytes in Hb.
  set (b0 := Z.lor _ _) in Hb. destruct (u_range 1 b0 && u_range 2 pid); [|discriminate].
  apply some_inv in Hb. subst b. cbn [avctp_parse].
  assert (E : (Z.land (Z.shiftr b0 1) 1 =? 0) && negb (Z.land b0 1 =? 0) = true).
  { subst b0. assert (C : forallb (fun tl => let b0 := Z.lor (Z.lor (Z.lor (Z.shiftl tl 4) (Z.shiftl 0 2)) (Z.shiftl 0 1)) 1 in
                    (Z.land (Z.shiftr b0 1) 1 =? 0) && negb (Z.land b0 1 =? 0)) (zrange 16) = true)
      by (vm_compute; reflexivity).
    exact (forall_range 16 _ C tl ltac:(cbn; lia)). }
  rewrite E. reflexivity.
Qed.

(* ---------------------------------------------------------------- RTP *)
Definition rtp_b0_chk (v p : Z) : bool :=
  forallb (fun x => forallb (fun cc =>
    let b := Z.lor (Z.lor (Z.lor (Z.shiftl v 6) (Z.shiftl p 5)) (Z.shiftl x 4)) cc in
    byte_ok b && (Z.land (Z.shiftr b 6) 3 =? v) && (Z.land (Z.shiftr b 5) 1 =? p)
    && (Z.land (Z.shiftr b 4) 1 =? x) && (Z.land b 15 =? cc)) (zrange 16)) (zrange 2).
Lemma rtp_b0_all : forall2b (zrange 4) (zrange 2) rtp_b0_chk = true.
Proof. vm_compute. reflexivity. Qed.
Definition rtp_b1_chk (m pt : Z) : bool :=
  let b := Z.lor (Z.shiftl m 7) pt in
  byte_ok b && (Z.land (Z.shiftr b 7) 1 =? m) && (Z.land b 127 =? pt).
Lemma rtp_b1_all : forall2b (zrange 2) (zrange 128) rtp_b1_chk = true.
Proof. vm_compute. reflexivity. Qed.
Definition rtp_back_chk (b : Z) : bool :=
  (Z.lor (Z.lor (Z.lor (Z.shiftl (Z.land (Z.shiftr b 6) 3) 6) (Z.shiftl (Z.land (Z.shiftr b 5) 1) 5))
                (Z.shiftl (Z.land (Z.shiftr b 4) 1) 4)) (Z.land b 15) =? b)
  && (Z.lor (Z.shiftl (Z.land (Z.shiftr b 7) 1) 7) (Z.land b 127) =? b)
  && zlt 4 (Z.land (Z.shiftr b 6) 3) && zlt 2 (Z.land (Z.shiftr b 5) 1) && zlt 2 (Z.land (Z.shiftr b 4) 1)
  && zlt 16 (Z.land b 15) && zlt 2 (Z.land (Z.shiftr b 7) 1) && zlt 128 (Z.land b 127).
Lemma rtp_back_all : forallb rtp_back_chk (zrange 256) = true.
Proof. vm_compute. reflexivity. Qed.

Lemma rtp_words_encode : forall ws tail,
  forallb (u_range 4) ws = true ->
  rtp_words (length ws) (flat_map (be_encode 4) ws ++ tail) = Some (ws, tail).
Proof.
  induction ws as [|w ws IH]; intros tail H; [reflexivity|].
  cbn [forallb] in H. apply andb_true_iff in H as [Hw Hr]. apply u_range_iff in Hw.
  cbn [flat_map length]. rewrite <- app_assoc.
  destruct (be_encode_4_shape' w) as [a [b [c [e E]]]]. rewrite E. cbn [app rtp_words].
  rewrite IH by exact Hr. rewrite <- E. rewrite be_decode_encode by exact Hw. reflexivity.
Qed.

Theorem rtp_value_roundtrip : forall p, rtp_ok p = true -> rtp_parse (rtp_bytes p) = Some p.
Proof.
  intros [v pd x m sq ts ssrc cs pt pl] H. unfold rtp_ok in H.
  cbn [r_version r_padding r_extension r_marker r_seq r_ts r_ssrc r_csrc r_pt r_payload] in H.
  rewrite !andb_true_iff in H.
  destruct H as [[[[[[[[[[Hv Hp] Hx] Hm] Hsq] Hts] Hss] Hcs] Hcc] Hpt] Hpl].
  apply zlt_iff in Hv, Hp, Hx, Hm, Hcc, Hpt. apply u_range_iff in Hsq, Hts, Hss.
  pose proof (forall2_range 4 2 _ rtp_b0_all v pd ltac:(cbn; lia) ltac:(cbn; lia)) as B0.
  unfold rtp_b0_chk in B0.
  pose proof (forall_range 2 _ B0 x ltac:(cbn; lia)) as B0'. cbv beta in B0'.
  pose proof (forall_range 16 _ B0' (lenZ cs) ltac:(cbn; lia)) as B0''. cbv beta zeta in B0''.
  rewrite !andb_true_iff in B0''. destruct B0'' as [[[[_ A1] A2] A3] A4].
  apply Z.eqb_eq in A1, A2, A3, A4.
  pose proof (forall2_range 2 128 _ rtp_b1_all m pt ltac:(cbn; lia) ltac:(cbn; lia)) as B1.
  unfold rtp_b1_chk in B1. rewrite !andb_true_iff in B1. destruct B1 as [[_ C1] C2].
  apply Z.eqb_eq in C1, C2.
  unfold rtp_bytes. cbn [r_version r_padding r_extension r_marker r_seq r_ts r_ssrc r_csrc r_pt r_payload].
  destruct (be_encode_2_shape' sq) as [s0 [s1 Es]].
  destruct (be_encode_4_shape' ts) as [t0 [t1 [t2 [t3 Et]]]].
  destruct (be_encode_4_shape' ssrc) as [c0 [c1 [c2 [c3 Ec]]]].
  rewrite Es, Et, Ec. cbn [app rtp_parse].
  rewrite A4. unfold lenZ. rewrite Nat2Z.id. rewrite rtp_words_encode by exact Hcs.
  fold (lenZ cs). rewrite A1, A2, A3, C1, C2.
  rewrite <- Es, <- Et, <- Ec. rewrite !be_decode_encode by assumption. reflexivity.
Qed.

Lemma rtp_words_bytes : forall n d ws rest,
  bytes_ok d = true -> rtp_words n d = Some (ws, rest) ->
  flat_map (be_encode 4) ws ++ rest = d /\ length ws = n /\ forallb (u_range 4) ws = true /\ bytes_ok rest = true.
Proof.
  induction n as [|k IH]; intros d ws rest Hok H.
  - cbn in H. apply some_pair_inv in H as [<- <-]. repeat split; try reflexivity. exact Hok.
  - cbn [rtp_words] in H. destruct d as [|a [|b [|c [|e r]]]]; try discriminate.
    destruct (rtp_words k r) as [[ws' rest']|] eqn:E; [|discriminate].
    apply some_pair_inv in H as [<- <-].
    rewrite !bytes_ok_cons in Hok. rewrite !andb_true_iff in Hok. destruct Hok as [Ha [Hb [Hc [He Hr]]]].
    destruct (IH r ws' rest' Hr E) as [H1 [H2 [H3 H4]]].
    assert (Hw : bytes_ok [a; b; c; e] = true) by (cbn; rewrite Ha, Hb, Hc, He; reflexivity).
    pose proof (be_decode_range _ Hw) as R. cbn [length] in R.
    repeat split.
    + cbn [flat_map]. rewrite (be_encode_decode_n 4 [a; b; c; e] eq_refl Hw). cbn [app]. rewrite H1. reflexivity.
    + cbn [length]. rewrite H2. reflexivity.
    + cbn [forallb]. rewrite H3, andb_true_r. apply u_range_iff. exact R.
    + exact H4.
Qed.

(* every received packet long enough to parse re-serialises to the same octets *)
Theorem rtp_bytes_roundtrip : forall d p,
  bytes_ok d = true -> rtp_parse d = Some p -> rtp_bytes p = d /\ rtp_ok p = true.
Proof.
  intros d p Hok Hp.
  destruct d as [|b0 [|b1 [|s0 [|s1 [|t0 [|t1 [|t2 [|t3 [|c0 [|c1 [|c2 [|c3 r]]]]]]]]]]]]; try discriminate.
  cbn [rtp_parse] in Hp.
  destruct (rtp_words (Z.to_nat (Z.land b0 15)) r) as [[ws payload]|] eqn:Ew; [|discriminate].
  apply some_inv in Hp. subst p.
  rewrite !bytes_ok_cons in Hok. rewrite !andb_true_iff in Hok.
  destruct Hok as [H0 [H1 [Hs0 [Hs1 [Ht0 [Ht1 [Ht2 [Ht3 [Hc0 [Hc1 [Hc2 [Hc3 Hr]]]]]]]]]]]].
  destruct (rtp_words_bytes _ _ _ _ Hr Ew) as [W1 [W2 [W3 W4]]].
  pose proof (forall_range 256 _ rtp_back_all b0 ltac:(apply byte_range; exact H0)) as B0.
  pose proof (forall_range 256 _ rtp_back_all b1 ltac:(apply byte_range; exact H1)) as B1.
  unfold rtp_back_chk in B0, B1. rewrite !andb_true_iff in B0, B1.
  destruct B0 as [[[[[[[B0a _] B0v] B0p] B0x] B0c] _] _].
  destruct B1 as [[[[[[[_ B1a] _] _] _] _] B1m] B1p].
  apply Z.eqb_eq in B0a, B1a.
  assert (Hs : bytes_ok [s0; s1] = true) by (cbn; rewrite Hs0, Hs1; reflexivity).
  assert (Ht : bytes_ok [t0; t1; t2; t3] = true) by (cbn; rewrite Ht0, Ht1, Ht2, Ht3; reflexivity).
  assert (Hc : bytes_ok [c0; c1; c2; c3] = true) by (cbn; rewrite Hc0, Hc1, Hc2, Hc3; reflexivity).
  assert (Hcc : lenZ ws = Z.land b0 15).
  { unfold lenZ. rewrite W2. apply zlt_iff in B0c. lia. }
  split.
  - unfold rtp_bytes. cbn [r_version r_padding r_extension r_marker r_seq r_ts r_ssrc r_csrc r_pt r_payload].
    rewrite Hcc, B0a, B1a.
    rewrite (be_encode_decode_n 2 [s0; s1] eq_refl Hs).
    rewrite (be_encode_decode_n 4 [t0; t1; t2; t3] eq_refl Ht).
    rewrite (be_encode_decode_n 4 [c0; c1; c2; c3] eq_refl Hc).
    cbn [app]. rewrite W1. reflexivity.
  - unfold rtp_ok. cbn [r_version r_padding r_extension r_marker r_seq r_ts r_ssrc r_csrc r_pt r_payload].
    rewrite B0v, B0p, B0x, B1m, B1p, W3, W4, Hcc, B0c. cbn [andb].
    pose proof (be_decode_range _ Hs) as R1. pose proof (be_decode_range _ Ht) as R2.
    pose proof (be_decode_range _ Hc) as R3. cbn [length] in R1, R2, R3.
    replace (u_range 2 (be_decode [s0; s1])) with true by (symmetry; apply u_range_iff; exact R1).
    replace (u_range 4 (be_decode [t0; t1; t2; t3])) with true by (symmetry; apply u_range_iff; exact R2).
    replace (u_range 4 (be_decode [c0; c1; c2; c3])) with true by (symmetry; apply u_range_iff; exact R3).
    reflexivity.
Qed.

(* D18e: reading CSRC i at offset 12 + i does not give back the CSRC list *)
Lemma rtp_unfixed_refuted :
  exists ws, forallb (u_range 4) ws = true /\
    rtp_words_unfixed (length ws) 0 (flat_map (be_encode 4) ws) <> Some ws.
Proof. exists [16909060; 84281096]. split; [reflexivity|]. vm_compute. discriminate. Qed.

Lemma ad_parse_all_total : forall d, ad_parse_all d <> None.
Proof. intro d. exact (ad_parse_never_fails (S (length d)) d (Nat.lt_succ_diag_r _)). Qed.
