(* Proofs about Model/Skeleton.v: the abstract outcome sets cover every path, hence a
   well-formed dispatch table answers every command exactly once along every path. *)
From Coq Require Import ZArith List Bool Lia Arith.
From BV Require Import Model.Skeleton.
Import ListNotations.

(* ------------------------------------------------------------------ decidable equalities *)
Lemma term_eqb_eq a b : term_eqb a b = true <-> a = b.
Proof. destruct a, b; cbn; split; intros H; try reflexivity; discriminate. Qed.

Lemma st_eqb_eq a b : st_eqb a b = true <-> a = b.
Proof.
  destruct a as [a1 a2 a3], b as [b1 b2 b3]; unfold st_eqb; cbn.
  rewrite !andb_true_iff, !Nat.eqb_eq, Bool.eqb_true_iff. split.
  - intros [[-> ->] ->]. reflexivity.
  - intros H. inversion H. auto.
Qed.

Lemma aout_eqb_eq a b : aout_eqb a b = true <-> a = b.
Proof.
  destruct a as [a1 a2], b as [b1 b2]; unfold aout_eqb; cbn.
  rewrite andb_true_iff, st_eqb_eq, term_eqb_eq. split.
  - intros [-> ->]. reflexivity.
  - intros H. inversion H. auto.
Qed.

Section Dedup.
  Context {A : Type} (eqb : A -> A -> bool).
  Hypothesis eqb_eq : forall a b, eqb a b = true <-> a = b.

  Lemma mem_In a l : mem eqb a l = true <-> In a l.
  Proof.
    induction l as [|b l IH]; cbn.
    - split; [discriminate | tauto].
    - rewrite orb_true_iff, IH, eqb_eq. split; intros [H|H]; auto.
  Qed.

  Lemma dedup_In a l : In a (dedup eqb l) <-> In a l.
  Proof.
    induction l as [|b l IH]; cbn; [tauto|].
    destruct (mem eqb b l) eqn:M.
    - rewrite IH. split; [auto|]. intros [->|H]; [apply mem_In; exact M | exact H].
    - cbn. rewrite IH. tauto.
  Qed.
End Dedup.

Definition dedup_st := dedup_In st_eqb st_eqb_eq.
Definition dedup_aout := dedup_In aout_eqb aout_eqb_eq.
Definition mem_st := mem_In st_eqb st_eqb_eq.

(* ------------------------------------------------------------------ capping *)
Lemma cap_S n : cap (S (cap n)) = cap (S n).
Proof. destruct n as [|[|[|n]]]; reflexivity. Qed.

Lemma cap_cases n : cap n = 0%nat \/ cap n = 1%nat \/ cap n = 2%nat.
Proof. destruct n as [|[|n]]; cbn; auto. Qed.

Lemma cap_sum_one a b : (cap a + cap b = 1)%nat -> (a + b = 1)%nat.
Proof. destruct a as [|[|a]], b as [|[|b]]; cbn; lia. Qed.

Lemma abs_add_status x : abs (add_status (abs x)) = abs (add_status x).
Proof.
  destruct x as [a b r]; unfold abs, add_status; cbn [n_status n_complete res_none].
  f_equal; [apply cap_S|]. destruct b as [|[|b]]; reflexivity.
Qed.

Lemma abs_add_complete x : abs (add_complete (abs x)) = abs (add_complete x).
Proof.
  destruct x as [a b r]; unfold abs, add_complete; cbn [n_status n_complete res_none].
  f_equal; [|apply cap_S]. destruct a as [|[|a]]; reflexivity.
Qed.

Lemma abs_set_res x b : abs (set_res x b) = set_res (abs x) b.
Proof. reflexivity. Qed.

Lemma abs_in_all x : In (abs x) all_sts.
Proof.
  destruct x as [a b r]. unfold abs; cbn [n_status n_complete res_none].
  destruct (cap_cases a) as [Ha | [Ha | Ha] ], (cap_cases b) as [Hb | [Hb | Hb] ], r; rewrite Ha, Hb; cbn; tauto.
Qed.

Lemma abs_in_top x t : In (abs x, t) top.
Proof.
  unfold top. apply in_flat_map. exists (abs x). split; [apply abs_in_all|].
  destruct t; cbn; tauto.
Qed.

(* ------------------------------------------------------------------ loop heads *)
Lemma step_heads_incl f hs h : In h hs -> In h (step_heads f hs).
Proof. intros H. unfold step_heads. apply dedup_st. apply in_or_app. auto. Qed.

Lemma iter_heads_incl n f : forall hs h, In h hs -> In h (iter_heads n f hs).
Proof.
  induction n as [|n IH]; intros hs h H; cbn; [exact H|].
  apply IH. apply step_heads_incl. exact H.
Qed.

Lemma closed_spec f hs :
  closed f hs = true -> forall h o, In h hs -> In o (f h) -> snd o = Fall -> In (fst o) hs.
Proof.
  unfold closed. intros C h o Hh Ho Hf.
  rewrite forallb_forall in C. specialize (C h Hh). rewrite forallb_forall in C.
  specialize (C o Ho). unfold is_fall in C. rewrite Hf in C. cbn in C.
  apply mem_st. exact C.
Qed.

(* ------------------------------------------------------------------ soundness of [aouts] *)
Section Sound.
  Variable call : st -> list nat -> (st * term) * list nat.
  Variable acall : st -> list aout.
  Variable k : kind.
  Hypothesis call_sound : forall x p, In (abs (fst (fst (call x p))), snd (fst (call x p))) (acall (abs x)).

  Definition sound_at (s : sk) : Prop :=
    forall x p, In (abs (fst (fst (run call k s x p))), snd (fst (run call k s x p))) (aouts acall k s (abs x)).

  Lemma loop_sound b : sound_at b ->
    forall f hs, f = aouts acall k b -> closed f hs = true ->
    forall n x p, In (abs x) hs ->
    let r := loop_iter (run call k b) n x p in
    In (abs (fst (fst r)), snd (fst r))
       (map (fun h => (h, Fall)) hs ++ flat_map (fun h => filter (fun o => negb (is_fall o)) (f h)) hs).
  Proof.
    intros Hb f hs -> C n. induction n as [|n IH]; intros x p Hx; cbn [loop_iter].
    - cbn. apply in_or_app. left. apply in_map_iff. exists (abs x). auto.
    - pose proof (Hb x p) as H1. destruct (run call k b x p) as [[x1 t] p1] eqn:R.
      cbn [fst snd] in H1. destruct t.
      + apply IH. exact (closed_spec _ _ C _ _ Hx H1 eq_refl).
      + cbn [fst snd]. apply in_or_app. right. apply in_flat_map. exists (abs x). split; [exact Hx|].
        apply filter_In. split; [exact H1|reflexivity].
      + cbn [fst snd]. apply in_or_app. right. apply in_flat_map. exists (abs x). split; [exact Hx|].
        apply filter_In. split; [exact H1|reflexivity].
      + cbn [fst snd]. apply in_or_app. right. apply in_flat_map. exists (abs x). split; [exact Hx|].
        apply filter_In. split; [exact H1|reflexivity].
  Qed.

  Lemma run_sound : forall s, sound_at s.
  Proof.
    induction s as [| | | | | | | | |a IHa b IHb|a IHa b IHb|a IHa b IHb|a IHa b IHb|b IHb];
      intros x p; cbn [run aouts].
    - cbn. auto.
    - cbn. auto.
    - cbn. left. now rewrite abs_add_status.
    - cbn. left. now rewrite abs_add_complete.
    - cbn. auto.
    - cbn. auto.
    - cbn. auto.
    - cbn. auto.
    - apply call_sound.
    - (* Seq *)
      pose proof (IHa x p) as H1. destruct (run call k a x p) as [[x1 t] p1] eqn:R.
      cbn [fst snd] in H1. apply dedup_aout. apply in_flat_map.
      exists (abs x1, t). split; [exact H1|]. cbn [fst snd].
      destruct t; [apply IHb| cbn; auto ..].
    - (* If *)
      apply dedup_aout. apply in_or_app.
      destruct p as [|c p']; [right; apply IHb|].
      destruct c; [right; apply IHb | left; apply IHa].
    - destruct (is_sync k); [apply IHa | apply IHb].
    - change (res_none (abs x)) with (res_none x). destruct (res_none x); [apply IHa | apply IHb].
    - (* Loop *)
      unfold loop_outs. destruct (closed _ _) eqn:C; [|apply abs_in_top].
      apply dedup_aout.
      apply (loop_sound b IHb _ _ eq_refl C). apply iter_heads_incl. cbn. auto.
  Qed.
End Sound.

(* ------------------------------------------------------------------ handler, call, dispatch *)
Lemma handler_sound k h x p :
  let r := run_handler k h x p in
  In (abs (fst (fst r)), snd (fst r)) (aouts a_no_call k h (abs x)).
Proof.
  apply (run_sound no_call a_no_call k). intros x' p'. cbn. auto.
Qed.

Lemma call_handler_sound k h x p :
  let r := call_handler k h x p in
  In (abs (fst (fst r)), snd (fst r)) (a_call_handler k h (abs x)).
Proof.
  cbn zeta. unfold call_handler, a_call_handler.
  pose proof (handler_sound k h x p) as H. cbn zeta in H.
  destruct (run_handler k h x p) as [[x1 t] p1]. cbn [fst snd] in H.
  apply dedup_aout. apply in_map_iff. exists (abs x1, t). split; [|exact H].
  destruct t; reflexivity.
Qed.

Lemma entry_sound c e p :
  let r := run_entry c e p in In (abs (fst r), snd r) (aouts_entry c e).
Proof.
  cbn zeta. unfold run_entry, aouts_entry.
  pose proof (run_sound (call_handler (e_kind e) (handler_of c e))
                        (a_call_handler (e_kind e) (handler_of c e)) (e_kind e)
                        (fun x p => call_handler_sound _ _ x p) (c_dispatch c) st0 p) as H.
  destruct (run _ _ _ _ _) as [[x1 t] p1]. exact H.
Qed.

Lemma ok_out_spec x t : ok_out (abs x, t) = true -> replies x = 1%nat /\ t <> Exc.
Proof.
  unfold ok_out, replies. cbn [fst snd abs n_status n_complete].
  rewrite andb_true_iff, Nat.eqb_eq, negb_true_iff. intros [H1 H2]. split.
  - apply cap_sum_one. exact H1.
  - intros ->. discriminate.
Qed.

Lemma wf_entry_once c e : wf_entry c e = true ->
  forall p, replies (fst (run_entry c e p)) = 1%nat /\ snd (run_entry c e p) <> Exc.
Proof.
  unfold wf_entry. intros W p. rewrite forallb_forall in W.
  apply ok_out_spec. apply W. apply entry_sound.
Qed.

Lemma lookup_In t op e : lookup t op = Some e -> In e t.
Proof.
  induction t as [|e' t IH]; cbn; [discriminate|].
  destruct (Z.eqb (e_opcode e') op); [intros H; inversion H; auto | auto].
Qed.

(* the theorem of DESIGN 4.5 *)
Theorem wf_table_replies_once c : wf_ctrl c = true ->
  forall op p, replies (fst (run_dispatch c op p)) = 1%nat /\ snd (run_dispatch c op p) <> Exc.
Proof.
  unfold wf_ctrl. rewrite andb_true_iff, forallb_forall. intros [Wt Wd] op p.
  unfold run_dispatch, entry_of. destruct (lookup (c_table c) op) as [e|] eqn:L.
  - apply wf_entry_once. apply Wt. apply (lookup_In _ _ _ L).
  - exact (wf_entry_once c (mkEntry 0 KNone None) Wd p).
Qed.

(* consequences used by the host-side contract: the single reply exists and nothing escapes *)
Corollary wf_table_no_exception c : wf_ctrl c = true ->
  forall op p, snd (run_dispatch c op p) <> Exc.
Proof. intros W op p. apply (wf_table_replies_once c W op p). Qed.

(* the hypothesis is needed: the dispatch of the unrepaired tree loses the reply of a
   non-synchronous command without handler (D03a / D03b) ... *)
Definition old_dispatch : sk :=
  Seq CallH (IfSync (Seq (IfResNone ReturnN Nop) Complete) (IfResNone Nop Nop)).
Definition old_ctrl : ctrl_desc := mkCtrl old_dispatch ReturnV [mkEntry 1025 KAsync None].

Lemma old_dispatch_refuted :
  wf_ctrl old_ctrl = false /\ replies (fst (run_dispatch old_ctrl 1025 [])) = 0%nat
  /\ replies (fst (run_dispatch old_ctrl 16383 [])) = 0%nat.
Proof. vm_compute. auto. Qed.

(* ... and a handler path that returns before any status is a lost reply (D03c) *)
Definition early_return_handler : sk := Seq (If ReturnN Nop) (Seq Status ReturnN).
Lemma early_return_refuted :
  let c := mkCtrl old_dispatch ReturnV [mkEntry 8205 KAsync (Some early_return_handler)] in
  wf_ctrl c = false /\ replies (fst (run_dispatch c 8205 [1%nat])) = 0%nat
  /\ replies (fst (run_dispatch c 8205 [0%nat])) = 1%nat.
Proof. vm_compute. auto. Qed.
