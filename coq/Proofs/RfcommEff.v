(* The set-up / teardown transition function of Model/RfcommSm2.v IS what the source of
   bumble/rfcomm.py does: interpreting the effect terms compiled from the source on every
   run (Gen/C20MuxEff.v) gives, for every role, multiplexer state, DLC table entry,
   pending-open status and frame, exactly the model's new state, frames sent and
   open_result resolution.  Complete evaluation over the finite domain. *)
From Coq Require Import List Bool Arith.
From BV Require Import Model.RfcommSm Model.RfcommSm2 Model.RfcommEff Gen.C20MuxEff.
Import ListNotations.

Definition all_mst := [MInit; MConnecting; MConnected; MOpening; MDisconnecting; MDisconnected].
Definition all_slot : list (option dst) :=
  [None; Some DConnecting; Some DConnected; Some DDisconnecting; Some DDisconnected; Some DReset].
Definition all_pend : list (option nat) := [None; Some 0; Some 1; Some 2; Some 3; Some 4; Some 5].

(* frames of channels 0 and 1, and the two frames that exist for the refused channel 2 *)
Definition all_frames : list fr2 :=
  [G_SABM0; G_UA0; G_DISC0; G_PNcmd 2; G_DM 2;
   G_PNcmd 3; G_PNcmd 4; G_PNcmd 5; G_DM 3; G_DM 4; G_DM 5]
  ++ flat_map (fun d => [G_PNcmd d; G_PNrsp d; G_DM d; G_SABM d; G_UA d; G_DISC d;
                         G_PNcmdRB d; G_PNrspBad d]) [0; 1].

(* is the frame size carried by a PN frame acceptable to the end that receives it *)
Definition frame_size_ok (f : fr2) : bool :=
  match f with
  | G_PNcmd k => size_ok k
  | G_PNrspBad _ => false
  | _ => true
  end.
Definition is_rb (f : fr2) : bool := match f with G_PNcmdRB _ => true | _ => false end.

Definition opt_dst_eqb (a b : option dst) : bool :=
  match a, b with
  | None, None => true
  | Some x, Some y => is_dst x y
  | _, _ => false
  end.
Definition opt_nat_eqb (a b : option nat) : bool :=
  match a, b with None, None => true | Some x, Some y => Nat.eqb x y | _, _ => false end.
Definition oev_eqb (a b : oev) : bool :=
  match a, b with NoEv, NoEv | EvOk, EvOk | EvFail, EvFail => true | _, _ => false end.
Definition fr2_eqb (a b : fr2) : bool :=
  match a, b with
  | G_SABM0, G_SABM0 | G_UA0, G_UA0 | G_DISC0, G_DISC0 => true
  | G_PNcmd x, G_PNcmd y | G_PNrsp x, G_PNrsp y | G_DM x, G_DM y
  | G_PNcmdRB x, G_PNcmdRB y | G_PNrspBad x, G_PNrspBad y
  | G_SABM x, G_SABM y | G_UA x, G_UA y | G_DISC x, G_DISC y => Nat.eqb x y
  | _, _ => false
  end.
Fixpoint frs_eqb (a b : list fr2) : bool :=
  match a, b with
  | [], [] => true
  | x :: r, y :: t => fr2_eqb x y && frs_eqb r t
  | _, _ => false
  end.

Definition mk_side (m : mst) (d : nat) (x y : option dst) (p : option nat) : side2 :=
  match d with
  | O => mkSide2 m x y p
  | S O => mkSide2 m y x p
  | _ => mkSide2 m y y p       (* channel 2 has no table entry *)
  end.

Definition other (d : nat) : nat := match d with O => 1 | _ => 0 end.

(* one frame: source vs model *)
Definition frame_case_ok (responder : bool) (m : mst) (x y : option dst) (p : option nat) (f : fr2) : bool :=
  let d := fr2_chan f in
  let s := mk_side m d x y p in
  let '(s', out, ev) := on_frame2 responder s f in
  let E := mkEnv (fst (fin_of f)) responder (accepted d) (frame_size_ok f) in
  let r := exec 3 src_handlers E src_h_on_pdu
             (mkIst (e_mux s) (to_full (slot s d)) (has_pend s) [] NoEv 0) in
  Nat.leb (i_stop r) 1 &&
  is_mst (i_mux r) (e_mux s') &&
  match of_full (i_dlc r) with Some z => opt_dst_eqb z (slot s' d) | None => false end &&
  opt_dst_eqb (slot s' (other d)) (slot s (other d)) &&
  opt_nat_eqb (e_pend s') (if i_open r then e_pend s else None) &&
  frs_eqb (flat_map (fr2_of_gen (is_rb f) d) (i_out r)) out &&
  oev_eqb (i_ev r) ev.

Definition all_frame_cases_ok : bool :=
  forallb (fun responder =>
   forallb (fun m =>
    forallb (fun x =>
     forallb (fun y =>
      forallb (fun p =>
       forallb (fun f =>
         (* channels 2..5 never have a table entry *)
         if Nat.leb 2 (fr2_chan f) && negb (opt_dst_eqb x None) then true
         else frame_case_ok responder m x y p f) all_frames) all_pend) all_slot) all_slot) all_mst)
   [true; false].

(* MSC frames (left out of Model/RfcommSm2.v) change nothing and are answered only by MSC frames *)
Definition msc_case_ok (responder : bool) (m : mst) (x : option dst) (opn : bool) (k : fkind) : bool :=
  let E := mkEnv (mkFin k true) responder true true in
  let r := exec 3 src_handlers E src_h_on_pdu (mkIst m (to_full x) opn [] NoEv 0) in
  Nat.leb (i_stop r) 1 && is_mst (i_mux r) m &&
  match of_full (i_dlc r) with Some z => opt_dst_eqb z x | None => false end &&
  Bool.eqb (i_open r) opn && oev_eqb (i_ev r) NoEv &&
  forallb (fun f => is_msc (f_kind f)) (i_out r).

Definition all_msc_cases_ok : bool :=
  forallb (fun responder => forallb (fun m => forallb (fun x => forallb (fun opn => forallb (fun k =>
    msc_case_ok responder m x opn k) [KMscCmd; KMscRsp]) [true; false]) all_slot) all_mst) [true; false].

(* the local operations: Multiplexer.connect / open_dlc / disconnect, DLC.disconnect *)
Definition st_of (a b : side2) : st2 := mkSt2 a b false false [] [].

Definition op_case_ok (m : mst) (x y : option dst) (p : option nat) : bool :=
  let nofr := mkEnv (mkFin KSabm true) false false true in
  (* connect *)
  (let a := mk_side m 0 x y p in
   let s' := sm2_step (st_of a a) L_Connect in
   let r := exec 3 src_handlers nofr src_h_mux_connect (mkIst m None (has_pend a) [] NoEv 0) in
   if Nat.eqb (i_stop r) 2
   then is_mst (e_mux (t_a s')) m && frs_eqb (t_ab s') []
   else is_mst (e_mux (t_a s')) (i_mux r) && frs_eqb (t_ab s') (flat_map (fr2_of 0) (i_out r))) &&
  (* multiplexer disconnect *)
  (let a := mk_side m 0 x y p in
   let s' := sm2_step (st_of a a) L_MuxDisc in
   let r := exec 3 src_handlers nofr src_h_mux_disconnect (mkIst m None (has_pend a) [] NoEv 0) in
   Nat.leb (i_stop r) 1 &&
   is_mst (e_mux (t_a s')) (i_mux r) && frs_eqb (t_ab s') (flat_map (fr2_of 0) (i_out r))) &&
  (* open_dlc(d), for a channel whose table entry is free (environment assumption) *)
  forallb (fun d =>
    let a := mk_side m (chan_of d) None y None in
    let s' := sm2_step (st_of a a) (L_Open d) in
    let r := exec 3 src_handlers nofr src_h_open_dlc (mkIst m None false [] NoEv 0) in
    if Nat.eqb (i_stop r) 2
    then is_mst (e_mux (t_a s')) m && frs_eqb (t_ab s') [] && opt_nat_eqb (e_pend (t_a s')) None
    else is_mst (e_mux (t_a s')) (i_mux r) && frs_eqb (t_ab s') (flat_map (fr2_of d) (i_out r))
         && i_open r && opt_nat_eqb (e_pend (t_a s')) (Some d)) [0; 1; 2; 3; 4; 5] &&
  (* DLC.disconnect on either end *)
  forallb (fun d =>
    let a := mk_side m d x y p in
    let sa := sm2_step (st_of a a) (L_ADisc d) in
    let sb := sm2_step (st_of a a) (L_BDisc d) in
    match x with
    | None => opt_dst_eqb (slot (t_a sa) d) None && opt_dst_eqb (slot (t_b sb) d) None
              && frs_eqb (t_ab sa) [] && frs_eqb (t_ba sb) []
    | Some _ =>
        let r := exec 3 src_handlers nofr src_h_dlc_disconnect (mkIst m (to_full x) (has_pend a) [] NoEv 0) in
        if Nat.eqb (i_stop r) 2
        then opt_dst_eqb (slot (t_a sa) d) x && opt_dst_eqb (slot (t_b sb) d) x
             && frs_eqb (t_ab sa) [] && frs_eqb (t_ba sb) []
        else match of_full (i_dlc r) with
             | Some z => opt_dst_eqb (slot (t_a sa) d) z && opt_dst_eqb (slot (t_b sb) d) z
             | None => false
             end
             && frs_eqb (t_ab sa) (flat_map (fr2_of d) (i_out r))
             && frs_eqb (t_ba sb) (flat_map (fr2_of d) (i_out r))
             && is_mst (e_mux (t_a sa)) (i_mux r)
    end) [0; 1].

Definition all_op_cases_ok : bool :=
  forallb (fun m => forallb (fun x => forallb (fun y => forallb (fun p =>
    op_case_ok m x y p) all_pend) all_slot) all_slot) all_mst.

Lemma frame_cases_match_source : all_frame_cases_ok = true.
Proof. vm_compute. reflexivity. Qed.

Lemma msc_cases_harmless : all_msc_cases_ok = true.
Proof. vm_compute. reflexivity. Qed.

Lemma op_cases_match_source : all_op_cases_ok = true.
Proof. vm_compute. reflexivity. Qed.
