(* Proofs about Model/AttServer.v (properties C10 and C11) *)
From Coq Require Import ZArith List Bool Lia.
From BV Require Import Gen.C10Tables Model.AttServer.
Import ListNotations.
Open Scope Z_scope.

(* ------------------------------------------------------------------ lengths *)
Lemma len_nonneg {A} (l : list A) : 0 <= len l.
Proof. unfold len. lia. Qed.

Lemma len_nil {A} : len (@nil A) = 0.
Proof. reflexivity. Qed.

Lemma len_cons {A} (x : A) l : len (x :: l) = 1 + len l.
Proof. unfold len. cbn [length]. lia. Qed.

Lemma len_app {A} (a b : list A) : len (a ++ b) = len a + len b.
Proof. unfold len. rewrite app_length. lia. Qed.

Lemma len_take_le {A} n (l : list A) : 0 <= n -> len (take n l) <= n.
Proof.
  intros Hn. unfold len, take. rewrite firstn_length.
  pose proof (Nat.le_min_l (Z.to_nat n) (length l)). lia.
Qed.

Lemma len_take_le_len {A} n (l : list A) : len (take n l) <= len l.
Proof.
  unfold len, take. rewrite firstn_length.
  pose proof (Nat.le_min_r (Z.to_nat n) (length l)). lia.
Qed.

Lemma len_le16 n : len (le16 n) = 2.
Proof. reflexivity. Qed.

Lemma len_err_rsp op h c : len (err_rsp op h c) = 5.
Proof. reflexivity. Qed.

Lemma len_drop {A} n (l : list A) : 0 <= n -> n <= len l -> len (drop n l) = len l - n.
Proof. intros H0 H1. unfold len, drop in *. rewrite skipn_length. lia. Qed.

Lemma len_flat_map_cons {A} (f : A -> bytes) x l :
  len (flat_map f (x :: l)) = len (f x) + len (flat_map f l).
Proof. cbn [flat_map]. apply len_app. Qed.

(* ------------------------------------------------------------------ reply_for *)
Lemma reply_err op h c : reply_for op (err_rsp op h c) = true.
Proof.
  unfold reply_for, err_rsp, le16. cbn [app].
  rewrite (Z.eqb_refl op), (Z.eqb_refl OP_ERROR). cbn. apply orb_true_r.
Qed.

Lemma reply_rsp op rest : reply_for op ((op + 1) :: rest) = true.
Proof. unfold reply_for. rewrite Z.eqb_refl. reflexivity. Qed.

(* ------------------------------------------------------------------ handlers: one PDU, of the right kind *)
Lemma h_find_info_reply mtu vs s e :
  reply_for 4 (h_find_info mtu vs 4 s e) = true.
Proof.
  unfold h_find_info.
  destruct ((s =? 0) || (e <? s)); [apply reply_err|].
  destruct (fi_collect _ _ _ _); [apply reply_err|]. apply (reply_rsp 4).
Qed.

Lemma h_fbtv_reply mtu vs s e t v : reply_for 6 (h_fbtv mtu vs 6 s e t v) = true.
Proof.
  unfold h_fbtv, exc_rsp. destruct (fbtv_collect _ _ _ _ _ _) as [[|x r]|];
    [apply reply_err|apply (reply_rsp 6)|apply reply_err].
Qed.

Lemma h_rbt_reply mtu vs s e t : reply_for 8 (h_rbt mtu vs 8 s e t) = true.
Proof.
  unfold h_rbt, exc_rsp. destruct ((s =? 0) || (e <? s)); [apply reply_err|].
  destruct (rb_collect _ _ _ _ _) as [[[|[x v0] r] [[h c]|]]|];
    try apply reply_err; apply (reply_rsp 8).
Qed.

Lemma h_rbgt_reply mtu vs s e t : reply_for 16 (h_rbgt mtu vs 16 s e t) = true.
Proof.
  unfold h_rbgt, exc_rsp. destruct (negb _); [apply reply_err|].
  destruct (rb_collect _ _ _ _ _) as [[[|[x v0] r] [[h c]|]]|];
    try apply reply_err; apply (reply_rsp 16).
Qed.

Lemma h_read_reply mtu vs h : reply_for 10 (h_read mtu vs 10 h) = true.
Proof.
  unfold h_read, exc_rsp. destruct (find_view h vs) as [x|]; [|apply reply_err].
  destruct (v_read x); [apply reply_err|apply (reply_rsp 10)|apply reply_err].
Qed.

Lemma h_blob_reply mtu vs h off : reply_for 12 (h_blob mtu vs 12 h off) = true.
Proof.
  unfold h_blob, exc_rsp. destruct (find_view h vs) as [x|]; [|apply reply_err].
  destruct (v_read x); [apply reply_err| |apply reply_err].
  destruct (len v <? off); [apply reply_err|].
  destruct ((off =? 0) && (len v <=? mtu - 1)); [apply reply_err|apply (reply_rsp 12)].
Qed.

Lemma h_rm_reply mtu vs hs : reply_for 14 (h_rm mtu vs 14 hs) = true.
Proof.
  unfold h_rm, exc_rsp. destruct (rm_collect _ _ _ _) as [r|h c|];
    [apply (reply_rsp 14)|apply reply_err|apply reply_err].
Qed.

Lemma h_rmv_reply mtu vs hs : reply_for 32 (h_rmv mtu vs 32 hs) = true.
Proof.
  unfold h_rmv, exc_rsp. destruct (rmv_collect _ _ _) as [r|h c|];
    [apply (reply_rsp 32)|apply reply_err|apply reply_err].
Qed.

Lemma h_write_reply b db subs h v : reply_for 18 (snd (h_write b db subs 18 h v)) = true.
Proof.
  unfold h_write, exc_rsp. destruct (find_attr h db) as [a|]; [|apply reply_err].
  destruct (MAX_VALUE_SIZE <? len v); [apply reply_err|].
  destruct (write_check b a); [apply reply_err|apply (reply_rsp 18)|apply reply_err].
Qed.

(* ------------------------------------------------------------------ parsing: which request a
   well-formed PDU of each handled opcode yields *)
Ltac destr_bytes ps :=
  repeat match goal with
         | |- context [match ?l with [] => _ | _ :: _ => _ end] =>
             is_var l; destruct l as [|? l]
         end.

Lemma parse_2 ps r : parse_pdu 2 ps = POk r -> exists m, r = RMtu m.
Proof.
  unfold parse_pdu. cbn [assoc m_shapes Z.eqb Pos.eqb parse_fields].
  destruct ps as [|x [|y ps]]; cbn; try discriminate.
  intros H; inversion H; eauto.
Qed.

Lemma parse_4 ps r : parse_pdu 4 ps = POk r -> exists s e, r = RFindInfo s e.
Proof.
  unfold parse_pdu. cbn [assoc m_shapes Z.eqb Pos.eqb parse_fields].
  destruct ps as [|x [|y [|z [|w ps]]]]; cbn; try discriminate.
  intros H; inversion H; eauto.
Qed.

Lemma parse_6 ps r : parse_pdu 6 ps = POk r -> exists s e t v, r = RFbtv s e t v.
Proof.
  unfold parse_pdu. cbn [assoc m_shapes Z.eqb Pos.eqb parse_fields].
  destruct ps as [|x [|y [|z [|w [|t0 [|t1 ps]]]]]]; cbn; try discriminate.
  intros H; inversion H; eauto.
Qed.

Lemma parse_8 ps r : parse_pdu 8 ps = POk r -> exists s e t, r = RRbt s e t.
Proof.
  unfold parse_pdu. cbn [assoc m_shapes Z.eqb Pos.eqb parse_fields].
  destruct ps as [|x [|y [|z [|w ps]]]]; cbn [option_map]; try discriminate.
  destruct (uuid_len_ok ps); cbn; try discriminate.
  intros H; inversion H; eauto.
Qed.

Lemma parse_10 ps r : parse_pdu 10 ps = POk r -> exists h, r = RRead h.
Proof.
  unfold parse_pdu. cbn [assoc m_shapes Z.eqb Pos.eqb parse_fields].
  destruct ps as [|x [|y ps]]; cbn; try discriminate.
  intros H; inversion H; eauto.
Qed.

Lemma parse_12 ps r : parse_pdu 12 ps = POk r -> exists h o, r = RBlob h o.
Proof.
  unfold parse_pdu. cbn [assoc m_shapes Z.eqb Pos.eqb parse_fields].
  destruct ps as [|x [|y [|z [|w ps]]]]; cbn; try discriminate.
  intros H; inversion H; eauto.
Qed.

Lemma parse_14 ps r : parse_pdu 14 ps = POk r -> exists hs, r = RRm hs.
Proof.
  unfold parse_pdu. cbn [assoc m_shapes Z.eqb Pos.eqb parse_fields].
  destruct (parse_handles ps); cbn; try discriminate.
  intros H; inversion H; eauto.
Qed.

Lemma parse_16 ps r : parse_pdu 16 ps = POk r -> exists s e t, r = RRbgt s e t.
Proof.
  unfold parse_pdu. cbn [assoc m_shapes Z.eqb Pos.eqb parse_fields].
  destruct ps as [|x [|y [|z [|w ps]]]]; cbn [option_map]; try discriminate.
  destruct (uuid_len_ok ps); cbn; try discriminate.
  intros H; inversion H; eauto.
Qed.

Lemma parse_18 ps r : parse_pdu 18 ps = POk r -> exists h v, r = RWrite h v.
Proof.
  unfold parse_pdu. cbn [assoc m_shapes Z.eqb Pos.eqb parse_fields].
  destruct ps as [|x [|y ps]]; cbn; try discriminate.
  intros H; inversion H; eauto.
Qed.

Lemma parse_30 ps r : parse_pdu 30 ps = POk r -> r = RConfirm.
Proof.
  unfold parse_pdu. cbn. intros H; inversion H; reflexivity.
Qed.

Lemma parse_32 ps r : parse_pdu 32 ps = POk r -> exists hs, r = RRmv hs.
Proof.
  unfold parse_pdu. cbn [assoc m_shapes Z.eqb Pos.eqb parse_fields].
  destruct (parse_handles ps); cbn; try discriminate.
  intros H; inversion H; eauto.
Qed.

Lemma parse_82 ps r : parse_pdu 82 ps = POk r -> exists h v, r = RWriteCmd h v.
Proof.
  unfold parse_pdu. cbn [assoc m_shapes Z.eqb Pos.eqb parse_fields].
  destruct ps as [|x [|y ps]]; cbn; try discriminate.
  intros H; inversion H; eauto.
Qed.

(* ------------------------------------------------------------------ C10: nothing for a non-request *)
Lemma no_handler opc :
  memz opc spec_requests = false -> opc <> 30 -> opc <> 82 -> assoc opc m_handlers = None.
Proof.
  intros Hm H30 H82. unfold spec_requests in Hm. cbn [memz] in Hm.
  repeat (apply orb_false_iff in Hm; destruct Hm as [? Hm]).
  unfold m_handlers. cbn [assoc].
  repeat match goal with
         | H : (opc =? ?k) = false |- context [opc =? ?k] => rewrite H
         end.
  destruct (opc =? 30) eqn:E30; [apply Z.eqb_eq in E30; contradiction|].
  destruct (opc =? 82) eqn:E82; [apply Z.eqb_eq in E82; contradiction|].
  reflexivity.
Qed.

Lemma rx_non_request st opc ps :
  memz opc spec_requests = false -> opc <> 30 ->
  exists st', rx st opc ps = Some (st', []).
Proof.
  intros Hm H30. unfold rx.
  destruct (Z.eq_dec opc 82) as [->|H82].
  - destruct (parse_pdu 82 ps) as [|r] eqn:E.
    + eexists; reflexivity.
    + apply parse_82 in E. destruct E as (h & v & ->). cbn [assoc m_handlers Z.eqb Pos.eqb handle].
      eexists; reflexivity.
  - rewrite Hm, (no_handler opc Hm H30 H82).
    destruct (parse_pdu opc ps); eexists; reflexivity.
Qed.

(* a confirmation is never answered; at most it lets the oldest waiting indication go *)
Lemma rx_confirmation st ps :
  rx st 30 ps = Some (h_confirm st) /\
  (snd (h_confirm st) = [] \/
   exists p w, s_pending st = true /\ s_waiting st = p :: w /\ snd (h_confirm st) = [p]).
Proof.
  split.
  - unfold rx. destruct (parse_pdu 30 ps) as [|r] eqn:E.
    + unfold parse_pdu in E. cbn in E. discriminate.
    + apply parse_30 in E. subst r. reflexivity.
  - unfold h_confirm. destruct (s_pending st); [|left; reflexivity].
    destruct (s_waiting st) as [|p w]; [left; reflexivity|].
    right. exists p, w. repeat split.
Qed.

(* ------------------------------------------------------------------ C10: every reply fits in ATT_MTU *)
Lemma fi_collect_len l : forall space usz first,
  0 <= space -> len (flat_map fi_entry (fi_collect space usz first l)) <= space.
Proof.
  induction l as [|x l IH]; intros space usz first Hs; cbn [fi_collect].
  - cbn. exact Hs.
  - destruct (negb first && negb (len (uuid_pdu (v_type x)) =? usz)); [cbn; exact Hs|].
    destruct (space <? 2 + len (uuid_pdu (v_type x))) eqn:E; [cbn; exact Hs|].
    apply Z.ltb_ge in E. rewrite len_flat_map_cons.
    specialize (IH (space - (2 + len (uuid_pdu (v_type x)))) (len (uuid_pdu (v_type x))) false).
    unfold fi_entry at 1. rewrite len_app, len_le16. lia.
Qed.

Lemma h_find_info_len mtu vs op s e : 23 <= mtu -> len (h_find_info mtu vs op s e) <= mtu.
Proof.
  intros Hm. unfold h_find_info.
  destruct ((s =? 0) || (e <? s)); [rewrite len_err_rsp; lia|].
  pose proof (fi_collect_len (filter (in_range s e) vs) (mtu - 2) 0 true ltac:(lia)) as H.
  destruct (fi_collect (mtu - 2) 0 true (filter (in_range s e) vs)) as [|x r].
  - rewrite len_err_rsp; lia.
  - rewrite len_app. change (len [OP_FIND_INFO_RSP; _]) with 2. lia.
Qed.

Lemma fbtv_collect_len s e t v vs : forall space,
  0 <= space ->
  match fbtv_collect s e t v space vs with
  | Some r => len (flat_map fbtv_entry r) <= space
  | None => True
  end.
Proof.
  induction vs as [|x vs IH]; intros space Hs; cbn [fbtv_collect].
  - cbn. exact Hs.
  - destruct (in_range s e x && uuid_eqb (v_type x) t && read_raises x); [exact I|].
    destruct (in_range s e x && uuid_eqb (v_type x) t && value_matches x v && (4 <=? space)) eqn:E.
    + apply andb_true_iff in E. destruct E as [_ E]. apply Z.leb_le in E.
      specialize (IH (space - 4) ltac:(lia)).
      destruct (fbtv_collect s e t v (space - 4) vs) as [r|]; cbn [option_map]; [|exact I].
      rewrite len_flat_map_cons. unfold fbtv_entry at 1. rewrite len_app, !len_le16. lia.
    + apply IH; exact Hs.
Qed.

Lemma h_fbtv_len mtu vs op s e t v : 23 <= mtu -> len (h_fbtv mtu vs op s e t v) <= mtu.
Proof.
  intros Hm. unfold h_fbtv.
  pose proof (fbtv_collect_len s e t v vs (mtu - 2) ltac:(lia)) as H.
  destruct (fbtv_collect s e t v (mtu - 2) vs) as [[|x r]|].
  - rewrite len_err_rsp; lia.
  - rewrite len_app. change (len [OP_FBTV_RSP]) with 1. lia.
  - unfold exc_rsp. rewrite len_err_rsp; lia.
Qed.

Lemma rb_collect_len (f : view * bytes -> bytes) hdr cap :
  (forall p, len (f p) = hdr + len (snd p)) ->
  forall l space flen, 0 <= space ->
  match rb_collect hdr cap space flen l with
  | Some re => len (flat_map f (fst re)) <= space
  | None => True
  end.
Proof.
  intros Hf. induction l as [|x l IH]; intros space flen Hs; cbn [rb_collect].
  - cbn. exact Hs.
  - destruct (space =? 0); [cbn; exact Hs|].
    destruct (v_read x) as [c|v|]; [cbn; exact Hs| |exact I].
    destruct (negb _); [cbn; exact Hs|].
    destruct (space <? hdr + len (take cap v)) eqn:E; [cbn; exact Hs|].
    apply Z.ltb_ge in E.
    specialize (IH (space - (hdr + len (take cap v))) (Some (len (take cap v))) ltac:(lia)).
    destruct (rb_collect hdr cap (space - (hdr + len (take cap v))) (Some (len (take cap v))) l) as [[r e0]|];
      [|exact I].
    cbn [fst] in *. rewrite len_flat_map_cons, Hf. cbn [snd]. lia.
Qed.

Lemma rbt_entry_len p : len (rbt_entry p) = 2 + len (snd p).
Proof. unfold rbt_entry. rewrite len_app, len_le16. reflexivity. Qed.

Lemma rbgt_entry_len p : len (rbgt_entry p) = 4 + len (snd p).
Proof. unfold rbgt_entry. rewrite !len_app, !len_le16. lia. Qed.

Lemma h_rbt_len mtu vs op s e t : 23 <= mtu -> len (h_rbt mtu vs op s e t) <= mtu.
Proof.
  intros Hm. unfold h_rbt.
  destruct ((s =? 0) || (e <? s)); [rewrite len_err_rsp; lia|].
  pose proof (rb_collect_len rbt_entry 2 (Z.min (mtu - 4) 253) rbt_entry_len
                (filter (type_in_range t s e) vs) (mtu - 2) None ltac:(lia)) as H.
  destruct (rb_collect 2 (Z.min (mtu - 4) 253) (mtu - 2) None (filter (type_in_range t s e) vs))
    as [[[|[x v0] r] [[h c]|]]|]; cbn [fst] in H; unfold exc_rsp; try (rewrite len_err_rsp; lia).
  - rewrite len_app. change (len [OP_RBT_RSP; _]) with 2. lia.
  - rewrite len_app. change (len [OP_RBT_RSP; _]) with 2. lia.
Qed.

Lemma h_rbgt_len mtu vs op s e t : 23 <= mtu -> len (h_rbgt mtu vs op s e t) <= mtu.
Proof.
  intros Hm. unfold h_rbgt.
  destruct (negb _); [rewrite len_err_rsp; lia|].
  pose proof (rb_collect_len rbgt_entry 4 (Z.min (mtu - 6) 251) rbgt_entry_len
                (filter (type_in_range t s e) vs) (mtu - 2) None ltac:(lia)) as H.
  destruct (rb_collect 4 (Z.min (mtu - 6) 251) (mtu - 2) None (filter (type_in_range t s e) vs))
    as [[[|[x v0] r] [[h c]|]]|]; cbn [fst] in H; unfold exc_rsp; try (rewrite len_err_rsp; lia).
  - rewrite len_app. change (len [OP_RBGT_RSP; _]) with 2. lia.
  - rewrite len_app. change (len [OP_RBGT_RSP; _]) with 2. lia.
Qed.

Lemma h_read_len mtu vs op h : 23 <= mtu -> len (h_read mtu vs op h) <= mtu.
Proof.
  intros Hm. unfold h_read.
  destruct (find_view h vs) as [x|]; [|rewrite len_err_rsp; lia].
  destruct (v_read x) as [c|v|]; [rewrite len_err_rsp; lia| |unfold exc_rsp; rewrite len_err_rsp; lia].
  rewrite len_app. change (len [OP_READ_RSP]) with 1.
  pose proof (len_nonneg v).
  pose proof (len_take_le (Z.min (mtu - 1) (len v)) v ltac:(lia)). lia.
Qed.

Lemma h_blob_len mtu vs op h off : 23 <= mtu -> len (h_blob mtu vs op h off) <= mtu.
Proof.
  intros Hm. unfold h_blob.
  destruct (find_view h vs) as [x|]; [|rewrite len_err_rsp; lia].
  destruct (v_read x) as [c|v|]; [rewrite len_err_rsp; lia| |unfold exc_rsp; rewrite len_err_rsp; lia].
  destruct (len v <? off) eqn:E; [rewrite len_err_rsp; lia|]. apply Z.ltb_ge in E.
  destruct ((off =? 0) && (len v <=? mtu - 1)); [rewrite len_err_rsp; lia|].
  rewrite len_app. change (len [OP_BLOB_RSP]) with 1.
  pose proof (len_take_le (Z.min (mtu - 1) (len v - off)) (drop off v) ltac:(lia)). lia.
Qed.

Lemma rm_collect_len mtu vs hs : forall space, 0 <= space ->
  match rm_collect mtu vs space hs with MOk r => len (concat r) <= space | _ => True end.
Proof.
  induction hs as [|h hs IH]; intros space Hs; cbn [rm_collect].
  - cbn. exact Hs.
  - destruct (find_view h vs) as [x|]; [|exact I].
    destruct (v_read x) as [c|v|]; [exact I| |exact I].
    destruct (space <? len (take (Z.min (mtu - 1) 251) v)) eqn:E; [cbn; exact Hs|].
    apply Z.ltb_ge in E.
    specialize (IH (space - len (take (Z.min (mtu - 1) 251) v)) ltac:(lia)).
    destruct (rm_collect mtu vs (space - len (take (Z.min (mtu - 1) 251) v)) hs) as [r|h0 c0|];
      [|exact I|exact I].
    cbn [concat]. rewrite len_app. lia.
Qed.

Lemma h_rm_len mtu vs op hs : 23 <= mtu -> len (h_rm mtu vs op hs) <= mtu.
Proof.
  intros Hm. unfold h_rm.
  pose proof (rm_collect_len mtu vs hs (mtu - 1) ltac:(lia)) as H.
  destruct (rm_collect mtu vs (mtu - 1) hs) as [r|h c|];
    [|rewrite len_err_rsp; lia|unfold exc_rsp; rewrite len_err_rsp; lia].
  rewrite len_app. change (len [OP_RM_RSP]) with 1. lia.
Qed.

Lemma rmv_entry_len p : len (rmv_entry p) = 2 + len (snd p).
Proof. unfold rmv_entry. rewrite len_app, len_le16. reflexivity. Qed.

Lemma rmv_collect_len vs hs : forall space, 2 <= space ->
  match rmv_collect vs space hs with MOk r => len (flat_map rmv_entry r) <= space | _ => True end.
Proof.
  induction hs as [|h hs IH]; intros space Hs; cbn [rmv_collect].
  - cbn. lia.
  - destruct (find_view h vs) as [x|]; [|exact I].
    destruct (v_read x) as [c|v|]; [exact I| |exact I].
    pose proof (len_take_le (Z.min (space - 2) 251) v ltac:(lia)) as Ht.
    pose proof (len_nonneg (take (Z.min (space - 2) 251) v)) as Hn.
    destruct (space - (2 + len (take (Z.min (space - 2) 251) v)) <? 2) eqn:E.
    + rewrite len_flat_map_cons, rmv_entry_len. cbn [snd flat_map]. rewrite len_nil. lia.
    + apply Z.ltb_ge in E.
      specialize (IH (space - (2 + len (take (Z.min (space - 2) 251) v))) E).
      destruct (rmv_collect vs (space - (2 + len (take (Z.min (space - 2) 251) v))) hs) as [r|h0 c0|];
        [|exact I|exact I].
      rewrite len_flat_map_cons, rmv_entry_len. cbn [snd]. lia.
Qed.

Lemma h_rmv_len mtu vs op hs : 23 <= mtu -> len (h_rmv mtu vs op hs) <= mtu.
Proof.
  intros Hm. unfold h_rmv.
  pose proof (rmv_collect_len vs hs (mtu - 1) ltac:(lia)) as H.
  destruct (rmv_collect vs (mtu - 1) hs) as [r|h c|];
    [|rewrite len_err_rsp; lia|unfold exc_rsp; rewrite len_err_rsp; lia].
  rewrite len_app. change (len [OP_RMV_RSP]) with 1. lia.
Qed.

Lemma h_write_len b db subs op h v mtu : 23 <= mtu -> len (snd (h_write b db subs op h v)) <= mtu.
Proof.
  intros Hm. unfold h_write, exc_rsp.
  destruct (find_attr h db) as [a|]; [|cbn [snd]; rewrite len_err_rsp; lia].
  destruct (MAX_VALUE_SIZE <? len v); [cbn [snd]; rewrite len_err_rsp; lia|].
  destruct (write_check b a); cbn [snd]; [rewrite len_err_rsp; lia| |rewrite len_err_rsp; lia].
  cbn. lia.
Qed.

(* ------------------------------------------------------------------ C10: exactly one reply, of the
   right kind, within ATT_MTU *)
Lemma h_mtu_cases st m :
  (b_enh (s_b st) = true /\ h_mtu st m = (st, [err_rsp 2 0 E_REQ_NOT_SUPPORTED])) \/
  (b_enh (s_b st) = false /\
   h_mtu st m = (if DEFAULT_MTU <=? m then set_mtu st (Z.min (s_max_mtu st) m) else st,
                 [[OP_MTU_RSP] ++ le16 (s_max_mtu st)])).
Proof. unfold h_mtu, negotiated_mtu. destruct (b_enh (s_b st)); [left|right]; split; reflexivity. Qed.

Ltac one_reply_bad := eexists _, _; split; [reflexivity|split; [apply reply_err|intros; rewrite len_err_rsp; lia]].

Lemma rx_request_one st opc ps :
  In opc spec_requests ->
  exists st' p, rx st opc ps = Some (st', [p]) /\ reply_for opc p = true /\
                (23 <= mtu_of st -> len p <= mtu_of st).
Proof.
  intros Hin. unfold spec_requests in Hin. cbn [In] in Hin. unfold rx.
  repeat (destruct Hin as [<-|Hin]); [..|contradiction].
  - (* 2: Exchange MTU *)
    destruct (parse_pdu 2 ps) as [|r] eqn:E; [one_reply_bad|].
    apply parse_2 in E. destruct E as (m & ->). cbn [assoc m_handlers Z.eqb Pos.eqb handle].
    destruct (h_mtu_cases st m) as [(_ & ->)|(_ & ->)].
    + eexists _, _; split; [reflexivity|split; [apply reply_err|intros; rewrite len_err_rsp; lia]].
    + eexists _, _; split; [reflexivity|split; [apply (reply_rsp 2)|cbn; lia]].
  - destruct (parse_pdu 4 ps) as [|r] eqn:E; [one_reply_bad|].
    apply parse_4 in E. destruct E as (s & e & ->). cbn [assoc m_handlers Z.eqb Pos.eqb handle].
    eexists _, _; split; [reflexivity|split; [apply h_find_info_reply|apply h_find_info_len]].
  - destruct (parse_pdu 6 ps) as [|r] eqn:E; [one_reply_bad|].
    apply parse_6 in E. destruct E as (s & e & t & v & ->). cbn [assoc m_handlers Z.eqb Pos.eqb handle].
    eexists _, _; split; [reflexivity|split; [apply h_fbtv_reply|apply h_fbtv_len]].
  - destruct (parse_pdu 8 ps) as [|r] eqn:E; [one_reply_bad|].
    apply parse_8 in E. destruct E as (s & e & t & ->). cbn [assoc m_handlers Z.eqb Pos.eqb handle].
    eexists _, _; split; [reflexivity|split; [apply h_rbt_reply|apply h_rbt_len]].
  - destruct (parse_pdu 10 ps) as [|r] eqn:E; [one_reply_bad|].
    apply parse_10 in E. destruct E as (h & ->). cbn [assoc m_handlers Z.eqb Pos.eqb handle].
    eexists _, _; split; [reflexivity|split; [apply h_read_reply|apply h_read_len]].
  - destruct (parse_pdu 12 ps) as [|r] eqn:E; [one_reply_bad|].
    apply parse_12 in E. destruct E as (h & o & ->). cbn [assoc m_handlers Z.eqb Pos.eqb handle].
    eexists _, _; split; [reflexivity|split; [apply h_blob_reply|apply h_blob_len]].
  - destruct (parse_pdu 14 ps) as [|r] eqn:E; [one_reply_bad|].
    apply parse_14 in E. destruct E as (hs & ->). cbn [assoc m_handlers Z.eqb Pos.eqb handle].
    eexists _, _; split; [reflexivity|split; [apply h_rm_reply|apply h_rm_len]].
  - destruct (parse_pdu 16 ps) as [|r] eqn:E; [one_reply_bad|].
    apply parse_16 in E. destruct E as (s & e & t & ->). cbn [assoc m_handlers Z.eqb Pos.eqb handle].
    eexists _, _; split; [reflexivity|split; [apply h_rbgt_reply|apply h_rbgt_len]].
  - destruct (parse_pdu 18 ps) as [|r] eqn:E; [one_reply_bad|].
    apply parse_18 in E. destruct E as (h & v & ->). cbn [assoc m_handlers Z.eqb Pos.eqb handle].
    pose proof (h_write_reply (s_b st) (s_db st) (s_subs st) h v) as Hr.
    pose proof (h_write_len (s_b st) (s_db st) (s_subs st) 18 h v (mtu_of st)) as Hl.
    destruct (h_write (s_b st) (s_db st) (s_subs st) 18 h v) as [db p]. cbn [snd] in Hr, Hl.
    eexists _, _; split; [reflexivity|split; [exact Hr|exact Hl]].
  - (* 22: Prepare Write, no handler *)
    destruct (parse_pdu 22 ps) as [|r] eqn:E; [one_reply_bad|].
    cbn [assoc m_handlers Z.eqb Pos.eqb]. one_reply_bad.
  - (* 24: Execute Write, no handler *)
    destruct (parse_pdu 24 ps) as [|r] eqn:E; [one_reply_bad|].
    cbn [assoc m_handlers Z.eqb Pos.eqb]. one_reply_bad.
  - destruct (parse_pdu 32 ps) as [|r] eqn:E; [one_reply_bad|].
    apply parse_32 in E. destruct E as (hs & ->). cbn [assoc m_handlers Z.eqb Pos.eqb handle].
    eexists _, _; split; [reflexivity|split; [apply h_rmv_reply|apply h_rmv_len]].
Qed.

(* all PDUs of a list fit *)
Definition all_le (m : Z) (out : list bytes) : Prop := Forall (fun p => len p <= m) out.

Lemma pdus_le_iff m out : pdus_le m out = true <-> all_le m out.
Proof.
  unfold pdus_le, all_le. rewrite forallb_forall, Forall_forall.
  split; intros H p Hp; specialize (H p Hp); [apply Z.leb_le|apply Z.leb_le]; exact H.
Qed.

Lemma all_le_one m p : len p <= m -> all_le m [p].
Proof. intros H. constructor; [exact H|constructor]. Qed.

Lemma all_le_mono m m' out : m <= m' -> all_le m out -> all_le m' out.
Proof. intros Hm H. eapply Forall_impl; [|exact H]. cbn. intros; lia. Qed.

(* every PDU sent in reaction to a received PDU -- a reply, or a waiting indication let go by
   a confirmation -- fits in the ATT_MTU in force when the PDU was received *)
Lemma handle_len st op r st' out :
  23 <= mtu_of st -> all_le (mtu_of st) (s_waiting st) ->
  handle st op r = Some (st', out) -> all_le (mtu_of st) out.
Proof.
  intros Hm Hw H. unfold handle in H. destruct r.
  - destruct (h_mtu_cases st m) as [(_ & Hc)|(_ & Hc)]; rewrite Hc in H; inversion H; subst;
      apply all_le_one; [rewrite len_err_rsp|cbn]; lia.
  - inversion H; subst. apply all_le_one. apply h_find_info_len; exact Hm.
  - inversion H; subst. apply all_le_one. apply h_fbtv_len; exact Hm.
  - inversion H; subst. apply all_le_one. apply h_rbt_len; exact Hm.
  - inversion H; subst. apply all_le_one. apply h_read_len; exact Hm.
  - inversion H; subst. apply all_le_one. apply h_blob_len; exact Hm.
  - inversion H; subst. apply all_le_one. apply h_rm_len; exact Hm.
  - inversion H; subst. apply all_le_one. apply h_rbgt_len; exact Hm.
  - inversion H; subst. apply all_le_one. apply h_rmv_len; exact Hm.
  - pose proof (h_write_len (s_b st) (s_db st) (s_subs st) op h v (mtu_of st) Hm) as Hl.
    destruct (h_write (s_b st) (s_db st) (s_subs st) op h v) as [db p]. inversion H; subst.
    apply all_le_one. exact Hl.
  - inversion H; subst. constructor.
  - inversion H as [H1]. unfold h_confirm in H1. destruct (s_pending st).
    + destruct (s_waiting st) as [|p w]; inversion H1; subst; [constructor|].
      inversion Hw; subst. apply all_le_one. assumption.
    + inversion H1; subst. constructor.
  - discriminate.
Qed.

Lemma rx_len st opc ps st' out :
  23 <= mtu_of st -> all_le (mtu_of st) (s_waiting st) ->
  rx st opc ps = Some (st', out) -> all_le (mtu_of st) out.
Proof.
  intros Hm Hw H. unfold rx in H.
  destruct (parse_pdu opc ps) as [|r].
  - destruct (memz opc spec_requests); inversion H; subst; [|constructor].
    apply all_le_one. rewrite len_err_rsp. lia.
  - destruct (assoc opc m_handlers).
    + eapply handle_len; eassumption.
    + destruct (memz opc spec_requests); inversion H; subst; [|constructor].
      apply all_le_one. rewrite len_err_rsp. lia.
Qed.

(* ------------------------------------------------------------------ what a handler does to the state *)
Lemma handle_cases st op r st' out :
  handle st op r = Some (st', out) ->
  (exists m, r = RMtu m /\ (st', out) = h_mtu st m) \/
  (r = RConfirm /\ (st', out) = h_confirm st) \/
  (mtu_of st' = mtu_of st /\ s_max_mtu st' = s_max_mtu st /\ s_waiting st' = s_waiting st /\
   s_pending st' = s_pending st /\ s_b st' = s_b st /\
   (out = [] \/ exists p, out = [p] /\ is_indication p = false)).
Proof.
  unfold handle. intros H. destruct r; try discriminate.
  - left. exists m. split; [reflexivity|]. inversion H. reflexivity.
  - right; right. inversion H; subst. repeat split. right. eexists; split; [reflexivity|].
    unfold h_find_info. destruct (_ || _); [reflexivity|]. destruct (fi_collect _ _ _ _); reflexivity.
  - right; right. inversion H; subst. repeat split. right. eexists; split; [reflexivity|].
    unfold h_fbtv. destruct (fbtv_collect _ _ _ _ _ _) as [[|x r]|]; reflexivity.
  - right; right. inversion H; subst. repeat split. right. eexists; split; [reflexivity|].
    unfold h_rbt. destruct (_ || _); [reflexivity|].
    destruct (rb_collect _ _ _ _ _) as [[[|[x v0] r] [[h c]|]]|]; reflexivity.
  - right; right. inversion H; subst. repeat split. right. eexists; split; [reflexivity|].
    unfold h_read. destruct (find_view _ _) as [x|]; [|reflexivity]. destruct (v_read x); reflexivity.
  - right; right. inversion H; subst. repeat split. right. eexists; split; [reflexivity|].
    unfold h_blob. destruct (find_view _ _) as [x|]; [|reflexivity].
    destruct (v_read x); [reflexivity| |reflexivity].
    destruct (_ <? _); [reflexivity|]. destruct (_ && _); reflexivity.
  - right; right. inversion H; subst. repeat split. right. eexists; split; [reflexivity|].
    unfold h_rm. destruct (rm_collect _ _ _ _) as [r|h c|]; reflexivity.
  - right; right. inversion H; subst. repeat split. right. eexists; split; [reflexivity|].
    unfold h_rbgt. destruct (negb _); [reflexivity|].
    destruct (rb_collect _ _ _ _ _) as [[[|[x v0] r] [[h c]|]]|]; reflexivity.
  - right; right. inversion H; subst. repeat split. right. eexists; split; [reflexivity|].
    unfold h_rmv. destruct (rmv_collect _ _ _) as [r|h c|]; reflexivity.
  - right; right.
    assert (Hi : is_indication (snd (h_write (s_b st) (s_db st) (s_subs st) op h v)) = false).
    { unfold h_write. destruct (find_attr _ _) as [a|]; [|reflexivity].
      destruct (_ <? _); [reflexivity|]. destruct (write_check _ a); reflexivity. }
    destruct (h_write (s_b st) (s_db st) (s_subs st) op h v) as [ds p]. inversion H; subst.
    repeat split. right. eexists; split; [reflexivity|exact Hi].
  - right; right. inversion H; subst. repeat split. left. reflexivity.
  - right; left. split; [reflexivity|]. inversion H. reflexivity.
Qed.

Lemma to_req_confirm opc fv : to_req opc fv = RConfirm -> opc = 30.
Proof.
  unfold to_req. intros E1.
  repeat match type of E1 with
         | (if ?c then _ else _) = _ => destruct c eqn:?
         end.
  all: try (apply Z.eqb_eq; assumption).
  all: repeat match type of E1 with
         | match ?x with _ => _ end = _ => destruct x; try discriminate
         end.
  all: discriminate.
Qed.

Lemma rx_cases st opc ps st' out :
  rx st opc ps = Some (st', out) ->
  (exists m, (st', out) = h_mtu st m) \/
  (opc = 30 /\ (st', out) = h_confirm st) \/
  (mtu_of st' = mtu_of st /\ s_max_mtu st' = s_max_mtu st /\ s_waiting st' = s_waiting st /\
   s_pending st' = s_pending st /\ s_b st' = s_b st /\
   (out = [] \/ exists p, out = [p] /\ is_indication p = false)).
Proof.
  intros H. unfold rx in H.
  assert (Hsame : forall l, Some (st, l) = Some (st', out) -> l = [] \/ (exists p, l = [p] /\ is_indication p = false) ->
          mtu_of st' = mtu_of st /\ s_max_mtu st' = s_max_mtu st /\ s_waiting st' = s_waiting st /\
          s_pending st' = s_pending st /\ s_b st' = s_b st /\
          (out = [] \/ exists p, out = [p] /\ is_indication p = false)).
  { intros l Hl Hk. inversion Hl; subst. repeat split. exact Hk. }
  destruct (parse_pdu opc ps) as [|r] eqn:E.
  - right; right. eapply Hsame; [exact H|].
    destruct (memz opc spec_requests); [right; eexists; split; reflexivity|left; reflexivity].
  - destruct (assoc opc m_handlers) eqn:Ea.
    + apply handle_cases in H. destruct H as [(m & _ & H)|[(Hr & H)|H]].
      * left. eauto.
      * right; left. split; [|exact H]. subst r.
        (* only opcode 30 parses to RConfirm *)
        unfold parse_pdu in E. destruct (assoc opc m_shapes) as [sh|]; [|discriminate].
        destruct (parse_fields sh ps) as [fv|]; [|discriminate]. inversion E as [E1].
        eapply to_req_confirm; exact E1.
      * right; right. exact H.
    + right; right. eapply Hsame; [exact H|].
      destruct (memz opc spec_requests); [right; eexists; split; reflexivity|left; reflexivity].
Qed.

(* ------------------------------------------------------------------ C10: notifications and indications *)
Lemma hv_pdu_len op mtu h x : 3 <= mtu -> len (hv_pdu op mtu h x) <= mtu.
Proof.
  intros Hm. unfold hv_pdu. rewrite !len_app, len_le16. change (len [op]) with 1.
  pose proof (len_take_le (mtu - 3) x ltac:(lia)). lia.
Qed.

Lemma hv_pdu_head op mtu h x : exists rest, hv_pdu op mtu h x = op :: rest.
Proof. unfold hv_pdu. eexists. reflexivity. Qed.

(* a notification is truncated to ATT_MTU - 3 value bytes: the PDU never exceeds ATT_MTU *)
Lemma notify_spec st h v f :
  23 <= mtu_of st ->
  fst (notify st h v f) = st /\
  (snd (notify st h v f) = [] \/
   exists x, snd (notify st h v f) = [hv_pdu OP_NOTIFY (mtu_of st) h x] /\
             len (hv_pdu OP_NOTIFY (mtu_of st) h x) <= mtu_of st).
Proof.
  intros Hm. unfold notify.
  destruct (find_attr h (s_db st)) as [a|]; [|split; [reflexivity|left; reflexivity]].
  destruct (f || cccd_allows 0 (s_subs st) h); [|split; [reflexivity|left; reflexivity]].
  destruct (server_value st a v) as [x|]; [|split; [reflexivity|left; reflexivity]].
  split; [reflexivity|]. right. exists x. split; [reflexivity|]. apply hv_pdu_len. lia.
Qed.

(* an indication is built (truncated) when indicate is called; it is transmitted at once
   if none is outstanding, otherwise it waits *)
Lemma indicate_spec st h v f :
  23 <= mtu_of st ->
  let st' := fst (indicate st h v f) in
  let out := snd (indicate st h v f) in
  mtu_of st' = mtu_of st /\ s_max_mtu st' = s_max_mtu st /\ s_db st' = s_db st /\
  ((st' = st /\ out = []) \/
   exists x, let p := hv_pdu OP_INDICATE (mtu_of st) h x in
     len p <= mtu_of st /\
     ((s_pending st = true /\ out = [] /\ s_pending st' = true /\ s_waiting st' = s_waiting st ++ [p]) \/
      (s_pending st = false /\ out = [p] /\ s_pending st' = true /\ s_waiting st' = s_waiting st))).
Proof.
  intros Hm. unfold indicate.
  destruct (find_attr h (s_db st)) as [a|]; [|cbn; repeat split; left; split; reflexivity].
  destruct (f || cccd_allows 1 (s_subs st) h); [|cbn; repeat split; left; split; reflexivity].
  destruct (server_value st a v) as [x|]; [|cbn; repeat split; left; split; reflexivity].
  destruct (s_pending st) eqn:Ep; cbn [fst snd]; repeat split.
  - right. exists x. cbn zeta. split; [apply hv_pdu_len; lia|]. left. repeat split.
  - right. exists x. cbn zeta. split; [apply hv_pdu_len; lia|]. right. repeat split.
Qed.

(* ------------------------------------------------------------------ invariant over histories *)
Definition inv (st : srv) : Prop :=
  23 <= mtu_of st /\ 23 <= s_max_mtu st /\ all_le (mtu_of st) (s_waiting st).

Definition is_nil {A} (l : list A) : bool := match l with [] => true | _ => false end.

(* no Exchange MTU Request lowers the ATT_MTU while an indication is waiting *)
Fixpoint mtu_kept (st : srv) (ops : list op) : bool :=
  match ops with
  | [] => true
  | o :: ops' =>
      match step st o with
      | None => true
      | Some (st1, _) =>
          ((mtu_of st <=? mtu_of st1) || is_nil (s_waiting st1)) && mtu_kept st1 ops'
      end
  end.

Lemma all_le_app m a b : all_le m a -> all_le m b -> all_le m (a ++ b).
Proof. unfold all_le. intros. apply Forall_app. split; assumption. Qed.

Lemma inv_intro st : 23 <= mtu_of st -> 23 <= s_max_mtu st -> all_le (mtu_of st) (s_waiting st) -> inv st.
Proof. intros. unfold inv. auto. Qed.

Lemma confirm_inv st st' out :
  inv st -> h_confirm st = (st', out) -> inv st' /\ all_le (mtu_of st) out.
Proof.
  intros (Hm & Hx & Hw) H. unfold h_confirm in H. destruct (s_pending st).
  - destruct (s_waiting st) as [|p w] eqn:Ew; inversion H; subst.
    + split; [apply inv_intro; cbn; try assumption; constructor|constructor].
    + inversion Hw; subst.
      split; [apply inv_intro; cbn; assumption|apply all_le_one; assumption].
  - inversion H; subst. split; [apply inv_intro; assumption|constructor].
Qed.

Lemma step_inv st o st' out :
  inv st -> step st o = Some (st', out) ->
  (mtu_of st <= mtu_of st' \/ s_waiting st' = []) ->
  inv st' /\ all_le (mtu_of st) out.
Proof.
  intros Hi Hs Hk. pose proof Hi as (Hm & Hx & Hw).
  destruct o as [opc ps| |h v f|h v f]; cbn [step] in Hs.
  - (* Rx *)
    pose proof (rx_len st opc ps st' out Hm Hw Hs) as Hl. split; [|exact Hl].
    apply rx_cases in Hs. destruct Hs as [(m & Hs)|[(_ & Hs)|Hs]].
    + destruct (h_mtu_cases st m) as [(_ & Hc)|(_ & Hc)]; rewrite Hc in Hs; inversion Hs; subst; clear Hs;
        [exact Hi|].
      destruct (DEFAULT_MTU <=? m) eqn:E; [|exact Hi].
      apply Z.leb_le in E. unfold DEFAULT_MTU in E.
      apply inv_intro; cbn [mtu_of set_mtu s_b b_mtu s_max_mtu s_waiting] in *; try lia.
      destruct Hk as [Hk|Hk]; [eapply all_le_mono; eassumption|].
      rewrite Hk. constructor.
    + symmetry in Hs. apply (confirm_inv st st' out Hi Hs).
    + destruct Hs as (H1 & H2 & H3 & _). apply inv_intro; rewrite ?H1, ?H2, ?H3; assumption.
  - (* two confirmations *)
    inversion Hs as [H1]. apply (confirm_inv st st' out Hi H1).
  - (* notify *)
    inversion Hs as [H1]. destruct (notify_spec st h v f Hm) as (Hf & Ho).
    rewrite H1 in Hf, Ho. cbn [fst snd] in Hf, Ho. subst st'. split; [exact Hi|].
    destruct Ho as [->|(x & -> & Hl)]; [constructor|apply all_le_one; exact Hl].
  - (* indicate *)
    inversion Hs as [H1]. pose proof (indicate_spec st h v f Hm) as Hin. rewrite H1 in Hin.
    cbn [fst snd] in Hin. cbn zeta in Hin. destruct Hin as (E1 & E2 & _ & Hin).
    destruct Hin as [(-> & ->)|(x & Hl & [(_ & -> & _ & Ew)|(_ & -> & _ & Ew)])].
    + split; [exact Hi|constructor].
    + split; [|constructor]. apply inv_intro; rewrite ?E1, ?E2, ?Ew; try assumption.
      apply all_le_app; [assumption|apply all_le_one; exact Hl].
    + split; [|apply all_le_one; exact Hl]. apply inv_intro; rewrite ?E1, ?E2, ?Ew; assumption.
Qed.

Lemma run_le_mtu ops : forall st st' outs,
  inv st -> mtu_kept st ops = true -> run st ops = Some (st', outs) ->
  outs_le_mtu outs = true /\ inv st'.
Proof.
  induction ops as [|o ops IH]; intros st st' outs Hi Hk Hr; cbn [run mtu_kept] in *.
  - inversion Hr; subst. split; [reflexivity|exact Hi].
  - destruct (step st o) as [[st1 out]|] eqn:Es; [|discriminate].
    destruct (run st1 ops) as [[st2 outs2]|] eqn:Er; [|discriminate].
    inversion Hr; subst. apply andb_true_iff in Hk. destruct Hk as [Hk1 Hk2].
    assert (Hk : mtu_of st <= mtu_of st1 \/ s_waiting st1 = []).
    { apply orb_true_iff in Hk1. destruct Hk1 as [H|H]; [left; apply Z.leb_le; exact H|right].
      destruct (s_waiting st1); [reflexivity|discriminate]. }
    destruct (step_inv st o st1 out Hi Es Hk) as (Hi1 & Hl).
    destruct (IH st1 st' outs2 Hi1 Hk2 Er) as (Ho & Hi2).
    split; [|exact Hi2]. unfold outs_le_mtu. cbn [forallb fst snd].
    apply andb_true_iff. split; [apply pdus_le_iff; exact Hl|exact Ho].
Qed.

Lemma inv_init db b max_mtu : 23 <= b_mtu b -> 23 <= max_mtu -> inv (init db b max_mtu).
Proof. intros H1 H2. unfold inv, init. cbn. repeat split; try assumption. constructor. Qed.

(* the hypothesis is needed: a second Exchange MTU Request that lowers the MTU while an
   indication built for the larger MTU is waiting lets a PDU longer than ATT_MTU out *)
Lemma lowered_mtu_refuted :
  exists db b ops st' outs,
    23 <= b_mtu b /\ run (init db b 517) ops = Some (st', outs) /\ outs_le_mtu outs = false.
Proof.
  exists [mkAttr 1 [0; 40] 1 [15; 24] 3 0 0 0; mkAttr 2 [3; 40] 1 [32; 3; 0; 25; 42] 3 0 0 0;
          mkAttr 3 [25; 42] 1 (mkb 200 0 1) 3 0 0 0].
  exists (mkBearer 100 false false false).
  exists [Indicate 3 None true; Indicate 3 None true; Rx 2 [23; 0]; Rx 30 []].
  eexists _, _. split; [cbn; lia|]. split; [vm_compute; reflexivity|vm_compute; reflexivity].
Qed.

(* ------------------------------------------------------------------ C10: one indication outstanding *)
Definition ind_inv (st : srv) : Prop :=
  (s_pending st = false -> s_waiting st = []) /\
  Forall (fun p => is_indication p = true) (s_waiting st).

Lemma confirm_ind st st' out :
  ind_inv st -> h_confirm st = (st', out) ->
  ind_inv st' /\ sent_ok false out = Some (s_pending st').
Proof.
  intros (H1 & H2) H. unfold h_confirm in H. destruct (s_pending st) eqn:Ep.
  - destruct (s_waiting st) as [|p w] eqn:Ew; inversion H; subst; cbn.
    + split; [split; [reflexivity|constructor]|reflexivity].
    + inversion H2; subst. split; [split; [discriminate|assumption]|].
      rewrite H4. reflexivity.
  - inversion H; subst.
    split; [split; [intros _; first [apply H1; reflexivity|apply H1; exact Ep]|assumption]|].
    cbn. rewrite Ep. reflexivity.
Qed.

Lemma hv_notify_not_ind mtu h x : is_indication (hv_pdu OP_NOTIFY mtu h x) = false.
Proof. reflexivity. Qed.

Lemma hv_indicate_ind mtu h x : is_indication (hv_pdu OP_INDICATE mtu h x) = true.
Proof. reflexivity. Qed.

Lemma step_ind st o st' out :
  ind_inv st -> 23 <= mtu_of st -> step st o = Some (st', out) ->
  ind_inv st' /\
  sent_ok (if is_confirm o then false else s_pending st) out = Some (s_pending st').
Proof.
  intros Hi Hm Hs. destruct o as [opc ps| |h v f|h v f]; cbn [step is_confirm] in *.
  - destruct (Z.eq_dec opc 30) as [->|Hn].
    + destruct (rx_confirmation st ps) as (Hc & _). rewrite Hc in Hs. inversion Hs as [H1].
      cbn. apply (confirm_ind st st' out Hi H1).
    + replace (opc =? OP_CONFIRM) with false
        by (symmetry; apply Z.eqb_neq; exact Hn).
      apply rx_cases in Hs. destruct Hs as [(m & Hs)|[(He & _)|Hs]]; [|contradiction|].
      * destruct (h_mtu_cases st m) as [(_ & Hc)|(_ & Hc)]; rewrite Hc in Hs; inversion Hs; subst; clear Hs; cbn;
          [split; [exact Hi|reflexivity]|].
        destruct (DEFAULT_MTU <=? m); cbn; (split; [exact Hi|reflexivity]).
      * destruct Hs as (_ & _ & Hw & Hp & _ & Ho). destruct Hi as (H1 & H2).
        split; [split; [rewrite Hp, Hw; exact H1|rewrite Hw; exact H2]|].
        rewrite Hp. destruct Ho as [->|(p & -> & Hni)]; cbn; [reflexivity|].
        rewrite Hni. reflexivity.
  - inversion Hs as [H1]. apply (confirm_ind st st' out Hi H1).
  - inversion Hs as [H1]. destruct (notify_spec st h v f Hm) as (Hf & Ho).
    rewrite H1 in Hf, Ho. cbn [fst snd] in Hf, Ho. subst st'. split; [exact Hi|].
    destruct Ho as [->|(x & -> & _)]; cbn; reflexivity.
  - inversion Hs as [H1]. pose proof (indicate_spec st h v f Hm) as Hin. rewrite H1 in Hin.
    cbn [fst snd] in Hin. cbn zeta in Hin. destruct Hin as (_ & _ & _ & Hin).
    destruct Hi as (Hi1 & Hi2).
    destruct Hin as [(-> & ->)|(x & _ & [(Ep & -> & Ep' & Ew)|(Ep & -> & Ep' & Ew)])].
    + split; [split; assumption|reflexivity].
    + split; [split; [rewrite Ep'; discriminate|]|cbn; rewrite Ep, Ep'; reflexivity].
      rewrite Ew. apply Forall_app. split; [assumption|]. constructor; [reflexivity|constructor].
    + split; [split; [rewrite Ep'; discriminate|rewrite Ew; assumption]|].
      rewrite Ep, Ep'. reflexivity.
Qed.

Lemma step_mtu_ge st o st' out :
  23 <= mtu_of st -> 23 <= s_max_mtu st -> step st o = Some (st', out) ->
  23 <= mtu_of st' /\ s_max_mtu st' = s_max_mtu st.
Proof.
  intros Hm Hx Hs. destruct o as [opc ps| |h v f|h v f]; cbn [step] in Hs.
  - apply rx_cases in Hs. destruct Hs as [(m & Hs)|[(_ & Hs)|Hs]].
    + destruct (h_mtu_cases st m) as [(_ & Hc)|(_ & Hc)]; rewrite Hc in Hs; inversion Hs; subst; [auto|].
      destruct (DEFAULT_MTU <=? m) eqn:E; [|auto].
      apply Z.leb_le in E. unfold DEFAULT_MTU in E. cbn. split; [lia|reflexivity].
    + unfold h_confirm in Hs. destruct (s_pending st); [destruct (s_waiting st)|];
        inversion Hs; subst; cbn; auto.
    + destruct Hs as (H1 & H2 & _). rewrite H1, H2. auto.
  - unfold h_confirm in Hs. destruct (s_pending st); [destruct (s_waiting st)|];
      inversion Hs; subst; cbn; auto.
  - inversion Hs as [H1]. destruct (notify_spec st h v f Hm) as (Hf & _).
    rewrite H1 in Hf. cbn in Hf. subst. auto.
  - inversion Hs as [H1]. pose proof (indicate_spec st h v f Hm) as Hin. rewrite H1 in Hin.
    cbn [fst snd] in Hin. cbn zeta in Hin. destruct Hin as (E1 & E2 & _). rewrite E1, E2. auto.
Qed.

(* Over every history: an indication is transmitted only when none awaits its confirmation. *)
Lemma run_ind_ok ops : forall st st' outs,
  ind_inv st -> 23 <= mtu_of st -> 23 <= s_max_mtu st ->
  run st ops = Some (st', outs) -> ind_ok (s_pending st) ops outs = true.
Proof.
  induction ops as [|o ops IH]; intros st st' outs Hi Hm Hx Hr; cbn [run] in Hr.
  - inversion Hr; subst. reflexivity.
  - destruct (step st o) as [[st1 out]|] eqn:Es; [|discriminate].
    destruct (run st1 ops) as [[st2 outs2]|] eqn:Er; [|discriminate].
    inversion Hr; subst. cbn [ind_ok].
    destruct (step_ind st o st1 out Hi Hm Es) as (Hi1 & Hso). rewrite Hso.
    destruct (step_mtu_ge st o st1 out Hm Hx Es) as (Hm1 & Hx1).
    eapply IH; [exact Hi1|exact Hm1|rewrite Hx1; exact Hx|exact Er].
Qed.

Lemma ind_inv_init db b max_mtu : ind_inv (init db b max_mtu).
Proof. split; [reflexivity|constructor]. Qed.

(* ================================================================== C11 *)
(* ------------------------------------------------------------------ reads: non-interference *)
Lemma read_value_sim b subs a1 a2 :
  attr_sim b a1 a2 -> d11a_read_witness b a1 = false ->
  read_value b subs a1 = read_value b subs a2.
Proof.
  intros (Hh & Ht & Hp & He & Hr & Hw & Hc & Hv) Hd. unfold read_value. rewrite <- Hp, <- Hr, <- Hc.
  destruct (Z.testbit (a_perm a1) PB_READ_ENC && negb (b_enc b)) eqn:E1; [reflexivity|].
  destruct (Z.testbit (a_perm a1) PB_READ_AUTHN && negb (b_auth b)) eqn:E2; [reflexivity|].
  destruct (Z.testbit (a_perm a1) PB_READ_AUTHZ) eqn:E3; [reflexivity|].
  destruct (negb (a_cccd a1 =? 0)) eqn:E5; [reflexivity|].
  destruct (a_rerr a1 =? 0) eqn:E4; [|reflexivity].
  f_equal. apply Hv. unfold may_read, link_ok_read, rd_ok. rewrite E1, E2, E3, E4, E5.
  unfold d11a_read_witness, link_ok_read, rd_ok in Hd. rewrite E1, E2, E3, E4, E5 in Hd.
  destruct (Z.testbit (a_perm a1) PB_READABLE); [reflexivity|cbn in Hd; discriminate Hd].
Qed.

Lemma view_of_sim b subs a1 a2 :
  attr_sim b a1 a2 -> d11a_read_witness b a1 = false -> view_of b subs a1 = view_of b subs a2.
Proof.
  intros Hs Hd. unfold view_of. rewrite (read_value_sim b subs a1 a2 Hs Hd).
  destruct Hs as (Hh & Ht & _ & He & _). rewrite Hh, Ht, He. reflexivity.
Qed.

Lemma views_sim b subs db1 db2 :
  Forall2 (attr_sim b) db1 db2 -> d11a_free_read b db1 = true ->
  map (view_of b subs) db1 = map (view_of b subs) db2.
Proof.
  induction 1 as [|a1 a2 l1 l2 Ha Hl IH]; intros Hd; [reflexivity|].
  cbn [d11a_free_read forallb] in Hd. apply andb_true_iff in Hd. destruct Hd as [Hd1 Hd2].
  cbn [map]. f_equal; [|apply IH; exact Hd2].
  apply view_of_sim; [exact Ha|]. destruct (d11a_read_witness b a1); [discriminate|reflexivity].
Qed.

Definition st_sim (st1 st2 : srv) : Prop :=
  Forall2 (attr_sim (s_b st1)) (s_db st1) (s_db st2) /\ s_b st1 = s_b st2 /\
  s_max_mtu st1 = s_max_mtu st2 /\ s_subs st1 = s_subs st2 /\ s_pending st1 = s_pending st2 /\
  s_waiting st1 = s_waiting st2.

Lemma find_attr_sim b h db1 db2 :
  Forall2 (attr_sim b) db1 db2 ->
  match find_attr h db1, find_attr h db2 with
  | Some a1, Some a2 => attr_sim b a1 a2
  | None, None => True
  | _, _ => False
  end.
Proof.
  induction 1 as [|a1 a2 l1 l2 Ha Hl IH]; cbn [find_attr]; [exact I|].
  destruct Ha as (Hh & Hrest). rewrite <- Hh.
  destruct (a_handle a1 =? h); [split; assumption|exact IH].
Qed.

Lemma write_check_sim b bw a1 a2 : attr_sim b a1 a2 -> write_check bw a1 = write_check bw a2.
Proof.
  intros (_ & _ & Hp & _ & _ & Hw & Hc & _). unfold write_check. rewrite Hp, Hw, Hc. reflexivity.
Qed.

Lemma set_value_sim b a1 a2 v : attr_sim b a1 a2 -> attr_sim b (set_value a1 v) (set_value a2 v).
Proof. unfold attr_sim, set_value, may_read, link_ok_read, rd_ok. cbn. tauto. Qed.

Lemma db_set_sim b h v db1 db2 :
  Forall2 (attr_sim b) db1 db2 -> Forall2 (attr_sim b) (db_set h v db1) (db_set h v db2).
Proof.
  induction 1 as [|a1 a2 l1 l2 Ha Hl IH]; cbn [db_set]; [constructor|].
  pose proof Ha as (Hh & _). rewrite <- Hh.
  destruct (a_handle a1 =? h); constructor; auto using set_value_sim.
Qed.

Lemma d11a_free_read_set b h v db : d11a_free_read b (db_set h v db) = d11a_free_read b db.
Proof.
  induction db as [|a db IH]; [reflexivity|]. cbn [db_set].
  destruct (a_handle a =? h); cbn [d11a_free_read forallb]; [reflexivity|].
  unfold d11a_free_read in IH. rewrite IH. reflexivity.
Qed.

Lemma store_sim b subs a1 a2 h v db1 db2 :
  Forall2 (attr_sim b) db1 db2 -> attr_sim b a1 a2 ->
  snd (store db1 subs a1 h v) = snd (store db2 subs a2 h v) /\
  Forall2 (attr_sim b) (fst (store db1 subs a1 h v)) (fst (store db2 subs a2 h v)) /\
  d11a_free_read b (fst (store db1 subs a1 h v)) = d11a_free_read b db1.
Proof.
  intros Hs Ha. unfold store. destruct Ha as (_ & _ & _ & _ & _ & _ & Hc & _). rewrite <- Hc.
  destruct (negb (a_cccd a1 =? 0)); cbn [fst snd]; [auto|].
  split; [reflexivity|]. split; [apply db_set_sim; exact Hs|apply d11a_free_read_set].
Qed.

Lemma h_write_sim b bw subs op h v db1 db2 :
  Forall2 (attr_sim b) db1 db2 ->
  let r1 := h_write bw db1 subs op h v in
  let r2 := h_write bw db2 subs op h v in
  snd r1 = snd r2 /\ snd (fst r1) = snd (fst r2) /\
  Forall2 (attr_sim b) (fst (fst r1)) (fst (fst r2)) /\
  d11a_free_read b (fst (fst r1)) = d11a_free_read b db1.
Proof.
  intros Hs. cbn zeta. unfold h_write. pose proof (find_attr_sim b h db1 db2 Hs) as Hf.
  destruct (find_attr h db1) as [a1|], (find_attr h db2) as [a2|]; try contradiction;
    [|cbn; auto].
  destruct (MAX_VALUE_SIZE <? len v); [cbn; auto|].
  rewrite <- (write_check_sim b bw a1 a2 Hf).
  destruct (write_check bw a1); cbn [fst snd]; [auto| |auto].
  destruct (store_sim b subs a1 a2 h v db1 db2 Hs Hf) as (H1 & H2 & H3). auto.
Qed.

Lemma h_write_cmd_sim b bw subs h v db1 db2 :
  Forall2 (attr_sim b) db1 db2 ->
  let r1 := h_write_cmd bw db1 subs h v in
  let r2 := h_write_cmd bw db2 subs h v in
  snd r1 = snd r2 /\ Forall2 (attr_sim b) (fst r1) (fst r2) /\
  d11a_free_read b (fst r1) = d11a_free_read b db1.
Proof.
  intros Hs. cbn zeta. unfold h_write_cmd. pose proof (find_attr_sim b h db1 db2 Hs) as Hf.
  destruct (find_attr h db1) as [a1|], (find_attr h db2) as [a2|]; try contradiction; [|cbn; auto].
  destruct (MAX_VALUE_SIZE <? len v); [cbn; auto|].
  rewrite <- (write_check_sim b bw a1 a2 Hf).
  destruct (write_check bw a1); cbn [fst snd]; [auto| |auto].
  apply store_sim; assumption.
Qed.

Definition step_rel (r1 r2 : option (srv * list bytes)) : Prop :=
  match r1, r2 with
  | Some (s1, o1), Some (s2, o2) =>
      o1 = o2 /\ st_sim s1 s2 /\ d11a_free_read (s_b s1) (s_db s1) = true
  | None, None => True
  | _, _ => False
  end.

Lemma st_sim_views st1 st2 :
  st_sim st1 st2 -> d11a_free_read (s_b st1) (s_db st1) = true -> views st1 = views st2.
Proof.
  intros (Hdb & Hb & _ & Hsub & _) Hd. unfold views. rewrite <- Hb, <- Hsub. apply views_sim; assumption.
Qed.

Lemma handle_sim st1 st2 op r :
  st_sim st1 st2 -> d11a_free_read (s_b st1) (s_db st1) = true ->
  step_rel (handle st1 op r) (handle st2 op r).
Proof.
  intros Hs Hd. pose proof (st_sim_views st1 st2 Hs Hd) as Hv.
  pose proof Hs as (Hdb & Hb & Hx & Hsub & Hp & Hw).
  assert (Hm : mtu_of st1 = mtu_of st2) by (unfold mtu_of; rewrite Hb; reflexivity).
  unfold handle. rewrite <- Hv, <- Hm.
  destruct r; cbn [step_rel]; try (split; [reflexivity|split; assumption]); try exact I.
  - (* MTU *)
    unfold h_mtu, negotiated_mtu. rewrite <- Hx, <- Hb.
    destruct (b_enh (s_b st1)); [split; [reflexivity|split; assumption]|].
    split; [reflexivity|].
    destruct (DEFAULT_MTU <=? m); [|split; assumption].
    unfold set_mtu. rewrite <- Hb. split.
    + unfold st_sim. cbn [s_db s_b s_max_mtu s_subs s_pending s_waiting].
      repeat split; assumption.
    + cbn [s_b s_db]. exact Hd.
  - (* write request *)
    rewrite <- Hb, <- Hsub.
    pose proof (h_write_sim (s_b st1) (s_b st1) (s_subs st1) op h v (s_db st1) (s_db st2) Hdb) as Hws.
    cbn zeta in Hws. destruct Hws as (Ho & Hsb & Hf & Hk).
    destruct (h_write (s_b st1) (s_db st1) (s_subs st1) op h v) as [[db1 sb1] p1].
    destruct (h_write (s_b st1) (s_db st2) (s_subs st1) op h v) as [[db2 sb2] p2].
    cbn [fst snd] in *. subst p2 sb2.
    split; [reflexivity|]. split.
    + unfold st_sim, set_dbs. cbn [s_db s_b s_max_mtu s_subs s_pending s_waiting fst snd].
      repeat split; assumption.
    + unfold set_dbs. cbn [s_db s_b fst]. rewrite Hk. exact Hd.
  - (* write command *)
    rewrite <- Hb, <- Hsub.
    pose proof (h_write_cmd_sim (s_b st1) (s_b st1) (s_subs st1) h v (s_db st1) (s_db st2) Hdb) as Hws.
    cbn zeta in Hws. destruct Hws as (Hsb & Hf & Hk).
    destruct (h_write_cmd (s_b st1) (s_db st1) (s_subs st1) h v) as [db1 sb1].
    destruct (h_write_cmd (s_b st1) (s_db st2) (s_subs st1) h v) as [db2 sb2].
    cbn [fst snd] in *. subst sb2.
    split; [reflexivity|]. split.
    + unfold st_sim, set_dbs. cbn [s_db s_b s_max_mtu s_subs s_pending s_waiting fst snd].
      repeat split; assumption.
    + unfold set_dbs. cbn [s_db s_b fst]. rewrite Hk. exact Hd.
  - (* confirmation *)
    unfold h_confirm. rewrite <- Hp, <- Hw.
    destruct (s_pending st1); [destruct (s_waiting st1)|]; (split; [reflexivity|split; [|assumption]]);
      try assumption; unfold st_sim, set_ind; cbn; repeat split; assumption.
Qed.

Lemma rx_sim st1 st2 opc ps :
  st_sim st1 st2 -> d11a_free_read (s_b st1) (s_db st1) = true ->
  step_rel (rx st1 opc ps) (rx st2 opc ps).
Proof.
  intros Hs Hd. unfold rx. destruct (parse_pdu opc ps) as [|r].
  - cbn. split; [reflexivity|split; assumption].
  - destruct (assoc opc m_handlers); [apply handle_sim; assumption|].
    cbn. split; [reflexivity|split; assumption].
Qed.

Lemma server_value_sim st1 st2 h v :
  st_sim st1 st2 -> d11a_free_read (s_b st1) (s_db st1) = true ->
  match find_attr h (s_db st1), find_attr h (s_db st2) with
  | Some a1, Some a2 => server_value st1 a1 v = server_value st2 a2 v
  | None, None => True
  | _, _ => False
  end.
Proof.
  intros (Hdb & Hb & _ & Hsub & _) Hd. pose proof (find_attr_sim (s_b st1) h _ _ Hdb) as Hf.
  destruct (find_attr h (s_db st1)) as [a1|] eqn:E1, (find_attr h (s_db st2)) as [a2|];
    try contradiction; [|exact I].
  unfold server_value. destruct v; [reflexivity|]. rewrite <- Hb, <- Hsub.
  rewrite (read_value_sim (s_b st1) (s_subs st1) a1 a2 Hf); [reflexivity|].
  (* a1 is in the database, which is free of D11a witnesses *)
  clear -E1 Hd. revert E1. induction (s_db st1) as [|a db IH]; cbn [find_attr]; [discriminate|].
  cbn [d11a_free_read forallb] in Hd. apply andb_true_iff in Hd. destruct Hd as [Hd1 Hd2].
  destruct (a_handle a =? h).
  - intros E; inversion E; subst. destruct (d11a_read_witness (s_b st1) a1); [discriminate|reflexivity].
  - apply IH. exact Hd2.
Qed.

Lemma step_sim st1 st2 o :
  st_sim st1 st2 -> d11a_free_read (s_b st1) (s_db st1) = true ->
  step_rel (step st1 o) (step st2 o).
Proof.
  intros Hs Hd. destruct o as [opc ps| |h v f|h v f]; cbn [step].
  - apply rx_sim; assumption.
  - apply (handle_sim st1 st2 30 RConfirm Hs Hd).
  - pose proof (server_value_sim st1 st2 h v Hs Hd) as Hv.
    pose proof Hs as (Hdb & Hb & Hx & Hsub & Hp & Hw).
    unfold notify, mtu_of. rewrite <- Hsub, <- Hb.
    destruct (find_attr h (s_db st1)) as [a1|], (find_attr h (s_db st2)) as [a2|]; try contradiction;
      [|cbn; auto].
    destruct (f || cccd_allows 0 (s_subs st1) h); [|cbn; auto].
    rewrite <- Hv. destruct (server_value st1 a1 v); cbn; auto.
  - pose proof (server_value_sim st1 st2 h v Hs Hd) as Hv.
    pose proof Hs as (Hdb & Hb & Hx & Hsub & Hp & Hw).
    unfold indicate, mtu_of. rewrite <- Hsub, <- Hb, <- Hp, <- Hw.
    destruct (find_attr h (s_db st1)) as [a1|], (find_attr h (s_db st2)) as [a2|]; try contradiction;
      [|cbn; auto].
    destruct (f || cccd_allows 1 (s_subs st1) h); [|cbn; auto].
    rewrite <- Hv. destruct (server_value st1 a1 v); [|cbn; auto].
    destruct (s_pending st1); cbn; (split; [reflexivity|split; [|exact Hd]]);
      unfold st_sim, set_ind; cbn; repeat split; assumption.
Qed.

(* whole histories: the peer observes the same PDUs *)
Lemma run_sim ops : forall st1 st2,
  st_sim st1 st2 -> d11a_free_read (s_b st1) (s_db st1) = true ->
  option_map snd (run st1 ops) = option_map snd (run st2 ops).
Proof.
  induction ops as [|o ops IH]; intros st1 st2 Hs Hd; cbn [run]; [reflexivity|].
  pose proof (step_sim st1 st2 o Hs Hd) as H.
  destruct (step st1 o) as [[s1 o1]|], (step st2 o) as [[s2 o2]|]; cbn in H; try contradiction;
    [|reflexivity].
  destruct H as (-> & Hs' & Hd'). specialize (IH s1 s2 Hs' Hd').
  assert (Hm : mtu_of st1 = mtu_of st2)
    by (destruct Hs as (_ & Hb & _); unfold mtu_of; rewrite Hb; reflexivity).
  destruct (run s1 ops) as [[t1 outs1]|], (run s2 ops) as [[t2 outs2]|]; cbn in IH |- *;
    try discriminate; [|reflexivity].
  inversion IH; subst. rewrite Hm. reflexivity.
Qed.

(* D11a: without the hypothesis the statement is false -- a WRITEABLE-only attribute is served *)
Lemma read_gated_refuted :
  exists b db1 db2 opc ps,
    Forall2 (attr_sim b) db1 db2 /\
    option_map snd (rx (init db1 b 517) opc ps) <> option_map snd (rx (init db2 b 517) opc ps).
Proof.
  exists (mkBearer 23 false false false).
  exists [mkAttr 1 [17; 17] 2 [1] 1 0 0 0], [mkAttr 1 [17; 17] 2 [2] 1 0 0 0], 10, [1; 0].
  split.
  - constructor; [|constructor]. unfold attr_sim, may_read. cbn. repeat split. discriminate.
  - vm_compute. discriminate.
Qed.

(* ------------------------------------------------------------------ writes *)
Lemma write_refused b a :
  may_write b a = false -> d11a_write_witness b a = false -> write_check b a <> WOk.
Proof.
  unfold may_write, d11a_write_witness, link_ok_write, write_check, wr_ok. intros Hm Hd.
  destruct (Z.testbit (a_perm a) PB_WRITE_ENC && negb (b_enc b)); [discriminate|].
  destruct (Z.testbit (a_perm a) PB_WRITE_AUTHN && negb (b_auth b)); [discriminate|].
  destruct (Z.testbit (a_perm a) PB_WRITE_AUTHZ); [discriminate|].
  destruct (negb (a_cccd a =? 0)).
  - exfalso. destruct (Z.testbit (a_perm a) PB_WRITEABLE); cbn in Hm, Hd; discriminate.
  - destruct (a_werr a =? 0).
    + exfalso. destruct (Z.testbit (a_perm a) PB_WRITEABLE); cbn in Hm, Hd; discriminate.
    + destruct (0 <? a_werr a); discriminate.
Qed.

(* a write the bearer is not entitled to changes nothing (neither the database nor the
   subscription state), by request or by command; the request is answered by an Error Response *)
Lemma write_gated_db b db subs op h v a :
  find_attr h db = Some a -> may_write b a = false -> d11a_write_witness b a = false ->
  (exists hh c, h_write b db subs op h v = (db, subs, err_rsp op hh c)) /\
  h_write_cmd b db subs h v = (db, subs).
Proof.
  intros Hf Hm Hd. pose proof (write_refused b a Hm Hd) as Hc.
  unfold h_write, h_write_cmd, exc_rsp. rewrite Hf.
  destruct (MAX_VALUE_SIZE <? len v); [split; eauto|].
  destruct (write_check b a); [split; eauto|contradiction|split; eauto].
Qed.

(* a Write Request that is answered by an Error Response changed nothing *)
Lemma write_error_unchanged b db subs op h v :
  snd (h_write b db subs op h v) <> [OP_WRITE_RSP] -> fst (h_write b db subs op h v) = (db, subs).
Proof.
  unfold h_write. destruct (find_attr h db) as [a|]; [|reflexivity].
  destruct (MAX_VALUE_SIZE <? len v); [reflexivity|].
  destruct (write_check b a); [reflexivity| |reflexivity]. cbn. intros H. contradiction H. reflexivity.
Qed.

Lemma write_gated_refuted :
  exists b db h v a,
    find_attr h db = Some a /\ may_write b a = false /\ fst (h_write_cmd b db [] h v) <> db.
Proof.
  exists (mkBearer 23 false false false), [mkAttr 1 [17; 17] 1 [1] 1 0 0 0], 1, [2].
  eexists. split; [reflexivity|]. split; [reflexivity|]. vm_compute. discriminate.
Qed.

Lemma to_req_write opc fv h v : to_req opc fv = RWrite h v -> opc = 18.
Proof.
  unfold to_req. intros E1.
  repeat match type of E1 with
         | (if ?c then _ else _) = _ => destruct c eqn:?
         end.
  all: try (apply Z.eqb_eq; assumption).
  all: repeat match type of E1 with
         | match ?x with _ => _ end = _ => destruct x; try discriminate
         end.
  all: discriminate.
Qed.

Lemma to_req_write_cmd opc fv h v : to_req opc fv = RWriteCmd h v -> opc = 82.
Proof.
  unfold to_req. intros E1.
  repeat match type of E1 with
         | (if ?c then _ else _) = _ => destruct c eqn:?
         end.
  all: try (apply Z.eqb_eq; assumption).
  all: repeat match type of E1 with
         | match ?x with _ => _ end = _ => destruct x; try discriminate
         end.
  all: discriminate.
Qed.

(* only Write Request and Write Command can change the database or the subscription state *)
Lemma rx_db_unchanged st opc ps st' out :
  opc <> 18 -> opc <> 82 -> rx st opc ps = Some (st', out) ->
  s_db st' = s_db st /\ s_subs st' = s_subs st.
Proof.
  intros H18 H82 H. unfold rx in H. destruct (parse_pdu opc ps) as [|r] eqn:E.
  - inversion H; auto.
  - destruct (assoc opc m_handlers); [|inversion H; auto].
    unfold parse_pdu in E. destruct (assoc opc m_shapes) as [sh|].
    + destruct (parse_fields sh ps) as [fv|]; [|discriminate]. inversion E as [E1].
      unfold handle in H. destruct r; try (inversion H; auto; fail).
      * unfold h_mtu in H. destruct (b_enh (s_b st)); inversion H; [auto|]. destruct (DEFAULT_MTU <=? m); auto.
      * apply to_req_write in E1. contradiction.
      * apply to_req_write_cmd in E1. contradiction.
      * inversion H as [H1]. unfold h_confirm in H1.
        destruct (s_pending st); [destruct (s_waiting st)|]; inversion H1; auto.
    + inversion E; subst. discriminate.
Qed.

(* ------------------------------------------------------------------ refusal codes *)
(* the requirement that fails first, in the order the stack checks them:
   0x0F insufficient encryption, 0x05 insufficient authentication, 0x08 insufficient authorization *)
Definition read_refusal (b : bearer) (perm : Z) : option Z :=
  if Z.testbit perm 2 && negb (b_enc b) then Some 15
  else if Z.testbit perm 4 && negb (b_auth b) then Some 5
  else if Z.testbit perm 6 then Some 8
  else None.
Definition write_refusal (b : bearer) (perm : Z) : option Z :=
  if Z.testbit perm 3 && negb (b_enc b) then Some 15
  else if Z.testbit perm 5 && negb (b_auth b) then Some 5
  else if Z.testbit perm 7 then Some 8
  else None.

Lemma read_value_refusal b subs a c :
  read_refusal b (a_perm a) = Some c -> read_value b subs a = RErr c.
Proof.
  unfold read_refusal, read_value, PB_READ_ENC, PB_READ_AUTHN, PB_READ_AUTHZ.
  destruct (Z.testbit (a_perm a) 2 && negb (b_enc b)); [intros H; inversion H; reflexivity|].
  destruct (Z.testbit (a_perm a) 4 && negb (b_auth b)); [intros H; inversion H; reflexivity|].
  destruct (Z.testbit (a_perm a) 6); [intros H; inversion H; reflexivity|discriminate].
Qed.

Lemma write_check_refusal b a c : write_refusal b (a_perm a) = Some c -> write_check b a = WErr c.
Proof.
  unfold write_refusal, write_check, PB_WRITE_ENC, PB_WRITE_AUTHN, PB_WRITE_AUTHZ.
  destruct (Z.testbit (a_perm a) 3 && negb (b_enc b)); [intros H; inversion H; reflexivity|].
  destruct (Z.testbit (a_perm a) 5 && negb (b_auth b)); [intros H; inversion H; reflexivity|].
  destruct (Z.testbit (a_perm a) 7); [intros H; inversion H; reflexivity|discriminate].
Qed.

Lemma find_view_views st h :
  find_view h (views st) = option_map (view_of (s_b st) (s_subs st)) (find_attr h (s_db st)).
Proof.
  unfold views. induction (s_db st) as [|a db IH]; [reflexivity|].
  cbn [map find_view find_attr view_of v_handle].
  destruct (a_handle a =? h); [reflexivity|exact IH].
Qed.

Lemma read_refusal_rx st x y a c :
  find_attr (x + 256 * y) (s_db st) = Some a -> read_refusal (s_b st) (a_perm a) = Some c ->
  rx st 10 [x; y] = Some (st, [err_rsp 10 (x + 256 * y) c]) /\
  forall o1 o2, rx st 12 [x; y; o1; o2] = Some (st, [err_rsp 12 (x + 256 * y) c]).
Proof.
  intros Hf Hr. apply (read_value_refusal (s_b st) (s_subs st)) in Hr.
  split; [|intros o1 o2]; unfold rx, parse_pdu; cbn [assoc m_shapes m_handlers Z.eqb Pos.eqb parse_fields option_map to_req handle];
    unfold h_read, h_blob; rewrite find_view_views, Hf; cbn [option_map view_of v_read]; rewrite Hr; reflexivity.
Qed.

Lemma write_refusal_rx st x y v a c :
  find_attr (x + 256 * y) (s_db st) = Some a -> write_refusal (s_b st) (a_perm a) = Some c ->
  len v <= 512 ->
  rx st 18 (x :: y :: v) = Some (set_dbs st (s_db st, s_subs st), [err_rsp 18 (x + 256 * y) c]) /\
  rx st 82 (x :: y :: v) = Some (set_dbs st (s_db st, s_subs st), []).
Proof.
  intros Hf Hr Hl. apply write_check_refusal in Hr.
  assert (Hlt : (MAX_VALUE_SIZE <? len v) = false) by (apply Z.ltb_ge; exact Hl).
  split; unfold rx, parse_pdu; cbn [assoc m_shapes m_handlers Z.eqb Pos.eqb parse_fields option_map to_req handle];
    unfold h_write, h_write_cmd; rewrite Hf, Hlt, Hr; reflexivity.
Qed.

Lemma write_gated_rx st x y v a :
  find_attr (x + 256 * y) (s_db st) = Some a ->
  may_write (s_b st) a = false -> d11a_write_witness (s_b st) a = false ->
  (exists st' hh c, rx st 18 (x :: y :: v) = Some (st', [err_rsp 18 hh c]) /\
                    s_db st' = s_db st /\ s_subs st' = s_subs st) /\
  (exists st', rx st 82 (x :: y :: v) = Some (st', []) /\ s_db st' = s_db st /\ s_subs st' = s_subs st).
Proof.
  intros Hf Hm Hd.
  destruct (write_gated_db (s_b st) (s_db st) (s_subs st) 18 (x + 256 * y) v a Hf Hm Hd) as ((hh & c & Hw) & Hc).
  split.
  - exists (set_dbs st (s_db st, s_subs st)), hh, c.
    unfold rx, parse_pdu. cbn [assoc m_shapes m_handlers Z.eqb Pos.eqb parse_fields option_map to_req handle].
    rewrite Hw. repeat split.
  - exists (set_dbs st (s_db st, s_subs st)).
    unfold rx, parse_pdu. cbn [assoc m_shapes m_handlers Z.eqb Pos.eqb parse_fields option_map to_req handle].
    rewrite Hc. repeat split.
Qed.

Lemma rx_read_gated st1 st2 opc ps :
  st_sim st1 st2 -> d11a_free_read (s_b st1) (s_db st1) = true ->
  option_map snd (rx st1 opc ps) = option_map snd (rx st2 opc ps).
Proof.
  intros Hs Hd. pose proof (rx_sim st1 st2 opc ps Hs Hd) as H.
  destruct (rx st1 opc ps) as [[s1 o1]|], (rx st2 opc ps) as [[s2 o2]|]; cbn in H |- *;
    try contradiction; [|reflexivity].
  destruct H as (-> & _). reflexivity.
Qed.

(* ------------------------------------------------------------------ the model is total *)
Lemma handler_opcodes opc k :
  assoc opc m_handlers = Some k -> In opc [2; 4; 6; 8; 10; 12; 14; 16; 18; 30; 32; 82].
Proof.
  unfold m_handlers. cbn [assoc].
  repeat match goal with
         | |- context [opc =? ?n] =>
             destruct (opc =? n) eqn:?E;
             [apply Z.eqb_eq in E; subst; intros _; cbn; tauto|clear E]
         end.
  discriminate.
Qed.

Lemma rx_total st opc ps : exists st' out, rx st opc ps = Some (st', out).
Proof.
  unfold rx. destruct (parse_pdu opc ps) as [|r] eqn:E; [eauto|].
  destruct (assoc opc m_handlers) as [k|] eqn:Ea; [|eauto].
  apply handler_opcodes in Ea. cbn [In] in Ea.
  repeat (destruct Ea as [<-|Ea]); [..|contradiction].
  - apply parse_2 in E. destruct E as (m & ->). cbn [handle]. destruct (h_mtu st m). eauto.
  - apply parse_4 in E. destruct E as (s & e & ->). cbn [handle]. eauto.
  - apply parse_6 in E. destruct E as (s & e & t & v & ->). cbn [handle]. eauto.
  - apply parse_8 in E. destruct E as (s & e & t & ->). cbn [handle]. eauto.
  - apply parse_10 in E. destruct E as (h & ->). cbn [handle]. eauto.
  - apply parse_12 in E. destruct E as (h & o & ->). cbn [handle]. eauto.
  - apply parse_14 in E. destruct E as (hs & ->). cbn [handle]. eauto.
  - apply parse_16 in E. destruct E as (s & e & t & ->). cbn [handle]. eauto.
  - apply parse_18 in E. destruct E as (h & v & ->). cbn [handle].
    destruct (h_write (s_b st) (s_db st) (s_subs st) 18 h v). eauto.
  - apply parse_30 in E. subst r. cbn [handle]. destruct (h_confirm st). eauto.
  - apply parse_32 in E. destruct E as (hs & ->). cbn [handle]. eauto.
  - apply parse_82 in E. destruct E as (h & v & ->). cbn [handle]. eauto.
Qed.

Lemma run_total ops : forall st, exists st' outs, run st ops = Some (st', outs).
Proof.
  induction ops as [|o ops IH]; intros st; cbn [run]; [eauto|].
  assert (Hs : exists st1 out, step st o = Some (st1, out)).
  { destruct o; cbn [step]; [apply rx_total| | |]; eauto.
    - destruct (h_confirm st); eauto.
    - destruct (notify st h v force); eauto.
    - destruct (indicate st h v force); eauto. }
  destruct Hs as (st1 & out & ->). destruct (IH st1) as (st2 & outs & ->). eauto.
Qed.

(* ================================================================== several bearers on one server *)
Lemma nth_set_same {A} (l : list A) : forall i x y, nth_error l i = Some y -> nth_error (set_nth i x l) i = Some x.
Proof.
  induction l as [|z l IH]; intros [|i] x y H; cbn in *; try discriminate; [reflexivity|].
  eapply IH; exact H.
Qed.

Lemma nth_set_other {A} (l : list A) : forall i j x, i <> j -> nth_error (set_nth j x l) i = nth_error l i.
Proof.
  induction l as [|z l IH]; intros [|i] [|j] x H; cbn; try reflexivity; [contradiction|].
  apply IH. congruence.
Qed.

Lemma Forall2_set_nth {A} (R : A -> A -> Prop) l1 : forall l2 j x1 x2,
  Forall2 R l1 l2 -> R x1 x2 -> Forall2 R (set_nth j x1 l1) (set_nth j x2 l2).
Proof.
  induction l1 as [|a l1 IH]; intros l2 j x1 x2 HF HR; inversion HF; subst; destruct j; cbn;
    constructor; auto.
Qed.

Lemma Forall2_nth {A} (R : A -> A -> Prop) l1 : forall l2 j,
  Forall2 R l1 l2 ->
  match nth_error l1 j, nth_error l2 j with
  | Some x, Some y => R x y
  | None, None => True
  | _, _ => False
  end.
Proof.
  induction l1 as [|a l1 IH]; intros l2 j HF; inversion HF; subst; destruct j; cbn; auto.
  apply IH. assumption.
Qed.

(* the response to a stimulus on bearer i, the new database and bearer i's new state depend
   only on the database, max_mtu and bearer i's own state *)
Lemma mstep_local m1 m2 i o :
  m_db m1 = m_db m2 -> m_max_mtu m1 = m_max_mtu m2 ->
  nth_error (m_bs m1) i = nth_error (m_bs m2) i ->
  match mstep m1 i o, mstep m2 i o with
  | Some (n1, o1), Some (n2, o2) =>
      o1 = o2 /\ m_db n1 = m_db n2 /\ nth_error (m_bs n1) i = nth_error (m_bs n2) i
  | None, None => True
  | _, _ => False
  end.
Proof.
  intros Hd Hx Hn. unfold mstep.
  destruct (nth_error (m_bs m1) i) as [x|] eqn:E; rewrite <- Hn;
    [|split; [reflexivity|split; [exact Hd|congruence]]].
  assert (Hp : proj m1 x = proj m2 x) by (unfold proj; rewrite Hd, Hx; reflexivity).
  rewrite <- Hp. destruct (step (proj m1 x) o) as [[st' out]|]; [|exact I].
  cbn [m_db m_bs]. split; [reflexivity|split; [reflexivity|]].
  rewrite (nth_set_same _ i _ x E), (nth_set_same _ i _ x (eq_sym Hn)). reflexivity.
Qed.

(* a stimulus on bearer j leaves every other bearer's state untouched *)
Lemma mstep_frame m j o n out i :
  mstep m j o = Some (n, out) -> i <> j -> nth_error (m_bs n) i = nth_error (m_bs m) i.
Proof.
  unfold mstep. intros H Hij. destruct (nth_error (m_bs m) j) as [x|]; [|inversion H; reflexivity].
  destruct (step (proj m x) o) as [[st' out']|]; [|discriminate]. inversion H; subst. cbn [m_bs].
  apply nth_set_other. exact Hij.
Qed.

(* --- non-interference with other bearers acting in between *)
Definition sec_eq (b b' : bearer) : Prop := b_enc b = b_enc b' /\ b_auth b = b_auth b'.

Lemma attr_sim_sec b b' a1 a2 : sec_eq b b' -> attr_sim b a1 a2 -> attr_sim b' a1 a2.
Proof.
  intros (He & Ha). unfold attr_sim, may_read, link_ok_read. rewrite He, Ha. tauto.
Qed.

Lemma d11a_free_read_sec b b' db : sec_eq b b' -> d11a_free_read b db = d11a_free_read b' db.
Proof.
  intros (He & Ha). unfold d11a_free_read, d11a_read_witness, link_ok_read. rewrite He, Ha. reflexivity.
Qed.

Lemma Forall2_attr_sim_sec b b' db1 db2 :
  sec_eq b b' -> Forall2 (attr_sim b) db1 db2 -> Forall2 (attr_sim b') db1 db2.
Proof.
  intros Hs H. induction H as [|a1 a2 l1 l2 Ha Hl IH]; constructor; [|exact IH].
  eapply attr_sim_sec; eassumption.
Qed.

(* a step never changes the security attributes of its bearer *)
Lemma step_sec st o st' out : step st o = Some (st', out) -> sec_eq (s_b st') (s_b st).
Proof.
  intros Hs. destruct o as [opc ps| |h v f|h v f]; cbn [step] in Hs.
  - apply rx_cases in Hs. destruct Hs as [(m & Hs)|[(_ & Hs)|Hs]].
    + unfold h_mtu in Hs. destruct (b_enh (s_b st)); inversion Hs; subst; [split; reflexivity|].
      destruct (DEFAULT_MTU <=? m); split; reflexivity.
    + unfold h_confirm in Hs. destruct (s_pending st); [destruct (s_waiting st)|];
        inversion Hs; subst; split; reflexivity.
    + destruct Hs as (_ & _ & _ & _ & Hb & _). rewrite Hb. split; reflexivity.
  - unfold h_confirm in Hs. destruct (s_pending st); [destruct (s_waiting st)|];
      inversion Hs; subst; split; reflexivity.
  - unfold notify in Hs. destruct (find_attr h (s_db st)); [|inversion Hs; split; reflexivity].
    destruct (f || _); [|inversion Hs; split; reflexivity].
    destruct (server_value st a v); inversion Hs; split; reflexivity.
  - unfold indicate in Hs. destruct (find_attr h (s_db st)); [|inversion Hs; split; reflexivity].
    destruct (f || _); [|inversion Hs; split; reflexivity].
    destruct (server_value st a v); [|inversion Hs; split; reflexivity].
    destruct (s_pending st); inversion Hs; split; reflexivity.
Qed.

(* What a step does to the database, the ATT_MTU and the subscriptions does not depend on the
   values of attributes, nor on the indication state: two states of the SAME bearer over
   databases that are similar for some observer b0 evolve into such states again. *)
Definition weak_rel (b0 : bearer) (st1 st2 : srv) : Prop :=
  Forall2 (attr_sim b0) (s_db st1) (s_db st2) /\ s_b st1 = s_b st2 /\
  s_max_mtu st1 = s_max_mtu st2 /\ s_subs st1 = s_subs st2.

Definition weak_step_rel (b0 : bearer) (d0 : list attr) (r1 r2 : option (srv * list bytes)) : Prop :=
  match r1, r2 with
  | Some (t1, _), Some (t2, _) =>
      weak_rel b0 t1 t2 /\ d11a_free_read b0 (s_db t1) = d11a_free_read b0 d0
  | None, None => True
  | _, _ => False
  end.

Lemma weak_out b0 st1 t1 t2 o1 o2 :
  weak_rel b0 t1 t2 -> s_db t1 = s_db st1 ->
  weak_step_rel b0 (s_db st1) (Some (t1, o1)) (Some (t2, o2)).
Proof. intros H E. split; [exact H|]. rewrite E. reflexivity. Qed.

Lemma handle_weak b0 st1 st2 op r :
  weak_rel b0 st1 st2 -> weak_step_rel b0 (s_db st1) (handle st1 op r) (handle st2 op r).
Proof.
  intros Hw. pose proof Hw as (Hdb & Hb & Hx & Hsub). unfold handle.
  destruct r; try (apply weak_out; [exact Hw|reflexivity]); try exact I.
  - (* MTU *)
    unfold h_mtu, negotiated_mtu. rewrite <- Hx, <- Hb.
    destruct (b_enh (s_b st1)); [apply weak_out; [exact Hw|reflexivity]|].
    destruct (DEFAULT_MTU <=? m); apply weak_out; try reflexivity; [|exact Hw].
    unfold weak_rel, set_mtu. cbn [s_db s_b s_max_mtu s_subs]. rewrite <- Hb. repeat split; assumption.
  - (* write request *)
    rewrite <- Hb, <- Hsub.
    pose proof (h_write_sim b0 (s_b st1) (s_subs st1) op h v (s_db st1) (s_db st2) Hdb) as Hws.
    cbn zeta in Hws. destruct Hws as (_ & Hsb & Hf & Hk).
    destruct (h_write (s_b st1) (s_db st1) (s_subs st1) op h v) as [[db1 sb1] p1].
    destruct (h_write (s_b st1) (s_db st2) (s_subs st1) op h v) as [[db2 sb2] p2].
    cbn [fst snd] in *. subst sb2. split; [|exact Hk].
    unfold weak_rel, set_dbs. cbn [s_db s_b s_max_mtu s_subs fst snd]. repeat split; assumption.
  - (* write command *)
    rewrite <- Hb, <- Hsub.
    pose proof (h_write_cmd_sim b0 (s_b st1) (s_subs st1) h v (s_db st1) (s_db st2) Hdb) as Hws.
    cbn zeta in Hws. destruct Hws as (Hsb & Hf & Hk).
    destruct (h_write_cmd (s_b st1) (s_db st1) (s_subs st1) h v) as [db1 sb1].
    destruct (h_write_cmd (s_b st1) (s_db st2) (s_subs st1) h v) as [db2 sb2].
    cbn [fst snd] in *. subst sb2. split; [|exact Hk].
    unfold weak_rel, set_dbs. cbn [s_db s_b s_max_mtu s_subs fst snd]. repeat split; assumption.
  - (* confirmation: only the indication state changes *)
    unfold h_confirm.
    destruct (s_pending st1), (s_pending st2);
      try destruct (s_waiting st1); try destruct (s_waiting st2); apply weak_out; try reflexivity;
      unfold weak_rel, set_ind; cbn [s_db s_b s_max_mtu s_subs]; repeat split; assumption.
Qed.

Lemma step_weak b0 st1 st2 o :
  weak_rel b0 st1 st2 -> weak_step_rel b0 (s_db st1) (step st1 o) (step st2 o).
Proof.
  intros Hw. pose proof Hw as (Hdb & Hb & Hx & Hsub).
  destruct o as [opc ps| |h v f|h v f]; cbn [step].
  - unfold rx. destruct (parse_pdu opc ps) as [|r]; [apply weak_out; [exact Hw|reflexivity]|].
    destruct (assoc opc m_handlers); [apply handle_weak; exact Hw|apply weak_out; [exact Hw|reflexivity]].
  - apply (handle_weak b0 st1 st2 30 RConfirm Hw).
  - unfold notify.
    pose proof (find_attr_sim b0 h _ _ Hdb) as Hf.
    destruct (find_attr h (s_db st1)) as [a1|], (find_attr h (s_db st2)) as [a2|]; try contradiction;
      [|apply weak_out; [exact Hw|reflexivity]].
    destruct (f || cccd_allows 0 (s_subs st1) h), (f || cccd_allows 0 (s_subs st2) h);
      try destruct (server_value st1 a1 v); try destruct (server_value st2 a2 v);
      (apply weak_out; [exact Hw|reflexivity]).
  - unfold indicate.
    pose proof (find_attr_sim b0 h _ _ Hdb) as Hf.
    assert (Hk : forall p1 w1 p2 w2, weak_rel b0 (set_ind st1 p1 w1) (set_ind st2 p2 w2))
      by (intros; unfold weak_rel, set_ind; cbn [s_db s_b s_max_mtu s_subs]; repeat split; assumption).
    destruct (find_attr h (s_db st1)) as [a1|], (find_attr h (s_db st2)) as [a2|]; try contradiction;
      [|apply weak_out; [exact Hw|reflexivity]].
    destruct (f || cccd_allows 1 (s_subs st1) h), (f || cccd_allows 1 (s_subs st2) h);
      try destruct (server_value st1 a1 v); try destruct (server_value st2 a2 v);
      try destruct (s_pending st1); try destruct (s_pending st2);
      (apply weak_out; [first [exact Hw|apply Hk]|reflexivity]).
Qed.

(* Two servers seen by the observer on bearer i (security b0): similar databases, the same
   bearers with the same ATT_MTU and subscriptions (the other bearers' indication state may
   differ: what they were sent may contain values the observer must not see), bearer i in
   exactly the same state. *)
Definition bst_weak (x y : bst) : Prop := bs_b x = bs_b y /\ bs_subs x = bs_subs y.

Definition msim (i : nat) (b0 : bearer) (m1 m2 : msrv) : Prop :=
  Forall2 (attr_sim b0) (m_db m1) (m_db m2) /\ m_max_mtu m1 = m_max_mtu m2 /\
  Forall2 bst_weak (m_bs m1) (m_bs m2) /\ nth_error (m_bs m1) i = nth_error (m_bs m2) i /\
  (forall x, nth_error (m_bs m1) i = Some x -> sec_eq (bs_b x) b0) /\
  d11a_free_read b0 (m_db m1) = true.

Lemma mstep_sim i b0 m1 m2 j o :
  msim i b0 m1 m2 ->
  match mstep m1 j o, mstep m2 j o with
  | Some (n1, o1), Some (n2, o2) => msim i b0 n1 n2 /\ (j = i -> o1 = o2)
  | None, None => True
  | _, _ => False
  end.
Proof.
  intros (Hdb & Hx & Hbs & Hi & Hsec & Hd). unfold mstep.
  pose proof (Forall2_nth bst_weak _ _ j Hbs) as Hj.
  destruct (Nat.eq_dec j i) as [->|Hne].
  - (* the observer's own stimulus *)
    rewrite <- Hi in *. destruct (nth_error (m_bs m1) i) as [x|] eqn:E.
    + pose proof (Hsec x eq_refl) as Hs.
      assert (Hs' : sec_eq b0 (bs_b x)) by (destruct Hs; split; congruence).
      assert (Hst : st_sim (proj m1 x) (proj m2 x)).
      { unfold st_sim, proj. cbn [s_db s_b s_max_mtu s_subs s_pending s_waiting].
        repeat split; try assumption. eapply Forall2_attr_sim_sec; eassumption. }
      assert (Hdf : d11a_free_read (s_b (proj m1 x)) (s_db (proj m1 x)) = true).
      { cbn [proj s_b s_db]. rewrite (d11a_free_read_sec (bs_b x) b0 _ Hs). exact Hd. }
      pose proof (step_sim _ _ o Hst Hdf) as Hstep.
      destruct (step (proj m1 x) o) as [[t1 o1]|] eqn:E1, (step (proj m2 x) o) as [[t2 o2]|];
        cbn in Hstep; try contradiction; [|exact I].
      destruct Hstep as (-> & (Hdb' & Hb' & _ & Hsub' & Hp' & Hw') & Hd').
      pose proof (step_sec _ _ _ _ E1) as Hsec1. cbn [proj s_b] in Hsec1.
      assert (Hs1 : sec_eq (s_b t1) b0) by (destruct Hsec1, Hs; split; congruence).
      assert (Hbst : bst_of t1 = bst_of t2) by (unfold bst_of; rewrite Hb', Hsub', Hp', Hw'; reflexivity).
      split; [|reflexivity]. unfold msim. cbn [m_db m_max_mtu m_bs].
      split; [eapply Forall2_attr_sim_sec; [|exact Hdb']; exact Hs1|].
      split; [exact Hx|].
      split; [apply Forall2_set_nth; [exact Hbs|rewrite Hbst; split; reflexivity]|].
      split; [rewrite (nth_set_same (m_bs m1) i _ x E), Hbst, (nth_set_same (m_bs m2) i _ x (eq_sym Hi)); reflexivity|].
      split.
      * intros y Hy. rewrite (nth_set_same (m_bs m1) i _ x E) in Hy. inversion Hy; subst. exact Hs1.
      * rewrite <- (d11a_free_read_sec (s_b t1) b0 _ Hs1). exact Hd'.
    + split; [|reflexivity]. unfold msim.
      split; [exact Hdb|]. split; [exact Hx|]. split; [exact Hbs|].
      split; [rewrite E; exact Hi|]. split; [|exact Hd].
      intros y Hy. rewrite E in Hy. discriminate.
  - (* another bearer's stimulus *)
    destruct (nth_error (m_bs m1) j) as [x1|] eqn:E1, (nth_error (m_bs m2) j) as [x2|] eqn:E2;
      try contradiction.
    + destruct Hj as (Hb & Hsub).
      assert (Hw : weak_rel b0 (proj m1 x1) (proj m2 x2))
        by (unfold weak_rel, proj; cbn [s_db s_b s_max_mtu s_subs]; repeat split; assumption).
      pose proof (step_weak b0 _ _ o Hw) as Hstep.
      destruct (step (proj m1 x1) o) as [[t1 o1]|], (step (proj m2 x2) o) as [[t2 o2]|];
        cbn in Hstep; try contradiction; [|exact I].
      destruct Hstep as ((Hdb' & Hb' & _ & Hsub') & Hd'). cbn [proj s_db] in Hd'.
      split; [|intros; contradiction]. unfold msim. cbn [m_db m_max_mtu m_bs].
      split; [exact Hdb'|]. split; [exact Hx|].
      split; [apply Forall2_set_nth; [exact Hbs|split; assumption]|].
      assert (Hij : i <> j) by congruence.
      split; [rewrite !(nth_set_other _ i j _ Hij); exact Hi|].
      split.
      * intros y Hy. rewrite (nth_set_other _ i j _ Hij) in Hy. apply Hsec. exact Hy.
      * rewrite Hd'. exact Hd.
    + split; [|intros; contradiction]. unfold msim.
      split; [exact Hdb|]. split; [exact Hx|]. split; [exact Hbs|]. split; [exact Hi|].
      split; [exact Hsec|exact Hd].
Qed.

(* Over every history of stimuli on any bearers: what the observer on bearer i is sent does
   not depend on values it may not read -- whatever the other bearers do in between. *)
Lemma mrun_sim ops : forall i b0 m1 m2,
  msim i b0 m1 m2 ->
  option_map (fun r => outs_of i (snd r)) (mrun m1 ops) =
  option_map (fun r => outs_of i (snd r)) (mrun m2 ops).
Proof.
  induction ops as [|[j o] ops IH]; intros i b0 m1 m2 Hs; cbn [mrun]; [reflexivity|].
  pose proof (mstep_sim i b0 m1 m2 j o Hs) as H.
  destruct (mstep m1 j o) as [[n1 o1]|], (mstep m2 j o) as [[n2 o2]|]; try contradiction; [|reflexivity].
  destruct H as (Hs' & Ho). specialize (IH i b0 n1 n2 Hs').
  destruct (mrun n1 ops) as [[k1 outs1]|], (mrun n2 ops) as [[k2 outs2]|]; cbn in IH |- *;
    try discriminate; [|reflexivity].
  inversion IH as [IH']. unfold outs_of. cbn [filter fst].
  destruct (Nat.eqb j i) eqn:E.
  - apply Nat.eqb_eq in E. rewrite (Ho E). cbn [map snd]. unfold outs_of in IH'. rewrite IH'. reflexivity.
  - unfold outs_of in IH'. rewrite IH'. reflexivity.
Qed.

(* ------------------------------------------------------------------ C10 with several bearers *)
Definition bst_ok (m : msrv) (x : bst) : Prop :=
  ind_inv (proj m x) /\ 23 <= b_mtu (bs_b x) /\ 23 <= m_max_mtu m.

Lemma bst_ok_db m n x : m_max_mtu n = m_max_mtu m -> bst_ok m x -> bst_ok n x.
Proof. unfold bst_ok, ind_inv, proj. cbn. intros ->. tauto. Qed.

Lemma map_set_nth {A B} (f : A -> B) l : forall i x, map f (set_nth i x l) = set_nth i (f x) (map f l).
Proof. induction l as [|y l IH]; intros [|i] x; cbn; try reflexivity. rewrite IH. reflexivity. Qed.

Lemma nth_map_pending bs i x : nth_error bs i = Some x -> nth i (map bs_pending bs) false = bs_pending x.
Proof.
  revert i. induction bs as [|y bs IH]; intros [|i] H; cbn in *; try discriminate.
  - inversion H; reflexivity.
  - apply IH; exact H.
Qed.

Lemma nth_none_default {A} (l : list A) i d : nth_error l i = None -> nth i l d = d.
Proof. revert i. induction l as [|y l IH]; intros [|i] H; cbn in *; try discriminate; auto. Qed.

Lemma set_nth_none {A} (l : list A) i x : nth_error l i = None -> set_nth i x l = l.
Proof.
  revert i. induction l as [|y l IH]; intros [|i] H; cbn in *; try discriminate; try reflexivity.
  rewrite IH; [reflexivity|exact H].
Qed.

Lemma Forall_set_nth {A} (P : A -> Prop) l : forall i x, Forall P l -> P x -> Forall P (set_nth i x l).
Proof.
  induction l as [|y l IH]; intros [|i] x HF Hx; inversion HF; subst; cbn; constructor; auto.
Qed.

Lemma mstep_ind m i o n out :
  Forall (bst_ok m) (m_bs m) -> mstep m i o = Some (n, out) ->
  Forall (bst_ok n) (m_bs n) /\
  exists p', sent_ok (if is_confirm o then false else nth i (map bs_pending (m_bs m)) false) out = Some p' /\
             map bs_pending (m_bs n) = set_nth i p' (map bs_pending (m_bs m)).
Proof.
  intros Hok H. unfold mstep in H. destruct (nth_error (m_bs m) i) as [x|] eqn:E.
  - destruct (step (proj m x) o) as [[st' out']|] eqn:Es; [|discriminate]. inversion H; subst. clear H.
    assert (Hx : bst_ok m x) by (rewrite Forall_forall in Hok; apply Hok; eapply nth_error_In; exact E).
    destruct Hx as (Hi & Hm & Hmax).
    destruct (step_ind (proj m x) o st' out Hi Hm Es) as (Hi' & Hso).
    destruct (step_mtu_ge (proj m x) o st' out Hm Hmax Es) as (Hm' & Hmax').
    cbn [proj s_pending] in Hso. rewrite (nth_map_pending _ _ _ E). cbn [m_bs m_max_mtu].
    split.
    + apply Forall_set_nth.
      * eapply Forall_impl; [|exact Hok]. intros y Hy. apply (bst_ok_db m); [reflexivity|exact Hy].
      * unfold bst_ok, proj, bst_of. cbn [m_db m_max_mtu bs_b bs_subs bs_pending bs_waiting].
        split; [|split; [exact Hm'|exact Hmax]].
        unfold ind_inv in *. cbn [s_pending s_waiting] in *. exact Hi'.
    + exists (s_pending st'). split; [exact Hso|]. rewrite map_set_nth. reflexivity.
  - inversion H; subst. split; [exact Hok|].
    rewrite (nth_none_default _ _ _ (eq_trans (nth_error_map _ _ _) (f_equal (option_map _) E))).
    exists false. split; [destruct (is_confirm o); reflexivity|].
    symmetry. apply set_nth_none. rewrite nth_error_map, E. reflexivity.
Qed.

(* Over every history on several bearers: on each bearer an indication is transmitted only
   when no earlier indication on THAT bearer awaits its confirmation. *)
Lemma mrun_ind_ok ops : forall m n outs,
  Forall (bst_ok m) (m_bs m) -> mrun m ops = Some (n, outs) ->
  mind_ok (map bs_pending (m_bs m)) ops outs = true.
Proof.
  induction ops as [|[i o] ops IH]; intros m n outs Hok Hr; cbn [mrun] in Hr.
  - inversion Hr; reflexivity.
  - destruct (mstep m i o) as [[m1 out]|] eqn:Es; [|discriminate].
    destruct (mrun m1 ops) as [[m2 outs2]|] eqn:Er; [|discriminate]. inversion Hr; subst.
    destruct (mstep_ind m i o m1 out Hok Es) as (Hok1 & p' & Hso & Hp).
    cbn [mind_ok]. rewrite Hso, <- Hp. eapply IH; eassumption.
Qed.

Lemma minit_ok db max_mtu bs :
  23 <= max_mtu -> Forall (fun b => 23 <= b_mtu b) bs ->
  Forall (bst_ok (minit db max_mtu bs)) (m_bs (minit db max_mtu bs)).
Proof.
  intros Hx Hb. unfold minit. cbn [m_bs]. apply Forall_map. eapply Forall_impl; [|exact Hb].
  intros b Hm. unfold bst_ok, proj, ind_inv. cbn. repeat split; try assumption. constructor.
Qed.

(* a stimulus on one bearer: what is sent fits that bearer's ATT_MTU, and every bearer keeps
   the invariant (the others are not touched) *)
Definition bst_inv (m : msrv) (x : bst) : Prop := inv (proj m x).

Lemma mstep_le_mtu m i o n out x :
  Forall (bst_inv m) (m_bs m) -> mstep m i o = Some (n, out) -> nth_error (m_bs m) i = Some x ->
  (forall y, nth_error (m_bs n) i = Some y -> b_mtu (bs_b x) <= b_mtu (bs_b y) \/ bs_waiting y = []) ->
  all_le (b_mtu (bs_b x)) out /\ Forall (bst_inv n) (m_bs n).
Proof.
  intros Hok H E Hk. unfold mstep in H. rewrite E in H.
  destruct (step (proj m x) o) as [[st' out']|] eqn:Es; [|discriminate]. inversion H; subst. clear H.
  assert (Hx : inv (proj m x)) by (rewrite Forall_forall in Hok; apply Hok; eapply nth_error_In; exact E).
  cbn [m_bs] in Hk. specialize (Hk (bst_of st') (nth_set_same _ _ _ _ E)).
  destruct (step_inv (proj m x) o st' out Hx Es Hk) as (Hi' & Hl).
  split; [exact Hl|]. cbn [m_bs]. apply Forall_set_nth.
  - eapply Forall_impl; [|exact Hok]. intros y Hy. unfold bst_inv, inv, proj, mtu_of in *. cbn in *. exact Hy.
  - unfold bst_inv, inv, proj, bst_of, mtu_of in *. cbn in *.
    pose proof (step_mtu_ge (proj m x) o st' out) as Hmx. unfold proj, mtu_of in Hmx. cbn in Hmx.
    destruct Hx as (H1 & H2 & _). destruct (Hmx H1 H2 Es) as (_ & Hmax). rewrite <- Hmax. exact Hi'.
Qed.

(* ------------------------------------------------------------------ C10: bursts *)
Lemma memz_In x l : memz x l = true -> In x l.
Proof.
  induction l as [|y l IH]; cbn; [discriminate|]. intros H. apply orb_true_iff in H.
  destruct H as [H|H]; [left; symmetry; apply Z.eqb_eq; exact H|right; apply IH; exact H].
Qed.

Lemma reply_not_indication opc p :
  In opc spec_requests -> reply_for opc p = true -> is_indication p = false.
Proof.
  intros Hin Hr. destruct p as [|x rest]; [reflexivity|]. unfold reply_for in Hr. cbn [is_indication].
  apply orb_true_iff in Hr. destruct Hr as [Hr|Hr].
  - apply Z.eqb_eq in Hr. subst x. unfold spec_requests in Hin. cbn [In] in Hin.
    repeat (destruct Hin as [<-|Hin]; [reflexivity|]). contradiction.
  - apply andb_true_iff in Hr. destruct Hr as [Hr _]. apply Z.eqb_eq in Hr. subst x. reflexivity.
Qed.

Definition req_count (opc : Z) : Z := if memz opc spec_requests then 1 else 0.

Lemma rx_out_shape st opc ps st' out :
  opc <> 30 -> rx st opc ps = Some (st', out) ->
  len out = req_count opc /\ Forall (fun p => is_indication p = false) out /\
  (23 <= mtu_of st -> all_le (mtu_of st) out).
Proof.
  intros H30 H. unfold req_count. destruct (memz opc spec_requests) eqn:E.
  - pose proof (memz_In _ _ E) as Hin.
    destruct (rx_request_one st opc ps Hin) as (st1 & p & Hrx & Hrep & Hl).
    rewrite Hrx in H. inversion H; subst. split; [reflexivity|]. split.
    + constructor; [eapply reply_not_indication; eassumption|constructor].
    + intros Hm. apply all_le_one. exact (Hl Hm).
  - destruct (rx_non_request st opc ps E H30) as (st1 & Hrx). rewrite Hrx in H. inversion H; subst.
    split; [reflexivity|]. split; [constructor|intros _; constructor].
Qed.

Lemma count_requests_cons opc ps l : count_requests ((opc, ps) :: l) = req_count opc + count_requests l.
Proof.
  unfold count_requests, req_count. cbn [filter fst]. destruct (memz opc spec_requests).
  - rewrite len_cons. reflexivity.
  - reflexivity.
Qed.

Lemma deferred_not_confirm opc ps : deferred opc ps = true -> opc <> 30.
Proof.
  intros H ->. unfold deferred in H. destruct (parse_pdu 30 ps); [discriminate|].
  cbn in H. discriminate.
Qed.

(* a PDU sent during a burst: not an indication, and no longer than the ATT_MTU in force *)
Definition burst_out_ok (mp : Z * bytes) : Prop := len (snd mp) <= fst mp /\ is_indication (snd mp) = false.

Lemma tag_ok m out :
  all_le m out -> Forall (fun p => is_indication p = false) out ->
  Forall burst_out_ok (map (fun p => (m, p)) out).
Proof.
  intros H1 H2. induction out as [|p out IH]; [constructor|].
  inversion H1; inversion H2; subst. constructor; [split; assumption|apply IH; assumption].
Qed.

Lemma burst_later_spec d : forall st st' out,
  23 <= mtu_of st -> 23 <= s_max_mtu st ->
  Forall (fun x => deferred (fst x) (snd x) = true) d ->
  burst_later st d = Some (st', out) ->
  len out = count_requests d /\ Forall burst_out_ok out /\ 23 <= mtu_of st' /\ 23 <= s_max_mtu st'.
Proof.
  induction d as [|[opc ps] d IH]; intros st st' out Hm Hx Hd H; cbn [burst_later] in H.
  - inversion H; subst. repeat split; try assumption. constructor.
  - inversion Hd as [|? ? Hd1 Hd2]; subst. cbn [fst snd] in Hd1.
    destruct (rx st opc ps) as [[st1 out1]|] eqn:Erx; [|discriminate].
    destruct (burst_later st1 d) as [[st2 out2]|] eqn:El; [|discriminate]. inversion H; subst.
    destruct (rx_out_shape st opc ps st1 out1 (deferred_not_confirm _ _ Hd1) Erx) as (Hc & Hni & Hle).
    destruct (step_mtu_ge st (Rx opc ps) st1 out1 Hm Hx Erx) as (Hm1 & Hx1).
    destruct (IH st1 st' out2 Hm1 ltac:(rewrite Hx1; exact Hx) Hd2 El) as (Hc2 & Hok2 & Hm2 & Hx2).
    rewrite count_requests_cons, len_app. unfold len at 1. rewrite map_length. fold (len out1).
    split; [lia|]. split; [|split; assumption].
    apply Forall_app. split; [apply tag_ok; [exact (Hle Hm)|exact Hni]|exact Hok2].
Qed.

Lemma burst_now_spec l : forall st conf st' c out d,
  23 <= mtu_of st -> 23 <= s_max_mtu st ->
  burst_now st conf l = Some (st', c, out, d) ->
  len out + count_requests d = count_requests l /\ Forall burst_out_ok out /\
  Forall (fun x => deferred (fst x) (snd x) = true) d /\ 23 <= mtu_of st' /\ 23 <= s_max_mtu st'.
Proof.
  induction l as [|[opc ps] l IH]; intros st conf st' c out d Hm Hx H; cbn [burst_now] in H.
  - inversion H; subst. repeat split; try assumption; constructor.
  - destruct (deferred opc ps) eqn:Ed.
    + destruct (burst_now st conf l) as [[[[st1 c1] out1] d1]|] eqn:E; [|discriminate]. inversion H; subst.
      destruct (IH _ _ _ _ _ _ Hm Hx E) as (Hc & Hok & Hd & Hm' & Hx').
      rewrite !count_requests_cons. split; [lia|]. split; [exact Hok|]. split; [|split; assumption].
      constructor; [exact Ed|exact Hd].
    + destruct (opc =? OP_CONFIRM) eqn:E30.
      * apply Z.eqb_eq in E30. subst opc.
        destruct (IH _ _ _ _ _ _ Hm Hx H) as (Hc & Hrest). rewrite count_requests_cons.
        split; [exact Hc|exact Hrest].
      * apply Z.eqb_neq in E30.
        destruct (rx st opc ps) as [[st1 out1]|] eqn:Erx; [|discriminate].
        destruct (burst_now st1 conf l) as [[[[st2 c2] out2] d2]|] eqn:E; [|discriminate]. inversion H; subst.
        destruct (rx_out_shape st opc ps st1 out1 E30 Erx) as (Hc1 & Hni & Hle).
        destruct (step_mtu_ge st (Rx opc ps) st1 out1 Hm Hx Erx) as (Hm1 & Hx1).
        destruct (IH _ _ _ _ _ _ Hm1 ltac:(rewrite Hx1; exact Hx) E) as (Hc & Hok & Hd & Hm' & Hx').
        rewrite count_requests_cons, len_app. unfold len at 1. rewrite map_length. fold (len out1).
        split; [lia|]. split; [|split; [exact Hd|split; assumption]].
        apply Forall_app. split; [apply tag_ok; [exact (Hle Hm)|exact Hni]|exact Hok].
Qed.

(* Every request of a burst is answered exactly once and nothing else is: the PDUs sent are as
   many as the requests in the burst, none is an indication, each fits the ATT_MTU in force
   when it was sent; the only other PDU a burst can cause is the oldest waiting indication,
   released by a confirmation in the burst. *)
Lemma burst_spec st l st' out rel :
  23 <= mtu_of st -> 23 <= s_max_mtu st -> burst st l = Some (st', out, rel) ->
  len out = count_requests l /\ Forall burst_out_ok out /\
  (rel = [] \/ exists p w, rel = [p] /\ s_waiting st = p :: w).
Proof.
  intros Hm Hx H. unfold burst in H.
  destruct (burst_now st false l) as [[[[st1 c] out1] d]|] eqn:En; [|discriminate].
  destruct (burst_later st1 d) as [[st2 out2]|] eqn:El; [|discriminate].
  destruct (burst_now_spec l _ _ _ _ _ _ Hm Hx En) as (Hc1 & Hok1 & Hd & Hm1 & Hx1).
  destruct (burst_later_spec d _ _ _ Hm1 Hx1 Hd El) as (Hc2 & Hok2 & _ & _).
  assert (Hw : s_waiting st2 = s_waiting st /\ s_pending st2 = s_pending st).
  { (* the waiting indications are untouched by both passes *)
    assert (Hnow : forall l st conf st' c out d, burst_now st conf l = Some (st', c, out, d) ->
                   s_waiting st' = s_waiting st /\ s_pending st' = s_pending st).
    { clear. induction l as [|[opc ps] l IH]; intros st conf st' c out d H; cbn [burst_now] in H.
      - inversion H; auto.
      - destruct (deferred opc ps).
        + destruct (burst_now st conf l) as [[[[st1 c1] out1] d1]|] eqn:E; [|discriminate]. inversion H; subst.
          eapply IH; exact E.
        + destruct (opc =? OP_CONFIRM) eqn:E30; [eapply IH; exact H|]. apply Z.eqb_neq in E30.
          destruct (rx st opc ps) as [[st1 out1]|] eqn:Erx; [|discriminate].
          destruct (burst_now st1 conf l) as [[[[st2 c2] out2] d2]|] eqn:E; [|discriminate]. inversion H; subst.
          destruct (IH _ _ _ _ _ _ E) as (H1 & H2). rewrite H1, H2.
          apply rx_cases in Erx. destruct Erx as [(m & Hs)|[(He & _)|Hs]]; [|contradiction|].
          * unfold h_mtu in Hs. destruct (b_enh (s_b st)); inversion Hs; [auto|]. destruct (DEFAULT_MTU <=? m); auto.
          * destruct Hs as (_ & _ & Hw & Hp & _). auto. }
    assert (Hlater : forall d st st' out, Forall (fun x => deferred (fst x) (snd x) = true) d ->
                     burst_later st d = Some (st', out) ->
                     s_waiting st' = s_waiting st /\ s_pending st' = s_pending st).
    { clear. induction d as [|[opc ps] d IH]; intros st st' out Hd H; cbn [burst_later] in H.
      - inversion H; auto.
      - inversion Hd as [|? ? Hd1 Hd2]; subst. cbn [fst snd] in Hd1.
        destruct (rx st opc ps) as [[st1 out1]|] eqn:Erx; [|discriminate].
        destruct (burst_later st1 d) as [[st2 out2]|] eqn:E; [|discriminate]. inversion H; subst.
        destruct (IH _ _ _ Hd2 E) as (H1 & H2). rewrite H1, H2.
        pose proof (deferred_not_confirm _ _ Hd1) as H30.
        apply rx_cases in Erx. destruct Erx as [(m & Hs)|[(He & _)|Hs]]; [|contradiction|].
        + unfold h_mtu in Hs. destruct (b_enh (s_b st)); inversion Hs; [auto|]. destruct (DEFAULT_MTU <=? m); auto.
        + destruct Hs as (_ & _ & Hw & Hp & _). auto. }
    destruct (Hnow _ _ _ _ _ _ _ En) as (A1 & A2). destruct (Hlater _ _ _ _ Hd El) as (B1 & B2).
    split; congruence. }
  destruct Hw as (Hw & Hp).
  destruct c.
  - destruct (h_confirm st2) as [st3 r] eqn:Ec. inversion H; subst.
    split; [rewrite len_app; lia|]. split; [apply Forall_app; split; assumption|].
    unfold h_confirm in Ec. destruct (s_pending st2); [|inversion Ec; left; reflexivity].
    destruct (s_waiting st2) as [|p w] eqn:Ew; inversion Ec; subst; [left; reflexivity|].
    right. exists p, w. split; [reflexivity|]. rewrite <- Hw. reflexivity.
  - inversion H; subst. split; [rewrite len_app; lia|]. split; [apply Forall_app; split; assumption|].
    left. reflexivity.
Qed.

Lemma burst_total st l : exists r, burst st l = Some r.
Proof.
  assert (Hl : forall d st, exists r, burst_later st d = Some r).
  { induction d as [|[opc ps] d IH]; intros st0; cbn [burst_later]; [eauto|].
    destruct (rx_total st0 opc ps) as (st1 & out1 & ->). destruct (IH st1) as ([st2 out2] & ->). eauto. }
  assert (Hn : forall l st conf, exists r, burst_now st conf l = Some r).
  { induction l0 as [|[opc ps] l0 IH]; intros st0 conf; cbn [burst_now]; [eauto|].
    destruct (deferred opc ps).
    - destruct (IH st0 conf) as ([[[st1 c1] out1] d1] & ->). eauto.
    - destruct (opc =? OP_CONFIRM); [apply IH|].
      destruct (rx_total st0 opc ps) as (st1 & out1 & ->).
      destruct (IH st1 conf) as ([[[st2 c2] out2] d2] & ->). eauto. }
  unfold burst. destruct (Hn l st false) as ([[[st1 c] out1] d] & ->).
  destruct (Hl d st1) as ([st2 out2] & ->). destruct c; [destruct (h_confirm st2)|]; eauto.
Qed.

(* ------------------------------------------------------------------ C10: the negotiated ATT_MTU *)
Lemma reply_le_negotiated st opc ps local peer :
  In opc spec_requests -> 23 <= local -> 23 <= peer -> mtu_of st = negotiated_mtu local peer ->
  exists st' p, rx st opc ps = Some (st', [p]) /\ len p <= local /\ len p <= peer.
Proof.
  intros Hin Hl Hp Hm. destruct (rx_request_one st opc ps Hin) as (st' & p & Hrx & _ & Hle).
  exists st', p. split; [exact Hrx|]. unfold negotiated_mtu in Hm.
  assert (H : len p <= mtu_of st) by (apply Hle; rewrite Hm; lia). rewrite Hm in H. lia.
Qed.

(* no PDU changes the ATT_MTU of an enhanced bearer *)
Lemma enhanced_mtu_fixed st opc ps st' out :
  b_enh (s_b st) = true -> rx st opc ps = Some (st', out) -> mtu_of st' = mtu_of st.
Proof.
  intros He H. apply rx_cases in H. destruct H as [(m & Hs)|[(_ & Hs)|Hs]].
  - destruct (h_mtu_cases st m) as [(_ & Hc)|(Hf & _)]; [|congruence].
    rewrite Hc in Hs. inversion Hs; reflexivity.
  - unfold h_confirm in Hs. destruct (s_pending st); [destruct (s_waiting st)|]; inversion Hs; reflexivity.
  - destruct Hs as (H1 & _). exact H1.
Qed.

(* on the fixed bearer a well-formed Exchange MTU Request with client_rx_mtu >= 23 is answered
   with server_rx_mtu = max_mtu and the ATT_MTU becomes the minimum of the two values on the wire *)
Lemma fixed_mtu_exchange st x y :
  b_enh (s_b st) = false -> 23 <= x + 256 * y ->
  rx st 2 [x; y] = Some (set_mtu st (negotiated_mtu (s_max_mtu st) (x + 256 * y)),
                         [[OP_MTU_RSP] ++ le16 (s_max_mtu st)]).
Proof.
  intros He Hc. unfold rx, parse_pdu.
  cbn [assoc m_shapes m_handlers Z.eqb Pos.eqb parse_fields option_map to_req handle].
  unfold h_mtu. rewrite He. replace (DEFAULT_MTU <=? x + 256 * y) with true; [reflexivity|].
  symmetry. apply Z.leb_le. exact Hc.
Qed.

(* ------------------------------------------------------------------ an enhanced bearer closes *)
(* frame: closing bearer j touches nothing but bearer j's record *)
Lemma mclose_frame m j i : i <> j -> nth_error (m_bs (mclose m j)) i = nth_error (m_bs m) i.
Proof.
  intros H. unfold mclose. destruct (nth_error (m_bs m) j); [|reflexivity]. cbn [m_bs].
  apply nth_set_other. exact H.
Qed.

Lemma mclose_db m j : m_db (mclose m j) = m_db m /\ m_max_mtu (mclose m j) = m_max_mtu m.
Proof. unfold mclose. destruct (nth_error (m_bs m) j); split; reflexivity. Qed.

(* over every history with closes, the state of bearer i after the history is what results
   from the database and bearer i's own stimuli: every step on another bearer, close
   included, leaves bearer i's record alone *)
Lemma mstep2_frame m x n k out i :
  mstep2 m x = Some (n, k, out) -> i <> k -> nth_error (m_bs n) i = nth_error (m_bs m) i.
Proof.
  intros H Hik. destruct x as [j o|j]; cbn [mstep2] in H.
  - destruct (mstep m j o) as [[n' out']|] eqn:E; [|discriminate]. injection H as <- <- <-.
    eapply mstep_frame; eassumption.
  - injection H as <- <- <-. apply mclose_frame. exact Hik.
Qed.

Lemma mclose_ok m j : Forall (bst_ok m) (m_bs m) -> Forall (bst_ok (mclose m j)) (m_bs (mclose m j)).
Proof.
  intros Hok. unfold mclose. destruct (nth_error (m_bs m) j) as [x|] eqn:E; [|exact Hok].
  cbn [m_bs]. apply Forall_set_nth.
  - eapply Forall_impl; [|exact Hok]. intros y Hy. apply (bst_ok_db m); [reflexivity|exact Hy].
  - assert (Hx : bst_ok m x) by (rewrite Forall_forall in Hok; apply Hok; eapply nth_error_In; exact E).
    destruct Hx as (_ & Hm & Hmax). unfold bst_ok, proj, ind_inv. cbn. repeat split; try assumption. constructor.
Qed.

Lemma mclose_pending m j :
  map bs_pending (m_bs (mclose m j)) = set_nth j false (map bs_pending (m_bs m)).
Proof.
  unfold mclose. destruct (nth_error (m_bs m) j) as [x|] eqn:E.
  - cbn [m_bs]. rewrite map_set_nth. reflexivity.
  - symmetry. apply set_nth_none. rewrite nth_error_map, E. reflexivity.
Qed.

(* one indication outstanding per bearer, over every history in which enhanced bearers also
   close: the close of a bearer clears that bearer's flag only *)
Lemma mrun2_ind_ok ops : forall m n outs,
  Forall (bst_ok m) (m_bs m) -> mrun2 m ops = Some (n, outs) ->
  mind_ok2 (map bs_pending (m_bs m)) ops outs = true.
Proof.
  induction ops as [|x ops IH]; intros m n outs Hok Hr; cbn [mrun2] in Hr.
  - inversion Hr; reflexivity.
  - destruct (mstep2 m x) as [[[m1 k] out]|] eqn:Es; [|discriminate].
    destruct (mrun2 m1 ops) as [[m2 outs2]|] eqn:Er; [|discriminate]. inversion Hr; subst.
    destruct x as [i o|i]; cbn [mstep2] in Es.
    + destruct (mstep m i o) as [[n' out']|] eqn:E; [|discriminate]. injection Es as <- <- <-.
      destruct (mstep_ind m i o n' out' Hok E) as (Hok1 & p' & Hso & Hp).
      cbn [mind_ok2]. rewrite Hso, <- Hp. eapply IH; eassumption.
    + injection Es as <- <- <-. cbn [mind_ok2]. rewrite <- mclose_pending.
      eapply IH; [apply mclose_ok; exact Hok|exact Er].
Qed.
