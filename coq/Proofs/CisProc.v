(* Proofs about Model/CisProc.v: the complete evaluation [cis_all_ok d s] covers every schedule of
   at most d steps over the alphabet whose steps satisfy the hypothesis. *)
From Coq Require Import ZArith List Bool Lia.
From BV Require Import Model.CisProc.
Import ListNotations.
Open Scope Z_scope.

Lemma crun_cons s x xs : fst (crun s (x :: xs)) = fst (crun (fst (cstep s x)) xs).
Proof.
  cbn [crun]. destruct (cstep s x) as [s1 o1]. cbn [fst]. destruct (crun s1 xs) as [s2 o2]. reflexivity.
Qed.

Lemma cis_all_ok_spec d : forall s, cis_all_ok d s = true ->
  forall xs, (length xs <= d)%nat -> Forall (fun o => In o cis_alphabet) xs -> cis_run_ok s xs = true ->
  cconcludes (fst (crun s xs)) = true.
Proof.
  induction d as [|d IH]; intros s A xs L F R.
  - destruct xs; [|cbn in L; lia]. cbn [crun fst]. cbn [cis_all_ok] in A.
    apply andb_true_iff in A. apply A.
  - cbn [cis_all_ok] in A. apply andb_true_iff in A. destruct A as [A1 A2].
    destruct xs as [|x xs]; [exact A1|].
    rewrite crun_cons. inversion F as [|? ? Hx F']; subst.
    cbn [cis_run_ok] in R. apply andb_true_iff in R. destruct R as [R1 R2].
    rewrite forallb_forall in A2. specialize (A2 x Hx). rewrite R1 in A2. cbn in A2.
    apply IH; [exact A2 | cbn in L; lia | exact F' | exact R2].
Qed.

(* the hypothesis is needed: the CIG is removed while the peer's host still has the request; its
   acceptance then finds no link (StopIteration in the controller's link callback) and the
   accepted CIS creation is never concluded *)
Lemma cig_removed_refuted :
  let s := fst (crun c_init [CCmd (SetCig 1 [1]); CCmd (CreateCis 2 1); CToPeer; CCmd (RemoveCig 1);
                             PeerAcceptCis; CToCut]) in
  c_open s = [2] /\ c_to s = [] /\ c_from s = [] /\ cconcludes s = false.
Proof. vm_compute. auto. Qed.

Lemma cis_example :
  cis_groups_obs [[CCmd (SetCig 1 [1; 2])]; [CCmd (CreateCis 2 1)]; [PeerAcceptCis]; [CCmd (CreateCis 3 7)];
                  [CCmd (DisconnectH 2)]; [CCmd (DisconnectH 2)]; [CCmd (CreateCis 3 1); CCmd (DisconnectH 1)];
                  [PeerAcceptCis]]
  = ([[8; 1; 2; 3]; [0; 8292; 0]; [10; 2]; [0; 8292; 18]; [0; 1030; 0]; [3; 2]; [0; 1030; 2]; [0; 8292; 0];
      [0; 1030; 0]; [3; 1]], [], true).
Proof. vm_compute. reflexivity. Qed.
