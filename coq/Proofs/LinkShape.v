(* The reading of bumble/link.py, bumble/controller.py and the connect matching rule of bumble/device.py
   that Model/Link.v was written from, in the vocabulary of tools/translate/c06_shape.py (snapshot taken
   with `python3 tools/translate/c06_shape.py <tree>` when the model was last brought in line with the
   code: /repo at 38d85d7 + fixes/D06d.patch).  Each anchored function is represented by a 64-bit digest
   of its list of facts (the facts are in the comments).  coq/Gen/C06Shape.v is regenerated from the
   source on every run; [shape_matches_source] fails as soon as the shape of one of the anchored
   functions changes, whether or not a generated scenario exercises the changed branch. *)
From Coq Require Import String List Bool ZArith.
From BV Require Import Gen.C06Shape.
Import ListNotations.
Open Scope string_scope.
Open Scope Z_scope.

Definition model_shape : list (string * Z) := [
  (* LocalLink.find_le_controller
     for: controller in self.controllers
     for: connection in controller.le_connections.values()
     call: controller.le_connections.values()
     if: connection.self_address == address
     cmp: connection.self_address == address
     ret: controller
  *)
  ("LocalLink.find_le_controller", 5413053127400995358);
  (* LocalLink.find_classic_controller
     for: controller in self.controllers
     if: controller.public_address == address
     cmp: controller.public_address == address
     ret: controller
  *)
  ("LocalLink.find_classic_controller", 429646256165127465);
  (* LocalLink.send_acl_data
     if: transport == core.PhysicalTransport.LE
     cmp: transport == core.PhysicalTransport.LE
     assign: destination_controller = self.find_le_controller(destination_address)
     call: self.find_le_controller(destination_address)
     assign: connection = sender_controller.le_connections.get(destination_address)
     call: sender_controller.le_connections.get(destination_address)
     assign: source_address = connection.self_address if connection else sender_controller.random_address
     ifexp: connection ? connection.self_address : sender_controller.random_address
     if: transport == core.PhysicalTransport.BR_EDR
     cmp: transport == core.PhysicalTransport.BR_EDR
     assign: destination_controller = self.find_classic_controller(destination_address)
     call: self.find_classic_controller(destination_address)
     assign: source_address = sender_controller.public_address
     raise: ValueError
     call: ValueError()
     if: destination_controller is not None
     cmp: destination_controller is not None
     call: asyncio.get_running_loop().call_soon()
     call: asyncio.get_running_loop()
     call: destination_controller.on_link_acl_data(source_address)
  *)
  ("LocalLink.send_acl_data", 7407290086467607640);
  (* LocalLink.send_advertising_pdu
     assign: loop = asyncio.get_running_loop()
     call: asyncio.get_running_loop()
     for: c in self.controllers
     if: c != sender_controller
     cmp: c != sender_controller
     call: loop.call_soon(c.on_ll_advertising_pdu)
  *)
  ("LocalLink.send_advertising_pdu", 15898183919797505552);
  (* LocalLink.send_ll_control_pdu
     if: not (receiver_controller := self.find_le_controller(receiver_address))
     call: self.find_le_controller(receiver_address)
     call: asyncio.get_running_loop().call_soon()
     call: asyncio.get_running_loop()
     call: receiver_controller.on_ll_control_pdu(sender_address)
  *)
  ("LocalLink.send_ll_control_pdu", 16406082453695796241);
  (* LocalLink.send_lmp_packet
     if: not (receiver_controller := self.find_classic_controller(receiver_address))
     call: self.find_classic_controller(receiver_address)
     call: asyncio.get_running_loop().call_soon()
     call: asyncio.get_running_loop()
     call: receiver_controller.on_lmp_packet(sender_controller.public_address)
  *)
  ("LocalLink.send_lmp_packet", 9926155217920120946);
  (* LegacyAdvertiser.address
     if: self.own_address_type == hci.Address.PUBLIC_DEVICE_ADDRESS
     cmp: self.own_address_type == hci.Address.PUBLIC_DEVICE_ADDRESS
     ret: self.controller.public_address
     ret: self.controller.random_address
  *)
  ("LegacyAdvertiser.address", 9652367011563306876);
  (* LegacyAdvertiser.start
     call: self.stop()
     store: self.enabled
     store: self.timer_handle
     call: asyncio.get_running_loop().call_soon(self._on_timer_fired)
     call: asyncio.get_running_loop()
  *)
  ("LegacyAdvertiser.start", 17360255855530259607);
  (* LegacyAdvertiser.stop
     if: self.timer_handle is not None
     cmp: self.timer_handle is not None
     call: self.timer_handle.cancel()
     store: self.timer_handle
     store: self.enabled
  *)
  ("LegacyAdvertiser.stop", 16123678477092842793);
  (* LegacyAdvertiser.send_advertising_data
     if: not self.enabled
     if: self.advertising_type == hci.HCI_LE_Set_Advertising_Parameters_Command.AdvertisingType.ADV_IND
     cmp: self.advertising_type == hci.HCI_LE_Set_Advertising_Parameters_Command.AdvertisingType.ADV_IND
     call: self.controller.send_advertising_pdu(ll.AdvInd)
     call: ll.AdvInd()
     kw: AdvInd.advertiser_address=self.address
     kw: AdvInd.data=self.advertising_data
     kw: AdvInd.scan_response_data=self.scan_response_data
  *)
  ("LegacyAdvertiser.send_advertising_data", 7016924412609908011);
  (* AdvertisingSet.address
     if: not self.parameters
     if: self.parameters.own_address_type == hci.Address.PUBLIC_DEVICE_ADDRESS
     cmp: self.parameters.own_address_type == hci.Address.PUBLIC_DEVICE_ADDRESS
     ret: self.controller.public_address
     ret: self.random_address
  *)
  ("AdvertisingSet.address", 12698982316492137710);
  (* AdvertisingSet.start
     store: self.enabled
     call: asyncio.get_running_loop().call_soon(self._on_extended_advertising_timer_fired)
     call: asyncio.get_running_loop()
  *)
  ("AdvertisingSet.start", 5482570237409458381);
  (* AdvertisingSet.stop
     store: self.enabled
     if: (timer_handle := self.timer_handle)
     call: timer_handle.cancel()
     store: self.timer_handle
  *)
  ("AdvertisingSet.stop", 12004510233271140754);
  (* AdvertisingSet.send_extended_advertising_data
     if: self.controller.link
     assign: address = self.address
     call: self.controller.send_advertising_pdu(ll.AdvInd)
     call: ll.AdvInd(address)
     call: bytes(self.data)
     call: bytes(self.scan_response_data)
  *)
  ("AdvertisingSet.send_extended_advertising_data", 9570658423885821152);
  (* Connection.on_acl_pdu
     if: self.link
     call: self.link.send_acl_data(self.controller)
  *)
  ("Connection.on_acl_pdu", 9029006020850345490);
  (* Connection.send_ll_control_pdu
     if: self.link
     call: self.link.send_ll_control_pdu()
     kw: send_ll_control_pdu.sender_address=self.self_address
     kw: send_ll_control_pdu.receiver_address=self.peer_address
  *)
  ("Connection.send_ll_control_pdu", 12043365177245204581);
  (* Controller.allocate_connection_handle
     assign: current_handles = set((cast(Connection | CisLink | ScoLink, link).handle for link in itertools.chain(self.le_connections.values(), self.classic_connections.valu...
     call: set()
     call: cast()
     for: link in itertools.chain(self.le_connections.values(), self.classic_connections.values(), self.sco_links.values(), self.central_cis_links.values(), self.peripher...
     call: itertools.chain(self.le_connections.values)
     call: self.le_connections.values()
     call: self.classic_connections.values()
     call: self.sco_links.values()
     call: self.central_cis_links.values()
     call: self.peripheral_cis_links.values()
     ret: next((handle for handle in range(1, 3839 + 1) if handle not in current_handles))
     call: next()
     for: handle in range(1, 3839 + 1)
     call: range()
     cmp: handle not in current_handles
  *)
  ("Controller.allocate_connection_handle", 15101135579088845435);
  (* Controller.find_connection_by_handle
     for: connection in itertools.chain(self.le_connections.values(), self.classic_connections.values())
     call: itertools.chain(self.le_connections.values)
     call: self.le_connections.values()
     call: self.classic_connections.values()
     if: connection.handle == handle
     cmp: connection.handle == handle
     ret: connection
  *)
  ("Controller.find_connection_by_handle", 10773183831676707338);
  (* Controller.find_le_connection_by_handle
     for: connection in self.le_connections.values()
     call: self.le_connections.values()
     if: connection.handle == handle
     cmp: connection.handle == handle
     ret: connection
  *)
  ("Controller.find_le_connection_by_handle", 15814649187147581694);
  (* Controller.find_classic_connection_by_handle
     for: connection in self.classic_connections.values()
     call: self.classic_connections.values()
     if: connection.handle == handle
     cmp: connection.handle == handle
     ret: connection
  *)
  ("Controller.find_classic_connection_by_handle", 6225367290979312928);
  (* Controller.find_classic_sco_link_by_handle
     for: connection in self.sco_links.values()
     call: self.sco_links.values()
     if: connection.handle == handle
     cmp: connection.handle == handle
     ret: connection
  *)
  ("Controller.find_classic_sco_link_by_handle", 12424344692925680429);
  (* Controller.find_iso_link_by_handle
     ret: self.central_cis_links.get(handle) or self.peripheral_cis_links.get(handle)
     call: self.central_cis_links.get(handle)
     call: self.peripheral_cis_links.get(handle)
  *)
  ("Controller.find_iso_link_by_handle", 15748958999323590324);
  (* Controller.send_advertising_pdu
     if: self.link
     call: self.link.send_advertising_pdu(self)
  *)
  ("Controller.send_advertising_pdu", 17297964018721389025);
  (* Controller.on_ll_control_pdu
     if: not (connection := self.le_connections.get(sender_address))
     call: self.le_connections.get(sender_address)
     match: packet
     case: ll.TerminateInd()
     case: ll.CisReq()
     case: ll.CisRsp()
     case: ll.CisInd()
     case: ll.CisTerminateInd()
     case: ll.EncReq()
     case: ll.FeatureReq() | ll.PeripheralFeatureReq()
     case: ll.FeatureRsp(feature_set)
     call: self.on_le_disconnected(connection)
     call: self.on_le_cis_request(connection)
     call: self.on_le_cis_established(packet.cig_id)
     call: connection.send_ll_control_pdu(ll.CisInd)
     call: ll.CisInd(packet.cig_id)
     call: self.on_le_cis_established(packet.cig_id)
     call: self.on_le_cis_disconnected(packet.cig_id)
     call: self.on_le_encrypted(connection)
     call: connection.send_ll_control_pdu(ll.FeatureRsp)
     call: ll.FeatureRsp()
     call: self.le_features.value.to_bytes()
     call: self.send_hci_packet(hci.HCI_LE_Read_Remote_Features_Complete_Event)
     call: hci.HCI_LE_Read_Remote_Features_Complete_Event()
     kw: HCI_LE_Read_Remote_Features_Complete_Event.status=hci.HCI_ErrorCode.SUCCESS
     kw: HCI_LE_Read_Remote_Features_Complete_Event.connection_handle=connection.handle
  *)
  ("Controller.on_ll_control_pdu", 10425833570518480182);
  (* Controller.on_ll_advertising_pdu
     match: packet
     case: ll.ConnectInd()
     case: ll.AdvInd() | ll.AdvExtInd()
     call: self.on_le_connect_ind(packet)
     call: self.on_advertising_pdu(packet)
  *)
  ("Controller.on_ll_advertising_pdu", 7438960913375515692);
  (* Controller.on_le_connect_ind
     if: self.le_legacy_advertiser.address == packet.advertiser_address and self.le_legacy_advertiser.enabled
     cmp: self.le_legacy_advertiser.address == packet.advertiser_address
     assign: advertiser = self.le_legacy_advertiser
     assign: advertiser = next((advertising_set for advertising_set in self.advertising_sets.values() if advertising_set.address == packet.advertiser_address and advertising...
     call: next()
     for: advertising_set in self.advertising_sets.values()
     call: self.advertising_sets.values()
     cmp: advertising_set.address == packet.advertiser_address
     if: not advertiser
     assign: own_addresses = [self.public_address, self.random_address] + [advertising_set.address for advertising_set in self.advertising_sets.values()]
     for: advertising_set in self.advertising_sets.values()
     call: self.advertising_sets.values()
     if: self.link and packet.advertiser_address in own_addresses
     cmp: packet.advertiser_address in own_addresses
     call: self.link.send_ll_control_pdu()
     kw: send_ll_control_pdu.sender_address=packet.advertiser_address
     kw: send_ll_control_pdu.receiver_address=packet.initiator_address
     call: ll.TerminateInd(hci.HCI_ErrorCode.CONNECTION_FAILED_TO_BE_ESTABLISHED_ERROR)
     assign: peer_address = packet.initiator_address
     assign: connection_handle = self.allocate_connection_handle()
     call: self.allocate_connection_handle()
     assign: connection = Connection(controller=self, handle=connection_handle, role=hci.Role.PERIPHERAL, self_address=packet.advertiser_address, peer_address=peer_address, ...
     call: Connection()
     kw: Connection.handle=connection_handle
     kw: Connection.role=hci.Role.PERIPHERAL
     kw: Connection.self_address=packet.advertiser_address
     kw: Connection.peer_address=peer_address
     kw: Connection.transport=PhysicalTransport.LE
     kw: Connection.link_type=hci.HCI_Connection_Complete_Event.LinkType.ACL
     store: self.le_connections[peer_address]
     call: self.send_hci_packet(hci.HCI_LE_Connection_Complete_Event)
     call: hci.HCI_LE_Connection_Complete_Event()
     kw: HCI_LE_Connection_Complete_Event.status=hci.HCI_ErrorCode.SUCCESS
     kw: HCI_LE_Connection_Complete_Event.connection_handle=connection.handle
     kw: HCI_LE_Connection_Complete_Event.role=connection.role
     kw: HCI_LE_Connection_Complete_Event.peer_address=peer_address
     if: isinstance(advertiser, AdvertisingSet)
     call: isinstance(advertiser)
     call: self.send_hci_packet(hci.HCI_LE_Advertising_Set_Terminated_Event)
     call: hci.HCI_LE_Advertising_Set_Terminated_Event()
     kw: HCI_LE_Advertising_Set_Terminated_Event.status=hci.HCI_ErrorCode.SUCCESS
     kw: HCI_LE_Advertising_Set_Terminated_Event.connection_handle=connection.handle
     call: advertiser.stop()
  *)
  ("Controller.on_le_connect_ind", 8725483943223528834);
  (* Controller.on_le_disconnected
     call: self.send_hci_packet(hci.HCI_Disconnection_Complete_Event)
     call: hci.HCI_Disconnection_Complete_Event()
     kw: HCI_Disconnection_Complete_Event.status=hci.HCI_ErrorCode.SUCCESS
     kw: HCI_Disconnection_Complete_Event.connection_handle=connection.handle
     kw: HCI_Disconnection_Complete_Event.reason=reason
     del: self.le_connections[connection.peer_address]
  *)
  ("Controller.on_le_disconnected", 4399931824667567794);
  (* Controller.create_le_connection
     assign: pending_le_connection = self.pending_le_connection
     if: self.le_connections.get(peer_address)
     call: self.le_connections.get(peer_address)
     assign: self_address = self.public_address if pending_le_connection.own_address_type == hci.OwnAddressType.PUBLIC else self.random_address
     ifexp: pending_le_connection.own_address_type == hci.OwnAddressType.PUBLIC ? self.public_address : self.random_address
     cmp: pending_le_connection.own_address_type == hci.OwnAddressType.PUBLIC
     assign: peer_address = pending_le_connection.peer_address
     assign: connection_handle = self.allocate_connection_handle()
     call: self.allocate_connection_handle()
     assign: connection = Connection(controller=self, handle=connection_handle, role=hci.Role.CENTRAL, self_address=self_address, peer_address=peer_address, link=self.link, ...
     call: Connection()
     kw: Connection.handle=connection_handle
     kw: Connection.role=hci.Role.CENTRAL
     kw: Connection.self_address=self_address
     kw: Connection.peer_address=peer_address
     kw: Connection.transport=PhysicalTransport.LE
     kw: Connection.link_type=hci.HCI_Connection_Complete_Event.LinkType.ACL
     store: self.le_connections[peer_address]
     if: isinstance(pending_le_connection, hci.HCI_LE_Extended_Create_Connection_Command)
     call: isinstance(pending_le_connection)
     assign: interval = pending_le_connection.connection_interval_mins[0]
     assign: latency = pending_le_connection.max_latencies[0]
     assign: timeout = pending_le_connection.supervision_timeouts[0]
     assign: interval = pending_le_connection.connection_interval_min
     assign: latency = pending_le_connection.max_latency
     assign: timeout = pending_le_connection.supervision_timeout
     call: self.send_advertising_pdu(ll.ConnectInd)
     call: ll.ConnectInd()
     kw: ConnectInd.initiator_address=self_address
     kw: ConnectInd.advertiser_address=peer_address
     call: self.send_hci_packet(hci.HCI_LE_Connection_Complete_Event)
     call: hci.HCI_LE_Connection_Complete_Event()
     kw: HCI_LE_Connection_Complete_Event.status=hci.HCI_ErrorCode.SUCCESS
     kw: HCI_LE_Connection_Complete_Event.connection_handle=connection.handle if connection else 0
     kw: HCI_LE_Connection_Complete_Event.role=hci.Role.CENTRAL
     kw: HCI_LE_Connection_Complete_Event.peer_address=peer_address
     ifexp: connection ? connection.handle : 0
     store: self.pending_le_connection
  *)
  ("Controller.create_le_connection", 1826407683645829707);
  (* Controller.on_link_acl_data
     if: transport == PhysicalTransport.LE
     cmp: transport == PhysicalTransport.LE
     assign: connection = self.le_connections.get(sender_address)
     call: self.le_connections.get(sender_address)
     assign: connection = self.classic_connections.get(sender_address)
     call: self.classic_connections.get(sender_address)
     if: connection is None
     cmp: connection is None
     assign: max_packet_size = self.acl_data_packet_length
     if: transport == PhysicalTransport.LE and self.le_acl_data_packet_length
     cmp: transport == PhysicalTransport.LE
     assign: max_packet_size = self.le_acl_data_packet_length
     for: offset in range(0, len(data), max_packet_size)
     call: range()
     call: len(data)
     assign: fragment = data[offset:offset + max_packet_size]
     call: self.send_hci_packet(hci.HCI_AclDataPacket)
     call: hci.HCI_AclDataPacket()
     kw: HCI_AclDataPacket.connection_handle=connection.handle
     kw: HCI_AclDataPacket.data=fragment
     ifexp: offset > 0 ? hci.HCI_ACL_PB_CONTINUATION : hci.HCI_ACL_PB_FIRST_FLUSHABLE
     cmp: offset > 0
     call: len(fragment)
  *)
  ("Controller.on_link_acl_data", 5925562521889977005);
  (* Controller.on_advertising_pdu
     if: isinstance(pdu, ll.AdvExtInd)
     call: isinstance(pdu)
     assign: direct_address = pdu.target_address
     assign: direct_address = None
     if: self.le_scan_enable
     if: self.le_features & hci.LeFeatureMask.LE_EXTENDED_ADVERTISING
     assign: ext_report = hci.HCI_LE_Extended_Advertising_Report_Event.Report(event_type=hci.HCI_LE_Extended_Advertising_Report_Event.EventType.CONNECTABLE_ADVERTISING, addr...
     call: hci.HCI_LE_Extended_Advertising_Report_Event.Report()
     kw: Report.data=pdu.data
     ifexp: direct_address ? direct_address.address_type : 0
     call: self.send_hci_packet(hci.HCI_LE_Extended_Advertising_Report_Event)
     call: hci.HCI_LE_Extended_Advertising_Report_Event()
     if: self.le_scan_type == hci.HCI_LE_Set_Scan_Parameters_Command.ACTIVE_SCANNING
     cmp: self.le_scan_type == hci.HCI_LE_Set_Scan_Parameters_Command.ACTIVE_SCANNING
     assign: ext_report = hci.HCI_LE_Extended_Advertising_Report_Event.Report(event_type=hci.HCI_LE_Extended_Advertising_Report_Event.EventType.SCAN_RESPONSE, address_type=p...
     call: hci.HCI_LE_Extended_Advertising_Report_Event.Report()
     kw: Report.data=pdu.scan_response_data
     ifexp: direct_address ? direct_address.address_type : 0
     call: self.send_hci_packet(hci.HCI_LE_Extended_Advertising_Report_Event)
     call: hci.HCI_LE_Extended_Advertising_Report_Event()
     assign: report = hci.HCI_LE_Advertising_Report_Event.Report(event_type=hci.HCI_LE_Advertising_Report_Event.EventType.ADV_IND, address_type=pdu.advertiser_address.addres...
     call: hci.HCI_LE_Advertising_Report_Event.Report()
     kw: Report.data=pdu.data
     call: self.send_hci_packet(hci.HCI_LE_Advertising_Report_Event)
     call: hci.HCI_LE_Advertising_Report_Event()
     if: self.le_scan_type == hci.HCI_LE_Set_Scan_Parameters_Command.ACTIVE_SCANNING
     cmp: self.le_scan_type == hci.HCI_LE_Set_Scan_Parameters_Command.ACTIVE_SCANNING
     assign: report = hci.HCI_LE_Advertising_Report_Event.Report(event_type=hci.HCI_LE_Advertising_Report_Event.EventType.SCAN_RSP, address_type=pdu.advertiser_address.addre...
     call: hci.HCI_LE_Advertising_Report_Event.Report()
     kw: Report.data=pdu.scan_response_data
     call: self.send_hci_packet(hci.HCI_LE_Advertising_Report_Event)
     call: hci.HCI_LE_Advertising_Report_Event()
     if: (pending_le_connection := self.pending_le_connection) and pending_le_connection.peer_address == pdu.advertiser_address
     cmp: pending_le_connection.peer_address == pdu.advertiser_address
     call: self.create_le_connection(pdu.advertiser_address)
  *)
  ("Controller.on_advertising_pdu", 11064814656967358167);
  (* Controller.send_lmp_packet
     assign: loop = asyncio.get_running_loop()
     call: asyncio.get_running_loop()
     call: self.link.send_lmp_packet(self)
     assign: future = loop.create_future()
     store: self.classic_pending_commands.setdefault(receiver_address, {})[packet.opcode]
     call: self.classic_pending_commands.setdefault(receiver_address)
     call: loop.create_future()
     ret: future
  *)
  ("Controller.send_lmp_packet", 980447315541232349);
  (* Controller.on_lmp_packet
     match: packet
     case: lmp.LmpAccepted() | lmp.LmpAcceptedExt()
     case: lmp.LmpNotAccepted() | lmp.LmpNotAcceptedExt()
     case: lmp.LmpHostConnectionReq()
     case: lmp.LmpScoLinkReq()
     case: lmp.LmpEscoLinkReq()
     case: lmp.LmpDetach()
     case: lmp.LmpSwitchReq()
     case: lmp.LmpRemoveScoLinkReq() | lmp.LmpRemoveEscoLinkReq()
     case: lmp.LmpNameReq()
     case: lmp.LmpNameRes()
     case: lmp.LmpFeaturesReq(features)
     case: lmp.LmpFeaturesRes(features)
     case: lmp.LmpFeaturesReqExt(features_page, features)
     case: lmp.LmpFeaturesResExt(features_page, max_features_page, features)
     case: _
     if: (future := self.classic_pending_commands.setdefault(sender_address, {}).get(packet.response_opcode))
     call: self.classic_pending_commands.setdefault(sender_address, {}).get(packet.response_opcode)
     call: self.classic_pending_commands.setdefault(sender_address)
     call: future.set_result(hci.HCI_ErrorCode.SUCCESS)
     if: (future := self.classic_pending_commands.setdefault(sender_address, {}).get(packet.response_opcode))
     call: self.classic_pending_commands.setdefault(sender_address, {}).get(packet.response_opcode)
     call: self.classic_pending_commands.setdefault(sender_address)
     call: future.set_result(packet.error_code)
     call: self.on_classic_connection_request(sender_address)
     call: self.on_classic_connection_request(sender_address)
     call: self.on_classic_connection_request(sender_address)
     call: self.on_classic_disconnected(sender_address)
     call: self.on_classic_role_change_request(sender_address)
     call: self.on_classic_sco_disconnected(sender_address)
     call: self.on_classic_remote_name_request(sender_address)
     call: self.on_classic_remote_name_response(sender_address)
     call: self.send_lmp_packet(sender_address)
     call: lmp.LmpFeaturesRes()
     if: (connection := self.classic_connections.get(sender_address))
     call: self.classic_connections.get(sender_address)
     call: self.send_hci_packet(hci.HCI_Read_Remote_Supported_Features_Complete_Event)
     call: hci.HCI_Read_Remote_Supported_Features_Complete_Event()
     kw: HCI_Read_Remote_Supported_Features_Complete_Event.status=hci.HCI_ErrorCode.SUCCESS
     kw: HCI_Read_Remote_Supported_Features_Complete_Event.connection_handle=connection.handle
     assign: page_start = features_page * 8
     assign: page_end = page_start + 8
     assign: features_bytes = self.lmp_features_bytes
     if: page_start < len(features_bytes)
     cmp: page_start < len(features_bytes)
     call: len(features_bytes)
     assign: page_features = features_bytes[page_start:page_end].ljust(8, b'\x00')
     call: features_bytes[page_start:page_end].ljust()
     assign: page_features = b'\x00' * 8
     call: self.send_lmp_packet(sender_address)
     call: lmp.LmpFeaturesResExt()
     call: len(features_bytes)
     if: (connection := self.classic_connections.get(sender_address))
     call: self.classic_connections.get(sender_address)
     call: self.send_hci_packet(hci.HCI_Read_Remote_Extended_Features_Complete_Event)
     call: hci.HCI_Read_Remote_Extended_Features_Complete_Event()
     kw: HCI_Read_Remote_Extended_Features_Complete_Event.status=hci.HCI_ErrorCode.SUCCESS
     kw: HCI_Read_Remote_Extended_Features_Complete_Event.connection_handle=connection.handle
  *)
  ("Controller.on_lmp_packet", 8080955566660805649);
  (* Controller.on_classic_connection_request
     if: link_type == hci.HCI_Connection_Complete_Event.LinkType.ACL
     cmp: link_type == hci.HCI_Connection_Complete_Event.LinkType.ACL
     store: self.classic_connections[peer_address]
     call: Connection()
     kw: Connection.handle=0
     kw: Connection.role=hci.Role.PERIPHERAL
     kw: Connection.self_address=self.public_address
     kw: Connection.peer_address=peer_address
     kw: Connection.transport=PhysicalTransport.BR_EDR
     kw: Connection.link_type=link_type
     store: self.sco_links[peer_address]
     call: ScoLink()
     kw: ScoLink.handle=0
     kw: ScoLink.link_type=link_type
     kw: ScoLink.peer_address=peer_address
     call: self.send_hci_packet(hci.HCI_Connection_Request_Event)
     call: hci.HCI_Connection_Request_Event()
     kw: HCI_Connection_Request_Event.bd_addr=peer_address
  *)
  ("Controller.on_classic_connection_request", 9697886619156285694);
  (* Controller.on_classic_connection_complete
     if: status == hci.HCI_ErrorCode.SUCCESS
     cmp: status == hci.HCI_ErrorCode.SUCCESS
     assign: peer_address = peer_address
     assign: connection_handle = self.allocate_connection_handle()
     call: self.allocate_connection_handle()
     if: (connection := self.classic_connections.get(peer_address))
     call: self.classic_connections.get(peer_address)
     store: connection.handle
     assign: connection = Connection(controller=self, handle=connection_handle, role=hci.Role.CENTRAL, self_address=self.public_address, peer_address=peer_address, link=self...
     call: Connection()
     kw: Connection.handle=connection_handle
     kw: Connection.role=hci.Role.CENTRAL
     kw: Connection.self_address=self.public_address
     kw: Connection.peer_address=peer_address
     kw: Connection.transport=PhysicalTransport.BR_EDR
     kw: Connection.link_type=hci.HCI_Connection_Complete_Event.LinkType.ACL
     store: self.classic_connections[peer_address]
     call: self.send_hci_packet(hci.HCI_Connection_Complete_Event)
     call: hci.HCI_Connection_Complete_Event()
     kw: HCI_Connection_Complete_Event.status=status
     kw: HCI_Connection_Complete_Event.connection_handle=connection_handle
     kw: HCI_Connection_Complete_Event.bd_addr=peer_address
     assign: connection = None
     call: self.send_hci_packet(hci.HCI_Connection_Complete_Event)
     call: hci.HCI_Connection_Complete_Event()
     kw: HCI_Connection_Complete_Event.status=status
     kw: HCI_Connection_Complete_Event.connection_handle=0
     kw: HCI_Connection_Complete_Event.bd_addr=peer_address
  *)
  ("Controller.on_classic_connection_complete", 16772764026146654920);
  (* Controller.on_classic_disconnected
     if: (connection := self.classic_connections.pop(peer_address, None))
     call: self.classic_connections.pop(peer_address)
     call: self.send_hci_packet(hci.HCI_Disconnection_Complete_Event)
     call: hci.HCI_Disconnection_Complete_Event()
     kw: HCI_Disconnection_Complete_Event.status=hci.HCI_ErrorCode.SUCCESS
     kw: HCI_Disconnection_Complete_Event.connection_handle=connection.handle
     kw: HCI_Disconnection_Complete_Event.reason=reason
  *)
  ("Controller.on_classic_disconnected", 15394477266246358125);
  (* Controller.on_classic_sco_disconnected
     if: (sco_link := self.sco_links.pop(peer_address, None))
     call: self.sco_links.pop(peer_address)
     call: self.send_hci_packet(hci.HCI_Disconnection_Complete_Event)
     call: hci.HCI_Disconnection_Complete_Event()
     kw: HCI_Disconnection_Complete_Event.status=hci.HCI_ErrorCode.SUCCESS
     kw: HCI_Disconnection_Complete_Event.connection_handle=sco_link.handle
     kw: HCI_Disconnection_Complete_Event.reason=reason
  *)
  ("Controller.on_classic_sco_disconnected", 9405430768711176554);
  (* Controller.on_classic_sco_connection_complete
     if: status == hci.HCI_ErrorCode.SUCCESS
     cmp: status == hci.HCI_ErrorCode.SUCCESS
     assign: connection_handle = self.allocate_connection_handle()
     call: self.allocate_connection_handle()
     assign: sco_link = ScoLink(handle=connection_handle, link_type=link_type, peer_address=peer_address)
     call: ScoLink()
     kw: ScoLink.handle=connection_handle
     kw: ScoLink.link_type=link_type
     kw: ScoLink.peer_address=peer_address
     store: self.sco_links[peer_address]
     assign: connection_handle = 0
     call: self.send_hci_packet(hci.HCI_Synchronous_Connection_Complete_Event)
     call: hci.HCI_Synchronous_Connection_Complete_Event()
     kw: HCI_Synchronous_Connection_Complete_Event.status=status
     kw: HCI_Synchronous_Connection_Complete_Event.connection_handle=connection_handle
     kw: HCI_Synchronous_Connection_Complete_Event.bd_addr=peer_address
  *)
  ("Controller.on_classic_sco_connection_complete", 2051035541801284186);
  (* Controller.on_hci_create_connection_command
     if: self.link is None
     cmp: self.link is None
     call: self._send_hci_command_status(hci.HCI_ErrorCode.COMMAND_DISALLOWED_ERROR)
     if: self.pending_le_connection
     call: self._send_hci_command_status(hci.HCI_ErrorCode.CONTROLLER_BUSY_ERROR)
     assign: connection = self.classic_connections.get(command.bd_addr)
     call: self.classic_connections.get(command.bd_addr)
     assign: pending_request = self.classic_pending_commands.get(command.bd_addr, {}).get(lmp.Opcode.LMP_HOST_CONNECTION_REQ)
     call: self.classic_pending_commands.get(command.bd_addr, {}).get(lmp.Opcode.LMP_HOST_CONNECTION_REQ)
     call: self.classic_pending_commands.get(command.bd_addr)
     if: connection and connection.handle != 0 or (pending_request and (not pending_request.done()))
     cmp: connection.handle != 0
     call: pending_request.done()
     call: self._send_hci_command_status(hci.HCI_ErrorCode.CONNECTION_ALREADY_EXISTS_ERROR)
     store: self.classic_connections[command.bd_addr]
     call: Connection()
     kw: Connection.handle=0
     kw: Connection.role=hci.Role.CENTRAL
     kw: Connection.self_address=self.public_address
     kw: Connection.peer_address=command.bd_addr
     kw: Connection.transport=PhysicalTransport.BR_EDR
     kw: Connection.link_type=hci.HCI_Connection_Complete_Event.LinkType.ACL
     call: bool(command.allow_role_switch)
     call: self._send_hci_command_status(hci.HCI_COMMAND_STATUS_PENDING)
     if: self.link.find_classic_controller(command.bd_addr) is None
     cmp: self.link.find_classic_controller(command.bd_addr) is None
     call: self.link.find_classic_controller(command.bd_addr)
     del: self.classic_connections[command.bd_addr]
     call: self.on_classic_connection_complete(command.bd_addr)
     assign: future = self.send_lmp_packet(command.bd_addr, lmp.LmpHostConnectionReq())
     call: self.send_lmp_packet(command.bd_addr)
     call: lmp.LmpHostConnectionReq()
     call: self.on_classic_connection_complete(command.bd_addr)
     call: future.result()
     call: future.add_done_callback(on_response)
  *)
  ("Controller.on_hci_create_connection_command", 5273534202166325376);
  (* Controller.on_hci_disconnect_command
     assign: handle = command.connection_handle
     if: not (self.find_connection_by_handle(handle) or self.find_classic_sco_link_by_handle(handle) or ((iso_link := self.find_iso_link_by_handle(handle)) and iso_link....
     call: self.find_connection_by_handle(handle)
     call: self.find_classic_sco_link_by_handle(handle)
     call: self.find_iso_link_by_handle(handle)
     call: self._send_hci_command_status(hci.HCI_ErrorCode.UNKNOWN_CONNECTION_IDENTIFIER_ERROR)
     call: self._send_hci_command_status(hci.HCI_COMMAND_STATUS_PENDING)
     if: (connection := self.find_classic_connection_by_handle(handle))
     call: self.find_classic_connection_by_handle(handle)
     if: self.link
     call: self.send_lmp_packet(connection.peer_address)
     call: lmp.LmpDetach(command.reason)
     call: self.on_classic_disconnected(connection.peer_address)
     del: self.classic_connections[connection.peer_address]
     if: (connection := self.find_le_connection_by_handle(handle))
     call: self.find_le_connection_by_handle(handle)
     if: self.link
     call: connection.send_ll_control_pdu(ll.TerminateInd)
     call: ll.TerminateInd(command.reason)
     call: self.on_le_disconnected(connection)
     del: self.le_connections[connection.peer_address]
     if: (sco_link := self.find_classic_sco_link_by_handle(handle))
     call: self.find_classic_sco_link_by_handle(handle)
     if: self.link
     if: sco_link.link_type == hci.HCI_Connection_Complete_Event.LinkType.ESCO
     cmp: sco_link.link_type == hci.HCI_Connection_Complete_Event.LinkType.ESCO
     call: self.send_lmp_packet(sco_link.peer_address)
     call: lmp.LmpRemoveScoLinkReq()
     call: self.send_lmp_packet(sco_link.peer_address)
     call: lmp.LmpRemoveEscoLinkReq()
     call: self.on_classic_sco_disconnected(sco_link.peer_address)
     del: self.sco_links[sco_link.peer_address]
     if: (cis_link := (self.central_cis_links.get(handle) or self.peripheral_cis_links.get(handle)))
     call: self.central_cis_links.get(handle)
     call: self.peripheral_cis_links.get(handle)
     if: self.link and cis_link.acl_connection
     call: cis_link.acl_connection.send_ll_control_pdu(ll.CisTerminateInd)
     call: ll.CisTerminateInd(cis_link.cig_id)
     call: self.on_le_cis_disconnected(cis_link.cig_id)
  *)
  ("Controller.on_hci_disconnect_command", 10589878801261362490);
  (* Controller.on_hci_accept_connection_request_command
     if: self.link is None
     cmp: self.link is None
     call: self._send_hci_command_status(hci.HCI_ErrorCode.COMMAND_DISALLOWED_ERROR)
     if: not (connection := self.classic_connections.get(command.bd_addr))
     call: self.classic_connections.get(command.bd_addr)
     call: self._send_hci_command_status(hci.HCI_ErrorCode.UNKNOWN_CONNECTION_IDENTIFIER_ERROR)
     call: self._send_hci_command_status(hci.HCI_ErrorCode.SUCCESS)
     if: command.role == hci.Role.CENTRAL
     cmp: command.role == hci.Role.CENTRAL
     assign: future = self.send_lmp_packet(command.bd_addr, lmp.LmpSwitchReq())
     call: self.send_lmp_packet(command.bd_addr)
     call: lmp.LmpSwitchReq()
     if: (status := future.result()) == hci.HCI_ErrorCode.SUCCESS
     cmp: (status := future.result()) == hci.HCI_ErrorCode.SUCCESS
     call: future.result()
     call: self.classic_role_change(connection)
     call: self.send_lmp_packet(command.bd_addr)
     call: lmp.LmpAccepted(lmp.Opcode.LMP_HOST_CONNECTION_REQ)
     call: self.send_lmp_packet(command.bd_addr)
     call: lmp.LmpNotAccepted(lmp.Opcode.LMP_HOST_CONNECTION_REQ)
     call: self.on_classic_connection_complete(command.bd_addr)
     call: future.add_done_callback(on_response)
     call: self.send_lmp_packet(command.bd_addr)
     call: lmp.LmpAccepted(lmp.Opcode.LMP_HOST_CONNECTION_REQ)
     call: self.on_classic_connection_complete(command.bd_addr)
  *)
  ("Controller.on_hci_accept_connection_request_command", 16031312442523370681);
  (* Controller.on_hci_enhanced_setup_synchronous_connection_command
     if: self.link is None
     cmp: self.link is None
     call: self._send_hci_command_status(hci.HCI_ErrorCode.COMMAND_DISALLOWED_ERROR)
     if: not (connection := self.find_connection_by_handle(command.connection_handle))
     call: self.find_connection_by_handle(command.connection_handle)
     call: self._send_hci_command_status(hci.HCI_ErrorCode.UNKNOWN_CONNECTION_IDENTIFIER_ERROR)
     call: self._send_hci_command_status(hci.HCI_ErrorCode.SUCCESS)
     assign: future = self.send_lmp_packet(connection.peer_address, lmp.LmpEscoLinkReq(esco_handle=0, esco_lt_addr=0, timing_control_flags=0, d_esco=0, t_esco=0, w_esco=0, e...
     call: self.send_lmp_packet(connection.peer_address)
     call: lmp.LmpEscoLinkReq()
     call: self.on_classic_sco_connection_complete(connection.peer_address)
     call: future.result()
     call: future.add_done_callback(on_response)
  *)
  ("Controller.on_hci_enhanced_setup_synchronous_connection_command", 1668893825123505240);
  (* Controller.on_hci_enhanced_accept_synchronous_connection_request_command
     if: self.link is None
     cmp: self.link is None
     call: self._send_hci_command_status(hci.HCI_ErrorCode.COMMAND_DISALLOWED_ERROR)
     if: not (connection := self.classic_connections.get(command.bd_addr))
     call: self.classic_connections.get(command.bd_addr)
     call: self._send_hci_command_status(hci.HCI_ErrorCode.UNKNOWN_CONNECTION_IDENTIFIER_ERROR)
     call: self._send_hci_command_status(hci.HCI_ErrorCode.SUCCESS)
     call: self.send_lmp_packet(connection.peer_address)
     call: lmp.LmpAcceptedExt(lmp.Opcode.LMP_ESCO_LINK_REQ)
     call: self.on_classic_sco_connection_complete(connection.peer_address)
  *)
  ("Controller.on_hci_enhanced_accept_synchronous_connection_request_command", 6800794919225542676);
  (* Controller.on_hci_le_set_random_address_command
     store: self.random_address
     ret: hci.HCI_StatusReturnParameters(hci.HCI_ErrorCode.SUCCESS)
     call: hci.HCI_StatusReturnParameters(hci.HCI_ErrorCode.SUCCESS)
  *)
  ("Controller.on_hci_le_set_random_address_command", 3644737557493804792);
  (* Controller.on_hci_le_set_advertising_parameters_command
     store: self.le_legacy_advertiser.advertising_interval_min
     store: self.le_legacy_advertiser.advertising_interval_max
     store: self.le_legacy_advertiser.advertising_type
     store: self.le_legacy_advertiser.own_address_type
     store: self.le_legacy_advertiser.peer_address_type
     store: self.le_legacy_advertiser.peer_address
     store: self.le_legacy_advertiser.advertising_channel_map
     store: self.le_legacy_advertiser.advertising_filter_policy
     ret: hci.HCI_StatusReturnParameters(hci.HCI_ErrorCode.SUCCESS)
     call: hci.HCI_StatusReturnParameters(hci.HCI_ErrorCode.SUCCESS)
  *)
  ("Controller.on_hci_le_set_advertising_parameters_command", 10091988365689606304);
  (* Controller.on_hci_le_set_advertising_data_command
     store: self.le_legacy_advertiser.advertising_data
     ret: hci.HCI_StatusReturnParameters(hci.HCI_ErrorCode.SUCCESS)
     call: hci.HCI_StatusReturnParameters(hci.HCI_ErrorCode.SUCCESS)
  *)
  ("Controller.on_hci_le_set_advertising_data_command", 2040355648878467626);
  (* Controller.on_hci_le_set_scan_response_data_command
     store: self.le_legacy_advertiser.scan_response_data
     ret: hci.HCI_StatusReturnParameters(hci.HCI_ErrorCode.SUCCESS)
     call: hci.HCI_StatusReturnParameters(hci.HCI_ErrorCode.SUCCESS)
  *)
  ("Controller.on_hci_le_set_scan_response_data_command", 1129462474439295052);
  (* Controller.on_hci_le_set_advertising_enable_command
     if: command.advertising_enable
     call: self.le_legacy_advertiser.start()
     call: self.le_legacy_advertiser.stop()
     ret: hci.HCI_StatusReturnParameters(hci.HCI_ErrorCode.SUCCESS)
     call: hci.HCI_StatusReturnParameters(hci.HCI_ErrorCode.SUCCESS)
  *)
  ("Controller.on_hci_le_set_advertising_enable_command", 13114376921749413902);
  (* Controller.on_hci_le_set_scan_parameters_command
     if: self.le_scan_enable
     ret: hci.HCI_StatusReturnParameters(hci.HCI_ErrorCode.COMMAND_DISALLOWED_ERROR)
     call: hci.HCI_StatusReturnParameters(hci.HCI_ErrorCode.COMMAND_DISALLOWED_ERROR)
     store: self.le_scan_type
     store: self.le_scan_interval
     store: self.le_scan_window
     store: self.le_scan_own_address_type
     call: hci.AddressType(command.own_address_type)
     store: self.le_scanning_filter_policy
     ret: hci.HCI_StatusReturnParameters(hci.HCI_ErrorCode.SUCCESS)
     call: hci.HCI_StatusReturnParameters(hci.HCI_ErrorCode.SUCCESS)
  *)
  ("Controller.on_hci_le_set_scan_parameters_command", 5417435778851526447);
  (* Controller.on_hci_le_set_scan_enable_command
     store: self.le_scan_enable
     call: bool(command.le_scan_enable)
     store: self.filter_duplicates
     call: bool(command.filter_duplicates)
     ret: hci.HCI_StatusReturnParameters(hci.HCI_ErrorCode.SUCCESS)
     call: hci.HCI_StatusReturnParameters(hci.HCI_ErrorCode.SUCCESS)
  *)
  ("Controller.on_hci_le_set_scan_enable_command", 3847558390971497931);
  (* Controller.on_hci_le_create_connection_command
     if: not self.link
     call: self._send_hci_command_status(hci.HCI_ErrorCode.COMMAND_DISALLOWED_ERROR)
     if: self.pending_le_connection
     call: self._send_hci_command_status(hci.HCI_ErrorCode.COMMAND_DISALLOWED_ERROR)
     store: self.pending_le_connection
     call: self._send_hci_command_status(hci.HCI_COMMAND_STATUS_PENDING)
  *)
  ("Controller.on_hci_le_create_connection_command", 12963574250219309314);
  (* Controller.on_hci_le_create_connection_cancel_command
     if: (pending_le_connection := self.pending_le_connection) is None
     cmp: (pending_le_connection := self.pending_le_connection) is None
     ret: hci.HCI_StatusReturnParameters(hci.HCI_ErrorCode.COMMAND_DISALLOWED_ERROR)
     call: hci.HCI_StatusReturnParameters(hci.HCI_ErrorCode.COMMAND_DISALLOWED_ERROR)
     store: self.pending_le_connection
     call: asyncio.get_running_loop().call_soon(self.send_hci_packet)
     call: asyncio.get_running_loop()
     call: hci.HCI_LE_Connection_Complete_Event()
     kw: HCI_LE_Connection_Complete_Event.status=hci.HCI_ErrorCode.UNKNOWN_CONNECTION_IDENTIFIER_ERROR
     kw: HCI_LE_Connection_Complete_Event.connection_handle=0
     kw: HCI_LE_Connection_Complete_Event.role=hci.Role.CENTRAL
     kw: HCI_LE_Connection_Complete_Event.peer_address=pending_le_connection.peer_address
     ret: hci.HCI_StatusReturnParameters(hci.HCI_ErrorCode.SUCCESS)
     call: hci.HCI_StatusReturnParameters(hci.HCI_ErrorCode.SUCCESS)
  *)
  ("Controller.on_hci_le_create_connection_cancel_command", 6241368601751599327);
  (* Controller.on_hci_le_extended_create_connection_command
     if: not self.link
     call: self._send_hci_command_status(hci.HCI_ErrorCode.COMMAND_DISALLOWED_ERROR)
     if: self.pending_le_connection
     call: self._send_hci_command_status(hci.HCI_ErrorCode.COMMAND_DISALLOWED_ERROR)
     store: self.pending_le_connection
     call: self._send_hci_command_status(hci.HCI_COMMAND_STATUS_PENDING)
  *)
  ("Controller.on_hci_le_extended_create_connection_command", 12963574250219309314);
  (* Controller.on_hci_le_set_advertising_set_random_address_command
     assign: handle = command.advertising_handle
     if: handle not in self.advertising_sets
     cmp: handle not in self.advertising_sets
     store: self.advertising_sets[handle]
     call: AdvertisingSet()
     store: self.advertising_sets[handle].random_address
     ret: hci.HCI_StatusReturnParameters(hci.HCI_ErrorCode.SUCCESS)
     call: hci.HCI_StatusReturnParameters(hci.HCI_ErrorCode.SUCCESS)
  *)
  ("Controller.on_hci_le_set_advertising_set_random_address_command", 18218694470121208968);
  (* Controller.on_hci_le_set_extended_advertising_parameters_command
     assign: handle = command.advertising_handle
     if: handle not in self.advertising_sets
     cmp: handle not in self.advertising_sets
     store: self.advertising_sets[handle]
     call: AdvertisingSet()
     store: self.advertising_sets[handle].parameters
     ret: hci.HCI_LE_Set_Extended_Advertising_Parameters_ReturnParameters(status=hci.HCI_ErrorCode.SUCCESS, selected_tx_power=0)
     call: hci.HCI_LE_Set_Extended_Advertising_Parameters_ReturnParameters()
     kw: HCI_LE_Set_Extended_Advertising_Parameters_ReturnParameters.status=hci.HCI_ErrorCode.SUCCESS
  *)
  ("Controller.on_hci_le_set_extended_advertising_parameters_command", 4451899329040827968);
  (* Controller.on_hci_le_set_extended_advertising_data_command
     assign: handle = command.advertising_handle
     if: not (adv_set := self.advertising_sets.get(handle))
     call: self.advertising_sets.get(handle)
     ret: hci.HCI_StatusReturnParameters(hci.HCI_ErrorCode.UNKNOWN_ADVERTISING_IDENTIFIER_ERROR)
     call: hci.HCI_StatusReturnParameters(hci.HCI_ErrorCode.UNKNOWN_ADVERTISING_IDENTIFIER_ERROR)
     if: command.operation in (hci.HCI_LE_Set_Extended_Advertising_Data_Command.Operation.FIRST_FRAGMENT, hci.HCI_LE_Set_Extended_Advertising_Data_Command.Operation.COMP...
     cmp: command.operation in (hci.HCI_LE_Set_Extended_Advertising_Data_Command.Operation.FIRST_FRAGMENT, hci.HCI_LE_Set_Extended_Advertising_Data_Command.Operation.COMP...
     store: adv_set.data
     call: bytearray(command.advertising_data)
     if: command.operation in (hci.HCI_LE_Set_Extended_Advertising_Data_Command.Operation.INTERMEDIATE_FRAGMENT, hci.HCI_LE_Set_Extended_Advertising_Data_Command.Operati...
     cmp: command.operation in (hci.HCI_LE_Set_Extended_Advertising_Data_Command.Operation.INTERMEDIATE_FRAGMENT, hci.HCI_LE_Set_Extended_Advertising_Data_Command.Operati...
     call: adv_set.data.extend(command.advertising_data)
     ret: hci.HCI_StatusReturnParameters(hci.HCI_ErrorCode.SUCCESS)
     call: hci.HCI_StatusReturnParameters(hci.HCI_ErrorCode.SUCCESS)
  *)
  ("Controller.on_hci_le_set_extended_advertising_data_command", 9503588154452218113);
  (* Controller.on_hci_le_set_extended_scan_response_data_command
     assign: handle = command.advertising_handle
     if: not (adv_set := self.advertising_sets.get(handle))
     call: self.advertising_sets.get(handle)
     ret: hci.HCI_StatusReturnParameters(hci.HCI_ErrorCode.UNKNOWN_ADVERTISING_IDENTIFIER_ERROR)
     call: hci.HCI_StatusReturnParameters(hci.HCI_ErrorCode.UNKNOWN_ADVERTISING_IDENTIFIER_ERROR)
     if: command.operation in (hci.HCI_LE_Set_Extended_Advertising_Data_Command.Operation.FIRST_FRAGMENT, hci.HCI_LE_Set_Extended_Advertising_Data_Command.Operation.COMP...
     cmp: command.operation in (hci.HCI_LE_Set_Extended_Advertising_Data_Command.Operation.FIRST_FRAGMENT, hci.HCI_LE_Set_Extended_Advertising_Data_Command.Operation.COMP...
     store: adv_set.scan_response_data
     call: bytearray(command.scan_response_data)
     if: command.operation in (hci.HCI_LE_Set_Extended_Advertising_Data_Command.Operation.INTERMEDIATE_FRAGMENT, hci.HCI_LE_Set_Extended_Advertising_Data_Command.Operati...
     cmp: command.operation in (hci.HCI_LE_Set_Extended_Advertising_Data_Command.Operation.INTERMEDIATE_FRAGMENT, hci.HCI_LE_Set_Extended_Advertising_Data_Command.Operati...
     call: adv_set.scan_response_data.extend(command.scan_response_data)
     ret: hci.HCI_StatusReturnParameters(hci.HCI_ErrorCode.SUCCESS)
     call: hci.HCI_StatusReturnParameters(hci.HCI_ErrorCode.SUCCESS)
  *)
  ("Controller.on_hci_le_set_extended_scan_response_data_command", 1231114953876480797);
  (* Controller.on_hci_le_set_extended_advertising_enable_command
     if: command.enable
     for: handle in command.advertising_handles
     if: (advertising_set := self.advertising_sets.get(handle))
     call: self.advertising_sets.get(handle)
     call: advertising_set.start()
     if: not command.advertising_handles
     for: advertising_set in self.advertising_sets.values()
     call: self.advertising_sets.values()
     call: advertising_set.stop()
     for: handle in command.advertising_handles
     if: (advertising_set := self.advertising_sets.get(handle))
     call: self.advertising_sets.get(handle)
     call: advertising_set.stop()
     ret: hci.HCI_StatusReturnParameters(hci.HCI_ErrorCode.SUCCESS)
     call: hci.HCI_StatusReturnParameters(hci.HCI_ErrorCode.SUCCESS)
  *)
  ("Controller.on_hci_le_set_extended_advertising_enable_command", 15188625016918209752);
  (* Controller.on_hci_le_remove_advertising_set_command
     assign: handle = command.advertising_handle
     if: (advertising_set := self.advertising_sets.pop(handle, None))
     call: self.advertising_sets.pop(handle)
     call: advertising_set.stop()
     ret: hci.HCI_StatusReturnParameters(hci.HCI_ErrorCode.SUCCESS)
     call: hci.HCI_StatusReturnParameters(hci.HCI_ErrorCode.SUCCESS)
  *)
  ("Controller.on_hci_le_remove_advertising_set_command", 11380090305829568428);
  (* Controller.on_hci_le_clear_advertising_sets_command
     for: advertising_set in self.advertising_sets.values()
     call: self.advertising_sets.values()
     call: advertising_set.stop()
     call: self.advertising_sets.clear()
     ret: hci.HCI_StatusReturnParameters(hci.HCI_ErrorCode.SUCCESS)
     call: hci.HCI_StatusReturnParameters(hci.HCI_ErrorCode.SUCCESS)
  *)
  ("Controller.on_hci_le_clear_advertising_sets_command", 7524335604591762150);
  (* Controller.on_hci_le_set_cig_parameters_command
     assign: cis_links = list(self.central_cis_links.items())
     call: list(self.central_cis_links.items)
     call: self.central_cis_links.items()
     for: (handle, cis_link) in cis_links
     if: cis_link.cig_id == command.cig_id
     cmp: cis_link.cig_id == command.cig_id
     call: self.central_cis_links.pop(handle)
     assign: handles = []
     for: cis_id in command.cis_id
     assign: handle = self.allocate_connection_handle()
     call: self.allocate_connection_handle()
     call: handles.append(handle)
     store: self.central_cis_links[handle]
     call: CisLink()
     kw: CisLink.cis_id=cis_id
     kw: CisLink.cig_id=command.cig_id
     kw: CisLink.handle=handle
     ret: hci.HCI_LE_Set_CIG_Parameters_ReturnParameters(status=hci.HCI_ErrorCode.SUCCESS, cig_id=command.cig_id, connection_handle=handles)
     call: hci.HCI_LE_Set_CIG_Parameters_ReturnParameters()
     kw: HCI_LE_Set_CIG_Parameters_ReturnParameters.status=hci.HCI_ErrorCode.SUCCESS
     kw: HCI_LE_Set_CIG_Parameters_ReturnParameters.connection_handle=handles
  *)
  ("Controller.on_hci_le_set_cig_parameters_command", 6176857227976206811);
  (* Controller.on_hci_le_remove_cig_command
     assign: status = hci.HCI_ErrorCode.INVALID_COMMAND_PARAMETERS_ERROR
     assign: cis_links = list(self.central_cis_links.items())
     call: list(self.central_cis_links.items)
     call: self.central_cis_links.items()
     for: (cis_handle, cis_link) in cis_links
     if: cis_link.cig_id == command.cig_id
     cmp: cis_link.cig_id == command.cig_id
     call: self.central_cis_links.pop(cis_handle)
     assign: status = hci.HCI_ErrorCode.SUCCESS
     ret: hci.HCI_LE_Remove_CIG_ReturnParameters(status, command.cig_id)
     call: hci.HCI_LE_Remove_CIG_ReturnParameters(status)
  *)
  ("Controller.on_hci_le_remove_cig_command", 12825918979954503091);
  (* Device.connect_le.on_connection
     if: connection.transport == PhysicalTransport.LE and connection.role == hci.Role.CENTRAL
     cmp: connection.transport == PhysicalTransport.LE
     cmp: connection.role == hci.Role.CENTRAL
     call: pending_connection.set_result(connection)
  *)
  ("Device.connect_le.on_connection", 8766349562856872024);
  (* Device.connect_le.on_connection_failure
     if: error.transport == PhysicalTransport.LE
     cmp: error.transport == PhysicalTransport.LE
     call: pending_connection.set_exception(error)
  *)
  ("Device.connect_le.on_connection_failure", 13483103672606299892);
  (* Device.connect_classic.on_connection
     if: connection.transport == PhysicalTransport.BR_EDR and connection.peer_address == peer_address
     cmp: connection.transport == PhysicalTransport.BR_EDR
     cmp: connection.peer_address == peer_address
     call: pending_connection.set_result(connection)
  *)
  ("Device.connect_classic.on_connection", 7172809842892529309);
  (* Device.connect_classic.on_connection_failure
     if: error.transport == PhysicalTransport.BR_EDR and error.peer_address == peer_address
     cmp: error.transport == PhysicalTransport.BR_EDR
     cmp: error.peer_address == peer_address
     call: pending_connection.set_exception(error)
  *)
  ("Device.connect_classic.on_connection_failure", 7479593034150988394)
].

(* the names of the anchored functions whose shape differs *)
Fixpoint shape_diff (a b : list (string * Z)) : list string :=
  match a with
  | [] => map fst b
  | (f, x) :: a' =>
      match b with
      | [] => map fst a
      | (g, y) :: b' => (if andb (String.eqb f g) (Z.eqb x y) then [] else [f]) ++ shape_diff a' b'
      end
  end.

Lemma shape_matches_source : shape_diff code_shape model_shape = [].
Proof. vm_compute. reflexivity. Qed.
