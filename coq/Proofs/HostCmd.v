(* Proofs about Model/HostCmd.v: under the controller contract (one reply per command, in
   order, at least one credit) the host has at most one command outstanding, every caller is
   resumed with the response to its own opcode, and nobody is left waiting at quiescence. *)
From Coq Require Import ZArith List Bool Lia Arith.
From BV Require Import Model.HostCmd.
Import ListNotations.
Open Scope Z_scope.

(* ------------------------------------------------------------------ helpers on the caller list *)
Lemma map_id_set_phase c ph l : map c_id (set_phase c ph l) = map c_id l.
Proof.
  unfold set_phase. rewrite map_map. apply map_ext. intros x. destruct (has_id c x); reflexivity.
Qed.

Lemma known_false c l : known c l = false -> ~ In c (map c_id l).
Proof.
  unfold known. intros H Hin. apply in_map_iff in Hin. destruct Hin as [x [Hx Hin]].
  assert (existsb (has_id c) l = true) as E.
  { apply existsb_exists. exists x. split; [exact Hin|]. unfold has_id. now apply Z.eqb_eq. }
  congruence.
Qed.

Lemma find_waiting_spec c l x :
  find_waiting c l = Some x -> In x l /\ c_id x = c /\ c_phase x = WaitSem.
Proof.
  unfold find_waiting. intros H. apply find_some in H. destruct H as [Hin H].
  apply andb_true_iff in H. destruct H as [H1 H2]. unfold has_id in H1. apply Z.eqb_eq in H1.
  unfold is_wait_sem in H2. destruct (c_phase x); try discriminate. auto.
Qed.

Lemma unique_id l : NoDup (map c_id l) -> forall x y, In x l -> In y l -> c_id x = c_id y -> x = y.
Proof.
  induction l as [|a l IH]; cbn; intros ND x y Hx Hy E; [tauto|].
  inversion ND as [|? ? Hn ND']; subst.
  destruct Hx as [->|Hx], Hy as [->|Hy]; auto.
  - exfalso. apply Hn. rewrite E. now apply in_map.
  - exfalso. apply Hn. rewrite <- E. now apply in_map.
Qed.

Lemma in_set_phase c ph l y' :
  In y' (set_phase c ph l) ->
  exists y, In y l /\ y' = (if has_id c y then mkCaller (c_id y) (c_op y) ph else y).
Proof.
  unfold set_phase. intros H. apply in_map_iff in H. destruct H as [y [E Hin]]. exists y. auto.
Qed.

Lemma set_phase_in c ph l y : In y l -> has_id c y = true -> In (mkCaller (c_id y) (c_op y) ph) (set_phase c ph l).
Proof.
  intros Hin Hc. unfold set_phase. apply in_map_iff. exists y. rewrite Hc. auto.
Qed.

Lemma NoDup_app_one_Z (l : list Z) a : NoDup l -> ~ In a l -> NoDup (l ++ [a]).
Proof.
  induction l as [|b l IH]; cbn; intros ND Hn.
  - constructor; [tauto | constructor].
  - inversion ND as [|? ? Hb ND']; subst. constructor.
    + intros Hin. apply in_app_or in Hin. destruct Hin as [Hin|[->|[]]]; tauto.
    + apply IH; tauto.
Qed.

(* ------------------------------------------------------------------ the invariant *)
Definition caller_ok (pending : option (Z * Z)) (x : caller) : Prop :=
  0 < c_op x /\
  match c_phase x with
  | WaitSem => True
  | WaitResp => pending = Some (c_id x, c_op x)
  | Done r => r = c_op x
  | Failed => False
  | Cancelled => True
  | LostFail => True
  | SendFail => True
  end.

Definition pipeline_ok (s : hstate) : Prop :=
  match h_pending s with
  | None => h_sem s = 1 /\ h_resp s = None /\ h_to s = [] /\ h_from s = []
  | Some (c, op) =>
      h_sem s = 0 /\
      (exists x, In x (h_callers s) /\ c_id x = c /\ c_op x = op /\ c_phase x = WaitResp) /\
      ((h_resp s = None /\ h_to s = [op] /\ h_from s = [])
       \/ (h_resp s = None /\ h_to s = [] /\ exists cc n, h_from s = [(cc, op, n)] /\ 1 <= n)
       \/ (exists n, h_resp s = Some (op, n) /\ 1 <= n /\ h_to s = [] /\ h_from s = []))
  end.

Record Inv (s : hstate) : Prop := mkInv {
  inv_err : h_err s = false;
  inv_nodup : NoDup (map c_id (h_callers s));
  inv_callers : forall x, In x (h_callers s) -> caller_ok (h_pending s) x;
  inv_pipe : pipeline_ok s
}.

Lemma inv_init : Inv h_init.
Proof.
  constructor; cbn; auto; try constructor; try tauto; unfold pipeline_ok; cbn; auto.
Qed.

Lemma step_none s l : step_opt s l = None -> step s l = s.
Proof. unfold step. intros ->. reflexivity. Qed.

Lemma step_some s l s' o : step_opt s l = Some (s', o) -> step s l = s'.
Proof. unfold step. intros ->. reflexivity. Qed.

Lemma step_inv s l : Inv s -> h_lost s = false -> l <> Lose ->
  label_ok l = true -> cancel_ok s l = true -> Inv (step s l).
Proof.
  intros I Hlost Hnl Hl Hcan. destruct (step_opt s l) as [[s' o]|] eqn:E; [|rewrite (step_none _ _ E); exact I].
  rewrite (step_some _ _ _ _ E). destruct I as [Ierr Ind Icall Ipipe].
  destruct l as [c op|c|cc n| |cc op n| |c|c| |c]; cbn [label_ok] in Hl; try discriminate; [| | | | | |congruence|].
  - (* Call *)
    cbn [step_opt] in E. destruct (known c (h_callers s)) eqn:K; [discriminate|].
    inversion E; subst s' o; clear E. apply Z.ltb_lt in Hl.
    constructor; cbn.
    + exact Ierr.
    + rewrite map_app. cbn. apply NoDup_app_one_Z; [exact Ind | apply known_false; exact K].
    + intros x Hx. apply in_app_or in Hx. destruct Hx as [Hx|[<-|[]]]; [apply Icall; exact Hx|].
      split; cbn; auto.
    + unfold pipeline_ok in *. cbn. destruct (h_pending s) as [[c' op']|]; [|exact Ipipe].
      destruct Ipipe as [Hs [[x [Hx Hx']] Hc]]. split; [exact Hs|]. split; [|exact Hc].
      exists x. split; [apply in_or_app; auto | exact Hx'].
  - (* Acquire *)
    cbn [step_opt] in E. destruct (Z.leb (h_sem s) 0) eqn:Sem; [discriminate|].
    destruct (find_waiting c (h_callers s)) as [x|] eqn:F; [|discriminate].
    destruct (find_waiting_spec _ _ _ F) as [Hx [Hid Hph]]. rewrite Hlost in E.
    unfold pipeline_ok in Ipipe. destruct (h_pending s) as [[c' op']|] eqn:P.
    { destruct Ipipe as [Hs _]. rewrite Hs in Sem. discriminate. }
    destruct Ipipe as [Hsem [Hr [Ht Hf]]]. rewrite Hr in E. inversion E; subst s' o; clear E.
    pose proof (Icall x Hx) as [Hop _].
    constructor; cbn.
    + exact Ierr.
    + rewrite map_id_set_phase. exact Ind.
    + intros y' Hy'. apply in_set_phase in Hy'. destruct Hy' as [y [Hy ->]].
      destruct (has_id c y) eqn:Hc.
      * unfold has_id in Hc. apply Z.eqb_eq in Hc.
        assert (y = x) as -> by (apply (unique_id _ Ind); auto; congruence).
        split; cbn; [exact Hop | congruence].
      * pose proof (Icall y Hy) as [Hop' Hph']. split; [exact Hop'|].
        destruct (c_phase y); auto. discriminate.
    + unfold pipeline_ok. cbn. split; [rewrite Hsem; reflexivity|]. split.
      * exists (mkCaller (c_id x) (c_op x) WaitResp). split; [|cbn; auto].
        apply set_phase_in; [exact Hx|]. unfold has_id. now apply Z.eqb_eq.
      * left. rewrite Ht, Hf. auto.
  - (* CtrlReply *)
    cbn [step_opt] in E. destruct (h_to s) as [|op rest] eqn:T; [discriminate|].
    inversion E; subst s' o; clear E. apply Z.leb_le in Hl.
    constructor; cbn; auto.
    unfold pipeline_ok in *. cbn. destruct (h_pending s) as [[c' op']|].
    + destruct Ipipe as [Hs [Hex Hc]]. split; [exact Hs|]. split; [exact Hex|].
      destruct Hc as [[Hr [Ht Hf]]|[[Hr [Ht Hf]]|[n' [Hr [Hn [Ht Hf]]]]]]; try congruence.
      rewrite T in Ht. inversion Ht; subst. right. left. rewrite Hf. cbn. eauto 6.
    + destruct Ipipe as [_ [_ [Ht _]]]. congruence.
  - (* Deliver *)
    cbn [step_opt] in E. destruct (h_from s) as [|[[cc op] n] rest] eqn:Fr; [discriminate|].
    unfold pipeline_ok in Ipipe. destruct (h_pending s) as [[c' op']|] eqn:P.
    2:{ destruct Ipipe as [_ [_ [_ Hf]]]. congruence. }
    destruct Ipipe as [Hs [[x [Hx [Hxi [Hxo Hxp]]]] Hc]].
    destruct Hc as [[Hr [Ht Hf]]|[[Hr [Ht [cc' [n' [Hf Hn]]]]]|[n' [Hr [Hn [Ht Hf]]]]]]; try congruence.
    pose proof (Icall x Hx) as [Hop _]. rewrite Hxo in Hop.
    rewrite Fr in Hf. injection Hf as <- <- <- ->.
    assert (cc && Z.eqb op 0 = false) as Z0.
    { apply andb_false_iff. right. apply Z.eqb_neq. lia. }
    rewrite Z0 in E. cbn [h_pending h_resp] in E. try rewrite P in E. rewrite Hr in E.
    inversion E; subst s' o; clear E.
    constructor; cbn; auto.
    unfold pipeline_ok. cbn. try rewrite P. split; [exact Hs|]. split; [eauto 6|].
    right. right. exists n. auto.
  - (* Resume *)
    cbn [step_opt] in E. unfold pipeline_ok in Ipipe.
    destruct (h_pending s) as [[c' op']|] eqn:P; [|discriminate].
    destruct (h_resp s) as [[op n]|] eqn:R; [|discriminate].
    destruct (Z.eqb c' c) eqn:Ec; [|discriminate]. apply Z.eqb_eq in Ec. subst c'.
    destruct Ipipe as [Hs [[x [Hx [Hxi [Hxo Hxp]]]] Hc]].
    destruct Hc as [[Hr _]|[[Hr _]|[n' [Hr [Hn [Ht Hf]]]]]]; try congruence.
    pose proof (Icall x Hx) as [Hpos _]. rewrite Hxo in Hpos.
    inversion Hr; subst op' n'. clear Hr.
    assert (Z.eqb op exc_code = false) as Hne by (apply Z.eqb_neq; unfold exc_code; lia).
    rewrite Hne in E.
    assert (release_if (mkH (set_phase c (Done op) (h_callers s)) (h_sem s) None None (h_to s) (h_from s) (h_err s) (h_lost s)) n
            = mkH (set_phase c (Done op) (h_callers s)) 1 None None (h_to s) (h_from s) (h_err s) (h_lost s)) as Rel.
    { unfold release_if, locked. cbn [h_sem h_callers]. rewrite Hs.
      destruct (Z.eqb n 0) eqn:Zn; [apply Z.eqb_eq in Zn; lia|]. reflexivity. }
    rewrite Rel in E. inversion E; subst s' o; clear E.
    constructor; cbn; auto.
    + rewrite map_id_set_phase. exact Ind.
    + intros y' Hy'. apply in_set_phase in Hy'. destruct Hy' as [y [Hy ->]].
      destruct (has_id c y) eqn:Hc.
      * unfold has_id in Hc. apply Z.eqb_eq in Hc.
        assert (y = x) as -> by (apply (unique_id _ Ind); auto; congruence).
        pose proof (Icall x Hx) as [Hop _]. split; cbn; auto.
      * pose proof (Icall y Hy) as [Hop' Hph']. split; [exact Hop'|].
        destruct (c_phase y) eqn:Py; auto.
        inversion Hph'. unfold has_id in Hc. apply Z.eqb_neq in Hc. congruence.
  - (* Cancel *)
    cbn [step_opt] in E. cbn [cancel_ok] in Hcan. unfold pipeline_ok in Ipipe.
    destruct (h_pending s) as [[c' op']|] eqn:P.
    + destruct (Z.eqb c' c) eqn:Ec.
      * (* the owner: only allowed once the response is in *)
        apply Z.eqb_eq in Ec. subst c'.
        destruct (h_resp s) as [[op n]|] eqn:R; [|try rewrite Z.eqb_refl in Hcan; cbn in Hcan; discriminate].
        inversion E; subst s' o; clear E.
        constructor; cbn [h_err h_callers h_pending h_sem h_resp h_to h_from].
        -- exact Ierr.
        -- rewrite map_id_set_phase. exact Ind.
        -- intros y' Hy'. apply in_set_phase in Hy'. destruct Hy' as [y [Hy ->]].
           destruct (has_id c y) eqn:Hid.
           ++ pose proof (Icall y Hy) as [Hop _]. split; cbn; auto.
           ++ pose proof (Icall y Hy) as [Hop' Hph']. split; [exact Hop'|].
              destruct (c_phase y) eqn:Py; auto.
              inversion Hph'. unfold has_id in Hid. apply Z.eqb_neq in Hid. congruence.
        -- destruct Ipipe as [Hs [_ Hcase]].
           destruct Hcase as [[Hr _]|[[Hr _]|[n' [Hr [Hn [Ht Hf]]]]]]; try congruence.
           unfold pipeline_ok. cbn. rewrite Hs. auto.
      * (* a queued caller *)
        destruct (find_waiting c (h_callers s)) as [x|] eqn:F; [|discriminate].
        inversion E; subst s' o; clear E.
        apply Z.eqb_neq in Ec.
        constructor; cbn [h_err h_callers h_pending h_sem h_resp h_to h_from with_callers].
        -- exact Ierr.
        -- rewrite map_id_set_phase. exact Ind.
        -- intros y' Hy'. apply in_set_phase in Hy'. destruct Hy' as [y [Hy ->]].
           destruct (has_id c y) eqn:Hid'.
           ++ pose proof (Icall y Hy) as [Hop _]. split; cbn; auto.
           ++ rewrite P. exact (Icall y Hy).
        -- unfold pipeline_ok. cbn [h_err h_callers h_pending h_sem h_resp h_to h_from with_callers]. rewrite P.
           destruct Ipipe as [Hs [[y [Hy [Hyi [Hyo Hyp]]]] Hcase]]. split; [exact Hs|]. split; [|exact Hcase].
           exists y. split; [|auto]. unfold set_phase. apply in_map_iff. exists y.
           assert (has_id c y = false) as ->; [|auto].
           unfold has_id. apply Z.eqb_neq. congruence.
    + destruct (find_waiting c (h_callers s)) as [x|] eqn:F; [|discriminate].
      inversion E; subst s' o; clear E.
      constructor; cbn [h_err h_callers h_pending h_sem h_resp h_to h_from with_callers].
      * exact Ierr.
      * rewrite map_id_set_phase. exact Ind.
      * intros y' Hy'. apply in_set_phase in Hy'. destruct Hy' as [y [Hy ->]].
        destruct (has_id c y) eqn:Hid'.
        -- pose proof (Icall y Hy) as [Hop _]. split; cbn; auto.
        -- rewrite P. exact (Icall y Hy).
      * unfold pipeline_ok. cbn [h_err h_callers h_pending h_sem h_resp h_to h_from with_callers]. rewrite P.
        exact Ipipe.
  - (* AcquireFail: the send raises inside the try, the finally undoes the acquisition *)
    cbn [step_opt] in E. destruct (Z.leb (h_sem s) 0) eqn:Sem; [discriminate|].
    destruct (find_waiting c (h_callers s)) as [x|] eqn:F; [|discriminate].
    rewrite Hlost in E.
    unfold pipeline_ok in Ipipe. destruct (h_pending s) as [[c' op']|] eqn:P.
    { destruct Ipipe as [Hs _]. rewrite Hs in Sem. discriminate. }
    destruct Ipipe as [Hsem [Hr [Ht Hf]]]. rewrite Hr in E. inversion E; subst s' o; clear E.
    constructor; cbn [h_err h_callers h_pending h_sem h_resp h_to h_from with_callers].
    + exact Ierr.
    + rewrite map_id_set_phase. exact Ind.
    + intros y' Hy'. apply in_set_phase in Hy'. destruct Hy' as [y [Hy ->]]. rewrite P.
      destruct (has_id c y) eqn:Hid'.
      * pose proof (Icall y Hy) as [Hop _]. split; cbn; auto.
      * exact (Icall y Hy).
    + unfold pipeline_ok. cbn [h_err h_callers h_pending h_sem h_resp h_to h_from with_callers]. rewrite P. auto.
Qed.

(* ------------------------------------------------------------------ after the transport is lost *)
Lemma step_lost s l : l <> Lose -> h_lost (step s l) = h_lost s.
Proof.
  intros N. unfold step. destruct (step_opt s l) as [[s' o]|] eqn:E; [|reflexivity].
  destruct l as [c op|c|cc n| |cc op n| |c|c| |c]; cbn [step_opt] in E; try congruence.
  - destruct (known c (h_callers s)); inversion E; reflexivity.
  - destruct (Z.leb (h_sem s) 0); [discriminate|]. destruct (find_waiting c (h_callers s)); [|discriminate].
    destruct (h_lost s) eqn:L; [inversion E; subst; cbn; congruence|].
    destruct (h_pending s), (h_resp s); inversion E; subst; cbn; congruence.
  - destruct (h_to s); inversion E; reflexivity.
  - destruct (h_to s); inversion E; reflexivity.
  - inversion E; reflexivity.
  - destruct (h_from s) as [|[[cc op] n] rest]; [discriminate|].
    destruct (cc && (op =? 0)); [inversion E; unfold release_if; cbn; destruct (_ && _); reflexivity|].
    cbn in E. destruct (h_pending s).
    + destruct (h_resp s); inversion E; reflexivity.
    + inversion E. unfold release_if; cbn; destruct (_ && _); reflexivity.
  - destruct (h_pending s) as [[c' op']|]; [|discriminate]. destruct (h_resp s) as [[op n]|]; [|discriminate].
    destruct (c' =? c); [|discriminate]. destruct (op =? exc_code); inversion E; [reflexivity|].
    unfold release_if; cbn; destruct (_ && _); reflexivity.
  - destruct (h_pending s) as [[c' op']|].
    + destruct (c' =? c); [inversion E; reflexivity|].
      destruct (find_waiting c (h_callers s)); inversion E; reflexivity.
    + destruct (find_waiting c (h_callers s)); inversion E; reflexivity.
  - destruct (Z.leb (h_sem s) 0); [discriminate|]. destruct (find_waiting c (h_callers s)); [|discriminate].
    destruct (h_lost s) eqn:L; [inversion E; subst; cbn; congruence|].
    destruct (h_pending s), (h_resp s); inversion E; subst; cbn; congruence.
Qed.

(* the invariant of the states after a loss: nothing is sent any more; whoever holds the
   semaphore has its outcome (a response that arrived before the loss, or the exception) *)
Definition lost_pending_ok (s : hstate) : Prop :=
  match h_pending s with
  | None => h_sem s = 1 /\ h_resp s = None
  | Some (c, op) =>
      h_sem s = 0 /\
      (exists x, In x (h_callers s) /\ c_id x = c /\ c_op x = op /\ c_phase x = WaitResp) /\
      exists o n, h_resp s = Some (o, n) /\ (o = exc_code \/ (o = op /\ 1 <= n))
  end.

Record LInv (s : hstate) : Prop := mkLInv {
  l_lost : h_lost s = true;
  l_err : h_err s = false;
  l_nodup : NoDup (map c_id (h_callers s));
  l_callers : forall x, In x (h_callers s) -> caller_ok (h_pending s) x;
  l_pend : lost_pending_ok s;
  l_out : outstanding s <= 1
}.

Lemma inv_outstanding0 s : Inv s -> outstanding s <= 1.
Proof.
  intros [_ _ _ P]. unfold pipeline_ok in P. unfold outstanding.
  destruct (h_pending s) as [[c op]|].
  - destruct P as [_ [_ [[_ [-> ->]]|[[_ [-> [cc [n [-> _]]]]]|[n [_ [_ [-> ->]]]]]]]]; cbn; lia.
  - destruct P as [_ [_ [-> ->]]]. cbn. lia.
Qed.

Lemma lose_linv s : Inv s -> LInv (step s Lose).
Proof.
  intros I. pose proof (inv_outstanding0 s I) as O. destruct I as [Ierr Ind Icall Ipipe].
  unfold step. cbn [step_opt]. constructor; cbn [h_lost h_err h_callers h_pending h_sem h_resp h_to h_from]; auto.
  unfold pipeline_ok in Ipipe. unfold lost_pending_ok. cbn [h_pending h_sem h_resp h_callers].
  destruct (h_pending s) as [[c op]|].
  - destruct Ipipe as [Hs [Hex Hc]]. split; [exact Hs|]. split; [exact Hex|].
    destruct Hc as [[Hr _]|[[Hr _]|[n [Hr [Hn _]]]]]; rewrite Hr.
    + exists exc_code, 0. auto.
    + exists exc_code, 0. auto.
    + exists op, n. auto.
  - destruct Ipipe as [Hs [Hr _]]. rewrite Hr. auto.
Qed.

Lemma step_linv s l : LInv s -> label_ok l = true -> cancel_ok s l = true -> lost_ok s l = true -> LInv (step s l).
Proof.
  intros I Hl Hcan Hlo. destruct (step_opt s l) as [[s' o]|] eqn:E; [|rewrite (step_none _ _ E); exact I].
  rewrite (step_some _ _ _ _ E). destruct I as [Ilost Ierr Ind Icall Ipend Iout].
  unfold lost_ok in Hlo. rewrite Ilost in Hlo.
  destruct l as [c op|c|cc n| |cc op n| |c|c| |c]; cbn [label_ok] in Hl; try discriminate; cbn [step_opt] in E.
  - (* Call *)
    destruct (known c (h_callers s)) eqn:K; [discriminate|]. inversion E; subst s' o; clear E.
    apply Z.ltb_lt in Hl. constructor; cbn; auto.
    + rewrite map_app. cbn. apply NoDup_app_one_Z; [exact Ind | apply known_false; exact K].
    + intros x Hx. apply in_app_or in Hx. destruct Hx as [Hx|[<-|[]]]; [apply Icall; exact Hx|]. split; cbn; auto.
    + unfold lost_pending_ok in *. cbn. destruct (h_pending s) as [[c' op']|]; [|exact Ipend].
      destruct Ipend as [Hs [[x [Hx Hx']] Hc]]. split; [exact Hs|]. split; [|exact Hc].
      exists x. split; [apply in_or_app; auto | exact Hx'].
  - (* Acquire: fails at once *)
    destruct (Z.leb (h_sem s) 0) eqn:Sem; [discriminate|].
    destruct (find_waiting c (h_callers s)) as [x|] eqn:F; [|discriminate].
    rewrite Ilost in E. inversion E; subst s' o; clear E.
    destruct (find_waiting_spec _ _ _ F) as [Hx [Hid Hph]].
    unfold lost_pending_ok in Ipend. destruct (h_pending s) as [[c' op']|] eqn:P.
    { destruct Ipend as [Hs _]. rewrite Hs in Sem. discriminate. }
    constructor; cbn [h_lost h_err h_callers h_pending h_sem h_resp h_to h_from with_callers]; auto.
    + rewrite map_id_set_phase. exact Ind.
    + intros y' Hy'. apply in_set_phase in Hy'. destruct Hy' as [y [Hy ->]]. rewrite P.
      destruct (has_id c y) eqn:Hc.
      * pose proof (Icall y Hy) as [Hop _]. split; cbn; auto.
      * exact (Icall y Hy).
    + unfold lost_pending_ok. cbn [h_pending h_sem h_resp with_callers]. rewrite P. exact Ipend.
  - (* Resume *)
    unfold lost_pending_ok in Ipend.
    destruct (h_pending s) as [[c' op']|] eqn:P; [|discriminate].
    destruct (h_resp s) as [[op n]|] eqn:R; [|discriminate].
    destruct (Z.eqb c' c) eqn:Ec; [|discriminate]. apply Z.eqb_eq in Ec. subst c'.
    destruct Ipend as [Hs [[x [Hx [Hxi [Hxo Hxp]]]] [o' [n' [Hr Hcase]]]]]. inversion Hr; subst o' n'. clear Hr.
    pose proof (Icall x Hx) as [Hpos _]. rewrite Hxo in Hpos.
    assert (forall ph, (match ph with Done r => r = op' | LostFail => True | _ => False end) ->
              forall y', In y' (set_phase c ph (h_callers s)) -> caller_ok None y') as Hcallers.
    { intros ph Hph y' Hy'. apply in_set_phase in Hy'. destruct Hy' as [y [Hy ->]].
      destruct (has_id c y) eqn:Hc.
      - unfold has_id in Hc. apply Z.eqb_eq in Hc.
        assert (y = x) as -> by (apply (unique_id _ Ind); auto; congruence).
        split; cbn; [lia|]. destruct ph; try contradiction; [congruence | exact I].
      - pose proof (Icall y Hy) as [Hop' Hph']. split; [exact Hop'|].
        destruct (c_phase y) eqn:Py; auto.
        inversion Hph'. unfold has_id in Hc. apply Z.eqb_neq in Hc. congruence. }
    destruct (Z.eqb op exc_code) eqn:Ex.
    + inversion E; subst s' o; clear E.
      constructor; cbn [h_lost h_err h_callers h_pending h_sem h_resp h_to h_from]; auto.
      * rewrite map_id_set_phase. exact Ind.
      * apply Hcallers. exact I.
      * unfold lost_pending_ok. cbn. rewrite Hs. auto.
    + destruct Hcase as [Hex|[Hop Hn]]; [apply Z.eqb_neq in Ex; contradiction|]. subst op.
      assert (release_if (mkH (set_phase c (Done op') (h_callers s)) (h_sem s) None None (h_to s) (h_from s) (h_err s) (h_lost s)) n
              = mkH (set_phase c (Done op') (h_callers s)) 1 None None (h_to s) (h_from s) (h_err s) (h_lost s)) as Rel.
      { unfold release_if, locked. cbn [h_sem h_callers]. rewrite Hs.
        destruct (Z.eqb n 0) eqn:Zn; [apply Z.eqb_eq in Zn; lia|]. reflexivity. }
      rewrite Rel in E. inversion E; subst s' o; clear E.
      constructor; cbn [h_lost h_err h_callers h_pending h_sem h_resp h_to h_from]; auto.
      * rewrite map_id_set_phase. exact Ind.
      * apply Hcallers. reflexivity.
      * unfold lost_pending_ok. cbn. auto.
  - (* Cancel *)
    cbn [cancel_ok] in Hcan. unfold lost_pending_ok in Ipend.
    destruct (h_pending s) as [[c' op']|] eqn:P.
    + destruct (Z.eqb c' c) eqn:Ec.
      * apply Z.eqb_eq in Ec. subst c'. inversion E; subst s' o; clear E.
        destruct Ipend as [Hs [[x [Hx [Hxi [Hxo Hxp]]]] _]].
        constructor; cbn [h_lost h_err h_callers h_pending h_sem h_resp h_to h_from]; auto.
        -- rewrite map_id_set_phase. exact Ind.
        -- intros y' Hy'. apply in_set_phase in Hy'. destruct Hy' as [y [Hy ->]].
           destruct (has_id c y) eqn:Hid.
           ++ pose proof (Icall y Hy) as [Hop _]. split; cbn; auto.
           ++ pose proof (Icall y Hy) as [Hop' Hph']. split; [exact Hop'|].
              destruct (c_phase y) eqn:Py; auto.
              inversion Hph'. unfold has_id in Hid. apply Z.eqb_neq in Hid. congruence.
        -- unfold lost_pending_ok. cbn. rewrite Hs. auto.
      * destruct (find_waiting c (h_callers s)) as [x|] eqn:F; [|discriminate].
        inversion E; subst s' o; clear E. apply Z.eqb_neq in Ec.
        constructor; cbn [h_lost h_err h_callers h_pending h_sem h_resp h_to h_from with_callers]; auto.
        -- rewrite map_id_set_phase. exact Ind.
        -- intros y' Hy'. apply in_set_phase in Hy'. destruct Hy' as [y [Hy ->]]. rewrite P.
           destruct (has_id c y) eqn:Hid'.
           ++ pose proof (Icall y Hy) as [Hop _]. split; cbn; auto.
           ++ exact (Icall y Hy).
        -- unfold lost_pending_ok. cbn [h_pending h_sem h_resp h_callers with_callers]. rewrite P.
           destruct Ipend as [Hs [[y [Hy [Hyi [Hyo Hyp]]]] Hcase]]. split; [exact Hs|]. split; [|exact Hcase].
           exists y. split; [|auto]. unfold set_phase. apply in_map_iff. exists y.
           assert (has_id c y = false) as ->; [|auto]. unfold has_id. apply Z.eqb_neq. congruence.
    + destruct (find_waiting c (h_callers s)) as [x|] eqn:F; [|discriminate].
      inversion E; subst s' o; clear E.
      constructor; cbn [h_lost h_err h_callers h_pending h_sem h_resp h_to h_from with_callers]; auto.
      * rewrite map_id_set_phase. exact Ind.
      * intros y' Hy'. apply in_set_phase in Hy'. destruct Hy' as [y [Hy ->]]. rewrite P.
        destruct (has_id c y) eqn:Hid'.
        -- pose proof (Icall y Hy) as [Hop _]. split; cbn; auto.
        -- exact (Icall y Hy).
      * unfold lost_pending_ok. cbn [h_pending h_sem h_resp with_callers]. rewrite P. exact Ipend.
  - (* Lose again *)
    inversion E; subst s' o; clear E.
    constructor; cbn [h_lost h_err h_callers h_pending h_sem h_resp h_to h_from]; auto.
    unfold lost_pending_ok in *. cbn [h_pending h_sem h_resp h_callers].
    destruct (h_pending s) as [[c op]|]; [|destruct Ipend as [Hs Hr]; rewrite Hr; auto].
    destruct Ipend as [Hs [Hex [o' [n' [Hr Hc]]]]]. rewrite Hr. split; [exact Hs|]. split; [exact Hex|]. eauto.
  - (* AcquireFail after a loss: as Acquire *)
    destruct (Z.leb (h_sem s) 0) eqn:Sem; [discriminate|].
    destruct (find_waiting c (h_callers s)) as [x|] eqn:F; [|discriminate].
    rewrite Ilost in E. inversion E; subst s' o; clear E.
    unfold lost_pending_ok in Ipend. destruct (h_pending s) as [[c' op']|] eqn:P.
    { destruct Ipend as [Hs _]. rewrite Hs in Sem. discriminate. }
    constructor; cbn [h_lost h_err h_callers h_pending h_sem h_resp h_to h_from with_callers]; auto.
    + rewrite map_id_set_phase. exact Ind.
    + intros y' Hy'. apply in_set_phase in Hy'. destruct Hy' as [y [Hy ->]]. rewrite P.
      destruct (has_id c y) eqn:Hc.
      * pose proof (Icall y Hy) as [Hop _]. split; cbn; auto.
      * exact (Icall y Hy).
    + unfold lost_pending_ok. cbn [h_pending h_sem h_resp with_callers]. rewrite P. exact Ipend.
Qed.

(* before or after a loss *)
Definition Inv2 (s : hstate) : Prop := (h_lost s = false /\ Inv s) \/ LInv s.

Lemma label_eq_lose_dec (l : label) : {l = Lose} + {l <> Lose}.
Proof. destruct l; (left; reflexivity) || (right; discriminate). Qed.

Lemma step_inv2 s l : Inv2 s -> label_ok l = true -> cancel_ok s l = true -> lost_ok s l = true -> Inv2 (step s l).
Proof.
  intros [[L I]|I] Hl Hc Hlo.
  - destruct (label_eq_lose_dec l) as [->|N].
    + right. apply lose_linv. exact I.
    + left. split; [rewrite (step_lost s l N); exact L | apply step_inv; assumption].
  - right. apply step_linv; assumption.
Qed.

Lemma run_inv ls : forall s, wf_run s ls = true -> Inv2 s -> Inv2 (run s ls).
Proof.
  induction ls as [|l ls IH]; intros s C I; cbn [run]; [exact I|].
  cbn [wf_run] in C. apply andb_true_iff in C. destruct C as [C123 C4].
  apply andb_true_iff in C123. destruct C123 as [C12 C3].
  apply andb_true_iff in C12. destruct C12 as [C1 C2].
  apply IH; [exact C4 | apply step_inv2; assumption].
Qed.

Lemma inv2_init : Inv2 h_init.
Proof. left. split; [reflexivity | exact inv_init]. Qed.

(* ------------------------------------------------------------------ consequences of the invariant *)
Lemma inv_outstanding s : Inv s -> outstanding s <= 1.
Proof.
  intros [_ _ _ P]. unfold pipeline_ok in P. unfold outstanding.
  destruct (h_pending s) as [[c op]|].
  - destruct P as [_ [_ [[_ [-> ->]]|[[_ [-> [cc [n [-> _]]]]]|[n [_ [_ [-> ->]]]]]]]]; cbn; lia.
  - destruct P as [_ [_ [-> ->]]]. cbn. lia.
Qed.

(* a command is in flight only while its caller holds the semaphore and waits for it *)
Lemma inv_outstanding_pending s : Inv s -> outstanding s = 1 -> exists c op, h_pending s = Some (c, op) /\ h_sem s = 0.
Proof.
  intros [_ _ _ P] O. unfold pipeline_ok in P. unfold outstanding in O.
  destruct (h_pending s) as [[c op]|].
  - destruct P as [Hs _]. eauto.
  - destruct P as [_ [_ [Ht Hf]]]. rewrite Ht, Hf in O. cbn in O. lia.
Qed.

Lemma inv_reply_matches s : Inv s ->
  forall x r, In x (h_callers s) -> c_phase x = Done r -> r = c_op x.
Proof.
  intros [_ _ C _] x r Hx Hp. destruct (C x Hx) as [_ H]. rewrite Hp in H. exact H.
Qed.

Lemma inv_no_failure s : Inv s -> h_err s = false /\ forall x, In x (h_callers s) -> c_phase x <> Failed.
Proof.
  intros [E _ C _]. split; [exact E|]. intros x Hx Hp. destruct (C x Hx) as [_ H]. rewrite Hp in H. exact H.
Qed.

Lemma inv_quiescent_answered s : Inv s -> quiescent s = true -> all_answered s = true.
Proof.
  intros [_ _ C P] Q. unfold pipeline_ok in P. unfold quiescent in Q. unfold all_answered.
  destruct (h_pending s) as [[c op]|] eqn:Pe.
  - exfalso. destruct P as [_ [_ [[Hr [Ht Hf]]|[[Hr [Ht [cc [n [Hf _]]]]]|[n [Hr [_ [Ht Hf]]]]]]]];
      rewrite Ht in Q; try discriminate; rewrite Hf in Q; try discriminate.
    rewrite Hr in Q. discriminate.
  - destruct P as [Hs [Hr [Ht Hf]]]. rewrite Ht, Hf, Hs in Q. cbn in Q.
    apply negb_true_iff in Q. apply forallb_forall. intros x Hx.
    destruct (C x Hx) as [_ H]. unfold is_done_own.
    destruct (c_phase x) eqn:Ph.
    + exfalso. assert (existsb is_wait_sem (h_callers s) = true) as E; [|congruence].
      apply existsb_exists. exists x. split; [exact Hx|]. unfold is_wait_sem. now rewrite Ph.
    + discriminate.
    + subst. apply Z.eqb_refl.
    + contradiction.
    + reflexivity.
    + reflexivity.
    + reflexivity.
Qed.

(* ------------------------------------------------------------------ progress and termination *)
Definition internal (l : label) : bool :=
  match l with Acquire _ | CtrlReply _ _ | Deliver | Resume _ => true | _ => false end.

Lemma existsb_find_waiting l : existsb is_wait_sem l = true -> exists x, find_waiting (c_id x) l = Some x.
Proof.
  induction l as [|a l IH]; cbn [existsb]; [discriminate|].
  destruct (is_wait_sem a) eqn:W.
  - intros _. exists a. unfold find_waiting. cbn [find]. unfold has_id. rewrite Z.eqb_refl, W. reflexivity.
  - cbn [orb]. intros H. destruct (IH H) as [x Hx]. exists x. unfold find_waiting in *. cbn [find].
    rewrite W, andb_false_r. exact Hx.
Qed.

Lemma progress s : Inv s -> quiescent s = false ->
  exists l, internal l = true /\ label_ok l = true /\ step_opt s l <> None.
Proof.
  intros [_ _ C P] Q. unfold pipeline_ok in P. unfold quiescent in Q.
  destruct (h_pending s) as [[c op]|] eqn:Pe.
  - destruct P as [Hs [_ [[Hr [Ht Hf]]|[[Hr [Ht [cc [n [Hf Hn]]]]]|[n [Hr [_ [Ht Hf]]]]]]]].
    + exists (CtrlReply true 1). cbn. rewrite Ht. repeat split; discriminate.
    + exists Deliver. cbn. rewrite Hf. repeat split.
      destruct (cc && (op =? 0)); [discriminate|]. rewrite Pe, Hr. discriminate.
    + exists (Resume c). cbn. rewrite Pe, Hr, Z.eqb_refl. destruct (op =? exc_code); repeat split; discriminate.
  - destruct P as [Hs [Hr [Ht Hf]]]. rewrite Ht, Hf, Hs in Q. cbn in Q.
    apply negb_false_iff in Q. destruct (existsb_find_waiting _ Q) as [x Hx].
    exists (Acquire (c_id x)). cbn. rewrite Hs, Hx. cbn.
    destruct (h_lost s); [repeat split; discriminate|]. rewrite Pe, Hr. repeat split; discriminate.
Qed.

Definition weight_sum (l : list caller) : nat := fold_right (fun x a => caller_weight x + a)%nat 0%nat l.

Lemma weight_sum_cons a l : weight_sum (a :: l) = (caller_weight a + weight_sum l)%nat.
Proof. reflexivity. Qed.

Lemma set_phase_cons c ph a l :
  set_phase c ph (a :: l) = (if has_id c a then mkCaller (c_id a) (c_op a) ph else a) :: set_phase c ph l.
Proof. reflexivity. Qed.

Definition phase_weight (ph : phase) : nat := caller_weight (mkCaller 0 0 ph).

Lemma caller_weight_mk i o ph : caller_weight (mkCaller i o ph) = phase_weight ph.
Proof. reflexivity. Qed.

Lemma weight_set_phase_le c ph l : phase_weight ph = 0%nat ->
  (weight_sum (set_phase c ph l) <= weight_sum l)%nat.
Proof.
  intros W. induction l as [|a l IH]; [cbn; lia|].
  rewrite set_phase_cons, !weight_sum_cons.
  destruct (has_id c a); [rewrite caller_weight_mk, W|]; lia.
Qed.

Lemma weight_set_phase_lt c ph l x : phase_weight ph = 0%nat ->
  find_waiting c l = Some x -> (weight_sum (set_phase c ph l) + 4 <= weight_sum l)%nat.
Proof.
  intros W. induction l as [|a l IH]; [discriminate|].
  rewrite set_phase_cons, !weight_sum_cons. unfold find_waiting. cbn [find].
  fold (find_waiting c l).
  destruct (has_id c a) eqn:Hc; cbn [andb].
  - rewrite caller_weight_mk, W. destruct (is_wait_sem a) eqn:Ws.
    + intros _. pose proof (weight_set_phase_le c ph l W) as Hle.
      unfold is_wait_sem in Ws. unfold caller_weight. destruct (c_phase a); try discriminate. lia.
    + intros F. specialize (IH F). lia.
  - intros F. specialize (IH F). lia.
Qed.

Lemma measure_decreases s l s' o :
  internal l = true -> step_opt s l = Some (s', o) -> (measure s' < measure s)%nat.
Proof.
  intros Hi E. unfold measure.
  destruct l as [c op|c|cc n| |cc op n| |c|c| |c]; try discriminate; cbn [step_opt] in E.
  - (* Acquire *)
    destruct (Z.leb (h_sem s) 0); [discriminate|].
    destruct (find_waiting c (h_callers s)) as [x|] eqn:F; [|discriminate].
    destruct (h_lost s).
    { inversion E; subst; clear E. cbn. fold (weight_sum (h_callers s)).
      fold (weight_sum (set_phase c LostFail (h_callers s))).
      pose proof (weight_set_phase_lt c LostFail _ x eq_refl F). lia. }
    destruct (h_pending s), (h_resp s); inversion E; subst; clear E; unfold measure; cbn;
      fold (weight_sum (h_callers s));
      match goal with |- context [set_phase c ?ph _] =>
        fold (weight_sum (set_phase c ph (h_callers s)));
        pose proof (weight_set_phase_lt c ph _ x eq_refl F) end;
      rewrite ?app_length; cbn; lia.
  - (* CtrlReply *)
    destruct (h_to s) as [|op rest]; [discriminate|]. inversion E; subst; clear E.
    unfold measure; cbn. rewrite app_length. cbn. lia.
  - (* Deliver *)
    destruct (h_from s) as [|[[cc op] n] rest]; [discriminate|].
    destruct (cc && (op =? 0)).
    + inversion E; subst; clear E. unfold release_if; cbn.
      destruct (negb (n =? 0) && locked _); unfold measure; cbn; lia.
    + cbn in E. destruct (h_pending s).
      * destruct (h_resp s); inversion E; subst; clear E; unfold measure; cbn; lia.
      * inversion E; subst; clear E. unfold release_if; cbn.
        destruct (negb (n =? 0) && locked _); unfold measure; cbn; lia.
  - (* Resume *)
    destruct (h_pending s) as [[c' op']|]; [|discriminate].
    destruct (h_resp s) as [[op n]|]; [|discriminate].
    destruct (c' =? c); [|discriminate].
    destruct (op =? exc_code).
    { inversion E; subst; clear E. cbn. fold (weight_sum (h_callers s)).
      fold (weight_sum (set_phase c LostFail (h_callers s))).
      pose proof (weight_set_phase_le c LostFail (h_callers s) eq_refl). lia. }
    inversion E; subst; clear E.
    unfold release_if; cbn.
    pose proof (weight_set_phase_le c (Done op) (h_callers s) eq_refl) as Hle.
    destruct (negb (n =? 0) && locked _); unfold measure; cbn;
      fold (weight_sum (h_callers s)); fold (weight_sum (set_phase c (Done op) (h_callers s))); lia.
Qed.

Lemma internal_cancel_ok s l : internal l = true -> cancel_ok s l = true.
Proof. destruct l; cbn; intros H; try reflexivity; discriminate. Qed.

Lemma internal_not_lose l : internal l = true -> l <> Lose.
Proof. destruct l; cbn; intros H; discriminate. Qed.

Lemma not_lost_ok s l : h_lost s = false -> lost_ok s l = true.
Proof. intros H. unfold lost_ok. now rewrite H. Qed.

(* internal steps that satisfy the contract satisfy the run hypotheses (transport not lost) *)
Lemma wf_run_internal ls : forall s, h_lost s = false ->
  forallb internal ls = true -> contract_ok ls = true -> wf_run s ls = true.
Proof.
  induction ls as [|l ls IH]; intros s L Hi Hc; cbn [wf_run]; [reflexivity|].
  cbn in Hi, Hc. apply andb_true_iff in Hi. apply andb_true_iff in Hc.
  destruct Hi as [Hi1 Hi2], Hc as [Hc1 Hc2].
  rewrite Hc1, (internal_cancel_ok s l Hi1), (not_lost_ok s l L). cbn.
  apply IH; [rewrite (step_lost s l (internal_not_lose l Hi1)); exact L | exact Hi2 | exact Hc2].
Qed.

(* without cancellations and without a loss the run hypotheses are just the contract *)
Lemma wf_run_no_cancel ls : forall s, h_lost s = false ->
  forallb (fun l => match l with Cancel _ | Lose => false | _ => true end) ls = true ->
  contract_ok ls = true -> wf_run s ls = true.
Proof.
  induction ls as [|l ls IH]; intros s L Hn Hc; cbn [wf_run]; [reflexivity|].
  cbn in Hn, Hc. apply andb_true_iff in Hn. apply andb_true_iff in Hc.
  destruct Hn as [Hn1 Hn2], Hc as [Hc1 Hc2].
  rewrite Hc1, (not_lost_ok s l L).
  assert (l <> Lose) as NL by (destruct l; discriminate).
  rewrite (IH (step s l)); [|rewrite (step_lost s l NL); exact L | exact Hn2 | exact Hc2].
  destruct l; try reflexivity; discriminate.
Qed.

Lemma wf_run_app a : forall b s, wf_run s a = true -> wf_run (run s a) b = true -> wf_run s (a ++ b) = true.
Proof.
  induction a as [|x a IH]; intros b s Ha Hb; cbn [app wf_run run] in *; [exact Hb|].
  apply andb_true_iff in Ha. destruct Ha as [Ha1 Ha2]. rewrite Ha1. cbn. apply IH; assumption.
Qed.

(* from every state reachable under the hypotheses, a bounded number of internal steps leads
   to quiescence: nobody waits forever, later commands are not blocked *)
Lemma eventually_quiescent_aux n : forall s, Inv s -> h_lost s = false -> (measure s <= n)%nat ->
  exists ls, forallb internal ls = true /\ contract_ok ls = true /\
             quiescent (run s ls) = true /\ (length ls <= n)%nat.
Proof.
  induction n as [|n IH]; intros s I L M.
  - destruct (quiescent s) eqn:Q.
    + exists []. cbn. auto.
    + destruct (progress s I Q) as [l [Hi [Hl Hs]]].
      destruct (step_opt s l) as [[s' o]|] eqn:E; [|congruence].
      pose proof (measure_decreases _ _ _ _ Hi E). lia.
  - destruct (quiescent s) eqn:Q.
    + exists []. cbn. repeat split; auto. lia.
    + destruct (progress s I Q) as [l [Hi [Hl Hs]]].
      destruct (step_opt s l) as [[s' o]|] eqn:E; [|congruence].
      pose proof (measure_decreases _ _ _ _ Hi E) as D.
      assert (Inv s' /\ h_lost s' = false) as [I' L'].
      { rewrite <- (step_some _ _ _ _ E). split.
        - apply step_inv; [assumption | assumption | apply internal_not_lose; exact Hi | assumption
                           | apply internal_cancel_ok; exact Hi].
        - rewrite (step_lost s l (internal_not_lose l Hi)). exact L. }
      destruct (IH s' I' L' ltac:(lia)) as [ls [H1 [H2 [H3 H4]]]].
      exists (l :: ls). cbn. unfold contract_ok in H2. rewrite Hi, Hl, H1, H2. cbn.
      rewrite (step_some _ _ _ _ E). repeat split; auto. lia.
Qed.

Lemma eventually_quiescent s : Inv s -> h_lost s = false ->
  exists ls, forallb internal ls = true /\ contract_ok ls = true /\
             quiescent (run s ls) = true /\ (length ls <= measure s)%nat.
Proof. intros I L. apply (eventually_quiescent_aux (measure s) s I L). lia. Qed.

(* accepted traces are runs *)
Lemma accept_run ls : forall s s' o, accept s ls = Some (s', o) -> run s ls = s'.
Proof.
  induction ls as [|l ls IH]; intros s s' o; cbn.
  - intros H. inversion H. reflexivity.
  - destruct (step_opt s l) as [[s1 o1]|] eqn:E; [|discriminate].
    destruct (accept s1 ls) as [[s2 o2]|] eqn:A; [|discriminate].
    intros H. inversion H; subst. rewrite (step_some _ _ _ _ E). apply (IH _ _ _ A).
Qed.

(* ------------------------------------------------------------------ consequences, before or after a loss *)
Lemma inv2_outstanding s : Inv2 s -> outstanding s <= 1.
Proof. intros [[_ I]|I]; [apply inv_outstanding; exact I | apply I]. Qed.

Lemma inv2_reply_matches s : Inv2 s -> forall x r, In x (h_callers s) -> c_phase x = Done r -> r = c_op x.
Proof.
  intros [[_ I]|I]; [apply inv_reply_matches; exact I|].
  intros x r Hx Hp. destruct (l_callers s I x Hx) as [_ H]. rewrite Hp in H. exact H.
Qed.

Lemma inv2_no_failure s : Inv2 s -> h_err s = false /\ forall x, In x (h_callers s) -> c_phase x <> Failed.
Proof.
  intros [[_ I]|I]; [apply inv_no_failure; exact I|]. split; [apply I|].
  intros x Hx Hp. destruct (l_callers s I x Hx) as [_ H]. rewrite Hp in H. exact H.
Qed.

(* after a loss: when none of the host's own steps is enabled, every caller has its outcome *)
Lemma linv_quiescent_answered s : LInv s -> quiescent_lost s = true -> all_answered s = true.
Proof.
  intros I Q. pose proof (l_pend s I) as P. unfold lost_pending_ok in P. unfold quiescent_lost in Q.
  unfold all_answered. destruct (h_pending s) as [[c op]|] eqn:Pe.
  - destruct P as [_ [_ [o [n [Hr _]]]]]. rewrite Hr in Q. discriminate.
  - destruct P as [Hs Hr]. rewrite Hs in Q. cbn in Q. apply negb_true_iff in Q.
    apply forallb_forall. intros x Hx. destruct (l_callers s I x Hx) as [_ H]. unfold is_done_own.
    destruct (c_phase x) eqn:Ph; try reflexivity.
    + exfalso. assert (existsb is_wait_sem (h_callers s) = true) as E; [|congruence].
      apply existsb_exists. exists x. split; [exact Hx|]. unfold is_wait_sem. now rewrite Ph.
    + congruence.
    + subst. apply Z.eqb_refl.
    + contradiction.
Qed.

Lemma quiescent_is_quiescent_lost s : quiescent s = true -> quiescent_lost s = true.
Proof.
  unfold quiescent, quiescent_lost. destruct (h_to s); [|discriminate]. destruct (h_from s); [|discriminate]. auto.
Qed.

Lemma inv2_quiescent_answered s : Inv2 s -> quiescent s = true -> all_answered s = true.
Proof.
  intros [[_ I]|I] Q; [apply inv_quiescent_answered; assumption|].
  apply linv_quiescent_answered; [exact I | apply quiescent_is_quiescent_lost; exact Q].
Qed.

(* after a loss a caller that gets the semaphore fails at once, gives it back and sends nothing *)
Lemma lost_acquire_fails s c s' o : h_lost s = true -> step_opt s (Acquire c) = Some (s', o) ->
  o = [LostFailed c] /\ h_to s' = h_to s /\ h_sem s' = h_sem s /\ h_pending s' = h_pending s.
Proof.
  intros L E. cbn [step_opt] in E. destruct (Z.leb (h_sem s) 0); [discriminate|].
  destruct (find_waiting c (h_callers s)); [|discriminate]. rewrite L in E. inversion E; subst. cbn. auto.
Qed.

(* ... hence no step after a loss puts a command on the wire *)
Lemma lost_nothing_sent s l s' o : h_lost s = true -> lost_ok s l = true -> step_opt s l = Some (s', o) ->
  (forall c op, ~ In (Sent c op) o) /\ (length (h_to s') <= length (h_to s))%nat.
Proof.
  intros L Hlo E. unfold lost_ok in Hlo. rewrite L in Hlo.
  destruct l as [c op|c|cc n| |cc op n| |c|c| |c]; try discriminate.
  - cbn [step_opt] in E. destruct (known c (h_callers s)); inversion E; subst; cbn. split; [tauto | lia].
  - destruct (lost_acquire_fails s c s' o L E) as [-> [-> _]]. split; [|lia]. intros ? ? [H|[]]. discriminate.
  - cbn [step_opt] in E. destruct (h_pending s) as [[c' op']|]; [|discriminate].
    destruct (h_resp s) as [[op n]|]; [|discriminate]. destruct (c' =? c); [|discriminate].
    destruct (op =? exc_code); inversion E; subst; cbn.
    + split; [|lia]. intros ? ? [H|[]]. discriminate.
    + unfold release_if. cbn. destruct (_ && _); cbn; (split; [|lia]); intros ? ? [H|[]]; discriminate.
  - cbn [step_opt] in E. destruct (h_pending s) as [[c' op']|].
    + destruct (c' =? c); [inversion E; subst; cbn; split; [|lia]; intros ? ? [H|[]]; discriminate|].
      destruct (find_waiting c (h_callers s)); inversion E; subst; cbn. split; [|lia]. intros ? ? [H|[]]; discriminate.
    + destruct (find_waiting c (h_callers s)); inversion E; subst; cbn. split; [|lia]. intros ? ? [H|[]]; discriminate.
  - cbn [step_opt] in E. inversion E; subst; cbn. split; [tauto | lia].
  - cbn [step_opt] in E. destruct (Z.leb (h_sem s) 0); [discriminate|].
    destruct (find_waiting c (h_callers s)); [|discriminate]. rewrite L in E. inversion E; subst; cbn.
    split; [|lia]. intros ? ? [H|[]]. discriminate.
Qed.

(* after a loss the host's own steps (Acquire, Resume) are enabled until every caller has its
   outcome, and each of them decreases the measure: nobody waits forever *)
Lemma progress_lost s : LInv s -> quiescent_lost s = false ->
  exists l, (exists c, l = Acquire c \/ l = Resume c) /\ step_opt s l <> None.
Proof.
  intros I Q. pose proof (l_pend s I) as P. unfold lost_pending_ok in P. unfold quiescent_lost in Q.
  destruct (h_pending s) as [[c op]|] eqn:Pe.
  - destruct P as [_ [_ [o [n [Hr _]]]]]. exists (Resume c). split; [eauto|].
    cbn. rewrite Pe, Hr, Z.eqb_refl. destruct (o =? exc_code); discriminate.
  - destruct P as [Hs Hr]. rewrite Hs in Q. cbn in Q. apply negb_false_iff in Q.
    destruct (existsb_find_waiting _ Q) as [x Hx]. exists (Acquire (c_id x)). split; [eauto|].
    cbn. rewrite Hs, Hx, (l_lost s I). cbn. discriminate.
Qed.

Lemma lost_eventually_aux n : forall s, LInv s -> (measure s <= n)%nat ->
  exists ls, forallb internal ls = true /\ wf_run s ls = true /\
             all_answered (run s ls) = true /\ (length ls <= n)%nat.
Proof.
  induction n as [|n IH]; intros s I M.
  - destruct (quiescent_lost s) eqn:Q.
    + exists []. cbn. repeat split; auto. apply linv_quiescent_answered; assumption.
    + destruct (progress_lost s I Q) as [l [[c Hl] Hs]].
      destruct (step_opt s l) as [[s' o]|] eqn:E; [|congruence].
      assert (internal l = true) as Hi by (destruct Hl as [->| ->]; reflexivity).
      pose proof (measure_decreases _ _ _ _ Hi E). lia.
  - destruct (quiescent_lost s) eqn:Q.
    + exists []. cbn. repeat split; auto; [apply linv_quiescent_answered; assumption | lia].
    + destruct (progress_lost s I Q) as [l [[c Hl] Hs]].
      destruct (step_opt s l) as [[s' o]|] eqn:E; [|congruence].
      assert (internal l = true) as Hi by (destruct Hl as [->| ->]; reflexivity).
      assert (label_ok l = true) as Hlo by (destruct Hl as [->| ->]; reflexivity).
      assert (lost_ok s l = true) as Hls by (unfold lost_ok; rewrite (l_lost s I); destruct Hl as [->| ->]; reflexivity).
      pose proof (measure_decreases _ _ _ _ Hi E) as D.
      assert (LInv s') as I'.
      { rewrite <- (step_some _ _ _ _ E). apply step_linv; [assumption | assumption | apply internal_cancel_ok; exact Hi | assumption]. }
      destruct (IH s' I' ltac:(lia)) as [ls [H1 [H2 [H3 H4]]]].
      exists (l :: ls). cbn [forallb wf_run run length]. rewrite Hi, Hlo, (internal_cancel_ok s l Hi), Hls, H1. cbn.
      rewrite (step_some _ _ _ _ E). repeat split; auto. lia.
Qed.

(* ------------------------------------------------------------------ the statements
   hypotheses [wf_run h_init ls]: the controller contract on every label, no cancellation of the
   caller that owns a still unanswered command (cancelling queued callers, the owner after its
   response arrived, at any point of any schedule, is allowed), nothing crosses the transport
   after it was lost.  Histories with and without a transport loss. *)
Theorem at_most_one_outstanding ls : wf_run h_init ls = true -> outstanding (run h_init ls) <= 1.
Proof. intros C. apply inv2_outstanding. apply run_inv; [exact C | exact inv2_init]. Qed.

Theorem reply_matches_caller ls : wf_run h_init ls = true ->
  forall x r, In x (h_callers (run h_init ls)) -> c_phase x = Done r -> r = c_op x.
Proof. intros C. apply inv2_reply_matches. apply run_inv; [exact C | exact inv2_init]. Qed.

(* every caller is answered with its own response, was cancelled by its own task, or failed with
   TransportLostError *)
Theorem every_caller_answered ls : wf_run h_init ls = true ->
  quiescent (run h_init ls) = true -> all_answered (run h_init ls) = true.
Proof. intros C. apply inv2_quiescent_answered. apply run_inv; [exact C | exact inv2_init]. Qed.

Theorem no_caller_waits_forever ls : wf_run h_init ls = true ->
  exists ls', forallb internal ls' = true /\ wf_run (run h_init ls) ls' = true /\
              all_answered (run h_init (ls ++ ls')) = true /\
              (length ls' <= measure (run h_init ls))%nat.
Proof.
  intros C. pose proof (run_inv ls h_init C inv2_init) as I2.
  assert (forall a b s, run s (a ++ b) = run (run s a) b) as run_app.
  { induction a as [|x a IHa]; intros b s; cbn; [reflexivity | apply IHa]. }
  destruct I2 as [[L I]|I].
  - destruct (eventually_quiescent _ I L) as [ls' [H1 [H2 [H3 H4]]]].
    exists ls'. pose proof (wf_run_internal ls' _ L H1 H2) as W. repeat split; auto.
    rewrite run_app. apply inv2_quiescent_answered; [|exact H3].
    apply run_inv; [exact W | left; auto].
  - destruct (lost_eventually_aux (measure (run h_init ls)) _ I (le_n _)) as [ls' [H1 [H2 [H3 H4]]]].
    exists ls'. rewrite run_app. auto.
Qed.

Theorem host_never_fails ls : wf_run h_init ls = true ->
  h_err (run h_init ls) = false /\ forall x, In x (h_callers (run h_init ls)) -> c_phase x <> Failed.
Proof. intros C. apply inv2_no_failure. apply run_inv; [exact C | exact inv2_init]. Qed.

(* after a loss no command is put on the wire any more, whatever the callers do *)
Theorem nothing_sent_after_loss ls : forall s, h_lost s = true -> wf_run s ls = true ->
  (length (h_to (run s ls)) <= length (h_to s))%nat.
Proof.
  induction ls as [|l ls IH]; intros s L W; cbn [run]; [lia|].
  cbn [wf_run] in W. apply andb_true_iff in W. destruct W as [W123 W4].
  apply andb_true_iff in W123. destruct W123 as [W12 W3].
  assert (h_lost (step s l) = true) as L'.
  { destruct (label_eq_lose_dec l) as [->|N]; [unfold step; cbn; reflexivity | rewrite (step_lost s l N); exact L]. }
  specialize (IH (step s l) L' W4).
  unfold step in *. destruct (step_opt s l) as [[s' o]|] eqn:E; [|exact IH].
  destruct (lost_nothing_sent s l s' o L W3 E) as [_ Hlen]. lia.
Qed.

(* a cancelled caller changes nothing for the others: cancelling a queued caller leaves the
   semaphore, the pending command and both FIFOs as they are *)
Lemma cancel_queued_frame s c s' o :
  step_opt s (Cancel c) = Some (s', o) -> cancel_ok s (Cancel c) = true ->
  (exists c' op, h_pending s = Some (c', op) /\ c' <> c) \/ h_pending s = None ->
  h_sem s' = h_sem s /\ h_pending s' = h_pending s /\ h_resp s' = h_resp s /\
  h_to s' = h_to s /\ h_from s' = h_from s.
Proof.
  intros E _ H. cbn [step_opt] in E. destruct H as [[c' [op [P N]]]|P]; rewrite P in E.
  - destruct (Z.eqb c' c) eqn:Ec; [apply Z.eqb_eq in Ec; congruence|].
    destruct (find_waiting c (h_callers s)); [|discriminate]. inversion E; subst. cbn. rewrite P. auto.
  - destruct (find_waiting c (h_callers s)); [|discriminate]. inversion E; subst. cbn. rewrite P. auto.
Qed.

(* ------------------------------------------------------------------ the hypotheses are needed *)
(* a controller that swallows a command (D03a/b/c on the unrepaired tree): the caller waits
   forever and every later caller is blocked behind it, in a quiescent state *)
Lemma no_reply_refuted :
  let s := run h_init [Call 1 1025; Acquire 1; CtrlDrop; Call 2 4099] in
  quiescent s = true /\ all_answered s = false /\
  map phase_code (h_callers s) = [(1, 1, 0); (2, 0, 0)].
Proof. vm_compute. auto. Qed.

(* num_hci_command_packets = 0 keeps the semaphore: the next caller is blocked until the
   controller sends the opcode-0 flow-control event *)
Lemma zero_credit_refuted :
  let s := run h_init [Call 1 3075; Call 2 4099; Acquire 1; CtrlReply true 0; Deliver; Resume 1] in
  quiescent s = true /\ all_answered s = false /\ h_sem s = 0 /\
  all_answered (run s [CtrlEvent true 0 1; Deliver; Acquire 2; CtrlReply true 1; Deliver; Resume 2]) = true.
Proof. vm_compute. auto. Qed.

(* a flow-control event while a command is outstanding adds a permit: the next caller trips
   `assert self.pending_command is None` (and keeps its permit for ever) *)
Lemma early_flow_control_refuted :
  let s := run h_init [Call 1 3075; Call 2 4099; Acquire 1; CtrlEvent true 0 1; Deliver; Acquire 2;
                       CtrlReply true 1; Deliver; Resume 1] in
  map phase_code (h_callers s) = [(1, 2, 3075); (2, 3, 0)] /\ h_sem s = 1.
Proof. vm_compute. auto. Qed.

(* a second event for the same command hits a completed future *)
Lemma duplicate_reply_refuted :
  h_err (run h_init [Call 1 1030; Acquire 1; CtrlReply false 1; CtrlEvent false 1030 1; Deliver; Deliver]) = true.
Proof. vm_compute. reflexivity. Qed.

(* an event with another opcode is handed to the waiting caller (the code only logs a warning) *)
Lemma wrong_opcode_refuted :
  let s := run h_init [Call 1 1030; Acquire 1; CtrlDrop; CtrlEvent false 1029 1; Deliver; Resume 1] in
  map phase_code (h_callers s) = [(1, 2, 1029)] /\ all_answered s = false.
Proof. vm_compute. auto. Qed.

(* a command with opcode 0 answered by Command Complete is taken for a flow-control event *)
Lemma opcode_zero_refuted :
  let s := run h_init [Call 1 0; Acquire 1; CtrlReply true 1; Deliver] in
  quiescent s = true /\ all_answered s = false /\ map phase_code (h_callers s) = [(1, 1, 0)] /\ h_sem s = 1.
Proof. vm_compute. auto. Qed.

(* D03m: cancelling the owner of an unanswered command frees the semaphore while the command is
   still with the controller: the next caller sends (two commands outstanding), receives the
   response to the cancelled caller's command, and its own response is dropped *)
Lemma owner_cancel_refuted :
  let ls := [Call 1 4105; Call 2 8216; Acquire 1; Cancel 1; Acquire 2] in
  contract_ok ls = true /\ wf_run h_init ls = false /\ outstanding (run h_init ls) = 2 /\
  let s := run h_init (ls ++ [CtrlReply true 1; Deliver; Resume 2; CtrlReply true 1; Deliver]) in
  map phase_code (h_callers s) = [(1, 4, 0); (2, 2, 4105)] /\ all_answered s = false /\ quiescent s = true.
Proof. vm_compute. repeat split. Qed.

(* cancelling a queued caller, or the owner once its response is in, is harmless *)
Lemma cancel_examples :
  let ls := [Call 1 4105; Call 2 8216; Call 3 3092; Acquire 1; Cancel 2; CtrlReply true 1; Deliver; Cancel 1;
             Acquire 3; CtrlReply true 1; Deliver; Resume 3] in
  wf_run h_init ls = true /\
  map phase_code (h_callers (run h_init ls)) = [(1, 4, 0); (2, 4, 0); (3, 2, 3092)] /\
  all_answered (run h_init ls) = true.
Proof. vm_compute. repeat split. Qed.

(* the transport is lost while a command is outstanding and two callers are queued: the owner
   fails with the exception, the queued callers fail as soon as they get the semaphore, nothing
   more is sent, the semaphore ends free *)
Lemma transport_lost_example :
  let ls := [Call 1 4105; Call 2 8216; Call 3 3092; Acquire 1; Lose; Resume 1; Acquire 2; Call 4 1030; Acquire 3;
             Acquire 4] in
  wf_run h_init ls = true /\
  map phase_code (h_callers (run h_init ls)) = [(1, 5, 0); (2, 5, 0); (3, 5, 0); (4, 5, 0)] /\
  all_answered (run h_init ls) = true /\ h_sem (run h_init ls) = 1 /\ h_to (run h_init ls) = [4105].
Proof. vm_compute. repeat split. Qed.


(* a send that raises: the caller gets its exception, the permit is back, nothing is pending or on
   the wire, and the callers queued behind it are served *)
Lemma send_failure_example :
  let ls := [Call 1 8204; Call 2 4105; Call 3 3092; AcquireFail 1; Acquire 2; CtrlReply true 1; Deliver; Resume 2;
             AcquireFail 3] in
  wf_run h_init ls = true /\
  map phase_code (h_callers (run h_init ls)) = [(1, 6, 0); (2, 2, 4105); (3, 6, 0)] /\
  all_answered (run h_init ls) = true /\ h_sem (run h_init ls) = 1 /\ h_pending (run h_init ls) = None /\
  outstanding (run h_init ls) = 0.
Proof. vm_compute. repeat split. Qed.

(* frame: a failed send leaves the semaphore, the pending command and both FIFOs as they were *)
Lemma send_failure_frame s c s' o : h_lost s = false -> h_pending s = None -> h_resp s = None ->
  step_opt s (AcquireFail c) = Some (s', o) ->
  o = [SendFailed c] /\ h_sem s' = h_sem s /\ h_pending s' = None /\ h_to s' = h_to s /\ h_from s' = h_from s.
Proof.
  intros L P R E. cbn [step_opt] in E. destruct (Z.leb (h_sem s) 0); [discriminate|].
  destruct (find_waiting c (h_callers s)); [|discriminate]. rewrite L, P, R in E. inversion E; subst. cbn. auto.
Qed.
