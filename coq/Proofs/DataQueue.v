(* Proofs about Model/DataQueue.v *)
From Coq Require Import ZArith List Bool Lia.
From BV Require Import Model.DataQueue.
Import ListNotations.
Open Scope Z_scope.

(* ---------- validity of histories: completion counts are unsigned ---------- *)
Definition op_ok (o : qop) : Prop :=
  match o with Completed n _ => 0 <= n | _ => True end.

(* ---------- facts about check_queue ---------- *)
Lemma check_queue_spec maxf infl cs w :
  let '(infl', cs', w', sent) := check_queue maxf infl cs w in
  w = sent ++ w' /\ infl' = infl + Z.of_nat (length sent) /\
  (infl <= maxf -> infl' <= maxf) /\ (w' <> [] -> maxf <= infl').
Proof.
  revert infl cs. induction w as [|[p h] w IH]; intros infl cs; cbn [check_queue].
  - cbn. repeat split; try lia. intros H; congruence.
  - destruct (Z.ltb infl maxf) eqn:E.
    + specialize (IH (infl + 1) (bump_conn h cs)).
      destruct (check_queue maxf (infl + 1) (bump_conn h cs) w) as [[[i c] w'] s].
      destruct IH as (Hw & Hi & Hle & Hwc). apply Z.ltb_lt in E.
      repeat split.
      * cbn. now rewrite Hw at 1.
      * cbn [length]. lia.
      * lia.
      * exact Hwc.
    + apply Z.ltb_ge in E. cbn. repeat split; try lia.
Qed.

Lemma run_check_spec s :
  let '(s', sent) := run_check s in
  q_wait s = sent ++ q_wait s' /\
  q_inflight s' = q_inflight s + Z.of_nat (length sent) /\
  q_max s' = q_max s /\
  (q_inflight s <= q_max s -> q_inflight s' <= q_max s) /\
  (q_wait s' <> [] -> q_max s <= q_inflight s').
Proof.
  unfold run_check.
  pose proof (check_queue_spec (q_max s) (q_inflight s) (q_conns s) (q_wait s)) as H.
  destruct (check_queue (q_max s) (q_inflight s) (q_conns s) (q_wait s)) as [[[i c] w'] snt].
  cbn. tauto.
Qed.

(* ---------- invariant 1: credit bound ---------- *)
Definition credit_inv (s : qstate) : Prop := 0 <= q_inflight s <= q_max s.

Lemma find_conn_nonneg h cs c :
  Forall (fun c => 0 <= c_inflight c) cs -> find_conn h cs = Some c -> 0 <= c_inflight c.
Proof.
  induction cs as [|x cs IH]; cbn; intros HF Hf; [discriminate|].
  inversion HF; subst. destruct (Z.eqb (c_handle x) h); [now inversion Hf; subst|auto].
Qed.

(* per-connection counters never exceed the global counter only matters for flush:
   we carry the stronger invariant  sum of per-connection in-flight <= ... is NOT an
   invariant of the code (over-reports clamp the two counters independently), so the
   flush case is handled by a clamp-free argument: flush subtracts c_inflight, which
   may make the global counter negative only if c_inflight > q_inflight. We therefore
   carry:  for every connection c, 0 <= c_inflight c <= q_inflight. *)
Definition conns_inv (s : qstate) : Prop :=
  Forall (fun c => 0 <= c_inflight c <= q_inflight s) (q_conns s).

Lemma bump_conn_inv h cs k :
  0 <= k ->
  Forall (fun c => 0 <= c_inflight c <= k) cs ->
  Forall (fun c => 0 <= c_inflight c <= k + 1) (bump_conn h cs).
Proof.
  intros Hk. induction cs as [|x cs IH]; cbn; intros HF.
  - constructor; [cbn; lia|constructor].
  - inversion HF; subst. destruct (Z.eqb (c_handle x) h).
    + constructor; [cbn; lia|]. eapply Forall_impl; [|eassumption]. cbn; intros; lia.
    + constructor; [lia|auto].
Qed.
(* ---------- invariant: global count = sum of per-connection counts ---------- *)
Fixpoint sum_conns (cs : list conn) : Z :=
  match cs with [] => 0 | c :: cs' => c_inflight c + sum_conns cs' end.

Definition conns_nonneg (cs : list conn) : Prop := Forall (fun c => 0 <= c_inflight c) cs.

Fixpoint handles (cs : list conn) : list Z :=
  match cs with [] => [] | c :: cs' => c_handle c :: handles cs' end.

Definition drained_ok (cs : list conn) : Prop :=
  Forall (fun c => c_inflight c = 0 <-> c_drained c = true) cs.

Record inv (s : qstate) : Prop := {
  inv_sum : q_inflight s = sum_conns (q_conns s);
  inv_nonneg : conns_nonneg (q_conns s);
  inv_nodup : NoDup (handles (q_conns s));
  inv_bound : q_inflight s <= q_max s;
  inv_work : q_wait s <> [] -> q_max s <= q_inflight s;
  inv_drained : drained_ok (q_conns s)
}.

Lemma bump_sum h cs : sum_conns (bump_conn h cs) = sum_conns cs + 1.
Proof. induction cs as [|x cs IH]; cbn; [lia|]. destruct (Z.eqb _ _); cbn; lia. Qed.

Lemma bump_nonneg h cs : conns_nonneg cs -> conns_nonneg (bump_conn h cs).
Proof.
  unfold conns_nonneg. induction cs as [|x cs IH]; cbn; intros H.
  - constructor; [cbn; lia|constructor].
  - inversion H; subst. destruct (Z.eqb _ _); constructor; cbn; auto; lia.
Qed.

Lemma bump_handles_in h cs k : In k (handles (bump_conn h cs)) -> k = h \/ In k (handles cs).
Proof.
  induction cs as [|x cs IH]; cbn; [intuition|].
  destruct (Z.eqb (c_handle x) h) eqn:E; cbn.
  - apply Z.eqb_eq in E. intros [H|H]; [left; lia | right; right; exact H].
  - intros [H|H]; [right; left; exact H|]. destruct (IH H); tauto.
Qed.

Lemma bump_nodup h cs : NoDup (handles cs) -> NoDup (handles (bump_conn h cs)).
Proof.
  induction cs as [|x cs IH]; cbn; intros H.
  - constructor; [tauto|constructor].
  - inversion H; subst. destruct (Z.eqb (c_handle x) h) eqn:E; cbn.
    + constructor; [|assumption]. apply Z.eqb_eq in E. now rewrite <- E.
    + constructor; [|auto]. intros Hin. apply bump_handles_in in Hin.
      apply Z.eqb_neq in E. destruct Hin; [congruence|contradiction].
Qed.

Lemma bump_drained h cs : conns_nonneg cs -> drained_ok cs -> drained_ok (bump_conn h cs).
Proof.
  unfold conns_nonneg, drained_ok. induction cs as [|x cs IH]; cbn; intros Hn H.
  - constructor; [cbn; lia|constructor].
  - inversion H; subst. inversion Hn; subst.
    destruct (Z.eqb _ _); constructor; cbn; auto; lia.
Qed.

Lemma check_queue_conns maxf infl cs w :
  let '(infl', cs', w', sent) := check_queue maxf infl cs w in
  sum_conns cs' = sum_conns cs + Z.of_nat (length sent) /\
  (conns_nonneg cs -> conns_nonneg cs') /\
  (NoDup (handles cs) -> NoDup (handles cs')) /\
  (conns_nonneg cs -> drained_ok cs -> drained_ok cs').
Proof.
  revert infl cs. induction w as [|[p h] w IH]; intros infl cs; cbn [check_queue].
  - cbn. repeat split; auto; lia.
  - destruct (Z.ltb infl maxf).
    + specialize (IH (infl + 1) (bump_conn h cs)).
      destruct (check_queue maxf (infl + 1) (bump_conn h cs) w) as [[[i c] w'] s].
      destruct IH as (Hs & Hn & Hd & Hdr).
      repeat split.
      * rewrite Hs, bump_sum. cbn [length]. lia.
      * intros; apply Hn, bump_nonneg; assumption.
      * intros; apply Hd, bump_nodup; assumption.
      * intros; apply Hdr; [apply bump_nonneg|apply bump_drained]; assumption.
    + cbn. repeat split; auto; lia.
Qed.

(* run_check re-establishes the whole invariant from its arithmetic part *)
Lemma run_check_inv s :
  q_inflight s = sum_conns (q_conns s) -> conns_nonneg (q_conns s) ->
  NoDup (handles (q_conns s)) -> q_inflight s <= q_max s ->
  drained_ok (q_conns s) ->
  inv (fst (run_check s)).
Proof.
  intros Hs Hn Hd Hb Hdr.
  pose proof (check_queue_spec (q_max s) (q_inflight s) (q_conns s) (q_wait s)) as H1.
  pose proof (check_queue_conns (q_max s) (q_inflight s) (q_conns s) (q_wait s)) as H2.
  unfold run_check.
  destruct (check_queue (q_max s) (q_inflight s) (q_conns s) (q_wait s)) as [[[i c] w'] snt].
  destruct H1 as (Hw & Hi & Hle & Hwc). destruct H2 as (Hsum & Hnn & Hnd & Hdd).
  cbn. constructor; cbn; auto; lia.
Qed.

Lemma find_conn_in h cs c : find_conn h cs = Some c -> In c cs /\ c_handle c = h.
Proof.
  induction cs as [|x cs IH]; cbn; [discriminate|].
  destruct (Z.eqb (c_handle x) h) eqn:E.
  - intros H; inversion H; subst. apply Z.eqb_eq in E. auto.
  - intros H. destruct (IH H). auto.
Qed.

Lemma remove_conn_none h l : ~ In h (handles l) -> remove_conn h l = l.
Proof.
  induction l as [|y l IHl]; cbn; [reflexivity|]. intros Hni.
  destruct (Z.eqb (c_handle y) h) eqn:E2; [apply Z.eqb_eq in E2; tauto|].
  f_equal. apply IHl. tauto.
Qed.

Lemma remove_conn_sum h cs c :
  NoDup (handles cs) -> find_conn h cs = Some c ->
  sum_conns (remove_conn h cs) = sum_conns cs - c_inflight c.
Proof.
  induction cs as [|x cs IH]; cbn; [discriminate|]. intros Hd Hf.
  inversion Hd; subst. destruct (Z.eqb (c_handle x) h) eqn:E.
  - inversion Hf; subst. apply Z.eqb_eq in E.
    rewrite remove_conn_none; [lia|]. now rewrite <- E.
  - cbn. rewrite IH; auto. lia.
Qed.

Lemma remove_conn_incl h cs k : In k (handles (remove_conn h cs)) -> In k (handles cs).
Proof.
  induction cs as [|x cs IH]; cbn; [tauto|].
  destruct (Z.eqb _ _); cbn; tauto.
Qed.

Lemma remove_conn_nodup h cs : NoDup (handles cs) -> NoDup (handles (remove_conn h cs)).
Proof.
  induction cs as [|x cs IH]; cbn; intros H; [constructor|]. inversion H; subst.
  destruct (Z.eqb _ _); cbn; auto. constructor; auto.
  intros Hin; apply remove_conn_incl in Hin; contradiction.
Qed.

Lemma remove_conn_Forall (P : conn -> Prop) h cs : Forall P cs -> Forall P (remove_conn h cs).
Proof.
  induction cs as [|x cs IH]; cbn; intros H; [constructor|]. inversion H; subst.
  destruct (Z.eqb _ _); auto.
Qed.

Lemma remove_conn_absent h cs : ~ In h (handles (remove_conn h cs)).
Proof.
  induction cs as [|x cs IH]; cbn; [tauto|].
  destruct (Z.eqb (c_handle x) h) eqn:E; cbn; [assumption|].
  apply Z.eqb_neq in E. tauto.
Qed.

Lemma set_conn_sum h n d cs c :
  NoDup (handles cs) -> find_conn h cs = Some c ->
  sum_conns (set_conn h n d cs) = sum_conns cs - c_inflight c + n.
Proof.
  induction cs as [|x cs IH]; cbn; [discriminate|]. intros Hd Hf.
  inversion Hd; subst. destruct (Z.eqb (c_handle x) h) eqn:E.
  - inversion Hf; subst. cbn. lia.
  - cbn. rewrite IH; auto. lia.
Qed.

Lemma set_conn_handles h n d cs : handles (set_conn h n d cs) = handles cs.
Proof.
  induction cs as [|x cs IH]; cbn; [reflexivity|].
  destruct (Z.eqb (c_handle x) h) eqn:E; cbn; [apply Z.eqb_eq in E; now rewrite E|now rewrite IH].
Qed.

Lemma set_conn_Forall (P : conn -> Prop) h n d cs :
  Forall P cs -> P (mkConn h n d) -> Forall P (set_conn h n d cs).
Proof.
  induction cs as [|x cs IH]; cbn; intros H Hp; [constructor|]. inversion H; subst.
  destruct (Z.eqb _ _); constructor; auto.
Qed.

Lemma inv_init maxf : 0 <= maxf -> inv (q_init maxf).
Proof.
  intros H. constructor; cbn; try constructor; try lia. intros; congruence.
Qed.

Lemma step_inv s o : op_ok o -> inv s -> inv (fst (q_step s o)).
Proof.
  intros Hok [Hs Hn Hd Hb Hw Hdr]. destruct o as [p h|h|n h]; cbn [q_step].
  - apply run_check_inv; cbn; auto.
  - cbn [q_conns q_inflight q_max q_wait q_queued q_completed].
    destruct (find_conn h (q_conns s)) as [c|] eqn:Hf.
    + destruct (find_conn_in _ _ _ Hf) as [Hin _].
      assert (0 <= c_inflight c) by (eapply Forall_forall in Hn; eauto).
      apply run_check_inv; cbn.
      * rewrite (remove_conn_sum _ _ _ Hd Hf). lia.
      * apply remove_conn_Forall; assumption.
      * apply remove_conn_nodup; assumption.
      * lia.
      * apply remove_conn_Forall; assumption.
    + apply run_check_inv; cbn; auto.
  - destruct (find_conn h (q_conns s)) as [c|] eqn:Hf.
    + destruct (find_conn_in _ _ _ Hf) as [Hin _].
      assert (0 <= c_inflight c) by (eapply Forall_forall in Hn; eauto).
      cbn in Hok.
      apply run_check_inv; cbn.
      * rewrite (set_conn_sum _ _ _ _ _ Hd Hf). destruct (Z.leb n (c_inflight c)) eqn:E; lia.
      * apply set_conn_Forall; [assumption|]. cbn.
        destruct (Z.leb n (c_inflight c)) eqn:E; [apply Z.leb_le in E|]; lia.
      * now rewrite set_conn_handles.
      * destruct (Z.leb n (c_inflight c)) eqn:E; [apply Z.leb_le in E|]; lia.
      * apply set_conn_Forall; [assumption|]. cbn.
        assert (Hc : c_inflight c = 0 <-> c_drained c = true)
          by (eapply Forall_forall in Hdr; eauto).
        destruct (Z.leb n (c_inflight c)) eqn:E; [apply Z.leb_le in E|apply Z.leb_gt in E].
        -- split.
           ++ intros E0. apply Z.eqb_eq in E0. now rewrite E0.
           ++ intros Ho. apply orb_true_iff in Ho. destruct Ho as [Ho|Ho].
              ** now apply Z.eqb_eq in Ho.
              ** apply Hc in Ho. lia.
        -- split; [intros _|intros _; lia].
           replace (c_inflight c - c_inflight c) with 0 by lia. reflexivity.
    + cbn. constructor; assumption.
Qed.

Definition ops_ok (ops : list qop) : Prop := Forall op_ok ops.

Lemma run_inv ops : forall s, ops_ok ops -> inv s -> inv (fst (q_run s ops)).
Proof.
  induction ops as [|o ops IH]; intros s Hok Hi; cbn [q_run]; [exact Hi|].
  inversion Hok; subst.
  pose proof (step_inv s o H1 Hi) as H. destruct (q_step s o) as [s1 o1]. cbn in H.
  specialize (IH s1 H2 H). destruct (q_run s1 ops) as [s2 o2]. exact IH.
Qed.

(* ---------- FIFO / exactly once ---------- *)
(* The simplest possible specification of the waiting list: an unbounded FIFO in
   which Flush h deletes h's packets that have not been handed over yet. *)
Definition spec_wait (w : list (Z * Z)) (o : qop) : list (Z * Z) :=
  match o with
  | Enqueue p h => w ++ [(p, h)]
  | Flush h => filter (not_handle h) w
  | Completed _ _ => w
  end.

(* per step: what is handed over, followed by what still waits, is exactly the
   spec's list: packets leave from the front, in order, each once, none invented *)
Lemma step_fifo s o :
  let '(s', sent) := q_step s o in sent ++ q_wait s' = spec_wait (q_wait s) o.
Proof.
  assert (R : forall t, let '(t', snt) := run_check t in snt ++ q_wait t' = q_wait t).
  { intros t. pose proof (run_check_spec t) as H. destruct (run_check t). symmetry; tauto. }
  destruct o as [p h|h|n h]; cbn [q_step spec_wait].
  - match goal with |- context [run_check ?t] => specialize (R t) end.
    destruct (run_check _). exact R.
  - match goal with |- context [run_check ?t] => specialize (R t) end.
    destruct (run_check _). rewrite R. destruct (find_conn _ _); reflexivity.
  - destruct (find_conn _ _).
    + match goal with |- context [run_check ?t] => specialize (R t) end.
      destruct (run_check _). exact R.
    + reflexivity.
Qed.

Definition is_handle (h : Z) (ph : Z * Z) : bool := Z.eqb (snd ph) h.

Fixpoint enqueued (h : Z) (ops : list qop) : list (Z * Z) :=
  match ops with
  | [] => []
  | Enqueue p h' :: ops' => if Z.eqb h' h then (p, h') :: enqueued h ops' else enqueued h ops'
  | _ :: ops' => enqueued h ops'
  end.

Fixpoint flushes (h : Z) (ops : list qop) : bool :=
  match ops with
  | [] => false
  | Flush h' :: ops' => orb (Z.eqb h' h) (flushes h ops')
  | _ :: ops' => flushes h ops'
  end.

Lemma filter_is_not h h' w : h' <> h ->
  filter (is_handle h) (filter (not_handle h') w) = filter (is_handle h) w.
Proof.
  intros Hne. induction w as [|[p k] w IH]; cbn; [reflexivity|].
  unfold not_handle, is_handle in *. cbn.
  destruct (Z.eqb k h') eqn:E1; destruct (Z.eqb k h) eqn:E2; cbn; rewrite ?E2, ?IH; auto.
  apply Z.eqb_eq in E1, E2. congruence.
Qed.

(* For a connection that is not flushed during the history, everything enqueued is
   handed over exactly once and in order, or is still waiting behind what was sent. *)
Lemma fifo_per_handle h ops : forall s,
  flushes h ops = false ->
  let '(s', sent) := q_run s ops in
  filter (is_handle h) sent ++ filter (is_handle h) (q_wait s') =
  filter (is_handle h) (q_wait s) ++ enqueued h ops.
Proof.
  induction ops as [|o ops IH]; intros s Hfl; cbn [q_run].
  - cbn. now rewrite app_nil_r.
  - pose proof (step_fifo s o) as Hstep. destruct (q_step s o) as [s1 o1].
    assert (Hfl' : flushes h ops = false).
    { destruct o; cbn in Hfl; auto. apply orb_false_iff in Hfl; tauto. }
    specialize (IH s1 Hfl'). destruct (q_run s1 ops) as [s2 o2].
    rewrite filter_app, <- app_assoc, IH, app_assoc, <- filter_app, Hstep.
    destruct o as [p k|k|n k]; cbn [spec_wait enqueued].
    + rewrite filter_app. cbn. unfold is_handle at 2. cbn.
      destruct (Z.eqb k h); cbn; now rewrite <- ?app_assoc, ?app_nil_r.
    + cbn in Hfl. apply orb_false_iff in Hfl. destruct Hfl as [Hk _].
      apply Z.eqb_neq in Hk. now rewrite filter_is_not.
    + reflexivity.
Qed.

(* After a flush of h, none of h's packets is waiting and none was handed over in
   that step. *)

Lemma flush_no_h s h :
  let '(s', sent) := q_step s (Flush h) in
  filter (is_handle h) (sent ++ q_wait s') = [].
Proof.
  pose proof (step_fifo s (Flush h)) as H. destruct (q_step s (Flush h)) as [s' sent].
  rewrite H. cbn. clear H. induction (q_wait s) as [|[p k] w IH]; cbn; [reflexivity|].
  unfold not_handle, is_handle in *. cbn. destruct (Z.eqb k h) eqn:E; cbn; rewrite ?E; cbn; auto.
Qed.
