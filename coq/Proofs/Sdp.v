(* SDP (Model/Sdp.v): pattern matching, attribute selection, continuation chunking and the
   client accumulation loops, and independence of simultaneously connected clients. *)
From Coq Require Import ZArith List Bool Lia Sorted.
From BV Require Import Model.C19Chunks Model.Sdp Proofs.C19Chunks.
Import ListNotations.
Open Scope Z_scope.

(* ------------------------------------------------------------------ matching *)
Lemma uuid_in_seq : forall u l, uuid_in u (DSeq l) = existsb (uuid_in u) l.
Proof.
  intros u l. simpl. induction l as [|x l IH]; [reflexivity|].
  simpl. rewrite <- IH. destruct (uuid_in u x); reflexivity.
Qed.

Lemma service_has_uuid_iff : forall svc u,
  service_has_uuid svc u = true <-> exists a, In a svc /\ uuid_in u (at_val a) = true.
Proof. intros. unfold service_has_uuid. apply existsb_exists. Qed.

(* A record is returned exactly when it is registered and contains EVERY UUID of the pattern. *)
Theorem match_iff_all_uuids : forall recs pat h svc,
  In (h, svc) (match_services recs pat) <->
  In (h, svc) recs /\ forall u, In u pat -> service_has_uuid svc u = true.
Proof.
  intros. unfold match_services. rewrite filter_In. unfold record_matches. simpl.
  rewrite forallb_forall. tauto.
Qed.

(* and the records come in the order of the table, each at most once more than there *)
Lemma match_services_cons : forall h svc recs pat,
  match_services ((h, svc) :: recs) pat =
  if record_matches pat svc then (h, svc) :: match_services recs pat else match_services recs pat.
Proof. reflexivity. Qed.

(* ------------------------------------------------------------------ attribute selection *)
Lemma In_ins_attr : forall a b l, In a (ins_attr b l) <-> a = b \/ In a l.
Proof.
  intros a b l. induction l as [|c l IH]; simpl.
  - intuition.
  - destruct (at_id b <=? at_id c); simpl; rewrite ?IH; intuition.
Qed.

Lemma In_sort_attrs : forall a l, In a (sort_attrs l) <-> In a l.
Proof.
  intros a l. induction l as [|b l IH]; simpl; [tauto|].
  rewrite In_ins_attr, IH. intuition.
Qed.

Definition id_le (a b : attr) : Prop := at_id a <= at_id b.

Lemma ins_attr_sorted : forall a l, StronglySorted id_le l -> StronglySorted id_le (ins_attr a l).
Proof.
  intros a l H. induction H as [|b l Hs IH Hall]; simpl.
  - constructor; constructor.
  - destruct (at_id a <=? at_id b) eqn:E.
    + apply Z.leb_le in E. constructor.
      * constructor; assumption.
      * constructor; [exact E|]. eapply Forall_impl; [|exact Hall].
        intros c Hc. unfold id_le in *. lia.
    + apply Z.leb_gt in E. constructor; [exact IH|].
      apply Forall_forall. intros c Hc. apply In_ins_attr in Hc. destruct Hc as [->|Hc].
      * unfold id_le. lia.
      * rewrite Forall_forall in Hall. exact (Hall c Hc).
Qed.

Lemma sort_attrs_sorted : forall l, StronglySorted id_le (sort_attrs l).
Proof. induction l; simpl; [constructor|apply ins_attr_sorted; assumption]. Qed.

(* get_service_attributes returns exactly the attributes of the record that fall in one of the
   requested ids / ranges, in increasing id order. *)
Theorem get_service_attributes_spec : forall svc ids,
  (forall a, In a (get_service_attributes svc ids) <->
             In a svc /\ exists i, In i ids /\ id_lo i <= at_id a <= id_hi i) /\
  StronglySorted id_le (get_service_attributes svc ids).
Proof.
  intros svc ids. split; [|apply sort_attrs_sorted].
  intro a. unfold get_service_attributes, select_attrs. rewrite In_sort_attrs, in_flat_map. split.
  - intros (i & Hi & Ha). apply filter_In in Ha. destruct Ha as [Ha Hr].
    unfold in_range in Hr. apply andb_true_iff in Hr. destruct Hr as [H1 H2].
    apply Z.leb_le in H1, H2. split; [exact Ha|]. exists i. tauto.
  - intros (Ha & i & Hi & H1 & H2). exists i. split; [exact Hi|]. apply filter_In. split; [exact Ha|].
    unfold in_range. apply andb_true_iff. split; apply Z.leb_le; assumption.
Qed.

(* ------------------------------------------------------------------ one chunk *)
(* get_next_response_payload: with a budget of at least one byte every non-final piece is
   non-empty and the remainder strictly shorter: the continuation loop terminates. *)
Lemma next_payload_more : forall mx b,
  0 <= mx -> mx < zlen b ->
  next_payload mx b = (firstn (Z.to_nat mx) b, true, RBytes (skipn (Z.to_nat mx) b)) /\
  zlen (firstn (Z.to_nat mx) b) = mx /\ zlen (skipn (Z.to_nat mx) b) = zlen b - mx.
Proof.
  intros mx b H0 H. unfold next_payload. apply Z.ltb_lt in H. rewrite H. apply Z.ltb_lt in H.
  split; [reflexivity|]. unfold zlen in *. rewrite firstn_length, skipn_length. lia.
Qed.

Lemma next_payload_last : forall mx b,
  zlen b <= mx -> next_payload mx b = (b, false, RNone).
Proof. intros mx b H. unfold next_payload. apply Z.ltb_ge in H. rewrite H. reflexivity. Qed.

Lemma next_payload_fits : forall mx b, 0 <= mx ->
  zlen (fst (fst (next_payload mx b))) <= mx.
Proof.
  intros mx b H0. unfold next_payload. destruct (mx <? zlen b) eqn:E; simpl.
  - apply Z.ltb_lt in E. unfold zlen in *. rewrite firstn_length. lia.
  - apply Z.ltb_ge in E. exact E.
Qed.

(* ------------------------------------------------------------------ the bytes loops *)
Lemma client_bytes_S : forall w recs mtu q cur c acc,
  client_bytes (S w) recs mtu q cur c acc =
  let '(cur', r) := handle recs mtu cur (set_cont q c) in
  match q, r with
  | QAttr _ _ _ _, EAttr payload more
  | QSearchAttr _ _ _ _, ESearchAttr payload more =>
      if more then client_bytes w recs mtu q cur' CValid (acc ++ payload)
      else (cur', CDoneBytes (acc ++ payload))
  | _, EError code => (cur', CErr code)
  | _, _ => (cur', CHang)
  end.
Proof. reflexivity. Qed.

Lemma client_handles_S : forall w recs mtu q cur c acc,
  client_handles (S w) recs mtu q cur c acc =
  let '(cur', r) := handle recs mtu cur (set_cont q c) in
  match q, r with
  | QSearch _ _ _, ESearch _ hs more =>
      if more then client_handles w recs mtu q cur' CValid (acc ++ hs)
      else (cur', CDoneHandles (acc ++ hs))
  | _, EError code => (cur', CErr code)
  | _, _ => (cur', CHang)
  end.
Proof. reflexivity. Qed.

Definition bytes_req (q : req) : option Z :=
  match q with QAttr _ mb _ _ => Some mb | QSearchAttr _ mb _ _ => Some mb | QSearch _ _ _ => None end.

Lemma handle_valid_bytes : forall recs mtu q mb b,
  bytes_req q = Some mb ->
  handle recs mtu (RBytes b) (set_cont q CValid) =
  let '(payload, more, cur') := next_payload (Z.min mb (mtu - 9)) b in
  (cur', match q with QAttr _ _ _ _ => EAttr payload more | _ => ESearchAttr payload more end).
Proof.
  intros recs mtu q mb b Hq.
  destruct q as [pt mc c|hd mb' ids c|pt mb' ids c]; simpl in Hq; inversion Hq; subst;
    unfold handle, respond_bytes; cbn [set_cont req_cont];
    destruct (next_payload (Z.min mb (mtu - 9)) b) as [[pp mm] cc]; reflexivity.
Qed.

(* continuation requests against a pending bytes response [b]: for EVERY watchdog value w and
   every size, w * budget >= size suffices; the pieces are concatenated in order *)
Lemma bytes_loop : forall w recs mtu q mb b acc,
  bytes_req q = Some mb -> 1 <= Z.min mb (mtu - 9) ->
  (1 <= w)%nat -> zlen b <= Z.of_nat w * Z.min mb (mtu - 9) ->
  client_bytes w recs mtu q (RBytes b) CValid acc = (RNone, CDoneBytes (acc ++ b)).
Proof.
  induction w as [|w IH]; intros recs mtu q mb b acc Hq Hmx Hw Hb; [lia|].
  set (mx := Z.min mb (mtu - 9)) in *.
  rewrite client_bytes_S. rewrite (handle_valid_bytes recs mtu q mb b Hq). fold mx.
  destruct (Z.lt_ge_cases mx (zlen b)) as [Hlt|Hge].
  - destruct (next_payload_more mx b ltac:(lia) Hlt) as (E & L1 & L2). rewrite E.
    assert (Hw' : (1 <= w)%nat) by (destruct w; [lia|lia]).
    assert (Hb' : zlen (skipn (Z.to_nat mx) b) <= Z.of_nat w * mx) by (rewrite L2; lia).
    pose proof (IH recs mtu q mb (skipn (Z.to_nat mx) b) (acc ++ firstn (Z.to_nat mx) b) Hq Hmx Hw' Hb') as R.
    destruct q; simpl in Hq; try discriminate; rewrite R, <- app_assoc, firstn_skipn; reflexivity.
  - rewrite (next_payload_last mx b ltac:(lia)).
    destruct q; simpl in Hq; try discriminate; reflexivity.
Qed.

(* with a budget of zero bytes and something to send the transaction never ends: whatever the
   watchdog, the client is left with a partial (empty) answer and the server state is unchanged *)
Lemma bytes_loop_zero_budget : forall w recs mtu q mb b acc,
  bytes_req q = Some mb -> Z.min mb (mtu - 9) = 0 -> b <> [] ->
  client_bytes w recs mtu q (RBytes b) CValid acc = (RBytes b, CPartialBytes acc).
Proof.
  induction w as [|w IH]; intros recs mtu q mb b acc Hq Hmx Hb; [reflexivity|].
  rewrite client_bytes_S. rewrite (handle_valid_bytes recs mtu q mb b Hq). rewrite Hmx.
  assert (Hl : 0 < zlen b) by (destruct b; [congruence|rewrite zlen_cons; pose proof (zlen_nonneg _ b); lia]).
  destruct (next_payload_more 0 b ltac:(lia) Hl) as (E & _ & _). rewrite E.
  change (Z.to_nat 0) with 0%nat. simpl firstn. simpl skipn.
  pose proof (IH recs mtu q mb b acc Hq Hmx Hb) as R.
  destruct q; simpl in Hq; try discriminate; rewrite app_nil_r; exact R.
Qed.

(* the first request of a transaction computes the response and then behaves as a continuation *)
Lemma handle_fresh_attr : forall recs mtu cur h mb ids svc,
  lookup_record h recs = Some svc ->
  handle recs mtu cur (QAttr h mb ids CFresh) =
  handle recs mtu (RBytes (attr_list_bytes (get_service_attributes svc ids))) (QAttr h mb ids CValid).
Proof. intros. unfold handle. cbn [req_cont]. rewrite H. reflexivity. Qed.

Lemma handle_fresh_search_attr : forall recs mtu cur pat mb ids,
  handle recs mtu cur (QSearchAttr pat mb ids CFresh) =
  handle recs mtu (RBytes (search_attr_bytes recs pat ids)) (QSearchAttr pat mb ids CValid).
Proof. reflexivity. Qed.

Lemma client_bytes_first : forall w recs mtu q cur b acc,
  handle recs mtu cur (set_cont q CFresh) = handle recs mtu (RBytes b) (set_cont q CValid) ->
  client_bytes (S w) recs mtu q cur CFresh acc = client_bytes (S w) recs mtu q (RBytes b) CValid acc.
Proof. intros. rewrite !client_bytes_S. rewrite H. reflexivity. Qed.

Definition capacity (mtu : Z) : Z := Z.min 65535 (mtu - 9).

(* Client.get_attributes against the server: whatever partial response a previous transaction
   left behind, for every MTU >= 10 and every response of at most 64 pieces, the client
   accumulates exactly the serialised attribute list, and the server is left clean. *)
Theorem get_attributes_exact : forall recs mtu cur h ids svc,
  lookup_record h recs = Some svc -> 10 <= mtu ->
  zlen (attr_list_bytes (get_service_attributes svc ids)) <= 64 * capacity mtu ->
  client_get_attributes recs mtu cur h ids =
  (RNone, CDoneBytes (attr_list_bytes (get_service_attributes svc ids))).
Proof.
  intros recs mtu cur h ids svc Hl Hmtu Hsz. unfold client_get_attributes, WATCHDOG.
  rewrite (client_bytes_first 63 recs mtu (QAttr h 65535 ids CFresh) cur
             (attr_list_bytes (get_service_attributes svc ids)) [])
    by (apply handle_fresh_attr; exact Hl).
  apply (bytes_loop 64 recs mtu (QAttr h 65535 ids CFresh) 65535); try reflexivity; unfold capacity in *; lia.
Qed.

Theorem get_attributes_unknown_handle : forall recs mtu cur h ids,
  lookup_record h recs = None ->
  client_get_attributes recs mtu cur h ids = (RNone, CErr ERR_INVALID_HANDLE).
Proof.
  intros. unfold client_get_attributes. change WATCHDOG with (S 63).
  rewrite client_bytes_S. unfold handle. cbn [set_cont req_cont]. rewrite H. reflexivity.
Qed.

Theorem search_attributes_exact : forall recs mtu cur pat ids,
  10 <= mtu -> zlen (search_attr_bytes recs pat ids) <= 64 * capacity mtu ->
  client_search_attributes recs mtu cur pat ids = (RNone, CDoneBytes (search_attr_bytes recs pat ids)).
Proof.
  intros recs mtu cur pat ids Hmtu Hsz. unfold client_search_attributes, WATCHDOG.
  rewrite (client_bytes_first 63 recs mtu (QSearchAttr pat 65535 ids CFresh) cur (search_attr_bytes recs pat ids) [])
    by apply handle_fresh_search_attr.
  apply (bytes_loop 64 recs mtu (QSearchAttr pat 65535 ids CFresh) 65535); try reflexivity; unfold capacity in *; lia.
Qed.

(* the same for EVERY watchdog value and EVERY size: concat(chunks) = response *)
Theorem chunks_concat_response : forall w recs mtu cur pat mb ids,
  1 <= Z.min mb (mtu - 9) -> (1 <= w)%nat ->
  zlen (search_attr_bytes recs pat ids) <= Z.of_nat w * Z.min mb (mtu - 9) ->
  client_bytes w recs mtu (QSearchAttr pat mb ids CFresh) cur CFresh [] =
  (RNone, CDoneBytes (search_attr_bytes recs pat ids)).
Proof.
  intros w recs mtu cur pat mb ids Hmx Hw Hsz. destruct w as [|w]; [lia|].
  rewrite (client_bytes_first w recs mtu (QSearchAttr pat mb ids CFresh) cur (search_attr_bytes recs pat ids) [])
    by apply handle_fresh_search_attr.
  apply (bytes_loop (S w) recs mtu (QSearchAttr pat mb ids CFresh) mb); try reflexivity; assumption.
Qed.

(* the guard is needed: a maximum_attribute_byte_count of 0 never terminates *)
Theorem zero_byte_count_never_terminates : forall w recs mtu cur pat ids,
  9 <= mtu ->
  client_bytes (S w) recs mtu (QSearchAttr pat 0 ids CFresh) cur CFresh [] =
  (RBytes (search_attr_bytes recs pat ids), CPartialBytes []).
Proof.
  intros w recs mtu cur pat ids Hmtu.
  rewrite (client_bytes_first w recs mtu (QSearchAttr pat 0 ids CFresh) cur (search_attr_bytes recs pat ids) [])
    by apply handle_fresh_search_attr.
  apply (bytes_loop_zero_budget (S w) recs mtu (QSearchAttr pat 0 ids CFresh) 0); try reflexivity.
  - lia.
  - unfold search_attr_bytes, seq_bytes.
    destruct (zlen _ <=? 255); [discriminate|]. destruct (zlen _ <=? 65535); discriminate.
Qed.

(* ------------------------------------------------------------------ the handles loop *)
Lemma handle_valid_handles : forall recs mtu pat mc total hs,
  handle recs mtu (RHandles total hs) (QSearch pat mc CValid) =
  (RHandles total (skipn (Z.to_nat ((mtu - 11) / 4)) hs),
   ESearch total (firstn (Z.to_nat ((mtu - 11) / 4)) hs) (negb (is_nil (skipn (Z.to_nat ((mtu - 11) / 4)) hs)))).
Proof. reflexivity. Qed.

Lemma handles_loop : forall w recs mtu pat mc total hs acc,
  1 <= (mtu - 11) / 4 -> (1 <= w)%nat -> zlen hs <= Z.of_nat w * ((mtu - 11) / 4) ->
  client_handles w recs mtu (QSearch pat mc CFresh) (RHandles total hs) CValid acc =
  (RHandles total [], CDoneHandles (acc ++ hs)).
Proof.
  induction w as [|w IH]; intros recs mtu pat mc total hs acc Hper Hw Hb; [lia|].
  set (per := (mtu - 11) / 4) in *.
  rewrite client_handles_S. cbn [set_cont]. rewrite handle_valid_handles. fold per.
  destruct (skipn (Z.to_nat per) hs) as [|x rest] eqn:Es.
  - cbn [is_nil negb]. rewrite <- (firstn_skipn (Z.to_nat per) hs) at 2. rewrite Es, app_nil_r. reflexivity.
  - cbn [is_nil negb].
    assert (Hlen : zlen (x :: rest) = zlen hs - per /\ per < zlen hs).
    { rewrite <- Es. unfold zlen. rewrite skipn_length.
      assert (length (skipn (Z.to_nat per) hs) <> 0%nat) by (rewrite Es; discriminate).
      rewrite skipn_length in H. lia. }
    assert (Hw' : (1 <= w)%nat) by (destruct w; [lia|lia]).
    rewrite (IH recs mtu pat mc total (x :: rest) (acc ++ firstn (Z.to_nat per) hs) Hper Hw' ltac:(lia)).
    rewrite <- app_assoc, <- Es, firstn_skipn. reflexivity.
Qed.

(* Client.search_services: exactly the handles of the matching records, in table order. *)
Theorem search_services_exact : forall recs mtu cur pat,
  15 <= mtu ->
  zlen (match_services recs pat) <= 65535 ->
  zlen (match_services recs pat) <= 64 * ((mtu - 11) / 4) ->
  client_search_services recs mtu cur pat =
  (RHandles (zlen (match_services recs pat)) [], CDoneHandles (map fst (match_services recs pat))).
Proof.
  intros recs mtu cur pat Hmtu H16 Hsz. unfold client_search_services, WATCHDOG.
  set (hs := map fst (match_services recs pat)).
  assert (Hlen : zlen hs = zlen (match_services recs pat)) by (unfold hs, zlen; rewrite map_length; reflexivity).
  assert (Hper : 1 <= (mtu - 11) / 4) by (apply Z.div_le_lower_bound; lia).
  assert (Hsub : firstn (Z.to_nat 65535) hs = hs) by (apply firstn_all2; unfold zlen in *; lia).
  assert (E : handle recs mtu cur (QSearch pat 65535 CFresh) =
              handle recs mtu (RHandles (zlen hs) hs) (QSearch pat 65535 CValid)).
  { rewrite handle_valid_handles. unfold handle. cbn [req_cont]. fold hs. rewrite Hsub. reflexivity. }
  change 64%nat with (S 63). rewrite client_handles_S. cbn [set_cont]. rewrite E.
  pose proof (handles_loop (S 63) recs mtu pat 65535 (zlen hs) hs [] Hper ltac:(lia) ltac:(lia)) as R.
  rewrite client_handles_S in R. cbn [set_cont] in R. rewrite <- Hlen. exact R.
Qed.

(* ------------------------------------------------------------------ responses fit the peer's MTU *)
Lemma respond_bytes_fits : forall mk mtu mb cur,
  (forall p m, rsp_size (mk p m) = 5 + 2 + zlen p + cont_size m) -> 9 <= mtu ->
  rsp_size (snd (respond_bytes mk (Z.min mb (mtu - 9)) cur)) <= mtu.
Proof.
  intros mk mtu mb cur Hmk Hmtu. unfold respond_bytes. destruct cur as [|b|t hs].
  - simpl. lia.
  - unfold next_payload. destruct (Z.min mb (mtu - 9) <? zlen b) eqn:E; simpl; rewrite Hmk; simpl cont_size.
    + unfold zlen. rewrite firstn_length. lia.
    + apply Z.ltb_ge in E. lia.
  - destruct (2 <=? Z.min mb (mtu - 9)); simpl; lia.
Qed.

(* every response of every handler fits the MTU of the channel it is sent on (MTU >= 11) *)
Theorem response_fits_mtu : forall recs mtu cur q,
  11 <= mtu -> rsp_size (snd (handle recs mtu cur q)) <= mtu.
Proof.
  intros recs mtu cur q Hmtu.
  assert (Hper : 0 <= (mtu - 11) / 4 /\ 4 * ((mtu - 11) / 4) <= mtu - 11).
  { split; [apply Z.div_pos; lia|]. pose proof (Z.mul_div_le (mtu - 11) 4). lia. }
  assert (Hfirst : forall (hs : list Z), 4 * zlen (firstn (Z.to_nat ((mtu - 11) / 4)) hs) <= mtu - 11).
  { intro hs. unfold zlen. rewrite firstn_length. lia. }
  unfold handle. destruct q as [pat mc c|h mb ids c|pat mb ids c]; cbn [req_cont]; destruct c.
  - (* search, fresh *) cbn [snd rsp_size]. specialize (Hfirst (firstn (Z.to_nat mc) (map fst (match_services recs pat)))).
    destruct (negb _); simpl cont_size; lia.
  - destruct cur as [|b|t hs]; cbn [snd rsp_size]; try lia. specialize (Hfirst hs). destruct (negb _); simpl cont_size; lia.
  - simpl. lia.
  - destruct (lookup_record h recs); [apply respond_bytes_fits; [reflexivity|lia]|simpl; lia].
  - destruct cur as [|b|t hs]; [simpl; lia| |]; apply respond_bytes_fits; try reflexivity; lia.
  - simpl. lia.
  - apply respond_bytes_fits; [reflexivity|lia].
  - destruct cur as [|b|t hs]; [simpl; lia| |]; apply respond_bytes_fits; try reflexivity; lia.
  - simpl. lia.
Qed.

(* ------------------------------------------------------------------ many clients *)
Lemma p_lookup_remove_same : forall c l, p_lookup c (p_remove c l) = RNone.
Proof.
  intros c l. induction l as [|[c' r] l IH]; simpl; [reflexivity|].
  destruct (c' =? c) eqn:E; [exact IH|]. simpl. rewrite E. exact IH.
Qed.

Lemma p_lookup_remove_other : forall c d l, c <> d -> p_lookup c (p_remove d l) = p_lookup c l.
Proof.
  intros c d l Hn. induction l as [|[c' r] l IH]; simpl; [reflexivity|].
  destruct (c' =? d) eqn:E.
  - apply Z.eqb_eq in E. subst c'. destruct (d =? c) eqn:E2; [apply Z.eqb_eq in E2; congruence|exact IH].
  - simpl. destruct (c' =? c); [reflexivity|exact IH].
Qed.

Lemma view_select_same : forall s c, view (select_channel s c) c = view s c.
Proof.
  intros s c. unfold select_channel. destruct (is_chan s c) eqn:E; [reflexivity|].
  unfold view at 1. unfold is_chan at 1. simpl. rewrite Z.eqb_refl.
  unfold view. rewrite E. unfold is_chan in E. destruct (s_chan s) as [c0|]; [|reflexivity].
  unfold p_put. simpl. rewrite E. apply p_lookup_remove_other. intro; subst. rewrite Z.eqb_refl in E. discriminate.
Qed.

Lemma view_select_other : forall s c d, d <> c -> view (select_channel s c) d = view s d.
Proof.
  intros s c d Hn. unfold select_channel. destruct (is_chan s c) eqn:E; [reflexivity|].
  unfold view at 1. unfold is_chan at 1. simpl.
  destruct (c =? d) eqn:Ecd; [apply Z.eqb_eq in Ecd; congruence|].
  rewrite p_lookup_remove_other by exact Hn.
  unfold view, is_chan. destruct (s_chan s) as [c0|]; [|reflexivity].
  unfold p_put. simpl. destruct (c0 =? d) eqn:E0; [reflexivity|].
  apply p_lookup_remove_other. intro; subst. rewrite Z.eqb_refl in E0. discriminate.
Qed.

Lemma is_chan_select : forall s c, is_chan (select_channel s c) c = true.
Proof.
  intros s c. unfold select_channel. destruct (is_chan s c) eqn:E; [exact E|].
  unfold is_chan. simpl. apply Z.eqb_refl.
Qed.

(* one server step seen from client d *)
Lemma step_view : forall recs s o d,
  view (fst (s_step recs s o)) d =
  if op_chan o =? d then fst (solo_step recs (view s d) o) else view s d.
Proof.
  intros recs s o d. destruct o as [c|c|c mtu q]; simpl op_chan.
  - (* Connect *)
    simpl. destruct (c =? d) eqn:E.
    + apply Z.eqb_eq in E. subst. apply view_select_same.
    + apply view_select_other. intro; subst. rewrite Z.eqb_refl in E. discriminate.
  - (* Disconnect *)
    simpl. destruct (c =? d) eqn:E.
    + apply Z.eqb_eq in E. subst c. destruct (is_chan s d) eqn:Ec; simpl.
      * unfold view, is_chan. simpl. apply p_lookup_remove_same.
      * unfold view. unfold is_chan at 1. simpl. unfold is_chan in Ec. rewrite Ec. apply p_lookup_remove_same.
    + assert (Hn : d <> c) by (intro; subst; rewrite Z.eqb_refl in E; discriminate).
      destruct (is_chan s c) eqn:Ec; simpl.
      * unfold view at 1. unfold is_chan at 1. simpl. rewrite p_lookup_remove_other by exact Hn.
        unfold view. unfold is_chan in *. destruct (s_chan s) as [c0|]; [|reflexivity].
        apply Z.eqb_eq in Ec. subst c0. rewrite E. reflexivity.
      * unfold view. unfold is_chan at 1. simpl. fold (is_chan s d).
        destruct (is_chan s d); [reflexivity|]. apply p_lookup_remove_other. exact Hn.
  - (* Request *)
    cbn [s_step solo_step]. destruct (c =? d) eqn:E.
    + apply Z.eqb_eq in E. subst c.
      pose proof (is_chan_select s d) as Hc. pose proof (view_select_same s d) as Hv.
      unfold view in Hv at 1. rewrite Hc in Hv. rewrite Hv.
      destruct (handle recs mtu (view s d) q) as [cur' r]. simpl.
      unfold view. unfold is_chan in *. simpl. rewrite Hc. reflexivity.
    + assert (Hn : d <> c) by (intro; subst; rewrite Z.eqb_refl in E; discriminate).
      destruct (handle recs mtu (s_cur (select_channel s c)) q) as [cur' r]. simpl.
      rewrite <- (view_select_other s c d Hn).
      pose proof (is_chan_select s c) as Hc.
      unfold view, is_chan in *. simpl.
      destruct (s_chan (select_channel s c)) as [c0|]; [|discriminate].
      apply Z.eqb_eq in Hc. subst c0. rewrite E. reflexivity.
Qed.

Lemma step_out : forall recs s o d,
  to_chan d (snd (s_step recs s o)) =
  if op_chan o =? d then snd (solo_step recs (view s d) o) else [].
Proof.
  intros recs s o d. destruct o as [c|c|c mtu q]; simpl op_chan.
  - simpl. destruct (c =? d); reflexivity.
  - simpl. destruct (is_chan s c); destruct (c =? d); reflexivity.
  - cbn [s_step solo_step].
    destruct (c =? d) eqn:E.
    + apply Z.eqb_eq in E. subst c.
      pose proof (is_chan_select s d) as Hc. pose proof (view_select_same s d) as Hv.
      unfold view in Hv at 1. rewrite Hc in Hv. rewrite Hv.
      destruct (handle recs mtu (view s d) q) as [cur' r]. unfold to_chan. simpl. rewrite Z.eqb_refl. reflexivity.
    + destruct (handle recs mtu (s_cur (select_channel s c)) q) as [cur' r]. unfold to_chan. simpl. rewrite E. reflexivity.
Qed.

Lemma for_chan_cons : forall d o ops,
  for_chan d (o :: ops) = if op_chan o =? d then o :: for_chan d ops else for_chan d ops.
Proof. reflexivity. Qed.

Lemma to_chan_app : forall d a b, to_chan d (a ++ b) = to_chan d a ++ to_chan d b.
Proof. intros. unfold to_chan. rewrite filter_app, map_app. reflexivity. Qed.

(* Independence of simultaneously connected clients: for ANY interleaving of the operations of
   ANY number of clients, the responses client d receives -- and the continuation state the
   server holds for it -- are those of a server that only ever saw d's own operations. *)
Theorem clients_independent : forall recs ops s d,
  to_chan d (snd (s_run recs s ops)) = snd (solo_run recs (view s d) (for_chan d ops)) /\
  view (fst (s_run recs s ops)) d = fst (solo_run recs (view s d) (for_chan d ops)).
Proof.
  intros recs ops. induction ops as [|o ops IH]; intros s d; [split; reflexivity|].
  cbn [s_run]. rewrite for_chan_cons.
  pose proof (step_view recs s o d) as Hv. pose proof (step_out recs s o d) as Ho.
  destruct (s_step recs s o) as [s1 o1]. simpl fst in Hv. simpl snd in Ho.
  destruct (IH s1 d) as [IH1 IH2]. destruct (s_run recs s1 ops) as [s2 o2].
  simpl fst in *. simpl snd in *. rewrite to_chan_app, Ho, IH1, IH2, Hv.
  destruct (op_chan o =? d).
  - cbn [solo_run]. destruct (solo_step recs (view s d) o) as [c1 r1]. simpl fst. simpl snd.
    destruct (solo_run recs c1 (for_chan d ops)) as [c2 r2]. split; reflexivity.
  - split; reflexivity.
Qed.

(* responses are addressed to the client the request came from, one per request *)
Theorem response_to_requester : forall recs s c mtu q,
  exists r, snd (s_step recs s (Request c mtu q)) = [(c, r)].
Proof.
  intros. cbn [s_step]. destruct (handle recs mtu (s_cur (select_channel s c)) q) as [cur' r].
  exists r. reflexivity.
Qed.

(* A client's channel closes (Server.on_channel_close): the continuation state of every OTHER client is left
   untouched, wherever it is kept (served or parked); the closing client's own state is dropped; the served
   state (channel, current_response) is reset exactly when the closing channel is the one being served. *)
Theorem disconnect_other_untouched : forall recs s a b,
  a <> b -> view (fst (s_step recs s (Disconnect b))) a = view s a.
Proof.
  intros recs s a b Hn. rewrite step_view. simpl op_chan.
  destruct (b =? a) eqn:E; [apply Z.eqb_eq in E; congruence|reflexivity].
Qed.

Theorem disconnect_own_dropped : forall recs s b, view (fst (s_step recs s (Disconnect b))) b = RNone.
Proof. intros. rewrite step_view. simpl op_chan. rewrite Z.eqb_refl. reflexivity. Qed.

Theorem disconnect_served_state : forall recs s b,
  fst (s_step recs s (Disconnect b)) =
  if is_chan s b then mkS None RNone (p_remove b (s_pending s))
  else mkS (s_chan s) (s_cur s) (p_remove b (s_pending s)).
Proof. intros. simpl. destruct (is_chan s b); reflexivity. Qed.

(* hence: a transaction of client a that is under way is completed exactly as if b had never existed *)
Corollary disconnect_between_pieces : forall recs s a b mtu q,
  a <> b ->
  snd (s_step recs (fst (s_step recs s (Disconnect b))) (Request a mtu q)) =
  [(a, snd (handle recs mtu (view s a) q))].
Proof.
  intros recs s a b mtu q Hn.
  pose proof (step_out recs (fst (s_step recs s (Disconnect b))) (Request a mtu q) a) as Ho.
  simpl op_chan in Ho. rewrite Z.eqb_refl in Ho. rewrite (disconnect_other_untouched recs s a b Hn) in Ho.
  destruct (response_to_requester recs (fst (s_step recs s (Disconnect b))) a mtu q) as [r Hr].
  rewrite Hr in *. unfold to_chan in Ho. simpl in Ho. rewrite Z.eqb_refl in Ho. simpl in Ho.
  cbn [solo_step] in Ho. destruct (handle recs mtu (view s a) q) as [c' r']. simpl in *. congruence.
Qed.

(* Consequence: a client's whole transaction is exact whatever the other clients do in between.
   (Stated for get_attributes driven request by request through the shared server: the
   responses to d's requests are those of the solo server, to which get_attributes_exact
   applies.) *)
Corollary interleaved_transaction : forall recs ops s d,
  to_chan d (snd (s_run recs s ops)) = snd (solo_run recs (view s d) (for_chan d ops)).
Proof. intros. exact (proj1 (clients_independent recs ops s d)). Qed.
