(* Symmetry of the BR/EDR tables, part 2: the six steps that move a pair through its
   protocol, and the induction. *)
From Coq Require Import ZArith List Bool Lia Arith.
From BV Require Import Model.Link Proofs.Link Proofs.LinkSym Proofs.LinkSymCl.
Import ListNotations.
Open Scope Z_scope.

Lemma cpair_idle_facts : forall s i j ci cj, nth_error (st_cs s) i = Some ci -> nth_error (st_cs s) j = Some cj ->
  cpair_idle s i j = true ->
  ent ci cj = None /\ ent cj ci = None /\ crel s i j = [] /\ crel s j i = [] /\
  settled (fut ci cj) /\ settled (fut cj ci).
Proof.
  unfold cpair_idle, cquiet, ent, fut, settled. intros s i j ci cj Hi Hj H. rewrite Hi, Hj in H.
  repeat (apply andb_true_iff in H; destruct H as [? H]).
  repeat match goal with Hx : (_ && _)%bool = true |- _ => apply andb_true_iff in Hx; destruct Hx end.
  repeat match goal with Hx : nil_b _ = true |- _ => apply nil_b_iff in Hx end.
  repeat split; auto.
  - destruct (tbl_get (c_cl ci) (c_public cj)); [discriminate | reflexivity].
  - destruct (tbl_get (c_cl cj) (c_public ci)); [discriminate | reflexivity].
  - destruct (lmp_get (c_lmp ci) (c_public cj)) as [[|]|]; try discriminate; congruence.
  - destruct (lmp_get (c_lmp cj) (c_public ci)) as [[|]|]; try discriminate; congruence.
Qed.

Lemma tbl_get_set_key : forall t k p, k_peer k = p -> tbl_get (tbl_set t k) p = Some k.
Proof. intros t k p <-. apply tbl_get_set_same. Qed.

Lemma crel_single_other : forall x y p, (forall s d m, p = (s, d, m) -> s <> x \/ d <> y) -> crel_pkt x y p = false.
Proof.
  intros x y [[s d] m] H. destruct (crel_pkt x y (s, d, m)) eqn:E; [|reflexivity].
  apply crel_pkt_true in E. destruct E as [-> [-> _]]. destruct (H x y m eq_refl); congruence.
Qed.

(* ---- CA: controller i0 asks for a connection to the public address of j1 *)
Lemma cinvs_request : forall s i0 j1 c c' cj1,
  cinvs s -> ginv (mkState (upd (st_cs s) i0 c') (st_net s ++ [(i0, j1, MLmpConnReq (c_public c))])) ->
  nth_error (st_cs s) i0 = Some c -> nth_error (st_cs s) j1 = Some cj1 -> j1 <> i0 ->
  c_public c' = c_public c ->
  c_cl c' = tbl_set (c_cl c) (mkConn (c_public cj1) (c_public c) 0 true) ->
  c_lmp c' = lmp_set (c_lmp c) (c_public cj1) false ->
  cpair_idle s i0 j1 = true ->
  cinvs (mkState (upd (st_cs s) i0 c') (st_net s ++ [(i0, j1, MLmpConnReq (c_public c))])).
Proof.
  intros s i0 j1 c c' cj1 S G' Hi Hj Hne Hp Hcl Hlmp Hidle.
  pose proof (cs_g s S) as G.
  set (pkt := (i0, j1, MLmpConnReq (c_public c))) in *.
  assert (Hpk : crel_pkt i0 j1 pkt = true) by (apply crel_pkt_self; reflexivity).
  assert (Hpo : forall x y, (x <> i0 \/ y <> j1) -> crel_pkt x y pkt = false).
  { intros x y Hxy. apply crel_single_other. intros s0 d0 m0 E. inversion E; subst. destruct Hxy; auto. }
  eapply cinvs_update; eauto.
  - intros src dst m Hin Hm. apply in_app_or in Hin. destruct Hin as [Hin|[Hin|[]]].
    + eapply (cs_bc s S); eauto.
    + inversion Hin; subst. auto.
  - intros y cy Hy Hcy. rewrite !filter_app, !filter_one. unfold ent, fut. rewrite Hcl, Hlmp, Hp.
    rewrite (Hpo y i0) by (left; auto). rewrite app_nil_r.
    destruct (Nat.eq_dec y j1) as [->|Hyj].
    + rewrite Hcy in Hj. inversion Hj; subst cj1.
      destruct (cpair_idle_facts _ _ _ _ _ Hi Hcy Hidle) as [E1 [E2 [R1 [R2 [F1 F2]]]]].
      unfold crel in R1, R2. unfold ent in E1, E2. unfold fut in F1, F2.
      rewrite Hpk, R1, R2. simpl app.
      rewrite (tbl_get_set_key (c_cl c) (mkConn (c_public cy) (c_public c) 0 true) (c_public cy) eq_refl).
      rewrite lmp_get_set_same, E2.
      right. right. left. split; [exact F2|]. left.
      exists (mkConn (c_public cy) (c_public c) 0 true). repeat split; auto.
    + rewrite (Hpo i0 y) by (right; auto). rewrite app_nil_r.
      assert (Hpn : c_public cy <> c_public cj1) by (eapply (pub_neq s y j1); eauto).
      rewrite tbl_get_set_other by (simpl; exact Hpn).
      rewrite lmp_get_set_other by exact Hpn.
      exact (cs_pair s S _ _ _ _ (not_eq_sym Hy) Hi Hcy).
  - intros x y Hx Hy. rewrite filter_app, filter_one, (Hpo x y) by (left; auto). apply app_nil_r.
Qed.

(* ---- CA': the address asked for is nobody's: the placeholder is removed again *)
Lemma cinvs_page_timeout : forall s i0 c c' peer,
  cinvs s -> ginv (mkState (upd (st_cs s) i0 c') (st_net s ++ [])) ->
  nth_error (st_cs s) i0 = Some c -> find_classic (st_cs s) peer = None ->
  c_public c' = c_public c ->
  c_cl c' = tbl_del (tbl_set (c_cl c) (mkConn peer (c_public c) 0 true)) peer ->
  c_lmp c' = c_lmp c ->
  cinvs (mkState (upd (st_cs s) i0 c') (st_net s ++ [])).
Proof.
  intros s i0 c c' peer S G' Hi Hnone Hp Hcl Hlmp.
  assert (Hnp : forall y cy, nth_error (st_cs s) y = Some cy -> c_public cy <> peer).
  { intros y cy Hy E. unfold find_classic in Hnone.
    assert (Hg : forall cs n, find_index (fun c0 => c_public c0 =? peer) cs n = None ->
               forall k ck, nth_error cs k = Some ck -> c_public ck <> peer).
    { induction cs as [|c0 cs IH]; simpl; intros n Hf k ck Hk; [destruct k; discriminate|].
      destruct (c_public c0 =? peer) eqn:E0; [discriminate|]. destruct k as [|k]; simpl in Hk.
      - inversion Hk; subst. now apply Z.eqb_neq.
      - eapply IH; eauto. }
    exact (Hg _ _ Hnone _ _ Hy E). }
  rewrite app_nil_r in *.
  eapply cinvs_update; eauto.
  - intros src dst m Hin Hm. eapply (cs_bc s S); eauto.
  - intros y cy Hy Hcy. unfold ent, fut. rewrite Hcl, Hlmp, Hp.
    rewrite tbl_del_other by (eapply Hnp; eauto).
    rewrite tbl_get_set_other by (simpl; eapply Hnp; eauto).
    exact (cs_pair s S _ _ _ _ (not_eq_sym Hy) Hi Hcy).
Qed.

Lemma crel_remove_other : forall s k p x y, nth_error (st_net s) k = Some p -> crel_pkt x y p = false ->
  filter (crel_pkt x y) (remove_nth k (st_net s)) = filter (crel_pkt x y) (st_net s).
Proof. intros. eapply filter_remove_other; eauto. Qed.

(* the sender of an LMP message in flight is the public address of its source, and it is not
   sent to oneself *)
Lemma lmp_in_flight : forall s src dst m, cinvs s -> In (src, dst, m) (st_net s) -> is_cctl m = true ->
  src <> dst /\ exists csrc, nth_error (st_cs s) src = Some csrc /\
    match m with MLmpConnReq a | MLmpAccepted a | MLmpDetach a _ => a = c_public csrc | _ => True end.
Proof.
  intros s src dst m S Hin Hm. split; [eapply (cs_bc s S); eauto|].
  destruct (g_net s (cs_g s S) _ _ _ Hin) as [c0 [H0 Hok]]. exists c0. split; [assumption|].
  destruct m; simpl in Hm; try discriminate; exact Hok.
Qed.

(* ---- CB: the connection request of i1 reaches j0 *)
Lemma cinvs_requested : forall s k i1 j0 a c c',
  cinvs s -> ginv (mkState (upd (st_cs s) j0 c') (remove_nth k (st_net s) ++ [])) ->
  nth_error (st_net s) k = Some (i1, j0, MLmpConnReq a) ->
  nth_error (st_cs s) j0 = Some c -> c_public c' = c_public c ->
  c_cl c' = tbl_set (c_cl c) (mkConn a (c_public c) 0 false) -> c_lmp c' = c_lmp c ->
  cinvs (mkState (upd (st_cs s) j0 c') (remove_nth k (st_net s) ++ [])).
Proof.
  intros s k i1 j0 a c c' S G' Hk Hj Hp Hcl Hlmp.
  pose proof (cs_g s S) as G. pose proof (nth_error_In _ _ Hk) as Hkin.
  destruct (lmp_in_flight s _ _ _ S Hkin eq_refl) as [Hne [ci1 [Hi1 Ha]]]. subst a.
  assert (Hpk : crel_pkt i1 j0 (i1, j0, MLmpConnReq (c_public ci1)) = true) by (apply crel_pkt_self; reflexivity).
  pose proof (cs_pair s S _ _ _ _ Hne Hi1 Hj) as Hpair. unfold cpair_ok in Hpair.
  assert (Hin : In (i1, j0, MLmpConnReq (c_public ci1)) (crel s i1 j0)) by (apply filter_In; auto).
  destruct (cst_with_connreq _ _ _ _ _ _ _ _ _ _ _ Hpair Hin) as [Fj [k0 [E1 [E2 [E3 [E4 [E5 [R1 [R2 _]]]]]]]]].
  rewrite app_nil_r in *.
  assert (Hother : forall x y, (x <> i1 \/ y <> j0) ->
            filter (crel_pkt x y) (remove_nth k (st_net s)) = filter (crel_pkt x y) (st_net s)).
  { intros x y Hxy. apply (crel_remove_other _ _ _ _ _ Hk). apply crel_single_other.
    intros s0 d0 m0 E. inversion E; subst. destruct Hxy; auto. }
  eapply cinvs_update; eauto.
  - intros src dst m Hin' Hm. apply remove_nth_in in Hin'. eapply (cs_bc s S); eauto.
  - intros y cy Hy Hcy. unfold ent, fut. rewrite Hcl, Hlmp, Hp.
    rewrite (Hother j0 y) by (left; auto).
    destruct (Nat.eq_dec y i1) as [->|Hyi].
    + rewrite Hcy in Hi1. inversion Hi1; subst ci1.
      rewrite (filter_single_remove _ _ _ _ Hk Hpk R1).
      rewrite (tbl_get_set_key (c_cl c) (mkConn (c_public cy) (c_public c) 0 false) (c_public cy) eq_refl).
      unfold crel in R2. unfold ent in E1. unfold fut in E4, Fj. rewrite R2, E1, E4.
      right. right. right. split; [exact Fj|]. right. left.
      exists k0, (mkConn (c_public cy) (c_public c) 0 false). repeat split; auto.
    + rewrite (Hother y j0) by (left; auto).
      assert (Hpn : c_public cy <> c_public ci1) by (eapply (pub_neq s y i1); eauto).
      rewrite tbl_get_set_other by (simpl; exact Hpn).
      exact (cs_pair s S _ _ _ _ (not_eq_sym Hy) Hj Hcy).
Qed.

(* ---- CC: the host of j0 accepts the waiting request of i1 *)
Lemma cinvs_accept : forall s i1 j0 c c' ci1 k0 h,
  cinvs s -> ginv (mkState (upd (st_cs s) j0 c') (st_net s ++ [(j0, i1, MLmpAccepted (c_public c))])) ->
  nth_error (st_cs s) j0 = Some c -> nth_error (st_cs s) i1 = Some ci1 -> i1 <> j0 ->
  tbl_get (c_cl c) (c_public ci1) = Some k0 -> k_handle k0 = 0 -> k_central k0 = false ->
  alloc c = Some h -> c_public c' = c_public c ->
  c_cl c' = tbl_set (c_cl c) (mkConn (c_public ci1) (k_self k0) h (k_central k0)) -> c_lmp c' = c_lmp c ->
  cinvs (mkState (upd (st_cs s) j0 c') (st_net s ++ [(j0, i1, MLmpAccepted (c_public c))])).
Proof.
  intros s i1 j0 c c' ci1 k0 h S G' Hj Hi1 Hne Hget Hh0 Hc0 Hal Hp Hcl Hlmp.
  pose proof (cs_g s S) as G.
  apply alloc_spec in Hal. destruct Hal as [_ [Hh _]].
  set (pkt := (j0, i1, MLmpAccepted (c_public c))) in *.
  assert (Hpk : crel_pkt j0 i1 pkt = true) by (apply crel_pkt_self; reflexivity).
  assert (Hpo : forall x y, (x <> j0 \/ y <> i1) -> crel_pkt x y pkt = false).
  { intros x y Hxy. apply crel_single_other. intros s0 d0 m0 E. inversion E; subst. destruct Hxy; auto. }
  pose proof (cs_pair s S _ _ _ _ Hne Hi1 Hj) as Hpair. unfold cpair_ok in Hpair.
  destruct (cst_with_waiting_request _ _ _ _ _ _ _ _ _ _ _ Hpair Hget Hh0 Hc0) as [Fj [k1 [E1 [E2 [E3 [E4 [R1 R2]]]]]]].
  eapply cinvs_update; eauto.
  - intros src dst m Hin Hm. apply in_app_or in Hin. destruct Hin as [Hin|[Hin|[]]].
    + eapply (cs_bc s S); eauto.
    + inversion Hin; subst. auto.
  - intros y cy Hy Hcy. rewrite !filter_app, !filter_one. unfold ent, fut. rewrite Hcl, Hlmp, Hp.
    rewrite (Hpo y j0) by (left; auto). rewrite app_nil_r.
    destruct (Nat.eq_dec y i1) as [->|Hyi].
    + rewrite Hcy in Hi1. inversion Hi1; subst ci1.
      rewrite Hpk. unfold crel in R1, R2. rewrite R1, R2. simpl app.
      rewrite (tbl_get_set_key (c_cl c) (mkConn (c_public cy) (k_self k0) h (k_central k0)) (c_public cy) eq_refl).
      unfold ent in E1. unfold fut in E4, Fj. rewrite E1, E4.
      right. right. right. split; [exact Fj|]. right. right. left.
      exists k1, (mkConn (c_public cy) (k_self k0) h (k_central k0)). simpl. repeat split; auto. lia.
    + rewrite (Hpo j0 y) by (right; auto). rewrite app_nil_r.
      assert (Hpn : c_public cy <> c_public ci1) by (eapply (pub_neq s y i1); eauto).
      rewrite tbl_get_set_other by (simpl; exact Hpn).
      exact (cs_pair s S _ _ _ _ (not_eq_sym Hy) Hj Hcy).
  - intros x y Hx Hy. rewrite filter_app, filter_one, (Hpo x y) by (left; auto). apply app_nil_r.
Qed.

(* ---- CD: the acceptance of j1 reaches the initiator i0 *)
Lemma cinvs_connected : forall s k i0 j1 a c c' h,
  cinvs s -> ginv (mkState (upd (st_cs s) i0 c') (remove_nth k (st_net s) ++ [])) ->
  nth_error (st_net s) k = Some (j1, i0, MLmpAccepted a) ->
  nth_error (st_cs s) i0 = Some c -> alloc c = Some h -> c_public c' = c_public c ->
  (lmp_get (c_lmp c) a = Some false -> forall k0, tbl_get (c_cl c) a = Some k0 ->
     c_cl c' = tbl_set (c_cl c) (mkConn a (k_self k0) h (k_central k0)) /\ c_lmp c' = lmp_set (c_lmp c) a true) ->
  cinvs (mkState (upd (st_cs s) i0 c') (remove_nth k (st_net s) ++ [])).
Proof.
  intros s k i0 j1 a c c' h S G' Hk Hi Hal Hp Heff.
  pose proof (cs_g s S) as G. pose proof (nth_error_In _ _ Hk) as Hkin.
  destruct (lmp_in_flight s _ _ _ S Hkin eq_refl) as [Hne [cj1 [Hj1 Ha]]]. subst a.
  apply alloc_spec in Hal. destruct Hal as [_ [Hh _]].
  assert (Hpk : crel_pkt j1 i0 (j1, i0, MLmpAccepted (c_public cj1)) = true) by (apply crel_pkt_self; reflexivity).
  pose proof (cs_pair s S _ _ _ _ (not_eq_sym Hne) Hi Hj1) as Hpair. unfold cpair_ok in Hpair.
  assert (Hin : In (j1, i0, MLmpAccepted (c_public cj1)) (crel s j1 i0)) by (apply filter_In; auto).
  destruct (cst_with_accepted _ _ _ _ _ _ _ _ _ _ _ Hpair Hin) as [Fj [k0 [k1 [E1 [E2 [E3 [E4 [E5 [E6 [E7 [R1 R2]]]]]]]]]]].
  unfold ent in E1. unfold fut in E4. destruct (Heff E4 _ E1) as [Hcl Hlmp].
  rewrite app_nil_r in *.
  assert (Hother : forall x y, (x <> j1 \/ y <> i0) ->
            filter (crel_pkt x y) (remove_nth k (st_net s)) = filter (crel_pkt x y) (st_net s)).
  { intros x y Hxy. apply (crel_remove_other _ _ _ _ _ Hk). apply crel_single_other.
    intros s0 d0 m0 E. inversion E; subst. destruct Hxy; auto. }
  eapply cinvs_update; eauto.
  - intros src dst m Hin' Hm. apply remove_nth_in in Hin'. eapply (cs_bc s S); eauto.
  - intros y cy Hy Hcy. unfold ent, fut. rewrite Hcl, Hlmp, Hp.
    rewrite (Hother i0 y) by (left; auto).
    destruct (Nat.eq_dec y j1) as [->|Hyj].
    + rewrite Hcy in Hj1. inversion Hj1; subst cj1.
      rewrite (filter_single_remove _ _ _ _ Hk Hpk R2).
      rewrite (tbl_get_set_key (c_cl c) (mkConn (c_public cy) (k_self k0) h (k_central k0)) (c_public cy) eq_refl).
      rewrite lmp_get_set_same. unfold crel in R1. unfold ent in E5. unfold fut in Fj. rewrite R1, E5.
      right. left. exists (mkConn (c_public cy) (k_self k0) h (k_central k0)), k1. simpl.
      repeat split; auto; try lia; try discriminate. rewrite E3. exact E7.
    + rewrite (Hother y i0) by (left; auto).
      assert (Hpn : c_public cy <> c_public cj1) by (eapply (pub_neq s y j1); eauto).
      rewrite tbl_get_set_other by (simpl; exact Hpn).
      rewrite lmp_get_set_other by exact Hpn.
      exact (cs_pair s S _ _ _ _ (not_eq_sym Hy) Hi Hcy).
Qed.

(* ---- CE: i0 disconnects its established BR/EDR connection with j1 *)
Lemma cinvs_disconnect : forall s i0 j1 c c' cj1 k0 r,
  cinvs s -> ginv (mkState (upd (st_cs s) i0 c') (st_net s ++ [(i0, j1, MLmpDetach (c_public c) r)])) ->
  nth_error (st_cs s) i0 = Some c -> nth_error (st_cs s) j1 = Some cj1 -> j1 <> i0 ->
  In k0 (c_cl c) -> k_peer k0 = c_public cj1 -> k_handle k0 <> 0 ->
  c_public c' = c_public c -> c_cl c' = tbl_del (c_cl c) (k_peer k0) -> c_lmp c' = c_lmp c ->
  cquiet s i0 j1 = true ->
  cinvs (mkState (upd (st_cs s) i0 c') (st_net s ++ [(i0, j1, MLmpDetach (c_public c) r)])).
Proof.
  intros s i0 j1 c c' cj1 k0 r S G' Hi Hj Hne Hk0 Hpeer Hh Hp Hcl Hlmp Hq.
  pose proof (cs_g s S) as G.
  pose proof (ci_cl_keys c (proj1 (g_c s G _ _ Hi))) as Hkeys.
  unfold cquiet in Hq. apply andb_true_iff in Hq. destruct Hq as [Q1 Q2]. apply nil_b_iff in Q1, Q2.
  set (pkt := (i0, j1, MLmpDetach (c_public c) r)) in *.
  assert (Hpk : crel_pkt i0 j1 pkt = true) by (apply crel_pkt_self; reflexivity).
  assert (Hpo : forall x y, (x <> i0 \/ y <> j1) -> crel_pkt x y pkt = false).
  { intros x y Hxy. apply crel_single_other. intros s0 d0 m0 E. inversion E; subst. destruct Hxy; auto. }
  pose proof (cs_pair s S _ _ _ _ (not_eq_sym Hne) Hi Hj) as Hpair. unfold cpair_ok in Hpair.
  rewrite Q1, Q2 in Hpair.
  assert (Hent : ent c cj1 = Some k0) by (unfold ent; rewrite <- Hpeer; now apply tbl_get_of_in).
  destruct (cst_quiet_established _ _ _ _ _ _ _ _ _ Hpair Hent Hh) as [k1 [E2 [H2 [_ [F1 F2]]]]].
  eapply cinvs_update; eauto.
  - intros src dst m Hin Hm. apply in_app_or in Hin. destruct Hin as [Hin|[Hin|[]]].
    + eapply (cs_bc s S); eauto.
    + inversion Hin; subst. auto.
  - intros y cy Hy Hcy. rewrite !filter_app, !filter_one. unfold ent, fut. rewrite Hcl, Hlmp, Hp, Hpeer.
    rewrite (Hpo y i0) by (left; auto). rewrite app_nil_r.
    destruct (Nat.eq_dec y j1) as [->|Hyj].
    + rewrite Hcy in Hj. inversion Hj; subst cj1.
      rewrite Hpk. unfold crel in Q1, Q2. rewrite Q1, Q2. simpl app.
      rewrite (tbl_del_gone _ _ Hkeys). unfold ent in E2. unfold fut in F1, F2. rewrite E2.
      right. right. left. split; [exact F2|]. right. right. right.
      exists k1, r. repeat split; auto.
    + rewrite (Hpo i0 y) by (right; auto). rewrite app_nil_r.
      assert (Hpn : c_public cy <> c_public cj1) by (eapply (pub_neq s y j1); eauto).
      rewrite tbl_del_other by exact Hpn.
      exact (cs_pair s S _ _ _ _ (not_eq_sym Hy) Hi Hcy).
  - intros x y Hx Hy. rewrite filter_app, filter_one, (Hpo x y) by (left; auto). apply app_nil_r.
Qed.

(* ---- CE': the peer address of the entry is nobody's public address: only the entry goes *)
Lemma cinvs_disconnect_nobody : forall s i0 c c' k0,
  cinvs s -> ginv (mkState (upd (st_cs s) i0 c') (st_net s ++ [])) ->
  nth_error (st_cs s) i0 = Some c -> find_classic (st_cs s) (k_peer k0) = None ->
  c_public c' = c_public c -> c_cl c' = tbl_del (c_cl c) (k_peer k0) -> c_lmp c' = c_lmp c ->
  cinvs (mkState (upd (st_cs s) i0 c') (st_net s ++ [])).
Proof.
  intros s i0 c c' k0 S G' Hi Hnone Hp Hcl Hlmp.
  assert (Hnp : forall y cy, nth_error (st_cs s) y = Some cy -> c_public cy <> k_peer k0).
  { intros y cy Hy E. unfold find_classic in Hnone.
    assert (Hg : forall cs n, find_index (fun c0 => c_public c0 =? k_peer k0) cs n = None ->
               forall k ck, nth_error cs k = Some ck -> c_public ck <> k_peer k0).
    { induction cs as [|c0 cs IH]; simpl; intros n Hf k ck Hk; [destruct k; discriminate|].
      destruct (c_public c0 =? k_peer k0) eqn:E0; [discriminate|]. destruct k as [|k]; simpl in Hk.
      - inversion Hk; subst. now apply Z.eqb_neq.
      - eapply IH; eauto. }
    exact (Hg _ _ Hnone _ _ Hy E). }
  rewrite app_nil_r in *.
  eapply cinvs_update; eauto.
  - intros src dst m Hin Hm. eapply (cs_bc s S); eauto.
  - intros y cy Hy Hcy. unfold ent, fut. rewrite Hcl, Hlmp, Hp.
    rewrite tbl_del_other by (eapply Hnp; eauto).
    exact (cs_pair s S _ _ _ _ (not_eq_sym Hy) Hi Hcy).
Qed.

(* ---- CF: the detach of i1 reaches j0 *)
Lemma cinvs_detached : forall s k i1 j0 a r c c',
  cinvs s -> ginv (mkState (upd (st_cs s) j0 c') (remove_nth k (st_net s) ++ [])) ->
  nth_error (st_net s) k = Some (i1, j0, MLmpDetach a r) ->
  nth_error (st_cs s) j0 = Some c -> c_public c' = c_public c ->
  (forall k0, tbl_get (c_cl c) a = Some k0 -> c_cl c' = tbl_del (c_cl c) a) -> c_lmp c' = c_lmp c ->
  cinvs (mkState (upd (st_cs s) j0 c') (remove_nth k (st_net s) ++ [])).
Proof.
  intros s k i1 j0 a r c c' S G' Hk Hj Hp Heff Hlmp.
  pose proof (cs_g s S) as G. pose proof (nth_error_In _ _ Hk) as Hkin.
  destruct (lmp_in_flight s _ _ _ S Hkin eq_refl) as [Hne [ci1 [Hi1 Ha]]]. subst a.
  pose proof (ci_cl_keys c (proj1 (g_c s G _ _ Hj))) as Hkeys.
  assert (Hpk : crel_pkt i1 j0 (i1, j0, MLmpDetach (c_public ci1) r) = true) by (apply crel_pkt_self; reflexivity).
  pose proof (cs_pair s S _ _ _ _ Hne Hi1 Hj) as Hpair. unfold cpair_ok in Hpair.
  assert (Hin : In (i1, j0, MLmpDetach (c_public ci1) r) (crel s i1 j0)) by (apply filter_In; auto).
  destruct (cst_with_detach _ _ _ _ _ _ _ _ _ _ _ _ Hpair Hin) as [F1 [F2 [E1 [k1 [E2 [H2 [R1 R2]]]]]]].
  unfold ent in E2. pose proof (Heff _ E2) as Hcl.
  rewrite app_nil_r in *.
  assert (Hother : forall x y, (x <> i1 \/ y <> j0) ->
            filter (crel_pkt x y) (remove_nth k (st_net s)) = filter (crel_pkt x y) (st_net s)).
  { intros x y Hxy. apply (crel_remove_other _ _ _ _ _ Hk). apply crel_single_other.
    intros s0 d0 m0 E. inversion E; subst. destruct Hxy; auto. }
  eapply cinvs_update; eauto.
  - intros src dst m Hin' Hm. apply remove_nth_in in Hin'. eapply (cs_bc s S); eauto.
  - intros y cy Hy Hcy. unfold ent, fut. rewrite Hcl, Hlmp, Hp.
    rewrite (Hother j0 y) by (left; auto).
    destruct (Nat.eq_dec y i1) as [->|Hyi].
    + rewrite Hcy in Hi1. inversion Hi1; subst ci1.
      rewrite (filter_single_remove _ _ _ _ Hk Hpk R1).
      rewrite (tbl_del_gone _ _ Hkeys). unfold crel in R2. unfold ent in E1. unfold fut in F1, F2. rewrite R2, E1.
      left. repeat split; auto.
    + rewrite (Hother y j0) by (left; auto).
      assert (Hpn : c_public cy <> c_public ci1) by (eapply (pub_neq s y i1); eauto).
      rewrite tbl_del_other by exact Hpn.
      exact (cs_pair s S _ _ _ _ (not_eq_sym Hy) Hj Hcy).
Qed.

(* a step that changes the classic table of i0 only under keys that are nobody's public address,
   keeps its futures and sends nothing *)
Lemma cinvs_foreign_key : forall s i0 c c',
  cinvs s -> ginv (mkState (upd (st_cs s) i0 c') (st_net s ++ [])) ->
  nth_error (st_cs s) i0 = Some c -> c_public c' = c_public c -> c_lmp c' = c_lmp c ->
  (forall y cy, nth_error (st_cs s) y = Some cy -> tbl_get (c_cl c') (c_public cy) = tbl_get (c_cl c) (c_public cy)) ->
  cinvs (mkState (upd (st_cs s) i0 c') (st_net s ++ [])).
Proof.
  intros s i0 c c' S G' Hi Hp Hlmp Hsame. rewrite app_nil_r in *.
  eapply cinvs_update; eauto.
  - intros src dst m Hin Hm. eapply (cs_bc s S); eauto.
  - intros y cy Hy Hcy. unfold ent, fut. rewrite Hlmp, Hp, (Hsame _ _ Hcy).
    exact (cs_pair s S _ _ _ _ (not_eq_sym Hy) Hi Hcy).
Qed.

Lemma find_classic_none_pub : forall s a, find_classic (st_cs s) a = None ->
  forall y cy, nth_error (st_cs s) y = Some cy -> c_public cy <> a.
Proof.
  intros s a Hnone y cy Hy E. unfold find_classic in Hnone.
  assert (Hg : forall cs n, find_index (fun c0 => c_public c0 =? a) cs n = None ->
             forall k ck, nth_error cs k = Some ck -> c_public ck <> a).
  { induction cs as [|c0 cs IH]; simpl; intros n Hf k ck Hk; [destruct k; discriminate|].
    destruct (c_public c0 =? a) eqn:E0; [discriminate|]. destruct k as [|k]; simpl in Hk.
    - inversion Hk; subst. now apply Z.eqb_neq.
    - eapply IH; eauto. }
  exact (Hg _ _ Hnone _ _ Hy E).
Qed.

Lemma guard_cl_static : forall s l, guard_cl s l = true -> guard_static s l = true.
Proof. unfold guard_cl. intros s l H. apply andb_true_iff in H. tauto. Qed.

(* ------------------------------------------------------------------ the invariant is inductive *)
Theorem cinvs_step : forall s l s' evs out, cinvs s -> guard_cl s l = true ->
  step s l = (s', evs, out) -> cinvs s'.
Proof.
  intros s l s' evs out S Gd H.
  pose proof (cs_g s S) as G.
  assert (G' : ginv s') by (eapply ginv_step; eauto using guard_cl_static).
  pose proof H as Hstep. apply step_shape in H. destruct H.
  - now subst.
  - (* a host command or timer at controller i *)
    subst s' evs. destruct (g_c s G _ _ H0) as [Ci Ai].
    pose proof (guard_static_c _ _ _ _ (guard_cl_static _ _ Gd) H H0) as Hst.
    destruct (local_ainv _ _ _ _ _ _ _ _ Ai Hst H1) as [[Hp _] [_ _]].
    unfold guard_cl in Gd. apply andb_true_iff in Gd. destruct Gd as [_ Gd].
    assert (Hneutral : c_cl c' = c_cl c -> c_lmp c' = c_lmp c -> no_cctl out ->
              cinvs (mkState (upd (st_cs s) i c') (st_net s ++ out))).
    { intros. eapply cinvs_neutral; eauto. }
    destruct (cl_label l) eqn:Hl.
    2:{ destruct (local_cl_neutral _ _ _ _ _ _ _ _ H1 Hl) as [A [B C]]. auto. }
    destruct l; try discriminate; simpl in H; inversion H; subst i0; simpl in H1.
    + (* LDisconnect *)
      pose proof (disconnect_cl_effect _ _ _ _ _ _ _ _ H1) as He. rewrite H0 in Gd.
      destruct (by_handle (c_cl c) h) as [k0|] eqn:B; [|destruct He as [A [B' C]]; auto].
      destruct He as [Hcl [Hlmp Ho]]. apply by_handle_in in B. destruct B as [Hk0 Hh0].
      apply andb_true_iff in Gd. destruct Gd as [Gh Gq]. apply negb_true_iff, Z.eqb_neq in Gh.
      destruct (find_classic (st_cs s) (k_peer k0)) as [j|] eqn:Hf.
      * apply andb_true_iff in Gq. destruct Gq as [Gne Gq]. apply negb_true_iff, Nat.eqb_neq in Gne.
        destruct (find_classic_some _ _ _ Hf) as [cj [Hj Hpj]]. subst out.
        eapply cinvs_disconnect; eauto. congruence.
      * subst out. eapply cinvs_foreign_key; eauto.
        intros y cy Hy. rewrite Hcl. apply tbl_del_other. eapply find_classic_none_pub; eauto.
    + (* LClConnect *)
      unfold cl_connect in H1. destruct (c_pending c); [inversion H1; subst; apply Hneutral; auto; intros ? ? ? []|].
      match type of H1 with (if ?b then _ else _) = _ => destruct b end;
        [inversion H1; subst; apply Hneutral; auto; intros ? ? ? []|].
      destruct (find_classic (st_cs s) peer) as [j|] eqn:Hf; inversion H1; subst.
      * apply andb_true_iff in Gd. destruct Gd as [Gne Gi]. apply negb_true_iff, Nat.eqb_neq in Gne.
        destruct (find_classic_some _ _ _ Hf) as [cj [Hj Hpj]]. subst peer.
        eapply cinvs_request; eauto.
      * eapply cinvs_foreign_key; eauto. intros y cy Hy. simpl.
        assert (Hne : c_public cy <> peer) by (eapply find_classic_none_pub; eauto).
        rewrite tbl_del_other by exact Hne. apply tbl_get_set_other. simpl. exact Hne.
    + (* LClAccept *)
      unfold cl_accept in H1. rewrite H0 in Gd.
      destruct (tbl_get (c_cl c) peer) as [k0|] eqn:Hg; [|inversion H1; subst; apply Hneutral; auto; intros ? ? ? []].
      apply andb_true_iff in Gd. destruct Gd as [Gd Gself]. apply negb_true_iff, Z.eqb_neq in Gself.
      apply andb_true_iff in Gd. destruct Gd as [Gd Gal].
      apply andb_true_iff in Gd. destruct Gd as [Gh Gc]. apply Z.eqb_eq in Gh. apply negb_true_iff in Gc.
      unfold has_alloc in Gal. destruct (alloc c) as [h|] eqn:Hal; [|discriminate].
      unfold classic_complete in H1. rewrite Hal, Hg in H1.
      destruct (find_classic (st_cs s) peer) as [j|] eqn:Hf; inversion H1; subst.
      * destruct (find_classic_some _ _ _ Hf) as [cj [Hj Hpj]]. subst peer.
        assert (Hne : j <> i) by (intros ->; rewrite H0 in Hj; inversion Hj; subst; congruence).
        eapply cinvs_accept; eauto.
      * eapply cinvs_foreign_key; eauto. intros y cy Hy. simpl.
        apply tbl_get_set_other. simpl. eapply find_classic_none_pub; eauto.
    + (* LSetCig *)
      destruct (setcig_cl_neutral _ _ _ _ _ _ H1) as [A [B C]]. auto.
  - (* delivery of message m from src to dst *)
    subst s' evs. destruct (g_c s G _ _ H2) as [Cd Ad].
    destruct (message_ainv _ _ _ _ _ _ _ _ Ad H3) as [[Hp _] [_ _]].
    unfold guard_cl in Gd. apply andb_true_iff in Gd. destruct Gd as [_ Gd]. subst l. rewrite H0 in Gd.
    destruct (is_cctl m) eqn:Hm.
    2:{ destruct (message_cl_neutral _ _ _ _ _ _ _ _ H3 Hm) as [A [B C]].
        eapply cinvs_neutral; eauto.
        - intros p. apply remove_nth_in.
        - intros x y. apply (crel_remove_other _ _ _ _ _ H0).
          destruct (crel_pkt x y (src, dst, m)) eqn:E; [|reflexivity].
          apply crel_pkt_true in E. destruct E as [_ [_ E]]. congruence. }
    destruct m; try discriminate; simpl in H3.
    + (* MLmpConnReq *) unfold on_lmp_conn_req in H3. inversion H3; subst. eapply cinvs_requested; eauto.
    + (* MLmpAccepted *) rewrite H2 in Gd. unfold has_alloc in Gd. destruct (alloc c) as [h|] eqn:Hal; [|discriminate].
      assert (Hout : out = []).
      { unfold on_lmp_accepted in H3. destruct (lmp_get (c_lmp c) sender) as [[|]|]; try (inversion H3; reflexivity).
        destruct (classic_complete _ sender); inversion H3; reflexivity. }
      subst out. eapply cinvs_connected with (h := h); eauto.
      intros Hfut k0 Hk0. unfold on_lmp_accepted in H3. rewrite Hfut in H3. unfold classic_complete in H3.
      simpl in H3. change (alloc (set_lmp c (lmp_set (c_lmp c) sender true))) with (alloc c) in H3.
      rewrite Hal, Hk0 in H3. inversion H3; subst. auto.
    + (* MLmpDetach *)
      assert (Hout : out = [] /\ c_lmp c' = c_lmp c).
      { unfold on_lmp_detach in H3. destruct (tbl_get (c_cl c) sender); inversion H3; subst; auto. }
      destruct Hout as [-> Hlmp]. eapply cinvs_detached; eauto.
      intros k0 Hk0. unfold on_lmp_detach in H3. rewrite Hk0 in H3. inversion H3; subst. reflexivity.
  - (* a message to a controller that does not exist is dropped *)
    subst s' evs out. destruct S as [_ Sbc Spair]. constructor; simpl; auto.
    + intros src0 dst0 m0 Hin Hm. apply remove_nth_in in Hin. eauto.
    + intros i j ci cj Hij Hi Hj. specialize (Spair i j ci cj Hij Hi Hj). unfold cpair_ok, crel in *. simpl.
      assert (Hrm : forall x y cy, nth_error (st_cs s) y = Some cy ->
                filter (crel_pkt x y) (remove_nth k (st_net s)) = filter (crel_pkt x y) (st_net s)).
      { intros x y cy Hy. apply (crel_remove_other _ _ _ _ _ H0).
        destruct (crel_pkt x y (src, dst, m)) eqn:E; [|reflexivity].
        apply crel_pkt_true in E. destruct E as [_ [-> _]]. congruence. }
      rewrite (Hrm i j cj Hj), (Hrm j i ci Hi). exact Spair.
Qed.

Lemma cinvs_run : forall ls s, cinvs s -> run_ok guard_cl s ls = true -> cinvs (run_state s ls).
Proof.
  induction ls as [|l ls IH]; intros s I H.
  - exact I.
  - rewrite run_state_cons. simpl in H. apply andb_true_iff in H. destruct H as [Gd H].
    apply IH; [|exact H]. destruct (step s l) as [[s1 e] o] eqn:Hs. simpl. eapply cinvs_step; eauto.
Qed.

Lemma cinvs_init : forall cfg, cfg_ok cfg = true -> cinvs (init cfg).
Proof.
  intros cfg H. pose proof (ginv_init cfg H) as G.
  assert (Hnew : forall i c, nth_error (st_cs (init cfg)) i = Some c -> c_cl c = [] /\ c_lmp c = []).
  { unfold init; simpl. intros i c Hc. rewrite nth_error_map in Hc.
    destruct (nth_error cfg i) as [[[p r] x]|]; [|discriminate]. simpl in Hc. inversion Hc; subst. auto. }
  constructor; auto.
  intros i j ci cj Hij Hi Hj. unfold cpair_ok, ent, fut, crel.
  destruct (Hnew _ _ Hi) as [A1 A2]. destruct (Hnew _ _ Hj) as [B1 B2]. rewrite A1, A2, B1, B2. simpl.
  left. unfold settled. repeat split; auto; discriminate.
Qed.

(* classic_tables_symmetric: in every state reachable by a schedule satisfying the guard, for
   two controllers with no connection-management LMP message in flight between them: neither
   holds a BR/EDR entry for the other; or each holds an established one (non-zero handle) in
   opposite roles; or a connection request of one of them is waiting for the other's host to
   accept it (both entries still carry handle 0). *)
Theorem classic_tables_symmetric : forall cfg ls i j ci cj, cfg_ok cfg = true ->
  run_ok guard_cl (init cfg) ls = true ->
  let s := run_state (init cfg) ls in
  i <> j -> nth_error (st_cs s) i = Some ci -> nth_error (st_cs s) j = Some cj ->
  cquiet s i j = true ->
  (ent ci cj = None /\ ent cj ci = None)
  \/ (exists k k', ent ci cj = Some k /\ ent cj ci = Some k' /\ k_handle k <> 0 /\ k_handle k' <> 0 /\
        k_central k' = negb (k_central k))
  \/ (exists k k', ent ci cj = Some k /\ ent cj ci = Some k' /\ k_handle k = 0 /\ k_handle k' = 0 /\
        k_central k' = negb (k_central k)).
Proof.
  intros cfg ls i j ci cj Hc Hr s Hij Hi Hj Hq.
  pose proof (cinvs_run ls (init cfg) (cinvs_init cfg Hc) Hr) as S. fold s in S.
  pose proof (cs_pair s S _ _ _ _ Hij Hi Hj) as Hp. unfold cpair_ok in Hp.
  unfold cquiet in Hq. apply andb_true_iff in Hq. destruct Hq as [Q1 Q2]. apply nil_b_iff in Q1, Q2.
  rewrite Q1, Q2 in Hp.
  destruct Hp as [H|[H|[H|H]]].
  - left. tauto.
  - right. left. destruct H as [k [k' [H1 [H2 [H3 [H4 [H5 _]]]]]]]. exists k, k'. auto.
  - destruct H as [_ [H|[H|[H|H]]]].
    + destruct H as [k [_ [_ [_ [_ [_ [H _]]]]]]]. discriminate.
    + right. right. destruct H as [k [k' [H1 [H2 [H3 [H4 [H5 [H6 [H7 _]]]]]]]]]. exists k, k'.
      repeat split; auto. rewrite H3, H7. reflexivity.
    + destruct H as [k [k' [_ [_ [_ [_ [_ [_ [_ [_ H]]]]]]]]]]. discriminate.
    + destruct H as [k' [r [_ [_ [_ [_ [H _]]]]]]]. discriminate.
  - destruct H as [_ [H|[H|[H|H]]]].
    + destruct H as [k [_ [_ [_ [_ [_ [H _]]]]]]]. discriminate.
    + right. right. destruct H as [k [k' [H1 [H2 [H3 [H4 [H5 [H6 [H7 _]]]]]]]]]. exists k', k.
      repeat split; auto. rewrite H3, H7. reflexivity.
    + destruct H as [k [k' [_ [_ [_ [_ [_ [_ [_ [_ H]]]]]]]]]]. discriminate.
    + destruct H as [k' [r [_ [_ [_ [_ [H _]]]]]]]. discriminate.
Qed.

(* the guard is satisfiable and not redundant *)
Lemma classic_guard_example :
  let cfg := [(10, 11, false); (20, 21, false); (30, 31, false)] in
  let ls := [LClConnect 0 20; LDeliver 0; LClAccept 1 10; LDeliver 0; LClConnect 2 20; LDeliver 0; LClAccept 1 30;
             LDeliver 0; LDisconnect 1 1 19; LDeliver 0] in
  cfg_ok cfg = true /\ run_ok guard_cl (init cfg) ls = true /\
  map (fun c => map conn_obs (c_cl c)) (st_cs (run_state (init cfg) ls)) = [[]; [(30, 20, 2, false)]; [(20, 30, 1, true)]].
Proof. vm_compute. repeat split. Qed.

(* without the guard: both controllers request a connection to each other at the same time; each
   request overwrites the other side's outgoing placeholder, the hosts accept, and when the
   acceptances arrive the (already finished) set-up raises: the schedule ends with nothing in
   flight and two peripheral entries facing each other *)
Lemma classic_tables_symmetric_refuted_without_guard : exists cfg ls,
  cfg_ok cfg = true /\ run_ok guard_static (init cfg) ls = true /\ run_ok guard_cl (init cfg) ls = false /\
  let s := run_state (init cfg) ls in
  cquiet s 0 1 = true /\
  match nth_error (st_cs s) 0, nth_error (st_cs s) 1 with
  | Some c0, Some c1 =>
      match tbl_get (c_cl c0) (c_public c1), tbl_get (c_cl c1) (c_public c0) with
      | Some k, Some k' => andb (negb (k_handle k =? 0)) (Bool.eqb (k_central k) (k_central k'))
      | _, _ => false
      end
  | _, _ => false
  end = true.
Proof.
  exists [(10, 11, false); (20, 21, false)].
  exists [LClConnect 0 20; LClConnect 1 10; LDeliver 0; LDeliver 0; LClAccept 0 20; LClAccept 1 10; LDeliver 0; LDeliver 0].
  vm_compute. repeat split.
Qed.

(* ------------------------------------------------------------------ one response slot per request *)
(* classic_pending_commands[peer][HOST_CONNECTION_REQ]: Controller.send_lmp_packet makes a fresh
   (unresolved) future for every request it sends, whatever the slot held before ... *)
Theorem request_gets_fresh_slot : forall cs i c peer c' e o,
  cl_connect cs i c peer = (c', e, o) -> o <> [] ->
  lmp_get (c_lmp c') peer = Some false /\ (forall h p, ~ In (EClConn h p) e).
Proof.
  intros cs i c peer c' e o H Ho. unfold cl_connect in H.
  destruct (c_pending c); [inversion H; subst; congruence|].
  match type of H with (if ?b then _ else _) = _ => destruct b end; [inversion H; subst; congruence|].
  destruct (find_classic cs peer); inversion H; subst; [|congruence].
  split; [simpl; apply lmp_get_set_same|]. intros h p [Hin|[]]. discriminate.
Qed.

(* ... and an LMP_accepted completes a connection only when the slot of its sender holds an
   unresolved future, which it resolves: a response concludes only a request issued after the
   previous response; a second response, or one without request, reports no connection *)
Theorem response_resolves_pending_request_only : forall cs n j c a c' e o h p,
  on_message cs n j c (MLmpAccepted a) = (c', e, o) -> In (EClConn h p) e ->
  lmp_get (c_lmp c) a = Some false /\ lmp_get (c_lmp c') a = Some true /\ p = a.
Proof.
  intros cs n j c a c' e o h p H Hin. simpl in H. unfold on_lmp_accepted in H.
  destruct (lmp_get (c_lmp c) a) as [[|]|] eqn:E; try (inversion H; subst; simpl in Hin; intuition discriminate).
  unfold classic_complete in H.
  change (alloc (set_lmp c (lmp_set (c_lmp c) a true))) with (alloc c) in H.
  destruct (alloc c); [|inversion H; subst; simpl in Hin; intuition discriminate].
  split; [reflexivity|].
  destruct (tbl_get (c_cl (set_lmp c (lmp_set (c_lmp c) a true))) a); inversion H; subst; simpl;
    (split; [apply lmp_get_set_same|]); destruct Hin as [Hin|[]]; inversion Hin; reflexivity.
Qed.

(* no host command reports a BR/EDR connection to an initiator: Create Connection only answers
   with a status (or Page Timeout), the connection is reported by the response or by the accept *)
Theorem create_connection_reports_no_connection : forall cs i c peer c' e o h p,
  cl_connect cs i c peer = (c', e, o) -> ~ In (EClConn h p) e.
Proof.
  intros cs i c peer c' e o h p H Hin. unfold cl_connect in H.
  destruct (c_pending c); [inversion H; subst; simpl in Hin; intuition discriminate|].
  match type of H with (if ?b then _ else _) = _ => destruct b end; [inversion H; subst; simpl in Hin; intuition discriminate|].
  destruct (find_classic cs peer); inversion H; subst; simpl in Hin; intuition discriminate.
Qed.
