(* Proofs about Model/RfcommMux.v: data links on one multiplexer do not interfere.
   Every run of the multiplexer system, projected on one DLCI, IS a run of the
   single-DLC system of Model/Rfcomm.v (under the projected schedule); all the
   single-DLC theorems therefore hold for each data link whatever the others do. *)
From Coq Require Import ZArith List Bool Lia.
From BV Require Import Model.Rfcomm Model.RfcommMux Proofs.Rfcomm.
Import ListNotations.
Open Scope Z_scope.

Lemma mux_get_set_same d x m y : mux_get d m = Some y -> mux_get d (mux_set d x m) = Some x.
Proof.
  induction m as [|[k z] r IH]; cbn; [discriminate|].
  destruct (k =? d) eqn:E; cbn; rewrite E; auto.
Qed.

Lemma mux_get_set_other d d' x m : d' <> d -> mux_get d (mux_set d' x m) = mux_get d m.
Proof.
  intros Hne. induction m as [|[k z] r IH]; cbn; [reflexivity|].
  destruct (k =? d') eqn:E; cbn.
  - apply Z.eqb_eq in E. subst k. destruct (d' =? d) eqn:E2; [apply Z.eqb_eq in E2; congruence|reflexivity].
  - destruct (k =? d); auto.
Qed.

Lemma chan_proj_app d a b : chan_proj d (a ++ b) = chan_proj d a ++ chan_proj d b.
Proof. unfold chan_proj. now rewrite filter_app, map_app. Qed.

Lemma chan_proj_tag_same d frs : chan_proj d (tag d frs) = frs.
Proof.
  unfold chan_proj, tag. induction frs as [|f r IH]; cbn; [reflexivity|].
  rewrite Z.eqb_refl. cbn. now rewrite IH.
Qed.

Lemma chan_proj_tag_other d d' frs : d' <> d -> chan_proj d (tag d' frs) = [].
Proof.
  intros Hne. unfold chan_proj, tag. induction frs as [|f r IH]; cbn; [reflexivity|].
  destruct (d' =? d) eqn:E; [apply Z.eqb_eq in E; congruence|exact IH].
Qed.

Lemma rcv_proj_app d a b : rcv_proj d (a ++ b) = rcv_proj d a ++ rcv_proj d b.
Proof. unfold rcv_proj. now rewrite filter_app, map_app, concat_app. Qed.

Lemma rcv_proj_log_same d data log : rcv_proj d (log_sink d data log) = rcv_proj d log ++ data.
Proof.
  unfold log_sink. destruct data as [|x r]; [now rewrite app_nil_r|].
  rewrite rcv_proj_app. unfold rcv_proj at 2. cbn. rewrite Z.eqb_refl. cbn. now rewrite app_nil_r.
Qed.

Lemma rcv_proj_log_other d d' data log : d' <> d -> rcv_proj d (log_sink d' data log) = rcv_proj d log.
Proof.
  intros Hne. unfold log_sink. destruct data as [|x r]; [reflexivity|].
  rewrite rcv_proj_app. unfold rcv_proj at 2. cbn.
  destruct (d' =? d) eqn:E; [apply Z.eqb_eq in E; congruence|]. cbn. now rewrite app_nil_r.
Qed.

Lemma zmem_note_same d ok bad : negb (zmem d (note_bad d ok bad)) = negb (zmem d bad) && ok.
Proof.
  unfold note_bad. destruct ok; cbn; [now rewrite andb_true_r|].
  rewrite Z.eqb_refl. cbn. now rewrite andb_false_r.
Qed.

Lemma zmem_note_other d d' ok bad : d' <> d -> zmem d (note_bad d' ok bad) = zmem d bad.
Proof.
  intros Hne. unfold note_bad. destruct ok; cbn; [reflexivity|].
  destruct (d =? d') eqn:E; [apply Z.eqb_eq in E; congruence|reflexivity].
Qed.

(* one multiplexer step is the projected single-DLC step (or a stutter) *)
Lemma proj_step P d s l x :
  proj d s = Some x ->
  proj d (mstep P s l) = Some (run P x (proj_label d s l)).
Proof.
  unfold proj. destruct (mux_get d (m_a s)) as [xa|] eqn:Ea; [|discriminate].
  destruct (mux_get d (m_b s)) as [xb|] eqn:Eb; [|discriminate].
  intros Hx. inversion Hx; subst x; clear Hx.
  destruct l as [d' data|d' data| |]; cbn [mstep proj_label].
  - (* MWriteA *)
    destruct (d' =? d) eqn:E.
    + apply Z.eqb_eq in E. subst d'. rewrite Ea. cbn [run step s_a].
      destruct (dlc_write P xa data) as [[x' frs] ok]. cbn [m_a m_b m_ab m_ba m_rcv_a m_rcv_b m_bad].
      rewrite (mux_get_set_same d x' _ xa Ea), Eb, chan_proj_app, chan_proj_tag_same, zmem_note_same.
      reflexivity.
    + apply Z.eqb_neq in E. destruct (mux_get d' (m_a s)) as [y|] eqn:Ey; cbn [run].
      * destruct (dlc_write P y data) as [[x' frs] ok]. cbn [m_a m_b m_ab m_ba m_rcv_a m_rcv_b m_bad].
        rewrite (mux_get_set_other d d' x' _ E), Ea, Eb, chan_proj_app, chan_proj_tag_other,
          app_nil_r, zmem_note_other by exact E. reflexivity.
      * rewrite Ea, Eb. reflexivity.
  - (* MWriteB *)
    destruct (d' =? d) eqn:E.
    + apply Z.eqb_eq in E. subst d'. rewrite Eb. cbn [run step s_b].
      destruct (dlc_write P xb data) as [[x' frs] ok]. cbn [m_a m_b m_ab m_ba m_rcv_a m_rcv_b m_bad].
      rewrite (mux_get_set_same d x' _ xb Eb), Ea, chan_proj_app, chan_proj_tag_same, zmem_note_same.
      reflexivity.
    + apply Z.eqb_neq in E. destruct (mux_get d' (m_b s)) as [y|] eqn:Ey; cbn [run].
      * destruct (dlc_write P y data) as [[x' frs] ok]. cbn [m_a m_b m_ab m_ba m_rcv_a m_rcv_b m_bad].
        rewrite (mux_get_set_other d d' x' _ E), Ea, Eb, chan_proj_app, chan_proj_tag_other,
          app_nil_r, zmem_note_other by exact E. reflexivity.
      * rewrite Ea, Eb. reflexivity.
  - (* MDeliverAB *)
    destruct (m_ab s) as [|[d' fr] rest] eqn:Eab.
    + cbn [run]. rewrite Ea, Eb, Eab. reflexivity.
    + destruct (d' =? d) eqn:E.
      * apply Z.eqb_eq in E. subst d'. rewrite Eb.
        assert (Hp : chan_proj d ((d, fr) :: rest) = fr :: chan_proj d rest).
        { unfold chan_proj. cbn. rewrite Z.eqb_refl. reflexivity. }
        rewrite Hp. cbn [run step s_ab s_b].
        destruct (dlc_on_uih P xb fr) as [[[x' frs] data] ok]. cbn [m_a m_b m_ab m_ba m_rcv_a m_rcv_b m_bad].
        rewrite (mux_get_set_same d x' _ xb Eb), Ea, chan_proj_app, chan_proj_tag_same,
          rcv_proj_log_same, zmem_note_same. reflexivity.
      * cbn [run]. assert (Hp : chan_proj d ((d', fr) :: rest) = chan_proj d rest).
        { unfold chan_proj. cbn. rewrite E. reflexivity. }
        apply Z.eqb_neq in E.
        destruct (mux_get d' (m_b s)) as [y|] eqn:Ey.
        -- destruct (dlc_on_uih P y fr) as [[[x' frs] data] ok]. cbn [m_a m_b m_ab m_ba m_rcv_a m_rcv_b m_bad].
           rewrite (mux_get_set_other d d' x' _ E), Ea, Eb, chan_proj_app, chan_proj_tag_other,
             app_nil_r, rcv_proj_log_other, zmem_note_other, Hp by exact E. reflexivity.
        -- cbn [m_a m_b m_ab m_ba m_rcv_a m_rcv_b m_bad]. rewrite Ea, Eb, Hp. reflexivity.
  - (* MDeliverBA *)
    destruct (m_ba s) as [|[d' fr] rest] eqn:Eba.
    + cbn [run]. rewrite Ea, Eb, Eba. reflexivity.
    + destruct (d' =? d) eqn:E.
      * apply Z.eqb_eq in E. subst d'. rewrite Ea.
        assert (Hp : chan_proj d ((d, fr) :: rest) = fr :: chan_proj d rest).
        { unfold chan_proj. cbn. rewrite Z.eqb_refl. reflexivity. }
        rewrite Hp. cbn [run step s_ba s_a].
        destruct (dlc_on_uih P xa fr) as [[[x' frs] data] ok]. cbn [m_a m_b m_ab m_ba m_rcv_a m_rcv_b m_bad].
        rewrite (mux_get_set_same d x' _ xa Ea), Eb, chan_proj_app, chan_proj_tag_same,
          rcv_proj_log_same, zmem_note_same. reflexivity.
      * cbn [run]. assert (Hp : chan_proj d ((d', fr) :: rest) = chan_proj d rest).
        { unfold chan_proj. cbn. rewrite E. reflexivity. }
        apply Z.eqb_neq in E.
        destruct (mux_get d' (m_a s)) as [y|] eqn:Ey.
        -- destruct (dlc_on_uih P y fr) as [[[x' frs] data] ok]. cbn [m_a m_b m_ab m_ba m_rcv_a m_rcv_b m_bad].
           rewrite (mux_get_set_other d d' x' _ E), Ea, Eb, chan_proj_app, chan_proj_tag_other,
             app_nil_r, rcv_proj_log_other, zmem_note_other, Hp by exact E. reflexivity.
        -- cbn [m_a m_b m_ab m_ba m_rcv_a m_rcv_b m_bad]. rewrite Ea, Eb, Hp. reflexivity.
Qed.

Lemma run_app P s l1 l2 : run P s (l1 ++ l2) = run P (run P s l1) l2.
Proof. revert s. induction l1; intros s; cbn; auto. Qed.

(* dlcs_independent: for every schedule of the multiplexer system, the projection on
   DLCI d of the final state is the final state of the single-DLC system started
   from the projection of the initial state and run under the projected schedule *)
Lemma dlcs_independent P d : forall ls s x,
  proj d s = Some x ->
  proj d (mrun P s ls) = Some (run P x (proj_sched P d s ls)).
Proof.
  induction ls as [|l ls IH]; intros s x Hx; cbn [mrun proj_sched run].
  - exact Hx.
  - rewrite run_app. apply IH. apply proj_step. exact Hx.
Qed.

(* the initial multiplexer state projects on the single-DLC initial state *)
Fixpoint cfg_get (d : Z) (cfg : list (Z * pn * pn)) : option (pn * pn) :=
  match cfg with
  | [] => None
  | (k, ini, rsp) :: r => if k =? d then Some (ini, rsp) else cfg_get d r
  end.

Lemma msetup_proj cfg mtu_i mtu_r d ini rsp :
  cfg_get d cfg = Some (ini, rsp) ->
  proj d (msetup cfg mtu_i mtu_r) = Some (setup ini rsp mtu_i mtu_r).
Proof.
  intros H. unfold proj, msetup. cbn.
  assert (Ha : mux_get d (msetup_a cfg mtu_r) = Some (mk_dlc (pn_wire rsp) ini mtu_r)).
  { induction cfg as [|[[k i] r] c IH]; cbn in *; [discriminate|].
    destruct (k =? d); [inversion H; reflexivity|auto]. }
  assert (Hb : mux_get d (msetup_b cfg mtu_i) = Some (mk_dlc (pn_wire ini) rsp mtu_i)).
  { induction cfg as [|[[k i] r] c IH]; cbn in *; [discriminate|].
    destruct (k =? d); [inversion H; reflexivity|auto]. }
  rewrite Ha, Hb. reflexivity.
Qed.

(* hence: on every data link of a multiplexer, whatever is written on the others and
   however the shared channel is scheduled, the stream is exact, the credit ledger
   balances, no fuel is exhausted, and with the channel drained everything written
   on that link has reached the peer's sink *)
Lemma mux_stream_exact P cfg mtu_i mtu_r d ini rsp ls :
  wf_params_b P = true -> wf_link_b ini rsp mtu_i mtu_r = true ->
  cfg_get d cfg = Some (ini, rsp) ->
  exists x, proj d (mrun P (msetup cfg mtu_i mtu_r) ls) = Some x /\
    let sl := proj_sched P d (msetup cfg mtu_i mtu_r) ls in
    s_rcv_b x ++ flight_data (s_ab x) ++ d_tx_buf (s_a x) = writes_a sl /\
    s_rcv_a x ++ flight_data (s_ba x) ++ d_tx_buf (s_b x) = writes_b sl /\
    s_ok x = true /\
    d_tx_credits (s_a x) + n_data (s_ab x) + sum_credits (s_ba x) = d_rx_credits (s_b x) /\
    d_tx_credits (s_b x) + n_data (s_ba x) + sum_credits (s_ab x) = d_rx_credits (s_a x) /\
    (s_ab x = [] -> s_ba x = [] -> s_rcv_b x = writes_a sl /\ s_rcv_a x = writes_b sl).
Proof.
  intros HP Hwf Hc. eexists. split.
  - apply dlcs_independent. apply msetup_proj. exact Hc.
  - cbn zeta.
    pose proof (stream_exact P ini rsp mtu_i mtu_r HP Hwf
                  (proj_sched P d (msetup cfg mtu_i mtu_r) ls)) as [H1 H2].
    pose proof (credit_safe P ini rsp mtu_i mtu_r HP Hwf
                  (proj_sched P d (msetup cfg mtu_i mtu_r) ls)) as (L1 & L2 & _).
    repeat split; try assumption.
    + apply fuel_ok; assumption.
    + apply (progress P ini rsp mtu_i mtu_r HP Hwf _ H H0).
    + apply (progress P ini rsp mtu_i mtu_r HP Hwf _ H H0).
Qed.

(* the projected schedule writes on A exactly what the multiplexer schedule writes on
   DLCI d at A (so "written on that link" above is what the application wrote there) *)
Fixpoint mwrites_a (d : Z) (ls : list mlabel) : list Z :=
  match ls with
  | [] => []
  | MWriteA d' data :: r => (if d' =? d then data else []) ++ mwrites_a d r
  | _ :: r => mwrites_a d r
  end.
Fixpoint mwrites_b (d : Z) (ls : list mlabel) : list Z :=
  match ls with
  | [] => []
  | MWriteB d' data :: r => (if d' =? d then data else []) ++ mwrites_b d r
  | _ :: r => mwrites_b d r
  end.

Lemma writes_a_app l1 l2 : writes_a (l1 ++ l2) = writes_a l1 ++ writes_a l2.
Proof. induction l1 as [|l r IH]; [reflexivity|]. cbn [app]. rewrite !writes_a_cons, IH, app_assoc. reflexivity. Qed.
Lemma writes_b_app l1 l2 : writes_b (l1 ++ l2) = writes_b l1 ++ writes_b l2.
Proof. induction l1 as [|l r IH]; [reflexivity|]. cbn [app]. rewrite !writes_b_cons, IH, app_assoc. reflexivity. Qed.

Lemma proj_sched_writes P d : forall ls s,
  writes_a (proj_sched P d s ls) = mwrites_a d ls /\
  writes_b (proj_sched P d s ls) = mwrites_b d ls.
Proof.
  induction ls as [|l ls IH]; intros s; [split; reflexivity|].
  cbn [proj_sched]. rewrite writes_a_app, writes_b_app.
  destruct (IH (mstep P s l)) as [Ia Ib]. rewrite Ia, Ib.
  destruct l as [d' data|d' data| |]; cbn [proj_label mwrites_a mwrites_b].
  - destruct (d' =? d); cbn; rewrite ?app_nil_r; split; reflexivity.
  - destruct (d' =? d); cbn; rewrite ?app_nil_r; split; reflexivity.
  - destruct (m_ab s) as [|[d' fr] r]; [split; reflexivity|]. destruct (d' =? d); split; reflexivity.
  - destruct (m_ba s) as [|[d' fr] r]; [split; reflexivity|]. destruct (d' =? d); split; reflexivity.
Qed.
