(* Proofs about the wire format in Model/Ertm.v and about Model/Crc16.v. *)
From Coq Require Import ZArith List Bool Lia.
From BV Require Import Model.Crc16 Model.Ertm Proofs.ErtmSeg.
Import ListNotations.
Open Scope Z_scope.

Definition frame_wf (f : frame) : Prop :=
  match f with
  | IFrame tx req s sdulen data _ =>
      0 <= tx < 64 /\ 0 <= req < 64 /\
      match s with START => 0 <= sdulen < 65536 | _ => sdulen = 0 end
  | SFrame func poll final req => 0 <= func < 4 /\ 0 <= req < 64
  end.

Lemma le16_dec v : 0 <= v < 65536 -> v mod 256 + 256 * ((v / 256) mod 256) = v.
Proof. intros H. Z.div_mod_to_equations. lia. Qed.

Lemma dec_enc_frame f : frame_wf f -> dec_frame (enc_frame f) = Some f.
Proof.
  destruct f as [tx req s sdulen data fin | func poll final req]; cbn [frame_wf enc_frame].
  - intros (Htx & Hreq & Hs).
    assert (E0 : Z.even (2 * tx + 128 * b2z fin) = true).
    { rewrite Z.even_add, !Z.even_mul. reflexivity. }
    assert (E1 : (2 * tx + 128 * b2z fin) / 2 mod 64 = tx)
      by (destruct fin; cbn [b2z]; Z.div_mod_to_equations; lia).
    assert (E4 : Z.odd ((2 * tx + 128 * b2z fin) / 128) = fin).
    { destruct fin; cbn [b2z].
      - replace ((2 * tx + 128 * 1) / 128) with 1 by (Z.div_mod_to_equations; lia). reflexivity.
      - replace ((2 * tx + 128 * 0) / 128) with 0 by (Z.div_mod_to_equations; lia). reflexivity. }
    assert (E2 : (req + 64 * sar_code s) mod 64 = req)
      by (destruct s; cbn [sar_code]; Z.div_mod_to_equations; lia).
    assert (E3 : sar_of_code (((req + 64 * sar_code s) / 64) mod 4) = s).
    { destruct s; cbn [sar_code].
      - replace ((req + 64 * 0) / 64 mod 4) with 0 by (Z.div_mod_to_equations; lia). reflexivity.
      - replace ((req + 64 * 1) / 64 mod 4) with 1 by (Z.div_mod_to_equations; lia). reflexivity.
      - replace ((req + 64 * 2) / 64 mod 4) with 2 by (Z.div_mod_to_equations; lia). reflexivity.
      - replace ((req + 64 * 3) / 64 mod 4) with 3 by (Z.div_mod_to_equations; lia). reflexivity. }
    cbn [app dec_frame]. rewrite E0, E1, E2, E3, E4.
    destruct s; cbn [app le16]; try (subst sdulen; reflexivity).
    now rewrite le16_dec.
  - intros (Hf & Hreq).
    assert (Hr : req mod 128 = req) by (apply Z.mod_small; lia).
    cbn [dec_frame]. rewrite Hr.
    assert (Hc : func = 0 \/ func = 1 \/ func = 2 \/ func = 3) by lia.
    destruct Hc as [-> | [-> | [-> | ->]]]; destruct poll, final; reflexivity.
Qed.

Lemma firstn_app_exact {A} (l1 l2 : list A) : firstn (length l1) (l1 ++ l2) = l1.
Proof. rewrite firstn_app, Nat.sub_diag, firstn_all. cbn. apply app_nil_r. Qed.

Lemma dec_enc_pdu fcs cid payload :
  0 <= cid < 65536 -> zlen payload + 2 < 65536 ->
  dec_pdu fcs (enc_pdu fcs cid payload) = Some (cid, payload).
Proof.
  intros Hc Hl. unfold enc_pdu, dec_pdu. unfold zlen in Hl.
  destruct fcs; cbn [le16 app].
  - rewrite (le16_dec (Z.of_nat (length payload) + 2)) by lia. rewrite (le16_dec cid) by lia.
    set (c := crc16 _).
    assert (Hlen : Z.to_nat (Z.of_nat (length payload) + 2) = length (payload ++ le16 c))
      by (rewrite app_length; cbn [le16 length]; lia).
    rewrite Hlen, firstn_all, app_length. cbn [le16 length].
    replace (length payload + 2 - 2)%nat with (length payload) by lia.
    now rewrite firstn_app_exact.
  - rewrite Z.add_0_r. rewrite (le16_dec (Z.of_nat (length payload))) by lia.
    rewrite (le16_dec cid) by lia.
    rewrite Nat2Z.id, firstn_all. reflexivity.
Qed.

(* what the peer's ClassicChannel hands to its processor is the frame that was sent,
   provided both ends use the same FCS setting *)
Theorem wire_roundtrip fcs cid f :
  frame_wf f -> 0 <= cid < 65536 -> zlen (enc_frame f) + 2 < 65536 ->
  match dec_pdu fcs (enc_pdu fcs cid (enc_frame f)) with
  | Some (c, payload) => c = cid /\ dec_frame payload = Some f
  | None => False
  end.
Proof.
  intros Hf Hc Hl. rewrite dec_enc_pdu by assumption. split; [reflexivity|].
  now apply dec_enc_frame.
Qed.

(* with different FCS settings the frame is NOT recovered: a concrete witness *)
Lemma wire_fcs_mismatch_refuted :
  exists f, frame_wf f /\
    match dec_pdu false (enc_pdu true 64 (enc_frame f)) with
    | Some (_, payload) => dec_frame payload <> Some f
    | None => True
    end.
Proof.
  exists (IFrame 0 0 UNSEG 0 [1; 2; 3] true). split; [cbn; lia|]. vm_compute. discriminate.
Qed.

(* ---------- CRC-16 ---------- *)
Lemma crc_table_bitwise :
  forallb (fun n => nth n crc_table 0 =? crc16 [Z.of_nat n]) (seq 0 256) = true.
Proof. vm_compute. reflexivity. Qed.

Lemma crc_table_entries : forall i, 0 <= i < 256 ->
  nth (Z.to_nat i) crc_table 0 = crc16 [i].
Proof.
  intros i Hi. pose proof crc_table_bitwise as H. rewrite forallb_forall in H.
  specialize (H (Z.to_nat i)). rewrite Z2Nat.id in H by lia.
  apply Z.eqb_eq, H, in_seq. lia.
Qed.
