(* Proofs about Model/Framer.v (property C02). *)
From Coq Require Import ZArith List Bool Lia.
From BV Require Import Model.Framer.
Import ListNotations.
Open Scope Z_scope.

(* ------------------------------------------------------------------ lists and lengths *)
(* lia (8.16) does not digest [@length Z l]; abstract the lengths first *)
Ltac glen := repeat match goal with
  | |- context [@length ?A ?l] => let k := fresh "k" in set (k := @length A l) in *; clearbody k
  | H : context [@length ?A ?l] |- _ => let k := fresh "k" in set (k := @length A l) in *; clearbody k
  end.
Ltac llia := glen; lia.
Lemma len_nil : len [] = 0.
Proof. reflexivity. Qed.

Lemma len_cons : forall x l, len (x :: l) = 1 + len l.
Proof. intros. unfold len. simpl length. lia. Qed.

Lemma len_app : forall a b, len (a ++ b) = len a + len b.
Proof. intros. unfold len. rewrite app_length. lia. Qed.

Lemma len_nonneg : forall l, 0 <= len l.
Proof. intros. unfold len. lia. Qed.

Lemma len_zero : forall l, len l = 0 -> l = [].
Proof. intros [|x l] H; [reflexivity|]. rewrite len_cons in H. pose proof (len_nonneg l). lia. Qed.

Lemma take_all : forall n l, len l <= n -> take n l = l.
Proof. intros. unfold take, len in *. apply firstn_all2. lia. Qed.

Lemma drop_all : forall n l, len l <= n -> drop n l = [].
Proof. intros. unfold drop, len in *. apply skipn_all2. lia. Qed.

Lemma take_nonpos : forall n l, n <= 0 -> take n l = [].
Proof. intros. unfold take. replace (Z.to_nat n) with O by lia. reflexivity. Qed.

Lemma drop_nonpos : forall n l, n <= 0 -> drop n l = l.
Proof. intros. unfold drop. replace (Z.to_nat n) with O by lia. reflexivity. Qed.

Lemma take_drop : forall n l, take n l ++ drop n l = l.
Proof. intros. unfold take, drop. apply firstn_skipn. Qed.

Lemma take_app_len : forall a b, take (len a) (a ++ b) = a.
Proof.
  intros. unfold take, len. rewrite Nat2Z.id.
  rewrite firstn_app, Nat.sub_diag, firstn_all. simpl. apply app_nil_r.
Qed.

Lemma drop_app_len : forall a b, drop (len a) (a ++ b) = b.
Proof.
  intros. unfold drop, len. rewrite Nat2Z.id.
  rewrite skipn_app, Nat.sub_diag, skipn_all. reflexivity.
Qed.

Lemma take_app_ge : forall n a b, len a <= n -> take n (a ++ b) = a ++ take (n - len a) b.
Proof.
  intros. unfold take, len in *. rewrite firstn_app.
  rewrite firstn_all2 by lia. f_equal. f_equal. lia.
Qed.

Lemma drop_app_ge : forall n a b, len a <= n -> drop n (a ++ b) = drop (n - len a) b.
Proof.
  intros. unfold drop, len in *. rewrite skipn_app.
  rewrite skipn_all2 by lia. simpl. f_equal. lia.
Qed.

Lemma take_app_le : forall n a b, n <= len a -> take n (a ++ b) = take n a.
Proof.
  intros. unfold take, len in *. rewrite firstn_app.
  replace (Z.to_nat n - length a)%nat with O by lia. simpl. apply app_nil_r.
Qed.

Lemma len_take : forall n l, 0 <= n -> len (take n l) = Z.min n (len l).
Proof.
  intros. unfold take, len. rewrite firstn_length, Nat2Z.inj_min, Z2Nat.id by lia. reflexivity.
Qed.

Lemma len_drop_any : forall n l, len (drop n l) = len l - Z.max 0 (Z.min n (len l)).
Proof. intros. unfold drop, len. rewrite skipn_length. llia. Qed.

Lemma split_at : forall n l, 0 <= n <= len l ->
  exists a b, l = a ++ b /\ len a = n.
Proof.
  intros n l H. exists (take n l), (drop n l). split.
  - symmetry. apply take_drop.
  - rewrite len_take by lia. lia.
Qed.

Lemma bytes_ok_app : forall a b, bytes_ok (a ++ b) = bytes_ok a && bytes_ok b.
Proof. intros. unfold bytes_ok. apply forallb_app. Qed.

Lemma le_decode_nonneg : forall l, bytes_ok l = true -> 0 <= le_decode l.
Proof.
  induction l as [|b l IH]; intros H; [simpl; lia|].
  change (le_decode (b :: l)) with (b + 256 * le_decode l).
  change (bytes_ok (b :: l)) with (byte_ok b && bytes_ok l) in H.
  apply andb_true_iff in H. destruct H as [Hb Hl]. unfold byte_ok in Hb.
  apply andb_true_iff in Hb. destruct Hb as [H0 H1].
  apply Z.leb_le in H0. apply Z.ltb_lt in H1. specialize (IH Hl). lia.
Qed.

Lemma bytes_ok_take : forall n l, bytes_ok l = true -> bytes_ok (take n l) = true.
Proof.
  intros n l H. rewrite <- (take_drop n l) in H. rewrite bytes_ok_app in H.
  apply andb_true_iff in H. tauto.
Qed.

Lemma bytes_ok_drop : forall n l, bytes_ok l = true -> bytes_ok (drop n l) = true.
Proof.
  intros n l H. rewrite <- (take_drop n l) in H. rewrite bytes_ok_app in H.
  apply andb_true_iff in H. tauto.
Qed.

(* ------------------------------------------------------------------ the loop, fuel removed *)
Definition prepend (o : list out) (r : parser * list out * status) : parser * list out * status :=
  let '(s, o2, st) := r in (s, o ++ o2, st).

Lemma prepend_nil : forall r, prepend [] r = r.
Proof. intros [[s o] st]. reflexivity. Qed.

Lemma prepend_prepend : forall a b r, prepend a (prepend b r) = prepend (a ++ b) r.
Proof. intros a b [[s o] st]. simpl. rewrite app_assoc. reflexivity. Qed.

Lemma body_rest : forall t s d,
  snd (body t s d) = drop (Z.min (p_needed s) (len d)) d.
Proof.
  intros. unfold body. destruct (p_needed _ =? 0); [|reflexivity].
  destruct (fin t _) as [[s2 o] r]. reflexivity.
Qed.

Lemma guard_true : forall s d, guard s d = true -> 0 < p_needed s /\ 0 < len d.
Proof.
  intros s [|x d] H; simpl in H; [discriminate|].
  rewrite len_cons. pose proof (len_nonneg d). apply Z.ltb_lt in H. lia.
Qed.

Lemma guard_intro : forall s d, 0 < p_needed s -> 0 < len d -> guard s d = true.
Proof.
  intros s [|x d] H1 H2; [rewrite len_nil in H2; lia|]. simpl. apply Z.ltb_lt. lia.
Qed.

Lemma guard_false_needed : forall s d, p_needed s <= 0 -> guard s d = false.
Proof. intros s [|x d] H; simpl; [reflexivity|]. apply Z.ltb_ge. lia. Qed.

Lemma body_shrinks : forall t s d s1 o1 r rest,
  guard s d = true -> body t s d = (s1, o1, r, rest) -> (length rest < length d)%nat.
Proof.
  intros t s d s1 o1 r rest Hg Hb. apply guard_true in Hg.
  pose proof (body_rest t s d) as Hr. rewrite Hb in Hr. simpl in Hr. subst rest.
  pose proof (len_drop_any (Z.min (p_needed s) (len d)) d) as H.
  unfold len in *. lia.
Qed.

Lemma feed_loop_fuel : forall t f1 f2 s d,
  (length d <= f1)%nat -> (length d <= f2)%nat -> feed_loop t f1 s d = feed_loop t f2 s d.
Proof.
  induction f1 as [|f1 IH]; intros f2 s d H1 H2.
  - destruct d; [|simpl in H1; lia]. destruct f2; reflexivity.
  - destruct f2 as [|f2].
    + destruct d; [|simpl in H2; lia]. reflexivity.
    + simpl. destruct (guard s d) eqn:Hg; [|reflexivity].
      destruct (body t s d) as [[[s1 o1] r] rest] eqn:Hb.
      destruct r; [reflexivity|].
      pose proof (body_shrinks _ _ _ _ _ _ _ Hg Hb).
      rewrite (IH f2 s1 rest) by lia. reflexivity.
Qed.

Lemma feed_unfold : forall t s d,
  feed t s d =
  if guard s d then
    let '(s1, o1, raised, rest) := body t s d in
    if raised then (s1, o1, Raised) else prepend o1 (feed t s1 rest)
  else (s, [], Ok).
Proof.
  intros t s d. unfold feed. destruct d as [|x d]; [reflexivity|].
  cbn [length feed_loop].
  destruct (guard s (x :: d)) eqn:Hg; [|reflexivity].
  destruct (body t s (x :: d)) as [[[s1 o1] r] rest] eqn:Hb.
  destruct r; [reflexivity|].
  pose proof (body_shrinks _ _ _ _ _ _ _ Hg Hb) as Hs. simpl in Hs.
  rewrite (feed_loop_fuel t (length d) (length rest) s1 rest) by lia.
  reflexivity.
Qed.

Lemma feed_nil : forall t s, feed t s [] = (s, [], Ok).
Proof. reflexivity. Qed.

Lemma feed_idle : forall t s d, p_needed s <= 0 -> feed t s d = (s, [], Ok).
Proof. intros. rewrite feed_unfold, guard_false_needed by assumption. reflexivity. Qed.

Lemma acc_nil : forall s, acc s [] = s.
Proof.
  intros [st n p i]. unfold acc. simpl. rewrite len_nil, Z.sub_0_r, app_nil_r. reflexivity.
Qed.

Lemma acc_acc : forall s a b, acc (acc s a) b = acc s (a ++ b).
Proof.
  intros [st n p i] a b. unfold acc. simpl. rewrite len_app, app_assoc. f_equal. lia.
Qed.

(* a chunk shorter than what is needed is only accumulated *)
Lemma feed_short : forall t s d, len d < p_needed s -> feed t s d = (acc s d, [], Ok).
Proof.
  intros t s d H. destruct d as [|x d].
  - rewrite acc_nil. reflexivity.
  - rewrite feed_unfold, guard_intro.
    2: { pose proof (len_nonneg (x :: d)). lia. }
    2: { rewrite len_cons. pose proof (len_nonneg d). lia. }
    unfold body. rewrite Z.min_r by lia.
    rewrite take_all, drop_all by lia.
    replace (p_needed (acc s (x :: d)) =? 0) with false.
    2: { symmetry. apply Z.eqb_neq. simpl. lia. }
    rewrite feed_nil. simpl. reflexivity.
Qed.

(* a chunk that starts with exactly the needed bytes completes the current step *)
Lemma feed_fill : forall t s a r, 0 < p_needed s -> len a = p_needed s ->
  feed t s (a ++ r) =
  let '(s1, o1, raised) := fin t (acc s a) in
  if raised then (s1, o1, Raised) else prepend o1 (feed t s1 r).
Proof.
  intros t s a r Hn Ha. rewrite feed_unfold, guard_intro; [|assumption|].
  2: { rewrite len_app. pose proof (len_nonneg r). lia. }
  unfold body. rewrite len_app, Z.min_l by (pose proof (len_nonneg r); lia).
  rewrite <- Ha, take_app_len, drop_app_len.
  replace (p_needed (acc s a) =? 0) with true.
  2: { symmetry. apply Z.eqb_eq. simpl. lia. }
  destruct (fin t (acc s a)) as [[s1 o1] raised]. reflexivity.
Qed.

(* a short first part can be merged into the state *)
Lemma feed_merge : forall t s a b, len a < p_needed s -> feed t s (a ++ b) = feed t (acc s a) b.
Proof.
  intros t s a b H. destruct b as [|y b].
  - rewrite app_nil_r, feed_nil. apply feed_short. assumption.
  - pose proof (len_nonneg a) as Ha. pose proof (len_nonneg b) as Hb.
    rewrite (feed_unfold t s), (feed_unfold t (acc s a)).
    rewrite !guard_intro; try (simpl; lia); try (rewrite ?len_app, ?len_cons; lia).
    assert (Hbody : body t s (a ++ y :: b) = body t (acc s a) (y :: b)).
    { unfold body.
      replace (Z.min (p_needed s) (len (a ++ y :: b)))
        with (len a + Z.min (p_needed (acc s a)) (len (y :: b))).
      2: { rewrite len_app. simpl p_needed. lia. }
      set (c := Z.min (p_needed (acc s a)) (len (y :: b))).
      assert (0 <= c). { unfold c. simpl p_needed. rewrite len_cons. lia. }
      rewrite take_app_ge, drop_app_ge by lia.
      replace (len a + c - len a) with c by lia.
      rewrite acc_acc. reflexivity. }
    rewrite Hbody. reflexivity.
Qed.

(* ------------------------------------------------------------------ fusion *)
(* what feeding b does after the result r1 of an earlier feed: an earlier raise has
   discarded the rest of its own chunk only; within ONE call the rest is discarded *)
Definition then_feed (t : table) (r1 : parser * list out * status) (b : list Z) :=
  let '(s1, o1, st1) := r1 in
  match st1 with
  | Ok => prepend o1 (feed t s1 b)
  | _ => r1
  end.

Lemma then_feed_prepend : forall t o r b,
  then_feed t (prepend o r) b = prepend o (then_feed t r b).
Proof.
  intros t o [[s1 o1] st1] b. simpl. destruct st1; try reflexivity.
  rewrite prepend_prepend. reflexivity.
Qed.

Lemma feed_app_n : forall t n a b s, (length a <= n)%nat ->
  feed t s (a ++ b) = then_feed t (feed t s a) b.
Proof.
  induction n as [|n IH]; intros a b s Hl.
  - destruct a; [|simpl in Hl; lia]. simpl. rewrite prepend_nil. reflexivity.
  - destruct (Z_le_gt_dec (p_needed s) 0) as [Hz|Hp].
    { rewrite !feed_idle by assumption. simpl. rewrite feed_idle by assumption. reflexivity. }
    destruct (Z_lt_le_dec (len a) (p_needed s)) as [Hs|Hge].
    { rewrite feed_merge, (feed_short t s a) by assumption. simpl.
      rewrite prepend_nil. reflexivity. }
    destruct (split_at (p_needed s) a) as (a1 & a2 & -> & Ha1); [lia|].
    rewrite <- app_assoc. rewrite !feed_fill by lia.
    destruct (fin t (acc s a1)) as [[s1 o1] raised].
    destruct raised; [reflexivity|].
    rewrite then_feed_prepend. f_equal. apply IH.
    rewrite app_length in Hl. assert (0 < length a1)%nat by (unfold len in Ha1; lia). lia.
Qed.

(* feed fusion: feeding a ++ b in one call is feeding a, then b, outputs appended
   - unless a raised, in which case the single call has discarded b *)
Lemma feed_app : forall t a b s, feed t s (a ++ b) = then_feed t (feed t s a) b.
Proof. intros. apply (feed_app_n t (length a)). lia. Qed.

Lemma feed_status : forall t n d s, (length d <= n)%nat ->
  snd (feed t s d) <> OutOfFuel.
Proof.
  induction n as [|n IH]; intros d s Hl.
  - destruct d; [|simpl in Hl; lia]. simpl. discriminate.
  - rewrite feed_unfold. destruct (guard s d) eqn:Hg; [|simpl; discriminate].
    destruct (body t s d) as [[[s1 o1] r] rest] eqn:Hb.
    destruct r; [simpl; discriminate|].
    pose proof (body_shrinks _ _ _ _ _ _ _ Hg Hb).
    specialize (IH rest s1). destruct (feed t s1 rest) as [[s2 o2] st]. simpl in *.
    apply IH. lia.
Qed.

(* the explicit out-of-fuel result never occurs *)
Lemma feed_never_out_of_fuel : forall t s d, snd (feed t s d) <> OutOfFuel.
Proof. intros. apply (feed_status t (length d)). lia. Qed.

(* a raise always leaves the parser in its initial state, the error is the last output *)
Lemma fin_cases : forall t s s1 o1 r, fin t s = (s1, o1, r) ->
  (r = true /\ s1 = reset /\ exists ty, o1 = [Error ty]) \/ (r = false /\ has_error o1 = false).
Proof.
  intros t [st n p i] s1 o1 r H. unfold fin in H. cbn [p_st p_pkt p_info p_needed] in H. destruct st.
  - destruct (lookup t _).
    + cbn in H. inversion H. right. split; reflexivity.
    + inversion H. left. repeat split. eexists. reflexivity.
  - cbn in H. destruct (_ =? 0) in H; inversion H; right; split; reflexivity.
  - cbn in H. destruct (_ =? 0) in H; inversion H; right; split; reflexivity.
Qed.

Lemma has_error_app : forall a b, has_error a = false -> has_error (a ++ b) = has_error b.
Proof. induction a as [|[p|e] a IH]; simpl; intros; auto. discriminate. Qed.

Lemma feed_raise_resets_n : forall t n d s s' o, (length d <= n)%nat ->
  feed t s d = (s', o, Raised) ->
  s' = reset /\ exists o' ty, o = o' ++ [Error ty] /\ has_error o' = false.
Proof.
  induction n as [|n IH]; intros d s s' o Hl H.
  - destruct d; [|simpl in Hl; lia]. simpl in H. discriminate.
  - rewrite feed_unfold in H. destruct (guard s d) eqn:Hg; [|discriminate].
    destruct (body t s d) as [[[s1 o1] r] rest] eqn:Hb.
    pose proof (body_shrinks _ _ _ _ _ _ _ Hg Hb) as Hsh.
    assert (Hc : (r = true /\ s1 = reset /\ exists ty, o1 = [Error ty]) \/
                 (r = false /\ has_error o1 = false)).
    { unfold body in Hb. destruct (p_needed _ =? 0).
      - destruct (fin t _) as [[s2 o2] r2] eqn:Hf. inversion Hb; subst.
        eapply fin_cases; eauto.
      - inversion Hb; subst. right. split; reflexivity. }
    destruct Hc as [(-> & -> & ty & ->) | (-> & He1)].
    + inversion H; subst. split; [reflexivity|]. exists [], ty. split; reflexivity.
    + destruct (feed t s1 rest) as [[s3 o3] st3] eqn:Hr. simpl in H. inversion H; subst; clear H.
      destruct (IH rest s1 s' o3) as (Hs & o' & ty & Ho & He); [lia|assumption|].
      split; [assumption|]. exists (o1 ++ o'), ty. split.
      * rewrite Ho, app_assoc. reflexivity.
      * rewrite has_error_app; assumption.
Qed.

Lemma feed_raise_resets : forall t d s s' o,
  feed t s d = (s', o, Raised) ->
  s' = reset /\ exists o' ty, o = o' ++ [Error ty] /\ has_error o' = false.
Proof. intros. eapply (feed_raise_resets_n t (length d)); eauto. Qed.

(* ------------------------------------------------------------------ more list facts *)
Lemma drop_cons : forall n x l, 0 <= n -> drop (1 + n) (x :: l) = drop n l.
Proof.
  intros. unfold drop. replace (Z.to_nat (1 + n)) with (S (Z.to_nat n)) by lia. reflexivity.
Qed.

Lemma drop_app_le : forall n a b, n <= len a -> drop n (a ++ b) = drop n a ++ b.
Proof.
  intros. unfold drop, len in *. rewrite skipn_app.
  replace (Z.to_nat n - length a)%nat with O by lia. reflexivity.
Qed.

(* a field inside the first part of a list does not depend on what follows *)
Lemma field_app : forall lo ls h b, 0 <= lo -> 0 <= ls -> lo + ls <= len h ->
  take ls (drop lo (h ++ b)) = take ls (drop lo h).
Proof.
  intros. rewrite drop_app_le by lia. apply take_app_le.
  rewrite len_drop_any. lia.
Qed.

Lemma app_eq_len : forall (a a' b b' : list Z), len a = len a' -> a ++ b = a' ++ b' -> a = a' /\ b = b'.
Proof.
  induction a as [|x a IH]; intros [|y a'] b b' Hl H.
  - auto.
  - rewrite len_nil, len_cons in Hl. pose proof (len_nonneg a'). lia.
  - rewrite len_nil, len_cons in Hl. pose proof (len_nonneg a). lia.
  - simpl in H. inversion H; subst. rewrite !len_cons in Hl.
    destruct (IH a' b b') as [-> ->]; [lia|assumption|]. auto.
Qed.

(* two ways of cutting the same list *)
Lemma app_eq_cut : forall (a b x y : list Z), a ++ x = b ++ y -> len a <= len b ->
  exists m, b = a ++ m /\ x = m ++ y.
Proof.
  intros a b x y H Hl.
  destruct (split_at (len a) b) as (b1 & b2 & -> & Hb1); [pose proof (len_nonneg a); lia|].
  rewrite <- app_assoc in H.
  destruct (app_eq_len a b1 x (b2 ++ y)) as [-> ->]; [lia|assumption|].
  exists b2. auto.
Qed.

(* ------------------------------------------------------------------ one packet *)
Lemma lookup_wf : forall t ty i, wf_table t = true -> lookup t ty = Some i ->
  1 <= i_ls i /\ 0 <= i_lo i /\ i_us i = i_ls i.
Proof.
  induction t as [|[k j] t IH]; intros ty i Hwf H; [discriminate|].
  simpl in H. change (wf_table ((k, j) :: t)) with (wf_info (k, j) && wf_table t) in Hwf.
  apply andb_true_iff in Hwf. destruct Hwf as [Hj Ht].
  destruct (k =? ty).
  - inversion H; subst. unfold wf_info in Hj.
    repeat (apply andb_true_iff in Hj; destruct Hj as [Hj ?]).
    repeat split; [apply Z.leb_le|apply Z.leb_le|apply Z.eqb_eq]; assumption.
  - eauto.
Qed.

Lemma feed_type_ok : forall t ty i d, lookup t ty = Some i ->
  feed t reset (ty :: d) = feed t (mkP NeedLength (i_ls i + i_lo i) [ty] (Some i)) d.
Proof.
  intros t ty i d H. change (ty :: d) with ([ty] ++ d).
  rewrite feed_fill by reflexivity.
  unfold fin. cbn. rewrite H. cbn. apply prepend_nil.
Qed.

Lemma feed_type_bad : forall t ty d, lookup t ty = None ->
  feed t reset (ty :: d) = (reset, [Error ty], Raised).
Proof.
  intros t ty d H. change (ty :: d) with ([ty] ++ d).
  rewrite feed_fill by reflexivity.
  unfold fin. cbn. rewrite H. reflexivity.
Qed.

Lemma feed_header : forall t hs pk i h d, 0 < hs -> len h = hs ->
  feed t (mkP NeedLength hs pk (Some i)) (h ++ d) =
  let L := le_decode (take (i_us i) (drop (1 + i_lo i) (pk ++ h))) in
  if L =? 0 then prepend [Packet (pk ++ h)] (feed t reset d)
  else feed t (mkP NeedBody L (pk ++ h) (Some i)) d.
Proof.
  intros t hs pk i h d Hhs Hh. rewrite feed_fill by assumption.
  unfold fin. cbn [acc p_st p_needed p_pkt p_info info_or_zero].
  cbv zeta. destruct (_ =? 0); [reflexivity|apply prepend_nil].
Qed.

Lemma feed_body : forall t L pk inf b d, 0 < L -> len b = L ->
  feed t (mkP NeedBody L pk inf) (b ++ d) = prepend [Packet (pk ++ b)] (feed t reset d).
Proof.
  intros t L pk inf b d HL Hb. rewrite feed_fill by assumption.
  unfold fin. cbn [acc p_st p_needed p_pkt p_info].
  replace (L - len b =? 0) with true by (symmetry; apply Z.eqb_eq; lia).
  reflexivity.
Qed.

(* the shape of a well-formed packet *)
Lemma wf_packet_shape : forall t p, wf_table t = true -> wf_packet t p = true ->
  exists ty i h b, p = ty :: h ++ b /\ lookup t ty = Some i /\
    1 <= i_ls i /\ 0 <= i_lo i /\ i_us i = i_ls i /\
    len h = i_ls i + i_lo i /\ len b = le_decode (take (i_ls i) (drop (i_lo i) h)) /\
    bytes_ok p = true.
Proof.
  intros t [|ty r] Ht H; [discriminate|]. unfold wf_packet in H.
  destruct (lookup t ty) as [i|] eqn:Hl; [|discriminate].
  destruct (lookup_wf _ _ _ Ht Hl) as (H1 & H2 & H3).
  apply andb_true_iff in H. destruct H as [H Hlen].
  apply andb_true_iff in H. destruct H as [Hok Hhs].
  apply Z.leb_le in Hhs. apply Z.eqb_eq in Hlen.
  destruct (split_at (i_ls i + i_lo i) r) as (h & b & -> & Hh); [lia|].
  exists ty, i, h, b. repeat split; try assumption.
  rewrite field_app in Hlen by lia. rewrite len_app in Hlen. lia.
Qed.

(* a well-formed packet at a packet boundary is emitted whole, whatever follows it
   in the same call; the parser is back in its initial state right after it *)
Lemma feed_packet : forall t p d, wf_table t = true -> wf_packet t p = true ->
  feed t reset (p ++ d) = prepend [Packet p] (feed t reset d).
Proof.
  intros t p d Ht Hp.
  destruct (wf_packet_shape _ _ Ht Hp) as (ty & i & h & b & -> & Hl & H1 & H2 & H3 & Hh & Hb & Hok).
  change ((ty :: h ++ b) ++ d) with (ty :: ((h ++ b) ++ d)).
  rewrite (feed_type_ok _ _ _ _ Hl), <- app_assoc, feed_header by lia.
  cbv zeta. change ([ty] ++ h) with (ty :: h).
  rewrite drop_cons, H3 by assumption. rewrite <- Hb.
  destruct (len b =? 0) eqn:Hz.
  - apply Z.eqb_eq in Hz. apply len_zero in Hz. subst b. rewrite app_nil_r. reflexivity.
  - apply Z.eqb_neq in Hz. pose proof (len_nonneg b).
    rewrite feed_body by lia. reflexivity.
Qed.

(* a proper prefix of a well-formed packet produces no output and no error *)
Lemma feed_partial : forall t p q r, wf_table t = true -> wf_packet t p = true ->
  p = q ++ r -> r <> [] -> exists s, feed t reset q = (s, [], Ok) /\ is_init s = (len q =? 0).
Proof.
  intros t p q r Ht Hp Hq Hr.
  destruct (wf_packet_shape _ _ Ht Hp) as (ty & i & h & b & -> & Hl & H1 & H2 & H3 & Hh & Hb & Hok).
  destruct q as [|ty' q1].
  { exists reset. split; reflexivity. }
  simpl in Hq. inversion Hq; subst ty'. clear Hq. rename H4 into Hq.
  rewrite (feed_type_ok _ _ _ _ Hl).
  assert (Hq0 : (len (ty :: q1) =? 0) = false).
  { apply Z.eqb_neq. rewrite len_cons. pose proof (len_nonneg q1). lia. }
  rewrite Hq0.
  destruct (Z_lt_le_dec (len q1) (i_ls i + i_lo i)) as [Hs|Hge].
  - rewrite feed_short by assumption. eexists. split; reflexivity.
  - destruct (split_at (i_ls i + i_lo i) q1) as (h' & q2 & -> & Hh'); [lia|].
    rewrite <- app_assoc in Hq.
    destruct (app_eq_len h h' b (q2 ++ r)) as [<- Hbq]; [lia|assumption|].
    rewrite feed_header by lia. cbv zeta. change ([ty] ++ h) with (ty :: h).
    rewrite drop_cons, H3 by assumption. rewrite <- Hb.
    assert (len q2 < len b).
    { rewrite Hbq, len_app. destruct r; [congruence|]. rewrite len_cons.
      pose proof (len_nonneg r). lia. }
    pose proof (len_nonneg q2).
    replace (len b =? 0) with false by (symmetry; apply Z.eqb_neq; lia).
    rewrite feed_short by assumption. eexists. split; reflexivity.
Qed.

(* ------------------------------------------------------------------ streams of packets *)
Lemma feed_stream : forall t pkts d, wf_table t = true -> forallb (wf_packet t) pkts = true ->
  feed t reset (concat pkts ++ d) = prepend (map Packet pkts) (feed t reset d).
Proof.
  intros t pkts d Ht. induction pkts as [|p pkts IH]; intros H.
  - simpl. rewrite prepend_nil. reflexivity.
  - simpl in H. apply andb_true_iff in H. destruct H as [Hp Hr].
    simpl concat. rewrite <- app_assoc, feed_packet, IH by assumption.
    rewrite prepend_prepend. reflexivity.
Qed.

Lemma feed_stream_all : forall t pkts, wf_table t = true -> forallb (wf_packet t) pkts = true ->
  feed t reset (concat pkts) = (reset, map Packet pkts, Ok).
Proof.
  intros. rewrite <- (app_nil_r (concat pkts)), feed_stream, feed_nil by assumption.
  simpl. rewrite app_nil_r. reflexivity.
Qed.

Lemma wf_packet_nonempty : forall t p, wf_packet t p = true -> 1 <= len p.
Proof. intros t [|x p] H; [discriminate|]. rewrite len_cons. pose proof (len_nonneg p). lia. Qed.

(* after any prefix of a stream exactly the packets wholly inside it have been emitted *)
Lemma feed_prefix : forall t pkts pre rest, wf_table t = true ->
  forallb (wf_packet t) pkts = true -> concat pkts = pre ++ rest ->
  exists s, feed t reset pre = (s, map Packet (whole_within pkts (len pre)), Ok).
Proof.
  intros t pkts. induction pkts as [|p pkts IH]; intros pre rest Ht H Hc.
  - simpl in Hc. destruct pre; [|discriminate]. exists reset. reflexivity.
  - simpl in H. apply andb_true_iff in H. destruct H as [Hp Hr].
    simpl in Hc. cbn [whole_within].
    destruct (len p <=? len pre) eqn:Hle.
    + apply Z.leb_le in Hle.
      destruct (app_eq_cut p pre (concat pkts) rest Hc Hle) as (m & -> & Hm).
      destruct (IH m rest Ht Hr Hm) as (s & Hs).
      exists s. rewrite feed_packet, Hs by assumption. simpl.
      rewrite len_app. replace (len p + len m - len p) with (len m) by lia. reflexivity.
    + apply Z.leb_gt in Hle.
      symmetry in Hc.
      destruct (app_eq_cut pre p rest (concat pkts) Hc) as (m & Hpm & Hm); [lia|].
      destruct (feed_partial t p pre m Ht Hp Hpm) as (s & Hs & _).
      { intros ->. rewrite app_nil_r in Hpm. subst. lia. }
      exists s. assumption.
Qed.

(* ------------------------------------------------------------------ chunk lists *)
Lemma feeds_app : forall t c1 c2 s,
  feeds t s (c1 ++ c2) =
  let '(s1, o1) := feeds t s c1 in let '(s2, o2) := feeds t s1 c2 in (s2, o1 ++ o2).
Proof.
  intros t c1. induction c1 as [|c c1 IH]; intros c2 s.
  - simpl. destruct (feeds t s c2). reflexivity.
  - simpl. destruct (feed t s c) as [[s1 o1] st1]. rewrite IH.
    destruct (feeds t s1 c1) as [s2 o2]. destruct (feeds t s2 c2) as [s3 o3]. reflexivity.
Qed.

(* as long as nothing raises, feeding chunk by chunk is feeding the concatenation *)
Lemma feeds_concat : forall t chunks s s' o,
  feed t s (concat chunks) = (s', o, Ok) ->
  fst (feeds t s chunks) = s' /\ concat (snd (feeds t s chunks)) = o.
Proof.
  intros t chunks. induction chunks as [|c chunks IH]; intros s s' o H.
  - simpl in H. inversion H. auto.
  - simpl concat in H. rewrite feed_app in H. simpl.
    destruct (feed t s c) as [[s1 o1] st1]. simpl in H.
    destruct st1; try discriminate.
    destruct (feed t s1 (concat chunks)) as [[s2 o2] st2] eqn:H2. simpl in H.
    inversion H; subst. destruct (IH s1 s' o2 H2) as [Hs Ho].
    destruct (feeds t s1 chunks) as [s3 o3]. simpl in *. subst. auto.
Qed.

(* chunking irrelevance *)
Lemma chunking_irrelevant : forall t pkts chunks, wf_table t = true ->
  forallb (wf_packet t) pkts = true -> concat chunks = concat pkts ->
  fst (feeds t reset chunks) = reset /\
  concat (snd (feeds t reset chunks)) = map Packet pkts.
Proof.
  intros t pkts chunks Ht H Hc. apply feeds_concat. rewrite Hc.
  apply feed_stream_all; assumption.
Qed.

(* none early, none late: after any number of chunks *)
Lemma none_early : forall t pkts chunks1 rest, wf_table t = true ->
  forallb (wf_packet t) pkts = true -> concat pkts = concat chunks1 ++ rest ->
  concat (snd (feeds t reset chunks1)) = map Packet (whole_within pkts (len (concat chunks1))).
Proof.
  intros t pkts chunks1 rest Ht H Hc.
  destruct (feed_prefix t pkts (concat chunks1) rest Ht H Hc) as (s & Hs).
  apply (feeds_concat t chunks1 reset s _ Hs).
Qed.

(* ------------------------------------------------------------------ errors *)
Lemma feed_stream_then_bad : forall t pkts bad junk, wf_table t = true ->
  forallb (wf_packet t) pkts = true -> lookup t bad = None ->
  feed t reset (concat pkts ++ bad :: junk) = (reset, map Packet pkts ++ [Error bad], Raised).
Proof.
  intros. rewrite feed_stream, feed_type_bad by assumption. reflexivity.
Qed.

(* An unknown type byte at a packet boundary, in a chunk that may start inside a packet
   and is preceded by any chunking of the stream before it: the packets before it are
   delivered, one error is reported, the rest of that chunk is discarded, the parser is
   back in its initial state and the chunks fed afterwards are framed correctly. *)
Lemma error_then_recover : forall t pkts1 chunks1 post bad junk pkts2 chunks2,
  wf_table t = true ->
  forallb (wf_packet t) pkts1 = true -> forallb (wf_packet t) pkts2 = true ->
  concat pkts1 = concat chunks1 ++ post -> lookup t bad = None ->
  concat chunks2 = concat pkts2 ->
  let '(s, outs) := feeds t reset (chunks1 ++ [post ++ bad :: junk] ++ chunks2) in
  s = reset /\ concat outs = map Packet pkts1 ++ [Error bad] ++ map Packet pkts2.
Proof.
  intros t pkts1 chunks1 post bad junk pkts2 chunks2 Ht H1 H2 Hc1 Hbad Hc2.
  pose proof (feed_stream_then_bad t pkts1 bad junk Ht H1 Hbad) as Hall.
  rewrite Hc1, <- app_assoc, feed_app in Hall.
  destruct (feed_prefix t pkts1 (concat chunks1) post Ht H1 Hc1) as (sA & HA).
  rewrite HA in Hall. simpl in Hall.
  destruct (feeds_concat t chunks1 reset sA _ HA) as [HsA HoA].
  rewrite feeds_app.
  destruct (feeds t reset chunks1) as [s1 o1]. simpl in HsA, HoA. subst s1.
  cbn [app feeds].
  destruct (feed t sA (post ++ bad :: junk)) as [[sB oB] stB]. simpl in Hall.
  inversion Hall as [[HsB Hcat HstB]]. subst sB stB.
  destruct (chunking_irrelevant t pkts2 chunks2 Ht H2 Hc2) as [Hs2 Ho2].
  destruct (feeds t reset chunks2) as [s2 o2]. simpl in Hs2, Ho2.
  split; [assumption|].
  rewrite concat_app. cbn [concat]. rewrite HoA, Ho2, app_assoc, Hcat.
  rewrite <- app_assoc. reflexivity.
Qed.

(* whatever state an error is raised from, the parser is in its initial state afterwards,
   so any well-formed stream fed afterwards (in any chunking) is framed correctly *)
Lemma recover_after_any_error : forall t s d s' o pkts chunks, wf_table t = true ->
  feed t s d = (s', o, Raised) ->
  forallb (wf_packet t) pkts = true -> concat chunks = concat pkts ->
  fst (feeds t s' chunks) = reset /\ concat (snd (feeds t s' chunks)) = map Packet pkts.
Proof.
  intros t s d s' o pkts chunks Ht Hr Hp Hc.
  destruct (feed_raise_resets _ _ _ _ _ Hr) as [-> _].
  apply chunking_irrelevant; assumption.
Qed.

(* ------------------------------------------------------------------ server life cycle *)
Lemma srv_run_app : forall t a b s,
  srv_run t s (a ++ b) =
  let '(s1, o1) := srv_run t s a in let '(s2, o2) := srv_run t s1 b in (s2, o1 ++ o2).
Proof.
  intros t a. induction a as [|x a IH]; intros b s.
  - simpl. destruct (srv_run t s b). reflexivity.
  - simpl. destruct (srv_step t s x) as [s1 o1]. rewrite IH.
    destruct (srv_run t s1 a) as [s2 o2]. destruct (srv_run t s2 b) as [s3 o3]. reflexivity.
Qed.

Lemma srv_run_data : forall t chunks s, srv_run t s (map Data chunks) = feeds t s chunks.
Proof.
  intros t chunks. induction chunks as [|c chunks IH]; intros s; [reflexivity|].
  simpl. destruct (feed t s c) as [[s1 o1] st1]. rewrite IH. reflexivity.
Qed.

(* a new client is framed from the initial state, whatever state the shared parser was
   left in *)
Lemma new_client_fresh_state : forall t s pkts chunks, wf_table t = true ->
  forallb (wf_packet t) pkts = true -> concat chunks = concat pkts ->
  let '(s', outs) := srv_run t s (Connect :: map Data chunks) in
  s' = reset /\ concat outs = map Packet pkts.
Proof.
  intros t s pkts chunks Ht H Hc. cbn [srv_run srv_step]. rewrite srv_run_data.
  destruct (chunking_irrelevant t pkts chunks Ht H Hc) as [Hs Ho].
  destruct (feeds t reset chunks) as [s2 o2]. simpl in *. auto.
Qed.

(* ... in particular after any history of earlier clients, the last of which was cut off
   at an arbitrary byte position *)
Lemma new_client_fresh : forall t history pkts chunks, wf_table t = true ->
  forallb (wf_packet t) pkts = true -> concat chunks = concat pkts ->
  let '(_, outs0) := srv_run t reset (history ++ [Lost]) in
  let '(s', outs) := srv_run t reset ((history ++ [Lost]) ++ Connect :: map Data chunks) in
  s' = reset /\ concat outs = concat outs0 ++ map Packet pkts.
Proof.
  intros t history pkts chunks Ht H Hc. generalize (history ++ [Lost]). intros h1.
  rewrite srv_run_app.
  destruct (srv_run t reset h1) as [s1 o1].
  pose proof (new_client_fresh_state t s1 pkts chunks Ht H Hc) as Hn.
  destruct (srv_run t s1 (Connect :: map Data chunks)) as [s2 o2].
  cbv beta iota in Hn. destruct Hn as [Hs Ho]. split; [assumption|]. rewrite concat_app, Ho. reflexivity.
Qed.

Definition payloads (msgs : list (option (list Z))) : list Z :=
  concat (map (fun m => match m with Some b => b | None => [] end) msgs).

Lemma ws_messages_concat : forall t msgs s s' o,
  feed t s (payloads msgs) = (s', o, Ok) ->
  fst (ws_messages t s msgs) = s' /\ concat (snd (ws_messages t s msgs)) = o.
Proof.
  intros t msgs. induction msgs as [|[m|] msgs IH]; intros s s' o H.
  - simpl in H. inversion H. auto.
  - unfold payloads in H. simpl in H. fold (payloads msgs) in H. rewrite feed_app in H.
    cbn [ws_messages]. destruct (feed t s m) as [[s1 o1] st1]. simpl in H.
    destruct st1; try discriminate.
    destruct (feed t s1 (payloads msgs)) as [[s2 o2] st2] eqn:H2. simpl in H.
    inversion H; subst. destruct (IH s1 s' o2 H2) as [Hs Ho].
    destruct (ws_messages t s1 msgs) as [s3 o3]. simpl in *. subst. auto.
  - unfold payloads in H. simpl in H. fold (payloads msgs) in H.
    cbn [ws_messages]. destruct (IH s s' o H) as [Hs Ho].
    destruct (ws_messages t s msgs) as [s3 o3]. simpl in *. auto.
Qed.

(* WebSocket server: the binary messages of a new connection (text messages in between
   are ignored) are framed from the initial state whatever the previous connection left *)
Lemma ws_new_client_fresh : forall t s pkts msgs, wf_table t = true ->
  forallb (wf_packet t) pkts = true -> payloads msgs = concat pkts ->
  let '(s', outs) := ws_connection t s msgs in
  s' = reset /\ concat outs = map Packet pkts.
Proof.
  intros t s pkts msgs Ht H Hc. unfold ws_connection.
  pose proof (feed_stream_all t pkts Ht H) as Hall. rewrite <- Hc in Hall.
  destruct (ws_messages_concat t msgs reset _ _ Hall) as [Hs Ho].
  destruct (ws_messages t reset msgs) as [s2 o2]. simpl in *. auto.
Qed.

(* ------------------------------------------------------------------ pull readers *)
Lemma take_1_cons : forall x l, take 1 (x :: l) = [x].
Proof. reflexivity. Qed.

Lemma drop_1_cons : forall x l, drop 1 (x :: l) = l.
Proof. reflexivity. Qed.

Lemma pr_next_nil : forall t, pr_next t [] = (RAtEnd, []).
Proof. reflexivity. Qed.

Lemma pr_next_bad : forall t ty r, lookup t ty = None -> pr_next t (ty :: r) = (RInvalid ty, r).
Proof. intros. unfold pr_next. rewrite take_1_cons, drop_1_cons. cbn. rewrite H. reflexivity. Qed.

Lemma pr_next_short_header : forall t ty i r, lookup t ty = Some i -> len r < i_ls i + i_lo i ->
  fst (pr_next t (ty :: r)) = RTooShort.
Proof.
  intros. unfold pr_next. rewrite take_1_cons, drop_1_cons. cbn [len length Z.of_nat hd].
  cbn. rewrite H. cbv zeta. rewrite take_all by lia.
  replace (len r =? i_ls i + i_lo i) with false by (symmetry; apply Z.eqb_neq; lia).
  reflexivity.
Qed.

Lemma pr_next_short_body : forall t ty i h r2, lookup t ty = Some i ->
  len h = i_ls i + i_lo i -> len r2 < le_decode (take (i_us i) (drop (i_lo i) h)) ->
  fst (pr_next t (ty :: h ++ r2)) = RTooShort.
Proof.
  intros t ty i h r2 Hl Hh Hr. unfold pr_next. rewrite take_1_cons, drop_1_cons. cbn.
  rewrite Hl. cbv zeta. rewrite <- Hh, take_app_len, drop_app_len, Z.eqb_refl. cbn [negb].
  rewrite take_all by lia.
  match goal with |- context [len r2 =? ?L] =>
    replace (len r2 =? L) with false by (symmetry; apply Z.eqb_neq; lia) end.
  reflexivity.
Qed.

Lemma pr_next_packet : forall t p d, wf_table t = true -> wf_packet t p = true ->
  pr_next t (p ++ d) = (RPacket p, d).
Proof.
  intros t p d Ht Hp.
  destruct (wf_packet_shape _ _ Ht Hp) as (ty & i & h & b & -> & Hl & H1 & H2 & H3 & Hh & Hb & Hok).
  change ((ty :: h ++ b) ++ d) with (ty :: ((h ++ b) ++ d)).
  unfold pr_next. rewrite take_1_cons, drop_1_cons. cbn. rewrite Hl. cbv zeta.
  rewrite <- app_assoc, <- Hh, take_app_len, drop_app_len, Z.eqb_refl. cbn [negb].
  rewrite H3, <- Hb, take_app_len, drop_app_len, Z.eqb_refl. reflexivity.
Qed.

Lemma push_summary_nil : forall t, push_summary t [] = ([], RAtEnd).
Proof. reflexivity. Qed.

Lemma push_summary_bad : forall t ty r, lookup t ty = None ->
  push_summary t (ty :: r) = ([], RInvalid ty).
Proof. intros. unfold push_summary. rewrite feed_type_bad by assumption. reflexivity. Qed.

Lemma push_summary_short_header : forall t ty i r, lookup t ty = Some i ->
  len r < i_ls i + i_lo i -> push_summary t (ty :: r) = ([], RTooShort).
Proof.
  intros. unfold push_summary. rewrite (feed_type_ok _ _ _ _ H), feed_short by assumption.
  reflexivity.
Qed.

Lemma push_summary_short_body : forall t ty i h r2, lookup t ty = Some i ->
  0 < i_ls i + i_lo i -> 0 <= i_lo i ->
  len h = i_ls i + i_lo i -> len r2 < le_decode (take (i_us i) (drop (i_lo i) h)) ->
  push_summary t (ty :: h ++ r2) = ([], RTooShort).
Proof.
  intros t ty i h r2 Hl Hhs Hlo Hh Hr. unfold push_summary.
  rewrite (feed_type_ok _ _ _ _ Hl), feed_header by assumption. cbv zeta.
  change ([ty] ++ h) with (ty :: h). rewrite drop_cons by assumption.
  pose proof (len_nonneg r2).
  match goal with |- context [?L =? 0] =>
    replace (L =? 0) with false by (symmetry; apply Z.eqb_neq; lia) end.
  rewrite feed_short by assumption. reflexivity.
Qed.

Lemma push_summary_packet : forall t p d, wf_table t = true -> wf_packet t p = true ->
  push_summary t (p ++ d) = let '(ps, e) := push_summary t d in (p :: ps, e).
Proof.
  intros. unfold push_summary. rewrite feed_packet by assumption.
  destruct (feed t reset d) as [[s o] st]. reflexivity.
Qed.

(* every byte string is empty, starts with an unknown type, ends inside a header, ends
   inside a body, or starts with a well-formed packet *)
Lemma classify : forall t data, wf_table t = true -> bytes_ok data = true ->
  data = [] \/
  (exists ty r, data = ty :: r /\ lookup t ty = None) \/
  (exists ty i r, data = ty :: r /\ lookup t ty = Some i /\ len r < i_ls i + i_lo i) \/
  (exists ty i h r2, data = ty :: h ++ r2 /\ lookup t ty = Some i /\
     0 < i_ls i + i_lo i /\ 0 <= i_lo i /\ len h = i_ls i + i_lo i /\
     len r2 < le_decode (take (i_us i) (drop (i_lo i) h))) \/
  (exists p rest, data = p ++ rest /\ wf_packet t p = true).
Proof.
  intros t [|ty r] Ht Hok; [left; reflexivity|right].
  destruct (lookup t ty) as [i|] eqn:Hl; [right|left; exists ty, r; split; [reflexivity|assumption]].
  destruct (lookup_wf _ _ _ Ht Hl) as (H1 & H2 & H3).
  destruct (Z_lt_le_dec (len r) (i_ls i + i_lo i)) as [Hs|Hge];
    [left; exists ty, i, r; repeat split; assumption|right].
  destruct (split_at (i_ls i + i_lo i) r) as (h & r2 & -> & Hh); [lia|].
  set (L := le_decode (take (i_us i) (drop (i_lo i) h))).
  destruct (Z_lt_le_dec (len r2) L) as [Hs|Hge2].
  { left. exists ty, i, h, r2. repeat split; try assumption; lia. }
  right.
  assert (HL : 0 <= L).
  { apply le_decode_nonneg, bytes_ok_take, bytes_ok_drop.
    change (ty :: h ++ r2) with ([ty] ++ h ++ r2) in Hok.
    rewrite !bytes_ok_app in Hok.
    apply andb_true_iff in Hok. destruct Hok as [_ Hok].
    apply andb_true_iff in Hok. tauto. }
  destruct (split_at L r2) as (b & rest & -> & Hb); [lia|].
  exists (ty :: h ++ b), rest. split.
  { simpl. rewrite <- app_assoc. reflexivity. }
  unfold wf_packet. rewrite Hl.
  change (ty :: h ++ b ++ rest) with ([ty] ++ h ++ b ++ rest) in Hok.
  change (ty :: h ++ b) with ([ty] ++ h ++ b).
  rewrite !bytes_ok_app in Hok. rewrite !bytes_ok_app.
  apply andb_true_iff in Hok. destruct Hok as [Hty Hok].
  apply andb_true_iff in Hok. destruct Hok as [Hbh Hok].
  apply andb_true_iff in Hok. destruct Hok as [Hbb _].
  rewrite Hty, Hbh, Hbb. cbn [andb].
  apply andb_true_iff. split.
  - apply Z.leb_le. rewrite len_app. pose proof (len_nonneg b). lia.
  - apply Z.eqb_eq. rewrite field_app by lia. rewrite len_app, Hb, Hh. unfold L. rewrite H3. lia.
Qed.

(* The blocking pull reader and the push parser agree on EVERY byte string (not only
   well-formed streams): same packets, same kind of ending. *)
Lemma pull_push_agree_n : forall t n data, wf_table t = true -> bytes_ok data = true ->
  (length data < n)%nat -> pull_all (pr_next t) n data = push_summary t data.
Proof.
  induction n as [|n IH]; intros data Ht Hok Hn; [lia|].
  cbn [pull_all].
  destruct (classify t data Ht Hok) as
    [-> | [(ty & r & -> & Hl) | [(ty & i & r & -> & Hl & Hs) |
     [(ty & i & h & r2 & -> & Hl & Hhs & Hlo & Hh & Hs) | (p & rest & -> & Hp)]]]].
  - rewrite pr_next_nil, push_summary_nil. reflexivity.
  - rewrite pr_next_bad, push_summary_bad by assumption. reflexivity.
  - rewrite (push_summary_short_header _ _ _ _ Hl Hs).
    pose proof (pr_next_short_header _ _ _ _ Hl Hs) as E.
    destruct (pr_next t (ty :: r)) as [e x]. simpl in E. subst e. reflexivity.
  - rewrite (push_summary_short_body _ _ _ _ _ Hl Hhs Hlo Hh Hs).
    pose proof (pr_next_short_body _ _ _ _ _ Hl Hh Hs) as E.
    destruct (pr_next t (ty :: h ++ r2)) as [e x]. simpl in E. subst e. reflexivity.
  - rewrite pr_next_packet, push_summary_packet by assumption.
    rewrite IH; [reflexivity|assumption| |].
    + rewrite bytes_ok_app in Hok. apply andb_true_iff in Hok. tauto.
    + rewrite app_length in Hn. pose proof (wf_packet_nonempty _ _ Hp) as Hp1.
      unfold len in Hp1. lia.
Qed.

Lemma pull_push_agree : forall t data, wf_table t = true -> bytes_ok data = true ->
  pr_all t data = push_summary t data.
Proof. intros. apply pull_push_agree_n; try assumption. lia. Qed.

(* the asynchronous reader differs only in reporting a clean end as an incomplete read *)
Lemma apr_all_pr_all_n : forall t n data,
  pull_all (apr_next t) n data =
  let '(ps, e) := pull_all (pr_next t) n data in (ps, async_end e).
Proof.
  induction n as [|n IH]; intros data; [reflexivity|].
  cbn [pull_all]. unfold apr_next.
  destruct (pr_next t data) as [[p| |ty| |] rest]; try reflexivity.
  rewrite IH. destruct (pull_all (pr_next t) n rest). reflexivity.
Qed.

Lemma async_pull_push_agree : forall t data, wf_table t = true -> bytes_ok data = true ->
  apr_all t data = let '(ps, e) := push_summary t data in (ps, async_end e).
Proof.
  intros. unfold apr_all. rewrite apr_all_pr_all_n.
  fold (pr_all t data). rewrite pull_push_agree by assumption. reflexivity.
Qed.

(* on a stream of well-formed packets both pull readers return exactly the packets *)
Lemma pull_stream : forall t pkts, wf_table t = true -> forallb (wf_packet t) pkts = true ->
  bytes_ok (concat pkts) = true /\
  pr_all t (concat pkts) = (pkts, RAtEnd) /\ apr_all t (concat pkts) = (pkts, RTooShort).
Proof.
  intros t pkts Ht H.
  assert (Hok : bytes_ok (concat pkts) = true).
  { induction pkts as [|p pkts IH]; [reflexivity|].
    simpl in H. apply andb_true_iff in H. destruct H as [Hp Hr].
    simpl. rewrite bytes_ok_app, (IH Hr).
    destruct (wf_packet_shape _ _ Ht Hp) as (ty & i & h & b & _ & _ & _ & _ & _ & _ & _ & Hb).
    rewrite Hb. reflexivity. }
  assert (Hs : push_summary t (concat pkts) = (pkts, RAtEnd)).
  { unfold push_summary. rewrite feed_stream_all by assumption. cbn [is_init reset p_st p_pkt p_info p_needed].
    f_equal. clear. induction pkts; simpl; congruence. }
  split; [assumption|]. split.
  - rewrite pull_push_agree by assumption. assumption.
  - rewrite async_pull_push_agree, Hs by assumption. reflexivity.
Qed.

(* ------------------------------------------------------------------ USB splitter *)
Section Splitter.
Variables lo ls : Z.
Hypothesis Hlo : 0 <= lo.
Hypothesis Hls : 1 <= ls.

Local Notation plen pkt := (lo + ls + le_decode (take ls (drop lo pkt))).

Lemma wf_endpoint_facts : forall e, wf_endpoint_packet lo ls e = true ->
  bytes_ok e = true /\ lo + ls <= len e /\ len e = plen e.
Proof.
  intros e H. unfold wf_endpoint_packet in H. cbv zeta in H.
  apply andb_true_iff in H. destruct H as [H H3].
  apply andb_true_iff in H. destruct H as [H1 H2].
  apply Z.leb_le in H2. apply Z.eqb_eq in H3. auto.
Qed.

(* once the header is complete the packet length is known *)
Lemma plen_prefix : forall e p x, wf_endpoint_packet lo ls e = true -> e = p ++ x ->
  lo + ls <= len p -> plen p = len e.
Proof.
  intros e p x He -> Hp. destruct (wf_endpoint_facts _ He) as (_ & _ & Hl).
  rewrite Hl. rewrite field_app by lia. reflexivity.
Qed.

(* a chunk that ends strictly inside the current packet is only accumulated *)
Lemma split_iter_partial : forall e pkt d r', wf_endpoint_packet lo ls e = true ->
  e = pkt ++ d ++ r' -> r' <> [] -> split_iter lo ls pkt d = (pkt ++ d, [], []).
Proof.
  intros e pkt d r' He Heq Hr.
  destruct (wf_endpoint_facts _ He) as (_ & Hhs & _).
  assert (Hr1 : 1 <= len r').
  { destruct r'; [congruence|]. rewrite len_cons. pose proof (len_nonneg r'). lia. }
  assert (Hlen : len e = len pkt + len d + len r') by (rewrite Heq, !len_app; lia).
  pose proof (len_nonneg pkt). pose proof (len_nonneg d).
  unfold split_iter.
  destruct (0 <? lo + ls - len pkt) eqn:Hbn.
  - apply Z.ltb_lt in Hbn.
    destruct (Z_lt_le_dec (len pkt + len d) (lo + ls)) as [Hs|Hge].
    + rewrite take_all, drop_all by lia.
      replace (len (pkt ++ d) <? lo + ls) with true by (symmetry; apply Z.ltb_lt; rewrite len_app; lia).
      reflexivity.
    + destruct (split_at (lo + ls - len pkt) d) as (a & d2 & -> & Ha); [lia|].
      rewrite <- Ha, take_app_len, drop_app_len.
      replace (len (pkt ++ a) <? lo + ls) with false by (symmetry; apply Z.ltb_ge; rewrite len_app; lia).
      assert (Hsplit : e = (pkt ++ a) ++ d2 ++ r') by (rewrite Heq, <- !app_assoc; reflexivity).
      assert (Hpa : lo + ls <= len (pkt ++ a)) by (rewrite len_app; lia).
      rewrite (plen_prefix e (pkt ++ a) (d2 ++ r') He Hsplit Hpa).
      rewrite !len_app in Hlen.
      rewrite take_all, drop_all by (rewrite ?len_app; lia).
      replace (len ((pkt ++ a) ++ d2) =? len e) with false
        by (symmetry; apply Z.eqb_neq; rewrite !len_app; lia).
      rewrite <- app_assoc. reflexivity.
  - apply Z.ltb_ge in Hbn.
    rewrite (plen_prefix e pkt (d ++ r') He Heq) by lia.
    rewrite take_all, drop_all by lia.
    replace (len (pkt ++ d) =? len e) with false by (symmetry; apply Z.eqb_neq; rewrite len_app; lia).
    reflexivity.
Qed.

(* a chunk that contains the rest of the current packet completes it in one iteration *)
Lemma split_iter_complete : forall e pkt r1 c', wf_endpoint_packet lo ls e = true ->
  e = pkt ++ r1 -> r1 <> [] -> split_iter lo ls pkt (r1 ++ c') = ([], [e], c').
Proof.
  intros e pkt r1 c' He Heq Hr.
  destruct (wf_endpoint_facts _ He) as (_ & Hhs & _).
  assert (Hr1 : 1 <= len r1).
  { destruct r1; [congruence|]. rewrite len_cons. pose proof (len_nonneg r1). lia. }
  assert (Hlen : len e = len pkt + len r1) by (rewrite Heq, len_app; lia).
  pose proof (len_nonneg pkt).
  unfold split_iter.
  destruct (0 <? lo + ls - len pkt) eqn:Hbn.
  - apply Z.ltb_lt in Hbn.
    destruct (split_at (lo + ls - len pkt) r1) as (a & r2 & -> & Ha); [lia|].
    rewrite <- app_assoc, <- Ha, take_app_len, drop_app_len.
    replace (len (pkt ++ a) <? lo + ls) with false by (symmetry; apply Z.ltb_ge; rewrite len_app; lia).
    assert (Hsplit : e = (pkt ++ a) ++ r2) by (rewrite Heq, <- !app_assoc; reflexivity).
    assert (Hpa : lo + ls <= len (pkt ++ a)) by (rewrite len_app; lia).
    rewrite (plen_prefix e (pkt ++ a) r2 He Hsplit Hpa).
    rewrite len_app in Hlen.
    replace (len e - len (pkt ++ a)) with (len r2) by (rewrite len_app; lia).
    rewrite take_app_len, drop_app_len.
    replace ((pkt ++ a) ++ r2) with e by (rewrite Heq, app_assoc; reflexivity).
    rewrite Z.eqb_refl. reflexivity.
  - apply Z.ltb_ge in Hbn.
    rewrite (plen_prefix e pkt r1 He Heq) by lia.
    replace (len e - len pkt) with (len r1) by lia.
    rewrite take_app_len, drop_app_len, <- Heq, Z.eqb_refl. reflexivity.
Qed.

(* the state between chunks: [pkt] is a proper prefix of the next packet of [es], the
   packets not yet emitted; [rest] is what is still to be fed *)
Definition sinv (pkt rest : list Z) (es : list (list Z)) : Prop :=
  pkt ++ rest = concat es /\ forallb (wf_endpoint_packet lo ls) es = true /\
  match es with [] => True | e :: _ => len pkt < len e end.

Lemma sinv_head : forall pkt rest e es, sinv pkt rest (e :: es) ->
  wf_endpoint_packet lo ls e = true /\ forallb (wf_endpoint_packet lo ls) es = true /\
  exists r1, e = pkt ++ r1 /\ r1 <> [] /\ rest = r1 ++ concat es.
Proof.
  intros pkt rest e es (Hc & Hwf & Hl). simpl in Hwf. apply andb_true_iff in Hwf.
  destruct Hwf as [He Hes]. split; [assumption|]. split; [assumption|].
  simpl in Hc. destruct (app_eq_cut pkt e rest (concat es) Hc) as (m & Hm & Hr); [lia|].
  exists m. repeat split; try assumption. intros ->. rewrite app_nil_r in Hm. subst. lia.
Qed.

Lemma wf_endpoint_nonempty : forall e, wf_endpoint_packet lo ls e = true -> 0 < len e.
Proof. intros e He. destruct (wf_endpoint_facts _ He) as (_ & H & _). lia. Qed.

Lemma sinv_start : forall es rest, forallb (wf_endpoint_packet lo ls) es = true ->
  rest = concat es -> sinv [] rest es.
Proof.
  intros es rest H ->. split; [reflexivity|]. split; [assumption|].
  destruct es as [|e es]; [exact I|]. simpl in H. apply andb_true_iff in H.
  rewrite len_nil. apply wf_endpoint_nonempty. tauto.
Qed.

Lemma split_loop_step : forall es pkt c rest fuel, sinv pkt (c ++ rest) es ->
  (length c < fuel)%nat ->
  exists pkt' outs es', split_loop lo ls fuel pkt c = (pkt', outs, Ok) /\
    es = outs ++ es' /\ sinv pkt' rest es'.
Proof.
  induction es as [|e es IH]; intros pkt c rest fuel Hinv Hf.
  - destruct Hinv as (Hc & _ & _). simpl in Hc.
    apply app_eq_nil in Hc. destruct Hc as [-> Hc]. apply app_eq_nil in Hc. destruct Hc as [-> ->].
    exists [], [], []. split; [destruct fuel; reflexivity|]. split; [reflexivity|].
    split; [reflexivity|]. split; [reflexivity|exact I].
  - destruct (sinv_head _ _ _ _ Hinv) as (He & Hes & r1 & Heq & Hr1 & Hrest).
    destruct (Z_lt_le_dec (len c) (len r1)) as [Hs|Hge].
    + (* the chunk ends inside e *)
      symmetry in Hrest.
      destruct (app_eq_cut c r1 rest (concat es) (eq_sym Hrest)) as (r' & Hr' & Hrest'); [lia|].
      assert (r' <> []). { intros ->. rewrite app_nil_r in Hr'. subst. lia. }
      exists (pkt ++ c), [], (e :: es). split.
      * destruct c as [|x c]; [rewrite app_nil_r; destruct fuel; reflexivity|].
        destruct fuel as [|fuel]; [simpl in Hf; lia|].
        cbn [split_loop].
        rewrite (split_iter_partial e pkt (x :: c) r' He) by (subst; auto).
        destruct fuel; reflexivity.
      * split; [reflexivity|]. split; [|split].
        -- rewrite <- app_assoc. destruct Hinv as (Hc & _). exact Hc.
        -- simpl. rewrite He, Hes. reflexivity.
        -- rewrite Heq, Hr', !len_app. destruct r'; [congruence|]. rewrite len_cons.
           pose proof (len_nonneg r'). lia.
    + (* the chunk completes e *)
      destruct (app_eq_cut r1 c (concat es) rest (eq_sym Hrest) Hge) as (c' & -> & Hc').
      destruct fuel as [|fuel]; [lia|].
      assert (Hr1n : (0 < length r1)%nat).
      { destruct r1; [congruence|]. simpl. lia. }
      destruct (IH [] c' rest fuel) as (pkt' & outs & es' & Hrun & Hes' & Hinv').
      { apply sinv_start; auto. }
      { rewrite app_length in Hf. lia. }
      exists pkt', (e :: outs), es'. split.
      * destruct r1 as [|x r1]; [congruence|].
        change ((x :: r1) ++ c') with (x :: (r1 ++ c')).
        cbn [split_loop]. change (x :: r1 ++ c') with ((x :: r1) ++ c').
        rewrite (split_iter_complete e pkt (x :: r1) c' He Heq) by congruence.
        rewrite Hrun. reflexivity.
      * split; [simpl; rewrite Hes'; reflexivity|assumption].
Qed.

Lemma split_feeds_inv : forall chunks pkt rest es, sinv pkt (concat chunks ++ rest) es ->
  exists pkt' outs es', split_feeds lo ls pkt chunks = (pkt', outs) /\
    es = concat outs ++ es' /\ sinv pkt' rest es'.
Proof.
  induction chunks as [|c chunks IH]; intros pkt rest es Hinv.
  - exists pkt, [], es. auto.
  - simpl concat in Hinv. rewrite <- app_assoc in Hinv.
    destruct (split_loop_step es pkt c (concat chunks ++ rest) (S (S (length c))) Hinv)
      as (pkt1 & o1 & es1 & Hrun & Hes & Hinv1); [lia|].
    destruct (IH pkt1 rest es1 Hinv1) as (pkt2 & o2 & es2 & Hrun2 & Hes2 & Hinv2).
    exists pkt2, (o1 :: o2), es2. split.
    + cbn [split_feeds]. unfold split_feed. rewrite Hrun, Hrun2. reflexivity.
    + split; [|assumption]. simpl. rewrite <- app_assoc, <- Hes2. assumption.
Qed.

Lemma whole_within_done : forall E es pkt, forallb (wf_endpoint_packet lo ls) E = true ->
  match es with [] => pkt = [] | e :: _ => len pkt < len e end ->
  whole_within (E ++ es) (len (concat E ++ pkt)) = E.
Proof.
  induction E as [|e E IH]; intros es pkt HE Hes.
  - simpl. destruct es as [|e es]; [reflexivity|]. simpl.
    replace (len e <=? len pkt) with false by (symmetry; apply Z.leb_gt; lia). reflexivity.
  - simpl in HE. apply andb_true_iff in HE. destruct HE as [He HE].
    cbn [app concat whole_within]. rewrite <- app_assoc, len_app.
    pose proof (len_nonneg (concat E ++ pkt)).
    replace (len e <=? len e + len (concat E ++ pkt)) with true by (symmetry; apply Z.leb_le; lia).
    replace (len e + len (concat E ++ pkt) - len e) with (len (concat E ++ pkt)) by lia.
    rewrite IH by assumption. reflexivity.
Qed.

(* none early / none late for the splitter, after any number of chunks *)
Lemma split_none_early : forall es chunks1 rest,
  forallb (wf_endpoint_packet lo ls) es = true -> concat es = concat chunks1 ++ rest ->
  concat (snd (split_feeds lo ls [] chunks1)) = whole_within es (len (concat chunks1)).
Proof.
  intros es chunks1 rest Hes Hc.
  destruct (split_feeds_inv chunks1 [] rest es) as (pkt' & outs & es' & Hrun & Hsplit & Hinv).
  { apply sinv_start; auto. }
  rewrite Hrun. simpl.
  destruct Hinv as (Hc' & Hwf' & Hhd).
  assert (HE : forallb (wf_endpoint_packet lo ls) (concat outs) = true).
  { rewrite Hsplit, forallb_app in Hes. apply andb_true_iff in Hes. tauto. }
  assert (Hpre : concat chunks1 = concat (concat outs) ++ pkt').
  { rewrite Hsplit, concat_app, <- Hc' in Hc. rewrite app_assoc in Hc.
    destruct (app_eq_len (concat (concat outs) ++ pkt') (concat chunks1) rest rest) as [E _]; auto.
    apply (f_equal len) in Hc. rewrite !len_app in Hc. rewrite len_app. lia. }
  rewrite Hpre, Hsplit. symmetry. apply whole_within_done; [assumption|].
  destruct es' as [|e es']; [|assumption].
  simpl in Hc'. apply app_eq_nil in Hc'. tauto.
Qed.

(* chunking irrelevance for the splitter *)
Lemma split_chunking : forall es chunks,
  forallb (wf_endpoint_packet lo ls) es = true -> concat chunks = concat es ->
  fst (split_feeds lo ls [] chunks) = [] /\ concat (snd (split_feeds lo ls [] chunks)) = es.
Proof.
  intros es chunks Hes Hc.
  destruct (split_feeds_inv chunks [] [] es) as (pkt' & outs & es' & Hrun & Hsplit & Hinv).
  { apply sinv_start; auto. rewrite app_nil_r. assumption. }
  rewrite Hrun. simpl. destruct Hinv as (Hc' & Hwf' & Hhd). rewrite app_nil_r in Hc'.
  destruct es' as [|e es'].
  - simpl in Hc'. subst pkt'. rewrite app_nil_r in Hsplit. auto.
  - exfalso. rewrite Hc' in Hhd. simpl in Hhd. rewrite len_app in Hhd.
    pose proof (len_nonneg (concat es')). lia.
Qed.

(* every call of the splitter terminates normally on such streams *)
Lemma split_feed_ok : forall es pkt c rest, sinv pkt (c ++ rest) es ->
  snd (split_feed lo ls pkt c) = Ok.
Proof.
  intros es pkt c rest Hinv.
  destruct (split_loop_step es pkt c rest (S (S (length c))) Hinv) as (p & o & e & Hrun & _); [lia|].
  unfold split_feed. rewrite Hrun. reflexivity.
Qed.

End Splitter.

(* an HCI packet of type ty is the type byte followed by a well-formed endpoint packet *)
Lemma wf_packet_endpoint : forall t ty i e, lookup t ty = Some i ->
  wf_packet t (ty :: e) = true -> wf_endpoint_packet (i_lo i) (i_ls i) e = true.
Proof.
  intros t ty i e Hl H. unfold wf_packet in H. rewrite Hl in H.
  apply andb_true_iff in H. destruct H as [H H3].
  apply andb_true_iff in H. destruct H as [H1 H2].
  unfold wf_endpoint_packet.
  change (ty :: e) with ([ty] ++ e) in H1. rewrite bytes_ok_app in H1.
  apply andb_true_iff in H1. destruct H1 as [_ H1]. rewrite H1.
  replace (i_lo i + i_ls i) with (i_ls i + i_lo i) by lia. rewrite H2, H3. reflexivity.
Qed.

(* USB: for an endpoint whose splitter parameters agree with the table, the packets
   queued by UsbPacketSource (type byte prepended) for any chunking of the endpoint's
   stream are exactly the HCI packets, i.e. what the push parser emits for the typed
   stream in any chunking *)
Lemma usb_agrees : forall t spl ty lo ls es chunks chunks',
  wf_table t = true -> splitters_ok t spl = true -> In (ty, (lo, ls)) spl ->
  forallb (fun e => wf_packet t (ty :: e)) es = true ->
  concat chunks = concat es -> concat chunks' = concat (map (cons ty) es) ->
  usb_out ty (concat (snd (split_feeds lo ls [] chunks))) = map (cons ty) es /\
  fst (split_feeds lo ls [] chunks) = [] /\
  concat (snd (feeds t reset chunks')) =
    map Packet (usb_out ty (concat (snd (split_feeds lo ls [] chunks)))).
Proof.
  intros t spl ty lo ls es chunks chunks' Ht Hspl Hin Hes Hc Hc'.
  unfold splitters_ok in Hspl. rewrite forallb_forall in Hspl.
  specialize (Hspl _ Hin). unfold splitter_ok in Hspl.
  destruct (lookup t ty) as [i|] eqn:Hl; [|discriminate].
  apply andb_true_iff in Hspl. destruct Hspl as [Hspl H4].
  apply andb_true_iff in Hspl. destruct Hspl as [Hspl H3].
  apply andb_true_iff in Hspl. destruct Hspl as [H1 H2].
  apply Z.eqb_eq in H1. apply Z.eqb_eq in H2. apply Z.leb_le in H3. apply Z.leb_le in H4.
  subst lo ls.
  assert (Hes' : forallb (wf_endpoint_packet (i_lo i) (i_ls i)) es = true).
  { rewrite forallb_forall in *. intros e He. eapply wf_packet_endpoint; eauto. }
  destruct (split_chunking (i_lo i) (i_ls i) H3 H4 es chunks Hes' Hc) as [Hs Ho].
  rewrite Ho. split; [reflexivity|]. split; [assumption|].
  apply chunking_irrelevant; try assumption.
  rewrite forallb_forall in *. intros p Hp. apply in_map_iff in Hp.
  destruct Hp as (e & <- & He). auto.
Qed.

Lemma splitter_entry : forall t spl ty lo ls, splitters_ok t spl = true -> In (ty, (lo, ls)) spl ->
  exists i, lookup t ty = Some i /\ i_lo i = lo /\ i_ls i = ls /\ 0 <= lo /\ 1 <= ls.
Proof.
  intros t spl ty lo ls Hspl Hin.
  unfold splitters_ok in Hspl. rewrite forallb_forall in Hspl.
  specialize (Hspl _ Hin). unfold splitter_ok in Hspl.
  destruct (lookup t ty) as [i|] eqn:Hl; [|discriminate].
  apply andb_true_iff in Hspl. destruct Hspl as [Hspl H4].
  apply andb_true_iff in Hspl. destruct Hspl as [Hspl H3].
  apply andb_true_iff in Hspl. destruct Hspl as [H1 H2].
  apply Z.eqb_eq in H1. apply Z.eqb_eq in H2. apply Z.leb_le in H3. apply Z.leb_le in H4.
  exists i. auto.
Qed.

(* USB: none early / none late after any number of transfers *)
Lemma usb_none_early : forall t spl ty lo ls es chunks1 rest,
  splitters_ok t spl = true -> In (ty, (lo, ls)) spl ->
  forallb (fun e => wf_packet t (ty :: e)) es = true ->
  concat es = concat chunks1 ++ rest ->
  concat (snd (split_feeds lo ls [] chunks1)) = whole_within es (len (concat chunks1)).
Proof.
  intros t spl ty lo ls es chunks1 rest Hspl Hin Hes Hc.
  destruct (splitter_entry _ _ _ _ _ Hspl Hin) as (i & Hl & <- & <- & H3 & H4).
  apply (split_none_early (i_lo i) (i_ls i) H3 H4 es chunks1 rest); [|assumption].
  rewrite forallb_forall in *. intros e He. eapply wf_packet_endpoint; eauto.
Qed.

(* ------------------------------------------------------------------ reachable states *)
(* bytes_needed is never negative, so the model's loop guard [0 <? needed] is exactly
   Python's truth value of `self.bytes_needed` in every state the parser can reach *)
Definition pgood (s : parser) : Prop := 0 <= p_needed s /\ bytes_ok (p_pkt s) = true.

Lemma fin_good : forall t s s1 o r, wf_table t = true -> pgood s -> fin t s = (s1, o, r) -> pgood s1.
Proof.
  intros t [st n p i] s1 o r Ht [Hn Hp] H. unfold fin in H.
  cbn [p_st p_pkt p_info p_needed] in *. destruct st.
  - destruct (lookup t (hd 0 p)) as [j|] eqn:Hl.
    + cbn in H. inversion H; subst. destruct (lookup_wf _ _ _ Ht Hl) as (H1 & H2 & _).
      split; simpl; [lia|assumption].
    + inversion H; subst. split; simpl; [lia|reflexivity].
  - cbn [p_st p_needed p_pkt] in H.
    set (L := le_decode _) in H.
    assert (0 <= L) by (apply le_decode_nonneg, bytes_ok_take, bytes_ok_drop; assumption).
    destruct (L =? 0); inversion H; subst; split; simpl; try lia; auto.
  - cbn [p_st p_needed p_pkt] in H.
    destruct (n =? 0); inversion H; subst; split; simpl; try lia; auto.
Qed.

Lemma feed_good_n : forall t n d s, wf_table t = true -> (length d <= n)%nat ->
  pgood s -> bytes_ok d = true -> pgood (fst (fst (feed t s d))).
Proof.
  induction n as [|n IH]; intros d s Ht Hl Hs Hd.
  - destruct d; [|simpl in Hl; lia]. exact Hs.
  - rewrite feed_unfold. destruct (guard s d) eqn:Hg; [|exact Hs].
    destruct (body t s d) as [[[s1 o1] r] rest] eqn:Hb.
    pose proof (body_shrinks _ _ _ _ _ _ _ Hg Hb) as Hsh.
    pose proof (body_rest t s d) as Hr. rewrite Hb in Hr. simpl in Hr.
    apply guard_true in Hg. destruct Hg as [Hn Hd0].
    assert (Hs1 : pgood s1).
    { unfold body in Hb.
      set (c := Z.min (p_needed s) (len d)) in *.
      assert (Ha : pgood (acc s (take c d))).
      { destruct Hs as [Hs1 Hs2]. split; simpl.
        - rewrite len_take by (unfold c; lia). unfold c. lia.
        - rewrite bytes_ok_app, Hs2, bytes_ok_take by assumption. reflexivity. }
      destruct (p_needed (acc s (take c d)) =? 0).
      - destruct (fin t _) as [[s2 o2] r2] eqn:Hf. inversion Hb; subst.
        eapply fin_good; eauto.
      - inversion Hb; subst. assumption. }
    destruct r; [exact Hs1|].
    specialize (IH rest s1 Ht).
    destruct (feed t s1 rest) as [[s2 o2] st2]. simpl in *. apply IH; try assumption; try lia.
    subst rest. apply bytes_ok_drop. assumption.
Qed.

Lemma feed_needed_nonneg : forall t chunks s, wf_table t = true -> pgood s ->
  forallb bytes_ok chunks = true -> pgood (fst (feeds t s chunks)).
Proof.
  intros t chunks. induction chunks as [|c chunks IH]; intros s Ht Hs Hc; [exact Hs|].
  simpl in Hc. apply andb_true_iff in Hc. destruct Hc as [Hc1 Hc2].
  simpl. pose proof (feed_good_n t (length c) c s Ht (le_n _) Hs Hc1) as H1.
  destruct (feed t s c) as [[s1 o1] st1]. simpl in H1.
  specialize (IH s1 Ht H1 Hc2). destruct (feeds t s1 chunks). exact IH.
Qed.

(* ------------------------------------------------------------------ netsim server *)
Lemma payloads_netsim : forall msgs,
  payloads (map netsim_message msgs) = concat (map (fun m => fst m :: snd m) msgs).
Proof.
  induction msgs as [|m msgs IH]; [reflexivity|].
  unfold payloads in *. simpl. rewrite IH. reflexivity.
Qed.

(* a device that leases the netsim controller's sink is framed from the initial state *)
Lemma netsim_new_client_fresh : forall t s pkts msgs, wf_table t = true ->
  forallb (wf_packet t) pkts = true ->
  concat (map (fun m => fst m :: snd m) msgs) = concat pkts ->
  let '(s', outs) := netsim_connection t s msgs in
  s' = reset /\ concat outs = map Packet pkts.
Proof.
  intros t s pkts msgs Ht H Hc. unfold netsim_connection.
  apply (ws_new_client_fresh t s pkts (map netsim_message msgs) Ht H).
  rewrite payloads_netsim. assumption.
Qed.

(* ------------------------------------------------------------------ splitter, any bytes *)
Definition zeros (k : Z) : list Z := repeat 0 (Z.to_nat k).

Lemma len_zeros : forall k, 0 <= k -> len (zeros k) = k.
Proof. intros. unfold zeros, len. rewrite repeat_length. lia. Qed.

Lemma bytes_ok_zeros : forall k, bytes_ok (zeros k) = true.
Proof. intros. unfold zeros. induction (Z.to_nat k); simpl; auto. Qed.

Section SplitterAny.
Variables lo ls : Z.
Hypothesis Hlo : 0 <= lo.
Hypothesis Hls : 1 <= ls.

Lemma wf_endpoint_intro : forall h b, bytes_ok h = true -> bytes_ok b = true ->
  len h = lo + ls -> len b = le_decode (take ls (drop lo h)) ->
  wf_endpoint_packet lo ls (h ++ b) = true.
Proof.
  intros h b Hh Hb Hlh Hlb. unfold wf_endpoint_packet. cbv zeta.
  rewrite bytes_ok_app, Hh, Hb. cbn [andb].
  pose proof (len_nonneg b).
  apply andb_true_iff. split.
  - apply Z.leb_le. rewrite len_app. lia.
  - apply Z.eqb_eq. rewrite field_app by lia. rewrite len_app. lia.
Qed.

(* every byte string is a prefix of a stream of well-formed endpoint packets: a splitter
   has no invalid input, whatever it has seen is the beginning of some packet *)
Lemma endpoint_completion_n : forall n d, (length d <= n)%nat -> bytes_ok d = true ->
  exists es rest, forallb (wf_endpoint_packet lo ls) es = true /\ concat es = d ++ rest.
Proof.
  induction n as [|n IH]; intros d Hn Hd.
  - destruct d; [|simpl in Hn; lia]. exists [], []. auto.
  - destruct (Z.eq_dec (len d) 0) as [Hz|Hnz].
    { apply len_zero in Hz. subst d. exists [], []. auto. }
    assert (Hd1 : 1 <= len d) by (pose proof (len_nonneg d); lia).
    destruct (Z_lt_le_dec (len d) (lo + ls)) as [Hs|Hge].
    + (* inside the header: complete it with zeros *)
      set (h := d ++ zeros (lo + ls - len d)).
      assert (Hh : bytes_ok h = true) by (unfold h; rewrite bytes_ok_app, Hd, bytes_ok_zeros; reflexivity).
      assert (Hlh : len h = lo + ls) by (unfold h; rewrite len_app, len_zeros; lia).
      set (L := le_decode (take ls (drop lo h))).
      assert (HL : 0 <= L) by (apply le_decode_nonneg, bytes_ok_take, bytes_ok_drop; assumption).
      exists [h ++ zeros L], (zeros (lo + ls - len d) ++ zeros L). split.
      * cbn [forallb]. rewrite wf_endpoint_intro; auto using bytes_ok_zeros. rewrite len_zeros; auto.
      * simpl. rewrite app_nil_r. unfold h. rewrite <- app_assoc. reflexivity.
    + destruct (split_at (lo + ls) d) as (h & d2 & Hsplit & Hlh); [lia|].
      assert (Hh : bytes_ok h = true /\ bytes_ok d2 = true).
      { rewrite Hsplit, bytes_ok_app in Hd. apply andb_true_iff in Hd. assumption. }
      destruct Hh as [Hh Hd2].
      set (L := le_decode (take ls (drop lo h))).
      assert (HL : 0 <= L) by (apply le_decode_nonneg, bytes_ok_take, bytes_ok_drop; assumption).
      destruct (Z_lt_le_dec (len d2) L) as [Hs2|Hge2].
      * (* inside the body *)
        exists [h ++ d2 ++ zeros (L - len d2)], (zeros (L - len d2)). split.
        -- cbn [forallb]. rewrite wf_endpoint_intro; auto.
           ++ rewrite bytes_ok_app, Hd2, bytes_ok_zeros. reflexivity.
           ++ rewrite len_app, len_zeros by lia. fold L. lia.
        -- simpl. rewrite app_nil_r, Hsplit, <- !app_assoc. reflexivity.
      * destruct (split_at L d2) as (b & d3 & Hsplit2 & Hlb); [lia|].
        assert (Hb : bytes_ok b = true /\ bytes_ok d3 = true).
        { rewrite Hsplit2, bytes_ok_app in Hd2. apply andb_true_iff in Hd2. assumption. }
        destruct Hb as [Hb Hd3].
        destruct (IH d3) as (es & rest & Hes & Hc); [|assumption|].
        { assert (Hl : len d = lo + ls + L + len d3).
          { rewrite Hsplit, Hsplit2, !len_app. lia. }
          unfold len in Hl. glen. lia. }
        exists ((h ++ b) :: es), rest. split.
        -- cbn [forallb]. rewrite Hes, wf_endpoint_intro; auto.
        -- simpl. rewrite Hc, Hsplit, Hsplit2, <- !app_assoc. reflexivity.
Qed.

Lemma endpoint_completion : forall d, bytes_ok d = true ->
  exists es rest, forallb (wf_endpoint_packet lo ls) es = true /\ concat es = d ++ rest.
Proof. intros d. apply (endpoint_completion_n (length d)). lia. Qed.

(* complete description of the splitter after any chunks of a prefix of a packet stream *)
Lemma split_feeds_char : forall es chunks rest,
  forallb (wf_endpoint_packet lo ls) es = true -> concat es = concat chunks ++ rest ->
  exists pkt' outs, split_feeds lo ls [] chunks = (pkt', outs) /\
    concat outs = whole_within es (len (concat chunks)) /\
    concat chunks = concat (concat outs) ++ pkt'.
Proof.
  intros es chunks rest Hes Hc.
  destruct (split_feeds_inv lo ls Hlo Hls chunks [] rest es) as (pkt' & outs & es' & Hrun & Hsplit & Hinv).
  { eapply sinv_start; eauto. }
  exists pkt', outs. split; [assumption|].
  destruct Hinv as (Hc' & Hwf' & Hhd).
  assert (HE : forallb (wf_endpoint_packet lo ls) (concat outs) = true).
  { rewrite Hsplit, forallb_app in Hes. apply andb_true_iff in Hes. tauto. }
  assert (Hpre : concat chunks = concat (concat outs) ++ pkt').
  { rewrite Hsplit, concat_app, <- Hc' in Hc. rewrite app_assoc in Hc.
    destruct (app_eq_len (concat (concat outs) ++ pkt') (concat chunks) rest rest) as [E _]; auto.
    apply (f_equal len) in Hc. rewrite !len_app in Hc. rewrite len_app. lia. }
  split; [|assumption].
  rewrite Hpre at 1. rewrite Hsplit. symmetry. eapply whole_within_done; [eassumption|].
  destruct es' as [|e es']; [|assumption].
  simpl in Hc'. apply app_eq_nil in Hc'. tauto.
Qed.

(* chunking irrelevance of the splitter on EVERY byte string: any chunking gives the
   packets and the left-over buffer of a single call *)
Lemma split_any_chunking : forall chunks, forallb bytes_ok chunks = true ->
  let '(p1, o1, st1) := split_feed lo ls [] (concat chunks) in
  st1 = Ok /\ fst (split_feeds lo ls [] chunks) = p1 /\
  concat (snd (split_feeds lo ls [] chunks)) = o1.
Proof.
  intros chunks Hok.
  assert (Hd : bytes_ok (concat chunks) = true).
  { induction chunks as [|c chunks IH]; [reflexivity|]. simpl in Hok.
    apply andb_true_iff in Hok. destruct Hok as [H1 H2].
    simpl. rewrite bytes_ok_app, H1, (IH H2). reflexivity. }
  destruct (endpoint_completion _ Hd) as (es & rest & Hes & Hc).
  destruct (split_feeds_char es chunks rest Hes Hc) as (pa & oa & Hra & Hoa & Hpa).
  assert (Hc1 : concat es = concat [concat chunks] ++ rest) by (simpl; rewrite app_nil_r; assumption).
  destruct (split_feeds_char es [concat chunks] rest Hes Hc1) as (pb & ob & Hrb & Hob & Hpb).
  cbn [split_feeds] in Hrb.
  destruct (split_feed lo ls [] (concat chunks)) as [[p1 o1] st1] eqn:Hone.
  assert (Hst : st1 = Ok).
  { pose proof (split_feed_ok lo ls Hlo Hls es [] (concat chunks) rest) as Hk.
    rewrite Hone in Hk. apply Hk. eapply sinv_start; eauto. }
  inversion Hrb; subst pb ob. clear Hrb.
  simpl in Hob, Hpb. rewrite !app_nil_r in *.
  rewrite Hra. simpl. split; [assumption|].
  assert (Ho : concat oa = o1) by congruence.
  split; [|assumption].
  rewrite Hpa in Hpb at 1. rewrite Ho in Hpb. apply app_inv_head in Hpb. assumption.
Qed.

End SplitterAny.

Lemma usb_any_chunking : forall t spl ty lo ls chunks,
  splitters_ok t spl = true -> In (ty, (lo, ls)) spl -> forallb bytes_ok chunks = true ->
  let '(p1, o1, st1) := split_feed lo ls [] (concat chunks) in
  st1 = Ok /\ fst (split_feeds lo ls [] chunks) = p1 /\
  concat (snd (split_feeds lo ls [] chunks)) = o1.
Proof.
  intros t spl ty lo ls chunks Hspl Hin Hok.
  destruct (splitter_entry _ _ _ _ _ Hspl Hin) as (i & _ & _ & _ & H3 & H4).
  exact (split_any_chunking lo ls H3 H4 chunks Hok).
Qed.

(* ------------------------------------------------------------------ end to end *)
Lemma concat_firstn_skipn : forall (chunks : list (list Z)) k,
  concat chunks = concat (firstn k chunks) ++ concat (skipn k chunks).
Proof. intros. rewrite <- concat_app, firstn_skipn. reflexivity. Qed.

(* The property as one statement about the push parser, the two pull readers and the
   server life cycle, for one list of packets and one chunking of their stream. *)
Lemma all_stream_framers : forall t pkts chunks, wf_table t = true ->
  forallb (wf_packet t) pkts = true -> concat chunks = concat pkts ->
  (* push parser: exactly the packets, back in the initial state *)
  (fst (feeds t reset chunks) = reset /\ concat (snd (feeds t reset chunks)) = map Packet pkts) /\
  (* ... and after the first k chunks, for every k, exactly the packets wholly inside them *)
  (forall k, concat (snd (feeds t reset (firstn k chunks))) =
             map Packet (whole_within pkts (len (concat (firstn k chunks))))) /\
  (* both pull readers over the same bytes: the same packets *)
  (pr_all t (concat chunks) = (pkts, RAtEnd) /\ apr_all t (concat chunks) = (pkts, RTooShort)) /\
  (* a server client sending these chunks, whatever state the shared parser is in *)
  (forall s, let '(s', outs) := srv_run t s (Connect :: map Data chunks) in
             s' = reset /\ concat outs = map Packet pkts) /\
  (forall s, let '(s', outs) := ws_connection t s (map Some chunks) in
             s' = reset /\ concat outs = map Packet pkts).
Proof.
  intros t pkts chunks Ht H Hc. split; [|split; [|split; [|split]]].
  - apply chunking_irrelevant; assumption.
  - intros k. apply (none_early t pkts (firstn k chunks) (concat (skipn k chunks)) Ht H).
    rewrite <- Hc. apply concat_firstn_skipn.
  - rewrite Hc. destruct (pull_stream t pkts Ht H) as (_ & H1 & H2). auto.
  - intros s. apply new_client_fresh_state; assumption.
  - intros s. apply ws_new_client_fresh; try assumption.
    rewrite <- Hc. unfold payloads. rewrite map_map. cbn beta iota. rewrite map_id. reflexivity.
Qed.

(* ------------------------------------------------------------------ several parsers *)
Lemma nth_update_same : forall i x l, (i < length l)%nat -> nth i (update i x l) reset = x.
Proof.
  induction i as [|i IH]; intros x [|y l] H; simpl in *; try lia; auto.
  apply IH. lia.
Qed.

Lemma nth_update_other : forall i j x l, i <> j -> nth i (update j x l) reset = nth i l reset.
Proof.
  induction i as [|i IH]; intros [|j] x [|y l] H; simpl; try reflexivity; try congruence.
  apply IH. congruence.
Qed.

Lemma length_update : forall i x l, length (update i x l) = length l.
Proof. induction i as [|i IH]; intros x [|y l]; simpl; auto. Qed.

(* Interleaving irrelevance (product of independent state machines): under ANY
   interleaving of the operations of any number of parsers, parser i goes through exactly
   the states and produces exactly the outputs it produces when run alone on its own
   operations. *)
Lemma multi_run_independent : forall t ops ss i, (i < length ss)%nat ->
  nth i (fst (multi_run t ss ops)) reset = fst (solo_run t (nth i ss reset) (ops_of i ops)) /\
  outs_of i (snd (multi_run t ss ops)) = snd (solo_run t (nth i ss reset) (ops_of i ops)).
Proof.
  intros t ops. induction ops as [|o ops IH]; intros ss i Hi.
  - simpl. auto.
  - cbn [multi_run ops_of filter].
    destruct (own_step t (nth (mop_idx o) ss reset) o) as [s1 o1] eqn:Hstep.
    specialize (IH (update (mop_idx o) s1 ss) i).
    rewrite length_update in IH. specialize (IH Hi).
    destruct (multi_run t (update (mop_idx o) s1 ss) ops) as [ss2 o2].
    unfold outs_of. cbn [fst snd filter map].
    destruct (Nat.eqb (mop_idx o) i) eqn:He.
    + apply Nat.eqb_eq in He. rewrite He in *.
      rewrite nth_update_same in IH by assumption.
      cbn [solo_run]. rewrite Hstep.
      fold (ops_of i ops) in *.
      destruct (solo_run t s1 (ops_of i ops)) as [s3 o3]. simpl in *.
      destruct IH as [IH1 IH2]. unfold outs_of in IH2. rewrite IH2. auto.
    + apply Nat.eqb_neq in He.
      rewrite nth_update_other in IH by congruence.
      exact IH.
Qed.

Lemma solo_run_feeds : forall t i chunks s,
  solo_run t s (map (MFeed i) chunks) = feeds t s chunks.
Proof.
  intros t i chunks. induction chunks as [|c chunks IH]; intros s; [reflexivity|].
  simpl. destruct (feed t s c) as [[s1 o1] st1]. rewrite IH. reflexivity.
Qed.

(* k parsers, each fed a chunking of its own stream of well-formed packets (possibly
   after a reset / construction in its slot), interleaved arbitrarily with the operations
   of the others: each delivers exactly its own packets and ends in its initial state. *)
Lemma interleaved_streams : forall t ops ss i pkts chunks, wf_table t = true ->
  (i < length ss)%nat ->
  ops_of i ops = MReset i :: map (MFeed i) chunks \/
  (nth i ss reset = reset /\ ops_of i ops = map (MFeed i) chunks) ->
  forallb (wf_packet t) pkts = true -> concat chunks = concat pkts ->
  nth i (fst (multi_run t ss ops)) reset = reset /\
  concat (outs_of i (snd (multi_run t ss ops))) = map Packet pkts.
Proof.
  intros t ops ss i pkts chunks Ht Hi Hops Hp Hc.
  destruct (multi_run_independent t ops ss i Hi) as [H1 H2]. rewrite H1, H2.
  destruct (chunking_irrelevant t pkts chunks Ht Hp Hc) as [Hs Ho].
  destruct Hops as [-> | [-> ->]].
  - cbn [solo_run own_step]. rewrite solo_run_feeds.
    destruct (feeds t reset chunks) as [s2 o2]. simpl in *. auto.
  - rewrite solo_run_feeds. destruct (feeds t reset chunks) as [s2 o2]. simpl in *. auto.
Qed.
