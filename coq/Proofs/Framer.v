(* Proofs about Model/Framer.v (property C02). *)
From Coq Require Import ZArith List Bool Lia.
From BV Require Import Model.Framer.
Import ListNotations.
Open Scope Z_scope.

(* ------------------------------------------------------------------ lists and lengths *)
(* lia (8.16) does not digest [@length Z l]; abstract the lengths first *)
Ltac glen := repeat match goal with
  | |- context [@length ?A ?l] => let k := fresh "k" in set (k := @length A l) in *; clearbody k
  | H : context [@length ?A ?l] |- _ => let k := fresh "k" in set (k := @length A l) in *; clearbody k
  end.
Ltac llia := glen; lia.
Lemma len_nil : len [] = 0.
Proof. reflexivity. Qed.

Lemma len_cons : forall x l, len (x :: l) = 1 + len l.
Proof. intros. unfold len. simpl length. lia. Qed.

Lemma len_app : forall a b, len (a ++ b) = len a + len b.
Proof. intros. unfold len. rewrite app_length. lia. Qed.

Lemma len_nonneg : forall l, 0 <= len l.
Proof. intros. unfold len. lia. Qed.

Lemma len_zero : forall l, len l = 0 -> l = [].
Proof. intros [|x l] H; [reflexivity|]. rewrite len_cons in H. pose proof (len_nonneg l). lia. Qed.

Lemma take_all : forall n l, len l <= n -> take n l = l.
Proof. intros. unfold take, len in *. apply firstn_all2. lia. Qed.

Lemma drop_all : forall n l, len l <= n -> drop n l = [].
Proof. intros. unfold drop, len in *. apply skipn_all2. lia. Qed.

Lemma take_nonpos : forall n l, n <= 0 -> take n l = [].
Proof. intros. unfold take. replace (Z.to_nat n) with O by lia. reflexivity. Qed.

Lemma drop_nonpos : forall n l, n <= 0 -> drop n l = l.
Proof. intros. unfold drop. replace (Z.to_nat n) with O by lia. reflexivity. Qed.

Lemma take_drop : forall n l, take n l ++ drop n l = l.
Proof. intros. unfold take, drop. apply firstn_skipn. Qed.

Lemma take_app_len : forall a b, take (len a) (a ++ b) = a.
Proof.
  intros. unfold take, len. rewrite Nat2Z.id.
  rewrite firstn_app, Nat.sub_diag, firstn_all. simpl. apply app_nil_r.
Qed.

Lemma drop_app_len : forall a b, drop (len a) (a ++ b) = b.
Proof.
  intros. unfold drop, len. rewrite Nat2Z.id.
  rewrite skipn_app, Nat.sub_diag, skipn_all. reflexivity.
Qed.

Lemma take_app_ge : forall n a b, len a <= n -> take n (a ++ b) = a ++ take (n - len a) b.
Proof.
  intros. unfold take, len in *. rewrite firstn_app.
  rewrite firstn_all2 by lia. f_equal. f_equal. lia.
Qed.

Lemma drop_app_ge : forall n a b, len a <= n -> drop n (a ++ b) = drop (n - len a) b.
Proof.
  intros. unfold drop, len in *. rewrite skipn_app.
  rewrite skipn_all2 by lia. simpl. f_equal. lia.
Qed.

Lemma take_app_le : forall n a b, n <= len a -> take n (a ++ b) = take n a.
Proof.
  intros. unfold take, len in *. rewrite firstn_app.
  replace (Z.to_nat n - length a)%nat with O by lia. simpl. apply app_nil_r.
Qed.

Lemma len_take : forall n l, 0 <= n -> len (take n l) = Z.min n (len l).
Proof.
  intros. unfold take, len. rewrite firstn_length, Nat2Z.inj_min, Z2Nat.id by lia. reflexivity.
Qed.

Lemma len_drop_any : forall n l, len (drop n l) = len l - Z.max 0 (Z.min n (len l)).
Proof. intros. unfold drop, len. rewrite skipn_length. llia. Qed.

Lemma split_at : forall n l, 0 <= n <= len l ->
  exists a b, l = a ++ b /\ len a = n.
Proof.
  intros n l H. exists (take n l), (drop n l). split.
  - symmetry. apply take_drop.
  - rewrite len_take by lia. lia.
Qed.

Lemma bytes_ok_app : forall a b, bytes_ok (a ++ b) = bytes_ok a && bytes_ok b.
Proof. intros. unfold bytes_ok. apply forallb_app. Qed.

Lemma le_decode_nonneg : forall l, bytes_ok l = true -> 0 <= le_decode l.
Proof.
  induction l as [|b l IH]; intros H; [simpl; lia|].
  change (le_decode (b :: l)) with (b + 256 * le_decode l).
  change (bytes_ok (b :: l)) with (byte_ok b && bytes_ok l) in H.
  apply andb_true_iff in H. destruct H as [Hb Hl]. unfold byte_ok in Hb.
  apply andb_true_iff in Hb. destruct Hb as [H0 H1].
  apply Z.leb_le in H0. apply Z.ltb_lt in H1. specialize (IH Hl). lia.
Qed.

Lemma bytes_ok_take : forall n l, bytes_ok l = true -> bytes_ok (take n l) = true.
Proof.
  intros n l H. rewrite <- (take_drop n l) in H. rewrite bytes_ok_app in H.
  apply andb_true_iff in H. tauto.
Qed.

Lemma bytes_ok_drop : forall n l, bytes_ok l = true -> bytes_ok (drop n l) = true.
Proof.
  intros n l H. rewrite <- (take_drop n l) in H. rewrite bytes_ok_app in H.
  apply andb_true_iff in H. tauto.
Qed.

(* ------------------------------------------------------------------ the loop, fuel removed *)
Definition prepend (o : list out) (r : parser * list out * status) : parser * list out * status :=
  let '(s, o2, st) := r in (s, o ++ o2, st).

Lemma prepend_nil : forall r, prepend [] r = r.
Proof. intros [[s o] st]. reflexivity. Qed.

Lemma prepend_prepend : forall a b r, prepend a (prepend b r) = prepend (a ++ b) r.
Proof. intros a b [[s o] st]. simpl. rewrite app_assoc. reflexivity. Qed.

Lemma body_rest : forall t s d,
  snd (body t s d) = drop (Z.min (p_needed s) (len d)) d.
Proof.
  intros. unfold body. destruct (p_needed _ =? 0); [|reflexivity].
  destruct (fin t _) as [[s2 o] r]. reflexivity.
Qed.

Lemma guard_true : forall s d, guard s d = true -> 0 < p_needed s /\ 0 < len d.
Proof.
  intros s [|x d] H; simpl in H; [discriminate|].
  rewrite len_cons. pose proof (len_nonneg d). apply Z.ltb_lt in H. lia.
Qed.

Lemma guard_intro : forall s d, 0 < p_needed s -> 0 < len d -> guard s d = true.
Proof.
  intros s [|x d] H1 H2; [rewrite len_nil in H2; lia|]. simpl. apply Z.ltb_lt. lia.
Qed.

Lemma guard_false_needed : forall s d, p_needed s <= 0 -> guard s d = false.
Proof. intros s [|x d] H; simpl; [reflexivity|]. apply Z.ltb_ge. lia. Qed.

Lemma body_shrinks : forall t s d s1 o1 r rest,
  guard s d = true -> body t s d = (s1, o1, r, rest) -> (length rest < length d)%nat.
Proof.
  intros t s d s1 o1 r rest Hg Hb. apply guard_true in Hg.
  pose proof (body_rest t s d) as Hr. rewrite Hb in Hr. simpl in Hr. subst rest.
  pose proof (len_drop_any (Z.min (p_needed s) (len d)) d) as H.
  unfold len in *. lia.
Qed.

Lemma feed_loop_fuel : forall t f1 f2 s d,
  (length d <= f1)%nat -> (length d <= f2)%nat -> feed_loop t f1 s d = feed_loop t f2 s d.
Proof.
  induction f1 as [|f1 IH]; intros f2 s d H1 H2.
  - destruct d; [|simpl in H1; lia]. destruct f2; reflexivity.
  - destruct f2 as [|f2].
    + destruct d; [|simpl in H2; lia]. reflexivity.
    + simpl. destruct (guard s d) eqn:Hg; [|reflexivity].
      destruct (body t s d) as [[[s1 o1] r] rest] eqn:Hb.
      destruct r; [reflexivity|].
      pose proof (body_shrinks _ _ _ _ _ _ _ Hg Hb).
      rewrite (IH f2 s1 rest) by lia. reflexivity.
Qed.

Lemma feed_unfold : forall t s d,
  feed t s d =
  if guard s d then
    let '(s1, o1, raised, rest) := body t s d in
    if raised then (s1, o1, Raised) else prepend o1 (feed t s1 rest)
  else (s, [], Ok).
Proof.
  intros t s d. unfold feed. destruct d as [|x d]; [reflexivity|].
  cbn [length feed_loop].
  destruct (guard s (x :: d)) eqn:Hg; [|reflexivity].
  destruct (body t s (x :: d)) as [[[s1 o1] r] rest] eqn:Hb.
  destruct r; [reflexivity|].
  pose proof (body_shrinks _ _ _ _ _ _ _ Hg Hb) as Hs. simpl in Hs.
  rewrite (feed_loop_fuel t (length d) (length rest) s1 rest) by lia.
  reflexivity.
Qed.

Lemma feed_nil : forall t s, feed t s [] = (s, [], Ok).
Proof. reflexivity. Qed.

Lemma feed_idle : forall t s d, p_needed s <= 0 -> feed t s d = (s, [], Ok).
Proof. intros. rewrite feed_unfold, guard_false_needed by assumption. reflexivity. Qed.

Lemma acc_nil : forall s, acc s [] = s.
Proof.
  intros [st n p i]. unfold acc. simpl. rewrite len_nil, Z.sub_0_r, app_nil_r. reflexivity.
Qed.

Lemma acc_acc : forall s a b, acc (acc s a) b = acc s (a ++ b).
Proof.
  intros [st n p i] a b. unfold acc. simpl. rewrite len_app, app_assoc. f_equal. lia.
Qed.

(* a chunk shorter than what is needed is only accumulated *)
Lemma feed_short : forall t s d, len d < p_needed s -> feed t s d = (acc s d, [], Ok).
Proof.
  intros t s d H. destruct d as [|x d].
  - rewrite acc_nil. reflexivity.
  - rewrite feed_unfold, guard_intro.
    2: { pose proof (len_nonneg (x :: d)). lia. }
    2: { rewrite len_cons. pose proof (len_nonneg d). lia. }
    unfold body. rewrite Z.min_r by lia.
    rewrite take_all, drop_all by lia.
    replace (p_needed (acc s (x :: d)) =? 0) with false.
    2: { symmetry. apply Z.eqb_neq. simpl. lia. }
    rewrite feed_nil. simpl. reflexivity.
Qed.

(* a chunk that starts with exactly the needed bytes completes the current step *)
Lemma feed_fill : forall t s a r, 0 < p_needed s -> len a = p_needed s ->
  feed t s (a ++ r) =
  let '(s1, o1, raised) := fin t (acc s a) in
  if raised then (s1, o1, Raised) else prepend o1 (feed t s1 r).
Proof.
  intros t s a r Hn Ha. rewrite feed_unfold, guard_intro; [|assumption|].
  2: { rewrite len_app. pose proof (len_nonneg r). lia. }
  unfold body. rewrite len_app, Z.min_l by (pose proof (len_nonneg r); lia).
  rewrite <- Ha, take_app_len, drop_app_len.
  replace (p_needed (acc s a) =? 0) with true.
  2: { symmetry. apply Z.eqb_eq. simpl. lia. }
  destruct (fin t (acc s a)) as [[s1 o1] raised]. reflexivity.
Qed.

(* a short first part can be merged into the state *)
Lemma feed_merge : forall t s a b, len a < p_needed s -> feed t s (a ++ b) = feed t (acc s a) b.
Proof.
  intros t s a b H. destruct b as [|y b].
  - rewrite app_nil_r, feed_nil. apply feed_short. assumption.
  - pose proof (len_nonneg a) as Ha. pose proof (len_nonneg b) as Hb.
    rewrite (feed_unfold t s), (feed_unfold t (acc s a)).
    rewrite !guard_intro; try (simpl; lia); try (rewrite ?len_app, ?len_cons; lia).
    assert (Hbody : body t s (a ++ y :: b) = body t (acc s a) (y :: b)).
    { unfold body.
      replace (Z.min (p_needed s) (len (a ++ y :: b)))
        with (len a + Z.min (p_needed (acc s a)) (len (y :: b))).
      2: { rewrite len_app. simpl p_needed. lia. }
      set (c := Z.min (p_needed (acc s a)) (len (y :: b))).
      assert (0 <= c). { unfold c. simpl p_needed. rewrite len_cons. lia. }
      rewrite take_app_ge, drop_app_ge by lia.
      replace (len a + c - len a) with c by lia.
      rewrite acc_acc. reflexivity. }
    rewrite Hbody. reflexivity.
Qed.

(* ------------------------------------------------------------------ fusion *)
(* what feeding b does after the result r1 of an earlier feed: an earlier raise has
   discarded the rest of its own chunk only; within ONE call the rest is discarded *)
Definition then_feed (t : table) (r1 : parser * list out * status) (b : list Z) :=
  let '(s1, o1, st1) := r1 in
  match st1 with
  | Ok => prepend o1 (feed t s1 b)
  | _ => r1
  end.

Lemma then_feed_prepend : forall t o r b,
  then_feed t (prepend o r) b = prepend o (then_feed t r b).
Proof.
  intros t o [[s1 o1] st1] b. simpl. destruct st1; try reflexivity.
  rewrite prepend_prepend. reflexivity.
Qed.

Lemma feed_app_n : forall t n a b s, (length a <= n)%nat ->
  feed t s (a ++ b) = then_feed t (feed t s a) b.
Proof.
  induction n as [|n IH]; intros a b s Hl.
  - destruct a; [|simpl in Hl; lia]. simpl. rewrite prepend_nil. reflexivity.
  - destruct (Z_le_gt_dec (p_needed s) 0) as [Hz|Hp].
    { rewrite !feed_idle by assumption. simpl. rewrite feed_idle by assumption. reflexivity. }
    destruct (Z_lt_le_dec (len a) (p_needed s)) as [Hs|Hge].
    { rewrite feed_merge, (feed_short t s a) by assumption. simpl.
      rewrite prepend_nil. reflexivity. }
    destruct (split_at (p_needed s) a) as (a1 & a2 & -> & Ha1); [lia|].
    rewrite <- app_assoc. rewrite !feed_fill by lia.
    destruct (fin t (acc s a1)) as [[s1 o1] raised].
    destruct raised; [reflexivity|].
    rewrite then_feed_prepend. f_equal. apply IH.
    rewrite app_length in Hl. assert (0 < length a1)%nat by (unfold len in Ha1; lia). lia.
Qed.

(* feed fusion: feeding a ++ b in one call is feeding a, then b, outputs appended
   - unless a raised, in which case the single call has discarded b *)
Lemma feed_app : forall t a b s, feed t s (a ++ b) = then_feed t (feed t s a) b.
Proof. intros. apply (feed_app_n t (length a)). lia. Qed.

Lemma feed_status : forall t n d s, (length d <= n)%nat ->
  snd (feed t s d) <> OutOfFuel.
Proof.
  induction n as [|n IH]; intros d s Hl.
  - destruct d; [|simpl in Hl; lia]. simpl. discriminate.
  - rewrite feed_unfold. destruct (guard s d) eqn:Hg; [|simpl; discriminate].
    destruct (body t s d) as [[[s1 o1] r] rest] eqn:Hb.
    destruct r; [simpl; discriminate|].
    pose proof (body_shrinks _ _ _ _ _ _ _ Hg Hb).
    specialize (IH rest s1). destruct (feed t s1 rest) as [[s2 o2] st]. simpl in *.
    apply IH. lia.
Qed.

(* the explicit out-of-fuel result never occurs *)
Lemma feed_never_out_of_fuel : forall t s d, snd (feed t s d) <> OutOfFuel.
Proof. intros. apply (feed_status t (length d)). lia. Qed.

(* a raise always leaves the parser in its initial state, the error is the last output *)
Lemma fin_cases : forall t s s1 o1 r, fin t s = (s1, o1, r) ->
  (r = true /\ s1 = reset /\ exists ty, o1 = [Error ty]) \/ (r = false /\ has_error o1 = false).
Proof.
  intros t [st n p i] s1 o1 r H. unfold fin in H. cbn [p_st p_pkt p_info p_needed] in H. destruct st.
  - destruct (lookup t _).
    + cbn in H. inversion H. right. split; reflexivity.
    + inversion H. left. repeat split. eexists. reflexivity.
  - cbn in H. destruct (_ =? 0) in H; inversion H; right; split; reflexivity.
  - cbn in H. destruct (_ =? 0) in H; inversion H; right; split; reflexivity.
Qed.

Lemma has_error_app : forall a b, has_error a = false -> has_error (a ++ b) = has_error b.
Proof. induction a as [|[p|e] a IH]; simpl; intros; auto. discriminate. Qed.

Lemma feed_raise_resets_n : forall t n d s s' o, (length d <= n)%nat ->
  feed t s d = (s', o, Raised) ->
  s' = reset /\ exists o' ty, o = o' ++ [Error ty] /\ has_error o' = false.
Proof.
  induction n as [|n IH]; intros d s s' o Hl H.
  - destruct d; [|simpl in Hl; lia]. simpl in H. discriminate.
  - rewrite feed_unfold in H. destruct (guard s d) eqn:Hg; [|discriminate].
    destruct (body t s d) as [[[s1 o1] r] rest] eqn:Hb.
    pose proof (body_shrinks _ _ _ _ _ _ _ Hg Hb) as Hsh.
    assert (Hc : (r = true /\ s1 = reset /\ exists ty, o1 = [Error ty]) \/
                 (r = false /\ has_error o1 = false)).
    { unfold body in Hb. destruct (p_needed _ =? 0).
      - destruct (fin t _) as [[s2 o2] r2] eqn:Hf. inversion Hb; subst.
        eapply fin_cases; eauto.
      - inversion Hb; subst. right. split; reflexivity. }
    destruct Hc as [(-> & -> & ty & ->) | (-> & He1)].
    + inversion H; subst. split; [reflexivity|]. exists [], ty. split; reflexivity.
    + destruct (feed t s1 rest) as [[s3 o3] st3] eqn:Hr. simpl in H. inversion H; subst; clear H.
      destruct (IH rest s1 s' o3) as (Hs & o' & ty & Ho & He); [lia|assumption|].
      split; [assumption|]. exists (o1 ++ o'), ty. split.
      * rewrite Ho, app_assoc. reflexivity.
      * rewrite has_error_app; assumption.
Qed.

Lemma feed_raise_resets : forall t d s s' o,
  feed t s d = (s', o, Raised) ->
  s' = reset /\ exists o' ty, o = o' ++ [Error ty] /\ has_error o' = false.
Proof. intros. eapply (feed_raise_resets_n t (length d)); eauto. Qed.
