(* Proofs about Model/AtFramer.v: what the AT readers hand to their parsers, and what
   they keep buffered, does not depend on how the byte stream is cut into chunks. *)
From Coq Require Import ZArith List Bool Lia Arith.
From BV Require Import Model.AtFramer.
Import ListNotations.

Lemma prefixb_len d l : prefixb d l = true -> (length d <= length l)%nat.
Proof.
  revert l. induction d as [|a d IH]; intros l H; cbn; [lia|].
  destruct l as [|b l]; [discriminate|]. cbn in H. apply andb_prop in H as [_ H].
  specialize (IH l H). cbn. lia.
Qed.

Lemma prefixb_app_long d l c : (length d <= length l)%nat -> prefixb d (l ++ c) = prefixb d l.
Proof.
  revert l. induction d as [|a d IH]; intros l H; [reflexivity|].
  destruct l as [|b l]; [cbn in H; lia|]. cbn. rewrite IH by (cbn in H; lia). reflexivity.
Qed.

Lemma find_sub_len d l i : find_sub d l = Some i -> (i + length d <= length l)%nat.
Proof.
  revert i. induction l as [|x r IH]; intros i H; [discriminate|]. cbn [find_sub] in H.
  destruct (prefixb d (x :: r)) eqn:E.
  - inversion H; subst. apply prefixb_len in E. lia.
  - destruct (find_sub d r) as [j|]; [|discriminate]. inversion H; subst.
    specialize (IH j eq_refl). cbn. lia.
Qed.

(* a delimiter found in the buffer is found at the same place when more bytes follow *)
Lemma find_sub_app d l c i : find_sub d l = Some i -> find_sub d (l ++ c) = Some i.
Proof.
  revert i. induction l as [|x r IH]; intros i H; [discriminate|].
  cbn [find_sub app] in *. destruct (prefixb d (x :: r)) eqn:E.
  - change (x :: r ++ c) with ((x :: r) ++ c).
    rewrite prefixb_app_long by (apply prefixb_len; exact E). rewrite E. exact H.
  - destruct (find_sub d r) as [j|] eqn:F; [|discriminate]. inversion H; subst.
    change (x :: r ++ c) with ((x :: r) ++ c).
    rewrite prefixb_app_long by (apply find_sub_len in F; cbn; lia).
    rewrite E. rewrite (IH j eq_refl). reflexivity.
Qed.

Section Reader.
  Variable R : reader.
  Hypothesis Hd : r_delim R <> [].

  Lemma delim_pos : (1 <= length (r_delim R))%nat.
  Proof. destruct (r_delim R); [congruence|cbn; lia]. Qed.

  (* the loop does not depend on the fuel once there is enough *)
  Lemma rd_loop_fuel : forall f1 f2 buf,
    (length buf < f1)%nat -> (length buf < f2)%nat -> rd_loop R f1 buf = rd_loop R f2 buf.
  Proof.
    induction f1 as [|f1 IH]; intros f2 buf H1 H2; [lia|].
    destruct f2 as [|f2]; [lia|]. cbn [rd_loop].
    destruct (find_sub (r_delim R) buf) as [i|] eqn:F; [|reflexivity].
    pose proof (find_sub_len _ _ _ F) as Hl. pose proof delim_pos as Hp.
    assert (Hs : (length (skipn (i + length (r_delim R)) buf) < length buf)%nat)
      by (rewrite skipn_length; lia).
    rewrite (IH f2 (skipn (i + length (r_delim R)) buf)) by lia. reflexivity.
  Qed.

  (* what is left in the buffer contains no delimiter *)
  Lemma rd_loop_settled : forall f buf ls r,
    (length buf < f)%nat -> rd_loop R f buf = (ls, r) -> find_sub (r_delim R) r = None.
  Proof.
    induction f as [|f IH]; intros buf ls r Hf H; [lia|]. cbn [rd_loop] in H.
    destruct (find_sub (r_delim R) buf) as [i|] eqn:F.
    - pose proof (find_sub_len _ _ _ F) as Hl. pose proof delim_pos as Hp.
      assert (Hs : (length (skipn (i + length (r_delim R)) buf) < f)%nat)
        by (rewrite skipn_length; lia).
      destruct (r_skip_empty R && Nat.eqb i 0).
      + eapply IH; eauto.
      + destruct (rd_loop R f (skipn (i + length (r_delim R)) buf)) as [ls' r'] eqn:E.
        inversion H; subst. eapply IH; eauto.
    - inversion H; subst. exact F.
  Qed.

  (* fusion: running the loop on buf ++ c is running it on buf, then on what is left ++ c *)
  Lemma rd_loop_app : forall f buf c f' f'',
    (length buf < f)%nat -> (length (buf ++ c) < f')%nat ->
    (forall r, (length r <= length buf)%nat -> (length (r ++ c) < f'')%nat) ->
    rd_loop R f' (buf ++ c) =
    let '(l1, r1) := rd_loop R f buf in
    let '(l2, r2) := rd_loop R f'' (r1 ++ c) in (l1 ++ l2, r2).
  Proof.
    induction f as [|f IH]; intros buf c f' f'' Hf Hf' Hf''; [lia|].
    cbn [rd_loop]. destruct (find_sub (r_delim R) buf) as [i|] eqn:F.
    - pose proof (find_sub_len _ _ _ F) as Hl. pose proof delim_pos as Hp.
      destruct f' as [|f']; [lia|]. cbn [rd_loop]. rewrite (find_sub_app _ _ c _ F).
      assert (Hsk : skipn (i + length (r_delim R)) (buf ++ c) = skipn (i + length (r_delim R)) buf ++ c).
      { rewrite skipn_app. replace (i + length (r_delim R) - length buf)%nat with 0%nat by lia. reflexivity. }
      assert (Hfi : firstn i (buf ++ c) = firstn i buf).
      { rewrite firstn_app. replace (i - length buf)%nat with 0%nat by lia. cbn. now rewrite app_nil_r. }
      rewrite Hsk, Hfi.
      set (rest := skipn (i + length (r_delim R)) buf).
      assert (Hr : (length rest < length buf)%nat) by (unfold rest; rewrite skipn_length; lia).
      assert (IHr := IH rest c f' f'' ltac:(lia)
                       ltac:(rewrite app_length in *; lia)
                       ltac:(intros r Hle; apply Hf''; lia)).
      destruct (r_skip_empty R && Nat.eqb i 0).
      + exact IHr.
      + rewrite IHr. destruct (rd_loop R f rest) as [l1 r1].
        destruct (rd_loop R f'' (r1 ++ c)) as [l2 r2]. reflexivity.
    - cbn [app]. rewrite (rd_loop_fuel f' f'' (buf ++ c) Hf' ltac:(apply Hf''; lia)).
      destruct (rd_loop R f'' (buf ++ c)) as [l2 r2]. reflexivity.
  Qed.

  Lemma feed_settled buf c ls r : feed R buf c = (ls, r) -> find_sub (r_delim R) r = None.
  Proof. unfold feed. apply rd_loop_settled. lia. Qed.

  Lemma rd_loop_rest_len : forall f buf ls r,
    rd_loop R f buf = (ls, r) -> (length r <= length buf)%nat.
  Proof.
    induction f as [|f IH]; intros buf ls r H; cbn [rd_loop] in H; [inversion H; subst; lia|].
    destruct (find_sub (r_delim R) buf) as [i|] eqn:F; [|inversion H; subst; lia].
    assert (Hs : (length (skipn (i + length (r_delim R)) buf) <= length buf)%nat)
      by (rewrite skipn_length; lia).
    destruct (r_skip_empty R && Nat.eqb i 0).
    - specialize (IH _ _ _ H). lia.
    - destruct (rd_loop R f (skipn (i + length (r_delim R)) buf)) as [ls' r'] eqn:E.
      inversion H; subst. specialize (IH _ _ _ E). lia.
  Qed.

  (* feed fusion: one call with b ++ c = a call with b followed by a call with c *)
  Lemma feed_fusion buf b c :
    feed R buf (b ++ c) =
    let '(l1, r1) := feed R buf b in
    let '(l2, r2) := feed R r1 c in (l1 ++ l2, r2).
  Proof.
    unfold feed. rewrite app_assoc.
    pose proof (rd_loop_app (S (length (buf ++ b))) (buf ++ b) c
                  (S (length ((buf ++ b) ++ c))) (S (length (buf ++ b) + length c))
                  ltac:(lia) ltac:(lia)
                  ltac:(intros r Hr; rewrite app_length; lia)) as H.
    rewrite H. destruct (rd_loop R (S (length (buf ++ b))) (buf ++ b)) as [l1 r1] eqn:E.
    pose proof (rd_loop_rest_len _ _ _ _ E) as Hl.
    rewrite (rd_loop_fuel (S (length (buf ++ b) + length c)) (S (length (r1 ++ c))) (r1 ++ c))
      by (rewrite ?app_length in *; lia).
    reflexivity.
  Qed.

  (* a call with no data on a settled buffer does nothing *)
  Lemma feed_nil_settled buf : find_sub (r_delim R) buf = None -> feed R buf [] = ([], buf).
  Proof. intros H. unfold feed. rewrite app_nil_r. cbn [rd_loop]. rewrite H. reflexivity. Qed.

  (* chunking irrelevance: for every buffer the reader can be in (no delimiter pending) and
     every way of cutting the bytes into chunks, the lines handed to the parser and the final
     buffer are those of a single call with all the bytes *)
  Lemma chunking_irrelevant : forall chunks buf,
    find_sub (r_delim R) buf = None ->
    feed_chunks R buf chunks = feed R buf (concat chunks).
  Proof.
    induction chunks as [|c cs IH]; intros buf Hs; cbn [feed_chunks concat].
    - symmetry. apply feed_nil_settled. exact Hs.
    - rewrite feed_fusion. destruct (feed R buf c) as [l1 b1] eqn:E.
      rewrite (IH b1 (feed_settled _ _ _ _ E)). reflexivity.
  Qed.

  Lemma chunkings_agree chunks1 chunks2 :
    concat chunks1 = concat chunks2 -> feed_chunks R [] chunks1 = feed_chunks R [] chunks2.
  Proof. intros H. rewrite !chunking_irrelevant by reflexivity. now rewrite H. Qed.
End Reader.

Lemma hf_delim_nonempty : r_delim hf_reader <> [].
Proof. discriminate. Qed.
Lemma ag_delim_nonempty : r_delim ag_reader <> [].
Proof. discriminate. Qed.

(* the seeded early return is refuted: "\r\nOK\r" then "\n" *)
Lemma seeded_reader_refuted :
  feed_chunks_seeded hf_reader [] [[13; 10; 79; 75; 13]; [10]] = ([], [79; 75; 13; 10]) /\
  feed_chunks hf_reader [] [[13; 10; 79; 75; 13]; [10]] = ([[79; 75]], []) /\
  feed hf_reader [] [13; 10; 79; 75; 13; 10] = ([[79; 75]], []).
Proof. vm_compute. repeat split. Qed.
