(* Proofs/CodecsUuid.v — UUID registry and Address lemmas for Model/CodecsUuid.v. *)
From Coq Require Import ZArith List Bool Lia.
From BV Require Import Base.Bytes Proofs.Bytes Model.CodecsBase Proofs.CodecsBase
  Gen.C18Tables Model.CodecsUuid.
Import ListNotations.
Open Scope Z_scope.

Lemma zlist_eqb_refl : forall a, zlist_eqb a a = true.
Proof. intro a. apply zlist_eqb_eq. reflexivity. Qed.

(* ---------------------------------------------------------------- UUID *)
(* whatever the registry holds, from_bytes returns an object with the bytes it was given *)
Theorem uuid_from_bytes_any_registry : forall reg b,
  uuid_len_ok b = true ->
  exists reg', uuid_from_bytes reg b = Some (reg', b) /\ In b reg' /\
               (forall x, In x reg -> In x reg').
Proof.
  intros reg b H. unfold uuid_from_bytes, register. rewrite H.
  destruct (existsb (zlist_eqb b) reg) eqn:E.
  - exists reg. split; [reflexivity|]. split; [|auto].
    apply existsb_exists in E as [x [Hin Hx]]. apply zlist_eqb_eq in Hx. subst x. exact Hin.
  - exists (reg ++ [b]). split; [reflexivity|]. split; [apply in_or_app; right; left; reflexivity|].
    intros x Hx. apply in_or_app. left. exact Hx.
Qed.

Corollary uuid_roundtrip_any_history : forall h b,
  uuid_len_ok b = true ->
  exists reg', uuid_from_bytes (uuid_run [] h) b = Some (reg', b).
Proof.
  intros h b H. destruct (uuid_from_bytes_any_registry (uuid_run [] h) b H) as [r [E _]]. eauto.
Qed.

Lemma uuid_from_bytes_bad_length : forall reg b, uuid_len_ok b = false -> uuid_from_bytes reg b = None.
Proof. intros reg b H. unfold uuid_from_bytes. rewrite H. reflexivity. Qed.

(* the registry never holds two entries with identical bytes, so the object returned for
   given bytes is unique *)
Lemma register_nodup : forall reg u, NoDup reg -> NoDup (fst (register reg u)).
Proof.
  intros reg u H. unfold register. destruct (existsb (zlist_eqb u) reg) eqn:E; cbn [fst]; [exact H|].
  assert (Hnot : ~ In u reg).
  { intro Hin. assert (existsb (zlist_eqb u) reg = true).
    { apply existsb_exists. exists u. split; [exact Hin|apply zlist_eqb_refl]. }
    congruence. }
  clear E. induction reg as [|x r IH]; [constructor; [intros []|constructor]|].
  inversion H; subst. cbn [app]. constructor.
  - intro Hin. apply in_app_or in Hin as [Hin | [Hin | []]]; [contradiction|].
    subst. apply Hnot. left. reflexivity.
  - apply IH; [assumption|]. intro Hin. apply Hnot. right. exact Hin.
Qed.

(* D18d: with the unfixed register a registered 16-bit UUID makes the 128-bit form of the
   same value come back two bytes long *)
Lemma uuid_unfixed_refuted :
  exists h b r reg', uuid_len_ok b = true /\
    uuid_from_bytes_unfixed (uuid_run_unfixed [] h) b = Some (reg', r) /\ r <> b.
Proof.
  exists [UFrom16 43981], (uuid_128 (le_encode 2 43981)). eexists. eexists.
  split; [vm_compute; reflexivity|]. split; [vm_compute; reflexivity|]. vm_compute. discriminate.
Qed.

Lemma uuid_base_length : length uuid_base = 12%nat.
Proof. reflexivity. Qed.

Theorem uuid_pdu_roundtrip : forall u,
  uuid_len_ok u = true ->
  uuid_len_ok (uuid_to_pdu_bytes u) = true /\ uuid_eq (uuid_to_pdu_bytes u) u = true.
Proof.
  intros u H. unfold uuid_to_pdu_bytes, uuid_to_bytes.
  destruct (lenZ u =? 4) eqn:E4.
  - apply Z.eqb_eq in E4. unfold uuid_128 at 1 2. rewrite E4. cbn [Z.eqb Pos.eqb].
    assert (Hl : lenZ (uuid_base ++ u) = 16) by (rewrite lenZ_app, E4; reflexivity).
    split.
    + unfold uuid_len_ok. rewrite Hl. reflexivity.
    + unfold uuid_eq, uuid_128. rewrite Hl, E4. cbn [Z.eqb Pos.eqb]. apply zlist_eqb_refl.
  - split; [exact H|]. unfold uuid_eq. apply zlist_eqb_refl.
Qed.

(* ---------------------------------------------------------------- Address: bytes *)
Theorem addr_value_roundtrip : forall a t tail,
  addr_ok a = true ->
  addr_parse t (addr_bytes a ++ tail) = Some ((fst a, t), tail).
Proof.
  intros [b ty] t tail H. unfold addr_ok in H. cbn [fst snd] in *.
  rewrite !andb_true_iff in H. destruct H as [[Hl _] _]. apply Nat.eqb_eq in Hl.
  unfold addr_parse, addr_bytes. cbn [fst].
  replace (6 <=? length (b ++ tail))%nat with true by (symmetry; apply Nat.leb_le; rewrite app_length; lia).
  rewrite <- Hl. rewrite firstn_app_exact, skipn_app_exact. reflexivity.
Qed.

Theorem addr_bytes_roundtrip : forall t d a rest,
  addr_parse t d = Some (a, rest) -> addr_bytes a ++ rest = d /\ length (addr_bytes a) = 6%nat /\ snd a = t.
Proof.
  intros t d a rest H. unfold addr_parse in H.
  destruct (6 <=? length d)%nat eqn:E; [|discriminate]. apply Nat.leb_le in E.
  apply some_pair_inv in H as [<- <-]. unfold addr_bytes. cbn [fst snd].
  split; [apply firstn_skipn|]. split; [apply firstn_length_le; exact E|reflexivity].
Qed.

(* ---------------------------------------------------------------- Address: strings *)
Definition hex_digit_chk (d : Z) : bool :=
  match hexval (hexchar d) with Some v => v =? d | None => false end
  && negb (hexchar d =? 58) && negb (hexchar d =? 80).
Lemma hex_digit_all : forallb hex_digit_chk (zrange 16) = true.
Proof. vm_compute. reflexivity. Qed.
Lemma hex_digit : forall d, 0 <= d < 16 ->
  hexval (hexchar d) = Some d /\ (hexchar d =? 58) = false /\ (hexchar d =? 80) = false.
Proof.
  intros d Hd. pose proof (forall_range 16 _ hex_digit_all d ltac:(cbn; lia)) as H.
  unfold hex_digit_chk in H. rewrite !andb_true_iff in H. destruct H as [[H1 H2] H3].
  destruct (hexval (hexchar d)) as [v|]; [|discriminate]. apply Z.eqb_eq in H1. subst v.
  apply negb_true_iff in H2. apply negb_true_iff in H3. auto.
Qed.

Lemma byte_nibbles : forall b, 0 <= b < 256 -> 0 <= b / 16 < 16 /\ 0 <= b mod 16 < 16 /\ 16 * (b / 16) + b mod 16 = b.
Proof.
  intros b Hb. split; [split; [apply Z.div_pos; lia|apply Z.div_lt_upper_bound; lia]|].
  split; [apply Z.mod_pos_bound; lia|]. symmetry. apply Z.div_mod. lia.
Qed.

Lemma fromhex_hex2 : forall b r, 0 <= b < 256 ->
  fromhex (hex2 b ++ r) = match fromhex r with Some rest => Some (b :: rest) | None => None end.
Proof.
  intros b r Hb. destruct (byte_nibbles b Hb) as [Hh [Hl He]].
  destruct (hex_digit _ Hh) as [H1 _]. destruct (hex_digit _ Hl) as [H2 _].
  unfold hex2. cbn [app fromhex]. rewrite H1, H2. rewrite He. destruct (fromhex r); reflexivity.
Qed.

Lemma fromhex_concat : forall l, bytes_ok l = true -> fromhex (concat (map hex2 l)) = Some l.
Proof.
  induction l as [|b l IH]; intro H; [reflexivity|].
  rewrite bytes_ok_cons in H. apply andb_true_iff in H as [Hb Hl]. apply byte_ok_iff in Hb.
  cbn [map concat]. rewrite fromhex_hex2 by exact Hb. rewrite IH by exact Hl. reflexivity.
Qed.

Definition no_colon (c : Z) : bool := negb (c =? 58).

Lemma hex2_no_colon : forall b, 0 <= b < 256 -> filter no_colon (hex2 b) = hex2 b.
Proof.
  intros b Hb. destruct (byte_nibbles b Hb) as [Hh [Hl _]].
  destruct (hex_digit _ Hh) as [_ [H1 _]]. destruct (hex_digit _ Hl) as [_ [H2 _]].
  unfold hex2, no_colon. cbn [filter]. rewrite H1, H2. reflexivity.
Qed.

Lemma filter_app' : forall (f : Z -> bool) a b, filter f (a ++ b) = filter f a ++ filter f b.
Proof. intros. apply filter_app. Qed.

Lemma join_colon_filter : forall l, bytes_ok l = true ->
  filter no_colon (join_colon (map hex2 l)) = concat (map hex2 l).
Proof.
  induction l as [|b l IH]; intro H; [reflexivity|].
  rewrite bytes_ok_cons in H. apply andb_true_iff in H as [Hb Hl]. apply byte_ok_iff in Hb.
  destruct l as [|b' l'].
  - cbn [map join_colon concat]. rewrite app_nil_r. apply hex2_no_colon. exact Hb.
  - change (join_colon (map hex2 (b :: b' :: l'))) with (hex2 b ++ 58 :: join_colon (map hex2 (b' :: l'))).
    rewrite filter_app'. rewrite hex2_no_colon by exact Hb.
    cbn [filter]. unfold no_colon at 1. cbn [Z.eqb Pos.eqb negb].
    rewrite IH by exact Hl. reflexivity.
Qed.

Lemma join_colon_length : forall l, l <> [] ->
  length (join_colon (map hex2 l)) = (3 * length l - 1)%nat.
Proof.
  induction l as [|b l IH]; intro H; [congruence|].
  destruct l as [|b' l'].
  - reflexivity.
  - change (join_colon (map hex2 (b :: b' :: l'))) with (hex2 b ++ 58 :: join_colon (map hex2 (b' :: l'))).
    rewrite app_length. cbn [length hex2]. rewrite IH by discriminate. cbn [length]. lia.
Qed.

Lemma join_colon_last : forall l d, bytes_ok l = true -> l <> [] ->
  (last (join_colon (map hex2 l)) d =? 80) = false.
Proof.
  induction l as [|b l IH]; intros d H Hne; [congruence|].
  rewrite bytes_ok_cons in H. apply andb_true_iff in H as [Hb Hl]. apply byte_ok_iff in Hb.
  destruct l as [|b' l'].
  - cbn [map join_colon hex2 last]. destruct (byte_nibbles b Hb) as [_ [Hlo _]].
    destruct (hex_digit _ Hlo) as [_ [_ H]]. exact H.
  - change (join_colon (map hex2 (b :: b' :: l'))) with (hex2 b ++ 58 :: join_colon (map hex2 (b' :: l'))).
    assert (Hne' : join_colon (map hex2 (b' :: l')) <> []).
    { intro E. pose proof (join_colon_length (b' :: l') ltac:(discriminate)) as L. rewrite E in L.
      cbn [length] in L. lia. }
    unfold hex2 at 1. cbn [app].
    destruct (join_colon (map hex2 (b' :: l'))) as [|c s] eqn:Ej; [congruence|].
    change (last (hexchar (b / 16) :: hexchar (b mod 16) :: 58 :: c :: s) d) with (last (c :: s) d).
    apply IH; [exact Hl|discriminate].
Qed.

Lemma last_app_2 : forall (s : list Z) x y d, last (s ++ [x; y]) d = y.
Proof.
  intros. replace (s ++ [x; y]) with ((s ++ [x]) ++ [y]) by (rewrite <- app_assoc; reflexivity).
  apply last_last.
Qed.
Lemma removelast_app_2 : forall (s : list Z) x y, removelast (removelast (s ++ [x; y])) = s.
Proof.
  intros. replace (s ++ [x; y]) with ((s ++ [x]) ++ [y]) by (rewrite <- app_assoc; reflexivity).
  rewrite removelast_last. apply removelast_last.
Qed.

Theorem addr_string_roundtrip : forall a t,
  addr_ok a = true -> is_public t = false ->
  exists a', addr_from_string (addr_to_string a) t = Some a' /\
             fst a' = fst a /\ is_public (snd a') = is_public (snd a).
Proof.
  intros [b ty] t H Ht. unfold addr_ok in H. cbn [fst snd] in *.
  rewrite !andb_true_iff in H. destruct H as [[Hl Hb] _]. apply Nat.eqb_eq in Hl.
  assert (Hrb : bytes_ok (rev b) = true) by (rewrite bytes_ok_rev; exact Hb).
  assert (Hrl : length (rev b) = 6%nat) by (rewrite rev_length; exact Hl).
  assert (Hne : rev b <> []) by (intro E; rewrite E in Hrl; discriminate).
  set (s := join_colon (map hex2 (rev b))).
  assert (Hs17 : length s = 17%nat) by (unfold s; rewrite join_colon_length by exact Hne; rewrite Hrl; reflexivity).
  assert (Hfin : forall t1 : Z,
     (let s2 := if (length s =? 17)%nat then filter (fun c => negb (c =? 58)) s else s in
      match fromhex s2 with
      | Some bs => if (length bs =? 6)%nat then Some (rev bs, t1) else None
      | None => None
      end) = Some (b, t1) :> option addr).
  { intro t1. cbv zeta. rewrite Hs17. cbn [Nat.eqb].
    change (fun c : Z => negb (c =? 58)) with no_colon.
    unfold s. rewrite join_colon_filter by exact Hrb. rewrite fromhex_concat by exact Hrb.
    rewrite Hrl. cbn [Nat.eqb]. rewrite rev_involutive. reflexivity. }
  unfold addr_to_string, addr_from_string. cbn [fst snd]. fold s.
  destruct (is_public ty) eqn:Ep.
  - rewrite last_app_2. cbn [Z.eqb Pos.eqb]. rewrite removelast_app_2.
    specialize (Hfin addr_type_PUBLIC_DEVICE). cbv zeta in Hfin. rewrite Hfin.
    eexists. split; [reflexivity|]. split; reflexivity.
  - rewrite app_nil_r. unfold s at 1. rewrite (join_colon_last (rev b) 0 Hrb Hne).
    specialize (Hfin t). cbv zeta in Hfin. fold s. rewrite Hfin.
    eexists. split; [reflexivity|]. split; [reflexivity|]. cbn [snd]. exact Ht.
Qed.
