(* C17 - lemmas about Model/HostileRfcomm.v (rfcomm.DLC.process_tx). *)
From Coq Require Import ZArith List Bool Lia.
From BV Require Import Model.HostileRfcomm.
Import ListNotations.
Open Scope Z_scope.

(* The code as it is: every iteration after the first spends a credit, so the loop makes at
   most credits + 1 iterations whatever mtu is (0 and negative included). *)
Lemma process_tx_fuel_enough : forall fuel mtu buf credits rxn,
  0 <= credits ->
  credits + (if 0 <? rxn then 1 else 0) + 1 <= Z.of_nat fuel ->
  process_tx true fuel mtu buf credits rxn <> None.
Proof.
  induction fuel as [|f IH]; intros mtu buf credits rxn Hc Hf.
  - destruct (0 <? rxn); simpl in Hf; lia.
  - cbn [process_tx]. rewrite Nat2Z.inj_succ in Hf.
    destruct (((0 <? buf) && (0 <? credits)) || (0 <? rxn)) eqn:Cond; [|discriminate].
    destruct (0 <? rxn) eqn:R.
    + destruct ((0 <? buf) && (0 <? credits)) eqn:BC.
      * apply andb_true_iff in BC. destruct BC as [_ C]. apply Z.ltb_lt in C.
        specialize (IH mtu (buf - take (mtu - 1) buf) (credits - 1) 0 ltac:(lia)).
        cbn [Z.ltb] in IH. simpl in IH. specialize (IH ltac:(lia)).
        destruct (process_tx true f mtu (buf - take (mtu - 1) buf) (credits - 1) 0) as [[st fr]|]; [discriminate | congruence].
      * specialize (IH mtu (buf - 0) credits 0 Hc). simpl in IH. specialize (IH ltac:(lia)).
        destruct (process_tx true f mtu (buf - 0) credits 0) as [[st fr]|]; [discriminate | congruence].
    + rewrite orb_false_r in Cond. apply andb_true_iff in Cond. destruct Cond as [_ C]. apply Z.ltb_lt in C.
      specialize (IH mtu (buf - take mtu buf) (credits - 1) 0 ltac:(lia)). simpl in IH. specialize (IH ltac:(lia)).
      destruct (process_tx true f mtu (buf - take mtu buf) (credits - 1) 0) as [[st fr]|]; [discriminate | congruence].
Qed.

Theorem process_tx_terminates : forall mtu buf credits rxn,
  0 <= credits -> process_tx true (process_tx_fuel credits) mtu buf credits rxn <> None.
Proof.
  intros mtu buf credits rxn Hc. apply process_tx_fuel_enough; [assumption|].
  unfold process_tx_fuel. rewrite Z2Nat.id by lia. destruct (0 <? rxn); lia.
Qed.

(* it never sends more frames than credits + 1 and never drives the credits negative *)
Lemma process_tx_bounds : forall fuel mtu buf credits rxn st frames,
  0 <= credits -> process_tx true fuel mtu buf credits rxn = Some (st, frames) ->
  Z.of_nat (length frames) <= credits + (if 0 <? rxn then 1 else 0) /\ 0 <= t_credits st <= credits.
Proof.
  induction fuel as [|f IH]; intros mtu buf credits rxn st frames Hc H; [discriminate|].
  cbn [process_tx] in H.
  destruct (((0 <? buf) && (0 <? credits)) || (0 <? rxn)) eqn:Cond.
  2:{ inversion H; subst. simpl. destruct (0 <? rxn); lia. }
  destruct (0 <? rxn) eqn:R.
  - destruct ((0 <? buf) && (0 <? credits)) eqn:BC.
    + apply andb_true_iff in BC. destruct BC as [_ C]. apply Z.ltb_lt in C.
      destruct (process_tx true f mtu (buf - take (mtu - 1) buf) (credits - 1) 0) as [[st1 fr1]|] eqn:P; [|discriminate].
      inversion H; subst. apply IH in P; [|lia]. simpl in P. cbn [length]. rewrite Nat2Z.inj_succ. lia.
    + destruct (process_tx true f mtu (buf - 0) credits 0) as [[st1 fr1]|] eqn:P; [|discriminate].
      inversion H; subst. apply IH in P; [|lia]. simpl in P. cbn [length]. rewrite Nat2Z.inj_succ. lia.
  - rewrite orb_false_r in Cond. apply andb_true_iff in Cond. destruct Cond as [_ C]. apply Z.ltb_lt in C.
    destruct (process_tx true f mtu (buf - take mtu buf) (credits - 1) 0) as [[st1 fr1]|] eqn:P; [|discriminate].
    inversion H; subst. apply IH in P; [|lia]. simpl in P. cbn [length]. rewrite Nat2Z.inj_succ. lia.
Qed.

(* "spend a credit only for a non-empty payload" loops for ever as soon as mtu <= 0: with
   data buffered and one credit, no amount of fuel is enough *)
Lemma process_tx_payload_rule_refuted : forall fuel mtu buf credits,
  mtu <= 0 -> 0 < buf -> 0 < credits -> take mtu buf = 0 ->
  process_tx false fuel mtu buf credits 0 = None.
Proof.
  induction fuel as [|f IH]; intros mtu buf credits Hm Hb Hc Ht; [reflexivity|].
  cbn [process_tx].
  assert (B : (0 <? buf) = true) by (apply Z.ltb_lt; lia).
  assert (C : (0 <? credits) = true) by (apply Z.ltb_lt; lia).
  rewrite B, C. change (0 <? 0) with false. cbn [andb orb]. rewrite Ht.
  change (0 <? 0) with false. cbv beta iota zeta.
  rewrite Z.sub_0_r. rewrite (IH mtu buf credits Hm Hb Hc Ht). reflexivity.
Qed.

Lemma take_zero : forall buf, take 0 buf = 0 \/ buf < 0.
Proof. intros buf. unfold take. simpl. destruct (Z.min_spec 0 buf) as [[? ->]|[? ->]]; lia. Qed.

(* LE credit-based output: at most one PDU per credit, credits never negative, whatever the
   peer's MPS (an MPS of 0 burns every credit without progress - hence D17f/D17g - but still
   stops) *)
Lemma coc_output_spec : forall fuel mps sdu credits,
  0 <= credits -> credits + 1 <= Z.of_nat fuel ->
  exists rest c n, coc_output true fuel mps sdu credits = Some (rest, c, n) /\
                   0 <= c /\ n + c = credits /\ 0 <= n.
Proof.
  induction fuel as [|f IH]; intros mps sdu credits Hc Hf; [simpl in Hf; lia|].
  cbn [coc_output]. rewrite Nat2Z.inj_succ in Hf.
  destruct ((0 <? credits) && (0 <? sdu)) eqn:G.
  - apply andb_true_iff in G. destruct G as [G _]. apply Z.ltb_lt in G.
    destruct (IH mps (sdu - Z.min (Z.max mps 0) sdu) (credits - 1) ltac:(lia) ltac:(lia)) as [l [c [n [E [H1 [H2 H3]]]]]].
    rewrite E. exists l, c, (n + 1). repeat split; lia.
  - exists sdu, credits, 0. repeat split; lia.
Qed.

(* with "credits >= 0" one PDU too many is sent: the credits go negative *)
Lemma coc_output_boundary_refuted :
  coc_output false 10 23 100 2 = Some (31, -1, 3).
Proof. vm_compute. reflexivity. Qed.
