(* Comparison of function skeletons (Gen/C08Shape.v against Model/L2capShape.v): a checker
   that reports the first difference, and its soundness. *)
From Coq Require Import List String Bool Arith.
Import ListNotations.
Open Scope string_scope.

(* first differing line: (index, line in the source, line in the recorded reading) *)
Fixpoint line_diff (i : nat) (a b : list string) : option (nat * string * string) :=
  match a, b with
  | [], [] => None
  | x :: a', y :: b' => if String.eqb x y then line_diff (S i) a' b' else Some (i, x, y)
  | x :: _, [] => Some (i, x, "<end of function in the recorded reading>")
  | [], y :: _ => Some (i, "<end of function in the source>", y)
  end.

Fixpoint shape_diff (a b : list (string * list string))
  : option (string * nat * string * string) :=
  match a, b with
  | [], [] => None
  | (f, la) :: a', (g, lb) :: b' =>
      if String.eqb f g then
        match line_diff 0 la lb with
        | Some (i, x, y) => Some (f, i, x, y)
        | None => shape_diff a' b'
        end
      else Some (f, 0%nat, "<function missing or out of order>", g)
  | (f, _) :: _, [] => Some (f, 0%nat, "<function not in the recorded reading>", "")
  | [], (g, _) :: _ => Some (g, 0%nat, "<function not in the source>", "")
  end.

Lemma line_diff_sound a : forall i b, line_diff i a b = None -> a = b.
Proof.
  induction a as [|x a IH]; intros i [|y b] H; cbn in H; try discriminate; [reflexivity|].
  destruct (String.eqb x y) eqn:E; [|discriminate].
  apply String.eqb_eq in E. subst y. f_equal. eapply IH; eauto.
Qed.

Lemma shape_diff_sound a : forall b, shape_diff a b = None -> a = b.
Proof.
  induction a as [|[f la] a IH]; intros [|[g lb] b] H; cbn in H; try discriminate; [reflexivity|].
  destruct (String.eqb f g) eqn:E; [|discriminate].
  apply String.eqb_eq in E. subst g.
  destruct (line_diff 0 la lb) as [[[i x] y]|] eqn:L; [discriminate|].
  apply line_diff_sound in L. subst lb. f_equal. auto.
Qed.
