(* Proofs about Model/Ertm.v, part 1: segmentation / reassembly and sequence numbering. *)
From Coq Require Import ZArith List Bool Lia.
From BV Require Import Model.Crc16 Model.Ertm.
Import ListNotations.
Open Scope Z_scope.

Definition zlen {A} (l : list A) : Z := Z.of_nat (length l).

Lemma zlen_app {A} (a b : list A) : zlen (a ++ b) = zlen a + zlen b.
Proof. unfold zlen. rewrite app_length. lia. Qed.
Lemma zlen_nil {A} : zlen (@nil A) = 0. Proof. reflexivity. Qed.
Lemma zlen_cons {A} (x : A) l : zlen (x :: l) = 1 + zlen l.
Proof. unfold zlen. cbn [length]. lia. Qed.
Lemma zlen_nonneg {A} (l : list A) : 0 <= zlen l. Proof. unfold zlen. lia. Qed.
Lemma zlen_map {A B} (f : A -> B) l : zlen (map f l) = zlen l.
Proof. unfold zlen. now rewrite map_length. Qed.

(* ---------- reassembly as the receiver performs it, over a list of segments ------- *)
Fixpoint reasm (acc : list Z) (l : list seg) : list (list Z) * list Z :=
  match l with
  | [] => ([], acc)
  | g :: r =>
      if delivers (g_sar g)
      then let '(out, a) := reasm [] r in ((acc ++ g_data g) :: out, a)
      else reasm (acc ++ g_data g) r
  end.

Lemma reasm_app acc l1 l2 :
  reasm acc (l1 ++ l2) =
  let '(o1, a1) := reasm acc l1 in let '(o2, a2) := reasm a1 l2 in (o1 ++ o2, a2).
Proof.
  revert acc. induction l1 as [|g r IH]; intros acc; cbn [app reasm].
  - destruct (reasm acc l2); reflexivity.
  - destruct (delivers (g_sar g)).
    + rewrite IH. destruct (reasm [] r) as [o1 a1]. destruct (reasm a1 l2); reflexivity.
    + apply IH.
Qed.

Definition nodeliver (l : list seg) : bool :=
  forallb (fun g => negb (delivers (g_sar g))) l.

Lemma reasm_nodeliver l : forall acc,
  nodeliver l = true -> reasm acc l = ([], acc ++ concat (map g_data l)).
Proof.
  induction l as [|g r IH]; intros acc H; cbn.
  - now rewrite app_nil_r.
  - cbn in H. apply andb_true_iff in H as [H1 H2].
    destruct (delivers (g_sar g)); [discriminate|].
    rewrite IH by assumption. now rewrite <- app_assoc.
Qed.

(* ---------- shape of seg_loop / segment ---------- *)
Lemma seg_loop_nil f first mps total : seg_loop f first mps total [] = [].
Proof. destruct f; reflexivity. Qed.

Lemma seg_loop_false mps total : (1 <= mps)%nat -> forall fuel rest,
  rest <> [] -> (length rest <= fuel)%nat ->
  exists body last,
    seg_loop fuel false mps total rest = body ++ [last] /\
    nodeliver body = true /\ delivers (g_sar last) = true /\
    concat (map g_data (body ++ [last])) = rest.
Proof.
  intros Hm. induction fuel as [|f IH]; intros rest Hne Hlen.
  - destruct rest; [congruence | cbn in Hlen; lia].
  - destruct rest as [|x r]; [congruence|].
    cbn [seg_loop]. set (rest := x :: r) in *.
    destruct (Nat.leb (length rest) (length (firstn mps rest))) eqn:E.
    + apply Nat.leb_le in E. rewrite firstn_length in E.
      assert (Hle : (length rest <= mps)%nat) by lia.
      rewrite (skipn_all2 rest Hle), seg_loop_nil, (firstn_all2 rest Hle).
      exists [], (mkSeg SEND total rest). cbn. rewrite app_nil_r. auto.
    + apply Nat.leb_gt in E. rewrite firstn_length in E.
      assert (Hgt : (mps < length rest)%nat) by lia.
      assert (Hne' : skipn mps rest <> []).
      { intros H0. apply (f_equal (@length Z)) in H0. rewrite skipn_length in H0.
        cbn [length] in H0. lia. }
      assert (Hlen' : (length (skipn mps rest) <= f)%nat).
      { rewrite skipn_length. subst rest. cbn [length] in *. lia. }
      destruct (IH _ Hne' Hlen') as (body & last & Heq & Hnd & Hd & Hc).
      exists (mkSeg CONT total (firstn mps rest) :: body), last.
      rewrite Heq. repeat split; auto.
      cbn [app map concat g_data]. rewrite Hc. apply firstn_skipn.
Qed.

Lemma seg_loop_true_step f mps total x r :
  seg_loop (S f) true mps total (x :: r) =
  mkSeg START total (firstn mps (x :: r)) :: seg_loop f false mps total (skipn mps (x :: r)).
Proof. reflexivity. Qed.

Lemma segment_shape mps w : 1 <= mps ->
  exists body last,
    segment mps w = body ++ [last] /\ nodeliver body = true /\
    delivers (g_sar last) = true /\ concat (map g_data (body ++ [last])) = w.
Proof.
  intros Hm. unfold segment.
  destruct (Z.leb (Z.of_nat (length w)) mps) eqn:E.
  - exists [], (mkSeg UNSEG 0 w). cbn. rewrite app_nil_r. auto.
  - apply Z.leb_gt in E.
    assert (Hm' : (1 <= Z.to_nat mps)%nat) by lia.
    assert (Hgt : (Z.to_nat mps < length w)%nat) by lia.
    destruct w as [|x r]; [cbn in Hgt; lia|].
    remember (Z.of_nat (length (x :: r))) as total eqn:Ht.
    cbn [length]. rewrite seg_loop_true_step.
    assert (Hne' : skipn (Z.to_nat mps) (x :: r) <> []).
    { intros H0. apply (f_equal (@length Z)) in H0. rewrite skipn_length in H0.
      cbn [length] in *. lia. }
    assert (Hlen' : (length (skipn (Z.to_nat mps) (x :: r)) <= length r)%nat).
    { rewrite skipn_length. cbn [length] in *. lia. }
    destruct (seg_loop_false (Z.to_nat mps) total Hm' _ _ Hne' Hlen')
      as (body & last & Heq & Hnd & Hd & Hc).
    exists (mkSeg START total (firstn (Z.to_nat mps) (x :: r)) :: body), last.
    rewrite Heq. repeat split; auto.
    cbn [app map concat g_data]. rewrite Hc. apply firstn_skipn.
Qed.

Lemma segment_reasm mps w acc : 1 <= mps ->
  reasm acc (segment mps w) = ([acc ++ w], []).
Proof.
  intros Hm. destruct (segment_shape mps w Hm) as (body & last & Heq & Hnd & Hd & Hc).
  rewrite Heq, reasm_app, (reasm_nodeliver body acc Hnd). cbn [reasm]. rewrite Hd.
  rewrite map_app, concat_app in Hc. cbn in Hc. rewrite app_nil_r in Hc.
  now rewrite <- app_assoc, Hc.
Qed.

Lemma prefix_of_snoc {A} (body l m : list A) (last : A) :
  body ++ [last] = l ++ m -> m <> [] -> exists t, body = l ++ t.
Proof.
  intros H Hm. apply app_eq_app in H as [t [[H1 H2]|[H1 H2]]].
  - exists t. exact H1.
  - destruct t as [|y t].
    + exists []. rewrite app_nil_r in *. now subst.
    + cbn in H2. injection H2 as -> H3. symmetry in H3. apply app_eq_nil in H3 as [_ ->].
      congruence.
Qed.

Lemma segment_strict_prefix mps w l m : 1 <= mps ->
  segment mps w = l ++ m -> m <> [] -> nodeliver l = true.
Proof.
  intros Hm H Hne. destruct (segment_shape mps w Hm) as (body & last & Heq & Hnd & _ & _).
  rewrite Heq in H. destruct (prefix_of_snoc _ _ _ _ H Hne) as [t ->].
  unfold nodeliver in *. rewrite forallb_app in Hnd. now apply andb_true_iff in Hnd.
Qed.

(* all segments of a sequence of SDUs *)
Definition segs_of (mps : Z) (W : list (list Z)) : list seg := flat_map (segment mps) W.

Lemma segs_of_app mps W1 W2 : segs_of mps (W1 ++ W2) = segs_of mps W1 ++ segs_of mps W2.
Proof. apply flat_map_app. Qed.

Lemma reasm_all mps : 1 <= mps -> forall W, reasm [] (segs_of mps W) = (W, []).
Proof.
  intros Hm. induction W as [|w W IH]; [reflexivity|].
  cbn [segs_of flat_map]. rewrite reasm_app, (segment_reasm mps w [] Hm).
  fold (segs_of mps W). now rewrite IH.
Qed.

(* what has been delivered after any prefix of the segment stream is a prefix of the
   SDU sequence *)
Lemma reasm_prefix mps : 1 <= mps -> forall W l rest,
  segs_of mps W = l ++ rest -> exists j, fst (reasm [] l) = firstn j W.
Proof.
  intros Hm. induction W as [|w W IH]; intros l rest H.
  - cbn in H. symmetry in H. apply app_eq_nil in H as [-> _]. now exists 0%nat.
  - cbn [segs_of flat_map] in H. fold (segs_of mps W) in H.
    apply app_eq_app in H as [t [[H1 H2]|[H1 H2]]].
    + destruct t as [|y t].
      * rewrite app_nil_r in H1. subst l. rewrite (segment_reasm mps w [] Hm).
        now exists 1%nat.
      * assert (Hnd : nodeliver l = true)
          by (eapply segment_strict_prefix; eauto; congruence).
        rewrite (reasm_nodeliver l [] Hnd). now exists 0%nat.
    + subst l. destruct (IH _ _ H2) as [j Hj].
      rewrite reasm_app, (segment_reasm mps w [] Hm).
      destruct (reasm [] t) as [o a]. cbn in *. exists (S j). now rewrite Hj.
Qed.

(* every payload fits the peer's MPS *)
Lemma seg_loop_le_mps mps total : forall fuel first rest,
  Forall (fun g => (length (g_data g) <= mps)%nat) (seg_loop fuel first mps total rest).
Proof.
  induction fuel as [|f IH]; intros first rest; cbn [seg_loop]; [constructor|].
  destruct rest as [|x r]; [constructor|]. constructor; [|apply IH].
  cbn [g_data]. rewrite firstn_length. lia.
Qed.

Lemma segment_le_mps mps w : 0 <= mps ->
  Forall (fun g => zlen (g_data g) <= mps) (segment mps w).
Proof.
  intros Hm. unfold segment. destruct (Z.leb (Z.of_nat (length w)) mps) eqn:E.
  - apply Z.leb_le in E. constructor; [exact E|constructor].
  - eapply Forall_impl; [|apply seg_loop_le_mps]. intros g Hg. unfold zlen. cbv beta in Hg. lia.
Qed.

(* ---------- numbering ---------- *)
Fixpoint number (k : Z) (l : list seg) : list pdu :=
  match l with
  | [] => []
  | g :: r => mkPdu g (k mod MAX_SEQ_NUM) :: number (k + 1) r
  end.

Lemma assign_number l : forall k,
  assign (k mod MAX_SEQ_NUM) l = (number k l, (k + zlen l) mod MAX_SEQ_NUM).
Proof.
  induction l as [|g r IH]; intros k; cbn [assign number].
  - rewrite zlen_nil, Z.add_0_r. reflexivity.
  - rewrite Zplus_mod_idemp_l, IH, zlen_cons. do 2 f_equal. lia.
Qed.

Lemma number_app l1 l2 : forall k,
  number k (l1 ++ l2) = number k l1 ++ number (k + zlen l1) l2.
Proof.
  induction l1 as [|g r IH]; intros k; cbn [app number].
  - now rewrite zlen_nil, Z.add_0_r.
  - rewrite IH, zlen_cons. do 3 f_equal. lia.
Qed.

Lemma number_length l : forall k, length (number k l) = length l.
Proof. induction l; intros; cbn; auto. Qed.

Lemma number_segs l : forall k, map p_seg (number k l) = l.
Proof. induction l as [|g r IH]; intros; cbn; [|rewrite IH]; auto. Qed.

Lemma number_split l : forall k p1 p2,
  number k l = p1 ++ p2 ->
  p1 = number k (map p_seg p1) /\ p2 = number (k + zlen p1) (map p_seg p2).
Proof.
  induction l as [|g r IH]; intros k p1 p2 H; cbn [number] in H.
  - symmetry in H. apply app_eq_nil in H as [-> ->]. cbn. auto.
  - destruct p1 as [|q p1]; cbn [app] in H.
    + subst p2. cbn [map number zlen length]. rewrite Z.add_0_r. split; [reflexivity|].
      cbn [p_seg]. f_equal. now rewrite number_segs.
    + injection H as <- H. destruct (IH _ _ _ H) as [H1 H2].
      cbn [map number p_seg]. rewrite <- H1. split; [reflexivity|].
      rewrite zlen_cons. replace (k + (1 + zlen p1)) with (k + 1 + zlen p1) by lia. exact H2.
Qed.

Lemma number_head k l p1 q p2 :
  number k l = p1 ++ q :: p2 -> p_tx q = (k + zlen p1) mod MAX_SEQ_NUM.
Proof.
  intros H. apply number_split in H as [_ H]. cbn [map number] in H. now injection H as -> _.
Qed.

Lemma number_txs l : forall k,
  map p_tx (number k l) =
  map (fun i => (k + Z.of_nat i) mod MAX_SEQ_NUM) (seq 0 (length l)).
Proof.
  induction l as [|g r IH]; intros k; cbn [number map length seq]; [reflexivity|].
  cbn [p_tx]. rewrite Z.add_0_r. f_equal. rewrite IH, <- seq_shift, map_map.
  apply map_ext. intros i. f_equal. lia.
Qed.
