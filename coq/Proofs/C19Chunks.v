(* Facts about cutting a byte string into pieces of at most n bytes (Model/C19Chunks.v). *)
From Coq Require Import ZArith List Bool Lia.
From BV Require Import Model.C19Chunks.
Import ListNotations.
Open Scope Z_scope.

Lemma zlen_nonneg : forall A (l : list A), 0 <= zlen l.
Proof. intros. unfold zlen. lia. Qed.

Lemma zlen_app : forall A (a b : list A), zlen (a ++ b) = zlen a + zlen b.
Proof. intros. unfold zlen. rewrite app_length. lia. Qed.

Lemma zlen_cons : forall A (x : A) l, zlen (x :: l) = 1 + zlen l.
Proof. intros. unfold zlen. simpl length. lia. Qed.

Lemma zlen_nil : forall A, zlen (@nil A) = 0.
Proof. reflexivity. Qed.

Lemma zlen_firstn : forall A n (l : list A), (n <= length l)%nat -> zlen (firstn n l) = Z.of_nat n.
Proof. intros. unfold zlen. rewrite firstn_length. lia. Qed.

Lemma zlen_skipn : forall A n (l : list A), (n <= length l)%nat -> zlen (skipn n l) = zlen l - Z.of_nat n.
Proof. intros. unfold zlen. rewrite skipn_length. lia. Qed.

(* whatever the fuel and the piece size: nothing lost, nothing reordered *)
Lemma chunks_concat : forall fuel n p r, chunks fuel n p = Some r -> concat r = p.
Proof.
  induction fuel as [|f IH]; intros n p r H; destruct p as [|z p']; simpl in H.
  - inversion H. reflexivity.
  - discriminate.
  - inversion H. reflexivity.
  - destruct (chunks f n (skipn n (z :: p'))) as [r'|] eqn:E; [|discriminate].
    inversion H; subst r. simpl concat. rewrite (IH _ _ _ E). apply firstn_skipn.
Qed.

(* with pieces of at least one byte, fuel = length is enough *)
Lemma chunks_some : forall fuel n p,
  (1 <= n)%nat -> (length p <= fuel)%nat -> exists r, chunks fuel n p = Some r.
Proof.
  induction fuel as [|f IH]; intros n p Hn Hl; destruct p as [|z p'].
  - exists []. reflexivity.
  - simpl in Hl. lia.
  - exists []. reflexivity.
  - destruct (IH n (skipn n (z :: p')) Hn) as [r' E].
    + rewrite skipn_length. simpl length in *. lia.
    + exists (firstn n (z :: p') :: r'). simpl. simpl in E. rewrite E. reflexivity.
Qed.

(* every piece is non-empty and at most n bytes long *)
Lemma chunks_pieces : forall fuel n p r,
  (1 <= n)%nat -> chunks fuel n p = Some r ->
  Forall (fun c => c <> [] /\ (length c <= n)%nat) r.
Proof.
  induction fuel as [|f IH]; intros n p r Hn H; destruct p as [|z p']; simpl in H.
  - inversion H. constructor.
  - discriminate.
  - inversion H. constructor.
  - destruct (chunks f n (skipn n (z :: p'))) as [r'|] eqn:E; [|discriminate].
    inversion H; subst r. constructor.
    + split.
      * destruct n; [lia|]. simpl. discriminate.
      * rewrite firstn_length. lia.
    + exact (IH _ _ _ Hn E).
Qed.

(* number of pieces: ceil(len / n) *)
Lemma chunks_count : forall fuel n p r,
  (1 <= n)%nat -> chunks fuel n p = Some r ->
  zlen r = (zlen p + Z.of_nat n - 1) / Z.of_nat n.
Proof.
  induction fuel as [|f IH]; intros n p r Hn H; destruct p as [|z p']; simpl in H.
  - inversion H. rewrite !zlen_nil. symmetry. apply Z.div_small. lia.
  - discriminate.
  - inversion H. rewrite !zlen_nil. symmetry. apply Z.div_small. lia.
  - destruct (chunks f n (skipn n (z :: p'))) as [r'|] eqn:E; [|discriminate].
    inversion H; subst r. rewrite zlen_cons. rewrite (IH _ _ _ Hn E).
    set (p := z :: p') in *.
    assert (Hp : 1 <= zlen p) by (unfold p; rewrite zlen_cons; pose proof (zlen_nonneg _ p'); lia).
    destruct (Nat.le_gt_cases (length p) n) as [Hle|Hgt].
    + rewrite skipn_all2 by exact Hle. rewrite zlen_nil.
      rewrite (Z.div_small (0 + Z.of_nat n - 1)) by lia.
      apply Z.div_unique with (r := zlen p - 1); unfold zlen in *; lia.
    + rewrite zlen_skipn by lia.
      replace (zlen p + Z.of_nat n - 1) with ((zlen p - Z.of_nat n + Z.of_nat n - 1) + 1 * Z.of_nat n) by lia.
      rewrite Z.div_add by lia. lia.
Qed.

(* with a piece size of zero the loop never ends: out of fuel for every fuel *)
Lemma chunks_zero_stuck : forall fuel p, p <> [] -> chunks fuel 0 p = None.
Proof.
  induction fuel as [|f IH]; intros p Hp; destruct p as [|z p']; try congruence; simpl.
  - reflexivity.
  - change (skipn 0 (z :: p')) with (z :: p') in *.
    pose proof (IH (z :: p') Hp) as E. simpl in E. rewrite E. reflexivity.
Qed.
