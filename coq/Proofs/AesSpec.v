(* C14 - the built-in T-table AES encryption equals the FIPS-197 cipher (SubBytes, ShiftRows,
   MixColumns, AddRoundKey on a 16-byte state) for every block and every list of round keys,
   and the AES-128 key expansion loop equals FIPS-197 KeyExpansion for every 16-byte key.
   The FIPS-197 definitions are transcribed here (section numbers in comments). *)
From Coq Require Import ZArith List Bool Lia ZifyBool ZifyNat.
From BV Require Import Gen.C14Tables Model.CryptoBytes Model.Aes Proofs.CryptoBytes Proofs.Aes.
Import ListNotations.
Open Scope Z_scope.

Ltac Zify.zify_post_hook ::= Z.div_mod_to_equations.

(* ------------------------------------------------------------------ FIPS-197 section 5.1 *)
(* The state is the 16 input bytes in input order: byte 4c + r is row r of column c (3.4). *)
Definition sub_bytes (s : list Z) : list Z := map sbox_ref s.                     (* 5.1.1 *)

Definition shift_rows (s : list Z) : list Z :=                                    (* 5.1.2 *)
  match s with
  | [s00; s10; s20; s30; s01; s11; s21; s31; s02; s12; s22; s32; s03; s13; s23; s33] =>
      [s00; s11; s22; s33; s01; s12; s23; s30; s02; s13; s20; s31; s03; s10; s21; s32]
  | _ => []
  end.

Definition mul2 (a : Z) : Z := xtime a.                                           (* {02} . a *)
Definition mul3 (a : Z) : Z := Z.lxor (xtime a) a.                                (* {03} . a *)

Definition mix_column (a0 a1 a2 a3 : Z) : list Z :=                               (* 5.1.3 (5.6) *)
  [ Z.lxor (Z.lxor (Z.lxor (mul2 a0) (mul3 a1)) a2) a3;
    Z.lxor (Z.lxor (Z.lxor a0 (mul2 a1)) (mul3 a2)) a3;
    Z.lxor (Z.lxor (Z.lxor a0 a1) (mul2 a2)) (mul3 a3);
    Z.lxor (Z.lxor (Z.lxor (mul3 a0) a1) a2) (mul2 a3) ].

Definition mix_columns (s : list Z) : list Z :=
  match s with
  | [a0; a1; a2; a3; b0; b1; b2; b3; c0; c1; c2; c3; d0; d1; d2; d3] =>
      mix_column a0 a1 a2 a3 ++ mix_column b0 b1 b2 b3 ++ mix_column c0 c1 c2 c3 ++ mix_column d0 d1 d2 d3
  | _ => []
  end.

Definition add_round_key (s k : list Z) : list Z := xor_zip s k.                  (* 5.1.4 *)

(* Figure 5: rounds 1 .. Nr-1 with MixColumns, the final round without *)
Fixpoint cipher_rounds (s : list Z) (ks : list (list Z)) : list Z :=
  match ks with
  | [] => []
  | [k] => add_round_key (shift_rows (sub_bytes s)) k
  | k :: r => cipher_rounds (add_round_key (mix_columns (shift_rows (sub_bytes s))) k) r
  end.
Definition cipher (round_keys : list (list Z)) (input : list Z) : list Z :=
  match round_keys with
  | [] => []
  | k0 :: r => cipher_rounds (add_round_key input k0) r
  end.

(* ------------------------------------------------------------------ words <-> bytes *)
Definition wbytes (w : Z) : list Z := [byte_of w 24; byte_of w 16; byte_of w 8; byte_of w 0].
Definition st_bytes (t : Z * Z * Z * Z) : list Z :=
  let '(t0, t1, t2, t3) := t in wbytes t0 ++ wbytes t1 ++ wbytes t2 ++ wbytes t3.

Lemma byte_of_lxor : forall a b k, byte_of (Z.lxor a b) k = Z.lxor (byte_of a k) (byte_of b k).
Proof.
  intros. unfold byte_of. rewrite Z.shiftr_lxor.
  apply Z.bits_inj'. intros n Hn.
  rewrite Z.lxor_spec, !Z.land_spec, Z.lxor_spec.
  destruct (Z.testbit 255 n); rewrite ?andb_true_r, ?andb_false_r; reflexivity.
Qed.

Lemma byte_of_range : forall w k, 0 <= byte_of w k < 256.
Proof.
  intros. unfold byte_of. change 255 with (Z.ones 8). rewrite Z.land_ones by lia.
  apply Z.mod_pos_bound. lia.
Qed.

(* what each T-table holds in each byte lane, in terms of the S-box table (finite checks) *)
Definition lane_is (t : list Z) (sh : Z) (f : Z -> Z) : bool :=
  forallb (fun x => byte_of (tbl t x) sh =? f (tbl aes_S x)) all_bytes.

Lemma lane_spec : forall t sh f, lane_is t sh f = true ->
  forall w k, byte_of (tbl t (byte_of w k)) sh = f (sbox_ref (byte_of w k)).
Proof.
  intros t sh f H w k. pose proof (byte_of_range w k) as Hr.
  rewrite <- (table_is_spec _ _ sbox_is_fips197) by assumption.
  apply Z.eqb_eq. apply (byte_cases (fun x => byte_of (tbl t x) sh =? f (tbl aes_S x))); assumption.
Qed.

Definition id_Z (a : Z) : Z := a.

Lemma T1_lanes : lane_is aes_T1 24 mul2 = true /\ lane_is aes_T1 16 id_Z = true /\
                 lane_is aes_T1 8 id_Z = true /\ lane_is aes_T1 0 mul3 = true.
Proof. repeat split; vm_compute; reflexivity. Qed.
Lemma T2_lanes : lane_is aes_T2 24 mul3 = true /\ lane_is aes_T2 16 mul2 = true /\
                 lane_is aes_T2 8 id_Z = true /\ lane_is aes_T2 0 id_Z = true.
Proof. repeat split; vm_compute; reflexivity. Qed.
Lemma T3_lanes : lane_is aes_T3 24 id_Z = true /\ lane_is aes_T3 16 mul3 = true /\
                 lane_is aes_T3 8 mul2 = true /\ lane_is aes_T3 0 id_Z = true.
Proof. repeat split; vm_compute; reflexivity. Qed.
Lemma T4_lanes : lane_is aes_T4 24 id_Z = true /\ lane_is aes_T4 16 id_Z = true /\
                 lane_is aes_T4 8 mul3 = true /\ lane_is aes_T4 0 mul2 = true.
Proof. repeat split; vm_compute; reflexivity. Qed.

Definition T1_24 := lane_spec _ _ _ (proj1 T1_lanes).
Definition T1_16 := lane_spec _ _ _ (proj1 (proj2 T1_lanes)).
Definition T1_8 := lane_spec _ _ _ (proj1 (proj2 (proj2 T1_lanes))).
Definition T1_0 := lane_spec _ _ _ (proj2 (proj2 (proj2 T1_lanes))).
Definition T2_24 := lane_spec _ _ _ (proj1 T2_lanes).
Definition T2_16 := lane_spec _ _ _ (proj1 (proj2 T2_lanes)).
Definition T2_8 := lane_spec _ _ _ (proj1 (proj2 (proj2 T2_lanes))).
Definition T2_0 := lane_spec _ _ _ (proj2 (proj2 (proj2 T2_lanes))).
Definition T3_24 := lane_spec _ _ _ (proj1 T3_lanes).
Definition T3_16 := lane_spec _ _ _ (proj1 (proj2 T3_lanes)).
Definition T3_8 := lane_spec _ _ _ (proj1 (proj2 (proj2 T3_lanes))).
Definition T3_0 := lane_spec _ _ _ (proj2 (proj2 (proj2 T3_lanes))).
Definition T4_24 := lane_spec _ _ _ (proj1 T4_lanes).
Definition T4_16 := lane_spec _ _ _ (proj1 (proj2 T4_lanes)).
Definition T4_8 := lane_spec _ _ _ (proj1 (proj2 (proj2 T4_lanes))).
Definition T4_0 := lane_spec _ _ _ (proj2 (proj2 (proj2 T4_lanes))).

(* ------------------------------------------------------------------ one round *)
Lemma wbytes_xor5 : forall a b c d e,
  wbytes (xor5 a b c d e) =
  [ Z.lxor (Z.lxor (Z.lxor (Z.lxor (byte_of a 24) (byte_of b 24)) (byte_of c 24)) (byte_of d 24)) (byte_of e 24);
    Z.lxor (Z.lxor (Z.lxor (Z.lxor (byte_of a 16) (byte_of b 16)) (byte_of c 16)) (byte_of d 16)) (byte_of e 16);
    Z.lxor (Z.lxor (Z.lxor (Z.lxor (byte_of a 8) (byte_of b 8)) (byte_of c 8)) (byte_of d 8)) (byte_of e 8);
    Z.lxor (Z.lxor (Z.lxor (Z.lxor (byte_of a 0) (byte_of b 0)) (byte_of c 0)) (byte_of d 0)) (byte_of e 0) ].
Proof. intros. unfold wbytes, xor5. rewrite !byte_of_lxor. reflexivity. Qed.

Lemma round_column : forall a b c d k,
  wbytes (xor5 (tbl aes_T1 (byte_of a 24)) (tbl aes_T2 (byte_of b 16))
               (tbl aes_T3 (byte_of c 8)) (tbl aes_T4 (byte_of d 0)) k) =
  xor_zip (mix_column (sbox_ref (byte_of a 24)) (sbox_ref (byte_of b 16))
                      (sbox_ref (byte_of c 8)) (sbox_ref (byte_of d 0))) (wbytes k).
Proof.
  intros. rewrite wbytes_xor5.
  rewrite T1_24, T1_16, T1_8, T1_0, T2_24, T2_16, T2_8, T2_0,
          T3_24, T3_16, T3_8, T3_0, T4_24, T4_16, T4_8, T4_0.
  reflexivity.
Qed.

Lemma round_spec : forall t k,
  st_bytes (aes_round t k) =
  add_round_key (mix_columns (shift_rows (sub_bytes (st_bytes t)))) (st_bytes k).
Proof.
  intros [[[t0 t1] t2] t3] [[[k0 k1] k2] k3].
  unfold aes_round. cbn [st_bytes].
  rewrite !round_column. reflexivity.
Qed.

(* ------------------------------------------------------------------ the final round *)
Lemma sbox_byte : forall w k, Z.land (tbl aes_S (byte_of w k)) 255 = sbox_ref (byte_of w k).
Proof.
  intros w k. pose proof (byte_of_range w k) as Hr.
  rewrite <- (table_is_spec _ _ sbox_is_fips197) by assumption.
  apply Z.eqb_eq.
  apply (byte_cases (fun x => Z.land (tbl aes_S x) 255 =? tbl aes_S x)); [vm_compute; reflexivity|assumption].
Qed.

Lemma land_lxor_l : forall a b c, Z.land (Z.lxor a b) c = Z.lxor (Z.land a c) (Z.land b c).
Proof.
  intros. apply Z.bits_inj'. intros n Hn.
  rewrite Z.lxor_spec, !Z.land_spec, Z.lxor_spec.
  destruct (Z.testbit c n); rewrite ?andb_true_r, ?andb_false_r; reflexivity.
Qed.

Lemma last_byte : forall w k tt sh,
  Z.land (Z.lxor (tbl aes_S (byte_of w k)) (Z.shiftr tt sh)) 255 =
  Z.lxor (sbox_ref (byte_of w k)) (byte_of tt sh).
Proof.
  intros. rewrite land_lxor_l, sbox_byte. reflexivity.
Qed.

Lemma last_spec : forall t k,
  aes_last t k = add_round_key (shift_rows (sub_bytes (st_bytes t))) (st_bytes k).
Proof.
  intros [[[t0 t1] t2] t3] [[[k0 k1] k2] k3].
  unfold aes_last. cbn [st_bytes wbytes app].
  rewrite <- (Z.shiftr_0_r k0) at 4. rewrite <- (Z.shiftr_0_r k1) at 4.
  rewrite <- (Z.shiftr_0_r k2) at 4. rewrite <- (Z.shiftr_0_r k3) at 4.
  rewrite !last_byte. reflexivity.
Qed.

Lemma rounds_spec : forall ks t,
  aes_rounds t ks = cipher_rounds (st_bytes t) (map st_bytes ks).
Proof.
  induction ks as [|k ks IH]; intros t; [reflexivity|].
  destruct ks as [|k' ks'].
  - cbn [aes_rounds map cipher_rounds]. apply last_spec.
  - change (aes_rounds t (k :: k' :: ks')) with (aes_rounds (aes_round t k) (k' :: ks')).
    rewrite IH. change (map st_bytes (k :: k' :: ks')) with (st_bytes k :: map st_bytes (k' :: ks')).
    cbn [cipher_rounds map]. rewrite round_spec. reflexivity.
Qed.

(* ------------------------------------------------------------------ the whole block *)
Lemma wbytes_lxor : forall a b, wbytes (Z.lxor a b) = xor_zip (wbytes a) (wbytes b).
Proof. intros. unfold wbytes. rewrite !byte_of_lxor. reflexivity. Qed.

Lemma wbytes_be_int4 : forall b0 b1 b2 b3, bytes_ok [b0; b1; b2; b3] = true ->
  wbytes (be_int [b0; b1; b2; b3]) = [b0; b1; b2; b3].
Proof.
  intros b0 b1 b2 b3 H. cbn [bytes_ok forallb] in H.
  rewrite !andb_true_iff in H. destruct H as (H0 & H1 & H2 & H3 & _).
  apply byte_ok_iff in H0, H1, H2, H3.
  unfold be_int. cbn [fold_left]. unfold wbytes, byte_of.
  change 255 with (Z.ones 8). rewrite !Z.land_ones by lia. rewrite !Z.shiftr_div_pow2 by lia.
  change (2 ^ 24) with 16777216. change (2 ^ 16) with 65536. change (2 ^ 8) with 256. change (2 ^ 0) with 1.
  repeat f_equal; lia.
Qed.

Theorem aes_encrypt_is_fips197_cipher : forall ke pt,
  length pt = 16%nat -> bytes_ok pt = true -> (2 <= length ke)%nat ->
  aes_encrypt ke pt = Some (cipher (map st_bytes ke) pt).
Proof.
  intros ke pt Hl Hok Hke.
  do 16 (destruct pt as [|? pt]; [discriminate|]). destruct pt; [|discriminate].
  destruct ke as [|[[[k0 k1] k2] k3] ks]; [simpl in Hke; lia|].
  unfold aes_encrypt. change (len _ =? 16) with true. cbn [negb]. f_equal.
  rewrite rounds_spec. cbn [map cipher]. f_equal.
  cbn [Nat.mul Nat.add skipn firstn]. cbn [st_bytes].
  rewrite !wbytes_lxor.
  cbn [bytes_ok forallb] in Hok. rewrite !andb_true_iff in Hok.
  rewrite !wbytes_be_int4 by (cbn [bytes_ok forallb]; rewrite !andb_true_iff; tauto).
  reflexivity.
Qed.

(* ------------------------------------------------------------------ FIPS-197 section 5.2 *)
(* KeyExpansion, words are 4-byte lists [a0; a1; a2; a3]:
     w[i] = key word i                                   for i < Nk
     temp = w[i-1]
     if i mod Nk = 0:            temp = SubWord(RotWord(temp)) xor Rcon[i/Nk]
     else if Nk > 6, i mod Nk = 4: temp = SubWord(temp)
     w[i] = w[i-Nk] xor temp                              for Nk <= i < Nb(Nr+1) *)
Definition rot_word (w : list Z) : list Z :=
  match w with [a0; a1; a2; a3] => [a1; a2; a3; a0] | _ => [] end.
Definition sub_word_ref (w : list Z) : list Z := map sbox_ref w.
Definition Rcon (j : nat) : list Z := [nth (j - 1) (rcon_ref 10 1) 0; 0; 0; 0].   (* [x^(j-1), 0, 0, 0] *)

Definition next_word (nk : nat) (w : list (list Z)) : list Z :=
  let i := length w in
  let temp := last w [] in
  let temp' :=
    if Nat.eqb (i mod nk) 0 then xor_zip (sub_word_ref (rot_word temp)) (Rcon (i / nk))
    else if Nat.ltb 6 nk && Nat.eqb (i mod nk) 4 then sub_word_ref temp
    else temp in
  xor_zip (nth (i - nk) w []) temp'.

Fixpoint key_expansion (fuel nk : nat) (w : list (list Z)) : list (list Z) :=
  match fuel with
  | O => w
  | S f => key_expansion f nk (w ++ [next_word nk w])
  end.

Fixpoint words4 (n : nat) (key : list Z) : list (list Z) :=
  match n with O => [] | S n' => firstn 4 key :: words4 n' (skipn 4 key) end.

(* AES-128: Nk = 4, Nr = 10, 44 words *)
Definition key_schedule_128 (key : list Z) : list (list Z) := key_expansion 40 4 (words4 4 key).

Fixpoint round_keys_of (ws : list (list Z)) : list (list Z) :=
  match ws with
  | a :: b :: c :: d :: r => (a ++ b ++ c ++ d) :: round_keys_of r
  | _ => []
  end.

(* ------------------------------------------------------------------ the key-expansion loop *)
Definition lane_shift_ok (s : Z) : bool :=
  forallb (fun jk => byte_of (Z.shiftl s (fst jk)) (snd jk) =? (if fst jk =? snd jk then s else 0))
          [(24, 24); (24, 16); (24, 8); (24, 0); (16, 24); (16, 16); (16, 8); (16, 0);
           (8, 24); (8, 16); (8, 8); (8, 0)].

Lemma lane_shift : forall s, 0 <= s < 256 ->
  wbytes (Z.shiftl s 24) = [s; 0; 0; 0] /\ wbytes (Z.shiftl s 16) = [0; s; 0; 0] /\
  wbytes (Z.shiftl s 8) = [0; 0; s; 0] /\ wbytes s = [0; 0; 0; s].
Proof.
  intros s Hs.
  apply (byte_cases (fun s => list_eqb (wbytes (Z.shiftl s 24)) [s; 0; 0; 0] &&
                              list_eqb (wbytes (Z.shiftl s 16)) [0; s; 0; 0] &&
                              list_eqb (wbytes (Z.shiftl s 8)) [0; 0; s; 0] &&
                              list_eqb (wbytes s) [0; 0; 0; s])) in Hs.
  - rewrite !andb_true_iff in Hs. destruct Hs as (((H1 & H2) & H3) & H4).
    apply list_eqb_eq in H1, H2, H3, H4. auto.
  - vm_compute. reflexivity.
Qed.

Lemma sbox_ref_range : forall w k, 0 <= sbox_ref (byte_of w k) < 256.
Proof.
  intros w k. pose proof (byte_of_range w k) as Hr.
  apply (byte_cases (fun x => (0 <=? sbox_ref x) && (sbox_ref x <? 256))) in Hr; [lia|].
  vm_compute. reflexivity.
Qed.

Lemma S_is_ref : forall w k, tbl aes_S (byte_of w k) = sbox_ref (byte_of w k).
Proof. intros. apply (table_is_spec _ _ sbox_is_fips197). apply byte_of_range. Qed.

Lemma wbytes_sub_rot : forall tt rc, 0 <= rc < 256 ->
  wbytes (sub_rot tt rc) = xor_zip (sub_word_ref (rot_word (wbytes tt))) [rc; 0; 0; 0].
Proof.
  intros tt rc Hrc. unfold sub_rot. rewrite !wbytes_lxor, !S_is_ref.
  destruct (lane_shift _ (sbox_ref_range tt 16)) as (A1 & _).
  destruct (lane_shift _ (sbox_ref_range tt 8)) as (_ & A2 & _).
  destruct (lane_shift _ (sbox_ref_range tt 0)) as (_ & _ & A3 & _).
  destruct (lane_shift _ (sbox_ref_range tt 24)) as (_ & _ & _ & A4).
  destruct (lane_shift _ Hrc) as (A5 & _).
  rewrite A1, A2, A3, A4, A5.
  cbn [wbytes rot_word sub_word_ref map xor_zip]. rewrite !Z.lxor_0_r, !Z.lxor_0_l. reflexivity.
Qed.

Lemma rcon_model : forall rc, (rc < 10)%nat ->
  nth rc aes_RCON 0 = nth rc (rcon_ref 10 1) 0 /\ 0 <= nth rc aes_RCON 0 < 256.
Proof.
  intros rc H.
  do 10 (destruct rc as [|rc]; [vm_compute; repeat split; discriminate|]). lia.
Qed.

Lemma last_app_ne : forall (P l : list (list Z)), l <> [] -> last (P ++ l) [] = last l [].
Proof.
  induction P as [|x P IH]; intros l Hl; [reflexivity|].
  cbn [app]. destruct (P ++ l) eqn:E.
  - apply app_eq_nil in E. destruct E. contradiction.
  - rewrite <- E. cbn [last]. rewrite E. rewrite <- E. apply IH. assumption.
Qed.

Lemma next_word_128 : forall P l rc k,
  length P = (4 * rc)%nat -> length l = (4 + k)%nat -> (k < 4)%nat ->
  next_word 4 (P ++ l) =
  xor_zip (nth k l [])
          (if Nat.eqb k 0 then xor_zip (sub_word_ref (rot_word (last l []))) (Rcon (S rc)) else last l []).
Proof.
  intros P l rc k HP Hl Hk. unfold next_word.
  assert (Hne : l <> []) by (destruct l; [simpl in Hl; lia|discriminate]).
  rewrite app_length, HP, Hl.
  replace ((4 * rc + (4 + k)) mod 4)%nat with k by lia.
  replace ((4 * rc + (4 + k)) / 4)%nat with (S rc) by lia.
  replace (4 * rc + (4 + k) - 4)%nat with (length P + k)%nat by lia.
  rewrite app_nth2 by lia. replace (length P + k - length P)%nat with k by lia.
  rewrite last_app_ne by assumption.
  change (Nat.ltb 6 4) with false. cbn [andb].
  destruct (Nat.eqb k 0); reflexivity.
Qed.

(* one pass of the loop body = four steps of the FIPS recurrence *)
Lemma expand_step_128 : forall pre t0 t1 t2 t3 rc,
  length pre = (4 * rc)%nat -> (rc < 10)%nat ->
  key_expansion 4 4 (map wbytes (pre ++ [t0; t1; t2; t3])) =
  map wbytes ((pre ++ [t0; t1; t2; t3]) ++ expand_step 4 [t0; t1; t2; t3] rc).
Proof.
  intros pre t0 t1 t2 t3 rc Hl Hrc.
  destruct (rcon_model rc Hrc) as [Hr1 Hr2].
  unfold expand_step. change (Nat.eqb 4 8) with false. cbv iota.
  cbn [hd tl scan_xor nth Nat.sub].
  set (t0' := Z.lxor t0 (sub_rot t3 (nth rc aes_RCON 0))).
  set (t1' := Z.lxor t1 t0'). set (t2' := Z.lxor t2 t1'). set (t3' := Z.lxor t3 t2').
  rewrite !map_app. cbn [map].
  set (P := map wbytes pre).
  assert (HP : length P = (4 * rc)%nat) by (unfold P; rewrite map_length; assumption).
  (* w[4rc+4] *)
  change (key_expansion 4 4 (P ++ [wbytes t0; wbytes t1; wbytes t2; wbytes t3]))
    with (key_expansion 3 4 ((P ++ [wbytes t0; wbytes t1; wbytes t2; wbytes t3]) ++
                             [next_word 4 (P ++ [wbytes t0; wbytes t1; wbytes t2; wbytes t3])])).
  rewrite (next_word_128 P [wbytes t0; wbytes t1; wbytes t2; wbytes t3] rc 0) by (auto; lia).
  cbn [Nat.eqb nth last]. unfold Rcon. replace (S rc - 1)%nat with rc by lia. rewrite <- Hr1.
  rewrite <- wbytes_sub_rot by assumption. rewrite <- wbytes_lxor. fold t0'.
  rewrite <- app_assoc. cbn [app].
  (* w[4rc+5] *)
  change (key_expansion 3 4 (P ++ [wbytes t0; wbytes t1; wbytes t2; wbytes t3; wbytes t0']))
    with (key_expansion 2 4 ((P ++ [wbytes t0; wbytes t1; wbytes t2; wbytes t3; wbytes t0']) ++
                             [next_word 4 (P ++ [wbytes t0; wbytes t1; wbytes t2; wbytes t3; wbytes t0'])])).
  rewrite (next_word_128 P [wbytes t0; wbytes t1; wbytes t2; wbytes t3; wbytes t0'] rc 1) by (auto; lia).
  cbn [Nat.eqb nth last]. rewrite <- wbytes_lxor. fold t1'.
  rewrite <- app_assoc. cbn [app].
  (* w[4rc+6] *)
  change (key_expansion 2 4 (P ++ [wbytes t0; wbytes t1; wbytes t2; wbytes t3; wbytes t0'; wbytes t1']))
    with (key_expansion 1 4 ((P ++ [wbytes t0; wbytes t1; wbytes t2; wbytes t3; wbytes t0'; wbytes t1']) ++
                             [next_word 4 (P ++ [wbytes t0; wbytes t1; wbytes t2; wbytes t3; wbytes t0'; wbytes t1'])])).
  rewrite (next_word_128 P [wbytes t0; wbytes t1; wbytes t2; wbytes t3; wbytes t0'; wbytes t1'] rc 2) by (auto; lia).
  cbn [Nat.eqb nth last]. rewrite <- wbytes_lxor. fold t2'.
  rewrite <- app_assoc. cbn [app].
  (* w[4rc+7] *)
  change (key_expansion 1 4 (P ++ [wbytes t0; wbytes t1; wbytes t2; wbytes t3; wbytes t0'; wbytes t1'; wbytes t2']))
    with ((P ++ [wbytes t0; wbytes t1; wbytes t2; wbytes t3; wbytes t0'; wbytes t1'; wbytes t2']) ++
          [next_word 4 (P ++ [wbytes t0; wbytes t1; wbytes t2; wbytes t3; wbytes t0'; wbytes t1'; wbytes t2'])]).
  rewrite (next_word_128 P [wbytes t0; wbytes t1; wbytes t2; wbytes t3; wbytes t0'; wbytes t1'; wbytes t2'] rc 3) by (auto; lia).
  cbn [Nat.eqb nth last]. rewrite <- wbytes_lxor. fold t3'.
  rewrite <- !app_assoc. reflexivity.
Qed.

Lemma key_expansion_length : forall f nk w, length (key_expansion f nk w) = (f + length w)%nat.
Proof.
  induction f; intros; cbn [key_expansion]; [reflexivity|]. rewrite IHf, app_length. cbn [length]. lia.
Qed.

Lemma key_expansion_add : forall a b nk w,
  key_expansion (a + b) nk w = key_expansion b nk (key_expansion a nk w).
Proof. induction a; intros; cbn [Nat.add key_expansion]; auto. Qed.

Lemma expand_step_shape : forall t0 t1 t2 t3 rc,
  expand_step 4 [t0; t1; t2; t3] rc =
  let t0' := Z.lxor t0 (sub_rot t3 (nth rc aes_RCON 0)) in
  let t1' := Z.lxor t1 t0' in let t2' := Z.lxor t2 t1' in let t3' := Z.lxor t3 t2' in
  [t0'; t1'; t2'; t3'].
Proof. reflexivity. Qed.

Lemma expand_loop_128 : forall n fuel pre t0 t1 t2 t3 rc,
  length pre = (4 * rc)%nat -> (rc + n = 10)%nat -> (n <= fuel)%nat ->
  exists w', expand_loop fuel 4 44 [t0; t1; t2; t3] rc (pre ++ [t0; t1; t2; t3]) = Some w' /\
             map wbytes w' = key_expansion (4 * n) 4 (map wbytes (pre ++ [t0; t1; t2; t3])).
Proof.
  induction n as [|n IH]; intros fuel pre t0 t1 t2 t3 rc Hl Hn Hf.
  - exists (pre ++ [t0; t1; t2; t3]). split; [|reflexivity].
    assert (Hlen : length (pre ++ [t0; t1; t2; t3]) = 44%nat) by (rewrite app_length; cbn [length]; lia).
    destruct fuel; cbn [expand_loop]; rewrite Hlen; reflexivity.
  - destruct fuel as [|fuel]; [lia|].
    assert (Hlen : length (pre ++ [t0; t1; t2; t3]) = (4 * rc + 4)%nat) by (rewrite app_length; cbn [length]; lia).
    cbn [expand_loop]. rewrite Hlen.
    replace (Nat.leb 44 (4 * rc + 4)) with false by (symmetry; apply Nat.leb_gt; lia).
    rewrite expand_step_shape. cbv zeta.
    set (t0' := Z.lxor t0 (sub_rot t3 (nth rc aes_RCON 0))).
    set (t1' := Z.lxor t1 t0'). set (t2' := Z.lxor t2 t1'). set (t3' := Z.lxor t3 t2').
    replace (firstn (44 - (4 * rc + 4)) (firstn 4 [t0'; t1'; t2'; t3'])) with [t0'; t1'; t2'; t3'].
    2:{ cbn [firstn]. symmetry. apply firstn_all2. cbn [length]. lia. }
    destruct (IH fuel (pre ++ [t0; t1; t2; t3]) t0' t1' t2' t3' (S rc)) as (w' & Hw & Hm); try lia.
    exists w'. split; [exact Hw|].
    rewrite Hm. replace (4 * S n)%nat with (4 + 4 * n)%nat by lia.
    rewrite key_expansion_add. f_equal.
    rewrite (expand_step_128 pre t0 t1 t2 t3 rc) by (auto; lia).
    rewrite expand_step_shape. reflexivity.
Qed.

Lemma div_mod_shift : forall u d m, 0 < d ->
  ((u - (256 * m) * d) / d) mod 256 = (u / d) mod 256.
Proof.
  intros u d m Hd.
  replace (u - 256 * m * d) with (u + (- (256 * m)) * d) by ring.
  rewrite Z.div_add by lia.
  replace (u / d + - (256 * m)) with (u / d + (- m) * 256) by ring.
  apply Z_mod_plus_full.
Qed.

Lemma wbytes_unpack : forall b0 b1 b2 b3, bytes_ok [b0; b1; b2; b3] = true ->
  wbytes (unpack_be_i32 [b0; b1; b2; b3]) = [b0; b1; b2; b3].
Proof.
  intros b0 b1 b2 b3 H. unfold unpack_be_i32.
  destruct (be_int [b0; b1; b2; b3] <? 2147483648); [apply wbytes_be_int4; assumption|].
  rewrite <- (wbytes_be_int4 b0 b1 b2 b3 H) at 2.
  unfold wbytes, byte_of.
  change 255 with (Z.ones 8). rewrite !Z.land_ones by lia. rewrite !Z.shiftr_div_pow2 by lia.
  change (2 ^ 24) with 16777216. change (2 ^ 16) with 65536. change (2 ^ 8) with 256. change (2 ^ 0) with 1.
  generalize (be_int [b0; b1; b2; b3]). intros u.
  change (2 ^ 8) with 256.
  rewrite <- (div_mod_shift u 16777216 1) by lia.
  rewrite <- (div_mod_shift u 65536 256) by lia.
  rewrite <- (div_mod_shift u 256 65536) by lia.
  rewrite <- (div_mod_shift u 1 16777216) by lia.
  reflexivity.
Qed.

Lemma group4_round_keys : forall n w, length w = (4 * n)%nat ->
  map st_bytes (group4 n w) = round_keys_of (map wbytes w).
Proof.
  induction n as [|n IH]; intros w Hl.
  - destruct w; [reflexivity|discriminate].
  - do 4 (destruct w as [|? w]; [simpl in Hl; lia|]).
    cbn [group4 nth skipn map round_keys_of st_bytes]. f_equal.
    apply IH. cbn [length] in Hl. lia.
Qed.

(* For every 16-byte key: _AES.__init__ succeeds and its encryption round keys are the
   FIPS-197 key schedule. *)
Theorem aes128_key_schedule_is_fips197 : forall key,
  length key = 16%nat -> bytes_ok key = true ->
  exists ke, aes_init key = Some ke /\ map st_bytes ke = round_keys_of (key_schedule_128 key) /\
             length ke = 11%nat.
Proof.
  intros key Hl Hok.
  do 16 (destruct key as [|? key]; [discriminate|]). destruct key; [|discriminate].
  unfold aes_init. change (len _) with 16. change (lookup_rounds 16 aes_ROUNDS) with (Some 10).
  cbv iota beta. change (Z.to_nat ((10 + 1) * 4)) with 44%nat. change (Z.to_nat (10 + 1)) with 11%nat.
  change (Nat.div (length _) 4) with 4%nat.
  cbn [words_of firstn skipn].
  match goal with |- context [expand_loop 44 4 44 [?a; ?b; ?c; ?d] 0 _] =>
    destruct (expand_loop_128 10 44 [] a b c d 0) as (w' & Hw & Hm); try reflexivity; try lia end.
  cbn [app] in Hw, Hm. rewrite Hw.
  assert (Hlen : length w' = 44%nat).
  { apply (f_equal (@length _)) in Hm. rewrite map_length in Hm. rewrite Hm.
    rewrite key_expansion_length. reflexivity. }
  eexists. split; [reflexivity|]. split.
  - rewrite group4_round_keys by (rewrite Hlen; reflexivity).
    rewrite Hm. unfold key_schedule_128. cbn [words4 firstn skipn map].
    cbn [bytes_ok forallb] in Hok. rewrite !andb_true_iff in Hok.
    rewrite !wbytes_unpack by (cbn [bytes_ok forallb]; rewrite !andb_true_iff; tauto).
    reflexivity.
  - apply group4_length.
Qed.

(* builtin AES-128 encryption of one block = FIPS-197 Cipher(in, KeyExpansion(key)) *)
Theorem aes128_is_fips197 : forall key pt,
  length key = 16%nat -> bytes_ok key = true -> length pt = 16%nat -> bytes_ok pt = true ->
  exists ke, aes_init key = Some ke /\
             aes_encrypt ke pt = Some (cipher (round_keys_of (key_schedule_128 key)) pt).
Proof.
  intros key pt Hk Hko Hp Hpo.
  destruct (aes128_key_schedule_is_fips197 key Hk Hko) as (ke & Hi & Hr & Hlen).
  exists ke. split; [assumption|].
  rewrite <- Hr. apply aes_encrypt_is_fips197_cipher; auto. lia.
Qed.

(* Core Vol 3 Part H 2.2.1: security function e = AES-128 (FIPS-197), bumble passing and
   returning the 128-bit values least significant byte first *)
Definition e_spec (key data : list Z) : list Z :=
  rev (cipher (round_keys_of (key_schedule_128 (rev key))) (rev data)).

Theorem e_builtin_is_aes128 : forall key data,
  length key = 16%nat -> bytes_ok key = true -> length data = 16%nat -> bytes_ok data = true ->
  e_builtin key data = Some (e_spec key data).
Proof.
  intros key data Hk Hko Hd Hdo. unfold e_builtin, e_spec.
  destruct (aes128_is_fips197 (rev key) (rev data)) as (ke & Hi & He);
    try (rewrite rev_length; assumption); try (rewrite bytes_ok_rev; assumption).
  rewrite Hi. f_equal. f_equal. unfold ecb_encrypt.
  assert (Hc : chunks16 (rev data) = [rev data]).
  { rewrite <- (app_nil_r (rev data)) at 1. change (rev data ++ []) with (concat [rev data]).
    apply chunks16_concat. repeat constructor. rewrite rev_length. assumption. }
  rewrite Hc. cbn [map concat]. rewrite app_nil_r. unfold ljust16. rewrite rev_length, Hd.
  change (16 - 16)%nat with 0%nat. change (zeros 0) with (@nil Z). rewrite app_nil_r.
  unfold aes_block. rewrite He. reflexivity.
Qed.
